(** C01: histories of handshake activity keep every session and resumption record backed by a valid chain. *)
From Coq Require Import ZifyN ZifyBool.
From RsM Require Import Lib.MachInt Model.Cert Model.CertSpec Model.Case Model.CaseSpec
  Proofs.CertTheorems Proofs.CaseFacts.
From RsM Require Import Proofs.CaseResponder Proofs.CaseInitiator Proofs.CaseNextId.
Open Scope N_scope.

Arguments N.add : simpl never.
Arguments N.eqb : simpl never.

(** every operational session and every resumption record of the node is backed by a certificate chain
    valid for the fabric it is bound to, naming its peer node id and CATs *)
Definition node_backed (st : node) : Prop :=
  cache_backed st /\ forall s, In s (n_sessions st) -> s_reserved s = false -> sess_backed st s.

(** What a node does in the CASE protocol, one handler at a time; the messages are ARBITRARY (whatever
    the network delivers). *)
Inductive activity :=
| ActRespond (fr : fresh) (ms : list msg)
| ActInitiate (fr : fresh) (fab peer : N) (ms : list msg) (sent : bool).

Definition do_activity (st : node) (a : activity) : node :=
  match a with
  | ActRespond fr ms =>
      let '(st1, rs, _) := resp_run st RIdle fr ms in resp_abort st1 rs
  | ActInitiate fr fab peer ms sent =>
      let o := init_start st fr fab peer in
      let '(st1, s1, _) := init_run (io_node o) (io_state o) ms in
      let '(st2, s2) := init_sent st1 s1 sent in
      init_abort st2 s2
  end.

Lemma record_backed_frame : forall st st' r, same_frame st st' -> record_backed st r -> record_backed st' r.
Proof.
  intros st st' r [Hf Hc] (f & noc & icac & H1 & H2 & H3 & H4). exists f, noc, icac.
  rewrite Hf, Hc. auto.
Qed.

Lemma sess_backed_frame : forall st st' s, same_frame st st' -> sess_backed st s -> sess_backed st' s.
Proof.
  intros st st' s [Hf Hc] (f & noc & icac & H1 & H2 & H3 & H4). exists f, noc, icac.
  rewrite Hf, Hc. auto.
Qed.

Lemma same_frame_refl : forall st, same_frame st st.
Proof. intros; split; reflexivity. Qed.

Lemma same_frame_trans : forall a b c, same_frame a b -> same_frame b c -> same_frame a c.
Proof. intros a b c [H1 H2] [H3 H4]. split; congruence. Qed.

Lemma resp_abort_frame : forall st rs, same_frame st (resp_abort st rs) /\ n_cache (resp_abort st rs) = n_cache st
  /\ n_next_id (resp_abort st rs) = n_next_id st.
Proof.
  intros st rs. destruct rs; cbn [resp_abort]; repeat split; reflexivity.
Qed.

Lemma init_abort_frame : forall st s, same_frame st (init_abort st s) /\ n_cache (init_abort st s) = n_cache st
  /\ n_next_id (init_abort st s) = n_next_id st.
Proof.
  intros st s. destruct s; cbn [init_abort]; repeat split; reflexivity.
Qed.

Lemma backed_of : forall st st' (l : list session) (c : list record),
  same_frame st st' -> node_backed st ->
  n_sessions st' = l -> n_cache st' = c ->
  (forall s, In s l -> s_reserved s = false -> In s (n_sessions st) \/ sess_backed st s) ->
  (forall r, In r c -> In r (n_cache st) \/ record_backed st r) ->
  node_backed st'.
Proof.
  intros st st' l c Hfr [Hcb Hsb] Hl Hc Hs Hr. split.
  - intros r Hin. rewrite Hc in Hin. apply (record_backed_frame st st' r Hfr).
    destruct (Hr r Hin) as [H|H]; [apply Hcb; exact H|exact H].
  - intros s Hin Hres. rewrite Hl in Hin. apply (sess_backed_frame st st' s Hfr).
    destruct (Hs s Hin Hres) as [H|H]; [apply Hsb; assumption|exact H].
Qed.

Lemma sessions_wf_of : forall st st', sessions_wf st -> n_sessions st' = n_sessions st ->
  n_next_id st <= n_next_id st' -> sessions_wf st'.
Proof. intros st st' H E Hn s Hs. rewrite E in Hs. apply H in Hs. lia. Qed.

Lemma in_app_single : forall A (l : list A) x y, In y (l ++ [x]) -> In y l \/ y = x.
Proof. intros A l x y H. apply in_app_or in H. destruct H as [H|[H|[]]]; auto. Qed.

(** One activity keeps the node well formed and backed. *)
Theorem activity_backed : forall st a,
  node_wf st -> node_backed st ->
  node_wf (do_activity st a) /\ node_backed (do_activity st a) /\ same_frame st (do_activity st a).
Proof.
  intros st a Hwf Hb. pose proof Hwf as [Hfwf Hswf]. pose proof Hb as [Hcb Hsb].
  destruct a as [fr ms|fr fab peer ms sent]; cbn [do_activity].
  - destruct (resp_run st RIdle fr ms) as [[st1 rs] out] eqn:Hrun.
    pose proof (responder_run_sound st fr ms st1 rs out Hwf Hrun) as (Hfr & Hwf1 & Hcases).
    pose proof (resp_abort_frame st1 rs) as (Hfa & Hca & Hna).
    assert (Hfr2 : same_frame st (resp_abort st1 rs)) by (eapply same_frame_trans; eassumption).
    assert (Hfw2 : fabrics_wf (n_fabrics (resp_abort st1 rs))) by (destruct Hfr2 as [E _]; rewrite E; exact Hfwf).
    destruct Hcases as [(Hs & Hc & Hab)|[(x & Hs & Hres & Hc & Hab)|[(s & m1 & m3 & rest & rid & sec & f & Hms & Hs & Hrs & Hsound & Hgf & Hc)|(s & m1 & mf & rest & r & new_rid & Hms & Hs & Hrs & Hsound & Hop & Hok & Hin & Hf & Hp & Hcs & Hc)]]].
    + rewrite Hab. split; [split; [destruct Hfr as [E _]; rewrite E; exact Hfwf|exact Hwf1]|]. split; [|exact Hfr].
      apply (backed_of st st1 _ _ Hfr Hb Hs Hc); intros; left; assumption.
    + split; [split; [exact Hfw2|]|]. 
      { intros s Hs'. rewrite Hab in Hs'. rewrite Hna. apply Hswf in Hs'.
        pose proof (resp_run_next_id _ _ _ _ _ _ _ Hrun). lia. }
      split; [|exact Hfr2].
      apply (backed_of st _ _ _ Hfr2 Hb Hab (eq_trans Hca Hc)); intros; left; assumption.
    + subst rs. cbn [resp_abort] in *.
      split; [split; [destruct Hfr as [E _]; rewrite E; exact Hfwf|exact Hwf1]|]. split; [|exact Hfr].
      pose proof (full_sound_backed st fr m1 m3 s Hfwf Hsound) as Hsb'.
      apply (backed_of st st1 _ _ Hfr Hb Hs Hc).
      * intros s0 Hin _. apply in_app_single in Hin. destruct Hin as [Hin| ->]; [left; exact Hin|right; exact Hsb'].
      * intros r Hin. apply insert_or_update_in in Hin. destruct Hin as [-> |Hin]; [right|left; exact Hin].
        destruct Hsb' as (f' & noc & icac & H1 & H2 & H3 & H4). exists f', noc, icac. cbn. auto.
    + subst rs. cbn [resp_abort] in *.
      split; [split; [destruct Hfr as [E _]; rewrite E; exact Hfwf|exact Hwf1]|]. split; [|exact Hfr].
      pose proof (Hcb r Hin) as (f' & noc & icac & H1 & H2 & H3 & H4).
      apply (backed_of st st1 _ _ Hfr Hb Hs Hc).
      * intros s0 Hin0 _. apply in_app_single in Hin0. destruct Hin0 as [Hin0| ->]; [left; exact Hin0|right].
        exists f', noc, icac. rewrite Hf, Hp, Hcs. auto.
      * intros r0 Hin0. apply insert_or_update_in in Hin0. destruct Hin0 as [-> |Hin0]; [right|left; exact Hin0].
        exists f', noc, icac. cbn. auto.
  - destruct (init_run (io_node (init_start st fr fab peer)) (io_state (init_start st fr fab peer)) ms)
      as [[st1 s1] out] eqn:Hrun.
    pose proof (initiator_run_sound st fr fab peer ms st1 s1 out Hwf Hrun) as (Hfr & Hwf1 & Hcases).
    destruct Hcases as [(Hs & Hc & Hst)|[(x & Hs & Hres & Hc & Hab & Hse1 & Hse2)|[(s & m1 & m2 & mst & rest & rid & sec & Hm1 & Hms & Hs & Hst & Hsound & Hop & Hok & Hc)|(s & m2 & rest & r & new_rid & Hms & Hs & Hst & Hfind & Hsound & Hc)]]].
    + subst s1. cbn [init_sent init_abort].
      split; [split; [destruct Hfr as [E _]; rewrite E; exact Hfwf|exact Hwf1]|]. split; [|exact Hfr].
      apply (backed_of st st1 _ _ Hfr Hb Hs Hc); intros; left; assumption.
    + assert (Hse : init_sent st1 s1 sent = (st1, s1)) by (destruct sent; assumption).
      rewrite Hse.
      pose proof (init_abort_frame st1 s1) as (Hfa & Hca & Hna).
      assert (Hfr2 : same_frame st (init_abort st1 s1)) by (eapply same_frame_trans; eassumption).
      split; [split; [destruct Hfr2 as [E _]; rewrite E; exact Hfwf|]|].
      { intros s Hs'. rewrite Hab in Hs'. rewrite Hna. apply Hswf in Hs'.
        pose proof (init_run_next_id _ _ _ _ _ _ Hrun). pose proof (init_start_next_id st fr fab peer). lia. }
      split; [|exact Hfr2].
      apply (backed_of st _ _ _ Hfr2 Hb Hab (eq_trans Hca Hc)); intros; left; assumption.
    + subst s1. cbn [init_sent init_abort].
      split; [split; [destruct Hfr as [E _]; rewrite E; exact Hfwf|exact Hwf1]|]. split; [|exact Hfr].
      assert (Hsb' : sess_backed st s).
      { destruct Hsound as (f & rr & rpub & noc & icac & sig & rid' & cats & Hgf & H). cbn zeta in H.
        destruct H as (_ & _ & _ & Hcv & Hn & _ & Hcats & Hf & Hp & Hcs & _).
        exists f, noc, icac. rewrite Hf, Hp, Hcs. auto. }
      apply (backed_of st st1 _ _ Hfr Hb Hs Hc).
      * intros s0 Hin _. apply in_app_single in Hin. destruct Hin as [Hin| ->]; [left; exact Hin|right; exact Hsb'].
      * intros r Hin. apply insert_or_update_in in Hin. destruct Hin as [-> |Hin]; [right|left; exact Hin].
        destruct Hsb' as (f' & noc & icac & H1 & H2 & H3 & H4). exists f', noc, icac. cbn. auto.
    + subst s1. pose proof (find_by_peer_in _ _ _ _ Hfind) as (Hin & Hrf & Hrp).
      pose proof (Hcb r Hin) as (f' & noc & icac & H1 & H2 & H3 & H4).
      destruct Hsound as (r' & nr & f & Hfind' & _ & _ & _ & Hf & _ & Hp & _ & Hcs & _).
      assert (r' = r) by congruence. subst r'.
      assert (Hsb' : sess_backed st s) by (exists f', noc, icac; rewrite Hf, Hp, Hcs; auto).
      destruct sent; cbn [init_sent init_abort].
      * split; [split; [destruct Hfr as [E _]; cbn; rewrite E; exact Hfwf|]|].
        { intros s0 Hs0. cbn in Hs0 |- *. apply Hwf1. exact Hs0. }
        split; [|destruct Hfr; split; cbn; assumption].
        assert (Hfr' : same_frame st (set_cache st1 (insert_or_update (n_cache st1)
                  (mkRecord (r_fab r) (r_peer r) (r_cats r) new_rid (r_secret r))))) by (destruct Hfr; split; cbn; assumption).
        apply (backed_of st _ (n_sessions st ++ [s]) (insert_or_update (n_cache st1)
                  (mkRecord (r_fab r) (r_peer r) (r_cats r) new_rid (r_secret r))) Hfr' Hb); [cbn; exact Hs|reflexivity| |].
        -- intros s0 Hin0 _. apply in_app_single in Hin0. destruct Hin0 as [Hin0| ->]; [left; exact Hin0|right; exact Hsb'].
        -- cbn [n_cache set_cache]. intros r0 Hin0. apply insert_or_update_in in Hin0. rewrite Hc in Hin0.
           destruct Hin0 as [-> |Hin0]; [right|left; exact Hin0].
           exists f', noc, icac. cbn. auto.
      * split; [split; [destruct Hfr as [E _]; rewrite E; exact Hfwf|exact Hwf1]|]. split; [|exact Hfr].
        apply (backed_of st st1 _ _ Hfr Hb Hs Hc).
        -- intros s0 Hin0 _. apply in_app_single in Hin0. destruct Hin0 as [Hin0| ->]; [left; exact Hin0|right; exact Hsb'].
        -- intros; left; assumption.
Qed.

(** Any history of activities, every message chosen by an adversary. *)
Theorem history_backed : forall acts st,
  node_wf st -> node_backed st ->
  node_wf (fold_left do_activity acts st) /\ node_backed (fold_left do_activity acts st) /\
  same_frame st (fold_left do_activity acts st).
Proof.
  induction acts as [|a r IH]; intros st Hwf Hb; cbn [fold_left].
  - repeat split; try assumption; try apply Hwf; try apply Hb.
  - destruct (activity_backed st a Hwf Hb) as (Hwf1 & Hb1 & Hfr1).
    destruct (IH _ Hwf1 Hb1) as (Hwf2 & Hb2 & Hfr2).
    split; [exact Hwf2|]. split; [exact Hb2|]. eapply same_frame_trans; eassumption.
Qed.

(** A session set up by resumption after any history copies fabric, peer and CATs from a record of the
    cache; that record is backed by a chain valid for the fabric at its index (which exists). *)
Theorem resume_sound : forall st0 acts m1 s,
  node_wf st0 -> node_backed st0 ->
  let st := fold_left do_activity acts st0 in
  responder_resume_sound st m1 s ->
  sess_backed st s /\
  exists r, In r (n_cache st) /\ s_fab s = r_fab r /\ s_peer s = r_peer r /\ s_cats s = r_cats r /\
            record_backed st r.
Proof.
  intros st0 acts m1 s Hwf Hb st (q & r & rid & f & Hq & Hrid & Hin & Hrr & Hmic & Hgf & Hf & Hp & Hc & _).
  destruct (history_backed acts st0 Hwf Hb) as (_ & [Hcb _] & _). fold st in Hcb.
  pose proof (Hcb r Hin) as Hrb. split.
  - destruct Hrb as (f' & noc & icac & H1 & H2 & H3 & H4). exists f', noc, icac. rewrite Hf, Hp, Hc. auto.
  - exists r. auto.
Qed.

(* ------------------------------------------------------------------ one record per peer *)

(** [insert_or_update] supersedes: afterwards the only record for that (fabric, peer) is the new one *)
Lemma insert_or_update_supersedes : forall l r x,
  In x (insert_or_update l r) -> r_fab x = r_fab r -> r_peer x = r_peer r -> x = r.
Proof.
  intros l r x H Hf Hp. unfold insert_or_update in H. apply in_app_or in H. destruct H as [H|[H|[]]]; [|auto].
  exfalso.
  assert (Hx : In x (filter (fun y => negb ((r_fab y =? r_fab r) && (r_peer y =? r_peer r))) l)).
  { destruct (Nat.leb MAX_RECORDS _) in H; [apply in_tl in H|]; exact H. }
  apply filter_In in Hx. destruct Hx as [_ Hx]. rewrite Hf, Hp, !N.eqb_refl in Hx. discriminate.
Qed.

(** Whenever a responder handler (any message sequence) leaves a new operational session [s], EVERY record of
    the resumption cache for (s's fabric, s's peer) afterwards carries s's CATs: a full handshake replaces the
    earlier record of that peer, a resumption only rotates its id.  So a later resumption can only give the CATs
    of the certificate validated LAST for that peer. *)
Theorem session_supersedes_records : forall st fr ms st' rs' out s,
  node_wf st -> resp_run st RIdle fr ms = (st', rs', out) ->
  n_sessions st' = n_sessions st ++ [s] -> s_reserved s = false ->
  forall x, In x (n_cache st') -> r_fab x = s_fab s -> r_peer x = s_peer s -> r_cats x = s_cats s.
Proof.
  intros st fr ms st' rs' out s Hwf Hrun Hs Hres x Hin Hf Hp.
  destruct (responder_run_sound st fr ms st' rs' out Hwf Hrun) as (_ & _ & Hc).
  destruct Hc as [(E & _)|[(y & E & Hy & _)|[(s0 & m1 & m3 & rest & rid & sec & f & _ & E & _ & _ & _ & Hc)|(s0 & m1 & mf & rest & r & nr & _ & E & _ & _ & _ & _ & _ & Hf0 & Hp0 & Hc0 & Hc)]]].
  - exfalso. rewrite Hs in E. apply (f_equal (@length session)) in E. rewrite app_length in E. cbn in E. lia.
  - exfalso. rewrite Hs in E. apply app_inj_tail in E. destruct E as [_ E]. congruence.
  - rewrite Hs in E. apply app_inj_tail in E. destruct E as [_ <-]. rewrite Hc in Hin.
    apply insert_or_update_supersedes in Hin; [subst x; reflexivity|exact Hf|exact Hp].
  - rewrite Hs in E. apply app_inj_tail in E. destruct E as [_ <-]. rewrite Hc in Hin.
    apply insert_or_update_supersedes in Hin; cbn [r_fab r_peer]; [subst x; cbn; congruence|congruence|congruence].
Qed.

(** the same for the initiator after a full handshake *)
Theorem initiator_session_supersedes_records : forall st fr fab peer ms st' out s,
  node_wf st ->
  init_run (io_node (init_start st fr fab peer)) (io_state (init_start st fr fab peer)) ms = (st', IDone true, out) ->
  n_sessions st' = n_sessions st ++ [s] ->
  forall x, In x (n_cache st') -> r_fab x = s_fab s -> r_peer x = s_peer s -> r_cats x = s_cats s.
Proof.
  intros st fr fab peer ms st' out s Hwf Hrun Hs x Hin Hf Hp.
  destruct (initiator_run_sound st fr fab peer ms st' (IDone true) out Hwf Hrun) as (_ & _ & Hc).
  destruct Hc as [(_ & _ & E)|[(y & E & _ & _ & Hab & _)|[(s0 & m1 & m2 & mst & rest & rid & sec & _ & _ & E & _ & _ & _ & _ & Hc)|(s0 & m2 & rest & r & nr & _ & _ & E & _)]]]; try discriminate.
  - exfalso. cbn [init_abort] in Hab. rewrite E in Hab. apply (f_equal (@length session)) in Hab.
    rewrite app_length in Hab. cbn in Hab. lia.
  - rewrite Hs in E. apply app_inj_tail in E. destruct E as [_ <-]. rewrite Hc in Hin.
    apply insert_or_update_supersedes in Hin; [subst x; reflexivity|exact Hf|exact Hp].
Qed.
