(** List facts used by the path-expander proofs: first element satisfying a
    test, [skipn], [filter] over [flat_map], lower bounds in sorted lists. *)
From RsM Require Import Lib.MachInt.
From Coq Require Import ZifyN ZifyBool.

(** offset and value of the first element satisfying [f] *)
Fixpoint first_ok {A} (f : A -> bool) (l : list A) : option (nat * A) :=
  match l with
  | [] => None
  | x :: r =>
      if f x then Some (0%nat, x)
      else match first_ok f r with
           | Some (k, y) => Some (S k, y)
           | None => None
           end
  end.

Lemma first_ok_none {A} (f : A -> bool) (l : list A) :
  first_ok f l = None -> filter f l = [].
Proof.
  induction l as [|x r IH]; cbn [first_ok filter]; [reflexivity|].
  destruct (f x); [discriminate|].
  destruct (first_ok f r) as [[k y]|]; [discriminate|]. intros _. apply IH. reflexivity.
Qed.

Lemma first_ok_some {A} (f : A -> bool) (l : list A) (k : nat) (x : A) :
  first_ok f l = Some (k, x) ->
  filter f l = x :: filter f (skipn (S k) l) /\ nth_error l k = Some x /\ f x = true.
Proof.
  revert k. induction l as [|y r IH]; intros k H; cbn [first_ok] in H; [discriminate|].
  destruct (f y) eqn:Hy.
  - injection H as <- <-. cbn [filter skipn nth_error]. rewrite Hy. repeat split; assumption.
  - destruct (first_ok f r) as [[k' z]|] eqn:Hr; [|discriminate]. injection H as <- <-.
    destruct (IH k' eq_refl) as [Hf [Hn Hx]].
    cbn [filter nth_error]. rewrite Hy. change (skipn (S (S k')) (y :: r)) with (skipn (S k') r).
    repeat split; assumption.
Qed.

Lemma skipn_skipn {A} (a b : nat) (l : list A) : skipn a (skipn b l) = skipn (b + a) l.
Proof.
  revert l. induction b as [|b IH]; intros l; [reflexivity|].
  destruct l as [|x l]; [destruct a; reflexivity|]. cbn [skipn Nat.add]. apply IH.
Qed.

Lemma skipn_cons_nth {A} (i : nat) (l : list A) (x : A) (r : list A) :
  skipn i l = x :: r -> nth_error l i = Some x /\ skipn (S i) l = r.
Proof.
  revert l. induction i as [|i IH]; intros l H.
  - cbn [skipn] in H. subst l. split; reflexivity.
  - destruct l as [|y l]; [discriminate|]. cbn [skipn] in H. apply IH in H. exact H.
Qed.

Lemma nth_skipn_cons {A} (i : nat) (l : list A) (x : A) :
  nth_error l i = Some x -> skipn i l = x :: skipn (S i) l.
Proof.
  revert l. induction i as [|i IH]; intros l H.
  - destruct l; [discriminate|]. injection H as ->. reflexivity.
  - destruct l as [|y l]; [discriminate|]. cbn [nth_error] in H. cbn [skipn]. apply IH. exact H.
Qed.

Lemma nth_error_skipn {A} (i k : nat) (l : list A) :
  nth_error (skipn i l) k = nth_error l (i + k).
Proof.
  revert l. induction i as [|i IH]; intros l; [reflexivity|].
  destruct l as [|y l]; [destruct k; reflexivity|]. cbn [skipn Nat.add nth_error]. apply IH.
Qed.

Lemma skipn_incl {A} (i : nat) (l : list A) (x : A) : In x (skipn i l) -> In x l.
Proof.
  revert l. induction i as [|i IH]; intros l H; [exact H|].
  destruct l as [|y l]; [exact H|]. right. apply IH. exact H.
Qed.

Lemma filter_flat_map {A B} (f : B -> bool) (g : A -> list B) (l : list A) :
  filter f (flat_map g l) = flat_map (fun x => filter f (g x)) l.
Proof.
  induction l as [|x l IH]; [reflexivity|]. cbn [flat_map]. rewrite filter_app, IH. reflexivity.
Qed.

Lemma filter_map_comm {A B} (f : B -> bool) (g : A -> B) (l : list A) :
  filter f (map g l) = map g (filter (fun x => f (g x)) l).
Proof.
  induction l as [|x l IH]; [reflexivity|]. cbn [map filter]. destruct (f (g x)); cbn [map]; rewrite IH; reflexivity.
Qed.

Lemma filter_false {A} (f : A -> bool) (l : list A) :
  (forall x, In x l -> f x = false) -> filter f l = [].
Proof.
  induction l as [|x l IH]; intros H; [reflexivity|]. cbn [filter].
  rewrite (H x (or_introl eq_refl)). apply IH. intros y Hy. apply H. right. exact Hy.
Qed.

Lemma filter_ext_in' {A} (f g : A -> bool) (l : list A) :
  (forall x, In x l -> f x = g x) -> filter f l = filter g l.
Proof.
  induction l as [|x l IH]; intros H; [reflexivity|]. cbn [filter].
  rewrite (H x (or_introl eq_refl)), IH; [reflexivity|]. intros y Hy. apply H. right. exact Hy.
Qed.

Lemma flat_map_ext_in {A B} (f g : A -> list B) (l : list A) :
  (forall x, In x l -> f x = g x) -> flat_map f l = flat_map g l.
Proof.
  induction l as [|x l IH]; intros H; [reflexivity|]. cbn [flat_map].
  rewrite (H x (or_introl eq_refl)), IH; [reflexivity|]. intros y Hy. apply H. right. exact Hy.
Qed.

Lemma filter_filter {A} (f g : A -> bool) (l : list A) :
  filter f (filter g l) = filter (fun x => g x && f x) l.
Proof.
  induction l as [|x l IH]; [reflexivity|]. cbn [filter].
  destruct (g x); cbn [andb filter]; [destruct (f x)|]; rewrite IH; reflexivity.
Qed.

Lemma find_some_in_unique {A} (key : A -> N) (l : list A) (x : A) :
  NoDup (map key l) -> In x l -> find (fun y => N.eqb (key y) (key x)) l = Some x.
Proof.
  induction l as [|y l IH]; intros Hnd Hin; [destruct Hin|].
  cbn [map] in Hnd. inversion Hnd as [|? ? Hnot Hnd']; subst.
  cbn [find]. destruct Hin as [->|Hin].
  - rewrite N.eqb_refl. reflexivity.
  - destruct (N.eqb_spec (key y) (key x)) as [Heq|_].
    + exfalso. apply Hnot. rewrite Heq. apply in_map. exact Hin.
    + apply IH; assumption.
Qed.
