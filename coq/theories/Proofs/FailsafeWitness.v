(** Witnesses: the two known classes are inhabited (and violate the property), and the
    hypotheses of the theorems are satisfiable on the commissioning flows. *)
From Coq Require Import NArith List Bool.
From RsM Require Import Model.Failsafe Model.FailsafeSpec.
Import ListNotations.
Open Scope N_scope.

(** A commissioning over PASE with a staged network, up to AddNOC *)
Definition w_init := init_state true false 1 true.
Definition w_staging : list op :=
  [OCsr SP false; ORoot SP 1; OAddNoc SP 77; ONetAdd SP 9 (Some 6); OAclW SP 5 false].

(** Known class "partial commit": the second store of CommissioningComplete fails (or power is
    lost between the two stores); after the fail-safe expires (after the restart) the new
    fabric is there - in RAM and in the store - but the staged network is gone. *)
Lemma partial_commit_store_failure :
  let staged := exec w_init (OArm SP 60 5 :: w_staging) in
  let st := exec staged [OComplete (SC 2) 2; OTimeout] in
  s_fs st = Idle /\
  fget 2 (s_fabs st) = fget 2 (s_fabs staged) /\ fget 2 (s_fabs st) <> None /\
  fget 2 (k_fabs (s_kv st)) = fget 2 (s_fabs staged) /\
  s_nets st = s_nets w_init /\ s_nets staged <> s_nets w_init /\
  fget 2 (s_fabs w_init) = None.
Proof. vm_compute. repeat split; try reflexivity; discriminate. Qed.

Lemma partial_commit_power_loss :
  let staged := exec w_init (OArm SP 60 5 :: w_staging) in
  let st := exec staged [OCompleteCut (SC 2) 1] in
  s_fs st = Idle /\
  fget 2 (s_fabs st) = fget 2 (s_fabs staged) /\ fget 2 (s_fabs st) <> None /\
  s_nets st = s_nets w_init /\ s_nets staged <> s_nets w_init /\
  fget 2 (s_fabs w_init) = None.
Proof. vm_compute. repeat split; try reflexivity; discriminate. Qed.

(** Known class "context switch": fail-safe armed over CASE on fabric 1, its ACL changed (staged),
    then AddNOC on the same session moves the context to the new fabric 2; the expiry removes
    fabric 2 but leaves fabric 1's ACL change in RAM, although the store never got it. *)
Definition w_init2 := init_state false true 1 true.
Definition w_switch : list op :=
  [OArm (SC 1) 60 5; OAclW (SC 1) 5 false; OCsr (SC 1) false; ORoot (SC 1) 2; OAddNoc (SC 1) 77].

Lemma context_switch_orphans_staged_change :
  let st := exec w_init2 (w_switch ++ [OTimeout]) in
  s_fs st = Idle /\ fget 2 (s_fabs st) = None /\
  fget 1 (s_fabs st) <> fget 1 (k_fabs (s_kv st)) /\
  fget 1 (k_fabs (s_kv st)) = fget 1 (s_fabs w_init2).
Proof. vm_compute. repeat split; try reflexivity; discriminate. Qed.

Lemma context_switch_not_safe : ~ safe_run w_init2 w_switch.
Proof.
  intro H. unfold w_switch in H. cbn [safe_run] in H.
  destruct H as (_ & _ & _ & _ & _ & _ & _ & _ & _ & H & _).
  vm_compute in H. discriminate.
Qed.

(** The hypotheses of the rollback theorem hold on the staged commissioning (non-vacuity) *)
Lemma staging_is_safe :
  snd (step w_init (OArm SP 60 5)) = StOk /\
  safe_run (fst (step w_init (OArm SP 60 5))) w_staging /\
  nothing_stored (fst (step w_init (OArm SP 60 5))) w_staging.
Proof. vm_compute. repeat split; reflexivity. Qed.

Lemma staging_changes_things :
  let st := exec w_init (OArm SP 60 5 :: w_staging) in
  fget 2 (s_fabs st) <> None /\ s_nets st <> s_nets w_init /\ s_bc st = 6 /\
  s_fs st = Armed 2 (mkFlags true false true true false).
Proof. vm_compute. repeat split; try reflexivity; discriminate. Qed.

(** the UpdateNOC flow *)
Definition w_update : list op :=
  [OCsr (SC 1) true; OUpdNoc (SC 1) 88; OAclW (SC 1) 5 false; ONetAdd (SC 1) 9 None].

Lemma update_flow_is_safe :
  snd (step w_init2 (OArm (SC 1) 60 5)) = StOk /\
  safe_run (fst (step w_init2 (OArm (SC 1) 60 5))) w_update /\
  nothing_stored (fst (step w_init2 (OArm (SC 1) 60 5))) w_update /\
  fget 1 (s_fabs (exec w_init2 (OArm (SC 1) 60 5 :: w_update))) <> fget 1 (s_fabs w_init2).
Proof. vm_compute. repeat split; try reflexivity; discriminate. Qed.

(** a complete commissioning is answered OK *)
Lemma commit_happens :
  snd (step (exec w_init (OArm SP 60 5 :: w_staging)) (OComplete (SC 2) 0)) = StOk.
Proof. vm_compute. reflexivity. Qed.

(** Known class "VID statement": fail-safe armed over CASE on fabric 1, its ACL changed (staged),
    then SetVIDVerificationStatement with no UpdateNOC pending stores the whole fabric - the staged
    ACL with it - and the expiry reloads exactly that. *)
Definition w_vid : list op :=
  [OArm (SC 1) 60 5; OAclW (SC 1) 5 false; OVid (SC 1) 65522 false; OTimeout].

Lemma vid_statement_stores_staged_change :
  let st := exec w_init2 w_vid in
  s_fs st = Idle /\
  option_map f_acl (fget 1 (s_fabs st)) = Some [ADMIN; 5] /\
  option_map f_acl (fget 1 (k_fabs (s_kv st))) = Some [ADMIN; 5] /\
  option_map f_acl (fget 1 (s_fabs w_init2)) = Some [ADMIN] /\
  safe_run w_init2 w_vid /\ ~ nothing_stored w_init2 w_vid /\
  vid_leak (exec w_init2 [OArm (SC 1) 60 5; OAclW (SC 1) 5 false]) (OVid (SC 1) 65522 false) = true.
Proof.
  vm_compute. repeat split; try reflexivity.
  intros (_ & _ & H & _). discriminate.
Qed.

(** the label under the same fail-safe is staged and rolled back together with the ACL *)
Lemma label_is_staged_and_rolled_back :
  let ops := [OAclW (SC 1) 5 false; OLabel (SC 1) 3 false] in
  let st1 := fst (step w_init2 (OArm (SC 1) 60 5)) in
  safe_run st1 ops /\ nothing_stored st1 ops /\
  option_map f_label (fget 1 (s_fabs (exec st1 ops))) = Some 3 /\
  fget 1 (s_fabs (exec st1 (ops ++ [OTimeout]))) = fget 1 (s_fabs w_init2).
Proof. vm_compute. repeat split; reflexivity. Qed.
