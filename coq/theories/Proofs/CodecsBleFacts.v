(** BLE advertisement: what the stack advertises is parsed back, what is
    accepted is in range, the two payload kinds are disjoint. *)
From RsM Require Import Lib.MachInt Model.Headers Model.Codecs Model.CodecsBle
  Proofs.HeadersFacts Proofs.CodecsQr.
From Coq Require Import ZifyN ZifyBool.
Open Scope N_scope.

Arguments N.add : simpl never.
Arguments N.mul : simpl never.
Arguments N.div : simpl never.
Arguments N.modulo : simpl never.
Arguments N.ltb : simpl never.
Arguments N.of_nat : simpl never.
Arguments N.to_nat : simpl never.

Ltac dm_lia := zify; Z.div_mod_to_equations; lia.

(** the two AD records the stack emits: the walk skips the flags record and
    returns the service data *)
Lemma ad_find_records (flags : N) (payload : list N) :
  (length payload <= 252)%nat ->
  matter_service_data (ad_records flags payload) = Some payload.
Proof.
  intro Hl. unfold matter_service_data, ad_records.
  assert (HL : (N.of_nat (length payload) + 3) mod 256 = N.of_nat (length payload + 3)).
  { rewrite N.mod_small by lia. lia. }
  rewrite HL. cbn [app length].
  (* first record: [2; 1; flags] *)
  cbn [ad_find].
  change (2 =? 0) with false. change (N.to_nat 2) with 2%nat. cbn [orb length Nat.ltb Nat.leb firstn skipn].
  change (1 =? 22) with false. cbv iota.
  (* second record *)
  cbn [ad_find].
  replace (N.of_nat (length payload + 3) =? 0) with false by lia.
  rewrite Nat2N.id. cbn [orb length].
  replace (Nat.ltb (S (S (S (length payload)))) (length payload + 3)) with false
    by (symmetry; apply Nat.ltb_ge; lia).
  replace (length payload + 3)%nat with (S (S (S (length payload)))) by lia.
  cbn [firstn skipn]. change (22 =? 22) with true. cbv iota.
  change (246 + 256 * 255 =? 65526) with true. cbv iota.
  assert (Hc : forall n, match n with 0%nat => false | S m' => (n <=? m')%nat end = false).
  { intros [|m]; [reflexivity|]. apply Nat.leb_gt. lia. }
  rewrite ?Hc. rewrite firstn_all. reflexivity.
Qed.

Lemma adv_payload_length (a : adv) : length (adv_payload a) = 8%nat.
Proof. reflexivity. Qed.

Lemma adv_valid_inv (a : adv) : adv_valid a = true ->
  a_vid a < two16 /\ a_pid a < two16 /\ a_disc a < 4096.
Proof.
  unfold adv_valid. intro H. repeat (apply andb_prop in H; destruct H as [H ?]). lia.
Qed.

Lemma adv_service_roundtrip (a : adv) :
  adv_valid a = true -> adv_parse_service (adv_payload a) = Some a.
Proof.
  intro Hv. apply adv_valid_inv in Hv as (H1 & H2 & H3). unfold two16 in *.
  destruct a as [vid pid disc add]. cbn [a_vid a_pid a_disc a_additional] in *.
  unfold adv_parse_service, adv_payload. cbn [a_vid a_pid a_disc a_additional le_bytes app].
  cbn [length Nat.ltb Nat.leb nth]. rewrite N.eqb_refl. cbn [negb].
  f_equal. f_equal; try dm_lia. destruct add; reflexivity.
Qed.

Lemma adv_roundtrip (a : adv) : adv_valid a = true -> adv_parse (adv_encode a) = Some a.
Proof.
  intro Hv. unfold adv_parse, adv_encode.
  rewrite ad_find_records by (rewrite adv_payload_length; lia).
  apply adv_service_roundtrip. exact Hv.
Qed.

Lemma radv_valid_inv (r : radv) : radv_valid r = true -> length (r_id r) = 8%nat /\ bytes (r_id r).
Proof.
  unfold radv_valid. intro H. apply andb_prop in H as [H1 H2].
  split; [apply Nat.eqb_eq; exact H1|apply bytesb_spec; exact H2].
Qed.

Lemma radv_service_roundtrip (r : radv) :
  radv_valid r = true -> radv_parse_service (radv_payload r) = Some r.
Proof.
  intro Hv. apply radv_valid_inv in Hv as (Hl & _).
  destruct r as [id add]. cbn [r_id r_additional] in *.
  destruct id as [|i0 [|i1 [|i2 [|i3 [|i4 [|i5 [|i6 [|i7 [|i8 t]]]]]]]]]; try discriminate.
  unfold radv_parse_service, radv_payload. cbn [r_id r_additional app].
  cbn [length Nat.ltb Nat.leb nth skipn firstn]. rewrite N.eqb_refl. cbn [negb].
  f_equal. f_equal. destruct add; reflexivity.
Qed.

Lemma radv_roundtrip (r : radv) : radv_valid r = true -> radv_parse (radv_encode r) = Some r.
Proof.
  intro Hv. unfold radv_parse, radv_encode.
  rewrite ad_find_records.
  - apply radv_service_roundtrip. exact Hv.
  - apply radv_valid_inv in Hv as (Hl & _). unfold radv_payload.
    rewrite !app_length, Hl. cbn [length]. lia.
Qed.

(** what is accepted is in range *)
Lemma nth_bytes (p : list N) (i : nat) : bytes p -> nth i p 0 < 256.
Proof.
  intro Hb. revert i. induction Hb as [|x t Hx Ht IH]; intros [|i]; cbn [nth]; try lia.
  apply IH.
Qed.

Lemma adv_parse_service_valid (p : list N) (a : adv) :
  bytes p -> adv_parse_service p = Some a -> adv_valid a = true.
Proof.
  intros Hb. unfold adv_parse_service.
  destruct (Nat.ltb (length p) 8); [discriminate|].
  destruct (negb _); [discriminate|]. intro H. injection H as <-.
  unfold adv_valid, two16. cbn [a_vid a_pid a_disc].
  pose proof (nth_bytes p 3 Hb). pose proof (nth_bytes p 4 Hb).
  pose proof (nth_bytes p 5 Hb). pose proof (nth_bytes p 6 Hb).
  assert ((nth 1 p 0 + 256 * nth 2 p 0) mod 4096 < 4096) by (apply N.mod_lt; discriminate).
  lia.
Qed.

Lemma radv_parse_service_valid (p : list N) (r : radv) :
  bytes p -> radv_parse_service p = Some r -> radv_valid r = true.
Proof.
  intros Hb. unfold radv_parse_service.
  destruct (Nat.ltb (length p) 11) eqn:El; [discriminate|]. apply Nat.ltb_ge in El.
  destruct (negb _); [discriminate|]. intro H.
  assert (Hr : r = mkRAdv (firstn 8 (skipn 2 p)) (nth 10 p 0 mod 2 =? 1)) by congruence.
  clear H. subst r.
  unfold radv_valid. cbn [r_id].
  rewrite firstn_length_le by (rewrite skipn_length; lia). cbn [Nat.eqb].
  apply bytesb_spec.
  rewrite <- (firstn_skipn 2 p) in Hb. apply bytes_app in Hb as [_ Hb].
  rewrite <- (firstn_skipn 8 (skipn 2 p)) in Hb. apply bytes_app in Hb as [Hb _]. exact Hb.
Qed.

Lemma ad_find_bytes (fuel : nat) (advb sd : list N) :
  bytes advb -> ad_find fuel advb = Some sd -> bytes sd.
Proof.
  revert advb. induction fuel as [|fuel IH]; intros advb Hb H; cbn [ad_find] in H; [discriminate|].
  destruct advb as [|len rest]; [discriminate|].
  destruct ((len =? 0) || Nat.ltb (length rest) (N.to_nat len)); [discriminate|].
  apply Forall_inv_tail in Hb.
  rewrite <- (firstn_skipn (N.to_nat len) rest) in Hb. apply bytes_app in Hb as [Hf Hs].
  destruct (firstn (N.to_nat len) rest) as [|ty payload]; [discriminate|].
  apply Forall_inv_tail in Hf.
  destruct (ty =? 22); [|eapply IH; eassumption].
  destruct payload as [|u0 [|u1 service]]; try (eapply IH; eassumption).
  destruct (u0 + 256 * u1 =? 65526); [|eapply IH; eassumption].
  injection H as <-. apply Forall_inv_tail in Hf. apply Forall_inv_tail in Hf. exact Hf.
Qed.

Lemma adv_parse_valid (advb : list N) (a : adv) :
  bytes advb -> adv_parse advb = Some a -> adv_valid a = true.
Proof.
  intros Hb. unfold adv_parse, matter_service_data.
  destruct (ad_find _ advb) as [sd|] eqn:E; [|discriminate].
  apply adv_parse_service_valid. eapply ad_find_bytes; eassumption.
Qed.

Lemma radv_parse_valid (advb : list N) (r : radv) :
  bytes advb -> radv_parse advb = Some r -> radv_valid r = true.
Proof.
  intros Hb. unfold radv_parse, matter_service_data.
  destruct (ad_find _ advb) as [sd|] eqn:E; [|discriminate].
  apply radv_parse_service_valid. eapply ad_find_bytes; eassumption.
Qed.

(** a payload is never both a commissionable and a recovery advertisement *)
Lemma adv_radv_disjoint (advb : list N) (a : adv) :
  adv_parse advb = Some a -> radv_parse advb = None.
Proof.
  unfold adv_parse, radv_parse. destruct (matter_service_data advb) as [sd|]; [|discriminate].
  unfold adv_parse_service, radv_parse_service.
  destruct (Nat.ltb (length sd) 8); [discriminate|].
  destruct (nth 0 sd 0 =? 0) eqn:E0; cbn [negb]; [|discriminate]. intros _.
  destruct (Nat.ltb (length sd) 11); [reflexivity|].
  apply N.eqb_eq in E0. rewrite E0. reflexivity.
Qed.

Lemma mon_adv_dec_model (advb : list N) :
  bytes advb -> mon_adv_dec (adv_parse advb) (radv_parse advb) = true.
Proof.
  intro Hb. unfold mon_adv_dec.
  destruct (adv_parse advb) as [a|] eqn:Ea.
  - rewrite (adv_parse_valid _ _ Hb Ea), (adv_radv_disjoint _ _ Ea). reflexivity.
  - destruct (radv_parse advb) as [r|] eqn:Er; [|reflexivity].
    rewrite (radv_parse_valid _ _ Hb Er). reflexivity.
Qed.
