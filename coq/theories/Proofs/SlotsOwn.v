(** Ownership of [ReservedSession] handles at node level (Model/Slots.v layer 2):
    every live handle belongs to a live handshake attempt, in every reachable
    state.  Hence: when every handler has finished or been cancelled, no handle
    is left, and so no reserved slot. *)
From RsM Require Import Lib.MachInt Model.Slots Proofs.SlotsFacts Proofs.SlotsInv Proofs.SlotsStep
  Proofs.SlotsNode.
From Coq Require Import Permutation ZifyN ZifyBool Arith.
Open Scope N_scope.

Arguments N.add : simpl never.
Arguments N.ltb : simpl never.
Arguments N.eqb : simpl never.
Arguments N.mul : simpl never.

(** * attempts *)

Lemma find_att : forall a l x, find (att_has a) l = Some x -> In x l /\ a_no x = a.
Proof.
  intros a l x Hf. apply find_some in Hf. destruct Hf as [H1 H2]. unfold att_has in H2.
  apply N.eqb_eq in H2. auto.
Qed.

Lemma att_unique : forall l x y,
  NoDup (map a_no l) -> In x l -> In y l -> a_no x = a_no y -> x = y.
Proof.
  induction l as [|z l IH]; intros x y Hn Hx Hy He; [inversion Hx|].
  inversion Hn as [|? ? Hni Hn']; subst. destruct Hx as [->|Hx], Hy as [->|Hy]; auto.
  - exfalso. apply Hni. rewrite He. apply in_map; auto.
  - exfalso. apply Hni. rewrite <- He. apply in_map; auto.
Qed.

Lemma att_remove_in : forall a l x, In x (att_remove a l) -> In x l.
Proof.
  intros a l; induction l as [|z l IH]; intros x Hin; cbn in *; auto.
  destruct (att_has a z); auto. destruct Hin; auto.
Qed.

Lemma att_remove_keeps : forall a l x, In x l -> a_no x <> a -> In x (att_remove a l).
Proof.
  intros a l; induction l as [|z l IH]; intros x Hin Hne; cbn in *; auto.
  unfold att_has. destruct (a_no z =? a) eqn:He.
  - apply N.eqb_eq in He. destruct Hin as [->|]; auto. congruence.
  - destruct Hin as [->|]; [left; auto|right; auto].
Qed.

Lemma att_remove_nodup : forall a l, NoDup (map a_no l) -> NoDup (map a_no (att_remove a l)).
Proof.
  intros a l; induction l as [|z l IH]; intros Hn; cbn; auto.
  inversion Hn as [|? ? Hni Hn']; subst. destruct (att_has a z); auto.
  cbn. constructor; auto. intros Hin. apply in_map_iff in Hin. destruct Hin as [y [Hy Hin]].
  apply Hni. rewrite <- Hy. apply in_map. eapply att_remove_in; eauto.
Qed.

Lemma att_remove_gone : forall a l x, NoDup (map a_no l) -> In x (att_remove a l) -> a_no x <> a.
Proof.
  intros a l; induction l as [|z l IH]; intros x Hn Hin; cbn in *; [contradiction|].
  inversion Hn as [|? ? Hni Hn']; subst. unfold att_has in Hin.
  destruct (a_no z =? a) eqn:He.
  - apply N.eqb_eq in He. subst a. intros Heq. apply Hni. rewrite <- Heq. apply in_map; auto.
  - apply N.eqb_neq in He. destruct Hin as [<-|Hin]; auto.
Qed.

Definition keeps_no (f : att -> att) : Prop := forall x, a_no (f x) = a_no x.

Lemma att_set_nos : forall a f l, keeps_no f -> map a_no (att_set a f l) = map a_no l.
Proof.
  intros a f l Hk. unfold att_set. induction l as [|z l IH]; cbn; auto. rewrite IH.
  destruct (att_has a z); auto. rewrite Hk; auto.
Qed.

Lemma att_set_in : forall a f l y,
  In y (att_set a f l) -> (In y l /\ a_no y <> a) \/ (exists x, In x l /\ a_no x = a /\ y = f x).
Proof.
  intros a f l y Hin. unfold att_set in Hin. apply in_map_iff in Hin. destruct Hin as [x [Hy Hin]].
  unfold att_has in Hy. destruct (a_no x =? a) eqn:He.
  - apply N.eqb_eq in He. right. exists x. auto.
  - apply N.eqb_neq in He. subst y. left. auto.
Qed.

Lemma att_set_has : forall a f l x, In x l -> a_no x = a -> In (f x) (att_set a f l).
Proof.
  intros a f l x Hin Ha. unfold att_set. apply in_map_iff. exists x. unfold att_has.
  rewrite Ha, N.eqb_refl. auto.
Qed.

Lemma att_set_other : forall a f l x, In x l -> a_no x <> a -> In x (att_set a f l).
Proof.
  intros a f l x Hin Ha. unfold att_set. apply in_map_iff. exists x. unfold att_has.
  apply N.eqb_neq in Ha. rewrite Ha. auto.
Qed.

(** * how a layer-1 operation changes the set of handles *)

Definition handle_op (o : op) : bool :=
  match o with OReserveNow _ | OReserve _ | ODropH _ _ => true | _ => false end.

Lemma ex_add_hids : forall mx s id pending now, hids (fst (ex_add mx s id pending now)) = hids s.
Proof.
  intros mx s id pending now. unfold ex_add.
  destruct (t_lookup id (tb s)) as [x|]; auto. destruct (pending && s_reserved x); auto.
  destruct (t_get id now (tb s)); auto. destruct (s_expired x); auto.
  destruct (x_add mx (s_exch x) _) as [[x' i]|]; reflexivity.
Qed.

Lemma step_hids_same : forall cap mx s o, handle_op o = false -> hids (fst (step cap mx s o)) = hids s.
Proof.
  intros cap mx s o Ho. destruct o; try discriminate; cbn [step].
  - destruct (t_add cap (tb s) false now) as [t1 [id|]]; reflexivity.
  - destruct (existsb (h_has id) (hs s)); auto. destruct (t_get id now (tb s)); reflexivity.
  - cbn. unfold hids; cbn. apply map_complete_ids.
  - destruct (t_find id (tb s)); reflexivity.
  - destruct (t_evict now (tb s)) as [t1 [v|]]; reflexivity.
  - destruct (t_get id now (tb s)); reflexivity.
  - reflexivity.
  - reflexivity.
  - destruct (t_lookup id (tb s)) as [x|]; auto. destruct (s_reserved x); reflexivity.
  - reflexivity.
  - apply ex_add_hids.
  - destruct (t_lookup id (tb s)) as [x|]; auto.
    destruct (nth_error (s_exch x) xi) as [[[]|]|]; auto. destruct (t_get id now (tb s)); reflexivity.
  - destruct (t_lookup id (tb s)) as [x|]; auto.
    destruct (nth_error (s_exch x) xi) as [[[]|]|]; auto. destruct (t_get id now (tb s)); reflexivity.
  - destruct (t_lookup id (tb s)) as [x|]; auto.
    destruct (nth_error (s_exch x) xi) as [[[]|]|]; auto. destruct (t_get id now (tb s)); reflexivity.
  - destruct (find_slot slot_retr (t_sess (tb s))) as [[id xi]|]; auto.
    destruct (find_slot slot_dropped (t_sess (tb s))) as [[id xi]|]; auto.
    destruct (t_get id now (tb s)); reflexivity.
  - destruct (t_lookup id (tb s)) as [x|]; auto.
    destruct (nth_error (s_exch x) xi) as [[[]|]|]; auto. destruct (t_get id now (tb s)); reflexivity.
  - pose proof (ex_add_hids mx s id true now) as H. destruct (ex_add mx s id true now) as [s1 r].
    cbn [fst] in H. destruct r; auto. destruct (c =? E_NOSPACE_EXCH); auto.
  - reflexivity.
Qed.

Lemma step_hids_drop : forall cap mx s id now a,
  NoDup (hids s) ->
  (In a (hids (fst (step cap mx s (ODropH id now)))) <-> In a (hids s) /\ a <> id).
Proof.
  intros cap mx s id now a Hnd. cbn [step].
  destruct (find (h_has id) (hs s)) as [h|] eqn:Hf.
  - cbn zeta. destruct (h_complete h); [destruct (t_get id now (tb s))|]; cbn [fst];
      unfold hids; cbn [hs]; apply h_remove_ids; auto.
  - cbn. split; [|tauto]. intros Hin. split; auto. intros ->.
    unfold hids in Hin. apply in_map_iff in Hin. destruct Hin as [h [Hh Hin]].
    eapply find_none in Hf; eauto. unfold h_has in Hf. rewrite Hh, N.eqb_refl in Hf. discriminate.
Qed.

Lemma reserve_now_hids : forall cap s now,
  match snd (reserve_now cap s now) with
  | RId h => hids (fst (reserve_now cap s now)) = hids s ++ [h]
  | _ => hids (fst (reserve_now cap s now)) = hids s
  end.
Proof.
  intros cap s now. unfold reserve_now. destruct (t_add cap (tb s) true now) as [t1 [id|]]; cbn.
  - unfold hids; cbn. rewrite map_app; reflexivity.
  - reflexivity.
Qed.

Lemma step_reserve_hids : forall cap mx s now,
  match snd (step cap mx s (OReserve now)) with
  | RId h => hids (fst (step cap mx s (OReserve now))) = hids s ++ [h]
  | _ => hids (fst (step cap mx s (OReserve now))) = hids s
  end.
Proof.
  intros cap mx s now. cbn [step].
  pose proof (reserve_now_hids cap s now) as H1.
  destruct (reserve_now cap s now) as [s1 r] eqn:Hr. cbn [fst snd] in H1.
  destruct r; auto.
  destruct (t_evict now (tb s1)) as [t2 [v|]] eqn:He.
  - pose proof (reserve_now_hids cap (mkSt t2 (hs s1)) now) as H2.
    destruct (reserve_now cap (mkSt t2 (hs s1)) now) as [s3 r3]. cbn [fst snd] in *.
    assert (hids (mkSt t2 (hs s1)) = hids s) by (rewrite <- H1; reflexivity).
    destruct r3; rewrite H2; auto; rewrite H; auto.
  - cbn. rewrite <- H1. reflexivity.
Qed.

(** * the ownership invariant *)

Definition hinv (n : node) : Prop :=
  NoDup (map a_no (atts n)) /\
  (forall a, In a (atts n) -> a_no a < n_next n) /\
  (forall a, In a (atts n) -> a_stage a = 0 -> a_h a = None) /\
  (forall id, In id (hids (core n)) -> exists a, In a (atts n) /\ a_h a = Some id).

Lemma hinv_core : forall n c',
  hinv n -> (forall id, In id (hids c') -> In id (hids (core n))) -> hinv (set_core c' n).
Proof. intros n c' [H1 [H2 [H3 H4]]] Hs. repeat split; auto. Qed.

Lemma hinv_marker : forall n m, hinv n -> hinv (set_marker m n).
Proof. intros n m H. exact H. Qed.

Lemma hinv_clear : forall n k, hinv n -> hinv (clear_if_pase k n).
Proof. intros n [] H; exact H. Qed.

Lemma hinv_stage : forall n a x stg h clr,
  hinv n -> find (att_has a) (atts n) = Some x -> (stg <> 0 \/ h = None) -> (h = a_h x \/ a_h x = None) ->
  hinv (stage_set a stg h clr n).
Proof.
  intros n a x stg h clr [H1 [H2 [H3 H4]]] Hf Hs Hh. destruct (find_att _ _ _ Hf) as [Hin Ha].
  unfold stage_set, hinv. cbn [atts core n_next set_atts].
  set (f := fun x0 : att => mkA (a_no x0) (a_kind x0) (a_sess x0) (a_xi x0) h stg clr).
  assert (Hk : keeps_no f) by (intros z; reflexivity).
  repeat split.
  - rewrite att_set_nos; auto.
  - intros y Hy. destruct (att_set_in _ _ _ _ Hy) as [[Hy' _]|[z [Hz [_ ->]]]]; [auto|cbn; auto].
  - intros y Hy Hst. destruct (att_set_in _ _ _ _ Hy) as [[Hy' _]|[z [Hz [_ ->]]]]; [auto|].
    cbn in *. destruct Hs; [contradiction|auto].
  - intros id Hid. destruct (H4 id Hid) as [w [Hw Hwh]].
    destruct (N.eq_dec (a_no w) a) as [He|He].
    + assert (w = x) by (apply (att_unique _ _ _ H1 Hw Hin); congruence). subst w.
      exists (f x). split; [apply att_set_has; auto|]. cbn. destruct Hh as [->|Hn]; congruence.
    + exists w. split; auto. apply att_set_other; auto.
Qed.

Lemma find_att_set : forall a f l x,
  keeps_no f -> find (att_has a) l = Some x -> find (att_has a) (att_set a f l) = Some (f x).
Proof.
  intros a f l x Hk. unfold att_set. induction l as [|z l IH]; intros Hf; cbn in *; [discriminate|].
  destruct (att_has a z) eqn:Hz.
  - inversion Hf; subst. unfold att_has in *. rewrite Hk, Hz. reflexivity.
  - rewrite Hz. auto.
Qed.

Lemma hinv_accept : forall n a x c2 h,
  hinv n -> find (att_has a) (atts n) = Some x -> a_stage x = 0 ->
  hids c2 = hids (core n) ++ [h] ->
  hinv (stage_set a 1 (Some h) false (set_core c2 n)).
Proof.
  intros n a x c2 h [H1 [H2 [H3 H4]]] Hf Hst Hh. destruct (find_att _ _ _ Hf) as [Hin Ha].
  unfold stage_set, hinv. cbn [atts core n_next set_atts set_core].
  set (f := fun x0 : att => mkA (a_no x0) (a_kind x0) (a_sess x0) (a_xi x0) (Some h) 1 false).
  assert (Hk : keeps_no f) by (intros z; reflexivity).
  repeat split.
  - rewrite att_set_nos; auto.
  - intros y Hy. destruct (att_set_in _ _ _ _ Hy) as [[Hy' _]|[z [Hz [_ ->]]]]; [auto|cbn; auto].
  - intros y Hy Hs. destruct (att_set_in _ _ _ _ Hy) as [[Hy' _]|[z [Hz [_ ->]]]]; [auto|cbn in Hs; lia].
  - intros id Hid. rewrite Hh in Hid. apply in_app_or in Hid. destruct Hid as [Hid|[<-|[]]].
    + destruct (H4 id Hid) as [w [Hw Hwh]].
      destruct (N.eq_dec (a_no w) a) as [He|He].
      * assert (w = x) by (apply (att_unique _ _ _ H1 Hw Hin); congruence). subst w.
        rewrite (H3 x Hin Hst) in Hwh. discriminate.
      * exists w. split; auto. apply att_set_other; auto.
    + exists (f x). split; [apply att_set_has; auto|reflexivity].
Qed.

Lemma hinv_finish : forall cap mx n x retr ack now,
  NoDup (hids (core n)) -> hinv n -> In x (atts n) -> hinv (finish cap mx n x retr ack now).
Proof.
  intros cap mx n x retr ack now Hnd [H1 [H2 [H3 H4]]] Hin.
  unfold finish, hinv. cbn [atts core n_next].
  repeat split.
  - apply att_remove_nodup; auto.
  - intros y Hy. apply H2. eapply att_remove_in; eauto.
  - intros y Hy. apply H3. eapply att_remove_in; eauto.
  - intros id Hid. unfold do1 in Hid. rewrite step_hids_same in Hid by reflexivity.
    assert (Hq : In id (hids (core n)) /\ a_h x <> Some id).
    { destruct (a_h x) as [h|].
      - apply step_hids_drop in Hid; auto. destruct Hid. split; auto. congruence.
      - split; auto. discriminate. }
    destruct Hq as [Hq1 Hq2]. destruct (H4 id Hq1) as [w [Hw Hwh]].
    exists w. split; auto. apply att_remove_keeps; auto.
    intros He. assert (w = x) by (apply (att_unique _ _ _ H1 Hw Hin); auto). subst w. congruence.
Qed.

Section Own.
Variables cap mx : nat.

Lemma reach_nodup : forall k c c',
  reachk cap mx k c c' -> inv1 cap c -> next_of c + 2 * N.of_nat k <= UID_MAX -> NoDup (hids c').
Proof. intros k c c' Hr Hi Hb. destruct (reachk_inv1 cap mx _ _ _ Hr Hi Hb) as [[_ [H _]] _]. exact H. Qed.

Ltac nd n :=
  match goal with
  | Hi : inv1 cap (core n), Hb : next_of (core n) + 8 <= UID_MAX |- NoDup (hids ?c) =>
      eapply (reach_nodup _ (core n) c); [unfold do1; repeat first [apply r0 | eapply rS]|exact Hi|cbn; lia]
  end.

Theorem nstep_hinv : forall n o,
  inv1 cap (core n) -> next_of (core n) + 8 <= UID_MAX -> hinv n -> hinv (fst (nstep cap mx n o)).
Proof.
  intros n o Hi Hb Hh. destruct o; cbn [nstep].
  - (* NRx *)
    destruct (step cap mx (core n) (OAdd now)) as [c1 r] eqn:E.
    assert (Hc1 : hids c1 = hids (core n)).
    { replace c1 with (fst (step cap mx (core n) (OAdd now))) by (rewrite E; auto). apply step_hids_same; auto. }
    destruct r; cbn [fst]; try (apply hinv_core; auto; intros id0 Hin; unfold do1 in Hin;
      rewrite step_hids_same in Hin by reflexivity; rewrite <- Hc1; auto).
    destruct Hh as [H1 [H2 [H3 H4]]]. unfold hinv. cbn [atts core n_next]. repeat split.
    + rewrite map_app. cbn [map a_no]. apply nodup_snoc; auto.
      intros Hin. apply in_map_iff in Hin. destruct Hin as [y [Hy Hin]]. specialize (H2 y Hin). lia.
    + intros y Hy. apply in_app_or in Hy. destruct Hy as [Hy|[<-|[]]]; [specialize (H2 y Hy)|cbn]; lia.
    + intros y Hy Hs. apply in_app_or in Hy. destruct Hy as [Hy|[<-|[]]]; auto.
    + intros id0 Hin. unfold do1 in Hin. rewrite step_hids_same in Hin by reflexivity. rewrite Hc1 in Hin.
      destruct (H4 id0 Hin) as [w [Hw Hwh]]. exists w. split; auto. apply in_or_app; auto.
  - (* NAccept *)
    destruct (find (att_has a) (atts n)) as [x|] eqn:Hf; [|exact Hh].
    destruct (a_stage x =? 0) eqn:Hst; cbn [negb]; [|exact Hh]. apply N.eqb_eq in Hst.
    destruct (find_att _ _ _ Hf) as [Hin Ha].
    set (c1 := do1 cap mx (core n) (OExAccept (a_sess x) (a_xi x) now)).
    assert (Hc1 : hids c1 = hids (core n)) by (apply step_hids_same; auto).
    pose proof (step_reserve_hids cap mx c1 now) as Hres.
    destruct (step cap mx c1 (OReserve now)) as [c2 r] eqn:E. cbn [fst snd] in Hres.
    assert (Ec2 : c2 = fst (step cap mx c1 (OReserve now))) by (rewrite E; auto).
    assert (Hnd2 : NoDup (hids c2)) by (rewrite Ec2; unfold c1; nd n).
    assert (Hfail : hids c2 = hids (core n) ->
              forall k, hinv (finish cap mx (clear_if_pase k (set_core c2 n)) x false true now)).
    { intros Hsame k. apply hinv_finish; [rewrite core_clear; exact Hnd2| |destruct k; exact Hin].
      apply hinv_clear. apply hinv_core; auto. intros id0 Hid. rewrite Hsame in Hid; auto. }
    destruct r; cbn [fst]; try (apply Hfail; rewrite Hres, Hc1; reflexivity).
    + 
      rewrite Hc1 in Hres.
      pose proof (hinv_accept n a x c2 id Hh Hf Hst Hres) as Hn2.
      set (n2 := stage_set a 1 (Some id) false (set_core c2 n)) in *.
      set (x2 := mkA (a_no x) (a_kind x) (a_sess x) (a_xi x) (Some id) 1 false).
      assert (Hf2 : find (att_has a) (atts n2) = Some x2).
      { unfold n2, stage_set. cbn [atts set_atts set_core]. apply (find_att_set a (fun x0 : att => mkA (a_no x0) (a_kind x0) (a_sess x0) (a_xi x0) (Some id) 1 false) (atts n) x); auto. intros z; reflexivity. }
      assert (Hin2 : In x2 (atts n2)) by (apply (find_att _ _ _ Hf2)).
      assert (Hfin : forall m, hinv (finish cap mx (set_marker m n2) x2 false true now)).
      { intros m. apply hinv_finish; auto. }
      destruct (a_kind x).
      * destruct (marker_check a true now (marker n)) as [m1 [c|]]; cbn [fst].
        -- apply (hinv_stage (set_marker m1 n2) a x2 4 (Some id) false); [exact Hn2|exact Hf2|left; lia|left; reflexivity].
        -- destruct v; cbn [fst]; auto.
      * destruct v; cbn [fst]; auto.
        -- apply (hinv_stage n2 a x2 4 (Some id) false); [exact Hn2|exact Hf2|left; lia|left; reflexivity].
        -- apply hinv_finish; auto.
  - (* NMsg *)
    destruct (find (att_has a) (atts n)) as [x|] eqn:Hf; [|exact Hh].
    destruct (negb _) eqn:Hw; [exact Hh|].
    destruct (find_att _ _ _ Hf) as [Hin Ha].
    assert (Hnd : NoDup (hids (core n))) by apply Hi.
    assert (Hst4 : forall m clr, hinv (stage_set a 4 (a_h x) clr (set_marker m n))).
    { intros m clr. apply (hinv_stage _ a x); auto; [left; lia]. }
    assert (Hfin : forall m retr ack, hinv (finish cap mx (set_marker m n) x retr ack now)).
    { intros. apply hinv_finish; auto. }
    assert (Hupd : forall md m h, a_h x = Some h ->
              hinv (stage_set a 3 (a_h x) false
                     (set_core (do1 cap mx (do1 cap mx (core (set_marker m n)) (OUpdate h md now)) (OComplete h)) (set_marker m n)))).
    { intros md m h Hhx. apply (hinv_stage _ a x); auto; [|left; lia].
      apply hinv_core; [exact Hh|]. intros id0 Hid. unfold do1 in Hid.
      rewrite !step_hids_same in Hid by reflexivity. exact Hid. }
    destruct (a_kind x).
    + destruct (marker_check a false now (marker n)) as [m1 [c|]]; cbn [fst]; auto.
      destruct v.
      * destruct (a_stage x =? 1); cbn [fst].
        -- apply (hinv_stage _ a x); auto; [left; lia].
        -- destruct (a_h x) as [h|] eqn:Hhx; cbn [fst]; [|exact Hh].
           apply (Hupd MPase m1 h eq_refl).
      * destruct (a_stage x =? 1); cbn [fst]; [exact (Hfin None _ _)|exact (Hst4 m1 true)].
      * cbn [fst]. exact (Hfin None _ _).
    + destruct v; cbn [fst].
      * destruct (a_h x) as [h|] eqn:Hhx; cbn [fst]; [|exact Hh].
        apply (Hupd MCase (marker n) h eq_refl).
      * exact (Hst4 (marker n) false).
      * exact (Hfin (marker n) _ _).
  - (* NAck *)
    destruct (find (att_has a) (atts n)) as [x|] eqn:Hf; [|exact Hh].
    destruct (find_att _ _ _ Hf) as [Hin Ha].
    assert (Hnd : NoDup (hids (core n))) by apply Hi.
    assert (Hfin : forall n', core n' = core n -> atts n' = atts n -> n_next n' = n_next n ->
                    hinv (finish cap mx n' x false false now)).
    { intros n' E1 E2 E3. apply hinv_finish; [rewrite E1; auto| |rewrite E2; auto].
      unfold hinv. rewrite E1, E2, E3. exact Hh. }
    destruct (a_stage x =? 3); [cbn [fst]; apply Hfin; destruct (a_kind x); reflexivity|].
    destruct (a_stage x =? 4); [|exact Hh].
    cbn [fst]. apply Hfin; destruct (a_clr x), (a_kind x); reflexivity.
  - (* NFail *)
    destruct (find (att_has a) (atts n)) as [x|] eqn:Hf; [|exact Hh].
    destruct (find_att _ _ _ Hf) as [Hin Ha].
    destruct (a_stage x =? 0); [exact Hh|]. cbn [fst].
    apply hinv_finish; [rewrite core_clear; apply Hi|apply hinv_clear; auto|destruct (a_kind x); exact Hin].
  - (* NCancel *)
    destruct (find (att_has a) (atts n)) as [x|] eqn:Hf; [|exact Hh].
    destruct (find_att _ _ _ Hf) as [Hin Ha].
    destruct (a_stage x =? 0); [exact Hh|]. cbn [fst].
    apply hinv_finish; [apply Hi|auto|auto].
  - (* NAcceptTimeout *)
    destruct (find (att_has a) (atts n)) as [x|] eqn:Hf; [|exact Hh].
    destruct (a_stage x =? 0) eqn:Hs0; [|exact Hh]. cbn [fst]. apply N.eqb_eq in Hs0.
    destruct (find_att _ _ _ Hf) as [Hin Ha].
    destruct Hh as [H1 [H2 [H3 H4]]]. unfold hinv. cbn [atts core n_next]. repeat split.
    + apply att_remove_nodup; auto.
    + intros y Hy. apply H2. eapply att_remove_in; eauto.
    + intros y Hy. apply H3. eapply att_remove_in; eauto.
    + intros id0 Hid. unfold do1 in Hid. rewrite step_hids_same in Hid by reflexivity.
      destruct (H4 id0 Hid) as [w [Hw Hwh]]. exists w. split; auto.
      apply att_remove_keeps; auto. intros He.
      assert (w = x) by (apply (att_unique _ _ _ H1 Hw Hin); congruence). subst w.
      rewrite (H3 x Hin Hs0) in Hwh. discriminate.
  - cbn [fst]; apply hinv_core; [exact Hh|]; intros id0 Hid; unfold do1 in Hid; rewrite step_hids_same in Hid by reflexivity; exact Hid.
  - cbn [fst]; apply hinv_core; [exact Hh|]; intros id0 Hid; unfold do1 in Hid; rewrite step_hids_same in Hid by reflexivity; exact Hid.
  - cbn [fst]; apply hinv_core; [exact Hh|]; intros id0 Hid; unfold do1 in Hid; rewrite step_hids_same in Hid by reflexivity; exact Hid.
  - cbn [fst]; apply hinv_core; [exact Hh|]; intros id0 Hid; unfold do1 in Hid; rewrite step_hids_same in Hid by reflexivity; exact Hid.
  - cbn [fst]; apply hinv_core; [exact Hh|]; intros id0 Hid; unfold do1 in Hid; rewrite step_hids_same in Hid by reflexivity; exact Hid.
  - destruct (t_lookup id (tb (core n))) as [s|]; [|exact Hh].
    destruct (mode_eqb (s_mode s) MPlain); [exact Hh|].
    cbn [fst]; apply hinv_core; [exact Hh|]; intros id0 Hid; unfold do1 in Hid; rewrite step_hids_same in Hid by reflexivity; exact Hid.
  - destruct (t_lookup id (tb (core n))) as [s|]; [|exact Hh].
    destruct (mode_eqb (s_mode s) MPlain); [exact Hh|].
    cbn [fst]; apply hinv_core; [exact Hh|]; intros id0 Hid; unfold do1 in Hid; rewrite step_hids_same in Hid by reflexivity; exact Hid.
Qed.

Lemma hinv_init : hinv node_init.
Proof.
  unfold hinv, node_init; cbn.
  split; [constructor|split; [intros a []|split; [intros a []|intros id []]]].
Qed.

Theorem nrun_hinv : forall ops n,
  inv1 cap (core n) -> next_of (core n) + 8 * N.of_nat (length ops) <= UID_MAX -> hinv n ->
  hinv (nrun cap mx n ops).
Proof.
  induction ops as [|o r IH]; intros n Hi Hb Hh; cbn [nrun]; auto.
  cbn [length] in Hb. destruct (nstep_inv1 cap mx n o Hi ltac:(lia)) as [H1 [H2 H3]].
  apply IH; auto; [lia|]. apply nstep_hinv; auto. lia.
Qed.

End Own.
