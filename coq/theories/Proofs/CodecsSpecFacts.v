(** The monitors of [Model/CodecsSpec.v] hold of the model's own answers:
    they are consequences of the theorems, so a monitor that fails on the
    implementation shows the implementation breaking the property. *)
From RsM Require Import Lib.MachInt Model.Headers Model.Codecs Model.CodecsSpec
  Proofs.HeadersFacts Proofs.CodecsBase38 Proofs.CodecsManual Proofs.CodecsQr.
From Coq Require Import ZifyN ZifyBool.
Open Scope N_scope.

Lemma mon_plain_dec_model (b : list N) :
  bytes b -> mon_plain_dec b (consumed b (plain_decode b)) = true.
Proof.
  intro Hb. pose proof (plain_decode_total plain_new b) as Ht. fold (plain_decode b) in Ht.
  destruct (plain_decode b) as [[h rest]|e|s] eqn:E; cbn [consumed mon_plain_dec];
    [|reflexivity|contradiction].
  apply plain_decode_canonical in E as (-> & Hwf & Hr); [|exact Hb].
  rewrite Hwf, app_length.
  replace (length (plain_encode h) + length rest - length rest)%nat
    with (length (plain_encode h)) by lia.
  rewrite firstn_len_app, list_eqb_refl.
  replace (Nat.leb _ _) with true by (symmetry; apply Nat.leb_le; lia). reflexivity.
Qed.

Lemma mon_proto_dec_model (b : list N) :
  bytes b -> mon_proto_dec b (consumed b (proto_decode b)) = true.
Proof.
  intro Hb. pose proof (proto_decode_total proto_new b) as Ht. fold (proto_decode b) in Ht.
  destruct (proto_decode b) as [[h rest]|e|s] eqn:E; cbn [consumed mon_proto_dec];
    [|reflexivity|contradiction].
  apply proto_decode_canonical in E as (-> & Hwf & Hr); [|exact Hb].
  rewrite Hwf, app_length.
  replace (length (proto_encode h) + length rest - length rest)%nat
    with (length (proto_encode h)) by lia.
  rewrite firstn_len_app, list_eqb_refl.
  replace (Nat.leb _ _) with true by (symmetry; apply Nat.leb_le; lia). reflexivity.
Qed.

Lemma mon_b38_dec_model (s : list N) : mon_b38_dec s (b38_decode s) = true.
Proof.
  pose proof (b38_decode_total s) as Ht.
  destruct (b38_decode s) as [bs|e|p] eqn:E; cbn [mon_b38_dec]; [|reflexivity|contradiction].
  apply b38_decode_canonical in E as [<- Hb].
  apply bytesb_spec in Hb. rewrite Hb, list_eqb_refl. reflexivity.
Qed.

Lemma mon_manual_dec_model (code : list N) : mon_manual_dec code (manual_parse code) = true.
Proof.
  destruct (manual_parse_total code) as [[p Hp]|He]; rewrite ?He; [|reflexivity].
  rewrite Hp. cbn [mon_manual_dec].
  apply manual_parse_inv in Hp as (ds & Hs & Hlen & Hv & H1 & H2 & H3 & H4 & _ & _ & H7 & _).
  rewrite Hs, Hlen, Hv, Nat.eqb_refl. unfold MAX_PASS in H1. cbn [andb]. lia.
Qed.

Lemma mon_qr_dec_model (s : list N) : mon_qr_dec s (qr_decode s) = true.
Proof.
  destruct (qr_decode_total s) as [(p & t & -> & Hv & Hb)| ->]; cbn [mon_qr_dec]; [|reflexivity].
  apply bytesb_spec in Hb. rewrite Hv, Hb. reflexivity.
Qed.
