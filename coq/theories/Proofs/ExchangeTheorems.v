(** Theorems about the transport model: routing, the new-exchange gate,
    unknown exchanges, freedom from wedging (safety + enabledness), clean
    closing of dropped exchanges. *)
From RsM Require Import Lib.MachInt Model.Dedup Model.Mrp Model.Exchange
  Proofs.ExchangeFacts Proofs.ExchangeSys.
From Coq Require Import ZifyN ZifyBool Lia Bool PeanoNat.
Open Scope N_scope.

Arguments N.ltb : simpl never.
Arguments N.leb : simpl never.
Arguments N.eqb : simpl never.
Arguments N.add : simpl never.

(** * The gate (pure, on [Session::post_recv]) *)

Lemma nth_error_table s i :
  nth_error (table s) i = option_map slot_view (nth_error (s_exchs s) i).
Proof. unfold table. apply nth_error_map. Qed.

Lemma new_exchange_gate s m t s' :
  session_post_recv s m t = (s', Ok true) ->
  snd (post_recv (s_win s) (m_ctr m) (s_enc s) false) = true /\
  m_init m = true /\ is_new_exchange (m_op m) = true /\ s_expired s = false /\
  find_exch (s_exchs s) m = None /\
  exists i,
    (nth_error (s_exchs s) i = None \/ nth_error (s_exchs s) i = Some None) /\
    nth_error (table s') i = Some (Some (m_exid m, RespPending)) /\
    (forall j, j <> i -> nth_error (table s') j = nth_error (table s) j).
Proof.
  intros H. destruct (session_post_recv_cases _ _ _ _ _ H) as [[_ [E _]]|[Hfresh [C|C]]]; [discriminate| |].
  - destruct C as [i [e [_ [[e' [_ [E _]]]|[_ [E _]]]]]]; congruence.
  - destruct C as [Hnone [[_ [E _]]|[[_ [_ [_ [E _]]]]|[[_ [_ [_ [_ [E _]]]]]|C]]]]; try discriminate.
    destruct C as [Hi [Hn [Hex [l' [i [e' [Ha [He [_ E]]]]]]]]].
    repeat split; try assumption. exists i.
    destruct (add_exch_some _ _ _ _ Ha) as [Hni [Hoth [Hfree _]]].
    destruct (exch_post_recv_role _ _ _ _ _ He) as [Hid Hr]. cbn in Hid, Hr.
    split; [exact Hfree|]. split.
    + rewrite nth_error_table, E. rewrite (nth_set_nth_here _ _ _ _ Hni). cbn. rewrite Hid, Hr. reflexivity.
    + intros j Hj. rewrite !nth_error_table, E. rewrite nth_set_nth_other by exact Hj.
      rewrite (Hoth j Hj). reflexivity.
Qed.

Lemma table_set_nth_same l i e e' :
  nth_error l i = Some (Some e) -> e_id e' = e_id e -> e_role e' = e_role e ->
  map slot_view (set_nth l i (Some e')) = map slot_view l.
Proof.
  intros Hn Hid Hr. rewrite map_set_nth. apply set_nth_same.
  rewrite nth_error_map, Hn. cbn. rewrite Hid, Hr. reflexivity.
Qed.

Lemma table_unchanged_unless_new s m t s' r :
  session_post_recv s m t = (s', r) -> r <> Ok true -> table s' = table s.
Proof.
  intros H Hr. unfold table. destruct (session_post_recv_cases _ _ _ _ _ H) as [[_ [_ E]]|[_ [C|C]]].
  - rewrite E. reflexivity.
  - destruct C as [i [e [Hf [[e' [He [_ E]]]|[_ [_ E]]]]]]; rewrite E; [|reflexivity].
    destruct (find_exch_some _ _ _ _ Hf) as [Hn _].
    destruct (exch_post_recv_role _ _ _ _ _ He) as [Hid Hro].
    apply (table_set_nth_same _ _ e); assumption.
  - destruct C as [_ [[_ [_ E]]|[[_ [_ [_ [_ E]]]]|[[_ [_ [_ [_ [_ E]]]]]|C]]]]; try (rewrite E; reflexivity).
    destruct C as [_ [_ [_ [l' [i [e' [_ [_ [E _]]]]]]]]]. congruence.
Qed.

Lemma routed_only_to_match s m t s' :
  session_post_recv s m t = (s', Ok false) ->
  exists i e, nth_error (s_exchs s) i = Some (Some e) /\
    e_id e = m_exid m /\ m_init m = is_responder (e_role e) /\
    (forall j, j <> i -> nth_error (s_exchs s') j = nth_error (s_exchs s) j).
Proof.
  intros H. destruct (session_post_recv_cases _ _ _ _ _ H) as [[_ [E _]]|[_ [C|C]]]; [discriminate| |].
  - destruct C as [i [e [Hf [[e' [_ [_ E]]]|[Hc _]]]]]; [|congruence].
    destruct (find_exch_some _ _ _ _ Hf) as [Hn Hm]. apply exch_is_for_rx_spec in Hm.
    exists i, e. repeat split; try tauto. intros j Hj. rewrite E. apply nth_set_nth_other. exact Hj.
  - destruct C as [_ [[_ [E _]]|[[_ [_ [_ [E _]]]]|[[_ [_ [_ [_ [E _]]]]]|C]]]]; try discriminate.
    destruct C as [_ [_ [_ [l' [i [e' [_ [_ [E _]]]]]]]]]. discriminate.
Qed.

Lemma unknown_rejected s m t s' r :
  session_post_recv s m t = (s', r) ->
  find_exch (s_exchs s) m = None ->
  m_init m = false \/ is_new_exchange (m_op m) = false ->
  (r = Err ERR_NO_EXCHANGE \/ r = Err ERR_DUPLICATE) /\ s_exchs s' = s_exchs s.
Proof.
  intros H Hnone Hgate. destruct (session_post_recv_cases _ _ _ _ _ H) as [[_ [E1 E2]]|[_ [C|C]]].
  - split; [right; exact E1|exact E2].
  - destruct C as [i [e [Hf _]]]. congruence.
  - destruct C as [_ [[_ [E1 E2]]|[[Hi [Hn _]]|[[Hi [Hn _]]|[Hi [Hn _]]]]]].
    + split; [left; exact E1|exact E2].
    + destruct Hgate; congruence.
    + destruct Hgate; congruence.
    + destruct Hgate; congruence.
Qed.

(** * Events of a step *)

Definition is_deliver (e : event) : bool := match e with EvDeliver _ _ _ => true | _ => false end.
Definition is_swallow (e : event) : bool := match e with EvSwallow _ _ _ => true | _ => false end.
Definition is_keep (e : event) : bool := match e with EvKeep _ => true | _ => false end.

Lemma do_rx_core_events s m :
  forall e, In e (snd (do_rx_core s m)) -> is_deliver e = false /\ is_swallow e = false.
Proof.
  unfold do_rx_core.
  repeat match goal with
         | |- context [match ?x with _ => _ end] =>
             match type of x with
             | sumbool _ _ => fail 1
             | _ => destruct x
             end
         | |- context [let '(_, _) := ?x in _] => destruct x
         end;
    cbn; intros e0 Hin;
    repeat match goal with
           | H : _ \/ _ |- _ => destruct H
           | H : False |- _ => destruct H
           | H : _ = e0 |- _ => subst e0
           end; split; reflexivity.
Qed.

Lemma do_rx_snd s m : snd (do_rx s m) = snd (do_rx_core s m).
Proof.
  unfold do_rx. destruct (do_rx_core s m) as [s1 ev]. destruct (rx_sid s m); [|reflexivity].
  destruct (m_group m && negb (is_holding (rx s1))); reflexivity.
Qed.

Lemma do_rx_events s m :
  forall e, In e (snd (do_rx s m)) -> is_deliver e = false /\ is_swallow e = false.
Proof. rewrite do_rx_snd. apply do_rx_core_events. Qed.

(** on anything but a group message [do_rx] is [do_rx_core] *)
Lemma do_rx_plain s m : m_group m = false -> do_rx s m = do_rx_core s m.
Proof.
  intros H. unfold do_rx. destruct (do_rx_core s m) as [s1 ev]. rewrite H. cbn [andb].
  destruct (rx_sid s m); reflexivity.
Qed.

(** * Routing soundness *)

(** A message is handed to an Exchange object only out of the RX slot, only if
    the session it arrived on, its exchange id and its initiator flag identify
    that exchange, and the exchange is owned (never accept-pending, never
    dropped); the repaired code never discards a message through [recv]. *)
Theorem routing_sound_inv s l s' ev :
  Inv s -> step false s l = Some (s', ev) ->
  (forall e, In e ev -> is_swallow e = false) /\
  forall sid idx m, In (EvDeliver sid idx m) ev ->
    l = LRecv sid idx /\ rx s = RxHolding m /\ rx s' = RxTaken m sid idx /\
    In (sid, idx) (handles s) /\
    exists se e, In se (sessions s) /\ s_id se = sid /\ s_key se = m_key m /\
      nth_error (s_exchs se) idx = Some (Some e) /\
      e_id e = m_exid m /\ m_init m = is_responder (e_role e) /\ is_owned (e_role e) = true.
Proof.
  intros I H.
  assert (Hno : forall evs : list event, (forall e, In e evs -> is_deliver e = false /\ is_swallow e = false) ->
            (forall e, In e evs -> is_swallow e = false) /\
            forall sid idx m, In (EvDeliver sid idx m) evs -> False).
  { intros evs Hn. split; [intros e He; apply (Hn e He)|].
    intros sid idx m Hin. destruct (Hn _ Hin) as [Hd _]. discriminate. }
  assert (Hnil : (forall e, In e (@nil event) -> is_deliver e = false /\ is_swallow e = false)) by (intros e []).
  assert (Hone : forall x, is_deliver x = false -> is_swallow x = false ->
            (forall e, In e [x] -> is_deliver e = false /\ is_swallow e = false)).
  { intros x H1 H2 e [<-|[]]. split; assumption. }
  destruct l as [m| |sid idx|sid idx|sid idx|sid idx ctr rel|sid exid| | | |key enc grp|sid|sid|d]; cbn [step] in H.
  - destruct (rx s); try discriminate. inversion H as [H1].
    assert (Hev : ev = snd (do_rx s m)) by (rewrite H1; reflexivity).
    destruct (Hno ev) as [A B]; [rewrite Hev; apply do_rx_events|].
    split; [exact A|]. intros a b c Hin. destruct (B a b c Hin).
  - destruct (rx s) as [|m|]; try discriminate.
    destruct (owner_of (sessions s) m) as [[[se i] e]|]; [|discriminate].
    destruct (is_pending (e_role e)); [|discriminate]. inversion H; subst.
    destruct (Hno _ (Hone (EvAccept (s_id se) i m) eq_refl eq_refl)) as [A B].
    split; [exact A|]. intros a b c Hin. destruct (B a b c Hin).
  - destruct (has_handle s sid idx) eqn:Hh; [|discriminate]. apply has_handle_true in Hh.
    destruct (rx s) as [|m|] eqn:Hrx; try discriminate.
    destruct (find_sid (sessions s) sid) as [se|] eqn:Hf; [|discriminate].
    destruct (find_sid_some _ _ _ Hf) as [Hse Eid].
    destruct (s_key se =? m_key m) eqn:Hk; [|discriminate]. apply N.eqb_eq in Hk.
    destruct (nth_error (s_exchs se) idx) as [[e|]|] eqn:Hn; try discriminate.
    destruct (exch_is_for_rx e m && negb (retrans_pending e)) eqn:Hg; [|discriminate].
    apply andb_true_iff in Hg. destruct Hg as [Hm _]. apply exch_is_for_rx_spec in Hm.
    inversion H; subst; clear H. split.
    + intros e0 [<-|[]]. reflexivity.
    + intros a b c [E|[]]. inversion E; subst. repeat split; try reflexivity; try assumption.
      exists se, e. repeat split; try tauto.
      pose proof (inv_hdl _ I se b Hse Hh) as Ho. rewrite Hn in Ho. exact Ho.
  - destruct (rx s) as [| |m a b]; try discriminate.
    destruct ((a =? sid) && (b =? idx)%nat); [|discriminate]. inversion H; subst.
    destruct (Hno _ Hnil) as [A B]. split; [exact A|]. intros x y z Hin. destruct (B x y z Hin).
  - destruct (has_handle s sid idx); [|discriminate]. inversion H; subst.
    destruct (Hno _ Hnil) as [A B]. split; [exact A|]. intros x y z Hin. destruct (B x y z Hin).
  - destruct (has_handle s sid idx); [|discriminate]. cbn zeta in H.
    assert (Hq : forall q, Some (q, @nil event) = Some (s', ev) ->
              (forall e, In e ev -> is_swallow e = false) /\
              forall sid idx m, In (EvDeliver sid idx m) ev -> False).
    { intros q Hq. inversion Hq; subst. destruct (Hno _ Hnil) as [A B]. split; [exact A|exact B]. }
    assert (Hdone : (forall e, In e ev -> is_swallow e = false) /\
              (forall sid idx m, In (EvDeliver sid idx m) ev -> False)).
    { destruct (find_sid (sessions s) sid) as [se|]; [|eapply Hq; exact H].
      destruct (nth_error (s_exchs se) idx) as [[e|]|]; try (eapply Hq; exact H).
      destruct (s_group se); [eapply Hq; exact H|].
      destruct (rm_pre_send (e_mrp e) ctr rel None) as [r' [v|c|p]]; try discriminate; eapply Hq; exact H. }
    destruct Hdone as [A B]. split; [exact A|]. intros x y z Hin. destruct (B x y z Hin).
  - destruct (find_sid (sessions s) sid) as [se|]; [|discriminate].
    destruct (s_expired se); [discriminate|].
    destruct (add_exch (s_exchs se) _) as [[l' i]|]; [|discriminate]. inversion H; subst.
    destruct (Hno _ Hnil) as [A B]. split; [exact A|]. intros x y z Hin. destruct (B x y z Hin).
  - destruct (rx s) as [|m|]; try discriminate.
    destruct (owner_of (sessions s) m) as [[[se i] e]|]; [|discriminate].
    destruct (is_pending (e_role e) && rm_received (e_mrp e) && (e_rat e + ACCEPT_TIMEOUT_MS <=? now s)); [|discriminate].
    inversion H; subst.
    destruct (Hno _ (Hone (EvAcceptTimeout (s_id se) i m) eq_refl eq_refl)) as [A B].
    split; [exact A|]. intros a b c Hin. destruct (B a b c Hin).
  - destruct (rx s) as [|m|]; try discriminate.
    assert (Hx : ev = [EvOrphan m]).
    { destruct (owner_of (sessions s) m) as [[[se i] e]|]; [destruct (is_dropped (e_role e)); [|discriminate]|];
        inversion H; reflexivity. }
    subst ev. destruct (Hno _ (Hone (EvOrphan m) eq_refl eq_refl)) as [A B].
    split; [exact A|]. intros a b c Hin. destruct (B a b c Hin).
  - destruct (pick_dropped (sessions s)) as [[[sid i] e]|]; [|discriminate].
    destruct (retrans_pending e).
    + inversion H; subst. destruct (Hno _ (Hone (EvCloseSession sid i) eq_refl eq_refl)) as [A B].
      split; [exact A|]. intros a b c Hin. destruct (B a b c Hin).
    + inversion H; subst. destruct (is_group_sid (sessions s) sid).
      { destruct (Hno _ Hnil) as [A B]. split; [exact A|]. intros x y z Hin. destruct (B x y z Hin). }
      destruct (rm_ack (e_mrp e)) as [a0|]; [destruct (a_acked a0)|].
      * destruct (Hno _ Hnil) as [A B]. split; [exact A|]. intros x y z Hin. destruct (B x y z Hin).
      * destruct (Hno _ (Hone (EvStandaloneAck sid i (a_ctr a0)) eq_refl eq_refl)) as [A B].
        split; [exact A|]. intros a b c Hin. destruct (B a b c Hin).
      * destruct (Hno _ Hnil) as [A B]. split; [exact A|]. intros x y z Hin. destruct (B x y z Hin).
  - inversion H; subst. destruct (Hno _ Hnil) as [A B]. split; [exact A|]. intros x y z Hin. destruct (B x y z Hin).
  - destruct (find_sid (sessions s) sid); [|discriminate]. inversion H; subst.
    destruct (Hno _ Hnil) as [A B]. split; [exact A|]. intros x y z Hin. destruct (B x y z Hin).
  - destruct (find_sid (sessions s) sid); [|discriminate]. inversion H; subst.
    destruct (Hno _ Hnil) as [A B]. split; [exact A|]. intros x y z Hin. destruct (B x y z Hin).
  - inversion H; subst. destruct (Hno _ Hnil) as [A B]. split; [exact A|]. intros x y z Hin. destruct (B x y z Hin).
Qed.

Theorem routing_sound s l s' ev :
  reachable s -> step false s l = Some (s', ev) ->
  (forall e, In e ev -> is_swallow e = false) /\
  forall sid idx m, In (EvDeliver sid idx m) ev ->
    l = LRecv sid idx /\ rx s = RxHolding m /\ rx s' = RxTaken m sid idx /\
    In (sid, idx) (handles s) /\
    exists se e, In se (sessions s) /\ s_id se = sid /\ s_key se = m_key m /\
      nth_error (s_exchs se) idx = Some (Some e) /\
      e_id e = m_exid m /\ m_init m = is_responder (e_role e) /\ is_owned (e_role e) = true.
Proof. intros R. apply routing_sound_inv. apply reachable_inv. exact R. Qed.

(** * No wedge *)

Definition enabled_empties (s : sys) (l : label) : Prop :=
  exists s' ev, step false s l = Some (s', ev) /\ rx s' = RxEmpty.

Definition tick (s : sys) (d : N) : sys :=
  mkSys (sessions s) (rx s) (handles s) (now s + d) (next_sid s).

Lemma tick_is_step s d : step false s (LTick d) = Some (tick s d, []).
Proof. reflexivity. Qed.

(** what can discharge a message sitting in the RX slot *)
Inductive discharger (s : sys) (m : msg) : Prop :=
| DisOrphan :
    (* nobody owns it: session gone, exchange gone, or exchange dropped *)
    (owner_of (sessions s) m = None \/
     exists se i e, owner_of (sessions s) m = Some (se, i, e) /\ is_dropped (e_role e) = true) ->
    enabled_empties s LSweepOrphan -> discharger s m
| DisPending se i e :
    (* not accepted yet: a responder may accept it now; otherwise the accept
       timeout sweeper is enabled after a Tick of at most the accept deadline *)
    owner_of (sessions s) m = Some (se, i, e) -> e_role e = RespPending ->
    (exists s' ev, step false s LAccept = Some (s', ev)) ->
    (forall d, ACCEPT_TIMEOUT_MS <= d -> enabled_empties (tick s d) LSweepAccept) ->
    discharger s m
| DisOwned se i e :
    (* owned by a live Exchange object: it can take the message (unless it is
       itself waiting for an acknowledgement) or drop the exchange, after which
       [no_wedge] applies again to the resulting state (the slot of the dropped
       exchange is then Dropped or freed, never Owned) *)
    owner_of (sessions s) m = Some (se, i, e) -> is_owned (e_role e) = true ->
    In (s_id se, i) (handles s) ->
    (retrans_pending e = false ->
       exists s', step false s (LRecv (s_id se) i) = Some (s', [EvDeliver (s_id se) i m]) /\
                  rx s' = RxTaken m (s_id se) i) ->
    (exists s1 ev1, step false s (LDropExch (s_id se) i) = Some (s1, ev1) /\ rx s1 = RxHolding m) ->
    discharger s m.


Theorem no_wedge_inv s m :
  Inv s -> rx s = RxHolding m -> discharger s m.
Proof.
  intros I Hrx.
  assert (Horph : forall (P : Prop),
            (owner_of (sessions s) m = None \/
             exists se i e, owner_of (sessions s) m = Some (se, i, e) /\ is_dropped (e_role e) = true) ->
            enabled_empties s LSweepOrphan).
  { intros _ [Hn|[se [i [e [Ho Hd]]]]]; unfold enabled_empties; cbn [step]; rewrite Hrx.
    - rewrite Hn. eexists _, _. split; reflexivity.
    - rewrite Ho, Hd. eexists _, _. split; reflexivity. }
  destruct (owner_of (sessions s) m) as [[[se i] e]|] eqn:Ho.
  2:{ apply DisOrphan; [left; exact Ho|]. apply (Horph True). left. reflexivity. }
  destruct (owner_of_some _ _ _ _ _ Ho) as [Hse [Hkey [Hn Hm]]].
  destruct (e_role e) eqn:Hr.
  - (* InitOwned *)
    assert (Hh : In (s_id se, i) (handles s)).
    { apply (inv_own _ I se i Hse). rewrite Hn. cbn. rewrite Hr. reflexivity. }
    apply (DisOwned s m se i e); try assumption; [rewrite Hr; reflexivity| |].
    + intros Hnr. cbn [step]. rewrite (proj2 (has_handle_true s _ _) Hh), Hrx.
      rewrite (find_sid_in _ _ (inv_nodup _ I) Hse), Hkey, N.eqb_refl, Hn, Hm, Hnr. cbn.
      eexists. split; reflexivity.
    + cbn [step]. rewrite (proj2 (has_handle_true s _ _) Hh). eexists _, _. split; [reflexivity|].
      cbn [rx]. rewrite Hrx. reflexivity.
  - (* InitDropped *)
    apply DisOrphan; [right; exists se, i, e; rewrite Hr; split; [exact Ho|reflexivity]|].
    apply (Horph True). right. exists se, i, e. rewrite Hr. split; reflexivity.
  - (* RespPending *)
    destruct (inv_time _ I se Hse i e Hn) as [Hrat Hrcv].
    apply (DisPending s m se i e); try assumption.
    + cbn [step]. rewrite Hrx, Ho, Hr. cbn. eexists _, _. reflexivity.
    + intros d Hd. unfold enabled_empties, tick. cbn [step rx sessions now]. rewrite Hrx, Ho, Hr.
      cbn [is_pending]. rewrite Hrcv by (rewrite Hr; reflexivity).
      assert (Hle : (e_rat e + ACCEPT_TIMEOUT_MS <=? now s + d) = true) by (apply N.leb_le; lia).
      rewrite Hle. cbn. eexists _, _. split; reflexivity.
  - (* RespOwned *)
    assert (Hh : In (s_id se, i) (handles s)).
    { apply (inv_own _ I se i Hse). rewrite Hn. cbn. rewrite Hr. reflexivity. }
    apply (DisOwned s m se i e); try assumption; [rewrite Hr; reflexivity| |].
    + intros Hnr. cbn [step]. rewrite (proj2 (has_handle_true s _ _) Hh), Hrx.
      rewrite (find_sid_in _ _ (inv_nodup _ I) Hse), Hkey, N.eqb_refl, Hn, Hm, Hnr. cbn.
      eexists. split; reflexivity.
    + cbn [step]. rewrite (proj2 (has_handle_true s _ _) Hh). eexists _, _. split; [reflexivity|].
      cbn [rx]. rewrite Hrx. reflexivity.
  - (* RespDropped *)
    apply DisOrphan; [right; exists se, i, e; rewrite Hr; split; [exact Ho|reflexivity]|].
    apply (Horph True). right. exists se, i, e. rewrite Hr. split; reflexivity.
Qed.

Theorem no_wedge s m :
  reachable s -> rx s = RxHolding m -> discharger s m.
Proof. intros R. apply no_wedge_inv. apply reachable_inv. exact R. Qed.

(** once the slot is empty any datagram is processed; a slot taken by an
    Exchange is released when that Exchange lets go of the message or is dropped *)
Lemma empty_receives s m : rx s = RxEmpty -> exists s' ev, step false s (LRx m) = Some (s', ev).
Proof. intros H. cbn [step]. rewrite H. destruct (do_rx s m) as [s' ev]. eexists _, _. reflexivity. Qed.

Lemma taken_released s m sid idx :
  reachable s -> rx s = RxTaken m sid idx ->
  In (sid, idx) (handles s) /\
  (exists s' ev, step false s (LRxDone sid idx) = Some (s', ev) /\ rx s' = RxEmpty) /\
  (exists s' ev, step false s (LDropExch sid idx) = Some (s', ev) /\ rx s' = RxEmpty).
Proof.
  intros R Hrx. pose proof (reachable_inv _ R) as I.
  pose proof (inv_taken _ I _ _ _ Hrx) as Hh. split; [exact Hh|]. split.
  - cbn [step]. rewrite Hrx, N.eqb_refl, Nat.eqb_refl. cbn. eexists _, _. split; reflexivity.
  - cbn [step]. rewrite (proj2 (has_handle_true s _ _) Hh). eexists _, _. split; [reflexivity|].
    cbn [rx]. rewrite Hrx. cbn [release_rx]. rewrite N.eqb_refl, Nat.eqb_refl. reflexivity.
Qed.

(** * Dropped exchanges are closed cleanly *)

Lemma find_dropped_none p ss :
  find_dropped p ss = None ->
  forall se i e, In se ss -> nth_error (s_exchs se) i = Some (Some e) ->
    is_dropped (e_role e) = true -> p e = false.
Proof.
  induction ss as [|a t IH]; intros H se i e Hin Hn Hd; [destruct Hin|].
  cbn [find_dropped] in H.
  destruct (find_index _ (s_exchs a)) as [k|] eqn:Hf.
  - destruct (find_index_some _ _ _ Hf) as [x [Hx Hp]]. rewrite Hx in H.
    destruct x as [y|]; [discriminate|]. discriminate.
  - destruct Hin as [<-|Hin]; [|eapply IH; eassumption].
    pose proof (find_index_none _ _ Hf (Some e) (nth_error_In _ _ Hn)) as Hc. cbn in Hc.
    rewrite Hd in Hc. exact Hc.
Qed.

Theorem closed_cleanly s :
  (exists se i e, In se (sessions s) /\ nth_error (s_exchs se) i = Some (Some e) /\
                  is_dropped (e_role e) = true) ->
  exists sid i e s' ev,
    step false s LCloseDropped = Some (s', ev) /\
    (exists se, In se (sessions s) /\ s_id se = sid /\ nth_error (s_exchs se) i = Some (Some e) /\
                is_dropped (e_role e) = true) /\
    rx s' = rx s /\ handles s' = handles s /\
    ( (retrans_pending e = true /\ ev = [EvCloseSession sid i] /\
       sessions s' = remove_sid (sessions s) sid)
      \/
      (retrans_pending e = false /\ sessions s' = group_gc (set_slot (sessions s) sid i None) sid /\
       ( (is_group_sid (sessions s) sid = true /\ ev = [])
         \/ (is_group_sid (sessions s) sid = false /\ ack_pending e = true /\
             exists c, ev = [EvStandaloneAck sid i c])
         \/ (is_group_sid (sessions s) sid = false /\ ack_pending e = false /\ ev = [])))).
Proof.
  intros [se [i [e [Hse [Hn Hd]]]]].
  destruct (pick_dropped (sessions s)) as [[[sid j] x]|] eqn:Hpk.
  - destruct (pick_dropped_some _ _ _ _ Hpk) as [se1 R].
    cbn [step]. rewrite Hpk. destruct (retrans_pending x) eqn:Hr.
    + exists sid, j, x. eexists _, _. split; [reflexivity|]. split; [exists se1; exact R|].
      cbn [rx handles sessions]. split; [reflexivity|]. split; [reflexivity|].
      left. split; [exact Hr|]. split; reflexivity.
    + exists sid, j, x. eexists _, _. split; [reflexivity|]. split; [exists se1; exact R|].
      cbn [rx handles sessions]. split; [reflexivity|]. split; [reflexivity|].
      right. split; [exact Hr|]. split; [reflexivity|].
      destruct (is_group_sid (sessions s) sid); [left; split; reflexivity|right].
      unfold ack_pending. destruct (rm_ack (e_mrp x)) as [a|]; [destruct (a_acked a)|]; cbn.
      * right. repeat split.
      * left. split; [reflexivity|]. split; [reflexivity|]. eexists. reflexivity.
      * right. repeat split.
  - exfalso. unfold pick_dropped in Hpk.
    destruct (find_dropped retrans_pending (sessions s)) eqn:H1; [discriminate|].
    pose proof (find_dropped_none _ _ H1 se i e Hse Hn Hd) as A.
    pose proof (find_dropped_none _ _ Hpk se i e Hse Hn Hd) as B. cbn in B. rewrite A in B. discriminate.
Qed.

(** * Answers to unknown exchanges are dropped *)

Lemma unknown_dropped_core s m se :
  find_key (sessions s) (m_key m) = Some se ->
  find_exch (s_exchs se) m = None ->
  (m_init m = false \/ is_new_exchange (m_op m) = false) ->
  is_close (m_op m) = false ->
  exists s1 ev, do_rx_core s m = (s1, ev) /\
    rx s1 = RxEmpty /\ handles s1 = handles s /\
    (ev = [] \/ ev = [EvDupAck (m_key m) (m_ctr m)]) /\
    forall se', In se' (sessions s1) ->
      exists se0, In se0 (sessions s) /\ s_id se' = s_id se0 /\ s_exchs se' = s_exchs se0.
Proof.
  intros Hk Hnone Hgate Hcl. unfold do_rx_core. rewrite Hk.
  destruct (session_post_recv se m (now s)) as [se1 r] eqn:Hp.
  destruct (unknown_rejected _ _ _ _ _ Hp Hnone Hgate) as [Hr He].
  destruct (session_post_recv_fields _ _ _ _ _ Hp) as [Eid _].
  destruct (find_key_some _ _ _ Hk) as [Hse _].
  assert (Hsess : forall se', In se' (upd_sid (sessions s) (s_id se) (fun _ => se1)) ->
            exists se0, In se0 (sessions s) /\ s_id se' = s_id se0 /\ s_exchs se' = s_exchs se0).
  { intros se' Hin. destruct (in_upd_sid _ _ _ _ Hin) as [y [Hy [[Ey ->]|[Ey ->]]]].
    - exists se. repeat split; assumption.
    - exists y. repeat split. exact Hy. }
  cbn zeta. destruct Hr as [-> | ->].
  - cbn. rewrite Hcl. cbn. eexists _, _. split; [reflexivity|]. cbn [rx handles sessions].
    repeat split; try (left; reflexivity). exact Hsess.
  - cbn. destruct (m_group m || is_standalone_ack (m_op m)); eexists _, _; (split; [reflexivity|]);
      cbn [rx handles sessions];
      repeat split; try (left; reflexivity); try (right; reflexivity); exact Hsess.
Qed.

Theorem unknown_dropped s m se :
  rx s = RxEmpty -> find_key (sessions s) (m_key m) = Some se ->
  find_exch (s_exchs se) m = None ->
  (m_init m = false \/ is_new_exchange (m_op m) = false) ->
  is_close (m_op m) = false ->
  exists s' ev, step false s (LRx m) = Some (s', ev) /\
    rx s' = RxEmpty /\ handles s' = handles s /\
    (ev = [] \/ ev = [EvDupAck (m_key m) (m_ctr m)]) /\
    forall se', In se' (sessions s') ->
      exists se0, In se0 (sessions s) /\ s_id se' = s_id se0 /\ s_exchs se' = s_exchs se0.
Proof.
  intros Hrx Hk Hnone Hgate Hcl. cbn [step]. rewrite Hrx.
  destruct (unknown_dropped_core _ _ _ Hk Hnone Hgate Hcl) as [s1 [ev [E [Er [Eh [Ee Es]]]]]].
  unfold do_rx. rewrite E. destruct (rx_sid s m) as [sid|].
  - destruct (m_group m && negb (is_holding (rx s1))).
    + eexists _, _. split; [reflexivity|]. cbn [rx handles sessions].
      split; [exact Er|]. split; [exact Eh|]. split; [exact Ee|].
      intros se' Hin. apply Es. eapply in_group_gc. exact Hin.
    + exists s1, ev. repeat split; assumption.
  - exists s1, ev. repeat split; assumption.
Qed.

(** * A peer's CloseSession takes effect whatever exchange it arrives on *)

Theorem peer_close_honoured s m se :
  Inv s -> rx s = RxEmpty -> find_key (sessions s) (m_key m) = Some se ->
  snd (post_recv (s_win se) (m_ctr m) (s_enc se) false) = true ->
  m_op m = OpScClose ->
  (find_exch (s_exchs se) m = None \/ m_ack m = None) ->
  exists s', step false s (LRx m) = Some (s', [EvPeerClosed (s_id se)]) /\
    rx s' = RxEmpty /\ handles s' = handles s /\
    (forall x, In x (sessions s') -> In x (sessions s) /\ s_id x <> s_id se).
Proof.
  intros I Hrx Hk Hfresh Hop Hm. cbn [step]. rewrite Hrx.
  assert (Hcore : exists s1, do_rx_core s m = (s1, [EvPeerClosed (s_id se)]) /\
            rx s1 = RxEmpty /\ handles s1 = handles s /\
            (forall x, In x (sessions s1) -> In x (sessions s) /\ s_id x <> s_id se)).
  2:{ destruct Hcore as [s1 [E [Er [Eh Es]]]]. unfold do_rx. rewrite E.
      destruct (rx_sid s m) as [sid|]; [|exists s1; split; [reflexivity|]; split; [exact Er|]; split; [exact Eh|exact Es]].
      destruct (m_group m && negb (is_holding (rx s1))); [|exists s1; split; [reflexivity|]; split; [exact Er|]; split; [exact Eh|exact Es]].
      eexists. split; [reflexivity|]. cbn [rx handles sessions].
      split; [exact Er|]. split; [exact Eh|]. intros x Hx. apply Es. eapply in_group_gc. exact Hx. }
  unfold do_rx_core. rewrite Hk.
  destruct (find_key_some _ _ _ Hk) as [Hse _].
  destruct (session_post_recv se m (now s)) as [se1 r] eqn:Hp.
  destruct (session_post_recv_fields _ _ _ _ _ Hp) as [Eid _].
  (* the result is Ok false (matched) or NoExchange (unmatched) *)
  assert (Hr : (exists b, r = Ok b) \/ r = Err ERR_NO_EXCHANGE).
  { destruct (session_post_recv_cases _ _ _ _ _ Hp) as [[Hf _]|[_ [C|C]]].
    - congruence.
    - destruct C as [i [e [Hfe C]]]. destruct Hm as [Hn|Hack]; [congruence|].
      destruct C as [[e' [_ [-> _]]]|[Hr1 [Hr2 _]]]; [left; eexists; reflexivity|].
      exfalso. revert Hp. unfold session_post_recv, session_post_recv_raw.
      destruct (effective_fields se m) as [_ [_ [_ [Ec [Ex [Ei Eo]]]]]]. rewrite Ec.
      destruct (post_recv (s_win se) (m_ctr m) (s_enc se) false) as [w' fr] eqn:Hw.
      cbn in Hfresh. subst fr. cbn [negb].
      rewrite find_exch_effective, Hfe. unfold exch_post_recv, rm_post_recv.
      assert (Ea : m_ack (effective se m) = None).
      { unfold effective. destruct (s_group se && negb (m_ctl m)); [reflexivity|exact Hack]. }
      rewrite Ea. intros H; inversion H; subst. apply Hr1. reflexivity.
    - destruct C as [_ [[_ [-> _]]|[[_ [Hn _]]|[[_ [Hn _]]|[_ [Hn _]]]]]]; [right; reflexivity| | |];
        rewrite Hop in Hn; discriminate. }
  set (ss1 := upd_sid (sessions s) (s_id se) (fun _ => se1)).
  assert (Hnd1 : NoDup (map s_id ss1)).
  { unfold ss1. rewrite map_id_upd_sid by (intros; congruence). apply (inv_nodup _ I). }
  assert (Hfin : forall x, In x (remove_sid ss1 (s_id se)) ->
            In x (sessions s) /\ s_id x <> s_id se).
  { intros x Hx. pose proof (in_remove_sid_ne _ _ _ Hnd1 Hx) as Hne. split; [|exact Hne].
    apply in_remove_sid in Hx. destruct (in_upd_sid _ _ _ _ Hx) as [y [Hy [[Ey ->]|[Ey ->]]]]; [congruence|exact Hy]. }
  fold ss1. cbn zeta. destruct Hr as [[b ->]| ->].
  - rewrite Hop. cbn. eexists. split; [reflexivity|]. cbn [rx handles sessions]. split; [reflexivity|]. split; [reflexivity|]. exact Hfin.
  - rewrite Hop. cbn. eexists. split; [reflexivity|]. cbn [rx handles sessions]. split; [reflexivity|]. split; [reflexivity|]. exact Hfin.
Qed.

(** * The unrepaired receive path discards other exchanges' messages

    With the code as it was ([bug = true]) a reachable state exists in which the
    RX slot holds a message whose accept-pending exchange is alive, and the
    [recv] of an Exchange object whose session was removed empties the slot;
    the pending exchange stays behind without its message (no sweeper looks at
    it any more). *)

Definition w_m1 : msg := mkMsg 1 true false false 1 10 true OpOrdinary true None.
Definition w_m2 : msg := mkMsg 2 true false false 1 20 true OpOrdinary true None.
Definition w_trace : list label :=
  [LAddSession 1 true false; LAddSession 2 true false; LRx w_m1; LAccept; LRecv 0 0; LRxDone 0 0;
   LRemoveSession 0; LRx w_m2].

Lemma unrepaired_recv_swallows :
  let s := run true (sys_init 0) w_trace in
  rx s = RxHolding w_m2 /\
  (exists se i e, owner_of (sessions s) w_m2 = Some (se, i, e) /\ e_role e = RespPending) /\
  exists s', step true s (LRecv 0 0) = Some (s', [EvSwallow 0 0 w_m2]) /\
    rx s' = RxEmpty /\
    (exists se i e, owner_of (sessions s') w_m2 = Some (se, i, e) /\ e_role e = RespPending) /\
    step true s' LSweepAccept = None /\ step true s' LSweepOrphan = None /\ step true s' LAccept = None.
Proof.
  vm_compute. split; [reflexivity|]. split; [eexists _, _, _; split; reflexivity|].
  eexists. split; [reflexivity|]. split; [reflexivity|]. split; [eexists _, _, _; split; reflexivity|].
  repeat split.
Qed.

(** the same trace on the repaired code: the dangling Exchange cannot take the message *)
Lemma repaired_recv_refuses :
  let s := run false (sys_init 0) w_trace in
  rx s = RxHolding w_m2 /\ step false s (LRecv 0 0) = None.
Proof. vm_compute. split; reflexivity. Qed.
