(** C01: what an empty verdict of the extracted monitor means. *)
From Coq Require Import ZifyN ZifyBool.
From RsM Require Import Lib.MachInt Model.Cert Model.CertSpec Model.Case Model.CaseSpec Proofs.CaseFacts.
Open Scope N_scope.
Arguments N.eqb : simpl never.
Arguments N.ltb : simpl never.

Lemma ident_eqb_eq : forall a b, ident_eqb a b = true <-> a = b.
Proof.
  intros [[f1 p1] c1] [[f2 p2] c2]. unfold ident_eqb.
  rewrite !andb_true_iff, !N.eqb_eq, (list_eqb_eq N N.eqb N.eqb_eq).
  split; [intros [[-> ->] ->]; reflexivity | intros H; inversion H; auto].
Qed.

Lemma app_nil_both : forall A (a b : list A), a ++ b = [] -> a = [] /\ b = [].
Proof. intros A a b H. apply app_eq_nil in H. exact H. Qed.

(** No violation reported for a run = every clause of the property holds of what was observed. *)
Theorem monitor_run_nil : forall al_i al_r s3alt base o,
  monitor_run al_i al_r s3alt base o = [] ->
  (* a session at the responder / initiator carries exactly the allowed identity *)
  (forall s rest, o_r o = s :: rest -> al_r = Some (ident_of s)) /\
  (forall s rest, o_i o = s :: rest -> al_i = Some (ident_of s)) /\
  (* both ends hold a session: same directional keys crosswise *)
  (forall a ra b rb, o_i o = a :: ra -> o_r o = b :: rb -> o_enc a = o_dec b /\ o_dec a = o_enc b) /\
  (* no reserved slot left behind *)
  o_left o = 0 /\
  (* a session under tampering is the session of the untouched run *)
  (forall bo, base = Some bo ->
     (forall s rest, o_i o = s :: rest -> exists s0 rest0, o_i bo = s0 :: rest0 /\ ident_of s = ident_of s0) /\
     (forall s rest, o_r o = s :: rest -> exists s0 rest0, o_r bo = s0 :: rest0 /\ ident_of s = ident_of s0)) /\
  (* one handshake, at most one session per end *)
  (length (o_i o) <= 1)%nat /\ (length (o_r o) <= 1)%nat.
Proof.
  intros al_i al_r s3alt base o H. unfold monitor_run in H.
  apply app_nil_both in H. destruct H as [H1 H].
  apply app_nil_both in H. destruct H as [H2 H].
  apply app_nil_both in H. destruct H as [H3 H].
  apply app_nil_both in H. destruct H as [H4 H].
  apply app_nil_both in H. destruct H as [H5 H].
  apply app_nil_both in H. destruct H as [H6 H7].
  assert (Hend : forall code al l, check_end code al l = [] -> forall s rest, l = s :: rest -> al = Some (ident_of s)).
  { intros code al l Hc s rest ->. unfold check_end in Hc. destruct al as [i|]; [|discriminate].
    destruct (ident_eqb (ident_of s) i) eqn:E; [|discriminate]. apply ident_eqb_eq in E. congruence. }
  assert (Htam : forall bl l, check_tamper bl l = [] -> forall s rest, l = s :: rest ->
            exists s0 rest0, bl = s0 :: rest0 /\ ident_of s = ident_of s0).
  { intros bl l Hc s rest ->. unfold check_tamper in Hc. destruct bl as [|b0 r0]; [discriminate|].
    destruct (ident_eqb (ident_of s) (ident_of b0)) eqn:E; [|discriminate]. apply ident_eqb_eq in E.
    exists b0, r0. auto. }
  assert (Hmany : forall l, check_many l = [] -> (length l <= 1)%nat).
  { intros [|x [|y r]] Hc; cbn in *; try lia. discriminate. }
  assert (Hkeys : forall a ra b rb, o_i o = a :: ra -> o_r o = b :: rb -> o_enc a = o_dec b /\ o_dec a = o_enc b).
  { intros a ra b rb Ea Eb. rewrite Ea, Eb in H3. unfold check_keys in H3.
    destruct ((o_enc a =? o_dec b) && (o_dec a =? o_enc b)) eqn:E; [|destruct s3alt; discriminate].
    apply andb_true_iff in E. destruct E as [E1 E2]. apply N.eqb_eq in E1, E2. auto. }
  split; [exact (Hend _ _ _ H1)|]. split; [exact (Hend _ _ _ H2)|]. split; [exact Hkeys|].
  split. { destruct (0 <? o_left o) eqn:E; [discriminate|]. apply N.ltb_ge in E. lia. }
  split. { intros bo ->. apply app_nil_both in H5. destruct H5 as [H5a H5b].
           split; [exact (Htam _ _ H5a)|exact (Htam _ _ H5b)]. }
  split; [exact (Hmany _ H6)|exact (Hmany _ H7)].
Qed.
