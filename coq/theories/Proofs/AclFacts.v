(** Lemmas about the access-control model: bit-level encodings read as
    arithmetic, the privilege check as a comparison of levels, list
    plumbing. *)
From RsM Require Import Lib.MachInt Lib.BitFacts Model.Acl Model.AclSpec.
From Coq Require Import ZifyN ZifyBool.
Open Scope N_scope.

Arguments N.testbit : simpl never.
Arguments N.shiftl : simpl never.
Arguments N.shiftr : simpl never.
Arguments N.lor : simpl never.
Arguments N.land : simpl never.
Arguments N.modulo : simpl never.
Arguments N.div : simpl never.
Arguments N.sub : simpl never.
Arguments N.add : simpl never.
Arguments N.mul : simpl never.
Arguments N.leb : simpl never.
Arguments N.ltb : simpl never.
Arguments N.eqb : simpl never.

(** * Generic list facts *)

Lemma existsb_map {A B} (f : B -> bool) (g : A -> B) (l : list A) :
  existsb f (map g l) = existsb (fun x => f (g x)) l.
Proof. induction l as [|x l IH]; cbn [map existsb]; [reflexivity|]. rewrite IH. reflexivity. Qed.

Lemma existsb_ext_in {A} (f g : A -> bool) (l : list A) :
  (forall x, In x l -> f x = g x) -> existsb f l = existsb g l.
Proof.
  induction l as [|x l IH]; intros H; cbn [existsb]; [reflexivity|].
  rewrite (H x) by (left; reflexivity). rewrite IH; [reflexivity|].
  intros y Hy. apply H. right. exact Hy.
Qed.

Lemma existsb_flat_map {A B} (f : B -> bool) (g : A -> list B) (l : list A) :
  existsb f (flat_map g l) = existsb (fun x => existsb f (g x)) l.
Proof.
  induction l as [|x l IH]; cbn [flat_map existsb]; [reflexivity|].
  rewrite existsb_app, IH. reflexivity.
Qed.

Lemma existsb_false {A} (l : list A) : existsb (fun _ => false) l = false.
Proof. induction l as [|x l IH]; cbn [existsb]; [reflexivity|exact IH]. Qed.

Lemma find_map {A B} (p : B -> bool) (g : A -> B) (l : list A) :
  find p (map g l) = option_map g (find (fun x => p (g x)) l).
Proof.
  induction l as [|x l IH]; cbn [map find]; [reflexivity|].
  destruct (p (g x)); [reflexivity|exact IH].
Qed.

Lemma find_app_skip {A} (p : A -> bool) (l1 l2 : list A) (x : A) :
  p x = false -> find p (l1 ++ x :: l2) = find p (l1 ++ l2).
Proof.
  intros Hx. induction l1 as [|y l1 IH]; cbn [app find].
  - rewrite Hx. reflexivity.
  - destruct (p y); [reflexivity|exact IH].
Qed.

Lemma existsb_app_skip {A} (p : A -> bool) (l1 l2 : list A) (x : A) :
  p x = false -> existsb p (l1 ++ x :: l2) = existsb p (l1 ++ l2).
Proof.
  intros Hx. rewrite !existsb_app. cbn [existsb]. rewrite Hx. reflexivity.
Qed.

(** * Bit masks as arithmetic *)

Lemma land_shifted_ones (s k n : N) :
  N.land s (N.shiftl (N.ones k) n) = N.shiftl (N.land (N.shiftr s n) (N.ones k)) n.
Proof.
  apply N.bits_inj. intro j.
  rewrite N.land_spec, !testbit_shiftl, N.land_spec, N.shiftr_spec'.
  destruct (N.leb_spec n j) as [Hle|Hlt]; cbn [andb].
  - replace (j - n + n) with j by lia. reflexivity.
  - apply andb_false_r.
Qed.

Lemma shiftl_lor_add (a n b : N) :
  b < 2 ^ n -> N.lor (N.shiftl a n) b = N.shiftl a n + b.
Proof.
  intros Hb.
  assert (H0 : N.land (N.shiftl a n) b = 0).
  { apply N.bits_inj_0. intro j. rewrite N.land_spec, testbit_shiftl.
    destruct (N.leb_spec n j) as [Hle|Hlt]; cbn [andb]; [|reflexivity].
    rewrite (lt_pow2_testbit_high b n j) by assumption. apply andb_false_r. }
  rewrite <- N.lxor_lor by exact H0. symmetry. apply N.add_nocarry_lxor. exact H0.
Qed.

Definition upper32 (s : N) : N := (s / 4294967296) mod 4294967296.

Lemma cat_version_arith (s : N) : get_noc_cat_version s = s mod 65536.
Proof.
  unfold get_noc_cat_version.
  change NOC_CAT_VERSION_MASK with (N.ones 16).
  rewrite N.land_ones. reflexivity.
Qed.

Lemma cat_id_arith (s : N) : get_noc_cat_id s = (s / 65536) mod 65536.
Proof.
  unfold get_noc_cat_id.
  change NOC_CAT_ID_MASK with (N.shiftl (N.ones 16) 16).
  rewrite land_shifted_ones.
  rewrite N.shiftr_shiftl_l by lia. rewrite N.sub_diag, N.shiftl_0_r.
  rewrite N.land_ones, N.shiftr_div_pow2. reflexivity.
Qed.

Lemma is_noc_cat_arith (s : N) :
  is_noc_cat s = (upper32 s =? 0xFFFFFFFD) && negb (s mod 4294967296 =? 0).
Proof.
  unfold is_noc_cat, upper32. f_equal.
  - change NOC_CAT_SUBJECT_MASK with (N.shiftl (N.ones 32) 32).
    rewrite land_shifted_ones, N.land_ones, N.shiftr_div_pow2, N.shiftl_mul_pow2.
    change (2 ^ 32) with 4294967296.
    change NOC_CAT_SUBJECT_PREFIX with (0xFFFFFFFD * 4294967296).
    set (u := (s / 4294967296) mod 4294967296).
    destruct (N.eqb_spec (u * 4294967296) (0xFFFFFFFD * 4294967296)) as [He|Hne];
      destruct (N.eqb_spec u 0xFFFFFFFD) as [Hu|Hnu]; try reflexivity; exfalso; lia.
  - change (N.lor NOC_CAT_ID_MASK NOC_CAT_VERSION_MASK) with (N.ones 32).
    rewrite N.land_ones. change (2 ^ 32) with 4294967296.
    destruct (N.eqb_spec (s mod 4294967296) 0) as [He|Hne]; cbn [negb].
    + rewrite He. reflexivity.
    + apply N.ltb_lt. lia.
Qed.

Lemma subject_of_raw_cat (s : N) :
  subject_of_raw s =
  if is_noc_cat s then Cat (get_noc_cat_id s) (get_noc_cat_version s) else Node s.
Proof.
  rewrite is_noc_cat_arith, cat_id_arith, cat_version_arith. reflexivity.
Qed.

(** one accessor slot against one entry subject *)
Lemma subj_match_one (v s : N) :
  (v =? s) || (is_noc_cat v && is_noc_cat s
               && (get_noc_cat_id v =? get_noc_cat_id s)
               && (get_noc_cat_version s <=? get_noc_cat_version v))
  = subject_matches (subject_of_raw v) (subject_of_raw s).
Proof.
  rewrite !subject_of_raw_cat.
  destruct (is_noc_cat v) eqn:Hv, (is_noc_cat s) eqn:Hs; cbn [andb subject_matches].
  - destruct (N.eqb_spec v s) as [->|Hne]; cbn [orb]; [|reflexivity].
    rewrite N.eqb_refl, N.leb_refl. reflexivity.
  - destruct (N.eqb_spec v s) as [->|Hne]; cbn [orb]; [congruence|reflexivity].
  - destruct (N.eqb_spec v s) as [->|Hne]; cbn [orb]; [congruence|reflexivity].
  - apply orb_false_r.
Qed.

Lemma subj_matches_spec (l : list N) (s : N) :
  subj_matches l s =
  existsb (fun who => subject_matches who (subject_of_raw s))
          (map subject_of_raw (filter (fun v => negb (v =? 0)) l)).
Proof.
  induction l as [|v l IH]; cbn [subj_matches filter]; [reflexivity|].
  destruct (v =? 0) eqn:Hz; cbn [negb]; [exact IH|].
  cbn [map existsb]. rewrite <- subj_match_one, <- IH.
  destruct (v =? s); cbn [orb]; [reflexivity|].
  destruct (is_noc_cat v && is_noc_cat s && (get_noc_cat_id v =? get_noc_cat_id s)
            && (get_noc_cat_version s <=? get_noc_cat_version v)); reflexivity.
Qed.

Lemma subject_of_raw_small (s : N) : s < 4294967296 -> subject_of_raw s = Node s.
Proof.
  intros Hs. unfold subject_of_raw.
  rewrite (N.div_small s 4294967296) by exact Hs.
  reflexivity.
Qed.

(** * The privilege check as a comparison of levels *)

Lemma land_mod64 (d m : N) : N.land (N.ones 6) m = m -> N.land (d mod 64) m = N.land d m.
Proof.
  intros Hm. change 64 with (2 ^ 6). rewrite <- N.land_ones, <- N.land_assoc, Hm. reflexivity.
Qed.

Lemma is_ok_mod64 (d o p : N) : o = 16 \/ o = 32 -> is_ok (d mod 64) o p = is_ok d o p.
Proof.
  intros Ho. unfold is_ok, bits_contains, ACC_READ_PRIVILEGE_MASK, ACC_WRITE_PRIVILEGE_MASK.
  rewrite !(land_mod64 d 15), !(land_mod64 d 14) by reflexivity.
  destruct Ho as [->| ->]; rewrite ?(land_mod64 d 16), ?(land_mod64 d 32) by reflexivity; reflexivity.
Qed.

Lemma testbit_mod64 (d i : N) : i < 6 -> N.testbit (d mod 64) i = N.testbit d i.
Proof.
  intros Hi. change 64 with (2 ^ 6). rewrite testbit_mod_pow2.
  replace (i <? 6) with true by (symmetry; apply N.ltb_lt; exact Hi). reflexivity.
Qed.

Lemma supports_mod64 (d : N) (op : operation) : supports (d mod 64) op = supports d op.
Proof. unfold supports. destruct op; apply testbit_mod64; lia. Qed.

Lemma names_level_mod64 (d : N) (l : level) : names_level (d mod 64) l = names_level d l.
Proof. unfold names_level. destruct l; apply testbit_mod64; cbn; lia. Qed.

Lemma requires_mod64 (d : N) (op : operation) : requires (d mod 64) op = requires d op.
Proof.
  unfold requires. destruct op; cbn [applicable find]; rewrite !names_level_mod64; reflexivity.
Qed.

Definition all_privileges : list (N * privilege) :=
  [(1, Priv View); (3, Priv Operate); (7, Priv Manage); (15, Priv Administer); (16, ProxyView)].

Definition level_check (d : N) (op : operation) (p : N * privilege) : bool :=
  Bool.eqb (is_ok d (op_bits op) (fst p))
           (supports d op && match requires d op with
                             | Some l => privilege_includes (snd p) l
                             | None => false
                             end).

Definition level_check_all (d : N) : bool :=
  forallb (fun op => forallb (level_check d op) all_privileges) [Read; Write; Invoke].

(** finite check: 64 declarations x 3 operations x 5 privileges *)
Lemma level_check_sweep : forallb level_check_all (map N.of_nat (seq 0 64)) = true.
Proof. vm_compute. reflexivity. Qed.

Lemma privilege_of_bits_inv (p : N) (pv : privilege) :
  privilege_of_bits p = Some pv -> In (p, pv) all_privileges.
Proof.
  unfold privilege_of_bits, all_privileges.
  destruct (N.eqb_spec p 1) as [->|_]; [intros [= <-]; cbn; tauto|].
  destruct (N.eqb_spec p 3) as [->|_]; [intros [= <-]; cbn; tauto|].
  destruct (N.eqb_spec p 7) as [->|_]; [intros [= <-]; cbn; tauto|].
  destruct (N.eqb_spec p 15) as [->|_]; [intros [= <-]; cbn; tauto|].
  destruct (N.eqb_spec p 16) as [->|_]; [intros [= <-]; cbn; tauto|].
  discriminate.
Qed.

(** [Access::is_ok] = the element supports the operation and the privilege
    includes the level it requires. *)
Lemma is_ok_spec (d : N) (op : operation) (p : N) (pv : privilege) :
  privilege_of_bits p = Some pv ->
  is_ok d (op_bits op) p =
  supports d op && match requires d op with
                   | Some l => privilege_includes pv l
                   | None => false
                   end.
Proof.
  intros Hp. apply privilege_of_bits_inv in Hp.
  rewrite <- (is_ok_mod64 d) by (destruct op; cbn; tauto).
  rewrite <- supports_mod64, <- requires_mod64.
  assert (Hd : In (d mod 64) (map N.of_nat (seq 0 64))).
  { apply in_map_iff. exists (N.to_nat (d mod 64)). split; [apply N2Nat.id|].
    apply in_seq. assert (d mod 64 < 64) by (apply N.mod_lt; lia). lia. }
  pose proof level_check_sweep as Hs.
  rewrite forallb_forall in Hs. specialize (Hs _ Hd).
  unfold level_check_all in Hs. rewrite forallb_forall in Hs.
  assert (Hop : In op [Read; Write; Invoke]) by (destruct op; cbn; tauto).
  specialize (Hs _ Hop). rewrite forallb_forall in Hs. specialize (Hs _ Hp).
  unfold level_check in Hs. cbn [fst snd] in Hs. apply Bool.eqb_prop in Hs. exact Hs.
Qed.

(** * One entry *)

Lemma auth_mode_spec (oa : option auth) (m : auth) :
  oauth_is oa m =
  match (match oa with Some x => Some (amode_of x) | None => None end) with
  | Some x => amode_eqb (amode_of m) x
  | None => false
  end.
Proof. destruct oa as [[]|], m; reflexivity. Qed.

Lemma auth_group_spec (m : auth) : auth_eqb m AGroup = amode_eqb (amode_of m) Group.
Proof. destruct m; reflexivity. Qed.

Lemma opt_eqb_same (a b : option N) : opt_eqb a b = opt_same a b.
Proof. destruct a, b; reflexivity. Qed.

Lemma entry_subjects_spec (e : entry) (a : accessor) :
  match e_subj e with
  | None => true
  | Some subjects =>
      list_is_empty subjects || existsb (fun s => subj_matches (a_subj a) s) subjects
  end = subjects_match (sa_identities (abs_accessor a)) (se_subjects (abs_entry e)).
Proof.
  cbn [abs_entry abs_accessor sa_identities se_subjects].
  destruct (e_subj e) as [[|s l]|]; cbn [list_is_empty orb map subjects_match]; try reflexivity.
  change (subject_of_raw s :: map subject_of_raw l) with (map subject_of_raw (s :: l)).
  rewrite existsb_map. apply existsb_ext_in. intros x _. apply subj_matches_spec.
Qed.

Lemma target_matches_spec (t : target) (r : request) :
  target_matches t r = target_covers (abs_target t) (abs_element r).
Proof.
  unfold target_matches, target_covers.
  cbn [abs_target abs_element st_endpoint st_cluster st_devtype el_endpoint el_cluster el_devtypes].
  f_equal; [f_equal|].
  - destruct (t_ep t); cbn [is_none orb]; [apply opt_eqb_same|reflexivity].
  - destruct (t_cl t); cbn [is_none orb]; [apply opt_eqb_same|reflexivity].
  - destruct (t_dt t) as [d|]; [|reflexivity].
    apply existsb_ext_in. intros x _. apply N.eqb_sym.
Qed.

Lemma entry_targets_spec (e : entry) (r : request) (aux : bool) (X : bool) :
  (if aux && auth_eqb (e_auth e) AGroup && opt_eqb (r_ep r) (Some ROOT_ENDPOINT_ID)
      && targets_wild (e_targ e)
   then false
   else if match e_targ e with
           | None => true
           | Some targets => list_is_empty targets || existsb (fun t => target_matches t r) targets
           end
        then X else false)
  = targets_cover (abs_entry e) aux (abs_element r) && X.
Proof.
  unfold targets_cover. cbn [abs_entry se_targets se_mode].
  rewrite auth_group_spec, opt_eqb_same. change ROOT_ENDPOINT_ID with 0.
  cbn [abs_element el_endpoint].
  destruct (e_targ e) as [[|t l]|]; cbn [targets_wild list_is_empty map orb].
  - rewrite andb_true_r.
    destruct (aux && amode_eqb (amode_of (e_auth e)) Group && opt_same (r_ep r) (Some 0)); reflexivity.
  - rewrite andb_false_r.
    change (abs_target t :: map abs_target l) with (map abs_target (t :: l)).
    rewrite existsb_map.
    rewrite (existsb_ext_in (fun t0 => target_matches t0 r)
               (fun x => target_covers (abs_target x) (abs_element r)) (t :: l))
      by (intros x _; apply target_matches_spec).
    destruct (existsb (fun x => target_covers (abs_target x) (abs_element r)) (t :: l)); reflexivity.
  - rewrite andb_true_r.
    destruct (aux && amode_eqb (amode_of (e_auth e)) Group && opt_same (r_ep r) (Some 0)); reflexivity.
Qed.

Lemma perms_spec (r : request) (op : operation) (p : N) (pv : privilege) :
  r_op r = op_bits op -> privilege_of_bits p = Some pv ->
  match r_perms r with
  | Some access => is_ok access (r_op r) p
  | None => false
  end = declaration_allows pv op (abs_element r).
Proof.
  intros Hop Hp. unfold declaration_allows. cbn [abs_element el_declaration].
  destruct (r_perms r) as [d|]; [|reflexivity].
  rewrite Hop. apply is_ok_spec. exact Hp.
Qed.

Lemma entry_allow_spec (e : entry) (a : accessor) (r : request) (op : operation) :
  valid_priv (e_priv e) = true -> r_op r = op_bits op ->
  entry_allow e a r (a_aux a) =
  entry_grants (abs_entry e) (abs_accessor a) op (abs_element r).
Proof.
  intros Hv Hop. unfold valid_priv in Hv.
  destruct (privilege_of_bits (e_priv e)) as [pv|] eqn:Hp; [|discriminate].
  unfold entry_allow, match_accessor, match_access_desc, entry_grants.
  rewrite (perms_spec r op (e_priv e) pv Hop Hp).
  rewrite entry_targets_spec, entry_subjects_spec, auth_mode_spec.
  cbn [abs_accessor sa_mode sa_fabric sa_auxiliary].
  replace (se_privilege (abs_entry e)) with pv by (cbn [abs_entry se_privilege]; rewrite Hp; reflexivity).
  replace (se_mode (abs_entry e)) with (amode_of (e_auth e)) by reflexivity.
  replace (se_fabric (abs_entry e)) with (e_fab e) by reflexivity.
  replace (opt_same (e_fab e) (Some (a_fab a)))
    with (match e_fab e with Some f => f =? a_fab a | None => false end)
    by (destruct (e_fab e); reflexivity).
  destruct (match match a_auth a with Some m => Some (amode_of m) | None => None end with
            | Some x => amode_eqb (amode_of (e_auth e)) x | None => false end);
  destruct (subjects_match (sa_identities (abs_accessor a)) (se_subjects (abs_entry e)));
  destruct (match e_fab e with Some f => f =? a_fab a | None => false end);
  destruct (targets_cover (abs_entry e) (a_aux a) (abs_element r));
  reflexivity.
Qed.

(** an entry of another fabric (or of none) grants nothing *)
Lemma entry_other_fabric (e : entry) (a : accessor) (r : request) (aux : bool) :
  e_fab e <> Some (a_fab a) -> entry_allow e a r aux = false.
Proof.
  intros Hf. unfold entry_allow, match_accessor.
  destruct (negb (oauth_is (a_auth a) (e_auth e))); [reflexivity|].
  destruct (e_fab e) as [f|].
  - destruct (N.eqb_spec f (a_fab a)) as [->|Hne]; [congruence|].
    rewrite andb_false_r. reflexivity.
  - rewrite andb_false_r. reflexivity.
Qed.

(** * Auxiliary (groupcast) entries *)

Lemma aux_entry_grants (idx gid : N) (eps : list N) (a : accessor) (r : request) (op : operation) :
  eps <> [] -> gid < 65536 -> idx = a_fab a ->
  entry_grants (mkSEntry (Priv Operate) Group (Some idx) [Node gid]
                  (map (fun ep => mkSTarget (Some ep) None None) eps))
               (abs_accessor a) op (abs_element r)
  = oauth_is (a_auth a) AGroup
    && (existsb (fun ep => opt_same (Some ep) (r_ep r)) eps && subj_matches (a_subj a) gid)
    && declaration_allows (Priv Operate) op (abs_element r).
Proof.
  intros Hne Hg ->. unfold entry_grants.
  cbn [se_mode se_fabric se_subjects se_privilege abs_accessor sa_mode sa_fabric
       sa_identities sa_auxiliary].
  replace (opt_same (Some (a_fab a)) (Some (a_fab a))) with true
    by (cbn [opt_same]; rewrite N.eqb_refl; reflexivity).
  replace (match match a_auth a with Some m => Some (amode_of m) | None => None end with
           | Some m => amode_eqb Group m | None => false end)
    with (oauth_is (a_auth a) AGroup) by (destruct (a_auth a) as [[]|]; reflexivity).
  replace (targets_cover
             (mkSEntry (Priv Operate) Group (Some (a_fab a)) [Node gid]
                (map (fun ep => mkSTarget (Some ep) None None) eps)) (a_aux a) (abs_element r))
    with (existsb (fun ep => opt_same (Some ep) (r_ep r)) eps).
  2:{ unfold targets_cover. cbn [se_targets].
      destruct eps as [|ep eps]; [congruence|].
      change (map (fun ep0 => mkSTarget (Some ep0) None None) (ep :: eps))
        with (mkSTarget (Some ep) None None :: map (fun ep0 => mkSTarget (Some ep0) None None) eps).
      cbv iota.
      change (mkSTarget (Some ep) None None :: map (fun ep0 => mkSTarget (Some ep0) None None) eps)
        with (map (fun ep0 => mkSTarget (Some ep0) None None) (ep :: eps)).
      rewrite existsb_map. apply existsb_ext_in. intros x _. unfold target_covers.
      cbn [st_endpoint st_cluster st_devtype abs_element el_endpoint].
      rewrite !andb_true_r. reflexivity. }
  replace (subjects_match (map subject_of_raw (filter (fun v => negb (v =? 0)) (a_subj a))) [Node gid])
    with (subj_matches (a_subj a) gid).
  2:{ rewrite subj_matches_spec, (subject_of_raw_small gid) by lia.
      cbn [subjects_match existsb]. rewrite orb_false_r. reflexivity. }
  destruct (oauth_is (a_auth a) AGroup); cbn [andb]; [|reflexivity].
  destruct (subj_matches (a_subj a) gid);
  destruct (existsb (fun ep => opt_same (Some ep) (r_ep r)) eps); reflexivity.
Qed.

Lemma aux_group_spec (f : fabric) (a : accessor) (r : request) (op : operation) (g : group) :
  g_id g < 65536 -> f_idx f = a_fab a ->
  existsb (fun e => entry_grants e (abs_accessor a) op (abs_element r))
    (match sg_members (abs_group g) with
     | [] => []
     | eps =>
         if sg_auxiliary (abs_group g) then
           [mkSEntry (Priv Operate) Group (Some (sf_index (abs_fabric f))) [Node (sg_id (abs_group g))]
                     (map (fun ep => mkSTarget (Some ep) None None) eps)]
         else []
     end)
  = oauth_is (a_auth a) AGroup
    && (group_has_aux g
        && existsb (fun ep => opt_same (Some ep) (r_ep r)) (g_eps g)
        && subj_matches (a_subj a) (g_id g))
    && declaration_allows (Priv Operate) op (abs_element r).
Proof.
  intros Hg Hf.
  cbn [abs_group sg_members sg_auxiliary sg_id abs_fabric sf_index].
  unfold group_has_aux.
  destruct (g_eps g) as [|ep eps] eqn:Heps.
  - cbn [existsb]. destruct (oauth_is (a_auth a) AGroup), (match g_aux g with Some b => b | None => false end); reflexivity.
  - destruct (match g_aux g with Some b => b | None => false end).
    + cbn [existsb]. rewrite orb_false_r.
      rewrite (aux_entry_grants (f_idx f) (g_id g) (ep :: eps) a r op) by (congruence || assumption).
      reflexivity.
    + cbn [existsb andb]. rewrite andb_false_r. reflexivity.
Qed.
