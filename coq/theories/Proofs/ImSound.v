(** Soundness of every single step of the expander, for any cursor and any
    node (hence across arbitrary replacement of the node and of the access
    control lists between steps): an element is handed to the handler only
    if it exists in the node in force, matches the item's path and is
    permitted - or repeats the element served immediately before. *)
From RsM Require Import Lib.MachInt Model.Acl Model.AclSpec Model.Im Model.ImSpec.
From RsM Require Import Proofs.ImLists Proofs.ImFacts Proofs.ImExpand Proofs.ImConcrete Proofs.ImSpecLink.
From Coq Require Import ZifyN ZifyBool.
Open Scope N_scope.

Arguments N.eqb : simpl never.

Section Step.
Variables (env : xenv) (fabs : list fabric) (path : gpath).

Definition accepted (last : option (N * N * N)) (e : endpoint) (c : cluster) (l : leaf) : Prop :=
  opt_matches (p_leaf path) (l_id l) = true
  /\ xe_flt env (ep_id e) (c_id c) (l_id l) = true
  /\ (last_is last (ep_id e) (c_id c) (l_id l) = true \/ leaf_check env fabs e c (l_id l) = None).

Lemma leaves_loop_found (last : option (N * N * N)) (e : endpoint) (c : cluster)
  (rest : list leaf) (li : nat) (id : N) (li' : nat) :
  leaves_loop env fabs path last e c rest li = LFound id li' ->
  exists l, In l rest /\ l_id l = id /\ accepted last e c l.
Proof.
  revert li. induction rest as [|l rest IH]; intros li H; cbn [leaves_loop] in H; [discriminate|].
  assert (Hrec : forall li0, leaves_loop env fabs path last e c rest li0 = LFound id li' ->
                 exists l0, In l0 (l :: rest) /\ l_id l0 = id /\ accepted last e c l0).
  { intros li0 H0. destruct (IH li0 H0) as [l0 [Hin Hl0]]. exists l0. split; [right; exact Hin|exact Hl0]. }
  destruct (opt_matches (p_leaf path) (l_id l)) eqn:Hm; [|exact (Hrec _ H)].
  destruct (xe_flt env (ep_id e) (c_id c) (l_id l)) eqn:Hf.
  2:{ destruct (negb (is_wildcard path)); [discriminate|exact (Hrec _ H)]. }
  destruct (last_is last (ep_id e) (c_id c) (l_id l)) eqn:Hl.
  - injection H as <- _. exists l. split; [left; reflexivity|]. split; [reflexivity|].
    split; [exact Hm|]. split; [exact Hf|]. left. exact Hl.
  - destruct (leaf_check env fabs e c (l_id l)) eqn:Hck.
    + destruct (negb (is_wildcard path)); [discriminate|exact (Hrec _ H)].
    + injection H as <- _. exists l. split; [left; reflexivity|]. split; [reflexivity|].
      split; [exact Hm|]. split; [exact Hf|]. right. exact Hck.
Qed.

Lemma clusters_loop_found (last : option (N * N * N)) (e : endpoint)
  (rest : list cluster) (ci li : nat) (cl id : N) (ci' li' : nat) :
  clusters_loop env fabs path last e rest ci li = CFound cl id ci' li' ->
  exists c l, In c rest /\ In l (leaves (xe_op env) c) /\ c_id c = cl /\ l_id l = id
              /\ cok path c = true /\ accepted last e c l.
Proof.
  revert ci li. induction rest as [|c rest IH]; intros ci li H; cbn [clusters_loop] in H; [discriminate|].
  assert (Hrec : forall ci0 li0, clusters_loop env fabs path last e rest ci0 li0 = CFound cl id ci' li' ->
                 exists c0 l, In c0 (c :: rest) /\ In l (leaves (xe_op env) c0) /\ c_id c0 = cl /\ l_id l = id
                              /\ cok path c0 = true /\ accepted last e c0 l).
  { intros ci0 li0 H0. destruct (IH ci0 li0 H0) as [c0 [l [Hin Hr]]]. exists c0, l. split; [right; exact Hin|exact Hr]. }
  destruct (opt_matches (p_cl path) (c_id c)) eqn:Hm; [|exact (Hrec _ _ H)].
  destruct (leaves_loop env fabs path last e c (skipn li (leaves (xe_op env) c)) li) as [id0 li0|li0|s|li0] eqn:Hl;
    try discriminate.
  - injection H as <- <- _ _. destruct (leaves_loop_found _ _ _ _ _ _ _ Hl) as [l [Hin [Hid Hacc]]].
    exists c, l. split; [left; reflexivity|]. split; [apply (skipn_incl li); exact Hin|].
    split; [reflexivity|]. split; [exact Hid|]. split; [exact Hm|exact Hacc].
  - destruct (negb (is_wildcard path)); [discriminate|exact (Hrec _ _ H)].
Qed.

Lemma endpoints_loop_found (last : option (N * N * N))
  (rest : list endpoint) (ci li : nat) (eid cl id : N) (ci' li' : nat) :
  endpoints_loop env fabs path last rest ci li = EFound eid cl id ci' li' ->
  exists e c l, In e rest /\ In c (ep_clusters e) /\ In l (leaves (xe_op env) c)
                /\ ep_id e = eid /\ c_id c = cl /\ l_id l = id
                /\ eok env fabs path e = true /\ cok path c = true /\ accepted last e c l.
Proof.
  revert ci li. induction rest as [|e rest IH]; intros ci li H; cbn [endpoints_loop] in H; [discriminate|].
  assert (Hrec : forall ci0 li0, endpoints_loop env fabs path last rest ci0 li0 = EFound eid cl id ci' li' ->
                 exists e0 c l, In e0 (e :: rest) /\ In c (ep_clusters e0) /\ In l (leaves (xe_op env) c)
                /\ ep_id e0 = eid /\ c_id c = cl /\ l_id l = id
                /\ eok env fabs path e0 = true /\ cok path c = true /\ accepted last e0 c l).
  { intros ci0 li0 H0. destruct (IH ci0 li0 H0) as [e0 [c [l [Hin Hr]]]]. exists e0, c, l. split; [right; exact Hin|exact Hr]. }
  fold (eok env fabs path e) in H.
  destruct (eok env fabs path e) eqn:Hm; [|exact (Hrec _ _ H)].
  destruct (clusters_loop env fabs path last e (skipn ci (ep_clusters e)) ci li) as [cl0 id0 ci0 li0|ci0 li0|s|li0] eqn:Hc;
    try discriminate.
  - injection H as <- <- <- _ _.
    destruct (clusters_loop_found _ _ _ _ _ _ _ _ _ Hc) as [c [l [Hin [Hl [Hcid [Hlid [Hcok Hacc]]]]]]].
    exists e, c, l. split; [left; reflexivity|]. split; [apply (skipn_incl ci); exact Hin|].
    repeat (split; [assumption || reflexivity|]). exact Hacc.
  - destruct (negb (is_wildcard path)); [discriminate|exact (Hrec _ _ H)].
Qed.

Theorem next_for_path_found (nd : node) (st : xstate) (eid cl id : N) (st' : xstate) :
  next_for_path env nd fabs st path = NFound eid cl id st' ->
  x_last st' = Some (eid, cl, id) /\
  exists e c l, In e nd /\ In c (ep_clusters e) /\ In l (leaves (xe_op env) c)
                /\ ep_id e = eid /\ c_id c = cl /\ l_id l = id
                /\ eok env fabs path e = true /\ cok path c = true /\ accepted (x_last st) e c l.
Proof.
  intros H. split; [exact (next_for_path_found_last env fabs nd st path eid cl id st' H)|].
  unfold next_for_path in H.
  destruct (negb (is_read (xe_op env)) && negb (is_some (p_cl path))); [discriminate|].
  destruct (negb (is_read (xe_op env)) && negb (is_some (p_leaf path))); [discriminate|].
  destruct (resume_clear nd st) as [_ Hl].
  destruct (resume nd st) as [idx st1]. cbn [fst snd] in Hl.
  destruct (endpoints_loop env fabs path (x_last st1) (skipn idx nd) (x_ci st1) (x_li st1))
    as [e0 c0 l0 ci0 li0| | |] eqn:He; try discriminate.
  - injection H as <- <- <- _.
    destruct (endpoints_loop_found _ _ _ _ _ _ _ _ _ He) as [e [c [l [Hin Hr]]]].
    exists e, c, l. split; [apply (skipn_incl idx); exact Hin|]. rewrite <- Hl. exact Hr.
  - destruct (negb (is_wildcard path)); discriminate.
Qed.

End Step.

(** * The whole responder loop, with the node and the access control lists
      replaced between steps *)

Section RunSound.
Variables (who : accessor) (op : operation) (timed : bool) (flt : N -> N -> N -> bool) (ff : bool).
Let env := mkEnv op who timed flt.

Definition cfg_wf (cf : config) : bool := wf_node (cf_node cf) && wf_fabrics (cf_fabs cf).

(** what the expander accepted is permitted in the configuration in force *)
Lemma accepted_permitted (cf : config) (path : gpath) (last : option (N * N * N))
  (e : endpoint) (c : cluster) (l : leaf) :
  cfg_wf cf = true ->
  In e (cf_node cf) -> In c (ep_clusters e) -> In l (leaves op c) ->
  eok env (cf_fabs cf) path e = true ->
  accepted env (cf_fabs cf) path last e c l ->
  last_is last (ep_id e) (c_id c) (l_id l) || permitted_ids cf who op timed (ep_id e) (c_id c) (l_id l) = true.
Proof.
  intros Hwf He Hc Hl Heok [_ [_ Hacc]]. apply orb_true_iff.
  destruct Hacc as [Hlast|Hck]; [left; exact Hlast|right].
  unfold cfg_wf in Hwf. apply andb_true_iff in Hwf. destruct Hwf as [Hn Hf].
  destruct (wf_node_parts _ Hn) as [_ Hparts]. destruct (Hparts e He) as [_ Hcl].
  unfold eok in Heok. apply andb_true_iff in Heok. destruct Heok as [_ Hreach]. cbn [xe_acc env] in Hreach.
  unfold env in Hck.
  rewrite (leaf_check_decision (cf_fabs cf) who op timed flt e c l Hf Hreach
             (wf_cluster_declared op c (Hcl c Hc)) (leaves_declared op c l Hl)) in Hck.
  pose proof (decision_none_iff_permitted (cf_fabs cf) who op timed (e, c, l)) as Hp.
  rewrite Hck in Hp.
  unfold permitted_ids. apply existsb_exists. exists (e, c, l). split.
  - unfold permitted. apply filter_In. split.
    + unfold all_leaves. apply in_flat_map. exists e. split; [exact He|].
      apply in_flat_map. exists c. split; [exact Hc|]. apply in_map. rewrite elements_leaves. exact Hl.
    + rewrite <- Hp. unfold matches. cbn [p_ep p_cl p_leaf wild_or]. rewrite !N.eqb_refl. reflexivity.
  - cbn [cand_ids]. rewrite !N.eqb_refl. reflexivity.
Qed.

Lemma next_items_sound (nd : node) (fabs : list fabric) (last : option (N * N * N)) (items : list item) :
  match next_items env nd fabs last items with
  | (Some (YData eid cl id it), ps') =>
      x_last (ps_x ps') = Some (eid, cl, id) /\
      exists e c l, In e nd /\ In c (ep_clusters e) /\ In l (leaves op c)
                    /\ ep_id e = eid /\ c_id c = cl /\ l_id l = id
                    /\ eok env fabs (it_path it) e = true
                    /\ accepted env fabs (it_path it) last e c l
  | (Some (YStatus _ _), ps') => x_last (ps_x ps') = last
  | (None, _) => True
  end.
Proof.
  induction items as [|it rest IH]; cbn [next_items]; [exact I|].
  destruct (next_for_path env nd fabs (fresh last) (it_path it)) as [eid cl id st'| |s] eqn:Hn.
  - destruct (next_for_path_found env fabs (it_path it) nd (fresh last) eid cl id st' Hn) as [Hl [e [c [l Hr]]]].
    cbn [ps_x]. split; [exact Hl|]. exists e, c, l.
    destruct Hr as (He & Hc & Hlf & H1 & H2 & H3 & H4 & _ & H6). cbn [fresh x_last xe_op env] in *.
    repeat (split; [assumption|]). exact H6.
  - exact IH.
  - reflexivity.
Qed.

Lemma next_sound (nd : node) (fabs : list fabric) (ps : pstate) :
  match next env nd fabs ps with
  | (Some (YData eid cl id it), ps') =>
      x_last (ps_x ps') = Some (eid, cl, id) /\
      exists e c l, In e nd /\ In c (ep_clusters e) /\ In l (leaves op c)
                    /\ ep_id e = eid /\ c_id c = cl /\ l_id l = id
                    /\ eok env fabs (it_path it) e = true
                    /\ accepted env fabs (it_path it) (x_last (ps_x ps)) e c l
  | (Some (YStatus _ _), ps') => x_last (ps_x ps') = x_last (ps_x ps)
  | (None, _) => True
  end.
Proof.
  unfold next. destruct (ps_cur ps) as [it|]; [|apply next_items_sound].
  destruct (next_for_path env nd fabs (ps_x ps) (it_path it)) as [eid cl id st'| |s] eqn:Hn.
  - destruct (next_for_path_found env fabs (it_path it) nd (ps_x ps) eid cl id st' Hn) as [Hl [e [c [l Hr]]]].
    cbn [ps_x]. split; [exact Hl|]. exists e, c, l.
    destruct Hr as (He & Hc & Hlf & H1 & H2 & H3 & H4 & _ & H6). cbn [xe_op env] in *.
    repeat (split; [assumption|]). exact H6.
  - apply next_items_sound.
  - reflexivity.
Qed.

Lemma config_at_in (c0 : config) (sw : list (nat * config)) (n : nat) :
  In (config_at c0 sw n) (c0 :: map snd sw).
Proof.
  revert c0. induction sw as [|[k c] sw IH]; intros c0; cbn [config_at map snd]; [left; reflexivity|].
  destruct (Nat.leb k n); [right; apply IH|left; reflexivity].
Qed.

Theorem run_sound (c0 : config) (sw : list (nat * config)) :
  forallb cfg_wf (c0 :: map snd sw) = true ->
  forall fuel n ps outs log O L,
  run fuel env ff c0 sw n ps outs log = RunDone O L ->
  exists more, O = rev outs ++ more
               /\ L = rev log ++ calls_of who op ff more
               /\ served_sound c0 sw who op timed n (x_last (ps_x ps)) more = true.
Proof.
  intros Hwf. rewrite forallb_forall in Hwf.
  induction fuel as [|fuel IH]; intros n ps outs log O L H; cbn [run] in H; [discriminate|].
  pose proof (next_sound (cf_node (config_at c0 sw n)) (cf_fabs (config_at c0 sw n)) ps) as Hs.
  destruct (next env (cf_node (config_at c0 sw n)) (cf_fabs (config_at c0 sw n)) ps) as [[y|] ps'].
  - destruct y as [eid cl id it|it s].
    + destruct Hs as [Hlast [e [c [l (He & Hc & Hl & <- & <- & <- & Heok & Hacc)]]]].
      destruct (IH _ _ _ _ _ _ H) as [more [HO [HL Hss]]].
      exists (OData (ep_id e) (c_id c) (l_id l) (it_tag it) :: more).
      split; [rewrite HO; cbn [rev]; rewrite <- app_assoc; reflexivity|]. split.
      { rewrite HL. cbn [rev]. rewrite <- app_assoc. cbn [app calls_of flat_map].
        unfold call_of. cbn [xe_op xe_acc env]. destruct op; reflexivity. }
      cbn [served_sound]. rewrite Hlast in Hss. rewrite Hss, andb_true_r.
      apply (accepted_permitted (config_at c0 sw n) (it_path it) (x_last (ps_x ps)) e c l);
        [apply Hwf; apply config_at_in|assumption..].
    + destruct (IH _ _ _ _ _ _ H) as [more [HO [HL Hss]]].
      exists (OStatus (it_path it) (it_tag it) s :: more).
      split; [rewrite HO; cbn [rev]; rewrite <- app_assoc; reflexivity|]. split; [exact HL|].
      cbn [served_sound]. rewrite <- Hs. exact Hss.
  - injection H as <- <-. exists []. rewrite !app_nil_r. repeat split; reflexivity.
Qed.

End RunSound.
