(** The derived encoders on a [WriteBuf] agree with the unbounded encoder:
    the outcome is Ok exactly when the encoding fits (NoSpace otherwise),
    and when it fits the buffer receives exactly the bytes of [denc]. *)
From Coq Require Import NArith ZArith List Bool Lia ZifyN ZifyBool.
From RsM Require Import Model.Tlv Model.TlvDerive Model.TlvBuf Proofs.TlvFacts Proofs.TlvDeriveFacts
  Proofs.TlvBufFacts.
Import ListNotations.
Open Scope N_scope.

(** [f] behaves like writing the bytes [bs] one by one, except for what it
    leaves behind when it fails *)
Definition sim (f : step) (bs : bytes) : Prop :=
  forall w, wb_ok w ->
    fst (f w) = fst (wb_write_all w bs) /\
    (fst (wb_write_all w bs) = ROk tt -> f w = wb_write_all w bs).

Lemma wb_write_all_app a b w :
  wb_write_all w (a ++ b) =
  match wb_write_all w a with
  | (ROk _, w') => wb_write_all w' b
  | (e, w') => (e, w')
  end.
Proof.
  revert w. induction a as [|x a IH]; intros w; [reflexivity|].
  cbn [app wb_write_all]. destruct (wb_write w x) as [[[]| | |] w1]; auto.
Qed.

Lemma wb_write_all_ok_state bs w : wb_ok w -> wb_ok (snd (wb_write_all w bs)).
Proof.
  intros Hok. destruct (wb_write_all_spec bs w Hok) as (w' & E & P & _). rewrite E. apply P.
Qed.

Lemma sim_ext f g bs : (forall w, f w = g w) -> sim g bs -> sim f bs.
Proof. intros E H w Hok. rewrite E. apply H, Hok. Qed.

Lemma sim_write_all bs : sim (fun w => wb_write_all w bs) bs.
Proof. intros w _. split; auto. Qed.

Lemma sim_nil : sim (fun w => (ROk tt, w)) [].
Proof. intros w _. split; reflexivity. Qed.

Lemma sim_seqw A B a b : sim A a -> sim B b -> sim (seqw A B) (a ++ b).
Proof.
  intros HA HB w Hok. unfold seqw. rewrite wb_write_all_app.
  destruct (HA w Hok) as [Hc Hs].
  destruct (wb_write_all w a) as [ra wa] eqn:Ea. cbn [fst] in *.
  destruct ra as [[]| | |].
  - rewrite (Hs eq_refl). apply HB.
    pose proof (wb_write_all_ok_state a w Hok) as H. rewrite Ea in H. exact H.
  - destruct (A w) as [r w1]. cbn [fst] in Hc. subst r. split; [reflexivity|discriminate].
  - destruct (A w) as [r w1]. cbn [fst] in Hc. subst r. split; [reflexivity|discriminate].
  - destruct (A w) as [r w1]. cbn [fst] in Hc. subst r. split; [reflexivity|discriminate].
Qed.

Lemma sim_with_anchor body bs : sim body bs -> sim (fun w => with_anchor w body) bs.
Proof.
  intros Hb w Hok. unfold with_anchor. destruct (Hb w Hok) as [Hc Hs].
  destruct (body w) as [r w1] eqn:Eb. cbn [fst] in Hc.
  destruct r as [[]| | |]; cbn [fst].
  - split; [exact Hc|]. intros H. rewrite <- (Hs H). reflexivity.
  - split; [exact Hc|]. intros H. rewrite <- Hc in H. discriminate.
  - split; [exact Hc|]. intros H. rewrite <- Hc in H. discriminate.
  - split; [exact Hc|]. intros H. rewrite <- Hc in H. discriminate.
Qed.

Theorem denc_wb_sim d : forall t v bs, denc d t v = ROk bs -> sim (denc_wb d t v) bs.
Proof.
  induction d as [sg wd| | | | | |d IH|d IH|cap d IH|n d IH|k o fs IH|nk vs IH|w16 vals] using dty_ind2;
    intros t v bs Henc; destruct v; cbn [denc] in Henc; try discriminate; cbn [denc_wb];
    try (injection Henc as <-; apply sim_write_all).
  - injection Henc as <-. apply sim_nil.
  - apply IH, Henc.
  - (* DNullable XNN *)
    destruct d; try (apply IH, Henc); destruct v; try (apply IH, Henc).
    + destruct (_ =? _)%Z; [discriminate|apply IH, Henc].
    + destruct (nth_error vals i); [|discriminate]. destruct (_ =? _); [discriminate|apply IH, Henc].
  - (* DVec *)
    apply bind_ok in Henc as (body & Hbody & Henc).
    assert (Ebs : bs = w_start t KArray ++ body ++ w_end) by congruence. subst bs. clear Henc.
    eapply sim_ext; [intros ?; reflexivity|].
    apply sim_seqw; [apply sim_write_all|]. apply sim_seqw; [|apply sim_write_all].
    revert body Hbody. induction l as [|x r IHr]; intros body Hbody.
    + injection Hbody as <-. apply sim_nil.
    + apply bind_ok in Hbody as (a & Ha & Hbody). apply bind_ok in Hbody as (b & Hb & Hbody).
      assert (Eb : body = a ++ b) by congruence. subst body. eapply sim_ext; [intros ?; reflexivity|].
      apply sim_seqw; [apply IH, Ha|apply IHr, Hb].
  - (* DFixed *)
    apply bind_ok in Henc as (body & Hbody & Henc).
    assert (Ebs : bs = w_start t KArray ++ body ++ w_end) by congruence. subst bs. clear Henc.
    eapply sim_ext; [intros ?; reflexivity|].
    apply sim_seqw; [apply sim_write_all|]. apply sim_seqw; [|apply sim_write_all].
    revert body Hbody. induction l as [|x r IHr]; intros body Hbody.
    + injection Hbody as <-. apply sim_nil.
    + apply bind_ok in Hbody as (a & Ha & Hbody). apply bind_ok in Hbody as (b & Hb & Hbody).
      assert (Eb : body = a ++ b) by congruence. subst body. eapply sim_ext; [intros ?; reflexivity|].
      apply sim_seqw; [apply IH, Ha|apply IHr, Hb].
  - (* DStruct *)
    apply bind_ok in Henc as (body & Hbody & Henc).
    assert (Ebs : bs = w_start t k ++ body ++ w_end) by congruence. subst bs. clear Henc.
    eapply sim_ext; [intros ?; reflexivity|].
    apply sim_with_anchor. apply sim_seqw; [apply sim_write_all|].
    apply sim_seqw; [|apply sim_write_all].
    revert l body Hbody. induction IH as [|[ft fd] fr Hfd Hfr IHfr]; intros l body Hbody.
    + destruct l; [|discriminate]. injection Hbody as <-. apply sim_nil.
    + destruct l as [|fv vr]; [discriminate|].
      apply bind_ok in Hbody as (a & Ha & Hbody). apply bind_ok in Hbody as (b & Hb & Hbody).
      assert (Eb : body = a ++ b) by congruence. subst body. eapply sim_ext; [intros ?; reflexivity|].
      apply sim_seqw; [apply Hfd, Ha|apply IHfr, Hb].
  - (* DEnum *)
    apply bind_ok in Henc as (body & Hbody & Henc).
    assert (Hpick : sim
      ((fix pick (vs : list (N * dty)) (i : nat) (w : wbuf) : rres unit * wbuf :=
          match vs, i with
          | (vt, vd) :: _, O => denc_wb vd (TgCtx vt) v w
          | _ :: r, S j => pick r j w
          | [], _ => (RErr E_ILL, w)
          end) vs i) body).
    { revert i Hbody. induction IH as [|[a ad] r Had Hr IHr]; intros i Hbody.
      - destruct i; discriminate.
      - destruct i as [|i]; [apply Had, Hbody|apply IHr, Hbody]. }
    eapply sim_ext; [intros ?; reflexivity|].
    apply sim_with_anchor. destruct nk.
    { assert (Ebs : bs = body) by congruence. subst bs. exact Hpick. }
    assert (Ebs : bs = w_start t KStruct ++ body ++ w_end) by congruence. subst bs.
    apply sim_seqw; [apply sim_write_all|]. apply sim_seqw; [exact Hpick|apply sim_write_all].
  - (* DUnit *)
    destruct (nth_error vals i); [|discriminate]. injection Henc as <-.
    apply (sim_with_anchor (fun w => wb_write_all w (if w16 then w_u16 t n else w_u8 t n))).
    apply sim_write_all.
Qed.

(** the capacity version of the derived encoder, in terms of the unbounded one *)
Theorem denc_wb_spec d t v bs w :
  denc d t v = ROk bs -> wb_ok w ->
  (blen bs <= wb_size w - wb_end w ->
     denc_wb d t v w = wb_write_all w bs /\ fst (denc_wb d t v w) = ROk tt) /\
  (wb_size w - wb_end w < blen bs -> fst (denc_wb d t v w) = RErr E_NOSPACE).
Proof.
  intros Henc Hok. destruct (denc_wb_sim d t v bs Henc w Hok) as [Hc Hs].
  rewrite (wb_write_all_code bs w Hok) in *. split; intros H.
  - destruct (N.leb_spec (blen bs) (wb_size w - wb_end w)); [|lia]. split; [apply Hs; reflexivity|exact Hc].
  - destruct (N.leb_spec (blen bs) (wb_size w - wb_end w)); [lia|exact Hc].
Qed.
