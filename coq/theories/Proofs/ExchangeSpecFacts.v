(** The executable clauses of Model/ExchangeSpec.v against the model:
    the model's Session::post_recv satisfies [post_recv_ok]; [lifecycle_b]
    decides [lifecycle]. *)
From RsM Require Import Lib.MachInt Model.Dedup Model.Mrp Model.Exchange Model.ExchangeSpec
  Proofs.ExchangeFacts Proofs.ExchangeSys Proofs.ExchangeTheorems Proofs.ExchangeLifecycle.
From Coq Require Import ZifyN ZifyBool Lia Bool PeanoNat.
Open Scope N_scope.

Arguments N.ltb : simpl never.
Arguments N.leb : simpl never.
Arguments N.eqb : simpl never.
Arguments N.add : simpl never.

Lemma role_eqb_eq a b : role_eqb a b = true <-> a = b.
Proof. destruct a, b; cbn; split; congruence. Qed.

Lemma view_eqb_eq a b : view_eqb a b = true <-> a = b.
Proof.
  destruct a as [[i r]|], b as [[j q]|]; cbn; try (split; congruence).
  rewrite andb_true_iff, N.eqb_eq, role_eqb_eq. split; [intros [-> ->]; reflexivity|intros H; inversion H; tauto].
Qed.

Lemma view_eqb_refl a : view_eqb a a = true.
Proof. apply view_eqb_eq. reflexivity. Qed.

Lemma nth_view_spec l k : nth_view l k = match nth_error l k with Some o => o | None => None end.
Proof. revert k. induction l as [|a t IH]; intros [|k]; cbn; try reflexivity. apply IH. Qed.

Lemma nth_view_table s k : nth_view (table s) k = oview (nth_error (s_exchs s) k).
Proof.
  rewrite nth_view_spec, nth_error_table. destruct (nth_error (s_exchs s) k) as [[e|]|]; reflexivity.
Qed.

Lemma views_eq_refl a : views_eq a a = true.
Proof. unfold views_eq. apply forallb_forall. intros k _. apply view_eqb_refl. Qed.

(** ** [lifecycle_b] decides the life-cycle relation *)

Lemma oview_b_eq o : oview_b o = oview o.
Proof. reflexivity. Qed.

Ltac crush_b :=
  repeat match goal with
  | H : _ && _ = true |- _ => apply andb_true_iff in H; destruct H
  | H : (_ =? _) = true |- _ => apply N.eqb_eq in H
  | H : role_eqb _ _ = true |- _ => apply role_eqb_eq in H
  | H : negb _ = true |- _ => apply negb_true_iff in H
  end; subst.

Lemma lifecycle_b_sound l key expired o o' :
  lifecycle_b l key expired o o' = true -> lifecycle l key expired o o'.
Proof.
  unfold lifecycle_b. destruct (view_eqb o o') eqn:E.
  - apply view_eqb_eq in E. subst. intros _. constructor.
  - cbn [orb]. destruct l; destruct o as [[i r]|]; destruct o' as [[j q]|]; try discriminate;
      try (destruct r; try discriminate); try (destruct q; try discriminate);
      intros H; crush_b; try (cbn in *; congruence);
      first [ eapply LcOpen; solve [eauto] | eapply LcInitiate; solve [eauto] | eapply LcAccept; solve [eauto]
            | eapply LcTimeout; solve [eauto] | eapply LcDrop; solve [eauto] | eapply LcDropFree; solve [eauto]
            | eapply LcClose; solve [eauto] ].
Qed.

Lemma lifecycle_b_complete l key expired o o' :
  lifecycle l key expired o o' -> lifecycle_b l key expired o o' = true.
Proof.
  intros H. unfold lifecycle_b. inversion H; subst.
  - rewrite view_eqb_refl. reflexivity.
  - cbn. rewrite !N.eqb_refl. rewrite H2, H3. reflexivity.
  - cbn. rewrite N.eqb_refl. reflexivity.
  - cbn. rewrite N.eqb_refl. destruct (id =? id) eqn:E; reflexivity.
  - cbn. rewrite N.eqb_refl. destruct (id =? id) eqn:E; reflexivity.
  - apply orb_true_iff. right. rewrite N.eqb_refl, H1. cbn. apply role_eqb_eq. reflexivity.
  - apply orb_true_iff. right. exact H1.
  - apply orb_true_iff. right. exact H1.
Qed.

(** ** the model's post_recv satisfies the executable gate *)

Definition res_class (r : res bool) : N :=
  match r with
  | Ok false => RES_ROUTED
  | Ok true => RES_NEW
  | Err c => c
  | Panic _ => 99
  end.

Lemma rm_post_recv_err s ctr ack rel s' c :
  rm_post_recv s ctr ack rel = (s', Err c) -> c = ERR_DUPLICATE.
Proof.
  unfold rm_post_recv. destruct ack as [k|], (rm_retr s) as [rt|]; cbn;
    try (destruct (r_ctr rt =? k)); cbn; intros H; inversion H; reflexivity.
Qed.

Lemma rm_post_recv_no_panic s ctr ack rel s' p :
  rm_post_recv s ctr ack rel = (s', Panic p) -> False.
Proof.
  unfold rm_post_recv. destruct ack as [k|], (rm_retr s) as [rt|]; cbn;
    try (destruct (r_ctr rt =? k)); cbn; intros H; inversion H.
Qed.

Lemma exch_post_recv_res e m t e' r :
  exch_post_recv e m t = (e', r) -> r = Ok tt \/ r = Err ERR_DUPLICATE.
Proof.
  unfold exch_post_recv.
  destruct (rm_post_recv (e_mrp e) (m_ctr m) (m_ack m) (m_rel m)) as [r' [u|c|p]] eqn:E; intros H; inversion H; subst.
  - left. destruct u. reflexivity.
  - right. rewrite (rm_post_recv_err _ _ _ _ _ _ E). reflexivity.
  - exfalso. eapply rm_post_recv_no_panic. exact E.
Qed.

Lemma existsb_matches_iff s m :
  existsb (view_matches (m_exid m) (m_init m)) (table s) = true <->
  exists i e, nth_error (s_exchs s) i = Some (Some e) /\ exch_is_for_rx e m = true.
Proof.
  unfold table. rewrite existsb_exists. split.
  - intros [o [Hin Hm]]. apply in_map_iff in Hin. destruct Hin as [x [Ex Hx]]. subst o.
    destruct x as [e|]; [|discriminate]. apply In_nth_error in Hx. destruct Hx as [i Hi].
    exists i, e. split; [exact Hi|exact Hm].
  - intros [i [e [Hn Hm]]]. exists (slot_view (Some e)). split; [|exact Hm].
    apply in_map. eapply nth_error_In. exact Hn.
Qed.

Lemma add_exch_free l e :
  add_exch l e <> None <-> free_slot MAX_EXCHANGES (map slot_view l) = true.
Proof.
  unfold add_exch, free_slot. rewrite map_length.
  destruct (length l <? MAX_EXCHANGES)%nat; cbn [orb]; [split; [reflexivity|discriminate]|].
  destruct (find_index is_none l) as [k|] eqn:Hf.
  - split; [intros _|discriminate]. destruct (find_index_some _ _ _ Hf) as [x [Hx Hp]].
    apply existsb_exists. exists (slot_view x). split; [apply in_map; eapply nth_error_In; exact Hx|].
    destruct x; [discriminate|reflexivity].
  - split; [congruence|]. intros H. exfalso. apply existsb_exists in H. destruct H as [o [Hin Ho]].
    apply in_map_iff in Hin. destruct Hin as [x [Ex Hx]]. subst o.
    pose proof (find_index_none _ _ Hf x Hx) as Hc. destruct x; cbn in *; discriminate.
Qed.

Theorem post_recv_meets_spec s m t s' r :
  session_post_recv s m t = (s', r) ->
  post_recv_ok MAX_EXCHANGES (table s) (s_expired s)
    (snd (post_recv (s_win s) (m_ctr m) (s_enc s) false))
    (m_exid m) (m_init m) (m_op m) (res_class r) (table s') = true.
Proof.
  intros H. unfold post_recv_ok.
  destruct (session_post_recv_cases _ _ _ _ _ H) as [[Hf [Er Ee]]|[Hf [C|C]]]; rewrite Hf; cbn [negb].
  - subst r. cbn. unfold table. rewrite Ee. apply views_eq_refl.
  - destruct C as [i [e [Hfe C]]]. destruct (find_exch_some _ _ _ _ Hfe) as [Hn Hm].
    assert (Hmt : existsb (view_matches (m_exid m) (m_init m)) (table s) = true).
    { apply existsb_matches_iff. exists i, e. tauto. }
    rewrite Hmt.
    assert (Htab : table s' = table s).
    { destruct C as [[e' [He [Er Ee]]]|[Hr1 [Hr2 Ee]]].
      - subst r. eapply table_unchanged_unless_new; [exact H|discriminate].
      - eapply table_unchanged_unless_new; [exact H|exact Hr2]. }
    rewrite Htab, views_eq_refl.
    destruct C as [[e' [He [Er Ee]]]|[Hr1 [Hr2 Ee]]]; [subst r; reflexivity|].
    (* refused by the reliability layer: only Duplicate *)
    assert (Hres : r = Err ERR_DUPLICATE).
    { revert H. unfold session_post_recv, session_post_recv_raw.
      destruct (effective_fields s m) as [_ [_ [_ [Ec _]]]]. rewrite Ec.
      destruct (post_recv (s_win s) (m_ctr m) (s_enc s) false) as [w' fr]. cbn [snd] in Hf. subst fr. cbn [negb].
      rewrite find_exch_effective, Hfe. destruct (exch_post_recv e (effective s m) t) as [e2 r2] eqn:He2.
      destruct (exch_post_recv_res _ _ _ _ _ He2) as [-> | ->]; intros H; inversion H; subst; [congruence|reflexivity]. }
    subst r. reflexivity.
  - destruct C as [Hnone C].
    assert (Hmt : existsb (view_matches (m_exid m) (m_init m)) (table s) = false).
    { destruct (existsb (view_matches (m_exid m) (m_init m)) (table s)) eqn:E; [|reflexivity].
      apply existsb_matches_iff in E. destruct E as [i [e [Hn Hm]]].
      rewrite (find_exch_none _ _ Hnone i e Hn) in Hm. discriminate. }
    rewrite Hmt.
    destruct C as [[Hg [Er Ee]]|[[Hi [Hn [Hex [Er Ee]]]]|[[Hi [Hn [Hex [Ha [Er Ee]]]]]|C]]].
    + assert (Hmo : m_init m && is_new_exchange (m_op m) = false) by (destruct Hg as [-> | ->]; [reflexivity|apply andb_false_r]).
      rewrite Hmo. cbn [negb]. subst r. cbn. unfold table. rewrite Ee. apply views_eq_refl.
    + rewrite Hi, Hn, Hex. cbn [andb negb]. subst r. cbn. unfold table. rewrite Ee. apply views_eq_refl.
    + rewrite Hi, Hn, Hex. cbn [andb negb].
      assert (Hfr : free_slot MAX_EXCHANGES (table s) = false).
      { destruct (free_slot MAX_EXCHANGES (table s)) eqn:E; [|reflexivity].
        unfold table in E. apply (proj2 (add_exch_free _ (mkExch (m_exid m) RespPending rm_new 0))) in E. congruence. }
      rewrite Hfr. cbn [negb]. subst r. cbn. unfold table. rewrite Ee. apply views_eq_refl.
    + destruct C as [Hi [Hn [Hex [l' [i [e' [Ha [He [Er Ee]]]]]]]]].
      rewrite Hi, Hn, Hex. cbn [andb negb].
      assert (Hfr : free_slot MAX_EXCHANGES (table s) = true).
      { unfold table. apply (proj1 (add_exch_free _ (mkExch (m_exid m) RespPending rm_new 0))). congruence. }
      rewrite Hfr. cbn [negb]. subst r. cbn [res_class]. rewrite N.eqb_refl. cbn [andb].
      destruct (new_exchange_gate _ _ _ _ H) as [_ [_ [_ [_ [_ [k [Hfree [Hk Hoth]]]]]]]].
      unfold opened_one. apply existsb_exists. exists k. split.
      * apply in_seq. split; [lia|]. cbn.
        assert ((k < length (table s'))%nat) by (apply nth_error_Some; congruence). lia.
      * rewrite !andb_true_iff. repeat split.
        -- rewrite nth_view_table. destruct Hfree as [-> | ->]; reflexivity.
        -- rewrite nth_view_spec, Hk. apply view_eqb_refl.
        -- apply forallb_forall. intros j _. destruct (Nat.eqb_spec j k) as [->|Hj]; [reflexivity|].
           cbn [orb]. rewrite !nth_view_spec, (Hoth j Hj). apply view_eqb_refl.
Qed.
