(** List / fabric-table / session-table facts used by the C07 proofs. *)
From Coq Require Import NArith List Bool Lia ZifyN ZifyBool.
From RsM Require Import Model.Lifecycle Model.LifecycleSpec.
(* -- *)
Import ListNotations.
Open Scope N_scope.

(** ** Generic lists *)
Section Lists.
Context {A : Type}.

Lemma filter_idem : forall (p : A -> bool) l, filter p (filter p l) = filter p l.
Proof.
  intros p l. induction l as [|a l IH]; [reflexivity|]. cbn [filter].
  destruct (p a) eqn:E; [cbn [filter]; rewrite E, IH; reflexivity|exact IH].
Qed.

Lemma filter_map_filter : forall (p q : A -> bool) (g : A -> A) l,
  (forall x, In x l -> p (g x) = p x) ->
  (forall x, In x l -> p x = true -> g x = x /\ q x = true) ->
  filter p (map g (filter q l)) = filter p l.
Proof.
  intros p q g l. induction l as [|a l IH]; intros Hpg Hp; [reflexivity|].
  assert (IH' : filter p (map g (filter q l)) = filter p l).
  { apply IH; intros x Hx; [apply Hpg|apply Hp]; right; exact Hx. }
  cbn [filter]. destruct (p a) eqn:Ea.
  - destruct (Hp a (or_introl eq_refl) Ea) as [Hg Hq]. rewrite Hq. cbn [map filter].
    rewrite Hg, Ea, IH'. reflexivity.
  - destruct (q a) eqn:Eq; [|exact IH']. cbn [map filter].
    rewrite (Hpg a (or_introl eq_refl)), Ea. exact IH'.
Qed.

Lemma In_tl : forall (x : A) l, In x (tl l) -> In x l.
Proof. intros x l H. destruct l as [|a l]; [exact H|right; exact H]. Qed.

Lemma NoDup_map_filter : forall {B} (f : A -> B) p l,
  NoDup (map f l) -> NoDup (map f (filter p l)).
Proof.
  intros B f p l. induction l as [|a l IH]; intro H; [constructor|].
  cbn [map] in H. apply NoDup_cons_iff in H. destruct H as [Hn Hd]. cbn [filter].
  destruct (p a); [|auto]. cbn [map]. constructor; [|auto].
  intro Hin. apply Hn. apply in_map_iff in Hin. destruct Hin as (x & Hx & Hi).
  apply filter_In in Hi. apply in_map_iff. exists x. tauto.
Qed.

Lemma NoDup_map_In_inj : forall {B} (f : A -> B) l x y,
  NoDup (map f l) -> In x l -> In y l -> f x = f y -> x = y.
Proof.
  intros B f l x y. induction l as [|a l IH]; intros Hd Hx Hy E; [contradiction|].
  cbn [map] in Hd. apply NoDup_cons_iff in Hd. destruct Hd as [Hn Hd].
  destruct Hx as [Hx|Hx], Hy as [Hy|Hy].
  - congruence.
  - exfalso. apply Hn. subst a. rewrite E. apply in_map. exact Hy.
  - exfalso. apply Hn. subst a. rewrite <- E. apply in_map. exact Hx.
  - auto.
Qed.

Lemma NoDup_app_one : forall (l : list A) a, NoDup l -> ~ In a l -> NoDup (l ++ [a]).
Proof.
  intros l a. induction l as [|b l IH]; intros Hd Hn; [constructor; [intros []|constructor]|].
  apply NoDup_cons_iff in Hd. destruct Hd as [Hb Hd]. cbn [app]. constructor.
  - intro Hin. apply in_app_iff in Hin. destruct Hin as [Hin|[<-|[]]]; [auto|]. apply Hn. left. reflexivity.
  - apply IH; [exact Hd|]. intro Hin. apply Hn. right. exact Hin.
Qed.

Lemma map_map_same : forall {B} (f : A -> B) (g : A -> A) l,
  (forall x, f (g x) = f x) -> map f (map g l) = map f l.
Proof. intros B f g l H. rewrite map_map. apply map_ext. exact H. Qed.

Lemma list_eqb_refl : forall (eq : A -> A -> bool) l,
  (forall x, eq x x = true) -> list_eqb eq l l = true.
Proof.
  intros eq l H. induction l as [|a l IH]; [reflexivity|]. cbn [list_eqb]. rewrite H, IH. reflexivity.
Qed.
End Lists.

Lemma sess_eqb_refl : forall s, sess_eqb s s = true.
Proof.
  intro s. unfold sess_eqb. rewrite !N.eqb_refl, !Bool.eqb_reflx. destruct (s_mode s); reflexivity.
Qed.
Lemma rec_eqb_refl : forall r, rec_eqb r r = true.
Proof. intro r. unfold rec_eqb. rewrite !N.eqb_refl. reflexivity. Qed.
Lemma sub_eqb_refl : forall u, sub_eqb u u = true.
Proof. intro u. unfold sub_eqb. rewrite !N.eqb_refl. reflexivity. Qed.
Lemma fab_eqb_refl : forall f, fab_eqb f f = true.
Proof. intro f. unfold fab_eqb. rewrite !N.eqb_refl. reflexivity. Qed.

(** ** The fabric table *)
Lemma fget_In : forall i l f, fget i l = Some f -> In f l /\ f_idx f = i.
Proof.
  unfold fget. intros i l f H. apply find_some in H. destruct H as [H1 H2].
  apply N.eqb_eq in H2. auto.
Qed.

Lemma fget_none : forall i l, fget i l = None -> forall f, In f l -> f_idx f <> i.
Proof.
  unfold fget. intros i l H f Hf E. pose proof (find_none _ _ H f Hf) as H1. cbn beta in H1.
  apply N.eqb_neq in H1. contradiction.
Qed.

Lemma fget_fdel : forall i j l, fget i (fdel j l) = if i =? j then None else fget i l.
Proof.
  unfold fget, fdel. intros i j l. induction l as [|a l IH]; [destruct (i =? j); reflexivity|].
  cbn [filter find]. destruct (f_idx a =? j) eqn:Ej; cbn [negb].
  - rewrite IH. destruct (i =? j) eqn:Eij; [reflexivity|].
    destruct (f_idx a =? i) eqn:Ei; [exfalso; lia|reflexivity].
  - cbn [find]. destruct (f_idx a =? i) eqn:Ei.
    + destruct (i =? j) eqn:Eij; [exfalso; lia|reflexivity].
    + exact IH.
Qed.

Lemma fget_fdel_ne : forall i j l, i <> j -> fget i (fdel j l) = fget i l.
Proof. intros i j l H. rewrite fget_fdel. apply N.eqb_neq in H. rewrite H. reflexivity. Qed.

Lemma fget_fdel_eq : forall i l, fget i (fdel i l) = None.
Proof. intros i l. rewrite fget_fdel, N.eqb_refl. reflexivity. Qed.

Lemma fget_app1 : forall i l f,
  fget i (l ++ [f]) =
  match fget i l with Some x => Some x | None => if f_idx f =? i then Some f else None end.
Proof.
  unfold fget. intros i l f. induction l as [|a l IH]; [reflexivity|].
  cbn [app find]. destruct (f_idx a =? i); [reflexivity|exact IH].
Qed.

Lemma fget_fset_ne : forall i nf l, i <> f_idx nf -> fget i (fset nf l) = fget i l.
Proof.
  intros i nf l H. unfold fset. rewrite fget_app1, fget_fdel_ne by exact H.
  destruct (fget i l); [reflexivity|]. destruct (f_idx nf =? i) eqn:E; [exfalso; lia|reflexivity].
Qed.

Lemma fget_fset_eq : forall nf l, fget (f_idx nf) (fset nf l) = Some nf.
Proof. intros nf l. unfold fset. rewrite fget_app1, fget_fdel_eq, N.eqb_refl. reflexivity. Qed.

Lemma In_fdel : forall f j l, In f (fdel j l) <-> In f l /\ f_idx f <> j.
Proof.
  intros f j l. unfold fdel. rewrite filter_In. rewrite negb_true_iff, N.eqb_neq. tauto.
Qed.

Lemma fdel_fdel : forall i l, fdel i (fdel i l) = fdel i l.
Proof. intros. apply filter_idem. Qed.

Lemma fdel_app_same : forall i l f, f_idx f = i -> fdel i (l ++ [f]) = fdel i l.
Proof.
  intros i l f H. unfold fdel. rewrite filter_app. cbn [filter]. rewrite H, N.eqb_refl. cbn [negb].
  apply app_nil_r.
Qed.

Lemma fdel_fset : forall nf l, fdel (f_idx nf) (fset nf l) = fdel (f_idx nf) l.
Proof. intros nf l. unfold fset. rewrite fdel_app_same by reflexivity. apply fdel_fdel. Qed.

Lemma fmax_ge : forall l f, In f l -> f_idx f <= fmax l.
Proof.
  intros l f. induction l as [|a l IH]; intro H; [contradiction|]. cbn [fmax fold_right].
  fold (fmax l). destruct H as [->|H]; [lia|]. specialize (IH H). lia.
Qed.

Lemma next_idx_free : forall l idx, next_idx l = Some idx -> fget idx l = None.
Proof.
  intros l idx H. unfold next_idx in H. destruct (fmax l <? 254) eqn:E.
  - inversion H; subst idx. destruct (fget (fmax l + 1) l) as [f|] eqn:G; [|reflexivity].
    apply fget_In in G. destruct G as [G1 G2]. apply fmax_ge in G1. exfalso; lia.
  - unfold first_free in H. apply find_some in H. destruct H as [_ H].
    destruct (fget idx l); [discriminate|reflexivity].
Qed.

Lemma next_idx_nonzero : forall l idx, next_idx l = Some idx -> idx <> 0.
Proof.
  intros l idx H. unfold next_idx in H. destruct (fmax l <? 254).
  - inversion H. lia.
  - unfold first_free in H. apply find_some in H. destruct H as [H _].
    apply in_map_iff in H. destruct H as (n & <- & Hn). apply in_seq in Hn. lia.
Qed.

Lemma has_fab_true : forall l i, has_fab l i = true -> exists f, fget i l = Some f.
Proof. unfold has_fab. intros l i H. destruct (fget i l) as [f|]; [eauto|discriminate]. Qed.

(** ** Sessions *)
Lemma sget_In : forall k l s, sget k l = Some s -> In s l /\ s_id s = k.
Proof.
  unfold sget. intros k l s H. apply find_some in H. destruct H as [H1 H2].
  apply N.eqb_eq in H2. auto.
Qed.

Lemma sget_unique : forall l s, NoDup (map s_id l) -> In s l -> sget (s_id s) l = Some s.
Proof.
  intros l s Hd Hs. destruct (sget (s_id s) l) as [s0|] eqn:E.
  - apply sget_In in E. destruct E as [E1 E2]. f_equal.
    apply (NoDup_map_In_inj s_id l); assumption.
  - unfold sget in E. pose proof (find_none _ _ E s Hs) as H. cbn beta in H.
    rewrite N.eqb_refl in H. discriminate.
Qed.

Lemma set_exp_id : forall s, s_id (set_exp s) = s_id s. Proof. reflexivity. Qed.

Lemma In_remove_for_fabric : forall x i keep l,
  In x (remove_for_fabric i keep l) ->
  exists y, In y l /\ ((x = y /\ s_fab y <> i) \/ x = set_exp y).
Proof.
  unfold remove_for_fabric. intros x i keep l H. apply in_map_iff in H.
  destruct H as (y & Hx & Hy). apply filter_In in Hy. destruct Hy as [Hy Hc]. exists y. split; [exact Hy|].
  destruct (opt_is keep (s_id y)); [right; auto|]. left. split; [auto|].
  rewrite orb_false_r in Hc. apply negb_true_iff, N.eqb_neq in Hc. exact Hc.
Qed.

Lemma In_remove_for_fabric_keep : forall x i keep l,
  In x (remove_for_fabric i keep l) ->
  exists y, In y l /\
    ((x = y /\ s_fab y <> i) \/ (x = set_exp y /\ opt_is keep (s_id y) = true)).
Proof.
  unfold remove_for_fabric. intros x i keep l H. apply in_map_iff in H.
  destruct H as (y & Hx & Hy). apply filter_In in Hy. destruct Hy as [Hy Hc]. exists y. split; [exact Hy|].
  destruct (opt_is keep (s_id y)); [right; auto|]. left. split; [auto|].
  rewrite orb_false_r in Hc. apply negb_true_iff, N.eqb_neq in Hc. exact Hc.
Qed.

Lemma In_remove_pase : forall x keep l,
  In x (remove_pase keep l) -> exists y, In y l /\ (x = y \/ x = set_exp y).
Proof.
  unfold remove_pase. intros x keep l H. apply in_map_iff in H.
  destruct H as (y & Hx & Hy). apply filter_In in Hy. destruct Hy as [Hy _]. exists y. split; [exact Hy|].
  destruct (is_pase y && opt_is keep (s_id y)); auto.
Qed.

Lemma In_remove_pase_pase : forall x keep l,
  In x (remove_pase keep l) ->
  exists y, In y l /\ (x = y \/ (x = set_exp y /\ is_pase y = true)).
Proof.
  unfold remove_pase. intros x keep l H. apply in_map_iff in H.
  destruct H as (y & Hx & Hy). apply filter_In in Hy. destruct Hy as [Hy _]. exists y. split; [exact Hy|].
  destruct (is_pase y); cbn [andb] in Hx; [|auto]. destruct (opt_is keep (s_id y)); auto.
Qed.

Lemma keep_if_on_some : forall f keep l k,
  keep_if_on f keep l = Some k -> exists s', In s' l /\ s_id s' = k /\ s_fab s' = f.
Proof.
  unfold keep_if_on. intros f keep l k H. destruct keep as [k0|]; [|discriminate].
  destruct (sget k0 l) as [s'|] eqn:G; [|discriminate].
  destruct (s_fab s' =? f) eqn:E; [|discriminate]. inversion H; subst k0.
  apply N.eqb_eq in E. destruct (sget_In _ _ _ G) as [G1 G2]. eauto.
Qed.

Lemma usable_flags : forall s, usable s = true -> s_exp s = false /\ s_res s = false.
Proof.
  intros s U. unfold usable in U. apply andb_true_iff in U. destruct U as [U1 U2].
  apply negb_true_iff in U1, U2. auto.
Qed.

Lemma ids_remove_for_fabric : forall i keep l,
  NoDup (map s_id l) -> NoDup (map s_id (remove_for_fabric i keep l)).
Proof.
  intros i keep l H. unfold remove_for_fabric. rewrite map_map_same.
  - apply NoDup_map_filter. exact H.
  - intro x. destruct (opt_is keep (s_id x)); reflexivity.
Qed.

Lemma ids_remove_pase : forall keep l,
  NoDup (map s_id l) -> NoDup (map s_id (remove_pase keep l)).
Proof.
  intros keep l H. unfold remove_pase. rewrite map_map_same.
  - apply NoDup_map_filter. exact H.
  - intro x. destruct (is_pase x && opt_is keep (s_id x)); reflexivity.
Qed.

Lemma ids_upgrade : forall sid idx inc l, map s_id (upgrade sid idx inc l) = map s_id l.
Proof.
  intros. unfold upgrade. apply map_map_same. intro x. destruct (s_id x =? sid); reflexivity.
Qed.

Lemma In_upgrade : forall x sid idx inc l,
  In x (upgrade sid idx inc l) ->
  exists y, In y l /\
    (x = y \/ x = mkSess (s_id y) (s_mode y) idx (s_node y) (s_exp y) (s_res y) inc).
Proof.
  unfold upgrade. intros x sid idx inc l H. apply in_map_iff in H. destruct H as (y & Hx & Hy).
  exists y. split; [exact Hy|]. destruct (s_id y =? sid); auto.
Qed.

Lemma ids_release : forall sid l, map s_id (release sid l) = map s_id l.
Proof.
  intros. unfold release. apply map_map_same. intro x. destruct (s_id x =? sid); reflexivity.
Qed.

Lemma In_release : forall x sid l,
  In x (release sid l) ->
  exists y, In y l /\
    (x = y \/ x = mkSess (s_id y) (s_mode y) (s_fab y) (s_node y) (s_exp y) false (s_inc y)).
Proof.
  unfold release. intros x sid l H. apply in_map_iff in H. destruct H as (y & Hx & Hy).
  exists y. split; [exact Hy|]. destruct (s_id y =? sid); auto.
Qed.

Lemma opt_is_keep_if_on : forall f keep l k,
  opt_is (keep_if_on f keep l) k = true -> opt_is keep k = true.
Proof.
  unfold keep_if_on. intros f keep l k H. destruct keep as [k0|]; [|discriminate H].
  destruct (sget k0 l) as [s|]; [|discriminate H]. destruct (s_fab s =? f); [exact H|discriminate H].
Qed.

Lemma lt_set_exp : forall s, s_id (set_exp s) = s_id s. Proof. reflexivity. Qed.

(** ** Records *)
Lemma In_rec_insert : forall x r l, In x (rec_insert r l) -> x = r \/ In x l.
Proof.
  unfold rec_insert. intros x r l H. apply in_app_iff in H. destruct H as [H|H].
  - right. destruct (Nat.leb MAX_RECORDS _) in H; [apply In_tl in H|];
      apply filter_In in H; tauto.
  - left. destruct H as [H|[]]. auto.
Qed.

Lemma rget_In : forall k l r, rget k l = Some r -> In r l /\ r_id r = k.
Proof.
  unfold rget. intros k l r H. apply find_some in H. destruct H as [H1 H2].
  apply N.eqb_eq in H2. auto.
Qed.

Lemma In_recs_drop : forall r i l, In r (recs_drop i l) <-> In r l /\ r_fab r <> i.
Proof. intros r i l. unfold recs_drop. rewrite filter_In, negb_true_iff, N.eqb_neq. tauto. Qed.

Lemma In_subs_drop : forall u i l, In u (subs_drop i l) <-> In u l /\ u_fab u <> i.
Proof. intros u i l. unfold subs_drop. rewrite filter_In, negb_true_iff, N.eqb_neq. tauto. Qed.

Lemma sess_ctx_some : forall st sid s,
  sess_ctx st sid = Some s ->
  sget sid (st_sess st) = Some s /\ usable s = true /\ In s (st_sess st) /\ s_id s = sid /\
  s_exp s = false.
Proof.
  unfold sess_ctx. intros st sid s H. destruct (sget sid (st_sess st)) as [s0|] eqn:G; [|discriminate].
  destruct (usable s0) eqn:U; [|discriminate].
  assert (s0 = s) as -> by (destruct (s_mode s0); congruence).
  destruct (sget_In _ _ _ G) as [G1 G2]. repeat split; auto.
  unfold usable in U. apply andb_true_iff in U. destruct U as [U _]. apply negb_true_iff in U. exact U.
Qed.
