(** C12 proofs, event numbers. *)
From RsM Require Import Lib.MachInt Model.Counters Model.CountersSpec Proofs.CountersGeneric.
From Coq Require Import ZifyN ZifyBool.
Open Scope N_scope.
Ltac Zify.zify_post_hook ::= Z.div_mod_to_equations.

Arguments N.add : simpl never.
Arguments N.sub : simpl never.
Arguments N.mul : simpl never.
Arguments N.modulo : simpl never.
Arguments N.max : simpl never.
Arguments N.leb : simpl never.
Arguments N.ltb : simpl never.
Arguments N.eqb : simpl never.

(** ghost position -> event number: the ring [1 .. 2^64 - 1] *)
Definition ering (p : N) : N := p mod E_SIZE + 1.

Lemma ering_range p : 1 <= ering p <= 18446744073709551615.
Proof. unfold ering, E_SIZE, two64. lia. Qed.

Lemma ering_of_value v : 1 <= v < two64 -> v = ering (v - 1).
Proof. unfold ering, E_SIZE, two64. lia. Qed.

Lemma ering_inj o a b :
  o <= a < o + E_SIZE -> o <= b < o + E_SIZE -> ering a = ering b -> a = b.
Proof. unfold ering, E_SIZE, two64. lia. Qed.

Lemma ering_add c k : ering c + k <= 18446744073709551615 -> ering (c + k) = ering c + k.
Proof. unfold ering, E_SIZE, two64. lia. Qed.

Lemma ering_wrap c k : ering c + k = 18446744073709551616 -> ering (c + k) = 1.
Proof. unfold ering, E_SIZE, two64. lia. Qed.

Lemma e_succ_ring p : e_succ (ering p) = ering (p + 1).
Proof. unfold e_succ, wrap64, ering, E_SIZE, two64. lia. Qed.

Lemma e_trigger_true n : e_trigger n = true <-> n = 1 \/ n mod 10000 = 0.
Proof. unfold e_trigger, E_EPOCH. lia. Qed.

Lemma e_trigger_false n : e_trigger n = false <-> n <> 1 /\ n mod 10000 <> 0.
Proof. unfold e_trigger, E_EPOCH. lia. Qed.

Lemma e_covers_ring c d : c < d <= c + 10000 -> e_covers (Some (ering d)) (ering c) = true.
Proof.
  intros H. unfold e_covers, in_ring, walk_dist.
  pose proof (ering_range c). pose proof (ering_range d).
  assert (Hd : (ering d + E_SIZE - ering c) mod E_SIZE = d - c).
  { revert H. unfold ering, E_SIZE, two64. lia. }
  rewrite Hd. unfold E_EPOCH, E_SIZE, two64. lia.
Qed.

Lemma e_covers_ahead kv v : e_covers kv v = true -> e_ahead kv v = true.
Proof.
  unfold e_covers, e_ahead, in_ring, walk_dist. destruct kv as [b|]; [|discriminate].
  unfold E_SIZE, E_EPOCH, two64. lia.
Qed.

(** The epoch opened at a trigger: its stored end is the next trigger
    and lies at most one epoch ahead. *)
Lemma e_epoch_shape c :
  e_trigger (ering c) = true ->
  exists len, 1 <= len <= 10000 /\
    e_boundary true (ering c) = ering (c + len) /\
    e_trigger (ering (c + len)) = true /\
    forall k, 0 < k < len -> e_trigger (ering (c + k)) = false.
Proof.
  intros Ht. apply e_trigger_true in Ht. pose proof (ering_range c) as Hr.
  unfold e_boundary, E_EPOCH.
  destruct (N.eqb_spec (ering c) 1) as [H1|Hn1].
  - exists 9999. split; [lia|].
    assert (Hk : forall k, k <= 9999 -> ering (c + k) = 1 + k).
    { intros k Hk. rewrite ering_add by lia. lia. }
    split; [rewrite Hk by lia; reflexivity|]. split.
    + rewrite Hk by lia. reflexivity.
    + intros k Hk'. rewrite Hk by lia. apply e_trigger_false. lia.
  - destruct Ht as [Ht|Ht]; [contradiction|].
    destruct (N.ltb_spec (ering c + 10000) two64) as [Hlt|Hge].
    + exists 10000. split; [lia|].
      assert (Hk : forall k, k <= 10000 -> ering (c + k) = ering c + k).
      { intros k Hk. apply ering_add. revert Hlt. unfold two64. lia. }
      split; [rewrite Hk by lia; reflexivity|]. split.
      * rewrite Hk by lia. apply e_trigger_true. right. revert Ht. lia.
      * intros k Hk'. rewrite Hk by lia. apply e_trigger_false. revert Ht. lia.
    + exists (two64 - ering c). unfold two64 in *. split; [lia|].
      split; [symmetry; apply ering_wrap; lia|]. split.
      * rewrite ering_wrap by lia. reflexivity.
      * intros k Hk'. rewrite ering_add by lia. apply e_trigger_false. revert Ht. lia.
Qed.

Definition ELive (s : estate) (o M T : N) : Prop :=
  exists c d, e_kv s = Some (ering d) /\ e_next s = ering c /\
    o <= M /\ M <= c /\ c <= d <= c + 10000 /\ c <= o + T /\
    e_trigger (ering d) = true /\
    (forall q, c <= q < d -> e_trigger (ering q) = false).

Definition EFresh (s : estate) (cr : N) : Prop := e_kv s = None /\ e_next s = 1.

Lemma e_live_step : forall s op o M T s' e,
  ELive s o M T -> true = true -> e_step true s op = (s', e) ->
  exists M' T', ELive s' o M' T' /\ M <= M' /\ T' <= T + e_cost op /\
                ev_ok ering e_covers e o M M' T'.
Proof.
  intros s op o M T s' e [c [d [Hkv [Hnx [HoM [HMc [Hcd [HcT [Htd Hq]]]]]]]]] _ Hst.
  destruct s as [nx kv]. cbn [e_kv e_next] in *. subst kv nx.
  destruct op as [ok|]; cbn [e_step e_next e_kv] in Hst; cbn [e_cost].
  - destruct (N.eq_dec c d) as [->|Hne].
    + rewrite Htd in Hst. destruct ok; inversion Hst; subst s' e; clear Hst.
      * destruct (e_epoch_shape d Htd) as [len [Hlen [Hb [Htl Hkl]]]].
        exists (d + 1), (T + 1). split; [|split; [lia|split; [lia|]]].
        -- exists (d + 1), (d + len). cbn [e_kv e_next].
           rewrite Hb, e_succ_ring. repeat split; try lia; try assumption.
           intros q Hq'. replace q with (d + (q - d)) by lia. apply Hkl. lia.
        -- cbn [ev_ok]. exists d. rewrite Hb. repeat split; try lia. apply e_covers_ring. lia.
      * exists M, T. split; [|split; [lia|split; [lia|exact I]]].
        exists d, d. cbn [e_kv e_next]. repeat split; try lia; assumption.
    + assert (Hf : e_trigger (ering c) = false) by (apply Hq; lia).
      rewrite Hf in Hst. inversion Hst; subst s' e; clear Hst.
      exists (c + 1), (T + 1). split; [|split; [lia|split; [lia|]]].
      * exists (c + 1), d. cbn [e_kv e_next]. rewrite e_succ_ring.
        repeat split; try lia; try assumption. intros q Hq'. apply Hq. lia.
      * cbn [ev_ok]. exists c. repeat split; try lia. apply e_covers_ring. lia.
  - inversion Hst; subst s' e; clear Hst.
    exists M, (T + 10000). split; [|split; [lia|split; [unfold E_EPOCH; lia|exact I]]].
    exists d, d. unfold e_init. cbn [e_kv e_next]. repeat split; try lia; try assumption.
Qed.

Lemma e_fresh_step : forall s op cr s' e,
  EFresh s cr -> true = true -> e_step true s op = (s', e) ->
  (exists cr', EFresh s' cr' /\ cr' <= cr + e_cost op /\ forall v kv, e <> EvYield v kv) \/
  (exists o M' T', ELive s' o M' T' /\ o <= M' /\ T' <= cr + e_cost op /\
                   ev_ok ering e_covers e o o M' T').
Proof.
  intros s op cr s' e [Hkv Hnx] _ Hst.
  destruct s as [nx kv]. cbn [e_kv e_next] in *. subst kv nx.
  destruct op as [ok|]; cbn [e_step e_next e_kv] in Hst; cbn [e_cost].
  - change (e_trigger 1) with true in Hst. destruct ok; inversion Hst; subst s' e; clear Hst.
    + right. assert (Ht0 : e_trigger (ering 0) = true) by reflexivity.
      destruct (e_epoch_shape 0 Ht0) as [len [Hlen [Hb [Htl Hkl]]]].
      change (ering 0) with 1 in Hb.
      exists 0, 1, 1. split; [|split; [lia|split; [lia|]]].
      * exists 1, (0 + len). cbn [e_kv e_next]. rewrite Hb.
        change (e_succ 1) with (ering 1).
        repeat split; try lia; try assumption.
        intros q Hq'. replace q with (0 + q) by lia. apply Hkl. lia.
      * cbn [ev_ok]. exists 0. rewrite Hb. change (ering 0) with 1.
        repeat split; try lia. change 1 with (ering 0) at 1. apply e_covers_ring. lia.
    + left. exists cr. split; [split; reflexivity|split; [lia|discriminate]].
  - left. inversion Hst; subst s' e; clear Hst.
    exists cr. split; [split; reflexivity|split; [lia|discriminate]].
Qed.

Lemma e_init_live x : 1 <= x < two64 -> e_trigger x = true ->
  ELive (e_init (Some x)) (x - 1) (x - 1) 0.
Proof.
  intros Hx Ht. exists (x - 1), (x - 1). rewrite <- ering_of_value by exact Hx.
  unfold e_init. cbn [e_kv e_next]. repeat split; try lia; try assumption.
Qed.

Lemma e_init_fresh : EFresh (e_init None) 0.
Proof. split; reflexivity. Qed.

Theorem event_unique_on_wire : forall (kv0 : option N) (sched : list eop),
  e_kv_ok kv0 -> e_travel sched <= E_SIZE ->
  NoDup (yields (fst (e_run true (e_init kv0) sched))).
Proof.
  intros kv0 sched Hkv Hb. unfold e_run, e_travel in *. destruct kv0 as [x|]; cbn [e_kv_ok] in Hkv.
  - eapply (gen_unique_live (e_step true) (fun _ _ => true) e_cost ering e_covers ELive EFresh
              e_live_step e_fresh_step E_SIZE ering_inj);
      [apply e_init_live; tauto|apply sched_ok_always|exact Hb].
  - eapply (gen_unique_fresh (e_step true) (fun _ _ => true) e_cost ering e_covers ELive EFresh
              e_live_step e_fresh_step E_SIZE ering_inj);
      [apply e_init_fresh|apply sched_ok_always|exact Hb].
Qed.

Theorem event_covered_before_use : forall (kv0 : option N) (sched : list eop) (v : N) (kv : option N),
  e_kv_ok kv0 ->
  In (EvYield v kv) (fst (e_run true (e_init kv0) sched)) -> e_covers kv v = true.
Proof.
  intros kv0 sched v kv Hkv Hin. apply (forall_cov_in e_covers _ v kv) in Hin; [exact Hin|].
  unfold e_run. destruct kv0 as [x|]; cbn [e_kv_ok] in Hkv.
  - eapply (gen_covered_live (e_step true) (fun _ _ => true) e_cost ering e_covers ELive EFresh
              e_live_step e_fresh_step);
      [apply e_init_live; tauto|apply sched_ok_always].
  - eapply (gen_covered_fresh (e_step true) (fun _ _ => true) e_cost ering e_covers ELive EFresh
              e_live_step e_fresh_step);
      [apply e_init_fresh|apply sched_ok_always].
Qed.

(** The code before the repair: at the last multiple of the epoch below
    2^64 the stored epoch is the wrapped sum 8384, which is no trigger. *)
Definition e_last_epoch : N := 18446744073709550000.
Definition e_witness_unfixed : list eop := [EPush true; ECrash; EPush true; ECrash; EPush true].

Lemma event_unfixed_refuted :
  e_kv_ok (Some e_last_epoch) /\ e_travel e_witness_unfixed <= E_SIZE /\
  yields (fst (e_run false (e_init (Some e_last_epoch)) e_witness_unfixed)) =
    [e_last_epoch; 8384; 8384] /\
  In (EvYield 8384 (Some 8384)) (fst (e_run false (e_init (Some e_last_epoch)) e_witness_unfixed)) /\
  e_covers (Some 8384) 8384 = false.
Proof.
  vm_compute. repeat split; try discriminate. do 2 right. left. reflexivity.
Qed.
