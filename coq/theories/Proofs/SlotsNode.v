(** Layer 2 of Model/Slots.v (a node answering handshakes): every node step is
    a short sequence of layer-1 operations, so the accounting invariant carries
    over; every live [ReservedSession] handle belongs to a live handshake
    attempt. *)
From RsM Require Import Lib.MachInt Model.Slots Proofs.SlotsFacts Proofs.SlotsInv Proofs.SlotsStep.
From Coq Require Import Permutation ZifyN ZifyBool Arith.
Open Scope N_scope.

Arguments N.add : simpl never.
Arguments N.ltb : simpl never.
Arguments N.eqb : simpl never.
Arguments N.mul : simpl never.

Section Node.
Variables cap mx : nat.

(** [c'] is reached from [c] by [k] layer-1 operations *)
Inductive reachk : nat -> st -> st -> Prop :=
| r0 : forall c, reachk O c c
| rS : forall k c c' o, reachk k c c' -> reachk (S k) c (fst (step cap mx c' o)).

Lemma reachk_inv1 : forall k c c',
  reachk k c c' -> inv1 cap c -> next_of c + 2 * N.of_nat k <= UID_MAX ->
  inv1 cap c' /\ next_of c <= next_of c' /\ next_of c' <= next_of c + 2 * N.of_nat k.
Proof.
  induction 1 as [c|k c c' o Hr IH]; intros Hi Hb.
  - split; auto. lia.
  - destruct (IH Hi ltac:(lia)) as [H1 [H2 H3]].
    destruct (step_inv1 cap mx c' o H1 ltac:(lia)) as [H4 [H5 H6]]. split; auto. lia.
Qed.

Lemma core_finish : forall n x retr ack now,
  core (finish cap mx n x retr ack now) =
  do1 cap mx (match a_h x with Some h => do1 cap mx (core n) (ODropH h now) | None => core n end)
      (OExDrop (a_sess x) (a_xi x) retr ack now).
Proof. reflexivity. Qed.

Lemma core_stage_set : forall a stg h clr n, core (stage_set a stg h clr n) = core n.
Proof. reflexivity. Qed.
Lemma core_set_marker : forall m n, core (set_marker m n) = core n.
Proof. reflexivity. Qed.
Lemma core_clear : forall k n, core (clear_if_pase k n) = core n.
Proof. intros [] n; reflexivity. Qed.

Ltac rch := unfold do1; repeat first [ apply r0 | eapply rS ].
Ltac csimp := rewrite ?core_clear; cbn [fst core stage_set set_marker set_core set_atts].

Lemma reach_finish : forall n x retr ack now k c,
  reachk k c (core n) -> exists k', (k' <= k + 2)%nat /\ reachk k' c (core (finish cap mx n x retr ack now)).
Proof.
  intros n x retr ack now k c Hr. rewrite core_finish. destruct (a_h x) as [h|].
  - exists (S (S k)). split; [lia|]. unfold do1. apply rS. apply rS. auto.
  - exists (S k). split; [lia|]. unfold do1. apply rS. auto.
Qed.

Ltac fin_tac :=
  match goal with
  | |- exists k, (k <= _)%nat /\ reachk k ?c (core (finish _ _ ?n ?x ?re ?ac ?nw)) =>
      let H := fresh in
      let k0 := fresh in
      eassert (H : reachk _ c (core n)) by (csimp; rch);
      destruct (reach_finish n x re ac nw _ _ H) as [k0 [? ?]]; exists k0; split; [lia|assumption]
  end.

Theorem nstep_reach : forall n o,
  exists k, (k <= 4)%nat /\ reachk k (core n) (core (fst (nstep cap mx n o))).
Proof.
  intros n o. destruct o; cbn [nstep].
  - (* NRx *)
    destruct (step cap mx (core n) (OAdd now)) as [c1 r] eqn:E.
    assert (c1 = fst (step cap mx (core n) (OAdd now))) by (rewrite E; reflexivity). subst c1.
    destruct r; cbn [fst core set_core]; eexists; (split; [|rch]); lia.
  - (* NAccept *)
    destruct (find (att_has a) (atts n)) as [x|]; [|exists O; split; [lia|apply r0]].
    destruct (negb (a_stage x =? 0)); [exists O; split; [lia|apply r0]|].
    destruct (step cap mx (do1 cap mx (core n) (OExAccept (a_sess x) (a_xi x) now)) (OReserve now)) as [c2 r] eqn:E.
    match type of E with step _ _ ?c ?o = _ => assert (c2 = fst (step cap mx c o)) by (rewrite E; reflexivity) end.
    subst c2. clear E.
    destruct r; try (cbn [fst]; fin_tac).
    destruct (a_kind x).
    + destruct (marker_check a true now (marker n)) as [m1 [c|]].
      * csimp.
        eexists; (split; [|rch]); lia.
      * destruct v; cbn [fst]; try fin_tac.
        csimp. eexists; (split; [|rch]); lia.
    + destruct v; cbn [fst]; try fin_tac.
      * csimp. eexists; (split; [|rch]); lia.
      * csimp. eexists; (split; [|rch]); lia.
  - (* NMsg *)
    destruct (find (att_has a) (atts n)) as [x|]; [|exists O; split; [lia|apply r0]].
    destruct (negb _); [exists O; split; [lia|apply r0]|].
    destruct (a_kind x).
    + destruct (marker_check a false now (marker n)) as [m1 [c|]].
      * csimp. exists O; split; [lia|apply r0].
      * destruct v.
        -- destruct (a_stage x =? 1).
           ++ csimp. exists O; split; [lia|apply r0].
           ++ destruct (a_h x) as [h|]; cbn [fst].
              ** csimp.
                 eexists; (split; [|rch]); lia.
              ** csimp. exists O; split; [lia|apply r0].
        -- destruct (a_stage x =? 1); cbn [fst]; try fin_tac.
           csimp. exists O; split; [lia|apply r0].
        -- cbn [fst]. fin_tac.
    + destruct v; cbn [fst]; try fin_tac.
      * destruct (a_h x) as [h|]; cbn [fst].
        -- csimp. eexists; (split; [|rch]); lia.
        -- exists O; split; [lia|apply r0].
      * csimp. exists O; split; [lia|apply r0].
  - (* NAck *)
    destruct (find (att_has a) (atts n)) as [x|]; [|exists O; split; [lia|apply r0]].
    destruct (a_stage x =? 3); [cbn [fst]; fin_tac|].
    destruct (a_stage x =? 4); [|exists O; split; [lia|apply r0]].
    destruct (a_clr x); cbn [fst]; fin_tac.
  - (* NFail *)
    destruct (find (att_has a) (atts n)) as [x|]; [|exists O; split; [lia|apply r0]].
    destruct (a_stage x =? 0); [exists O; split; [lia|apply r0]|]. cbn [fst]. fin_tac.
  - (* NCancel *)
    destruct (find (att_has a) (atts n)) as [x|]; [|exists O; split; [lia|apply r0]].
    destruct (a_stage x =? 0); [exists O; split; [lia|apply r0]|]. cbn [fst]. fin_tac.
  - (* NAcceptTimeout *)
    destruct (find (att_has a) (atts n)) as [x|]; [|exists O; split; [lia|apply r0]].
    destruct (a_stage x =? 0); [|exists O; split; [lia|apply r0]].
    cbn [fst core]. eexists; (split; [|rch]); lia.
  - cbn [fst core set_core]. eexists; (split; [|rch]); lia.
  - cbn [fst core set_core]. eexists; (split; [|rch]); lia.
  - cbn [fst core set_core]. eexists; (split; [|rch]); lia.
  - cbn [fst core set_core]. eexists; (split; [|rch]); lia.
  - cbn [fst core set_core]. eexists; (split; [|rch]); lia.
  - destruct (t_lookup id (tb (core n))) as [s|]; [|exists O; split; [lia|apply r0]].
    destruct (mode_eqb (s_mode s) MPlain); [exists O; split; [lia|apply r0]|].
    cbn [fst core set_core]. eexists; (split; [|rch]); lia.
  - destruct (t_lookup id (tb (core n))) as [s|]; [|exists O; split; [lia|apply r0]].
    destruct (mode_eqb (s_mode s) MPlain); [exists O; split; [lia|apply r0]|].
    cbn [fst core set_core]. eexists; (split; [|rch]); lia.
Qed.

Theorem nstep_inv1 : forall n o,
  inv1 cap (core n) -> next_of (core n) + 8 <= UID_MAX ->
  inv1 cap (core (fst (nstep cap mx n o))) /\
  next_of (core n) <= next_of (core (fst (nstep cap mx n o))) /\
  next_of (core (fst (nstep cap mx n o))) <= next_of (core n) + 8.
Proof.
  intros n o Hi Hb. destruct (nstep_reach n o) as [k [Hk Hr]].
  destruct (reachk_inv1 _ _ _ Hr Hi ltac:(lia)) as [H1 [H2 H3]]. split; auto. lia.
Qed.

Theorem nrun_inv1 : forall ops n,
  inv1 cap (core n) -> next_of (core n) + 8 * N.of_nat (length ops) <= UID_MAX ->
  inv1 cap (core (nrun cap mx n ops)) /\
  next_of (core (nrun cap mx n ops)) <= next_of (core n) + 8 * N.of_nat (length ops).
Proof.
  induction ops as [|o r IH]; intros n Hi Hb; cbn [nrun].
  - split; auto. cbn. lia.
  - cbn [length] in Hb. destruct (nstep_inv1 n o Hi ltac:(lia)) as [H1 [H2 H3]].
    destruct (IH _ H1 ltac:(lia)) as [H4 H5]. split; auto. cbn [length]. lia.
Qed.

End Node.
