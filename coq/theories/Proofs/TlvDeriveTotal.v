(** The derived decoders never panic and never run out of fuel: for every
    type description and every byte string, [ddec] returns a value or an
    error. *)
From Coq Require Import NArith ZArith List Bool Lia ZifyN ZifyBool.
From RsM Require Import Model.Tlv Model.TlvDerive Proofs.TlvFacts Proofs.TlvTotal
  Proofs.TlvDeriveFacts.
Import ListNotations.
Open Scope N_scope.

Ltac nlia := unfold blen, two63, two64 in *; cbn [length] in *; lia.

Lemma find_ctx_loop_le fuel : forall s k e,
  find_ctx_loop fuel s k = ROk e -> (length e <= length s)%nat.
Proof.
  induction fuel as [|fuel IH]; intros s k e H; [discriminate|].
  rewrite find_ctx_loop_S in H. destruct (seq_iter_next s) as [r s'] eqn:E.
  destruct r as [[x|]| | |]; try discriminate.
  - apply seq_iter_next_some in E as (-> & Hlt).
    apply bind_ok in H as (oc & _ & H).
    destruct oc as [c|].
    + destruct (c =? k).
      * injection H as <-. lia.
      * apply IH in H. lia.
    + apply IH in H. lia.
  - injection H as <-. cbn. lia.
Qed.

Lemma scan_ctx_loop_elem_le fuel : forall s k e s',
  scan_ctx_loop fuel s k = ROk (e, s') -> (length e <= length s)%nat.
Proof.
  induction fuel as [|fuel IH]; intros s k e s' H; [discriminate|].
  cbn [scan_ctx_loop] in H. apply bind_ok in H as (cur & Hcur & H).
  apply bind_ok in H as (r & Hr & H). destruct r as [x|].
  - injection H as <- <-.
    destruct (is_nil cur) eqn:En.
    + injection Hr as <-. destruct (current_cases _ _ Hcur) as [->| ->]; cbn; lia.
    + apply bind_ok in Hr as (oc & _ & Hr). destruct oc as [c|]; [|discriminate].
      destruct (c =? k).
      * injection Hr as <-. destruct (current_cases _ _ Hcur) as [->| ->]; cbn; lia.
      * destruct (k <? c); [|discriminate]. injection Hr as <-. cbn. lia.
  - apply bind_ok in H as (nx & Hn & H). apply container_next_le in Hn. apply IH in H. lia.
Qed.

Lemma safe_dec_int sg w el : safe (dec_int sg w el).
Proof.
  unfold dec_int. destruct sg; apply safe_rmap; destruct w;
    auto using safe_el_i8, safe_el_i16, safe_el_i32, safe_el_i64,
      safe_el_u8, safe_el_u16, safe_el_u32, safe_el_u64.
Qed.

Lemma el_seq_le el sq :
  el_struct el = ROk sq \/ el_array el = ROk sq \/ el_list el = ROk sq \/ el_container el = ROk sq ->
  (length sq <= length el)%nat.
Proof.
  unfold el_struct, el_array, el_list, el_container.
  intros [H|[H|[H|H]]]; apply bind_ok in H as (c & _ & H);
    destruct (snd c) as [| | | | | | | | |[]|]; try discriminate; eapply next_enter_le; eauto.
Qed.

Lemma container_or_malformed_le el :
  (length (container_or_malformed el) <= Nat.max 1 (length el))%nat.
Proof.
  unfold container_or_malformed. destruct (el_container el) as [s| | |] eqn:E; cbn [length]; try lia.
  assert (length s <= length el)%nat by (eapply el_seq_le; eauto). lia.
Qed.

Lemma safe_arr_loop dec room :
  (forall e, blen e < two63 -> safe (dec e)) ->
  forall fuel s count, (length s < fuel)%nat -> blen s < two63 ->
  safe (arr_loop dec room fuel s count).
Proof.
  intros Hdec. induction fuel as [|fuel IHf]; intros s count Hf Hbs; [lia|].
  cbn [arr_loop]. pose proof (safe_seq_iter_next s Hbs) as Hs.
  destruct (seq_iter_next s) as [r s'] eqn:E. cbn [fst] in Hs.
  destruct r as [[e|]| | |]; try exact I; try contradiction.
  apply seq_iter_next_some in E as (-> & Hlt).
  apply safe_bind; [apply Hdec, Hbs|]. intros x _.
  apply safe_bind; [destruct (room count); exact I|]. intros _ _.
  apply safe_bind; [apply IHf; nlia|]. intros; exact I.
Qed.

Lemma safe_dec_array dec room el :
  (forall e, blen e < two63 -> safe (dec e)) -> blen el < two63 -> safe (dec_array dec room el).
Proof.
  intros Hdec Hb. unfold dec_array. apply safe_bind.
  { destruct (is_nil el); [exact I|]. apply safe_rmap, safe_el_array. }
  intros _ _. pose proof (container_or_malformed_le el) as Hle.
  apply safe_arr_loop; [exact Hdec|nlia|nlia].
Qed.

Theorem safe_ddec d : forall el, blen el < two63 -> safe (ddec d el).
Proof.
  induction d as [sg w| | | | | |d IH|d IH|cap d IH|n d IH|k o fs IH|nk vs IH|w16 vals] using dty_ind2;
    intros el Hb; cbn [ddec].
  - apply safe_dec_int.
  - apply safe_rmap, safe_el_bool.
  - apply safe_rmap, safe_el_f32.
  - apply safe_rmap, safe_el_f64.
  - apply safe_rmap, safe_el_str.
  - apply safe_rmap, safe_el_utf8.
  - destruct (is_nil el); [exact I|]. apply safe_rmap, IH, Hb.
  - apply safe_bind; [apply safe_control|]. intros c _.
    assert (Hs : safe (let! x := ddec d el in
                       match d, x with
                       | DInt sg w, XInt z => if (z =? int_excluded sg w)%Z then RErr E_CONSTRAINT else ROk (XNN x)
                       | DUnit w16 vals, XUnit i =>
                           match nth_error vals i with
                           | Some n => if n =? (if w16 then 65535 else 255) then RErr E_CONSTRAINT else ROk (XNN x)
                           | None => ROk (XNN x)
                           end
                       | _, _ => ROk (XNN x)
                       end)).
    { apply safe_bind; [apply IH, Hb|]. intros x _.
      destruct d; try exact I; destruct x; try exact I.
      - destruct (_ =? _)%Z; exact I.
      - destruct (nth_error vals i); [|exact I]. destruct (_ =? _); exact I. }
    destruct (snd c); try exact Hs. exact I.
  - (* DVec *)
    apply safe_bind; [apply safe_dec_array; auto|]. intros; exact I.
  - (* DFixed *)
    apply safe_bind; [apply safe_dec_array; auto|]. intros; exact I.
  - (* DStruct *)
    apply safe_bind.
    { destruct k; auto using safe_el_struct, safe_el_array, safe_el_list. }
    intros sq Hsq.
    assert (Hsqle : (length sq <= length el)%nat).
    { eapply el_seq_le. destruct k; eauto. }
    apply safe_bind; [|intros; exact I].
    assert (Hb' : blen sq < two63) by nlia. clear Hsq Hsqle.
    revert sq Hb'. induction IH as [|[ft fd] fr Hfd Hfr IHfr]; intros sq Hb'; [exact I|].
    cbn [snd] in Hfd. destruct o.
    + apply safe_bind; [apply safe_seq_scan_ctx; exact Hb'|]. intros [e s'] Hr.
      pose proof (scan_ctx_loop_elem_le _ _ _ _ _ Hr) as He.
      pose proof (scan_ctx_loop_le _ _ _ _ _ Hr) as Hs'. cbn [fst snd].
      apply safe_bind; [apply Hfd; nlia|]. intros x _.
      apply safe_bind; [apply IHfr; nlia|]. intros; exact I.
    + apply safe_bind; [apply safe_seq_find_ctx; exact Hb'|]. intros e He.
      apply find_ctx_loop_le in He.
      apply safe_bind; [apply Hfd; nlia|]. intros x _.
      apply safe_bind; [apply IHfr; exact Hb'|]. intros; exact I.
  - (* DEnum *)
    apply safe_bind.
    { destruct nk; [exact I|]. apply safe_bind; [apply safe_el_struct|]. intros sq Hsq.
      assert (Hsqle : (length sq <= length el)%nat) by (eapply el_seq_le; eauto).
      assert (Hbs : blen sq < two63) by nlia.
      pose proof (safe_seq_iter_next sq Hbs) as Hs.
      destruct (seq_iter_next sq) as [r s'] eqn:E. cbn [fst] in Hs.
      destruct r as [[e|]| | |]; try exact I; try contradiction. }
    intros e He.
    assert (Hbe : blen e < two63).
    { destruct nk; [injection He as <-; exact Hb|].
      apply bind_ok in He as (sq & Hsq & He).
      assert (Hsqle : (length sq <= length el)%nat) by (eapply el_seq_le; eauto).
      destruct (seq_iter_next sq) as [r s'] eqn:E.
      destruct r as [[x|]| | |]; try discriminate. injection He as <-.
      apply seq_iter_next_some in E as (-> & _). nlia. }
    apply safe_bind; [apply safe_el_try_ctx|]. intros oc _.
    apply safe_bind; [apply safe_ok_or|]. intros tg _.
    generalize O. induction IH as [|[vt vd] r Hvd Hr IHr]; intros i; [exact I|].
    cbn [snd] in Hvd. destruct (vt =? tg); [apply safe_rmap, Hvd, Hbe|apply IHr].
  - (* DUnit *)
    apply safe_bind; [destruct w16; [apply safe_el_u16|apply safe_el_u8]|]. intros n _.
    destruct (index_of n vals 0); exact I.
Qed.
