(** Basic facts for the C08 model: fabric-table lookups, flags, equality tests. *)
From Coq Require Import NArith List Bool Lia ZifyN ZifyBool.
From RsM Require Import Model.Failsafe Model.FailsafeSpec.
Import ListNotations.
Open Scope N_scope.

(** ** fget / fset / fdel *)
Lemma fget_idx : forall i l f, fget i l = Some f -> f_idx f = i.
Proof.
  intros i l f H. unfold fget in H. apply find_some in H. destruct H as [_ H].
  apply N.eqb_eq in H. exact H.
Qed.

Lemma fget_fdel_same : forall i l, fget i (fdel i l) = None.
Proof.
  intros i l. unfold fget, fdel. induction l as [|a l IH]; cbn [filter find]; auto.
  destruct (f_idx a =? i) eqn:E; cbn [negb]; auto.
  cbn [find]. rewrite E. exact IH.
Qed.

Lemma fget_fdel_other : forall i j l, j <> i -> fget j (fdel i l) = fget j l.
Proof.
  intros i j l Hne. unfold fget, fdel. induction l as [|a l IH]; cbn [filter find]; auto.
  destruct (f_idx a =? i) eqn:E; cbn [negb].
  - apply N.eqb_eq in E. destruct (f_idx a =? j) eqn:E2.
    + apply N.eqb_eq in E2. congruence.
    + exact IH.
  - cbn [find]. destruct (f_idx a =? j); auto.
Qed.

Lemma fget_fset_same : forall f l, fget (f_idx f) (fset f l) = Some f.
Proof. intros f l. unfold fset, fget. cbn [find]. rewrite N.eqb_refl. reflexivity. Qed.

Lemma fget_fset_other : forall f i l, i <> f_idx f -> fget i (fset f l) = fget i l.
Proof.
  intros f i l Hne. unfold fset. unfold fget at 1. cbn [find].
  destruct (f_idx f =? i) eqn:E.
  - apply N.eqb_eq in E. congruence.
  - apply fget_fdel_other. exact Hne.
Qed.

Lemma fget_fset : forall f i l,
  fget i (fset f l) = if f_idx f =? i then Some f else fget i l.
Proof.
  intros f i l. destruct (f_idx f =? i) eqn:E.
  - apply N.eqb_eq in E. subst i. apply fget_fset_same.
  - apply N.eqb_neq in E. apply fget_fset_other. congruence.
Qed.

Lemma fget_fdel : forall i j l,
  fget j (fdel i l) = if i =? j then None else fget j l.
Proof.
  intros i j l. destruct (i =? j) eqn:E.
  - apply N.eqb_eq in E. subst j. apply fget_fdel_same.
  - apply N.eqb_neq in E. apply fget_fdel_other. congruence.
Qed.

Lemma fget_le_fmax : forall i l f, fget i l = Some f -> i <= fmax l.
Proof.
  intros i l f H. unfold fget in H. induction l as [|a l IH]; cbn [find] in H; [discriminate|].
  cbn [fmax fold_right]. fold (fmax l). destruct (f_idx a =? i) eqn:E.
  - apply N.eqb_eq in E. lia.
  - specialize (IH H). lia.
Qed.

Lemma first_free_spec : forall l i, first_free l = Some i -> fget i l = None /\ i <> 0.
Proof.
  intros l i H. unfold first_free in H. apply find_some in H. destruct H as [Hin H].
  split.
  - destruct (fget i l); [discriminate|reflexivity].
  - apply in_map_iff in Hin. destruct Hin as [n [Hn Hs]]. apply in_seq in Hs. lia.
Qed.

Lemma next_idx_spec : forall l i, next_idx l = Some i -> fget i l = None /\ i <> 0.
Proof.
  intros l i H. unfold next_idx in H. destruct (fmax l <? 254) eqn:E.
  - inversion H; subst i. split; [|lia].
    destruct (fget (fmax l + 1) l) eqn:G; auto.
    apply fget_le_fmax in G. lia.
  - apply first_free_spec. exact H.
Qed.

(** ** equality tests *)
Lemma list_eqb_eq : forall a b, list_eqb a b = true <-> a = b.
Proof.
  induction a as [|x a IH]; destruct b as [|y b]; cbn [list_eqb]; split; intro H;
    try reflexivity; try discriminate.
  - apply andb_true_iff in H. destruct H as [H1 H2]. apply N.eqb_eq in H1. apply IH in H2. congruence.
  - inversion H; subst. rewrite N.eqb_refl. cbn. apply IH. reflexivity.
Qed.

Lemma fabric_eqb_eq : forall a b, fabric_eqb a b = true <-> a = b.
Proof.
  intros [i1 r1 n1 k1 a1 l1 v1] [i2 r2 n2 k2 a2 l2 v2]. unfold fabric_eqb.
  cbn [f_idx f_root f_nid f_key f_acl f_label f_vid].
  split; intro H.
  - repeat (apply andb_true_iff in H; destruct H as [H ?]).
    apply N.eqb_eq in H. repeat match goal with X : (_ =? _) = true |- _ => apply N.eqb_eq in X end.
    match goal with X : list_eqb _ _ = true |- _ => apply list_eqb_eq in X end. congruence.
  - inversion H; subst. rewrite !N.eqb_refl. rewrite !andb_true_r. cbn. apply list_eqb_eq. reflexivity.
Qed.

Lemma ofabric_eqb_eq : forall a b, ofabric_eqb a b = true <-> a = b.
Proof.
  intros [a|] [b|]; cbn [ofabric_eqb]; split; intro H; try reflexivity; try discriminate.
  - apply fabric_eqb_eq in H. congruence.
  - inversion H; subst. apply fabric_eqb_eq. reflexivity.
Qed.

(** ** flags *)
Lemma fl_union_empty_r : forall f, fl_union f fl_empty = f.
Proof. intros [a b c d e]. unfold fl_union, fl_empty; cbn. rewrite !orb_false_r. reflexivity. Qed.
