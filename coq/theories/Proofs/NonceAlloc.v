(** Identifier allocators: the returned id is non-zero and not in use. *)
From RsM Require Import Lib.MachInt Model.Mrp Model.Nonce Proofs.MrpSys.
From Coq Require Import ZifyN ZifyBool.
Open Scope N_scope.

Arguments N.ltb : simpl never.
Arguments N.eqb : simpl never.
Arguments N.add : simpl never.
Arguments N.modulo : simpl never.

Ltac Zify.zify_post_hook ::= Z.div_mod_to_equations.

Lemma next_cursor_range c : 1 <= next_cursor c < two16.
Proof.
  unfold next_cursor, two16. destruct (N.eqb_spec ((c + 1) mod 65536) 0) as [E|E]; lia.
Qed.

(** the cursor visits [n] pairwise distinct non-zero values as long as
    [n <= 65535] *)
Fixpoint cursor_seq (n : nat) (c : N) : list N :=
  match n with O => [] | S k => c :: cursor_seq k (next_cursor c) end.

(** position of a cursor value on the cycle 1..65535 *)
Lemma next_cursor_step c : 1 <= c < two16 ->
  next_cursor c = if c =? 65535 then 1 else c + 1.
Proof.
  unfold next_cursor, two16. intros H.
  destruct (N.eqb_spec c 65535) as [->|Hne]; [reflexivity|].
  assert (E : (c + 1) mod 65536 = c + 1) by (apply N.mod_small; lia).
  rewrite E. destruct (N.eqb_spec (c + 1) 0); [lia|reflexivity].
Qed.

(** after [k] steps from [c] (with [k < 65535]) the cursor is at
    [(c - 1 + k) mod 65535 + 1] *)
Lemma cursor_seq_nth (n : nat) : forall c k,
  1 <= c < two16 -> (k < n)%nat ->
  nth_error (cursor_seq n c) k = Some ((c - 1 + N.of_nat k) mod 65535 + 1).
Proof.
  induction n as [|n IH]; intros c k Hc Hk; [lia|].
  destruct k as [|k]; cbn [cursor_seq nth_error].
  - f_equal. unfold two16 in Hc. rewrite N.add_0_r. rewrite N.mod_small by lia. lia.
  - rewrite IH by (try lia; apply next_cursor_range).
    f_equal. rewrite next_cursor_step by assumption. unfold two16 in Hc.
    destruct (N.eqb_spec c 65535) as [->|Hne].
    + replace (65535 - 1 + N.of_nat (S k)) with (N.of_nat k + 1 * 65535) by lia.
      rewrite N.mod_add by lia. replace (1 - 1 + N.of_nat k) with (N.of_nat k) by lia. reflexivity.
    + f_equal. f_equal. lia.
Qed.

Lemma cursor_seq_length n c : length (cursor_seq n c) = n.
Proof. revert c. induction n as [|n IH]; intros c; cbn; [reflexivity|]. rewrite IH. reflexivity. Qed.

Lemma cursor_seq_nodup (n : nat) c :
  1 <= c < two16 -> (N.of_nat n <= 65535) -> NoDup (cursor_seq n c).
Proof.
  intros Hc Hn. apply NoDup_nth_error. intros i j Hi Heq.
  rewrite cursor_seq_length in Hi.
  destruct (Nat.lt_ge_cases j n) as [Hj|Hj].
  - rewrite !cursor_seq_nth in Heq by assumption. injection Heq as Heq.
    assert (E : (c - 1 + N.of_nat i) mod 65535 = (c - 1 + N.of_nat j) mod 65535) by lia.
    unfold two16 in Hc.
    assert (N.of_nat i = N.of_nat j) by lia. lia.
  - rewrite cursor_seq_nth in Heq by assumption.
    assert (E : nth_error (cursor_seq n c) j = None).
    { apply nth_error_None. rewrite cursor_seq_length. exact Hj. }
    rewrite E in Heq. discriminate.
Qed.

Lemma cursor_seq_nonzero n c x : 1 <= c < two16 -> In x (cursor_seq n c) -> 1 <= x < two16.
Proof.
  revert c. induction n as [|n IH]; intros c Hc; cbn [cursor_seq In]; [intros []|].
  intros [<-|Hin]; [exact Hc|]. eapply IH; [apply next_cursor_range|exact Hin].
Qed.

(** ** session ids *)

Lemma next_sess_id_spec (fuel : nat) : forall cursor used id cursor',
  next_sess_id fuel cursor used = Some (id, cursor') ->
  In id (cursor_seq fuel cursor) /\ ~ In id used.
Proof.
  induction fuel as [|k IH]; intros cursor used id cursor'; cbn [next_sess_id cursor_seq]; [discriminate|].
  destruct (mem cursor used) eqn:Em.
  - intros H. destruct (IH _ _ _ _ H) as [H1 H2]. split; [right; exact H1|exact H2].
  - intros H. injection H as <- <-. split; [left; reflexivity|apply mem_false; exact Em].
Qed.

Lemma next_sess_id_none (fuel : nat) : forall cursor used,
  next_sess_id fuel cursor used = None -> incl (cursor_seq fuel cursor) used.
Proof.
  induction fuel as [|k IH]; intros cursor used; cbn [next_sess_id cursor_seq].
  - intros _ x [].
  - destruct (mem cursor used) eqn:Em; [|discriminate].
    intros H x [<-|Hin]; [apply mem_true; exact Em|]. eapply IH; eassumption.
Qed.

(** with more fuel than ids in use (and at most 65535) the search succeeds:
    the real loop therefore terminates whenever fewer than 65535 ids are in use *)
Theorem next_sess_id_total fuel cursor used :
  1 <= cursor < two16 -> (length used < fuel)%nat -> N.of_nat fuel <= 65535 ->
  exists id cursor', next_sess_id fuel cursor used = Some (id, cursor').
Proof.
  intros Hc Hlen Hf.
  destruct (next_sess_id fuel cursor used) as [[id c']|] eqn:E; [eauto|exfalso].
  apply next_sess_id_none in E.
  pose proof (NoDup_incl_length (cursor_seq_nodup fuel cursor Hc Hf) E) as Hle.
  rewrite cursor_seq_length in Hle. lia.
Qed.

Theorem next_sess_id_fresh fuel cursor used id cursor' :
  1 <= cursor < two16 ->
  next_sess_id fuel cursor used = Some (id, cursor') ->
  ~ In id used /\ 1 <= id < two16.
Proof.
  intros Hc H. destruct (next_sess_id_spec _ _ _ _ _ H) as [H1 H2].
  split; [exact H2|]. eapply cursor_seq_nonzero; eassumption.
Qed.

(** ** exchange ids *)

Definition initiator_ids (live : list (N * bool)) : list N :=
  map fst (filter snd live).

Lemma exch_conflict_iff cand live :
  exch_conflict cand live = true <-> In cand (initiator_ids live).
Proof.
  unfold exch_conflict, initiator_ids. rewrite existsb_exists, in_map_iff. split.
  - intros [[i r] [Hin Hx]]. cbn [fst snd] in Hx. apply andb_prop in Hx as [Hr He].
    apply N.eqb_eq in He. subst i. exists (cand, r). split; [reflexivity|].
    apply filter_In. split; [exact Hin|exact Hr].
  - intros [[i r] [Hf Hin]]. cbn [fst] in Hf. subst i. apply filter_In in Hin as [Hin Hr].
    cbn [snd] in Hr. exists (cand, r). split; [exact Hin|]. cbn [fst snd]. rewrite Hr, N.eqb_refl. reflexivity.
Qed.

Lemma next_exch_id_spec (fuel : nat) : forall cursor live id cursor',
  next_exch_id fuel cursor live = Some (id, cursor') ->
  In id (cursor_seq fuel cursor) /\ ~ In id (initiator_ids live).
Proof.
  induction fuel as [|k IH]; intros cursor live id cursor'; cbn [next_exch_id cursor_seq]; [discriminate|].
  destruct (exch_conflict cursor live) eqn:Em.
  - intros H. destruct (IH _ _ _ _ H) as [H1 H2]. split; [right; exact H1|exact H2].
  - intros H. injection H as <- <-. split; [left; reflexivity|].
    intro Hin. apply exch_conflict_iff in Hin. congruence.
Qed.

Theorem next_exch_id_fresh fuel cursor live id cursor' :
  1 <= cursor < two16 ->
  next_exch_id fuel cursor live = Some (id, cursor') ->
  ~ In id (initiator_ids live) /\ 1 <= id < two16.
Proof.
  intros Hc H. destruct (next_exch_id_spec _ _ _ _ _ H) as [H1 H2].
  split; [exact H2|]. eapply cursor_seq_nonzero; eassumption.
Qed.

Lemma next_exch_id_none (fuel : nat) : forall cursor live,
  next_exch_id fuel cursor live = None -> incl (cursor_seq fuel cursor) (initiator_ids live).
Proof.
  induction fuel as [|k IH]; intros cursor live; cbn [next_exch_id cursor_seq].
  - intros _ x [].
  - destruct (exch_conflict cursor live) eqn:Em; [|discriminate].
    intros H x [<-|Hin]; [apply exch_conflict_iff; exact Em|]. eapply IH; eassumption.
Qed.

Theorem next_exch_id_total fuel cursor live :
  1 <= cursor < two16 -> (length (initiator_ids live) < fuel)%nat -> N.of_nat fuel <= 65535 ->
  exists id cursor', next_exch_id fuel cursor live = Some (id, cursor').
Proof.
  intros Hc Hlen Hf.
  destruct (next_exch_id fuel cursor live) as [[id c']|] eqn:E; [eauto|exfalso].
  apply next_exch_id_none in E.
  pose proof (NoDup_incl_length (cursor_seq_nodup fuel cursor Hc Hf) E) as Hle.
  rewrite cursor_seq_length in Hle. lia.
Qed.

Lemma seed_cursor_range r : r < two16 -> 1 <= seed_cursor r < two16.
Proof. unfold seed_cursor, two16. intros H. destruct (N.eqb_spec r 0); lia. Qed.
