(** Theorems of C03 about Model/Packet.v (all packets, all session tables). *)
From RsM Require Import Lib.MachInt Model.Headers Model.Dedup Model.Mrp Model.Exchange
  Model.Packet Model.PacketSpec Proofs.HeadersFacts Proofs.ExchangeFacts Proofs.PacketFacts.
From Coq Require Import ZifyN ZifyBool Lia Bool PeanoNat.
Open Scope N_scope.

Arguments N.ltb : simpl never.
Arguments N.leb : simpl never.
Arguments N.eqb : simpl never.
Arguments N.add : simpl never.
Arguments N.mul : simpl never.
Arguments N.div : simpl never.
Arguments N.modulo : simpl never.
Arguments N.pow : simpl never.

(** * Acceptance is sound *)

Lemma route_out st i s p x payload st' out :
  route st i s p x payload = (st', out) ->
  o_verdict out = Routed i (snd (sess_post_recv s p x)) /\ o_plain out = p /\
  o_proto out = x /\ o_payload out = payload /\
  st_sessions st' = set_nth (st_sessions st) i (fst (sess_post_recv s p x)) /\
  st_groups st' = st_groups st /\ st_gstore st' = st_gstore st /\ st_next_id st' = st_next_id st.
Proof. rewrite route_spec. intro H. injection H as <- <-. cbn. repeat split. Qed.

Lemma route_existing_none st i s p x payload :
  group_sender s p = None -> route_existing st i s p x payload = route st i s p x payload.
Proof. intro H. unfold route_existing. rewrite H. reflexivity. Qed.

(** the existing-session path: either [post_recv] ran, or a group data message
    was refused by its sender's entry in the group counter store *)
Lemma route_existing_out st i s p x payload st' out :
  route_existing st i s p x payload = (st', out) ->
  o_plain out = p /\ o_proto out = x /\ o_payload out = payload /\
  st_groups st' = st_groups st /\
  ( (o_verdict out = Routed i (snd (sess_post_recv s p x)) /\
     st_sessions st' = set_nth (st_sessions st) i (fst (sess_post_recv s p x)) /\
     (group_sender s p = None -> st_gstore st' = st_gstore st))
    \/
    (o_verdict out = RejGroupDup /\ st_sessions st' = st_sessions st /\
     exists fab src, group_sender s p = Some (fab, src) /\
                     snd (g_post_recv (st_gstore st) fab src (p_ctr p)) = false) ).
Proof.
  unfold route_existing. destruct (group_sender s p) as [[fab src]|] eqn:Hg.
  - destruct (g_post_recv (st_gstore st) fab src (p_ctr p)) as [gs fresh] eqn:Hp.
    destruct fresh.
    + intro H. apply route_out in H as (Hv & H1 & H2 & H3 & Hss & Hgr & _).
      repeat split; try assumption. left. repeat split; try assumption. discriminate.
    + intro H. injection H as <- <-. cbn. repeat split. right. repeat split.
      exists fab, src. split; [reflexivity|]. rewrite Hp. reflexivity.
  - intro H. apply route_out in H as (Hv & H1 & H2 & H3 & Hss & Hgr & Hgs & _).
    repeat split; try assumption. left. repeat split; try assumption. intros _. exact Hgs.
Qed.

(** the group path: where it ends when the message is authentic *)
Lemma group_rx_routed W o st from p aad rest src c x payload st' out i r :
  plain_get_src p = Some src ->
  group_try W src (addr_reliable from) p aad rest (group_cands st p) = Some (c, x, payload) ->
  group_rx W o st from p aad rest = (st', out) ->
  o_verdict out = Routed i r ->
  o_plain out = p /\ o_proto out = x /\ o_payload out = payload /\
  exists s', nth_error (st_sessions st') i = Some s' /\ ps_dec_key s' = gc_key c /\
             ps_enc_key s' = gc_key c /\ ps_mode s' = MGroup (gc_fab c) (gc_gid c) /\
             ps_peer_node s' = Some src /\ ps_local_sid s' = p_sess p.
Proof.
  intros Hs Hg. unfold group_rx. rewrite Hs.
  destruct (is_none (plain_get_dst_groupcast p) && is_none (plain_get_dst_unicast p));
    [intros H Hv; injection H as <- <-; discriminate|].
  destruct (1280 <? length rest)%nat; [intros H Hv; injection H as <- <-; discriminate|].
  rewrite Hg.
  destruct (if plain_control p then (st_gstore st, true)
            else g_post_recv (st_gstore st) (gc_fab c) src (p_ctr p)) as [gs fresh].
  destruct fresh; cbn [negb]; [|intros H Hv; injection H as <- <-; discriminate].
  set (st1 := mkSt (st_sessions st) (st_groups st) gs (st_next_id st)).
  destruct (sessions_add st1 (or_rand o) false from (Some src)) as [st2 slot] eqn:Ha.
  assert (Hmain : forall st3 j idn,
    st_sessions st3 = firstn j (st_sessions st3) ++ [new_psess idn (or_rand o) false from (Some src)] ->
    j = length (firstn j (st_sessions st3)) ->
    match nth_error (st_sessions st3) j with
    | Some s0 => route st3 j (group_session s0 c (p_sess p)) p x payload
    | None => (st3, rej RejNoSpace p)
    end = (st', out) ->
    o_verdict out = Routed i r ->
    o_plain out = p /\ o_proto out = x /\ o_payload out = payload /\
    exists s', nth_error (st_sessions st') i = Some s' /\ ps_dec_key s' = gc_key c /\
               ps_enc_key s' = gc_key c /\ ps_mode s' = MGroup (gc_fab c) (gc_gid c) /\
               ps_peer_node s' = Some src /\ ps_local_sid s' = p_sess p).
  { intros st3 j idn Hl Hj.
    assert (Hn : nth_error (st_sessions st3) j = Some (new_psess idn (or_rand o) false from (Some src))).
    { rewrite Hl. rewrite Hj at 2. rewrite nth_error_app_last. reflexivity. }
    rewrite Hn. intros Hr Hv. apply route_out in Hr as (Hv' & Hp & Hx & Hpl & Hss & _).
    rewrite Hv' in Hv. injection Hv as <- _.
    repeat split; try assumption.
    pose proof (sess_post_recv_ident (group_session (new_psess idn (or_rand o) false from (Some src)) c (p_sess p)) p x)
      as Hid.
    destruct Hid as (_ & _ & _ & Hpn & Hdk & Hek & Hls & _ & _ & Hmo & _).
    eexists. split.
    - rewrite Hss. apply nth_error_set_nth_eq. apply nth_error_Some. rewrite Hn. discriminate.
    - rewrite <- Hdk, <- Hek, <- Hmo, <- Hpn, <- Hls. cbn. repeat split. }
  destruct slot as [j|].
  - apply sessions_add_some in Ha as (Hj & Hl & _).
    apply (Hmain st2 j (st_next_id st1)).
    + rewrite Hl, Hj. rewrite firstn_app, Nat.sub_diag, firstn_all. cbn [firstn]. rewrite app_nil_r.
      reflexivity.
    + rewrite Hl, Hj. rewrite firstn_app, Nat.sub_diag, firstn_all. cbn [firstn]. rewrite app_nil_r.
      reflexivity.
  - destruct (or_evict o) as [k|].
    + destruct (sessions_add (set_sessions st2 (swap_remove (st_sessions st2) k)) (or_rand o) false
                  from (Some src)) as [st3 slot3] eqn:Hb.
      destruct slot3 as [j|]; [|intros H Hv; injection H as <- <-; discriminate].
      apply sessions_add_some in Hb as (Hj & Hl & _).
      apply (Hmain st3 j (st_next_id (set_sessions st2 (swap_remove (st_sessions st2) k)))).
      * rewrite Hl, Hj. rewrite firstn_app, Nat.sub_diag, firstn_all. cbn [firstn].
        rewrite app_nil_r. reflexivity.
      * rewrite Hl, Hj. rewrite firstn_app, Nat.sub_diag, firstn_all. cbn [firstn].
        rewrite app_nil_r. reflexivity.
    + intros H Hv; injection H as <- <-; discriminate.
Qed.

Theorem accept_sound W o st from wire st' out i r :
  bytes wire ->
  decode_packet W o st from wire = (st', out) ->
  o_verdict out = Routed i r ->
  exists rest,
    wire = plain_encode (o_plain out) ++ rest /\ plain_wf (o_plain out) = true /\
    ( (* an established session: its receive key, its peer's node id, the whole header *)
      (exists s pt x0,
         find_sess (st_sessions st) from (o_plain out) = Some (i, s) /\
         proto_decode pt = Ok (x0, o_payload out) /\
         o_proto out = adjust_rel (addr_reliable (ps_addr s)) x0 /\
         (if mode_enc (ps_mode s) then authentic W s (o_plain out) pt rest else pt = rest))
      \/
      (* an unsecured session request: a new plaintext session *)
      (find_sess (st_sessions st) from (o_plain out) = None /\
       plain_encrypted (o_plain out) = false /\
       exists s', nth_error (st_sessions st') i = Some s' /\ ps_mode s' = MPlain)
      \/
      (* a group message: one of the node's group keys, the header's source node id *)
      (find_sess (st_sessions st) from (o_plain out) = None /\
       exists c src pt x0 s',
         In c (st_groups st) /\ gc_sid c = p_sess (o_plain out) /\
         plain_get_src (o_plain out) = Some src /\
         authentic_group W c src (o_plain out) pt rest /\
         proto_decode pt = Ok (x0, o_payload out) /\
         o_proto out = adjust_rel (addr_reliable from) x0 /\
         nth_error (st_sessions st') i = Some s' /\ ps_dec_key s' = gc_key c /\
         ps_mode s' = MGroup (gc_fab c) (gc_gid c) /\ ps_peer_node s' = Some src) ).
Proof.
  intros Hb Hd Hv.
  destruct (auth_check W st from wire) as [|j p x payload|p x payload|c p x payload] eqn:Ha.
  - destruct (decode_auth_none W o st from wire Ha) as [_ Hn]. rewrite Hd in Hn. cbn [snd] in Hn.
    exfalso. exact (Hn i r Hv).
  - destruct (decode_auth_session W o st from wire j p x payload Ha) as (s & Hf & Hr).
    rewrite Hr in Hd.
    apply route_existing_out in Hd as (Hp & Hx & Hpl & _ & [(Hv' & _)|(Hv' & _)]);
      [|rewrite Hv' in Hv; discriminate].
    rewrite Hv' in Hv. injection Hv as <- _.
    destruct (auth_session_sound W st from wire j p x payload Hb Ha)
      as (s1 & rest & Hf1 & _ & Hw & Hwf & pt & x0 & Hpd & Hxa & Hau).
    rewrite Hf in Hf1. injection Hf1 as <-.
    exists rest. rewrite Hp. repeat split; try assumption. left.
    exists s, pt, x0. rewrite Hpl, Hx. repeat split; assumption.
  - destruct (decode_auth_newplain W o st from wire p x payload Ha) as (Hf & He & Hr).
    rewrite Hr in Hd.
    destruct (sessions_add st (or_rand o) false from (plain_get_src p)) as [st1 slot] eqn:Hadd.
    destruct slot as [j|]; [|injection Hd as <- <-; discriminate].
    apply sessions_add_some in Hadd as (Hj & Hl & _).
    assert (Hn : nth_error (st_sessions st1) j =
                 Some (new_psess (st_next_id st) (or_rand o) false from (plain_get_src p))).
    { rewrite Hl, Hj. apply nth_error_app_last. }
    rewrite Hn in Hd. apply route_out in Hd as (Hv' & Hp & Hx & Hpl & Hss & _).
    rewrite Hv' in Hv. injection Hv as <- _.
    unfold auth_check in Ha.
    destruct (plain_decode wire) as [[p0 rest]|e|e] eqn:Hpd; try discriminate.
    destruct (plain_decode_consumed _ _ _ Hb Hpd) as (Hw & _ & Hwf & _).
    assert (p0 = p).
    { destruct (find_sess (st_sessions st) from p0) as [[i0 s]|].
      - destruct (decode_remaining W (sess_dec_key s) (node_or0 (ps_peer_node s))
                    (addr_reliable (ps_addr s)) p0 (consumed wire rest) rest) as [v|[x0 pl]];
          discriminate.
      - destruct (negb (plain_encrypted p0)).
        + destruct (decode_remaining W None 0 (addr_reliable from) p0 (consumed wire rest) rest)
            as [v|[x0 pl]]; [discriminate|].
          destruct (is_new_session (opclass_of x0)); [|discriminate]. congruence.
        + destruct (plain_group p0); [|discriminate].
          destruct (plain_get_src p0) as [src|]; [|discriminate].
          destruct (is_none (plain_get_dst_groupcast p0) && is_none (plain_get_dst_unicast p0));
            [discriminate|].
          destruct (1280 <? length rest)%nat; [discriminate|].
          destruct (group_try W src (addr_reliable from) p0 (consumed wire rest) rest
                      (group_cands st p0)) as [[[c x0] pl]|]; discriminate. }
    subst p0. exists rest. rewrite Hp. repeat split; try assumption.
    right. left. repeat split; try assumption.
    eexists. split.
    + rewrite Hss. apply nth_error_set_nth_eq. apply nth_error_Some. rewrite Hn. discriminate.
    + pose proof (sess_post_recv_ident
        (new_psess (st_next_id st) (or_rand o) false from (plain_get_src p)) p x) as Hid.
      destruct Hid as (_ & _ & _ & _ & _ & _ & _ & _ & _ & Hmo & _). rewrite <- Hmo. reflexivity.
  - destruct (decode_auth_group W o st from wire c p x payload Ha)
      as (rest & src & Hpd & Hf & He & Hs & Hg & Hr).
    destruct (auth_group_sound W st from wire c p x payload Hb Ha)
      as (rest' & src' & pt & x0 & Hw & Hwf & Hin & Hsid & Hs' & Hau & Hpdx & Hxa).
    rewrite Hs in Hs'. injection Hs' as <-.
    rewrite Hr in Hd.
    destruct (group_rx_routed W o st from p _ rest src c x payload st' out i r Hs Hg Hd Hv)
      as (Hp & Hx & Hpl & s' & Hn & Hdk & _ & Hmo & Hpn & _).
    exists rest'. rewrite Hp. repeat split; try assumption.
    right. right. split; [exact Hf|].
    exists c, src, pt, x0, s'. rewrite Hpl, Hx. repeat split; assumption.
Qed.

(** * Rejection leaves the sessions alone *)

Lemma swap_remove_shorter {A} (l : list A) k x :
  nth_error l k = Some x -> S (length (swap_remove l k)) = length l.
Proof.
  intro H. pose proof (swap_remove_perm l k x H) as Hp.
  apply Permutation.Permutation_length in Hp. cbn [length] in Hp. lia.
Qed.

(** a datagram that is not authentic leaves the whole state as it was *)
Theorem unauthentic_frame W o st from wire st' out :
  auth_check W st from wire = AuthNone ->
  decode_packet W o st from wire = (st', out) ->
  st' = st /\ not_routed (o_verdict out).
Proof.
  intros Ha Hd. destruct (decode_auth_none W o st from wire Ha) as [H1 H2].
  rewrite Hd in H1, H2. cbn [fst snd] in H1, H2. split; assumption.
Qed.

(** every outcome other than "post_recv ran" leaves every session as it was:
    window, message counter, exchange slots, keys, identities *)
Theorem reject_frame W o st from wire st' out :
  (length (st_sessions st) <= MAX_SESSIONS)%nat ->      (* the table's capacity *)
  decode_packet W o st from wire = (st', out) ->
  not_routed (o_verdict out) ->
  st_sessions st' = st_sessions st.
Proof.
  intros Hcap Hd Hn.
  destruct (auth_check W st from wire) as [|j p x payload|p x payload|c p x payload] eqn:Ha.
  - destruct (unauthentic_frame W o st from wire st' out Ha Hd) as [-> _]. reflexivity.
  - destruct (decode_auth_session W o st from wire j p x payload Ha) as (s & Hf & Hr).
    rewrite Hr in Hd.
    apply route_existing_out in Hd as (_ & _ & _ & _ & [(Hv & _)|(_ & Hss & _)]);
      [exfalso; exact (Hn _ _ Hv)|exact Hss].
  - destruct (decode_auth_newplain W o st from wire p x payload Ha) as (Hf & He & Hr).
    rewrite Hr in Hd.
    destruct (sessions_add st (or_rand o) false from (plain_get_src p)) as [st1 slot] eqn:Hadd.
    destruct slot as [j|].
    + apply sessions_add_some in Hadd as (Hj & Hl & _).
      assert (Hnth : nth_error (st_sessions st1) j =
                   Some (new_psess (st_next_id st) (or_rand o) false from (plain_get_src p))).
      { rewrite Hl, Hj. apply nth_error_app_last. }
      rewrite Hnth in Hd. apply route_out in Hd as (Hv & _). exfalso. exact (Hn _ _ Hv).
    + apply sessions_add_none in Hadd as (Hl & _). injection Hd as <- _. exact Hl.
  - destruct (decode_auth_group W o st from wire c p x payload Ha)
      as (rest & src & Hpd & Hf & He & Hs & Hg & Hr).
    rewrite Hr in Hd. unfold group_rx in Hd. rewrite Hs in Hd.
    destruct (is_none (plain_get_dst_groupcast p) && is_none (plain_get_dst_unicast p));
      [injection Hd as <- _; reflexivity|].
    destruct (1280 <? length rest)%nat; [injection Hd as <- _; reflexivity|].
    rewrite Hg in Hd.
    destruct (if plain_control p then (st_gstore st, true)
              else g_post_recv (st_gstore st) (gc_fab c) src (p_ctr p)) as [gs fresh].
    destruct fresh; cbn [negb] in Hd; [|injection Hd as <- _; reflexivity].
    set (st1 := mkSt (st_sessions st) (st_groups st) gs (st_next_id st)) in *.
    destruct (sessions_add st1 (or_rand o) false from (Some src)) as [st2 slot] eqn:Hadd.
    destruct slot as [j|].
    + apply sessions_add_some in Hadd as (Hj & Hl & _).
      assert (Hnth : nth_error (st_sessions st2) j =
                     Some (new_psess (st_next_id st1) (or_rand o) false from (Some src))).
      { rewrite Hl, Hj. apply nth_error_app_last. }
      rewrite Hnth in Hd. apply route_out in Hd as (Hv & _). exfalso. exact (Hn _ _ Hv).
    + apply sessions_add_none in Hadd as (Hl & _ & _ & Hfull).
      destruct (or_evict o) as [k|]; [|injection Hd as <- _; exact Hl].
      destruct (sessions_add (set_sessions st2 (swap_remove (st_sessions st2) k)) (or_rand o) false
                  from (Some src)) as [st3 slot3] eqn:Hb.
      destruct slot3 as [j|].
      * apply sessions_add_some in Hb as (Hj & Hl3 & _).
        assert (Hnth : nth_error (st_sessions st3) j =
                       Some (new_psess (st_next_id (set_sessions st2 (swap_remove (st_sessions st2) k)))
                                       (or_rand o) false from (Some src))).
        { rewrite Hl3, Hj. apply nth_error_app_last. }
        rewrite Hnth in Hd. apply route_out in Hd as (Hv & _). exfalso. exact (Hn _ _ Hv).
      * apply sessions_add_none in Hb as (Hl3 & _ & _ & Hfull3).
        injection Hd as <- _. rewrite Hl3. cbn [set_sessions st_sessions].
        destruct (nth_error (st_sessions st2) k) as [y|] eqn:Hk.
        -- exfalso. apply swap_remove_shorter in Hk. cbn [set_sessions st_sessions] in Hfull3.
           (* the table was full, one entry was removed: the second add cannot fail *)
           rewrite Hl in Hk. change (st_sessions st1) with (st_sessions st) in Hk.
           rewrite Hl in Hfull3. change (st_sessions st1) with (st_sessions st) in Hfull3.
           lia.
        -- rewrite swap_remove_out by exact Hk. exact Hl.
Qed.

(** delivery to an established session: every other session is untouched, and
    of that session only the window and the exchange slots may move (keys,
    identities, message counter, mode, flags stay) *)
Theorem routed_frame W o st from wire st' out i r s :
  decode_packet W o st from wire = (st', out) ->
  o_verdict out = Routed i r ->
  find_sess (st_sessions st) from (o_plain out) = Some (i, s) ->
  (forall j, j <> i -> nth_error (st_sessions st') j = nth_error (st_sessions st) j) /\
  (exists s', nth_error (st_sessions st') i = Some s' /\ same_ident s s') /\
  length (st_sessions st') = length (st_sessions st) /\
  st_groups st' = st_groups st /\
  (group_sender s (o_plain out) = None -> st_gstore st' = st_gstore st).
Proof.
  intros Hd Hv Hf.
  destruct (auth_check W st from wire) as [|j p x payload|p x payload|c p x payload] eqn:Ha.
  - destruct (unauthentic_frame W o st from wire st' out Ha Hd) as [_ Hn].
    exfalso. exact (Hn _ _ Hv).
  - destruct (decode_auth_session W o st from wire j p x payload Ha) as (s1 & Hf1 & Hr).
    rewrite Hr in Hd.
    apply route_existing_out in Hd as (Hp & _ & _ & Hg & [(Hv' & Hss & Hgs)|(Hv' & _)]);
      [|rewrite Hv' in Hv; discriminate].
    rewrite Hv' in Hv. injection Hv as <- _. rewrite Hp in Hf. rewrite Hf in Hf1.
    injection Hf1 as <-. apply find_sess_some in Hf as (Hn & _). rewrite Hp.
    repeat split; try assumption.
    + intros k Hk. rewrite Hss. apply nth_error_set_nth_neq. congruence.
    + eexists. split.
      * rewrite Hss. apply nth_error_set_nth_eq. apply nth_error_Some. rewrite Hn. discriminate.
      * apply sess_post_recv_ident.
    + rewrite Hss. apply set_nth_length.
  - destruct (decode_auth_newplain W o st from wire p x payload Ha) as (Hf1 & He & Hr).
    exfalso. rewrite Hr in Hd.
    destruct (sessions_add st (or_rand o) false from (plain_get_src p)) as [st1 slot].
    destruct slot as [j|].
    + destruct (nth_error (st_sessions st1) j).
      * apply route_out in Hd as (_ & Hp & _). rewrite Hp in Hf. congruence.
      * injection Hd as _ <-. cbn in Hf. congruence.
    + injection Hd as _ <-. cbn in Hf. congruence.
  - destruct (decode_auth_group W o st from wire c p x payload Ha)
      as (rest & src & Hpd & Hf1 & He & Hs & Hg & Hr).
    exfalso. rewrite Hr in Hd.
    destruct (group_rx_routed W o st from p _ rest src c x payload st' out i r Hs Hg Hd Hv)
      as (Hp & _). rewrite Hp in Hf. congruence.
Qed.

(** a replayed counter (the window does not accept it) changes nothing, even
    though the datagram is authentic *)
Theorem replay_frame W o st from wire st' out i r s :
  decode_packet W o st from wire = (st', out) ->
  o_verdict out = Routed i r ->
  find_sess (st_sessions st) from (o_plain out) = Some (i, s) ->
  group_sender s (o_plain out) = None ->
  snd (post_recv (ps_win s) (p_ctr (o_plain out)) (mode_enc (ps_mode s)) false) = false ->
  st' = st /\ r = Err ERR_DUPLICATE.
Proof.
  intros Hd Hv Hf Hgs Hw.
  destruct (auth_check W st from wire) as [|j p x payload|p x payload|c p x payload] eqn:Ha.
  - destruct (unauthentic_frame W o st from wire st' out Ha Hd) as [_ Hn].
    exfalso. exact (Hn _ _ Hv).
  - destruct (decode_auth_session W o st from wire j p x payload Ha) as (s1 & Hf1 & Hr).
    assert (Hpo : o_plain out = p).
    { rewrite Hr in Hd. apply route_existing_out in Hd as (Hp & _). exact Hp. }
    rewrite Hpo in Hf, Hgs, Hw. rewrite Hf in Hf1. injection Hf1 as Hs1. subst s1.
    rewrite Hr in Hd. rewrite (route_existing_none _ _ _ _ _ _ Hgs) in Hd.
    rewrite route_spec in Hd. injection Hd as <- <-.
    cbn [o_verdict o_plain] in *. injection Hv as <- <-.
    rewrite (sess_post_recv_replay s p x Hw). cbn [fst snd]. split; [|reflexivity].
    apply find_sess_some in Hf as (Hn & _).
    rewrite (set_nth_same _ _ _ Hn). destruct st; reflexivity.
  - destruct (decode_auth_newplain W o st from wire p x payload Ha) as (Hf1 & He & Hr).
    exfalso. rewrite Hr in Hd.
    destruct (sessions_add st (or_rand o) false from (plain_get_src p)) as [st1 slot].
    destruct slot as [j|].
    + destruct (nth_error (st_sessions st1) j).
      * apply route_out in Hd as (_ & Hp & _). rewrite Hp in Hf. congruence.
      * injection Hd as _ <-. cbn in Hf. congruence.
    + injection Hd as _ <-. cbn in Hf. congruence.
  - destruct (decode_auth_group W o st from wire c p x payload Ha)
      as (rest & src & Hpd & Hf1 & He & Hs & Hg & Hr).
    exfalso. rewrite Hr in Hd.
    destruct (group_rx_routed W o st from p _ rest src c x payload st' out i r Hs Hg Hd Hv)
      as (Hp & _). rewrite Hp in Hf. congruence.
Qed.

(** * Only honestly produced datagrams are ever accepted as secured messages *)

Lemma in_honest_packets W k n a pt c : In (Aead k n a pt, c) W -> In (a ++ c) (honest_packets W).
Proof.
  intro H. unfold honest_packets. apply in_map_iff. exists (Aead k n a pt, c). split; [reflexivity|exact H].
Qed.

(** a datagram that claims to be a secured message and is not, byte for byte,
    one that an honest party produced (any bit flip, truncation, extension or
    transplant of header and body) is rejected and changes nothing *)
Theorem forged_rejected W o st from wire st' out :
  bytes wire ->
  ~ In wire (honest_packets W) ->
  (forall p rest, plain_decode wire = Ok (p, rest) -> plain_encrypted p = true) ->
  decode_packet W o st from wire = (st', out) ->
  st' = st /\ not_routed (o_verdict out).
Proof.
  intros Hb Hnot Henc Hd. apply (unauthentic_frame W o st from wire st' out); [|exact Hd].
  destruct (auth_check W st from wire) as [|j p x payload|p x payload|c p x payload] eqn:Ha;
    [reflexivity|exfalso..].
  - destruct (auth_session_sound W st from wire j p x payload Hb Ha)
      as (s & rest & Hf & Hpd & Hw & Hwf & pt & x0 & _ & _ & Hau).
    apply find_sess_some in Hf as (_ & Hrx & _).
    pose proof (Henc _ _ Hpd) as He.
    unfold is_for_rx in Hrx. repeat (apply andb_prop in Hrx; destruct Hrx as [Hrx ?]).
    match goal with Hq : Bool.eqb _ _ = true |- _ => apply Bool.eqb_prop in Hq; rewrite He in Hq end.
    match goal with Hq : mode_enc _ = true |- _ => rewrite Hq in Hau end.
    apply Hnot. rewrite Hw. eapply in_honest_packets. exact Hau.
  - destruct (decode_auth_newplain W o st from wire p x payload Ha) as (_ & He & _).
    unfold auth_check in Ha.
    destruct (plain_decode wire) as [[p0 rest]|e|e] eqn:Hpd; try discriminate.
    pose proof (Henc _ _ eq_refl) as He0.
    destruct (find_sess (st_sessions st) from p0) as [[i0 s]|].
    + destruct (decode_remaining W (sess_dec_key s) (node_or0 (ps_peer_node s))
                  (addr_reliable (ps_addr s)) p0 (consumed wire rest) rest) as [v|[x0 pl]];
        discriminate.
    + rewrite He0 in Ha. cbn [negb] in Ha.
      destruct (plain_group p0); [|discriminate].
      destruct (plain_get_src p0) as [src|]; [|discriminate].
      destruct (is_none (plain_get_dst_groupcast p0) && is_none (plain_get_dst_unicast p0));
        [discriminate|].
      destruct (1280 <? length rest)%nat; [discriminate|].
      destruct (group_try W src (addr_reliable from) p0 (consumed wire rest) rest
                  (group_cands st p0)) as [[[c x0] pl]|]; discriminate.
  - destruct (auth_group_sound W st from wire c p x payload Hb Ha)
      as (rest & src & pt & x0 & Hw & _ & _ & _ & _ & Hau & _).
    apply Hnot. rewrite Hw. eapply in_honest_packets. exact Hau.
Qed.

(** * Acceptance binds key, nonce and associated data *)

(** If the body of the datagram is the sealing of [Aead k n a pt] and the
    datagram is looked up to the secure session [s], anything but
    "k is s's receive key, n the nonce of (flags, counter, s's peer node), a the
    encoded header" is rejected without any change. *)
Theorem mismatch_rejected W o st from wire st' out p rest i s k n a pt :
  ct_unique W -> bytes wire ->
  plain_decode wire = Ok (p, rest) ->
  In (Aead k n a pt, rest) W ->
  find_sess (st_sessions st) from p = Some (i, s) -> mode_enc (ps_mode s) = true ->
  k <> ps_dec_key s \/ n <> nonce (p_sec p) (p_ctr p) (node_or0 (ps_peer_node s)) \/
    a <> plain_encode p ->
  decode_packet W o st from wire = (st', out) ->
  st' = st /\ not_routed (o_verdict out).
Proof.
  intros Hu Hb Hpd Hin Hf Hm Hne Hd.
  apply (unauthentic_frame W o st from wire st' out); [|exact Hd].
  destruct (auth_check W st from wire) as [|j p1 x payload|p1 x payload|c p1 x payload] eqn:Ha;
    [reflexivity|exfalso..].
  - destruct (auth_session_sound W st from wire j p1 x payload Hb Ha)
      as (s1 & rest1 & Hf1 & Hpd1 & Hw & Hwf & pt1 & x0 & _ & _ & Hau).
    rewrite Hpd in Hpd1. injection Hpd1 as <- <-. rewrite Hf in Hf1. injection Hf1 as <- <-.
    rewrite Hm in Hau. unfold authentic in Hau.
    pose proof (Hu _ _ _ Hin Hau) as He. injection He as -> -> -> _.
    destruct Hne as [H|[H|H]]; apply H; reflexivity.
  - destruct (decode_auth_newplain W o st from wire p1 x payload Ha) as (Hf1 & _ & _).
    unfold auth_check in Ha. rewrite Hpd, Hf in Ha.
    destruct (decode_remaining W (sess_dec_key s) (node_or0 (ps_peer_node s))
                (addr_reliable (ps_addr s)) p (consumed wire rest) rest) as [v|[x0 pl]];
      discriminate.
  - unfold auth_check in Ha. rewrite Hpd, Hf in Ha.
    destruct (decode_remaining W (sess_dec_key s) (node_or0 (ps_peer_node s))
                (addr_reliable (ps_addr s)) p (consumed wire rest) rest) as [v|[x0 pl]];
      discriminate.
Qed.

(** sealed for another session (another key), e.g. the opposite direction *)
Corollary cross_session_rejected W o st from wire st' out p rest i s k n a pt :
  ct_unique W -> bytes wire -> plain_decode wire = Ok (p, rest) ->
  In (Aead k n a pt, rest) W ->
  find_sess (st_sessions st) from p = Some (i, s) -> mode_enc (ps_mode s) = true ->
  k <> ps_dec_key s ->
  decode_packet W o st from wire = (st', out) ->
  st' = st /\ not_routed (o_verdict out).
Proof. intros. eapply mismatch_rejected; eauto. Qed.

(** sealed by another source node *)
Corollary other_source_node_rejected W o st from wire st' out p rest i s k node a pt :
  ct_unique W -> bytes wire -> plain_decode wire = Ok (p, rest) ->
  In (Aead k (nonce (p_sec p) (p_ctr p) node) a pt, rest) W ->
  find_sess (st_sessions st) from p = Some (i, s) -> mode_enc (ps_mode s) = true ->
  node < two64 -> node_or0 (ps_peer_node s) < two64 -> node <> node_or0 (ps_peer_node s) ->
  decode_packet W o st from wire = (st', out) ->
  st' = st /\ not_routed (o_verdict out).
Proof.
  intros Hu Hb Hpd Hin Hf Hm Hn1 Hn2 Hne Hd.
  destruct (plain_decode_consumed _ _ _ Hb Hpd) as (_ & _ & Hwf & _).
  apply plain_wf_inv in Hwf as (_ & _ & _ & Hsf & _ & Hctr & _).
  eapply mismatch_rejected; eauto. right. left. intro Hq.
  apply nonce_inj in Hq as (_ & _ & Hq); try assumption. exact (Hne Hq).
Qed.

(** the header was changed after sealing (the body was sealed for header [p0]) *)
Corollary header_tamper_rejected W o st from wire st' out p rest i s k n p0 pt :
  ct_unique W -> bytes wire -> plain_decode wire = Ok (p, rest) ->
  In (Aead k n (plain_encode p0) pt, rest) W -> plain_wf p0 = true -> p0 <> p ->
  find_sess (st_sessions st) from p = Some (i, s) -> mode_enc (ps_mode s) = true ->
  decode_packet W o st from wire = (st', out) ->
  st' = st /\ not_routed (o_verdict out).
Proof.
  intros Hu Hb Hpd Hin Hwf0 Hne Hf Hm Hd.
  destruct (plain_decode_consumed _ _ _ Hb Hpd) as (_ & _ & Hwf & _).
  eapply mismatch_rejected; eauto. right. right. intro Hq.
  assert (He : plain_encode p0 ++ [] = plain_encode p ++ []) by (rewrite Hq; reflexivity).
  apply plain_encode_inj in He as [He _]; try assumption. exact (Hne He).
Qed.

(** * The associated data covers the whole header *)

Theorem aad_covers_header (p1 p2 : plain_hdr) (r1 r2 : list N) :
  plain_wf p1 = true -> plain_wf p2 = true -> p1 <> p2 ->
  plain_encode p1 ++ r1 <> plain_encode p2 ++ r2.
Proof.
  intros H1 H2 Hne He. apply plain_encode_inj in He as [He _]; try assumption. exact (Hne He).
Qed.

(** what [decode_packet] passes as associated data is the complete encoded
    header, whatever follows it *)
Theorem aad_is_header wire p rest :
  bytes wire -> plain_decode wire = Ok (p, rest) ->
  consumed wire rest = plain_encode p /\ wire = plain_encode p ++ rest.
Proof.
  intros Hb Hp. destruct (plain_decode_consumed _ _ _ Hb Hp) as (Hw & Hc & _). split; assumption.
Qed.

(** * Round trip *)

(** What a session seals, the session holding the matching receive key and
    peer node id opens to the identical header fields and payload. *)
Theorem encode_decode_roundtrip W o s stB from i r p x payload wire :
  world_functional W ->
  plain_wf p = true -> proto_wf x = true ->
  mode_enc (ps_mode s) = true -> mode_enc (ps_mode r) = true ->
  ps_dec_key r = ps_enc_key s -> node_or0 (ps_peer_node r) = ps_local_node s ->
  session_encode W s p x payload = Ok wire ->
  find_sess (st_sessions stB) from p = Some (i, r) ->
  decode_packet W o stB from wire =
    route_existing stB i r p (adjust_rel (addr_reliable (ps_addr r)) x) payload.
Proof.
  intros Hfun Hp Hx Hms Hmr Hk Hn He Hf.
  unfold session_encode, sess_enc_key in He. rewrite Hms in He.
  destruct (aead_seal W (sealed_term s p x payload)) as [c|] eqn:Hs; [|discriminate].
  assert (Hw : plain_encode p ++ c = wire) by congruence. subst wire. clear He.
  apply aead_seal_sound in Hs. unfold sealed_term in Hs.
  unfold decode_packet. rewrite plain_roundtrip by exact Hp.
  rewrite consumed_app, Hf.
  unfold decode_remaining, sess_dec_key. rewrite Hmr, Hk, Hn.
  rewrite (aead_open_complete W _ _ _ _ _ Hfun Hs).
  rewrite proto_roundtrip by exact Hx. reflexivity.
Qed.

(** the same for an unsecured session: header and payload travel in the clear *)
Theorem plain_encode_decode_roundtrip W o s stB from i r p x payload wire :
  plain_wf p = true -> proto_wf x = true ->
  mode_enc (ps_mode s) = false -> mode_enc (ps_mode r) = false ->
  session_encode W s p x payload = Ok wire ->
  find_sess (st_sessions stB) from p = Some (i, r) ->
  decode_packet W o stB from wire =
    route_existing stB i r p (adjust_rel (addr_reliable (ps_addr r)) x) payload.
Proof.
  intros Hp Hx Hms Hmr He Hf.
  unfold session_encode, sess_enc_key in He. rewrite Hms in He.
  assert (Hw : plain_encode p ++ proto_encode x ++ payload = wire) by congruence.
  subst wire. clear He.
  unfold decode_packet. rewrite plain_roundtrip by exact Hp.
  rewrite consumed_app, Hf.
  unfold decode_remaining, sess_dec_key. rewrite Hmr.
  rewrite proto_roundtrip by exact Hx. reflexivity.
Qed.

(** ** what [Session::pre_send] puts in the header of a secure unicast session *)

Definition psess_wf (s : psess) : Prop :=
  ps_local_node s < two64 /\ ps_peer_sid s < two16 /\ ps_local_sid s < two16 /\
  ps_msg_ctr s < two32 /\
  match ps_peer_node s with Some v => v < two64 | None => True end.

Definition unicast_secure (m : smode) : bool :=
  match m with MCase _ | MPase _ => true | _ => false end.

Lemma pre_send_unicast_plain s gctr sai x s' p x' :
  unicast_secure (ps_mode s) = true ->
  pre_send s None gctr sai x = (s', Ok (p, x')) ->
  p = mkPlain 0 (ps_peer_sid s) 0 (ps_msg_ctr s) 0 0 /\
  x' = adjust_rel (addr_reliable (ps_addr s)) x /\
  s' = set_msg_ctr s (ps_msg_ctr s + 1) /\ ps_msg_ctr s + 1 < two32.
Proof.
  intros Hm. unfold pre_send.
  destruct (ps_mode s) as [|f|f|f g] eqn:Hmode; try discriminate; cbn [mode_is_group mode_enc andb negb orb].
  - destruct (ps_msg_ctr s + 1 <? two32) eqn:Hc; [|discriminate].
    intro H. injection H as <- <- <-. repeat split; try lia.
  - destruct (ps_msg_ctr s + 1 <? two32) eqn:Hc; [|discriminate].
    intro H. injection H as <- <- <-. repeat split; try lia.
Qed.

(** The sender's session [s] and the receiver's session [r] are the two ends of
    one secure unicast session, and [from] is where the sender's datagrams come
    from. *)
Definition mirrored (s r : psess) (from : addr) : Prop :=
  unicast_secure (ps_mode s) = true /\ mode_enc (ps_mode r) = true /\
  ps_dec_key r = ps_enc_key s /\ ps_local_sid r = ps_peer_sid s /\ ps_peer_sid s <> 0 /\
  node_or0 (ps_peer_node r) = ps_local_node s /\
  addr_eqb (canonical (ps_addr r)) (canonical from) = true /\ ps_reserved r = false.

Lemma mirrored_is_for_rx s r from ctr :
  mirrored s r from -> is_for_rx r from (mkPlain 0 (ps_peer_sid s) 0 ctr 0 0) = true.
Proof.
  intros (Hu & Hmr & Hk & Hsid & Hnz & Hn & Ha & Hres).
  unfold is_for_rx. cbn [p_sess p_flags p_sec p_src p_dst].
  change (plain_get_src (mkPlain 0 (ps_peer_sid s) 0 ctr 0 0)) with (@None N).
  change (plain_get_dst_unicast (mkPlain 0 (ps_peer_sid s) 0 ctr 0 0)) with (@None N).
  change (plain_get_dst_groupcast (mkPlain 0 (ps_peer_sid s) 0 ctr 0 0)) with (@None N).
  rewrite Ha, Hres, Hsid, N.eqb_refl.
  unfold plain_encrypted, plain_group. cbn [p_sess p_sec].
  apply N.eqb_neq in Hnz. rewrite Hnz.
  destruct (ps_mode r); try discriminate Hmr; cbn; rewrite ?orb_true_r; reflexivity.
Qed.

(** What [write_packet] (= [pre_send] then [encode]) of one end of a secure
    unicast session puts on the wire, the other end's [decode_packet] hands to
    [post_recv] with the identical plain header, protocol header and payload. *)
Theorem roundtrip W o s gctr sai x payload s' p x' wire stB from i r :
  world_functional W ->
  psess_wf s -> proto_wf (adjust_rel (addr_reliable (ps_addr s)) x) = true ->
  mirrored s r from ->
  nth_error (st_sessions stB) i = Some r ->
  (forall j t, (j < i)%nat -> nth_error (st_sessions stB) j = Some t ->
               is_for_rx t from (mkPlain 0 (ps_peer_sid s) 0 (ps_msg_ctr s) 0 0) = false) ->
  pre_send s None gctr sai x = (s', Ok (p, x')) ->
  session_encode W s' p x' payload = Ok wire ->
  decode_packet W o stB from wire =
    route_existing stB i r p (adjust_rel (addr_reliable (ps_addr r)) x') payload.
Proof.
  intros Hfun (Hln & Hps & Hls & Hctr & Hpn) Hxwf Hmir Hn Hfirst Hpre Henc.
  pose proof Hmir as (Hu & Hmr & Hk & Hsid & Hnz & Hnode & Ha & Hres).
  destruct (pre_send_unicast_plain s gctr sai x s' p x' Hu Hpre) as (-> & -> & -> & Hc1).
  apply (encode_decode_roundtrip W o (set_msg_ctr s (ps_msg_ctr s + 1)) stB from i r _ _ payload wire);
    try assumption.
  - unfold plain_wf. cbn [p_flags p_sess p_sec p_ctr p_src p_dst].
    apply lt_ltb in Hps. apply lt_ltb in Hctr. rewrite Hps, Hctr. reflexivity.
  - cbn [set_msg_ctr ps_mode]. destruct (ps_mode s); try discriminate; reflexivity.
  - apply find_sess_first; try assumption. apply mirrored_is_for_rx. exact Hmir.
Qed.

(** * The monitor *)

(** what a [true] answer of the monitor means for a delivered datagram *)
Theorem mon_decode_delivered W st from wire ob b :
  mon_decode W st from wire ob = true -> ob_ok ob = Some b ->
  auth_check W st from wire <> AuthNone.
Proof.
  unfold mon_decode. intros Hm Hok Ha. rewrite Ha, Hok in Hm. discriminate.
Qed.

(** and for a datagram that is authentic for nobody *)
Theorem mon_decode_frame W st from wire ob :
  mon_decode W st from wire ob = true -> auth_check W st from wire = AuthNone ->
  ob_ok ob = None /\ ob_changed ob = [] /\ ob_ident_changed ob = false /\ ob_added ob = O /\
  ob_gstore_changed ob = false.
Proof.
  unfold mon_decode. intros Hm Ha. rewrite Ha in Hm.
  repeat (apply andb_prop in Hm; destruct Hm as [Hm ?]).
  repeat split.
  - destruct (ob_ok ob); [discriminate|reflexivity].
  - destruct (ob_changed ob); [reflexivity|discriminate].
  - destruct (ob_ident_changed ob); [discriminate|reflexivity].
  - apply Nat.eqb_eq. assumption.
  - destruct (ob_gstore_changed ob); [discriminate|reflexivity].
Qed.

Lemma plain_eqb_eq a b : plain_eqb a b = true -> a = b.
Proof.
  unfold plain_eqb. intro H. repeat (apply andb_prop in H; destruct H as [H ?]).
  destruct a, b. cbn in *. repeat match goal with Hq : (_ =? _) = true |- _ => apply N.eqb_eq in Hq end.
  congruence.
Qed.

Lemma proto_eqb_eq a b : proto_eqb a b = true -> a = b.
Proof.
  unfold proto_eqb. intro H. repeat (apply andb_prop in H; destruct H as [H ?]).
  destruct a, b. cbn in *. repeat match goal with Hq : (_ =? _) = true |- _ => apply N.eqb_eq in Hq end.
  congruence.
Qed.

(** a delivery the monitor accepts on an established secure session carries
    exactly the fields an honest sealing for that session contains *)
Theorem mon_decode_sound W st from wire ob b i p x payload :
  bytes wire ->
  mon_decode W st from wire ob = true -> ob_ok ob = Some b ->
  auth_check W st from wire = AuthSession i p x payload ->
  ob_plain ob = p /\ ob_proto ob = x /\ ob_payload ob = payload /\
  exists s rest pt x0,
    find_sess (st_sessions st) from p = Some (i, s) /\ wire = plain_encode p ++ rest /\
    proto_decode pt = Ok (x0, payload) /\ x = adjust_rel (addr_reliable (ps_addr s)) x0 /\
    (if mode_enc (ps_mode s) then authentic W s p pt rest else pt = rest).
Proof.
  intros Hb Hm Hok Ha. unfold mon_decode in Hm. rewrite Ha in Hm.
  repeat (apply andb_prop in Hm; destruct Hm as [Hm ?]).
  match goal with Hf : fields_match _ _ _ _ = true |- _ => unfold fields_match in Hf; rewrite Hok in Hf;
    apply andb_prop in Hf; destruct Hf as [Hf ?]; apply andb_prop in Hf; destruct Hf as [Hf ?] end.
  repeat match goal with
  | Hq : plain_eqb _ _ = true |- _ => apply plain_eqb_eq in Hq
  | Hq : proto_eqb _ _ = true |- _ => apply proto_eqb_eq in Hq
  | Hq : bytes_eqb _ _ = true |- _ => apply bytes_eqb_eq in Hq
  end.
  split; [assumption|split; [assumption|split; [assumption|]]].
  destruct (auth_session_sound W st from wire i p x payload Hb Ha)
    as (s & rest & Hf & _ & Hw & _ & pt & x0 & Hpd & Hx & Hau).
  exists s, rest, pt, x0. repeat split; assumption.
Qed.

(** group messages: what a group session seals is authenticated by a receiver
    whose first candidate key for that group is the same operational key, with
    the identical header fields and payload (delivery then only depends on the
    group counter store and on room in the session table) *)
Theorem group_encode_auth W s stB from c others p x payload wire :
  world_functional W ->
  plain_wf p = true -> proto_wf x = true ->
  mode_enc (ps_mode s) = true ->
  session_encode W s p x payload = Ok wire ->
  find_sess (st_sessions stB) from p = None ->
  plain_group p = true -> plain_get_src p = Some (ps_local_node s) ->
  is_none (plain_get_dst_groupcast p) && is_none (plain_get_dst_unicast p) = false ->
  (length wire - length (plain_encode p) <= 1280)%nat ->
  group_cands stB p = c :: others -> gc_key c = ps_enc_key s ->
  auth_check W stB from wire = AuthGroup c p (adjust_rel (addr_reliable from) x) payload.
Proof.
  intros Hfun Hp Hx Hms He Hf Hg Hsrc Hdst Hlen Hc Hk.
  unfold session_encode, sess_enc_key in He. rewrite Hms in He.
  destruct (aead_seal W (sealed_term s p x payload)) as [ct|] eqn:Hs; [|discriminate].
  assert (Hw : plain_encode p ++ ct = wire) by congruence. subst wire. clear He.
  apply aead_seal_sound in Hs. unfold sealed_term in Hs.
  unfold auth_check. rewrite plain_roundtrip by exact Hp.
  rewrite consumed_app, Hf.
  assert (Henc : plain_encrypted p = true) by (unfold plain_encrypted; rewrite Hg; apply orb_true_r).
  rewrite Henc, Hg, Hsrc, Hdst. cbn [negb].
  rewrite app_length in Hlen.
  replace (1280 <? length ct)%nat with false by (symmetry; apply Nat.ltb_ge; lia).
  rewrite Hc. cbn [group_try]. unfold decode_remaining. rewrite Hk.
  rewrite (aead_open_complete W _ _ _ _ _ Hfun Hs).
  rewrite proto_roundtrip by exact Hx. reflexivity.
Qed.

(** * Group data messages on their sender's ephemeral session (repair 6198879) *)

(** a group data message whose counter the sender's entry in the group counter
    store refuses is a [Duplicate] although a session of that sender lives, and
    no session moves *)
Theorem group_replay_rejected W o st from wire i p x payload s fab src :
  auth_check W st from wire = AuthSession i p x payload ->
  find_sess (st_sessions st) from p = Some (i, s) ->
  group_sender s p = Some (fab, src) ->
  snd (g_post_recv (st_gstore st) fab src (p_ctr p)) = false ->
  o_verdict (snd (decode_packet W o st from wire)) = RejGroupDup /\
  st_sessions (fst (decode_packet W o st from wire)) = st_sessions st.
Proof.
  intros Ha Hf Hg Hs.
  destruct (decode_auth_session W o st from wire i p x payload Ha) as (s1 & Hf1 & Hr).
  rewrite Hf in Hf1. injection Hf1 as <-. rewrite Hr.
  unfold route_existing. rewrite Hg.
  destruct (g_post_recv (st_gstore st) fab src (p_ctr p)) as [gs fresh]. cbn [snd] in Hs. subst fresh.
  cbn. split; reflexivity.
Qed.
