(** The inductive invariant of the C07 model, and its preservation by every operation. *)
From Coq Require Import NArith List Bool Lia ZifyN ZifyBool.
From RsM Require Import Model.Lifecycle Model.LifecycleSpec Proofs.LifecycleFacts.
(* -- *)
Import ListNotations.
Open Scope N_scope.

(** incarnation [c] lives at fabric index [i] *)
Definition fab_live (fabs : list fabric) (i c : N) : Prop :=
  exists f, fget i fabs = Some f /\ f_inc f = c.

Record Inv (st : state) : Prop := mkInv {
  (* every persisted fabric is in RAM, same incarnation *)
  inv_kv : forall kf, In kf (st_kvfabs st) -> fab_live (st_fabs st) (f_idx kf) (f_inc kf);
  (* incarnations are fresh and name one index *)
  inv_fresh : forall f, In f (st_fabs st) -> f_inc f < st_ninc st;
  inv_inj : forall f g, In f (st_fabs st) -> In g (st_fabs st) -> f_inc f = f_inc g -> f_idx f = f_idx g;
  (* every table entry carries the incarnation that a lookup of its index finds *)
  inv_idx : forall f, In f (st_fabs st) -> fab_live (st_fabs st) (f_idx f) (f_inc f);
  (* fabric index 0 ("no fabric") is never in the table *)
  inv_idx0 : fget 0 (st_fabs st) = None;
  (* every non-expired session on a fabric index, every record (RAM and persisted), every
     subscription refers to a live fabric of its own incarnation *)
  inv_sess : forall s, In s (st_sess st) -> s_exp s = false -> s_fab s <> 0 ->
             fab_live (st_fabs st) (s_fab s) (s_inc s);
  (* a slot reserved by a handshake in its last step sits on a live fabric of its incarnation *)
  inv_res : forall s, In s (st_sess st) -> s_res s = true ->
            fab_live (st_fabs st) (s_fab s) (s_inc s);
  inv_recs : forall r, In r (st_recs st) -> fab_live (st_fabs st) (r_fab r) (r_inc r);
  inv_kvrecs : forall r, In r (st_kvrecs st) -> fab_live (st_fabs st) (r_fab r) (r_inc r);
  inv_subs : forall u, In u (st_subs st) -> fab_live (st_fabs st) (u_fab u) (u_inc u);
  (* ghost session names are unique *)
  inv_sid : NoDup (map s_id (st_sess st));
  inv_sid_lt : forall s, In s (st_sess st) -> s_id s < st_nsid st
}.

Definition is_expiry (o : op) : bool :=
  match o with OTimeout | OArm0 _ | ORevoke _ => true | _ => false end.

Ltac sp := cbn [st_fabs st_kvfabs st_sess st_recs st_kvrecs st_subs st_fs st_root st_ninc st_nsid
                st_nrid st_nsub set_fabs set_kvfabs set_sess set_recs set_kvrecs set_subs set_fs
                set_root new_session new_record fst snd] in *.

(** ** [fab_live] under the table updates *)
Lemma live_In : forall l i c, fab_live l i c -> exists f, In f l /\ f_idx f = i /\ f_inc f = c.
Proof. intros l i c (f & G & E). apply fget_In in G. exists f. tauto. Qed.

Lemma live_fun : forall l i c d, fab_live l i c -> fab_live l i d -> c = d.
Proof. intros l i c d (f & G & E) (g & G' & E'). congruence. Qed.

Lemma live_fget : forall l i f, fget i l = Some f -> fab_live l i (f_inc f).
Proof. intros l i f G. exists f. auto. Qed.

Lemma live_fdel : forall l i j c, fab_live l i c -> i <> j -> fab_live (fdel j l) i c.
Proof. intros l i j c (f & G & E) H. exists f. rewrite fget_fdel_ne by exact H. auto. Qed.

Lemma live_app : forall l nf i c, fab_live l i c -> fab_live (l ++ [nf]) i c.
Proof. intros l nf i c (f & G & E). exists f. rewrite fget_app1, G. auto. Qed.

Lemma live_app_new : forall l nf, fget (f_idx nf) l = None -> fab_live (l ++ [nf]) (f_idx nf) (f_inc nf).
Proof. intros l nf G. exists nf. rewrite fget_app1, G, N.eqb_refl. auto. Qed.

Lemma live_replace : forall l j fb nf i c,
  fget j l = Some fb -> f_idx nf = j -> f_inc nf = f_inc fb ->
  fab_live l i c -> fab_live (fdel j l ++ [nf]) i c.
Proof.
  intros l j fb nf i c G Hi Hc (f & G' & E). destruct (N.eq_dec i j) as [->|Hne].
  - exists nf. rewrite fget_app1, fget_fdel_eq, Hi, N.eqb_refl. split; [reflexivity|]. congruence.
  - apply live_app. apply live_fdel; [|exact Hne]. exists f. auto.
Qed.

Lemma In_fget_some : forall l f, In f l -> exists g, fget (f_idx f) l = Some g.
Proof.
  intros l f H. destruct (fget (f_idx f) l) as [g|] eqn:G; [eauto|].
  exfalso. exact (fget_none _ _ G f H eq_refl).
Qed.

(** ** The table part of the invariant *)
Definition TInv (l : list fabric) (n : N) : Prop :=
  (forall f, In f l -> f_inc f < n) /\
  (forall f g, In f l -> In g l -> f_inc f = f_inc g -> f_idx f = f_idx g) /\
  (forall f, In f l -> fab_live l (f_idx f) (f_inc f)) /\
  fget 0 l = None.

Definition SInv (fabs : list fabric) (n : N) (l : list session) : Prop :=
  (forall s, In s l -> s_exp s = false -> s_fab s <> 0 -> fab_live fabs (s_fab s) (s_inc s)) /\
  NoDup (map s_id l) /\
  (forall s, In s l -> s_id s < n) /\
  (forall s, In s l -> s_res s = true -> fab_live fabs (s_fab s) (s_inc s)).

(** the session a removal keeps (marked expired) is not a reserved slot *)
Definition keep_unres (keep : option N) (l : list session) : Prop :=
  forall y, In y l -> opt_is keep (s_id y) = true -> s_res y = false.

Lemma Inv_TInv : forall st, Inv st -> TInv (st_fabs st) (st_ninc st).
Proof.
  intros st H. split; [|split; [|split]];
    [apply (inv_fresh _ H)|apply (inv_inj _ H)|apply (inv_idx _ H)|apply (inv_idx0 _ H)].
Qed.

Lemma Inv_SInv : forall st, Inv st -> SInv (st_fabs st) (st_nsid st) (st_sess st).
Proof.
  intros st H. split; [|split; [|split]];
    [apply (inv_sess _ H)|apply (inv_sid _ H)|apply (inv_sid_lt _ H)|apply (inv_res _ H)].
Qed.

Lemma Inv_build : forall st,
  TInv (st_fabs st) (st_ninc st) ->
  (forall kf, In kf (st_kvfabs st) -> fab_live (st_fabs st) (f_idx kf) (f_inc kf)) ->
  SInv (st_fabs st) (st_nsid st) (st_sess st) ->
  (forall r, In r (st_recs st) -> fab_live (st_fabs st) (r_fab r) (r_inc r)) ->
  (forall r, In r (st_kvrecs st) -> fab_live (st_fabs st) (r_fab r) (r_inc r)) ->
  (forall u, In u (st_subs st) -> fab_live (st_fabs st) (u_fab u) (u_inc u)) ->
  Inv st.
Proof.
  intros st (T1 & T2 & T3 & T4) Hkv (S1 & S2 & S3 & S4) Hr Hk Hu. constructor; assumption.
Qed.

Lemma TInv_fdel : forall l n j, TInv l n -> TInv (fdel j l) n.
Proof.
  intros l n j (T1 & T2 & T3 & T4). split; [|split; [|split]].
  - intros f Hf. apply In_fdel in Hf. apply T1. tauto.
  - intros f g Hf Hg. apply In_fdel in Hf, Hg. apply T2; tauto.
  - intros f Hf. apply In_fdel in Hf. destruct Hf as [Hf Hne]. apply live_fdel; auto.
  - rewrite fget_fdel. destruct (0 =? j); [reflexivity|exact T4].
Qed.

Lemma TInv_add : forall l n idx r a,
  TInv l n -> fget idx l = None -> idx <> 0 -> TInv (l ++ [mkFabric idx n r a]) (n + 1).
Proof.
  intros l n idx r a (T1 & T2 & T3 & T4) G H0. split; [|split; [|split]].
  - intros f Hf. apply in_app_iff in Hf. destruct Hf as [Hf|[<-|[]]].
    + specialize (T1 f Hf). lia.
    + cbn [f_inc]. lia.
  - intros f g Hf Hg E. apply in_app_iff in Hf, Hg.
    destruct Hf as [Hf|[<-|[]]], Hg as [Hg|[<-|[]]].
    + auto.
    + specialize (T1 f Hf). cbn [f_inc] in E. exfalso; lia.
    + specialize (T1 g Hg). cbn [f_inc] in E. exfalso; lia.
    + reflexivity.
  - intros f Hf. apply in_app_iff in Hf. destruct Hf as [Hf|[<-|[]]].
    + apply live_app. auto.
    + apply live_app_new. exact G.
  - rewrite fget_app1, T4. cbn [f_idx]. destruct (idx =? 0) eqn:E; [exfalso; lia|reflexivity].
Qed.

Lemma TInv_replace : forall l n j fb nf,
  TInv l n -> fget j l = Some fb -> f_idx nf = j -> f_inc nf = f_inc fb ->
  TInv (fdel j l ++ [nf]) n.
Proof.
  intros l n j fb nf (T1 & T2 & T3 & T4) G Hi Hc.
  pose proof (fget_In _ _ _ G) as [Hfb Hfbi].
  assert (Hin : forall f, In f (fdel j l ++ [nf]) ->
            exists f0, In f0 l /\ f_idx f0 = f_idx f /\ f_inc f0 = f_inc f).
  { intros f Hf. apply in_app_iff in Hf. destruct Hf as [Hf|[<-|[]]].
    - apply In_fdel in Hf. exists f. tauto.
    - exists fb. repeat split; congruence. }
  split; [|split; [|split]].
  - intros f Hf. destruct (Hin f Hf) as (f0 & H0 & _ & <-). auto.
  - intros f g Hf Hg E. destruct (Hin f Hf) as (f0 & Hf0 & <- & Ef).
    destruct (Hin g Hg) as (g0 & Hg0 & <- & Eg). apply T2; congruence.
  - intros f Hf. destruct (Hin f Hf) as (f0 & Hf0 & <- & <-).
    eapply live_replace; eauto.
  - assert (Hj : j <> 0) by (intro Ej; subst j; rewrite Ej in G; congruence).
    rewrite fget_app1, fget_fdel_ne by congruence. rewrite T4.
    destruct (f_idx nf =? 0) eqn:E; [exfalso; lia|reflexivity].
Qed.

Lemma kv_live : forall st i c kf,
  Inv st -> fab_live (st_fabs st) i c -> fget i (st_kvfabs st) = Some kf -> f_inc kf = c.
Proof.
  intros st i c kf H L G. apply fget_In in G. destruct G as [G1 G2].
  pose proof (inv_kv _ H kf G1) as L'. rewrite G2 in L'. eapply live_fun; eauto.
Qed.

Lemma TInv_kv : forall st, Inv st -> TInv (st_kvfabs st) (st_ninc st).
Proof.
  intros st H. split; [|split; [|split]].
  - intros kf Hk. destruct (live_In _ _ _ (inv_kv _ H kf Hk)) as (f & Hf & _ & <-).
    apply (inv_fresh _ H). exact Hf.
  - intros kf kg Hf Hg E.
    destruct (live_In _ _ _ (inv_kv _ H kf Hf)) as (f & Hf' & <- & Ef).
    destruct (live_In _ _ _ (inv_kv _ H kg Hg)) as (g & Hg' & <- & Eg).
    apply (inv_inj _ H); congruence.
  - intros kf Hk. destruct (In_fget_some _ _ Hk) as (kg & G). exists kg. split; [exact G|].
    eapply kv_live; eauto. apply (inv_kv _ H). exact Hk.
  - destruct (fget 0 (st_kvfabs st)) as [kf|] eqn:K; [|reflexivity]. exfalso.
    destruct (fget_In _ _ _ K) as [Hk Hi]. destruct (inv_kv _ H kf Hk) as (f & G & _).
    rewrite Hi, (inv_idx0 _ H) in G. discriminate G.
Qed.

(** ** Session tables *)
Lemma keep_unres_none : forall l, keep_unres None l.
Proof. intros l y _ H. discriminate H. Qed.

Lemma keep_unres_ctx : forall l s,
  NoDup (map s_id l) -> In s l -> usable s = true -> keep_unres (Some (s_id s)) l.
Proof.
  intros l s Hd Hs Hu y Hy Ho. cbn [opt_is] in Ho. apply N.eqb_eq in Ho.
  assert (s = y) by (apply (NoDup_map_In_inj s_id l); auto). subst y.
  unfold usable in Hu. apply andb_true_iff in Hu. destruct Hu as [_ Hu]. apply negb_true_iff in Hu. exact Hu.
Qed.

Lemma keep_unres_remove_pase : forall keep k l, keep_unres k l -> keep_unres k (remove_pase keep l).
Proof.
  intros keep k l H x Hx Ho. apply In_remove_pase in Hx. destruct Hx as (y & Hy & [->| ->]); [auto|].
  cbn [s_res set_exp]. rewrite set_exp_id in Ho. auto.
Qed.

Lemma SInv_mono : forall l l' n n' ss,
  (forall i c, fab_live l i c -> fab_live l' i c) -> n <= n' -> SInv l n ss -> SInv l' n' ss.
Proof.
  intros l l' n n' ss Hm Hn (S1 & S2 & S3 & S4). split; [|split; [|split]]; auto.
  intros s Hs. specialize (S3 s Hs). lia.
Qed.

Lemma SInv_remove_pase : forall l n keep ss, SInv l n ss -> SInv l n (remove_pase keep ss).
Proof.
  intros l n keep ss (S1 & S2 & S3 & S4). split; [|split; [|split]].
  - intros x Hx He Hf. apply In_remove_pase in Hx. destruct Hx as (y & Hy & [->| ->]); [auto|].
    discriminate He.
  - apply ids_remove_pase. exact S2.
  - intros x Hx. apply In_remove_pase in Hx. destruct Hx as (y & Hy & [->| ->]); [auto|].
    rewrite set_exp_id. auto.
  - intros x Hx Hr. apply In_remove_pase in Hx. destruct Hx as (y & Hy & [->| ->]); [auto|].
    cbn [set_exp s_res s_fab s_inc] in *. auto.
Qed.

Lemma SInv_rff : forall l n i keep ss,
  keep_unres keep ss -> SInv l n ss -> SInv (fdel i l) n (remove_for_fabric i keep ss).
Proof.
  intros l n i keep ss Hk (S1 & S2 & S3 & S4). split; [|split; [|split]].
  - intros x Hx He Hf. apply In_remove_for_fabric in Hx.
    destruct Hx as (y & Hy & [[-> Hne]| ->]); [|discriminate He].
    apply live_fdel; auto.
  - apply ids_remove_for_fabric. exact S2.
  - intros x Hx. apply In_remove_for_fabric in Hx.
    destruct Hx as (y & Hy & [[-> Hne]| ->]); [auto|]. rewrite set_exp_id. auto.
  - intros x Hx Hr. apply In_remove_for_fabric_keep in Hx.
    destruct Hx as (y & Hy & [[-> Hne]|[-> Ho]]).
    + apply live_fdel; auto.
    + cbn [set_exp s_res] in Hr. rewrite (Hk y Hy Ho) in Hr. discriminate Hr.
Qed.

Lemma SInv_append : forall l n ss m fab node res inc,
  SInv l n ss -> (fab <> 0 \/ res = true -> fab_live l fab inc) ->
  SInv l (n + 1) (ss ++ [mkSess n m fab node false res inc]).
Proof.
  intros l n ss m fab node res inc (S1 & S2 & S3 & S4) Hl. split; [|split; [|split]].
  - intros x Hx He Hf. apply in_app_iff in Hx. destruct Hx as [Hx|[<-|[]]]; [auto|].
    cbn [s_fab s_inc] in *. auto.
  - rewrite map_app. cbn [map s_id]. apply NoDup_app_one.
    + exact S2.
    + intro Hin. apply in_map_iff in Hin. destruct Hin as (y & Ey & Hy). specialize (S3 y Hy). lia.
  - intros x Hx. apply in_app_iff in Hx. destruct Hx as [Hx|[<-|[]]].
    + specialize (S3 x Hx). lia.
    + cbn [s_id]. lia.
  - intros x Hx Hr. apply in_app_iff in Hx. destruct Hx as [Hx|[<-|[]]]; [auto|].
    cbn [s_fab s_inc s_res] in *. auto.
Qed.

Lemma SInv_upgrade : forall l n ss sid idx inc,
  SInv l n ss -> fab_live l idx inc -> SInv l n (upgrade sid idx inc ss).
Proof.
  intros l n ss sid idx inc (S1 & S2 & S3 & S4) Hl. split; [|split; [|split]].
  - intros x Hx He Hf. apply In_upgrade in Hx. destruct Hx as (y & Hy & [->| ->]); [auto|].
    cbn [s_fab s_inc]. exact Hl.
  - rewrite ids_upgrade. exact S2.
  - intros x Hx. apply In_upgrade in Hx. destruct Hx as (y & Hy & [->| ->]); [auto|].
    cbn [s_id]. auto.
  - intros x Hx Hr. apply In_upgrade in Hx. destruct Hx as (y & Hy & [->| ->]); [auto|].
    cbn [s_fab s_inc]. exact Hl.
Qed.

Lemma SInv_release : forall l n ss sid, SInv l n ss -> SInv l n (release sid ss).
Proof.
  intros l n ss sid (S1 & S2 & S3 & S4). split; [|split; [|split]].
  - intros x Hx He Hf. apply In_release in Hx. destruct Hx as (y & Hy & [->| ->]); [auto|].
    cbn [s_fab s_inc s_exp] in *. auto.
  - rewrite ids_release. exact S2.
  - intros x Hx. apply In_release in Hx. destruct Hx as (y & Hy & [->| ->]); [auto|].
    cbn [s_id]. auto.
  - intros x Hx Hr. apply In_release in Hx. destruct Hx as (y & Hy & [->| ->]); [auto|].
    discriminate Hr.
Qed.

(** ** Operations that leave the tables alone *)
Definition same_core (a b : state) : Prop :=
  st_fabs b = st_fabs a /\ st_kvfabs b = st_kvfabs a /\ st_sess b = st_sess a /\
  st_recs b = st_recs a /\ st_kvrecs b = st_kvrecs a /\ st_subs b = st_subs a /\
  st_ninc b = st_ninc a /\ st_nsid b = st_nsid a.

Lemma same_core_refl : forall a, same_core a a.
Proof. intro a. unfold same_core. repeat split; reflexivity. Qed.

Lemma same_core_trans : forall a b c, same_core a b -> same_core b c -> same_core a c.
Proof. unfold same_core. intros a b c H1 H2. repeat split; intuition congruence. Qed.

Lemma Inv_same_core : forall a b, Inv a -> same_core a b -> Inv b.
Proof.
  intros a b H (E1 & E2 & E3 & E4 & E5 & E6 & E7 & E8). destruct H.
  constructor; rewrite ?E1, ?E2, ?E3, ?E4, ?E5, ?E6, ?E7, ?E8; assumption.
Qed.

Ltac core_tac :=
  repeat (match goal with
          | |- same_core _ (fst (match ?x with _ => _ end)) => destruct x
          end);
  try apply same_core_refl; unfold same_core; sp; repeat split; reflexivity.

Lemma do_csr_core : forall st s u, same_core st (fst (do_csr st s u)).
Proof. intros st s u. unfold do_csr. core_tac. Qed.

Lemma do_root_core : forall st s r, same_core st (fst (do_root st s r)).
Proof. intros st s r. unfold do_root. core_tac. Qed.

Lemma do_updnoc_core : forall st s, same_core st (fst (do_updnoc st s)).
Proof. intros st s. unfold do_updnoc. core_tac. Qed.

(** ** [drop_bound] *)
Lemma drop_bound_inv : forall st i,
  TInv (st_fabs st) (st_ninc st) ->
  (forall kf, In kf (st_kvfabs st) -> fab_live (st_fabs st) (f_idx kf) (f_inc kf)) ->
  SInv (st_fabs st) (st_nsid st) (st_sess st) ->
  (forall r, In r (st_recs st) -> r_fab r <> i -> fab_live (st_fabs st) (r_fab r) (r_inc r)) ->
  (forall u, In u (st_subs st) -> u_fab u <> i -> fab_live (st_fabs st) (u_fab u) (u_inc u)) ->
  Inv (drop_bound repaired i st).
Proof.
  intros st i HT Hk HS Hr Hu. cbn [drop_bound fx_drop_bound repaired]. apply Inv_build; sp; auto.
  - intros r Hin. apply In_recs_drop in Hin. destruct Hin; auto.
  - intros r Hin. apply In_recs_drop in Hin. destruct Hin; auto.
  - intros u Hin. apply In_subs_drop in Hin. destruct Hin; auto.
Qed.

Lemma drop_bound_inv0 : forall st i, Inv st -> Inv (drop_bound repaired i st).
Proof.
  intros st i H. apply drop_bound_inv.
  - apply Inv_TInv; exact H.
  - apply (inv_kv _ H).
  - apply Inv_SInv; exact H.
  - intros r Hr _. apply (inv_recs _ H); exact Hr.
  - intros u Hu _. apply (inv_subs _ H); exact Hu.
Qed.

(** ** [expire] *)
Lemma expire_inv : forall st keep,
  Inv st -> keep_unres keep (st_sess st) -> Inv (expire repaired st keep).
Proof.
  intros st keep H Hkeep. unfold expire.
  destruct (st_fs st) as [|f fl]; [exact H|].
  destruct (f =? 0) eqn:E0.
  { apply Inv_build; sp.
    - apply Inv_TInv; exact H.
    - apply (inv_kv _ H).
    - apply SInv_remove_pase. apply Inv_SInv; exact H.
    - apply (inv_recs _ H).
    - apply (inv_kvrecs _ H).
    - apply (inv_subs _ H). }
  cbv zeta. destruct (fget f (st_kvfabs st)) as [kf|] eqn:K.
  - (* resurrected from the persisted copy (which, by [inv_kv], is also in RAM) *)
    pose proof (fget_In _ _ _ K) as [Hkin Hidx].
    pose proof (inv_kv _ H kf Hkin) as Hl. rewrite Hidx in Hl. destruct Hl as (fb & G & Hinc).
    symmetry in Hinc.
    assert (Hm : forall i c, fab_live (st_fabs st) i c ->
                   fab_live (fdel f (st_fabs st) ++ [kf]) i c).
    { intros i c. eapply live_replace; eauto. }
    apply Inv_build; sp.
    + eapply TInv_replace; eauto. apply Inv_TInv; exact H.
    + intros x Hx. apply Hm. apply (inv_kv _ H); exact Hx.
    + apply SInv_remove_pase. eapply SInv_mono; [exact Hm|apply N.le_refl|]. apply Inv_SInv; exact H.
    + intros x Hx. apply Hm. apply (inv_recs _ H); exact Hx.
    + intros x Hx. apply Hm. apply (inv_kvrecs _ H); exact Hx.
    + intros x Hx. apply Hm. apply (inv_subs _ H); exact Hx.
  - (* rolled back *)
    cbn [fx_expire_sessions repaired]. apply drop_bound_inv; sp.
    + apply TInv_fdel. apply Inv_TInv; exact H.
    + intros x Hx. apply live_fdel; [apply (inv_kv _ H); exact Hx|].
      exact (fget_none _ _ K x Hx).
    + apply SInv_rff; [|apply SInv_remove_pase; apply Inv_SInv; exact H].
      intros y Hy Ho. apply opt_is_keep_if_on in Ho.
      exact (keep_unres_remove_pase keep keep _ Hkeep y Hy Ho).
    + intros x Hx Hne. apply live_fdel; [apply (inv_recs _ H); exact Hx|exact Hne].
    + intros x Hx Hne. apply live_fdel; [apply (inv_subs _ H); exact Hx|exact Hne].
Qed.

(** ** AddNOC *)
Lemma do_addnoc_inv : forall st s, Inv st -> Inv (fst (do_addnoc repaired st s)).
Proof.
  intros st s H. unfold do_addnoc.
  destruct (negb (allowed st s)); [exact H|].
  destruct (st_fs st) as [|f fl] eqn:Efs; [exact H|].
  destruct (negb (f =? s_fab s)); [exact H|].
  destruct (negb (fl_root fl && fl_add_csr fl)); [exact H|].
  destruct (fl_add_noc fl || fl_upd_csr fl || fl_upd_noc fl); [exact H|].
  destruct (existsb _ _); [exact H|].
  destruct (next_idx (st_fabs st)) as [idx|] eqn:En; [|exact H].
  destruct (Nat.leb _ _); [exact H|].
  assert (Hm : forall i c, fab_live (st_fabs st) i c ->
                 fab_live (st_fabs st ++ [mkFabric idx (st_ninc st) (st_root st) 0]) i c).
  { intros i c. apply live_app. }
  assert (HT : TInv (st_fabs st ++ [mkFabric idx (st_ninc st) (st_root st) 0]) (st_ninc st + 1)).
  { apply TInv_add; [apply Inv_TInv; exact H|apply next_idx_free; exact En|apply (next_idx_nonzero _ _ En)]. }
  assert (HS : SInv (st_fabs st ++ [mkFabric idx (st_ninc st) (st_root st) 0]) (st_nsid st) (st_sess st)).
  { eapply SInv_mono; [exact Hm|apply N.le_refl|]. apply Inv_SInv; exact H. }
  destruct (is_pase s); [destruct (s_fab s =? 0)|]; cbn [fst].
  - apply Inv_build; sp; auto.
    + intros x Hx. apply Hm. apply (inv_kv _ H); exact Hx.
    + apply SInv_upgrade; [exact HS|].
      apply (live_app_new (st_fabs st) (mkFabric idx (st_ninc st) (st_root st) 0)).
      apply next_idx_free; exact En.
    + intros x Hx. apply Hm. apply (inv_recs _ H); exact Hx.
    + intros x Hx. apply Hm. apply (inv_kvrecs _ H); exact Hx.
    + intros x Hx. apply Hm. apply (inv_subs _ H); exact Hx.
  - apply drop_bound_inv0. eapply Inv_same_core; [exact H|].
    unfold same_core; sp; repeat split; reflexivity.
  - apply Inv_build; sp; auto.
    + intros x Hx. apply Hm. apply (inv_kv _ H); exact Hx.
    + intros x Hx. apply Hm. apply (inv_recs _ H); exact Hx.
    + intros x Hx. apply Hm. apply (inv_kvrecs _ H); exact Hx.
    + intros x Hx. apply Hm. apply (inv_subs _ H); exact Hx.
Qed.

(** ** New sessions and records *)
Lemma new_session_inv : forall st m fab node inc,
  Inv st -> (fab <> 0 -> fab_live (st_fabs st) fab inc) -> Inv (new_session st m fab node inc).
Proof.
  intros st m fab node inc H Hl. apply Inv_build; sp.
  - apply Inv_TInv; exact H.
  - apply (inv_kv _ H).
  - apply SInv_append; [apply Inv_SInv; exact H|]. intros [Hf|Hf]; [auto|discriminate Hf].
  - apply (inv_recs _ H).
  - apply (inv_kvrecs _ H).
  - apply (inv_subs _ H).
Qed.

Lemma new_reserved_inv : forall st fab node inc,
  Inv st -> fab_live (st_fabs st) fab inc -> Inv (new_reserved st fab node inc).
Proof.
  intros st fab node inc H Hl. unfold new_reserved. apply Inv_build; sp.
  - apply Inv_TInv; exact H.
  - apply (inv_kv _ H).
  - apply SInv_append; [apply Inv_SInv; exact H|]. intros _. exact Hl.
  - apply (inv_recs _ H).
  - apply (inv_kvrecs _ H).
  - apply (inv_subs _ H).
Qed.

Lemma release_inv : forall st sid, Inv st -> Inv (set_sess st (release sid (st_sess st))).
Proof.
  intros st sid H. apply Inv_build; sp.
  - apply Inv_TInv; exact H.
  - apply (inv_kv _ H).
  - apply SInv_release. apply Inv_SInv; exact H.
  - apply (inv_recs _ H).
  - apply (inv_kvrecs _ H).
  - apply (inv_subs _ H).
Qed.

Lemma new_record_inv : forall st fab node inc,
  Inv st -> fab_live (st_fabs st) fab inc -> Inv (new_record st fab node inc).
Proof.
  intros st fab node inc H Hl. apply Inv_build; sp.
  - apply Inv_TInv; exact H.
  - apply (inv_kv _ H).
  - apply Inv_SInv; exact H.
  - intros r Hr. apply In_rec_insert in Hr. destruct Hr as [->|Hr]; [exact Hl|].
    apply (inv_recs _ H); exact Hr.
  - apply (inv_kvrecs _ H).
  - apply (inv_subs _ H).
Qed.

Lemma establish_inv : forall st f node,
  Inv st -> fab_live (st_fabs st) (f_idx f) (f_inc f) -> Inv (fst (establish st f node)).
Proof.
  intros st f node H Hl. unfold establish. destruct (table_full st); [exact H|]. cbn [fst].
  apply new_record_inv; [apply new_session_inv; auto|exact Hl].
Qed.

(** ** Boot *)
Lemma boot_inv : forall st, Inv st -> Inv (boot repaired st).
Proof.
  intros st H. pose proof (TInv_kv _ H) as HT. unfold boot.
  cbn [fx_startup_recs fx_startup_subs repaired]. apply Inv_build; sp.
  - exact HT.
  - apply HT.
  - split; [|split; [|split]]; [intros s []|constructor|intros s []|intros s []].
  - intros r Hr. apply filter_In in Hr. destruct Hr as [Hr Hf]. apply has_fab_true in Hf.
    destruct Hf as (kf & K). exists kf. split; [exact K|].
    eapply kv_live; eauto. apply (inv_kvrecs _ H); exact Hr.
  - intros r Hr. apply filter_In in Hr. destruct Hr as [Hr Hf]. apply has_fab_true in Hf.
    destruct Hf as (kf & K). exists kf. split; [exact K|].
    eapply kv_live; eauto. apply (inv_kvrecs _ H); exact Hr.
  - intros u Hu. apply filter_In in Hu. destruct Hu as [Hu Hf]. apply has_fab_true in Hf.
    destruct Hf as (kf & K). exists kf. split; [exact K|].
    eapply kv_live; eauto. apply (inv_subs _ H); exact Hu.
Qed.

(** ** RemoveFabric on session [s] *)
Lemma remove_fabric_inv : forall st s i,
  Inv st -> In s (st_sess st) -> usable s = true -> Inv (fst (remove_fabric repaired st s i)).
Proof.
  intros st s i H Hin Hu. unfold remove_fabric.
  destruct (negb (allowed st s)); [exact H|].
  destruct (i =? 0); [exact H|].
  destruct (fget i (st_fabs st)) as [fb|] eqn:G; [|exact H].
  cbn [fst]. apply drop_bound_inv; sp.
  - apply TInv_fdel. apply Inv_TInv; exact H.
  - intros x Hx. apply In_fdel in Hx. destruct Hx as [Hx Hne].
    apply live_fdel; [apply (inv_kv _ H); exact Hx|exact Hne].
  - apply SInv_rff; [|apply Inv_SInv; exact H].
    destruct (s_fab s =? i); [|apply keep_unres_none].
    apply keep_unres_ctx; [apply (inv_sid _ H)|exact Hin|exact Hu].
  - intros x Hx Hne. apply In_recs_drop in Hx. destruct Hx as [Hx _].
    apply live_fdel; [apply (inv_recs _ H); exact Hx|exact Hne].
  - intros x Hx Hne. apply live_fdel; [apply (inv_subs _ H); exact Hx|exact Hne].
Qed.

(** ** The reporter's purge phase, and a subscription committed late *)
Lemma purge_inv : forall st, Inv st -> Inv (purge st).
Proof.
  intros st H. unfold purge. apply Inv_build; sp.
  - apply Inv_TInv; exact H.
  - apply (inv_kv _ H).
  - apply Inv_SInv; exact H.
  - apply (inv_recs _ H).
  - apply (inv_kvrecs _ H).
  - intros u Hu. apply filter_In in Hu. apply (inv_subs _ H). tauto.
Qed.

Lemma commit_sub_inv : forall st sid,
  Inv st ->
  (forall x, sget sid (st_sess st) = Some x -> s_exp x = true ->
             has_fab (st_fabs st) (s_fab x) = false) ->
  Inv (commit_sub st sid).
Proof.
  intros st sid H Hk. unfold commit_sub.
  destruct (sget sid (st_sess st)) as [x|] eqn:G; [|exact H].
  destruct (Nat.leb _ _); [exact H|]. unfold purge. apply Inv_build; sp.
  - apply Inv_TInv; exact H.
  - apply (inv_kv _ H).
  - apply Inv_SInv; exact H.
  - apply (inv_recs _ H).
  - apply (inv_kvrecs _ H).
  - intros u Hu. apply filter_In in Hu. destruct Hu as [Hu Hf]. apply in_app_iff in Hu.
    destruct Hu as [Hu|[<-|[]]]; [apply (inv_subs _ H); exact Hu|]. cbn [u_fab u_inc] in *.
    destruct (sget_In _ _ _ G) as [Hin _].
    destruct (s_exp x) eqn:He.
    + rewrite (Hk x eq_refl He) in Hf. discriminate Hf.
    + apply (inv_sess _ H); [exact Hin|exact He|]. intro E0. rewrite E0 in Hf.
      unfold has_fab in Hf. rewrite (inv_idx0 _ H) in Hf. discriminate Hf.
Qed.

(** a CASE session that was usable: after an expiry that keeps it, the session of that name
    is unchanged or (expired) sits on the index whose fabric the expiry has just deleted *)
Lemma rp_same : forall keep l s x,
  NoDup (map s_id l) -> In s l -> is_case s = true ->
  In x (remove_pase keep l) -> s_id x = s_id s -> x = s.
Proof.
  intros keep l s x Hd Hs Hc Hx Hid. apply In_remove_pase_pase in Hx.
  destruct Hx as (y & Hy & [->|[-> Hp]]).
  - apply (NoDup_map_In_inj s_id l); auto.
  - rewrite set_exp_id in Hid. assert (y = s) by (apply (NoDup_map_In_inj s_id l); auto). subst y.
    unfold is_case in Hc. unfold is_pase in Hp. destruct (s_mode s); discriminate.
Qed.

Lemma expire_kept : forall st s,
  Inv st -> In s (st_sess st) -> usable s = true -> is_case s = true ->
  forall x, In x (st_sess (expire repaired st (Some (s_id s)))) -> s_id x = s_id s ->
    s_exp x = true -> has_fab (st_fabs (expire repaired st (Some (s_id s)))) (s_fab x) = false.
Proof.
  intros st s H Hs Hu Hc. destruct (usable_flags _ Hu) as [Hexp _].
  pose proof (inv_sid _ H) as Hd. unfold expire.
  destruct (st_fs st) as [|f fl].
  { intros x Hx Hid He. assert (x = s) by (apply (NoDup_map_In_inj s_id (st_sess st)); auto). congruence. }
  destruct (f =? 0).
  { sp. intros x Hx Hid He. rewrite (rp_same _ _ _ _ Hd Hs Hc Hx Hid) in He. congruence. }
  cbv zeta. destruct (fget f (st_kvfabs st)) as [kf|].
  { sp. intros x Hx Hid He. rewrite (rp_same _ _ _ _ Hd Hs Hc Hx Hid) in He. congruence. }
  cbn [drop_bound fx_drop_bound fx_expire_sessions repaired]. sp. intros x Hx Hid He.
  apply In_remove_for_fabric_keep in Hx. destruct Hx as (y & Hy & [[-> Hne]|[-> Ho]]).
  - rewrite (rp_same _ _ _ _ Hd Hs Hc Hy Hid) in He. congruence.
  - rewrite set_exp_id in Hid. pose proof (rp_same _ _ _ _ Hd Hs Hc Hy Hid) as ->.
    destruct (keep_if_on f (Some (s_id s)) (remove_pase (Some (s_id s)) (st_sess st))) as [k|] eqn:Ek;
      [|discriminate Ho].
    cbn [opt_is] in Ho. apply N.eqb_eq in Ho. subst k.
    destruct (keep_if_on_some _ _ _ _ Ek) as (s' & Hs' & Hid' & Hf').
    pose proof (rp_same _ _ _ _ Hd Hs Hc Hs' Hid') as ->.
    cbn [set_exp s_fab]. rewrite Hf'. unfold has_fab. rewrite fget_fdel_eq. reflexivity.
Qed.

Lemma remove_fabric_kept : forall st s i,
  Inv st -> In s (st_sess st) -> usable s = true ->
  forall x, In x (st_sess (fst (remove_fabric repaired st s i))) -> s_id x = s_id s ->
    s_exp x = true -> has_fab (st_fabs (fst (remove_fabric repaired st s i))) (s_fab x) = false.
Proof.
  intros st s i H Hs Hu. destruct (usable_flags _ Hu) as [Hexp _].
  pose proof (inv_sid _ H) as Hd.
  assert (Hsame : forall x, In x (st_sess st) -> s_id x = s_id s -> s_exp x = true ->
                    has_fab (st_fabs st) (s_fab x) = false).
  { intros x Hx Hid He. assert (x = s) by (apply (NoDup_map_In_inj s_id (st_sess st)); auto). congruence. }
  unfold remove_fabric.
  destruct (negb (allowed st s)); [exact Hsame|].
  destruct (i =? 0); [exact Hsame|].
  destruct (fget i (st_fabs st)) as [fb|]; [|exact Hsame].
  cbn [fst drop_bound fx_drop_bound repaired]. sp. intros x Hx Hid He.
  apply In_remove_for_fabric_keep in Hx. destruct Hx as (y & Hy & [[-> Hne]|[-> Ho]]).
  - assert (y = s) by (apply (NoDup_map_In_inj s_id (st_sess st)); auto). congruence.
  - rewrite set_exp_id in Hid.
    assert (y = s) by (apply (NoDup_map_In_inj s_id (st_sess st)); auto). subst y.
    destruct (s_fab s =? i) eqn:E; [|discriminate Ho]. apply N.eqb_eq in E.
    cbn [set_exp s_fab]. rewrite E. unfold has_fab. rewrite fget_fdel_eq. reflexivity.
Qed.

Ltac core_eq := unfold same_core; sp; repeat split; reflexivity.

Ltac inv_fields H :=
  first [ apply (inv_kv _ H) | apply (inv_recs _ H) | apply (inv_kvrecs _ H) | apply (inv_subs _ H)
        | apply (Inv_TInv _ H) | apply (Inv_SInv _ H) ].

(** ** Every operation keeps the invariant *)
Theorem invariant_step : forall st o, Inv st -> Inv (fst (step st o)).
Proof.
  intros st o H. unfold step.
  destruct o as [sid|sid r|sid|sid|sid i| |sid|sid|r|i node|i|k| | | |sid k|sid| |r|k|sid|sid|sid|sid i]; cbn [step_fx]; cbv zeta.
  - (* OArm *)
    destruct (sess_ctx st sid) as [s|] eqn:C; [|exact H].
    destruct (negb (allowed st s)); [exact H|].
    destruct (st_fs st) as [|f fl]; [|destruct (f =? s_fab s); exact H].
    cbn [fst]. eapply Inv_same_core; [exact H|core_eq].
  - (* OAddNoc *)
    destruct (sess_ctx st sid) as [s|] eqn:C; [|exact H].
    apply do_addnoc_inv. eapply Inv_same_core; [|apply do_root_core].
    eapply Inv_same_core; [exact H|apply do_csr_core].
  - (* OUpdNoc *)
    destruct (sess_ctx st sid) as [s|] eqn:C; [|exact H].
    eapply Inv_same_core; [|apply do_updnoc_core].
    eapply Inv_same_core; [exact H|apply do_csr_core].
  - (* OComplete *)
    destruct (sess_ctx st sid) as [s|] eqn:C; [|exact H].
    destruct (s_fab s =? 0); [exact H|].
    destruct (negb (allowed st s)); [exact H|].
    destruct (st_fs st) as [|f fl]; [exact H|].
    destruct (negb (f =? s_fab s)); [exact H|].
    destruct (is_pase s); [exact H|].
    destruct (fget (s_fab s) (st_fabs st)) as [fb|] eqn:G; [|exact H].
    cbn [fst]. apply Inv_build; sp; try inv_fields H.
    + intros x Hx. unfold fset in Hx. apply in_app_iff in Hx. destruct Hx as [Hx|[<-|[]]].
      * apply In_fdel in Hx. apply (inv_kv _ H). tauto.
      * destruct (fget_In _ _ _ G) as [_ Hi]. rewrite Hi. apply live_fget. exact G.
    + apply SInv_remove_pase. inv_fields H.
  - (* ORemove *)
    destruct (sess_ctx st sid) as [s|] eqn:C; [|exact H].
    destruct (sess_ctx_some _ _ _ C) as (_ & Hu & Hin & _ & _).
    apply remove_fabric_inv; assumption.
  - (* OTimeout *)
    cbn [fst]. apply expire_inv; [exact H|apply keep_unres_none].
  - (* OArm0 *)
    destruct (sess_ctx st sid) as [s|] eqn:C; [|exact H].
    destruct (negb (allowed st s)); [exact H|].
    destruct (sess_ctx_some _ _ _ C) as (_ & Hu & Hin & _ & _).
    cbn [fst]. apply expire_inv; [exact H|].
    apply keep_unres_ctx; [apply (inv_sid _ H)|exact Hin|exact Hu].
  - (* ORevoke *)
    destruct (sess_ctx st sid) as [s|] eqn:C; [|exact H].
    destruct (negb (allowed st s)); [exact H|].
    destruct (sess_ctx_some _ _ _ C) as (_ & Hu & Hin & _ & _).
    cbn [fst]. apply expire_inv; [exact H|].
    apply keep_unres_ctx; [apply (inv_sid _ H)|exact Hin|exact Hu].
  - (* OEstablish *)
    destruct (find (fun f => f_root f =? r) (st_fabs st)) as [f|] eqn:F; [|exact H].
    apply establish_inv; [exact H|]. apply find_some in F. apply (inv_idx _ H). tauto.
  - (* OPeer *)
    destruct (fget i (st_fabs st)) as [f|] eqn:G; [|exact H].
    apply establish_inv; [exact H|]. destruct (fget_In _ _ _ G) as [_ Hi]. rewrite Hi.
    apply live_fget; exact G.
  - (* OGroup *)
    destruct (fget i (st_fabs st)) as [f|] eqn:G; [|exact H].
    destruct (table_full st); [exact H|]. cbn [fst]. apply new_session_inv; [exact H|].
    intros _. destruct (fget_In _ _ _ G) as [_ Hi]. rewrite Hi. apply live_fget; exact G.
  - (* OResume *)
    destruct (rget k (st_recs st)) as [r|] eqn:R; [|exact H].
    destruct (fget (r_fab r) (st_fabs st)) as [f|] eqn:G; [|exact H].
    destruct (table_full st); [exact H|]. cbn [fst].
    destruct (rget_In _ _ _ R) as [Hr _]. pose proof (inv_recs _ H r Hr) as Hl.
    apply new_record_inv; [apply new_session_inv; auto|exact Hl].
  - (* OPersist *)
    cbn [fst]. apply Inv_build; sp; inv_fields H.
  - (* ORestart *)
    cbn [fst]. apply boot_inv; exact H.
  - (* OReport *)
    cbn [fst]. apply purge_inv; exact H.
  - (* ORequest *)
    destruct (sess_ctx st sid) as [s|] eqn:C; [|exact H].
    destruct (s_fab s =? 0); [exact H|].
    destruct (negb (allowed st s)); [exact H|].
    destruct (fget (s_fab s) (st_fabs st)) as [fb|] eqn:G; [|exact H].
    destruct (fget_In _ _ _ G) as [Hfb Hi].
    set (nf := mkFabric (f_idx fb) (f_inc fb) (f_root fb) k).
    assert (G' : fget (f_idx nf) (st_fabs st) = Some fb) by (cbn [nf f_idx]; rewrite Hi; exact G).
    assert (Hm : forall i c, fab_live (st_fabs st) i c -> fab_live (fset nf (st_fabs st)) i c).
    { intros i c. unfold fset. eapply live_replace; eauto. }
    assert (HT : TInv (fset nf (st_fabs st)) (st_ninc st)).
    { unfold fset. eapply TInv_replace; eauto. inv_fields H. }
    assert (HS : SInv (fset nf (st_fabs st)) (st_nsid st) (st_sess st)).
    { eapply SInv_mono; [exact Hm|apply N.le_refl|]. inv_fields H. }
    destruct (match st_fs st with Idle => false | Armed f _ => f =? s_fab s end); cbn [fst];
      apply Inv_build; sp; auto;
      try (intros x Hx; apply Hm;
           first [apply (inv_kv _ H); exact Hx|apply (inv_recs _ H); exact Hx
                 |apply (inv_kvrecs _ H); exact Hx|apply (inv_subs _ H); exact Hx]).
    intros x Hx. unfold fset in Hx at 1. apply in_app_iff in Hx. destruct Hx as [Hx|[<-|[]]].
    + apply In_fdel in Hx. apply Hm. apply (inv_kv _ H). tauto.
    + exists nf. split; [apply fget_fset_eq|reflexivity].
  - (* OSubscribe *)
    destruct (sess_ctx st sid) as [s|] eqn:C; [|exact H].
    destruct (s_fab s =? 0) eqn:E0; [exact H|].
    destruct (negb (can_view st s)); [exact H|].
    destruct (Nat.leb _ _); [exact H|].
    cbn [fst]. apply Inv_build; sp; try inv_fields H.
    intros u Hu. apply in_app_iff in Hu. destruct Hu as [Hu|[<-|[]]]; [apply (inv_subs _ H); exact Hu|].
    cbn [u_fab u_inc]. destruct (sess_ctx_some _ _ _ C) as (_ & _ & Hin & _ & Hexp).
    apply (inv_sess _ H); auto. apply N.eqb_neq. exact E0.
  - (* ONewPase *)
    destruct (table_full st); [exact H|]. cbn [fst]. apply new_session_inv; [exact H|].
    intro Hc. exfalso; apply Hc; reflexivity.
  - (* OEstablishBegin *)
    destruct (find (fun f => f_root f =? r) (st_fabs st)) as [f|] eqn:F; [|exact H].
    destruct (table_full st); [exact H|]. cbn [fst].
    assert (Hl : fab_live (st_fabs st) (f_idx f) (f_inc f)).
    { apply find_some in F. apply (inv_idx _ H). tauto. }
    apply new_record_inv; [apply new_reserved_inv; auto|exact Hl].
  - (* OResumeBegin *)
    destruct (rget k (st_recs st)) as [r|] eqn:R; [|exact H].
    destruct (fget (r_fab r) (st_fabs st)) as [f|] eqn:G; [|exact H].
    destruct (table_full st); [exact H|]. cbn [fst].
    destruct (rget_In _ _ _ R) as [Hr _]. apply new_reserved_inv; [exact H|].
    apply (inv_recs _ H); exact Hr.
  - (* OFinishFull *)
    destruct (sget sid (st_sess st)) as [s|] eqn:G; [|exact H].
    destruct (s_res s); [|exact H]. cbn [fst]. apply release_inv; exact H.
  - (* OFinishResume *)
    destruct (sget sid (st_sess st)) as [s|] eqn:G; [|exact H].
    destruct (s_res s) eqn:Er; [|exact H]. cbn [fst].
    destruct (sget_In _ _ _ G) as [Hin _].
    apply new_record_inv; [apply release_inv; exact H|]. sp. apply (inv_res _ H); assumption.
  - (* OSubscribeDue *)
    destruct (sess_ctx st sid) as [s|] eqn:C; [|exact H].
    destruct (sess_ctx_some _ _ _ C) as (_ & Hu & Hin & Hid & _).
    destruct (negb (is_case s)) eqn:Ec; [exact H|]. apply negb_false_iff in Ec. cbn [fst].
    apply commit_sub_inv.
    + apply expire_inv; [exact H|]. apply keep_unres_ctx; [apply (inv_sid _ H)|exact Hin|exact Hu].
    + intros x Gx He. destruct (sget_In _ _ _ Gx) as [Hx Hxid].
      apply (expire_kept st s H Hin Hu Ec x Hx); [congruence|exact He].
  - (* OSubscribeRemove *)
    destruct (sess_ctx st sid) as [s|] eqn:C; [|exact H].
    destruct (sess_ctx_some _ _ _ C) as (_ & Hu & Hin & Hid & _).
    destruct (negb (is_case s)); [exact H|].
    destruct (negb (can_view st s)); [exact H|].
    pose proof (remove_fabric_inv st s i H Hin Hu) as H1.
    pose proof (remove_fabric_kept st s i H Hin Hu) as Hk.
    destruct (remove_fabric repaired st s i) as [st1 r1]. cbn [fst] in *.
    apply commit_sub_inv; [exact H1|].
    intros x Gx He. destruct (sget_In _ _ _ Gx) as [Hx Hxid].
    apply (Hk x Hx); [congruence|exact He].
Qed.

Theorem invariant_exec : forall st ops, Inv st -> Inv (exec st ops).
Proof.
  intros st ops. revert st. induction ops as [|o ops IH]; intros st H; [exact H|].
  unfold exec in *. cbn [exec_fx]. apply IH. apply (invariant_step st o H).
Qed.

(** ** The invariant implies the property *)
Theorem inv_bound : forall st, Inv st -> bound_to_incarnation st.
Proof.
  intros st H. unfold bound_to_incarnation. repeat split.
  - intros s Hs Hu. unfold sess_bound. destruct (N.eq_dec (s_fab s) 0) as [E|E]; [left; exact E|right].
    unfold usable in Hu. apply andb_true_iff in Hu. destruct Hu as [Hu _]. apply negb_true_iff in Hu.
    destruct (inv_sess _ H s Hs Hu E) as (f & G & Ef). unfold cur_inc. rewrite G, Ef. reflexivity.
  - intros r Hr f G. destruct (inv_recs _ H r Hr) as (g & G' & E). congruence.
  - intros u Hu f G. destruct (inv_subs _ H u Hu) as (g & G' & E). congruence.
  - intros r Hr f G. eapply kv_live; eauto. apply (inv_kvrecs _ H); exact Hr.
Qed.

(** ** The initial states *)
Ltac in_cases :=
  repeat match goal with
  | H : In _ (_ :: _) |- _ => destruct H as [H|H]; [subst|]
  | H : In _ [] |- _ => destruct H
  | H : _ = _ |- _ => discriminate H
  end.

Theorem invariant_init : forall kind pase, Inv (init_state kind pase).
Proof.
  intros kind pase. unfold init_state, init_fabs.
  destruct (kind =? 1); [|destruct (kind =? 3); [|destruct (kind =? 4)]];
    destruct pase; cbn [map length app N.of_nat f_inc f_idx];
    (constructor; sp;
     [ intros kf Hk; in_cases; (eexists; split; [reflexivity|reflexivity])
     | intros f Hf; in_cases; reflexivity
     | intros f g Hf Hg E; in_cases; cbn [f_inc f_idx] in *; try reflexivity; discriminate E
     | intros f Hf; in_cases; (eexists; split; [reflexivity|reflexivity])
     | reflexivity
     | intros s Hs He Hn; in_cases; cbn [s_fab s_inc] in *;
       try (exfalso; apply Hn; reflexivity); (eexists; split; [reflexivity|reflexivity])
     | intros s Hs Hr; in_cases; try discriminate Hr
     | intros r []
     | intros r []
     | intros u []
     | cbn [map s_id]; repeat constructor; cbn [In]; intuition discriminate
     | intros s Hs; in_cases; reflexivity ]).
Qed.
