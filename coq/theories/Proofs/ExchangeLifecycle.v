(** The life cycle of an exchange slot: which label can change the
    (exchange id, role) of a slot, and how.  Gives the new-exchange gate, the
    absorbing Dropped state and "owned only through accept / initiate" at the
    level of the whole transport model. *)
From RsM Require Import Lib.MachInt Model.Dedup Model.Mrp Model.Exchange
  Proofs.ExchangeFacts Proofs.ExchangeSys.
From Coq Require Import ZifyN ZifyBool Lia Bool PeanoNat.
Open Scope N_scope.

Arguments N.ltb : simpl never.
Arguments N.leb : simpl never.
Arguments N.eqb : simpl never.
Arguments N.add : simpl never.

Definition oview (o : option (option exch)) : option (N * role) :=
  match o with Some (Some e) => Some (e_id e, e_role e) | _ => None end.

Definition view (se : session) (i : nat) : option (N * role) := oview (nth_error (s_exchs se) i).

(** [key], [expired]: the session the slot belongs to *)
Inductive lifecycle (l : label) (key : N) (expired : bool) : option (N * role) -> option (N * role) -> Prop :=
| LcSame o : lifecycle l key expired o o
| LcOpen m :
    l = LRx m -> m_key m = key -> m_init m = true -> is_new_exchange (m_op m) = true -> expired = false ->
    lifecycle l key expired None (Some (m_exid m, RespPending))
| LcInitiate sid exid :
    l = LInitiate sid exid -> lifecycle l key expired None (Some (exid, InitOwned))
| LcAccept id :
    l = LAccept -> lifecycle l key expired (Some (id, RespPending)) (Some (id, RespOwned))
| LcTimeout id :
    l = LSweepAccept -> lifecycle l key expired (Some (id, RespPending)) (Some (id, RespDropped))
| LcDrop id r sid idx :
    l = LDropExch sid idx -> is_owned r = true ->
    lifecycle l key expired (Some (id, r)) (Some (id, set_dropped r))
| LcDropFree id r sid idx :
    l = LDropExch sid idx -> is_owned r = true -> lifecycle l key expired (Some (id, r)) None
| LcClose id r :
    l = LCloseDropped -> is_dropped r = true -> lifecycle l key expired (Some (id, r)) None.

Lemma view_set_nth se l' i o j :
  s_exchs se = l' -> True ->
  oview (nth_error (set_nth l' i o) j) =
  if (i =? j)%nat then (if (i <? length l')%nat then oview (Some o) else None) else oview (nth_error l' j).
Proof.
  intros _ _. rewrite nth_error_set_nth. destruct (i =? j)%nat; [|reflexivity].
  destruct (i <? length l')%nat; reflexivity.
Qed.

Lemma post_recv_lifecycle se m t se' r :
  session_post_recv se m t = (se', r) -> s_key se = m_key m ->
  forall i, lifecycle (LRx m) (s_key se) (s_expired se) (view se i) (view se' i).
Proof.
  intros H Hk j. unfold view.
  destruct (session_post_recv_cases _ _ _ _ _ H) as [[_ [_ E]]|[_ [C|C]]].
  - rewrite E. constructor.
  - destruct C as [i [e [Hf [[e' [He [_ E]]]|[_ [_ E]]]]]]; rewrite E; [|constructor].
    destruct (find_exch_some _ _ _ _ Hf) as [Hn _].
    destruct (exch_post_recv_role _ _ _ _ _ He) as [Hid Hro].
    rewrite nth_error_set_nth. destruct (Nat.eqb_spec i j) as [->|Hne]; [|constructor].
    assert (Hlt : (j < length (s_exchs se))%nat) by (apply nth_error_Some; congruence).
    destruct (Nat.ltb_spec j (length (s_exchs se))); [|lia]. rewrite Hn. cbn. rewrite Hid, Hro. constructor.
  - destruct C as [_ [[_ [_ E]]|[[_ [_ [_ [_ E]]]]|[[_ [_ [_ [_ [_ E]]]]]|C]]]]; try (rewrite E; constructor).
    destruct C as [Hi [Hn [Hex [l' [i [e' [Ha [He [_ E]]]]]]]]]. rewrite E.
    destruct (add_exch_some _ _ _ _ Ha) as [Hni [Hoth [Hfree _]]].
    destruct (exch_post_recv_role _ _ _ _ _ He) as [Hid Hro]. cbn in Hid, Hro.
    rewrite nth_error_set_nth. destruct (Nat.eqb_spec i j) as [->|Hne].
    + assert (Hlt : (j < length l')%nat) by (apply nth_error_Some; congruence).
      destruct (Nat.ltb_spec j (length l')); [|lia]. cbn [oview]. rewrite Hid, Hro.
      assert (Hv : oview (nth_error (s_exchs se) j) = None) by (destruct Hfree as [-> | ->]; reflexivity).
      rewrite Hv. apply (LcOpen _ _ _ m); try reflexivity; try assumption. symmetry. exact Hk.
    + rewrite (Hoth j) by congruence. constructor.
Qed.

Definition from_old (l : label) (ss : list session) (se' : session) : Prop :=
  exists se, In se ss /\ s_id se' = s_id se /\ s_key se' = s_key se /\
    forall i, lifecycle l (s_key se) (s_expired se) (view se i) (view se' i).

Definition brand_new (l : label) (ss : list session) (se' : session) : Prop :=
  (forall se, In se ss -> s_id se <> s_id se') /\
  forall i, lifecycle l (s_key se') false None (view se' i).

Lemma from_old_self l ss se : In se ss -> from_old l ss se.
Proof. intros H. exists se. repeat split; try exact H. intros i. constructor. Qed.

Lemma from_old_upd l ss sid f se' :
  (forall se, In se ss -> s_id se = sid ->
     s_id (f se) = s_id se /\ s_key (f se) = s_key se /\
     forall i, lifecycle l (s_key se) (s_expired se) (view se i) (view (f se) i)) ->
  In se' (upd_sid ss sid f) -> from_old l ss se'.
Proof.
  intros Hf Hin. destruct (in_upd_sid _ _ _ _ Hin) as [se [Hse [[E ->]|[E ->]]]].
  - destruct (Hf se Hse E) as [A [B C]]. exists se. repeat split; assumption.
  - apply from_old_self. exact Hse.
Qed.

(** a single slot of the (unique) session [se] changes *)
Lemma from_old_slot l ss se i0 o se' :
  NoDup (map s_id ss) -> In se ss ->
  (forall x, nth_error (s_exchs se) i0 = Some x ->
     lifecycle l (s_key se) (s_expired se) (oview (Some x)) (oview (Some o))) ->
  In se' (upd_sid ss (s_id se) (fun x => set_exchs x (set_nth (s_exchs x) i0 o))) ->
  from_old l ss se'.
Proof.
  intros Hnd Hse Hlc Hin0. eapply from_old_upd; [|exact Hin0]. intros y Hy Ey.
  assert (y = se) by (eapply nodup_sid_unique; eassumption). subst y.
  repeat split. intros j. unfold view. simp_sess. rewrite nth_error_set_nth.
  destruct (Nat.eqb_spec i0 j) as [->|Hne]; [|constructor].
  destruct (Nat.ltb_spec j (length (s_exchs se))) as [Hlt|Hge].
  - destruct (nth_error (s_exchs se) j) as [x|] eqn:Hx; [apply (Hlc x eq_refl)|].
    apply nth_error_None in Hx. lia.
  - assert (Hx : nth_error (s_exchs se) j = None) by (apply nth_error_None; exact Hge).
    rewrite Hx. constructor.
Qed.

Lemma from_old_expire l ss ss1 sid :
  (forall se', In se' ss1 -> from_old l ss se') ->
  forall se', In se' (upd_sid ss1 sid set_expired) -> from_old l ss se'.
Proof.
  intros H se' Hin. destruct (in_upd_sid _ _ _ _ Hin) as [y [Hy [[_ ->]|[_ ->]]]]; [|apply H; exact Hy].
  destruct (H y Hy) as [se [Hse [E1 [E2 L]]]]. exists se. repeat split; assumption.
Qed.

Theorem slot_lifecycle s l s' ev :
  Inv s -> step false s l = Some (s', ev) ->
  forall se', In se' (sessions s') -> from_old l (sessions s) se' \/ brand_new l (sessions s) se'.
Proof.
  intros I. destruct l as [m| |sid idx|sid idx|sid idx|sid idx ctr rel|sid exid| | | |key enc grp|sid|sid|d];
    cbn [step].
  - (* LRx *)
    destruct (rx s); try discriminate. intros H; inversion H as [H1]; clear H.
    (* the final group clean-up only removes a session *)
    assert (Hcore : forall s1 ev1, do_rx_core s m = (s1, ev1) ->
              forall se', In se' (sessions s1) -> from_old (LRx m) (sessions s) se' \/ brand_new (LRx m) (sessions s) se').
    2:{ revert H1. unfold do_rx. destruct (do_rx_core s m) as [s1 ev1] eqn:E.
        destruct (rx_sid s m) as [sid|]; [|intros H; inversion H; subst; eapply Hcore; reflexivity].
        destruct (m_group m && negb (is_holding (rx s1))); intros H; inversion H; subst;
          [|eapply Hcore; reflexivity].
        simp_sys. intros se' Hin. eapply Hcore; [reflexivity|]. eapply in_group_gc. exact Hin. }
    clear H1. intros s1 ev1 H1. revert H1. unfold do_rx_core.
    (* whatever the outcome, the resulting table is the intermediate one or has one session less *)
    assert (Hdisp : forall (ss1 : list session) nsid (sidr : N) (r : res bool) s2 ev2,
      (let mk ss r0 := mkSys ss r0 (handles s) (now s) nsid in
       match r with
       | Ok _ =>
           if is_standalone_ack (m_op m) then (mk ss1 RxEmpty, [])
           else match m_op m with
                | OpScClose => (mk (remove_sid ss1 sidr) RxEmpty, [EvPeerClosed sidr])
                | _ => (mk ss1 (RxHolding m), [EvKeep m])
                end
       | Err c =>
           if c =? ERR_DUPLICATE then
             (mk ss1 RxEmpty, if m_group m || is_standalone_ack (m_op m) then [] else [EvDupAck (m_key m) (m_ctr m)])
           else if c =? ERR_NO_SPACE_EXCHANGES then
             (mk (remove_sid ss1 sidr) RxEmpty, [EvNoSpaceClose sidr])
           else if c =? ERR_NO_SESSION then (mk ss1 RxEmpty, [EvSessionNotFound m])
           else if (c =? ERR_NO_EXCHANGE) && is_close (m_op m) then
             (mk (remove_sid ss1 sidr) RxEmpty, [EvPeerClosed sidr])
           else (mk ss1 RxEmpty, [])
       | Panic _ => (mk ss1 RxEmpty, [])
       end) = (s2, ev2) -> forall x, In x (sessions s2) -> In x ss1).
    { intros ss1 nsid sidr r s2 ev2. cbn zeta.
      destruct r as [b|c|p];
        repeat match goal with |- context [if ?b then _ else _] => destruct b end;
        try destruct (m_op m); intros H; inversion H; subst; simp_sys; intros x Hx;
        try exact Hx; eapply in_remove_sid; exact Hx. }
    destruct (find_key (sessions s) (m_key m)) as [se|] eqn:Hk.
    + destruct (find_key_some _ _ _ Hk) as [Hse Hkey].
      destruct (session_post_recv se m (now s)) as [se1 r] eqn:Hp.
      destruct (session_post_recv_fields _ _ _ _ _ Hp) as [Eid [Ekey _]].
      assert (Hupd : forall x, In x (upd_sid (sessions s) (s_id se) (fun _ => se1)) ->
                from_old (LRx m) (sessions s) x).
      { intros x0 Hx0. eapply from_old_upd; [|exact Hx0]. intros y Hy Ey.
        assert (y = se) by (eapply nodup_sid_unique; [apply (inv_nodup _ I)| | |]; eassumption). subst y.
        repeat split; try assumption. intros i.
        eapply post_recv_lifecycle; eassumption. }
      intros H1 se' Hin. left. apply Hupd. exact (Hdisp _ _ _ _ _ _ H1 se' Hin).
    + assert (Hnewgen : forall e g se1 r,
                session_post_recv (new_session (next_sid s) (m_key m) e g) m (now s) = (se1, r) ->
                brand_new (LRx m) (sessions s) se1).
      { intros e g se1 r Hp.
        destruct (session_post_recv_fields _ _ _ _ _ Hp) as [Eid [Ekey [_ [Eexp _]]]]. simp_sess.
        split.
        - intros y Hy. pose proof (inv_lt _ I y Hy). lia.
        - intros i. pose proof (post_recv_lifecycle _ _ _ _ _ Hp eq_refl i) as L. simp_sess.
          rewrite Ekey. unfold view at 1 in L. simp_sess.
          replace (nth_error (@nil (option exch)) i) with (@None (option exch)) in L by (destruct i; reflexivity).
          exact L. }
      destruct (negb (m_enc m) && is_new_session (m_op m)).
      * destruct (session_post_recv (new_session (next_sid s) (m_key m) false false) m (now s)) as [se1 r] eqn:Hp.
        pose proof (Hnewgen _ _ _ _ Hp) as Hnew.
        intros H1 se' Hin. pose proof (Hdisp _ _ _ _ _ _ H1 se' Hin) as Hin'.
        apply in_app_or in Hin'. destruct Hin' as [Hold|[<-|[]]];
          [left; apply from_old_self; exact Hold|right; exact Hnew].
      * destruct (m_enc m && m_group m).
        -- destruct (session_post_recv (new_session (next_sid s) (m_key m) true true) m (now s)) as [se1 r] eqn:Hp.
           pose proof (Hnewgen _ _ _ _ Hp) as Hnew.
           intros H1 se' Hin. pose proof (Hdisp _ _ _ _ _ _ H1 se' Hin) as Hin'.
           apply in_app_or in Hin'. destruct Hin' as [Hold|[<-|[]]];
             [left; apply from_old_self; exact Hold|right; exact Hnew].
        -- cbn zeta. intros H1; inversion H1; subst. intros se' Hin. left. apply from_old_self. exact Hin.
  - (* LAccept *)
    destruct (rx s) as [|m|]; try discriminate.
    destruct (owner_of (sessions s) m) as [[[se i] e]|] eqn:Ho; [|discriminate].
    destruct (is_pending (e_role e)) eqn:Hp; [|discriminate].
    intros H; inversion H; subst; clear H. intros se' Hin. left.
    destruct (owner_of_some _ _ _ _ _ Ho) as [Hse [_ [Hn _]]].
    eapply (from_old_slot _ _ se i); [apply (inv_nodup _ I)|exact Hse| |exact Hin].
    intros x Hx. rewrite Hn in Hx. inversion Hx; subst x. cbn.
    destruct (e_role e); try discriminate. apply LcAccept. reflexivity.
  - (* LRecv *)
    destruct (has_handle s sid idx); [|discriminate].
    destruct (rx s) as [|m|]; try discriminate.
    destruct (find_sid (sessions s) sid) as [se|]; [|discriminate].
    destruct (s_key se =? m_key m); [|discriminate].
    destruct (nth_error (s_exchs se) idx) as [[e|]|]; try discriminate.
    destruct (exch_is_for_rx e m && negb (retrans_pending e)); [|discriminate].
    intros H; inversion H; subst. intros se' Hin. left. apply from_old_self. exact Hin.
  - (* LRxDone *)
    destruct (rx s) as [| |m a b]; try discriminate.
    destruct ((a =? sid) && (b =? idx)%nat); [|discriminate].
    intros H; inversion H; subst. intros se' Hin. left. apply from_old_self. exact Hin.
  - (* LDropExch *)
    destruct (has_handle s sid idx) eqn:Hh; [|discriminate]. apply has_handle_true in Hh.
    intros H; inversion H; subst; clear H. simp_sys. intros se' Hin. left.
    destruct (find_sid (sessions s) sid) as [se|] eqn:Hf; [|apply from_old_self; exact Hin].
    destruct (find_sid_some _ _ _ Hf) as [Hse Eid]. subst sid.
    pose proof (inv_hdl _ I se idx Hse Hh) as Hown.
    destruct (nth_error (s_exchs se) idx) as [[e|]|] eqn:Hn; try (apply from_old_self; exact Hin).
    cbn in Hown. apply in_group_gc in Hin. unfold remove_exch in Hin.
    destruct (retrans_pending e || ack_pending e).
    + eapply (from_old_slot _ _ se idx); [apply (inv_nodup _ I)|exact Hse| |exact Hin].
      intros x Hx. rewrite Hn in Hx. inversion Hx; subst x. cbn. eapply LcDrop; [reflexivity|exact Hown].
    + eapply (from_old_slot _ _ se idx); [apply (inv_nodup _ I)|exact Hse| |exact Hin].
      intros x Hx. rewrite Hn in Hx. inversion Hx; subst x. cbn. eapply LcDropFree; [reflexivity|exact Hown].
  - (* LSend *)
    destruct (has_handle s sid idx); [|discriminate]. cbn zeta.
    assert (Hsame : forall q : sys, sessions q = sessions s ->
              Some (q, @nil event) = Some (s', ev) ->
              forall se', In se' (sessions s') -> from_old (LSend sid idx ctr rel) (sessions s) se' \/
                                                  brand_new (LSend sid idx ctr rel) (sessions s) se').
    { intros q Eq H; inversion H; subst. intros se' Hin. left. apply from_old_self. rewrite <- Eq. exact Hin. }
    destruct (find_sid (sessions s) sid) as [se|] eqn:Hf; [|apply Hsame; reflexivity].
    destruct (find_sid_some _ _ _ Hf) as [Hse Eid]. subst sid.
    destruct (nth_error (s_exchs se) idx) as [[e|]|] eqn:Hn; try (apply Hsame; reflexivity).
    destruct (s_group se); [apply Hsame; reflexivity|]. clear Hsame.
    destruct (rm_pre_send (e_mrp e) ctr rel None) as [r' rr].
    assert (Hres : forall se', In se' (set_slot (sessions s) (s_id se) idx (Some (mkExch (e_id e) (e_role e) r' (e_rat e)))) ->
              from_old (LSend (s_id se) idx ctr rel) (sessions s) se').
    { intros se' Hin.
      eapply (from_old_slot _ _ se idx); [apply (inv_nodup _ I)|exact Hse| |exact Hin].
      intros x Hx. rewrite Hn in Hx. inversion Hx; subst x. cbn. constructor. }
    cbn zeta.
    destruct rr as [v|c|p]; try discriminate; intros H; inversion H; subst; clear H; simp_sys;
      intros se' Hin; left; try (apply Hres; exact Hin).
    revert Hin. match goal with |- In _ (if ?b then _ else _) -> _ => destruct b end; intros Hin;
      [eapply from_old_expire; [exact Hres|exact Hin]|apply Hres; exact Hin].
  - (* LInitiate *)
    destruct (find_sid (sessions s) sid) as [se|] eqn:Hf; [|discriminate].
    destruct (find_sid_some _ _ _ Hf) as [Hse Eid]. subst sid.
    destruct (s_expired se); [discriminate|].
    destruct (add_exch (s_exchs se) (mkExch exid InitOwned rm_new 0)) as [[l' i]|] eqn:Ha; [|discriminate].
    intros H; inversion H; subst; clear H. simp_sys. intros se' Hin. left.
    destruct (add_exch_some _ _ _ _ Ha) as [Hi [Hoth [Hfree _]]].
    eapply from_old_upd; [|exact Hin]. intros y Hy Ey.
    assert (y = se) by (eapply nodup_sid_unique; [apply (inv_nodup _ I)| | |]; eassumption). subst y.
    repeat split. intros j. unfold view. simp_sess.
    destruct (Nat.eq_dec j i) as [->|Hj].
    + rewrite Hi. assert (Hv : oview (nth_error (s_exchs se) i) = None) by (destruct Hfree as [-> | ->]; reflexivity).
      rewrite Hv. cbn. eapply LcInitiate. reflexivity.
    + rewrite (Hoth j Hj). constructor.
  - (* LSweepAccept *)
    destruct (rx s) as [|m|]; try discriminate.
    destruct (owner_of (sessions s) m) as [[[se i] e]|] eqn:Ho; [|discriminate].
    destruct (is_pending (e_role e) && rm_received (e_mrp e) && (e_rat e + ACCEPT_TIMEOUT_MS <=? now s)) eqn:Hg;
      [|discriminate].
    apply andb_true_iff in Hg. destruct Hg as [Hg _]. apply andb_true_iff in Hg. destruct Hg as [Hp _].
    intros H; inversion H; subst; clear H. intros se' Hin. left.
    destruct (owner_of_some _ _ _ _ _ Ho) as [Hse [_ [Hn _]]].
    eapply (from_old_slot _ _ se i); [apply (inv_nodup _ I)|exact Hse| |exact Hin].
    intros x Hx. rewrite Hn in Hx. inversion Hx; subst x. cbn.
    destruct (e_role e); try discriminate. apply LcTimeout. reflexivity.
  - (* LSweepOrphan *)
    destruct (rx s) as [|m|]; try discriminate. intros H.
    assert (Hx : sessions s' = sessions s).
    { destruct (owner_of (sessions s) m) as [[[se i] e]|]; [destruct (is_dropped (e_role e)); [|discriminate H]|];
        inversion H; reflexivity. }
    intros se' Hin. rewrite Hx in Hin. left. apply from_old_self. exact Hin.
  - (* LCloseDropped *)
    destruct (pick_dropped (sessions s)) as [[[sid i] e]|] eqn:Hpk; [|discriminate].
    destruct (pick_dropped_some _ _ _ _ Hpk) as [se [Hse [Eid [Hn Hd]]]]. subst sid.
    destruct (retrans_pending e).
    + intros H; inversion H; subst; clear H. simp_sys. intros se' Hin. left.
      apply from_old_self. eapply in_remove_sid. exact Hin.
    + intros H; inversion H; subst; clear H. simp_sys. intros se' Hin. left. apply in_group_gc in Hin.
      eapply (from_old_slot _ _ se i); [apply (inv_nodup _ I)|exact Hse| |exact Hin].
      intros x Hx. rewrite Hn in Hx. inversion Hx; subst x. cbn. apply LcClose; [reflexivity|exact Hd].
  - (* LAddSession *)
    intros H; inversion H; subst; clear H. simp_sys. intros se' Hin.
    apply in_app_or in Hin. destruct Hin as [Hold|[<-|[]]]; [left; apply from_old_self; exact Hold|].
    right. split.
    + intros y Hy. simp_sess. pose proof (inv_lt _ I y Hy). lia.
    + intros i. unfold view. simp_sess.
      replace (nth_error (@nil (option exch)) i) with (@None (option exch)) by (destruct i; reflexivity).
      constructor.
  - (* LRemoveSession *)
    destruct (find_sid (sessions s) sid); [|discriminate].
    intros H; inversion H; subst; clear H. simp_sys. intros se' Hin. left.
    apply from_old_self. eapply in_remove_sid. exact Hin.
  - (* LExpireSession *)
    destruct (find_sid (sessions s) sid); [|discriminate].
    intros H; inversion H; subst; clear H. simp_sys. intros se' Hin. left.
    eapply from_old_upd; [|exact Hin]. intros y _ _. repeat split. intros i. constructor.
  - (* LTick *)
    intros H; inversion H; subst. intros se' Hin. left. apply from_old_self. exact Hin.
Qed.

(** ** consequences *)

(** A responder exchange comes into being only through the gate. *)
Corollary responder_only_through_gate s l s' ev se se' i id r :
  Inv s -> step false s l = Some (s', ev) ->
  In se (sessions s) -> In se' (sessions s') -> s_id se' = s_id se ->
  view se i = None -> view se' i = Some (id, r) -> is_responder r = true ->
  exists m, l = LRx m /\ m_key m = s_key se /\ m_exid m = id /\ r = RespPending /\
            m_init m = true /\ is_new_exchange (m_op m) = true /\ s_expired se = false.
Proof.
  intros I H Hse Hse' Eid Hv Hv' Hr.
  destruct (slot_lifecycle _ _ _ _ I H se' Hse') as [[x [Hx [Ex [_ L]]]]|[Hnew _]].
  2:{ exfalso. apply (Hnew se Hse). symmetry. exact Eid. }
  assert (x = se) by (eapply nodup_sid_unique; [apply (inv_nodup _ I)| | |]; try eassumption; congruence).
  subst x. specialize (L i). rewrite Hv, Hv' in L.
  inversion L; subst.
  - exists m. repeat split; assumption.
  - cbn in Hr. discriminate.
Qed.

(** Dropped is absorbing: a dropped slot stays dropped (same exchange id and
    kind) until the closer frees it or its session goes. *)
Corollary dropped_is_absorbing s l s' ev se se' i id r :
  Inv s -> step false s l = Some (s', ev) ->
  In se (sessions s) -> In se' (sessions s') -> s_id se' = s_id se ->
  view se i = Some (id, r) -> is_dropped r = true ->
  view se' i = Some (id, r) \/ (view se' i = None /\ l = LCloseDropped).
Proof.
  intros I H Hse Hse' Eid Hv Hd.
  destruct (slot_lifecycle _ _ _ _ I H se' Hse') as [[x [Hx [Ex [_ L]]]]|[Hnew _]].
  2:{ exfalso. apply (Hnew se Hse). symmetry. exact Eid. }
  assert (x = se) by (eapply nodup_sid_unique; [apply (inv_nodup _ I)| | |]; try eassumption; congruence).
  subst x. specialize (L i). rewrite Hv in L.
  inversion L; subst; try (cbn in Hd; discriminate Hd); try (left; congruence);
    try (destruct r; discriminate).
  right. split; [congruence|reflexivity].
Qed.
