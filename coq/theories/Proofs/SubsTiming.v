(** Timing clauses of C13 over the subscription model: a failed report changes
    no watermark, reports respect the minimum interval, the liveness point lies
    within the maximum interval, back-off is capped, and the expiry sweep leaves
    nothing whose last success (or resumption) is a maximum interval old. *)
From Coq Require Import ZifyN ZifyBool.
From RsM Require Import Model.Subs Model.SubsSpec Proofs.SubsFacts Proofs.SubsInv.
Open Scope N_scope.

Arguments N.add : simpl never.
Arguments N.mul : simpl never.
Arguments N.sub : simpl never.
Arguments N.max : simpl never.
Arguments N.min : simpl never.
Arguments N.modulo : simpl never.
Arguments N.ltb : simpl never.
Arguments N.leb : simpl never.
Arguments N.eqb : simpl never.
Arguments N.div : simpl never.
Arguments N.shiftl : simpl never.
Arguments N.of_nat : simpl never.

Lemma checked_add_Some : forall a d v, checked_add a d = Some v -> v = a + d /\ a + d <= IMAX.
Proof. intros a d v H. unfold checked_add in H. destruct (a + d <=? IMAX) eqn:E; [|discriminate]. injection H as H. lia. Qed.
Lemma checked_add_None : forall a d, checked_add a d = None -> IMAX < a + d.
Proof. intros a d H. unfold checked_add in H. destruct (a + d <=? IMAX) eqn:E; [discriminate|lia]. Qed.

(** * stale data makes the subscription reportable, and the report carries it *)

Lemma stale_reportable : forall st s p,
  Inv st -> In s (subs st) -> In p (s_paths s) -> stale (log st) (s_del s) p = true ->
  forall now evw, report_allowed_at s <= now -> is_reportable s now (tab st) evw = true.
Proof.
  intros st s p I Hs Hp Hst now evw Hal. unfold is_reportable.
  replace (report_allowed_at s <=? now) with true by lia.
  destruct (i_kept st I s Hs p Hp Hst) as [Hu|Hc].
  - unfold report_due_at. rewrite Hu. cbn [orb]. replace (0 <=? now) with true by lia. reflexivity.
  - rewrite (cs_any _ _ _ Hc). rewrite orb_true_r. reflexivity.
Qed.

Lemma stale_emitted : forall st x p,
  Inv st -> In x (ctxs st) -> In p (s_paths (x_sub x)) ->
  stale (log st) (s_del (x_sub x)) p = true -> should_report (tab st) x p = true.
Proof.
  intros st x p I Hx Hp Hst. unfold should_report.
  destruct (unprimed (x_sub x)) eqn:Hu; [reflexivity|].
  destruct (i_ctx st I x Hx) as [[HA|HA] _]; [congruence|]. apply HA; assumption.
Qed.

Lemma event_reportable : forall st s n,
  Inv st -> In s (subs st) -> s_dev s < n ->
  forall now evw, n <= evw -> report_allowed_at s <= now -> is_reportable s now (tab st) evw = true.
Proof.
  intros st s n I Hs Hn now evw He Hal. unfold is_reportable.
  replace (report_allowed_at s <=? now) with true by lia.
  pose proof (i_ev st I s Hs). replace (s_seen_ev s <? evw) with true by lia.
  rewrite orb_true_r. reflexivity.
Qed.

(** * a failed report is retried with the same content *)

Lemma retry_backoff_le : forall fc mx, retry_backoff_secs fc mx <= N.max mx 2.
Proof. intros. unfold retry_backoff_secs. lia. Qed.

Lemma sub_after_fail_same : forall x,
  let s' := sub_after_fail x in
  s_id s' = s_id (x_sub x) /\ s_seen s' = s_seen (x_sub x) /\ s_seen_ev s' = s_seen_ev (x_sub x) /\
  s_rep_at s' = s_rep_at (x_sub x) /\ s_acc s' = s_acc (x_sub x) /\ s_paths s' = s_paths (x_sub x) /\
  s_del s' = s_del (x_sub x) /\ s_dev s' = s_dev (x_sub x) /\
  (x_now x <= IMAX -> x_now x <= s_retry_at s') /\
  (x_now x + N.max (s_max (x_sub x)) 2 * 1000 <= IMAX -> s_retry_at s' <= x_now x + N.max (s_max (x_sub x)) 2 * 1000).
Proof.
  intros x. unfold sub_after_fail, with_core. cbn [s_id s_seen s_seen_ev s_rep_at s_acc s_paths s_del s_dev s_retry_at s_max].
  repeat (split; [reflexivity|]).
  pose proof (retry_backoff_le (N.min (s_fail (x_sub x) + 1) 255) (s_max (x_sub x))) as Hb.
  destruct (checked_add (x_now x) (retry_backoff_secs (N.min (s_fail (x_sub x) + 1) 255) (s_max (x_sub x)) * 1000)) as [v|] eqn:Hc.
  - apply checked_add_Some in Hc. split; [intros _; lia|]. intros _. nia.
  - apply checked_add_None in Hc. split; [intros Hle; exact Hle|]. intros Hle. nia.
Qed.

Theorem retry_same_content : forall st sid x,
  find_ctx sid (ctxs st) = Some x -> cancelled st = false ->
  let st' := fst (step st (OCtxEnd sid EFail)) in
  tab st' = tab st /\ subs st' = subs st ++ [sub_after_fail x] /\
  forall p, should_report (tab st) x p = should_report (tab st') (mkCtx (sub_after_fail x) false (x_nseen x) (x_nseen_ev x) (x_now x) [] []) p.
Proof.
  intros st sid x Hf Hc. unfold step. cbn [step_gen]. rewrite Hf. cbn [fst].
  unfold report_complete. rewrite Hc. rewrite andb_false_r. cbn [tab subs]. split; [reflexivity|]. split; [reflexivity|].
  intros p. unfold should_report, unprimed, sub_after_fail, with_core. cbn [x_sub s_rep_at s_seen]. reflexivity.
Qed.

(** * minimum interval *)

Lemma find_index_Some : forall {A} (f : A -> bool) l i, find_index f l = Some i ->
  exists x, nth_error l i = Some x /\ f x = true.
Proof.
  intros A f l. induction l as [|h t IH]; intros i H; [discriminate|].
  cbn [find_index] in H. destruct (f h) eqn:Hf.
  - injection H as H. subst i. exists h. split; [reflexivity|exact Hf].
  - destruct (find_index f t) as [k|] eqn:Hk; [|discriminate]. cbn in H. injection H as H. subst i.
    destruct (IH k eq_refl) as [x [H1 H2]]. exists x. split; [exact H1|exact H2].
Qed.

Lemma reportable_begin_ok : forall s now tb evw, is_reportable s now tb evw = true -> begin_ok s now = true.
Proof.
  intros s now tb evw H. unfold is_reportable in H.
  destruct (report_allowed_at s <=? now) eqn:Hal; [|discriminate]. clear H.
  unfold report_allowed_at in Hal. unfold begin_ok.
  destruct (unprimed s) eqn:Hu; cbn [orb].
  - apply andb_true_iff. split; [reflexivity|lia].
  - destruct (checked_add (s_rep_at s) (s_min s * 1000)) as [v|] eqn:Hc.
    + apply checked_add_Some in Hc. apply andb_true_iff. split; [apply orb_true_iff; right; lia|lia].
    + apply checked_add_None in Hc. apply andb_true_iff. split; [apply orb_true_iff; left; lia|lia].
Qed.

Theorem min_interval : forall st now lag sid,
  snd (step st (OReportBegin now lag)) = USid (Some sid) ->
  exists s, In s (subs st) /\ s_id s = sid /\ begin_ok s now = true /\
            In (mkCtx s false (watermark (next_chg st)) (evn st - lag) now [] []) (ctxs (fst (step st (OReportBegin now lag)))).
Proof.
  intros st now lag sid H. unfold step in *. cbn [step_gen] in *.
  destruct (report_slot_free st); [|discriminate].
  destruct (find_index _ (subs st)) as [i|] eqn:Hi; [|cbn in H; discriminate].
  destruct (find_index_Some _ _ _ Hi) as [s [Hn Hr]]. rewrite Hn in *. cbn [fst snd] in *.
  injection H as H. exists s. split; [eapply nth_error_In; exact Hn|]. split; [exact H|].
  split; [eapply reportable_begin_ok; exact Hr|]. cbn [ctxs]. apply in_or_app. right. left. reflexivity.
Qed.

(** the last-success time is the [now] the delivered report was begun with *)
Lemma sub_after_ok_rep_at : forall x, s_rep_at (sub_after_ok x) = x_now x /\ s_retry_at (sub_after_ok x) = 0 /\ s_fail (sub_after_ok x) = 0.
Proof. intros. unfold sub_after_ok, with_core. cbn. auto. Qed.

(** * liveness *)

Theorem liveness_due : forall s tb evw,
  unprimed s = false -> s_min s <= s_max s ->
  s_retry_at s <= s_rep_at s + s_max s * 1000 -> s_rep_at s + s_max s * 1000 <= IMAX ->
  report_due_at s <= s_rep_at s + s_max s * 1000 /\
  next_report_at s tb evw <= s_rep_at s + s_max s * 1000 /\
  is_reportable s (next_report_at s tb evw) tb evw = true.
Proof.
  intros s tb evw Hu Hmm Hr Hov.
  assert (Hhalf : s_max s - s_max s / 2 <= s_max s) by lia.
  assert (Hdue : report_due_at s = s_rep_at s + (s_max s - s_max s / 2) * 1000).
  { unfold report_due_at. rewrite Hu. unfold checked_add.
    replace (s_rep_at s + (s_max s - s_max s / 2) * 1000 <=? IMAX) with true by nia. reflexivity. }
  assert (Hall : report_allowed_at s = N.max (s_rep_at s + s_min s * 1000) (s_retry_at s)).
  { unfold report_allowed_at. rewrite Hu. unfold checked_add.
    replace (s_rep_at s + s_min s * 1000 <=? IMAX) with true by nia. reflexivity. }
  split; [rewrite Hdue; nia|].
  unfold next_report_at, is_reportable.
  destruct (any_since tb (s_seen s) || (s_seen_ev s <? evw)) eqn:Hp.
  - split; [rewrite Hall; nia|]. rewrite N.leb_refl.
    apply orb_true_iff in Hp. destruct Hp as [Hp|Hp]; rewrite Hp; rewrite ?orb_true_r; reflexivity.
  - split; [rewrite Hall, Hdue; nia|].
    replace (report_allowed_at s <=? N.max (report_allowed_at s) (report_due_at s)) with true by lia.
    replace (report_due_at s <=? N.max (report_allowed_at s) (report_due_at s)) with true by lia.
    reflexivity.
Qed.

(** * expiry *)

(** the sweep removes exactly the expired *)
Lemma wake_sweeps : forall st now s,
  In s (subs (fst (step st (OWake now)))) -> is_expired s now = false.
Proof.
  intros st now s H. unfold step in H. cbn [step_gen] in H.
  destruct (remove_where (fun s0 => is_expired s0 now) st) as [st' b] eqn:Hr.
  unfold remove_where in Hr. injection Hr as Hr _. subst st'. cbn [fst subs] in H.
  apply (swap_filter_sound (fun s0 => is_expired s0 now)) in H. exact H.
Qed.

Lemma not_expired_anchor : forall s now, is_expired s now = false ->
  IMAX < expiry_anchor s + s_max s * 1000 \/ now < expiry_anchor s + s_max s * 1000.
Proof.
  intros s now H. unfold is_expired in H.
  destruct (checked_add (expiry_anchor s) (s_max s * 1000)) as [v|] eqn:Hc.
  - apply checked_add_Some in Hc. right. lia.
  - apply checked_add_None in Hc. left. exact Hc.
Qed.

(** the ghost "last success or resumption" is what the code measures expiry from *)
Definition op_time_ok (o : op) : Prop :=
  match o with
  | OSubBegin _ _ _ _ _ now _ | OReportBegin now _ | ORestart now _ => now < IMAX
  | _ => True
  end.

Record TInv (st : state) : Prop := mkTInv {
  t_subs : forall s, In s (subs st) -> s_since s = expiry_anchor s;
  t_ctxs : forall x, In x (ctxs st) -> s_since (x_sub x) = expiry_anchor (x_sub x) /\ x_now x < IMAX
}.

Lemma visit_now : forall n x p b, x_now (visit n x p b) = x_now x.
Proof. intros. unfold visit. destruct (mem_path p (x_vis x)); reflexivity. Qed.

Lemma visit_rest_now_sub : forall tb n x, x_now (visit_rest tb n x) = x_now x /\ x_sub (visit_rest tb n x) = x_sub x
  /\ x_nseen (visit_rest tb n x) = x_nseen x /\ x_nseen_ev (visit_rest tb n x) = x_nseen_ev x.
Proof.
  intros tb n x. unfold visit_rest. generalize (s_paths (x_sub x)) as ps. intros ps. revert x.
  induction ps as [|p ps IH]; intros x; [cbn; auto|].
  cbn [fold_left]. destruct (IH (visit n x p (should_report tb x p))) as [I1 [I2 [I3 I4]]].
  rewrite I1, I2, I3, I4. rewrite visit_now, visit_sub, visit_nseen.
  repeat split. unfold visit. destruct (mem_path p (x_vis x)); reflexivity.
Qed.

Lemma report_complete_tinv : forall slot st sid s' keep,
  TInv st -> s_since s' = expiry_anchor s' -> TInv (report_complete slot st sid s' keep).
Proof.
  intros slot st sid s' keep [T1 T2] Hs.
  assert (Hc : forall y, In y (remove_ctx sid (ctxs st)) -> s_since (x_sub y) = expiry_anchor (x_sub y) /\ x_now y < IMAX).
  { intros y Hy. apply T2. eapply remove_ctx_In. exact Hy. }
  unfold report_complete. destruct (owns_slot slot st sid && cancelled st); [constructor; cbn [subs ctxs]; assumption|].
  destruct keep; [|constructor; cbn [subs ctxs]; assumption].
  constructor; cbn [subs ctxs]; [|assumption].
  intros s Hin. apply in_app_or in Hin. destruct Hin as [Hin|[Heq|[]]]; [apply T1; exact Hin|subst; exact Hs].
Qed.

Lemma resume_tinv : forall recs st now evw, TInv st -> TInv (resume recs st now evw).
Proof.
  intros recs. induction recs as [|r t IH]; intros st now evw T; [exact T|].
  cbn [resume]. destruct (MAX_SUBS <=? count st); [apply IH; exact T|].
  apply IH. destruct T as [T1 T2]. constructor; cbn [subs ctxs]; [|exact T2].
  intros s Hin. apply in_app_or in Hin. destruct Hin as [Hin|[Heq|[]]]; [apply T1; exact Hin|].
  subst s. reflexivity.
Qed.

Lemma step_tinv : forall st o, TInv st -> op_time_ok o -> TInv (fst (step st o)).
Proof.
  intros st o T Hok. pose proof T as [T1 T2]. unfold step.
  destruct o as [ep cl at_| |fab peer mn mx paths now lag|sid p|sid r|now lag| |fab peer|now| |now lag];
    cbn [step_gen op_time_ok] in *.
  - cbn [fst]. constructor; cbn [subs ctxs]; assumption.
  - cbn [fst]. constructor; cbn [subs ctxs]; assumption.
  - destruct (MAX_SUBS <=? count st); cbn [fst]; [exact T|].
    constructor; cbn [subs ctxs]; [exact T1|].
    intros x Hin. apply in_app_or in Hin. destruct Hin as [Hin|[Heq|[]]]; [apply T2; exact Hin|].
    subst x. cbn [x_sub x_now]. split; [reflexivity|exact Hok].
  - destruct (find_ctx sid (ctxs st)) as [x|] eqn:Hf; cbn [fst]; [|exact T].
    constructor; cbn [subs ctxs]; [exact T1|].
    intros y Hy. apply replace_ctx_In in Hy. destruct Hy as [Heq|Hy]; [|apply T2; exact Hy].
    subst y. rewrite visit_sub, visit_now. apply T2. eapply find_ctx_In. exact Hf.
  - destruct (find_ctx sid (ctxs st)) as [x|] eqn:Hf; cbn [fst]; [|exact T].
    destruct (T2 x (find_ctx_In _ _ _ Hf)) as [Hx1 Hx2].
    destruct r; cbn [fst]; apply report_complete_tinv; try exact T.
    + destruct (visit_rest_now_sub (tab st) (nchg st) x) as [V1 [V2 _]].
      unfold sub_after_ok, with_core, expiry_anchor, unprimed. cbn [s_since s_rep_at s_acc].
      rewrite V1. replace (x_now x =? IMAX) with false by lia. reflexivity.
    + destruct (visit_rest_now_sub (tab st) (nchg st) x) as [V1 [V2 _]].
      destruct (report_is_sent (visit_rest (tab st) (nchg st) x)).
      * unfold sub_after_ok, with_core, expiry_anchor, unprimed. cbn [s_since s_rep_at s_acc].
        rewrite V1. replace (x_now x =? IMAX) with false by lia. reflexivity.
      * unfold sub_after_skip, with_core, expiry_anchor, unprimed in *. cbn [s_since s_rep_at s_acc]. rewrite V2. exact Hx1.
    + unfold sub_after_fail, with_core, expiry_anchor, unprimed in *. cbn [s_since s_rep_at s_acc]. exact Hx1.
    + exact Hx1.
  - destruct (report_slot_free st); cbn [fst]; [|exact T].
    destruct (find_index _ (subs st)) as [i|]; cbn [fst]; [|exact T].
    destruct (nth_error (subs st) i) as [s|] eqn:Hn; cbn [fst]; [|exact T].
    constructor; cbn [subs ctxs].
    + intros s' Hs'. apply T1. eapply swap_remove_In. exact Hs'.
    + intros x Hin. apply in_app_or in Hin. destruct Hin as [Hin|[Heq|[]]]; [apply T2; exact Hin|].
      subst x. cbn [x_sub x_now]. split; [apply T1; eapply nth_error_In; exact Hn|exact Hok].
  - cbn [fst]. constructor; cbn [subs ctxs]; assumption.
  - destruct (remove_where _ st) as [st' b] eqn:Hr. unfold remove_where in Hr. injection Hr as Hr _. subst st'.
    cbn [fst]. constructor; cbn [subs ctxs]; [|exact T2].
    intros s Hs. apply T1. eapply swap_filter_In. exact Hs.
  - destruct (remove_where _ st) as [st' b] eqn:Hr. unfold remove_where in Hr. injection Hr as Hr _. subst st'.
    cbn [fst]. constructor; cbn [subs ctxs]; [|exact T2].
    intros s Hs. apply T1. eapply swap_filter_In. exact Hs.
  - cbn [fst]. constructor; cbn [subs ctxs]; assumption.
  - cbn [fst]. apply resume_tinv. constructor; cbn [subs ctxs]; intros ? [].
Qed.

Lemma run_tinv : forall ops st, TInv st -> Forall op_time_ok ops -> TInv (run st ops).
Proof.
  induction ops as [|o ops IH]; intros st T H; [exact T|].
  unfold run in *. cbn [run_gen]. inversion H as [|? ? Ho Hops]; subst.
  apply IH; [|exact Hops]. apply (step_tinv st o T Ho).
Qed.

Lemma init_tinv : TInv init.
Proof. constructor; cbn; intros ? []. Qed.

Theorem expiry : forall ops now s,
  Forall op_time_ok ops ->
  In s (subs (fst (step (run init ops) (OWake now)))) -> expiry_ok s now = true.
Proof.
  intros ops now s Hok Hin.
  pose proof (run_tinv ops init init_tinv Hok) as T.
  pose proof (step_tinv _ (OWake now) T I) as [T1 _].
  pose proof (wake_sweeps _ _ _ Hin) as Hne.
  apply not_expired_anchor in Hne. unfold expiry_ok. rewrite (T1 s Hin).
  apply orb_true_iff. destruct Hne; [left|right]; lia.
Qed.

(** * the liveness reference is the last report that was SENT

    [s_since] is ghost: the [now] of the last report actually sent and delivered (else of the
    acceptance / resumption).  With the repaired code an empty report that is skipped does not move
    [reported_at], so the instant the liveness point is computed from is the last sent report. *)
Theorem reported_at_is_last_sent : forall ops s,
  Forall op_time_ok ops -> In s (subs (run init ops)) -> unprimed s = false -> s_rep_at s = s_since s.
Proof.
  intros ops s Hok Hin Hu. pose proof (run_tinv ops init init_tinv Hok) as [T1 _].
  rewrite (T1 s Hin). unfold expiry_anchor. rewrite Hu. reflexivity.
Qed.

Theorem liveness_from_last_sent : forall ops s tb evw,
  Forall op_time_ok ops -> In s (subs (run init ops)) ->
  unprimed s = false -> s_min s <= s_max s ->
  s_retry_at s <= s_since s + s_max s * 1000 -> s_since s + s_max s * 1000 <= IMAX ->
  next_report_at s tb evw <= s_since s + s_max s * 1000 /\
  is_reportable s (next_report_at s tb evw) tb evw = true.
Proof.
  intros ops s tb evw Hok Hin Hu Hmm Hr Hov.
  pose proof (reported_at_is_last_sent ops s Hok Hin Hu) as E. rewrite <- E in *.
  destruct (liveness_due s tb evw Hu Hmm Hr Hov) as [_ [H1 H2]]. split; assumption.
Qed.

(** before the repair: the subscriber subscribed to (0,10,0); (2,11,3) changes every 20 s (max interval
    60 s); every report is empty and skipped, yet moves [reported_at]: after 80 s nothing has been sent
    and the liveness point lies at 110 s *)
Definition unsent_witness : list op :=
  [OSubBegin 1 100 0 60 [mkPath 0 10 0] 0 0; OCtxEnd 1 EOk;
   OChange 2 11 3; OReportBegin 20000 0; OCtxEnd 1 ESkip;
   OChange 2 11 3; OReportBegin 40000 0; OCtxEnd 1 ESkip;
   OChange 2 11 3; OReportBegin 60000 0; OCtxEnd 1 ESkip;
   OChange 2 11 3; OReportBegin 80000 0; OCtxEnd 1 ESkip].

Lemma unsent_before_fix :
  existsb (fun s => (s_since s =? 0) && (s_rep_at s =? 80000) && (s_since s + s_max s * 1000 <? report_due_at s))
          (subs (run_gen true true false init unsent_witness)) = true.
Proof. vm_compute. reflexivity. Qed.

Lemma unsent_after_fix :
  forallb (fun s => (s_rep_at s =? s_since s) && (report_due_at s <=? s_since s + s_max s * 1000))
          (subs (run init unsent_witness)) = true /\
  Forall op_time_ok unsent_witness.
Proof. split; [vm_compute; reflexivity|unfold unsent_witness; repeat constructor]. Qed.
