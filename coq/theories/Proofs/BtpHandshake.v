(** The handshake between two fresh ends, for every GATT MTU on both sides:
    four steps lead to the state the two-party theorems start from. *)
From RsM Require Import Lib.MachInt Model.Btp Model.BtpSpec
  Proofs.BtpCodec Proofs.BtpFacts Proofs.BtpHostile.
From Coq Require Import ZifyN ZifyBool.
Open Scope N_scope.

Ltac Zify.zify_post_hook ::= Z.div_mod_to_equations.

Arguments N.add : simpl never.
Arguments N.sub : simpl never.
Arguments N.mul : simpl never.
Arguments N.div : simpl never.
Arguments N.modulo : simpl never.
Arguments N.leb : simpl never.
Arguments N.ltb : simpl never.
Arguments N.eqb : simpl never.
Arguments N.min : simpl never.
Arguments N.max : simpl never.
Arguments N.of_nat : simpl never.
Arguments N.to_nat : simpl never.
Arguments N.testbit : simpl never.
Arguments N.land : simpl never.
Arguments N.shiftr : simpl never.

(** the MTU the initiator proposes, the segment size the responder picks, the windows *)
Definition req_mtu (gA : option N) : N :=
  match gA with Some g => clamp g MIN_MTU MAX_MTU | None => MIN_MTU end.

Definition nego_mtu (gA gB : option N) (rel : bool) : N :=
  let q := req_mtu gA in
  let m0 :=
    if (match gB with Some g => negb (g =? q) | None => true end) then
      if rel then N.min (N.min q (match gB with Some g => g | None => MIN_MTU end)) MAX_MTU
      else MIN_MTU
    else N.min q MAX_MTU in
  clamp m0 MIN_MTU MAX_MTU - GATT_HDR.

Definition win_of (m : N) : N := N.min (RX_CAP / m / 2) 255.

Definition nego_win (gA gB : option N) (rel : bool) : N :=
  N.min (win_of (req_mtu gA - GATT_HDR)) (win_of (nego_mtu gA gB rel)).

Definition req_bytes (gA : option N) : bytes :=
  [101; 108; 4; 0; 0; 0; req_mtu gA mod 256; req_mtu gA / 256; win_of (req_mtu gA - GATT_HDR)].

Definition resp_bytes (m w : N) : bytes := [101; 108; 4; m mod 256; m / 256; w].

Lemma req_mtu_range gA : 23 <= req_mtu gA <= 247.
Proof. unfold req_mtu, clamp, MIN_MTU, MAX_MTU. destruct gA; lia. Qed.

Lemma nego_mtu_range gA gB rel : 20 <= nego_mtu gA gB rel <= 244.
Proof. unfold nego_mtu, clamp, MIN_MTU, MAX_MTU, GATT_HDR. lia. Qed.

Lemma win_of_range m : 20 <= m <= 244 -> 6 <= win_of m <= 255 /\ win_of m * m <= 1583.
Proof.
  intro Hm. destruct (initial_window_ok m Hm) as (iw & E & H1 & H2).
  unfold initial_window_size in E. destruct (N.eqb_spec m 0); [lia|]. inversion E. subst iw.
  unfold win_of. auto.
Qed.

Lemma blen9 (a b c d e f g h i : N) : blen [a; b; c; d; e; f; g; h; i] = 9.
Proof. reflexivity. Qed.
Lemma blen6 (a b c d e f : N) : blen [a; b; c; d; e; f] = 6.
Proof. reflexivity. Qed.

(** the ends during the handshake; [oa buf off] = the outgoing SDU slot (an SDU may be
    queued before the handshake completes) *)
Definition A0 (oa : N) (buf : bytes) (off : N) : inner :=
  mkInner (set_initiator session_new true) oa buf off.
Definition A1 (oa : N) (buf : bytes) (off : N) : inner :=
  mkInner (mkSess true 0 0 0 0 false recvw_new sendw_new false) oa buf off.
Definition B0 (rel : bool) (oa : N) (buf : bytes) (off : N) : inner :=
  mkInner (set_relaxed session_new rel) oa buf off.

(** step 1: the initiator emits its request *)
Lemma hs_step1 gA t oa buf off :
  step (A0 oa buf off) (OOut gA t POLL_CAP) = (A1 oa buf off, RBytes (req_bytes gA)).
Proof.
  pose proof (req_mtu_range gA) as Hq.
  unfold step, process_outgoing, A0, set_initiator, session_new. cbn [sess out_addr out_buf out_off hs_pending initiator
    address version mtu wsize recv send relaxed].
  unfold prep_tx_handshake. cbn [hs_pending initiator].
  unfold prep_tx_handshake_req. fold (req_mtu gA).
  unfold GATT_HDR in *. rewrite csub_ok by lia. cbn [bind].
  unfold initial_window_size. destruct (N.eqb_spec (req_mtu gA - 3) 0); [lia|]. cbn [bind].
  change (hdr_encode hs_hdr) with [101; 108]. unfold le16. cbn [app].
  unfold wb. match goal with |- context[N.leb (blen ?l) ?c] => assert (E9 : blen l = 9) by reflexivity end. rewrite E9.
  unfold POLL_CAP. replace (9 <=? 512) with true by reflexivity.
  cbn [bind]. cbn [initiator address version mtu wsize recv send relaxed].
  match goal with |- context[blen ?l =? 0] => replace (blen l) with 9 by reflexivity end.
  replace (9 =? 0) with false by reflexivity. cbn [negb].
  reflexivity.
Qed.

Lemma hdr_decode_hs l : hdr_decode (101 :: 108 :: l) = Ok (hs_hdr, l).
Proof. reflexivity. Qed.

Lemma check_hs_hdr : check_handshake_integrity hs_hdr = Ok tt.
Proof. reflexivity. Qed.

Definition B1 (rel : bool) (aA m w : N) (oa : N) (buf : bytes) (off : N) : inner :=
  mkInner (setup_state (set_relaxed session_new rel) aA 4 m w) oa buf off.

(** step 2: the responder accepts the request *)
Lemma hs_step2 gA gB rel aA oa buf off :
  step (B0 rel oa buf off) (OIn gB aA (req_bytes gA)) =
  (B1 rel aA (nego_mtu gA gB rel) (nego_win gA gB rel) oa buf off, RUnit).
Proof.
  pose proof (req_mtu_range gA) as Hq.
  assert (Hq3 : 20 <= req_mtu gA - GATT_HDR <= 244) by (unfold GATT_HDR; lia).
  destruct (win_of_range _ Hq3) as (HwA & _).
  pose proof (nego_mtu_range gA gB rel) as Hm.
  unfold step, process_incoming, process_rx, B0, req_bytes. cbn [sess].
  rewrite hdr_decode_hs. cbn [bind]. change (fH hs_hdr) with true. cbv iota.
  unfold set_relaxed, session_new at 1. cbn [initiator].
  unfold process_rx_handshake_req. rewrite check_hs_hdr. cbn [bind].
  unfold hsreq_decode. cbn [take1 bind]. rewrite le16_value. cbn [q_ws q_mtu q_versions].
  destruct (N.eqb_spec (win_of (req_mtu gA - GATT_HDR)) 0); [lia|].
  change (versions_min (4 + 256 * 0 + 65536 * 0 + 16777216 * 0)) with 4.
  destruct (N.eqb_spec (req_mtu gA) 0); [lia|].
  cbn [relaxed].
  fold (nego_mtu gA gB rel).
  match goal with |- context[csub P_MTU_HDR ?x GATT_HDR] =>
    replace (csub P_MTU_HDR x GATT_HDR) with (Ok (nego_mtu gA gB rel) : res N) end.
  2:{ unfold nego_mtu. symmetry. apply csub_ok. unfold clamp, MIN_MTU, MAX_MTU, GATT_HDR. lia. }
  cbn [bind]. unfold initial_window_size.
  destruct (N.eqb_spec (nego_mtu gA gB rel) 0); [lia|]. cbn [bind].
  unfold setup. cbn [initiator bind]. reflexivity.
Qed.

Definition B2 (rel : bool) (aA m w : N) (oa : N) (buf : bytes) (off : N) : inner :=
  mkInner (mkSess false aA 4 m w false (mkRW [] 0 w 0 255 0) (mkSW w (w - 1) 0) rel) oa buf off.

(** step 3: the responder emits its response (its sequence number 0) *)
Lemma hs_step3 rel aA m w g t oa buf off :
  1 <= w ->
  step (B1 rel aA m w oa buf off) (OOut g t POLL_CAP) = (B2 rel aA m w oa buf off, RBytes (resp_bytes m w)).
Proof.
  intro Hw.
  unfold step, process_outgoing, B1, setup_state, set_relaxed, session_new. cbn [sess out_addr out_buf out_off hs_pending initiator
    address version mtu wsize recv send relaxed negb].
  unfold prep_tx_handshake. cbn [hs_pending initiator].
  unfold prep_tx_handshake_resp. cbn [version mtu wsize send].
  change (hdr_encode hs_hdr) with [101; 108]. unfold le16. cbn [app].
  unfold wb. match goal with |- context[N.leb (blen ?l) ?c] => assert (E6 : blen l = 6) by reflexivity end.
  rewrite E6. unfold POLL_CAP. replace (6 <=? 512) with true by reflexivity. cbn [bind].
  rewrite sw_post_send_ok by (cbn [slevel]; lia). cbn [bind swin slevel slast].
  cbn [initiator address version mtu wsize recv send relaxed].
  rewrite E6. replace (6 =? 0) with false by reflexivity. cbn [negb].
  unfold B2, resp_bytes. reflexivity.
Qed.

Definition A2 (aB m w : N) (oa : N) (buf : bytes) (off : N) : inner :=
  mkInner (mkSess true aB 4 m w false (mkRW [] 0 (w - 1) 1 0 0) (mkSW w w 255) false) oa buf off.

(** step 4: the initiator accepts the response *)
Lemma hs_step4 aB m w g oa buf off :
  20 <= m <= 244 -> 1 <= w <= 255 ->
  step (A1 oa buf off) (OIn g aB (resp_bytes m w)) = (A2 aB m w oa buf off, RUnit).
Proof.
  intros Hm Hw.
  unfold step, process_incoming, process_rx, A1, resp_bytes. cbn [sess].
  rewrite hdr_decode_hs. cbn [bind]. change (fH hs_hdr) with true. cbv iota. cbn [initiator].
  unfold process_rx_handshake_resp. rewrite check_hs_hdr. cbn [bind].
  unfold hsresp_decode. cbn [take1 bind]. rewrite le16_value. cbn [p_ws p_mtu p_version].
  unfold MIN_MTU, MAX_MTU, GATT_HDR.
  destruct (N.ltb_spec m (23 - 3)); [lia|]. destruct (N.ltb_spec (247 - 3) m); [lia|].
  destruct (N.eqb_spec w 0); [lia|]. cbn [orb bind].
  unfold setup. cbn [initiator]. rewrite csub_ok by lia. cbn [bind].
  unfold setup_state, A2. cbn [initiator relaxed negb]. reflexivity.
Qed.

(** the whole handshake, for every GATT MTU on both sides and both MTU
    negotiation modes *)
Theorem handshake_establishes c rel t1 t2 :
  let m := nego_mtu (gattA c) (gattB c) rel in
  let w := nego_win (gattA c) (gattB c) rel in
  fst (sys_run c (sys_fresh rel) [SPoll SA t1; SDeliver SB; SPoll SB t2; SDeliver SA])
    = sys_established c 4 m w rel /\
  20 <= m <= 244 /\ 1 <= w <= 255 /\ w * m + 1234 <= RX_CAP.
Proof.
  cbv zeta.
  pose proof (nego_mtu_range (gattA c) (gattB c) rel) as Hm.
  assert (Hq3 : 20 <= req_mtu (gattA c) - GATT_HDR <= 244) by (pose proof (req_mtu_range (gattA c)); unfold GATT_HDR; lia).
  destruct (win_of_range _ Hq3) as (HwA & _).
  destruct (win_of_range _ Hm) as (HwB & Hprod).
  assert (Hw : 1 <= nego_win (gattA c) (gattB c) rel <= 255) by (unfold nego_win; lia).
  assert (Hcap : nego_win (gattA c) (gattB c) rel * nego_mtu (gattA c) (gattB c) rel + 1234 <= RX_CAP).
  { unfold RX_CAP.
    assert (nego_win (gattA c) (gattB c) rel * nego_mtu (gattA c) (gattB c) rel
            <= win_of (nego_mtu (gattA c) (gattB c) rel) * nego_mtu (gattA c) (gattB c) rel)
      by (apply N.mul_le_mono_r; unfold nego_win; lia).
    lia. }
  split; [|split; [assumption|split; assumption]].
  unfold sys_fresh. fold (A0 0 [] 0). fold (B0 rel 0 [] 0).
  cbn [sys_run sys_step ep set_ep ch_to set_ch_to other gatt_of addr_of epA epB chAB chBA fst snd].
  rewrite hs_step1. unfold req_bytes at 1.
  cbn [sys_run sys_step ep set_ep ch_to set_ch_to other gatt_of addr_of epA epB chAB chBA fst snd app].
  fold (req_bytes (gattA c)). rewrite hs_step2.
  cbn [sys_run sys_step ep set_ep ch_to set_ch_to other gatt_of addr_of epA epB chAB chBA fst snd app].
  rewrite hs_step3 by lia. unfold resp_bytes at 1.
  cbn [sys_run sys_step ep set_ep ch_to set_ch_to other gatt_of addr_of epA epB chAB chBA fst snd app].
  match goal with |- context[step (A1 0 [] 0) (OIn ?g ?a ?d)] =>
    change d with (resp_bytes (nego_mtu (gattA c) (gattB c) rel) (nego_win (gattA c) (gattB c) rel)) end.
  rewrite hs_step4 by assumption.
  cbn [sys_run sys_step ep set_ep ch_to set_ch_to other gatt_of addr_of epA epB chAB chBA fst snd app].
  reflexivity.
Qed.
