(** The derived structure decoder is lenient about what it does not know
    and strict about what it needs: unknown extra fields (and any field
    order) do not change the result, an absent mandatory field is an
    error.  Plus the round trip of "naked" enums (top level only). *)
From Coq Require Import NArith ZArith List Bool Lia ZifyN ZifyBool.
From RsM Require Import Model.Tlv Model.TlvDerive Proofs.TlvFacts Proofs.TlvTotal Proofs.TlvWriter
  Proofs.TlvRoundtrip Proofs.TlvDeriveInt Proofs.TlvDeriveFacts Proofs.TlvDeriveTotal
  Proofs.TlvDeriveRoundtrip.
Import ListNotations.
Open Scope N_scope.

Definition lookup_tree (k : N) (cs : list tree) : option tree := option_map fst (lookup_ctx k cs).

(** the children written for the fields of a structure *)
Lemma denc_struct_children k fs t vs bs :
  wf_dty (DStruct k false fs) -> has_ty (DStruct k false fs) (XRec vs) -> wf_tag t ->
  denc (DStruct k false fs) t (XRec vs) = ROk bs ->
  exists cs, bs = encode (Node t k cs) /\ fields_trees fs vs cs.
Proof.
  intros Hwf Hty Ht Henc. apply wf_struct in Hwf as (Hnd & _ & Hfs).
  cbn [has_ty] in Hty. cbn [denc] in Henc.
  apply bind_ok in Henc as (body & Hbody & Henc). injection Henc as <-.
  assert (Hl : exists cs, body = encode_list cs /\ fields_trees fs vs cs).
  { clear Hnd. revert vs body Hty Hbody.
    induction fs as [|[ft fd] fr IHfr]; intros vs body Hty Hbody.
    - destruct vs; [|contradiction]. injection Hbody as <-. exists []. split; constructor.
    - destruct vs as [|fv vr]; [contradiction|]. destruct Hty as [Hx Hall].
      inversion Hfs as [|? ? [Hlt Hwfd] Hfs']; subst. cbn [fst snd] in *.
      apply bind_ok in Hbody as (a & Ha & Hbody). apply bind_ok in Hbody as (b & Hb & Hbody).
      injection Hbody as <-.
      destruct (IHfr Hfs' vr b Hall Hb) as (cs & -> & Hft).
      destruct (derive_field_ok fd (TgCtx ft) fv a Hwfd Hx Hlt Ha)
        as [(Ho & -> & ->)|(x & -> & Hwx & Hroot & _ & Hdec)].
      + exists cs. split; [reflexivity|]. apply ft_absent; assumption.
      + exists (x :: cs). split; [reflexivity|]. apply ft_present; assumption. }
  destruct Hl as (cs & -> & Hft). exists cs. split; [reflexivity|exact Hft].
Qed.

Theorem struct_decode_general k fs vs t all_cs rest :
  wf_list all_cs -> blen (encode (Node t k all_cs) ++ rest) < two63 ->
  Forall2 (field_found all_cs) fs vs ->
  ddec (DStruct k false fs) (encode (Node t k all_cs) ++ rest) = ROk (XRec vs).
Proof.
  intros Hw Hb H2.
  remember (encode (Node t k all_cs) ++ rest) as el eqn:Eel. cbn [ddec]. subst el.
  rewrite el_kind_node. cbn [rbind].
  rewrite (struct_fields_decode all_cs rest fs vs Hw); [reflexivity| |exact H2].
  rewrite encode_node, blen_app in Hb. lia.
Qed.

Lemma field_found_same_lookup cs all_cs f fv :
  lookup_tree (fst f) all_cs = lookup_tree (fst f) cs ->
  field_found cs f fv -> field_found all_cs f fv.
Proof.
  unfold field_found, lookup_tree. intros E H.
  destruct (lookup_ctx (fst f) all_cs) as [[x r]|], (lookup_ctx (fst f) cs) as [[x' r']|];
    cbn [option_map fst] in E; try discriminate; auto.
  injection E as ->. exact H.
Qed.

(** Whatever else the container holds - unknown fields anywhere, the known
    fields in any order, repeated fields after their first occurrence - the
    structure decodes to the value that was written, as long as the first
    child carrying each field's tag is the one the encoder wrote. *)
Theorem derive_struct_lenient k fs t vs bs :
  wf_dty (DStruct k false fs) -> has_ty (DStruct k false fs) (XRec vs) -> wf_tag t ->
  denc (DStruct k false fs) t (XRec vs) = ROk bs ->
  exists cs, bs = encode (Node t k cs) /\
    forall t' all_cs rest,
      wf_list all_cs ->
      (forall ft, In ft (map fst fs) -> lookup_tree ft all_cs = lookup_tree ft cs) ->
      blen (encode (Node t' k all_cs) ++ rest) < two63 ->
      ddec (DStruct k false fs) (encode (Node t' k all_cs) ++ rest) = ROk (XRec vs).
Proof.
  intros Hwf Hty Ht Henc.
  destruct (denc_struct_children k fs t vs bs Hwf Hty Ht Henc) as (cs & -> & Hft).
  exists cs. split; [reflexivity|]. intros t' all_cs rest Hw Hsame Hb.
  apply struct_decode_general; [exact Hw|exact Hb|].
  apply wf_struct in Hwf as (Hnd & _ & _).
  pose proof (fields_found fs vs cs Hft Hnd [] ltac:(intros x [])) as H2. cbn [app] in H2.
  clear -H2 Hsame. induction H2 as [|f fv fr vr Hf Hr IH]; constructor.
  - eapply field_found_same_lookup; [|exact Hf]. apply Hsame. left. reflexivity.
  - apply IH. intros ft Hin. apply Hsame. right. exact Hin.
Qed.

(** an unknown child does not disturb the lookups *)
Lemma lookup_tree_insert k pre x post :
  root_tag x <> TgCtx k -> lookup_tree k (pre ++ x :: post) = lookup_tree k (pre ++ post).
Proof.
  intros Hx. unfold lookup_tree. induction pre as [|p pre IH]; cbn [app lookup_ctx].
  - destruct (root_tag x) as [|k'| | | | | |]; try reflexivity.
    destruct (N.eqb_spec k' k); [subst; congruence|reflexivity].
  - destruct (root_tag p) as [|k'| | | | | |]; try exact IH.
    destruct (k' =? k); [reflexivity|exact IH].
Qed.

(** * An absent mandatory field is an error *)

Lemma ddec_empty_err d : is_option d = false -> exists e, ddec d [] = RErr e.
Proof.
  destruct d as [sg w| | | | | |d|d|cap d|n d|k o fs|nk vs|w16 vals]; intros Ho; try discriminate;
    try (eexists; reflexivity).
  - destruct sg, w; eexists; reflexivity.
  - destruct k; eexists; reflexivity.
  - destruct nk; eexists; reflexivity.
  - destruct w16; eexists; reflexivity.
Qed.

Lemma struct_fields_ok_inv fs : forall sq xs,
  (fix go (fs : list (N * dty)) (sq : bytes) : rres (list dval) :=
     match fs with
     | [] => ROk []
     | (ft, fd) :: fr =>
         let! e := seq_find_ctx sq ft in
         let! x := ddec fd e in
         let! xs := go fr sq in
         ROk (x :: xs)
     end) fs sq = ROk xs ->
  forall ft fd, In (ft, fd) fs -> exists e x, seq_find_ctx sq ft = ROk e /\ ddec fd e = ROk x.
Proof.
  induction fs as [|[ft0 fd0] fr IH]; intros sq xs H ft fd Hin; [contradiction|].
  apply bind_ok in H as (e & He & H). apply bind_ok in H as (x & Hx & H).
  apply bind_ok in H as (xs' & Hxs & _).
  destruct Hin as [E|Hin].
  - injection E as <- <-. eauto.
  - eapply IH; eauto.
Qed.

Theorem derive_missing_mandatory k fs t all_cs rest ft fd :
  In (ft, fd) fs -> is_option fd = false ->
  wf_list all_cs -> lookup_ctx ft all_cs = None ->
  blen (encode (Node t k all_cs) ++ rest) < two63 ->
  exists e, ddec (DStruct k false fs) (encode (Node t k all_cs) ++ rest) = RErr e.
Proof.
  intros Hin Ho Hw Hl Hb.
  pose proof (safe_ddec (DStruct k false fs) _ Hb) as Hs.
  destruct (ddec (DStruct k false fs) (encode (Node t k all_cs) ++ rest)) as [v|e| |] eqn:E;
    try contradiction; [exfalso|eauto].
  remember (encode (Node t k all_cs) ++ rest) as el eqn:Eel. cbn [ddec] in E. subst el.
  rewrite el_kind_node in E. cbn [rbind] in E.
  apply bind_ok in E as (xs & Hxs & _).
  destruct (struct_fields_ok_inv fs _ xs Hxs ft fd Hin) as (e & x & He & Hx).
  rewrite find_ctx_trees in He; [|exact Hw|rewrite encode_node, blen_app in Hb; lia].
  rewrite Hl in He. injection He as <-.
  destruct (ddec_empty_err fd Ho) as (e' & He'). congruence.
Qed.

(** * Naked enums (no enclosing structure; the variant tag replaces the tag asked for) *)

Theorem derive_naked_roundtrip vs t v bs rest :
  NoDup (map fst vs) -> Forall (fun f => fst f < 256 /\ wf_dty (snd f)) vs ->
  has_ty (DEnum true vs) v -> denc (DEnum true vs) t v = ROk bs ->
  blen (bs ++ rest) < two63 -> ddec (DEnum true vs) (bs ++ rest) = ROk v.
Proof.
  intros Hnd Hvs Hty Henc Hb. destruct v; try contradiction. cbn [has_ty] in Hty.
  cbn [denc] in Henc. apply bind_ok in Henc as (body & Hbody & Henc). injection Henc as <-.
  assert (Hp : exists vt vd, nth_error vs i = Some (vt, vd) /\ good vd (TgCtx vt) v body).
  { clear Hnd Hb. revert i Hty Hbody.
    induction vs as [|[a ad] r IHr]; intros i Hty Hbody.
    - destruct i; discriminate.
    - inversion Hvs as [|? ? [Hlt Hwad] Hvs']; subst. cbn [fst snd] in *.
      destruct i as [|i].
      + exists a, ad. split; [reflexivity|].
        apply (good_not_left _ _ _ _ (wf_dty_not_option ad Hwad)).
        apply derive_field_ok; auto. apply wf_dty_field, Hwad.
      + destruct (IHr Hvs' i Hty Hbody) as (vt & vd & Hn & Hg). exists vt, vd. split; [exact Hn|exact Hg]. }
  destruct Hp as (vt & vd & Hnth & (x & -> & Hwx & Hroot & _ & Hdec)).
  remember (encode x ++ rest) as el eqn:Eel. cbn [ddec]. subst el. cbn [rbind].
  rewrite encode_try_ctx by assumption. rewrite Hroot. cbn [rbind ok_or].
  rewrite (enum_pick_decode _ vs Hnd i vt vd O Hnth).
  rewrite Hdec by exact Hb. reflexivity.
Qed.
