(** The C02 theorems about the PASE responder model, for every reachable
    state (every sequence of window operations, handshake messages of any
    number of exchanges, time steps and aborted handlers). *)
From RsM Require Import Model.Pase Model.PaseSpec Proofs.PaseFacts.
From Coq Require Import NArith List Bool Lia ZifyN ZifyBool.
Import ListNotations.
Open Scope N_scope.

Arguments N.add : simpl never.
Arguments N.mul : simpl never.
Arguments N.sub : simpl never.
Arguments N.leb : simpl never.
Arguments N.ltb : simpl never.
Arguments N.eqb : simpl never.
Arguments N.min : simpl never.

(** ** Which steps touch the session table *)

Inductive sess_effect (s : st) (o : op) (s' : st) : Prop :=
| SeSame : sessions s' = sessions s -> sess_effect s o s'
| SeLive e : sessions s' = make_live (sessions s) e -> sess_effect s o s'
| SeCommit e w tr p d :
    o = Msg e (MP3 (P3Conf (Ca (w_vf w) tr))) ->
    win s = Some w -> now s <= w_expiry w ->
    hs_get e (hs s) = Some (AwaitP3 (w_vf w) (w_gen w) tr p) ->
    marker s = Some (e, d) -> now s <= d ->
    sessions s' = sessions s ++ [mkSess p (w_vf w) tr e false] ->
    sess_effect s o s'.

Lemma record_failure_sessions s : sessions (record_failure s) = sessions s.
Proof. pose proof (record_failure_fields s) as H. cbn in H. tauto. Qed.

Lemma update_marker_sessions s e new : sessions (fst (update_marker s e new)) = sessions s.
Proof. pose proof (update_marker_fields s e new) as H. cbn in H. tauto. Qed.

Lemma check_timeout_sessions s : sessions (fst (check_timeout s)) = sessions s.
Proof. pose proof (check_timeout_fields s) as H. cbn in H. tauto. Qed.

Lemma check_timeout_win_some s w :
  win (fst (check_timeout s)) = Some w -> win s = Some w /\ now s <= w_expiry w /\ fst (check_timeout s) = s.
Proof.
  intros H. destruct (check_timeout_cases s) as [[Hs Hle]|(w0 & Hw0 & Hx & Hc)].
  - rewrite Hs in H. auto.
  - rewrite Hc in H. pose proof (close_fields s) as Hf. cbn in Hf.
    destruct Hf as (_&_&_&_&_&_&_&Hn&_). rewrite Hn in H. discriminate.
Qed.

Lemma step_sess_effect s o : Inv s -> sess_effect s o (fst (step s o)).
Proof.
  intros I. destruct o as [b v t| | |d|e m|e]; cbn [step].
  - apply SeSame. unfold open. repeat dm; reflexivity.
  - apply SeSame. pose proof (close_fields s) as H. cbn in H. destruct (close s). cbn in *. tauto.
  - apply SeSame. pose proof (check_timeout_sessions s) as H. destruct (check_timeout s). exact H.
  - apply SeSame. reflexivity.
  - unfold step_msg. destruct (hs_get e (hs s)) as [[rq rs psid|vf g tr psid|ok]|] eqn:He.
    + destruct m; try (apply SeSame; reflexivity); apply SeSame; unfold step_p1;
        destruct (update_marker s e false) as [s1 b] eqn:Hu;
        pose proof (update_marker_sessions s e false) as Hs; rewrite Hu in Hs; cbn in Hs;
        pose proof (check_timeout_sessions s1) as Hc;
        repeat dm; cbn; rewrite ?record_failure_sessions; cbn; congruence.
    + destruct m as [r|p1|[c|]| |]; try (apply SeSame; reflexivity).
      all: unfold step_p3;
        destruct (update_marker s e false) as [s1 b] eqn:Hu;
        pose proof (update_marker_sessions s e false) as Hs; rewrite Hu in Hs; cbn in Hs;
        pose proof (check_timeout_sessions s1) as Hc.
      1,2,4,5: apply SeSame; repeat dm; cbn; rewrite ?record_failure_sessions; cbn; congruence.
      destruct b as [x|]; [apply SeSame; cbn; congruence|].
      destruct (win (fst (check_timeout s1))) as [w2|] eqn:Hw2; [|apply SeSame; cbn; congruence].
      destruct (conf_eqb c (Ca vf tr)) eqn:Hcf; [|apply SeSame; cbn; congruence].
      apply conf_eqb_eq in Hcf. subst c.
      destruct (check_timeout_win_some _ _ Hw2) as (Hw1 & Hle & Hid).
      pose proof (update_marker_fields s e false) as Hf. rewrite Hu in Hf. cbn in Hf.
      destruct Hf as (F1 & F2 & F3 & F4 & F5 & F6 & F7 & F8).
      destruct (update_marker_go _ _ _ _ Hu) as [Hm1 [[d [Hm Hd]]|[Hn _]]]; [|discriminate].
      destruct (inv_p3 s I _ _ _ _ _ _ Hm He) as (w & Hw & -> & ->).
      assert (w2 = w) by congruence. subst w2.
      eapply SeCommit; eauto; try congruence.
      cbn. rewrite Hid. congruence.
    + unfold step_ack. destruct ok; cbn.
      * eapply SeLive. reflexivity.
      * apply SeSame. rewrite record_failure_sessions. reflexivity.
    + destruct m; try (apply SeSame; reflexivity).
      apply SeSame. unfold step_req.
      destruct (update_marker s e true) as [s1 b] eqn:Hu.
      pose proof (update_marker_sessions s e true) as Hs. rewrite Hu in Hs. cbn in Hs.
      pose proof (check_timeout_sessions s1) as Hc.
      repeat dm; cbn; rewrite ?record_failure_sessions; cbn; congruence.
  - cbn. unfold step_abort. destruct (hs_get e (hs s)) as [[| |[|]]|].
    all: try (apply SeSame; rewrite ?record_failure_sessions; reflexivity).
    eapply SeLive. rewrite record_failure_sessions. reflexivity.
Qed.

(** ** C02_session_needs_open_window_and_proof / C02_bad_input_no_session *)

Lemma commits_app s x : map core (sessions s ++ [x]) = commits s ++ [core x].
Proof. unfold commits. rewrite map_app. reflexivity. Qed.

Theorem session_needs_open_window_and_proof : forall (l : list op) (o : op),
  let s := run init l in
  commits (fst (step s o)) <> commits s -> accepts s o.
Proof.
  intros l o s Hne. pose proof (reachable_inv l) as I. fold s in I.
  destruct (step_sess_effect s o I) as [Hs|e Hs|e w tr p d Ho Hw Hle He Hm Hd Hs].
  - exfalso. apply Hne. unfold commits. rewrite Hs. reflexivity.
  - exfalso. apply Hne. unfold commits. rewrite Hs. apply core_make_live.
  - exists e, (Ca (w_vf w) tr), w, tr, p, d. repeat split; assumption.
Qed.

Theorem bad_input_no_session : forall (l : list op) (o : op),
  let s := run init l in
  ~ accepts s o -> commits (fst (step s o)) = commits s.
Proof.
  intros l o s Hna. pose proof (reachable_inv l) as I. fold s in I.
  destruct (step_sess_effect s o I) as [Hs|e Hs|e w tr p d Ho Hw Hle He Hm Hd Hs].
  - unfold commits. rewrite Hs. reflexivity.
  - unfold commits. rewrite Hs. apply core_make_live.
  - exfalso. apply Hna. exists e, (Ca (w_vf w) tr), w, tr, p, d. repeat split; assumption.
Qed.

(** What is committed is the session of that exchange, keyed by that window's verifier. *)
Theorem committed_session_shape : forall (l : list op) (o : op),
  let s := run init l in
  commits (fst (step s o)) <> commits s ->
  exists e w tr p,
    win s = Some w /\ hs_get e (hs s) = Some (AwaitP3 (w_vf w) (w_gen w) tr p) /\
    commits (fst (step s o)) = commits s ++ [(p, w_vf w, tr, e)].
Proof.
  intros l o s Hne. pose proof (reachable_inv l) as I. fold s in I.
  destruct (step_sess_effect s o I) as [Hs|e Hs|e w tr p d Ho Hw Hle He Hm Hd Hs].
  - exfalso. apply Hne. unfold commits. rewrite Hs. reflexivity.
  - exfalso. apply Hne. unfold commits. rewrite Hs. apply core_make_live.
  - exists e, w, tr, p. repeat split; try assumption.
    unfold commits at 1. rewrite Hs. apply commits_app.
Qed.

(** The named bad inputs. *)

Theorem wrong_passcode_no_session : forall (l : list op) e v t w,
  let s := run init l in
  win s = Some w -> vf_pw v <> vf_pw (w_vf w) ->
  commits (fst (step s (Msg e (MP3 (P3Conf (Ca v t)))))) = commits s.
Proof.
  intros l e v t w s Hw Hpw. subst s. apply bad_input_no_session.
  intros (e' & c & w' & tr & p & d & Ho & Hw' & _ & _ & _ & _ & Hc).
  inversion Ho. subst. inversion H1. subst. rewrite Hw in Hw'. inversion Hw'. subst.
  apply Hpw. reflexivity.
Qed.

Theorem mutated_transcript_no_session : forall (l : list op) e v t vf g tr p,
  let s := run init l in
  hs_get e (hs s) = Some (AwaitP3 vf g tr p) -> t <> tr ->
  commits (fst (step s (Msg e (MP3 (P3Conf (Ca v t)))))) = commits s.
Proof.
  intros l e v t vf g tr p s He Ht. subst s. apply bad_input_no_session.
  intros (e' & c & w' & tr' & p' & d & Ho & _ & _ & He' & _ & _ & Hc).
  inversion Ho. subst. inversion H1. subst. rewrite He in He'. inversion He'. subst.
  apply Ht. reflexivity.
Qed.

Theorem other_value_no_session : forall (l : list op) e n,
  let s := run init l in
  commits (fst (step s (Msg e (MP3 (P3Conf (CaOther n)))))) = commits s.
Proof.
  intros l e n s. apply bad_input_no_session.
  intros (e' & c & w' & tr' & p' & d & Ho & _ & _ & _ & _ & _ & Hc).
  inversion Ho. subst. discriminate.
Qed.

(** An invalid or identity prover share ends the handshake of that exchange: no
    later message on it can commit a session. *)
Theorem invalid_point_ends_handshake : forall (l : list op) e pt rq rs p,
  let s := run init l in
  hs_get e (hs s) = Some (AwaitP1 rq rs p) -> point_valid pt = false ->
  let s' := fst (step s (Msg e (MP1 (P1Point pt)))) in
  commits s' = commits s /\ hs_get e (hs s') = None.
Proof.
  intros l e pt rq rs p s He Hpt s'. split.
  - apply bad_input_no_session.
    intros (e' & c & w' & tr' & p' & d & Ho & _). discriminate.
  - subst s'. cbn [step]. unfold step_msg. rewrite He. unfold step_p1.
    destruct (update_marker s e false) as [s1 b] eqn:Hu.
    pose proof (update_marker_fields s e false) as Hf. rewrite Hu in Hf. cbn in Hf.
    destruct Hf as (F1 & F2 & F3 & F4 & F5 & F6 & F7 & F8).
    pose proof (check_timeout_fields s1) as Hc. cbn in Hc.
    destruct Hc as (C1 & C3 & C4 & C5 & C6 & C7 & C8).
    rewrite Hpt.
    repeat dm; cbn [fst];
      repeat match goal with
      | |- context [hs (record_failure ?x)] =>
          let H := fresh in pose proof (record_failure_fields x) as H; cbn in H;
          destruct H as (_ & -> & _)
      end; red_st; hsrw; rewrite ?N.eqb_refl; reflexivity.
Qed.

Theorem dead_exchange_no_session : forall (l : list op) e m,
  let s := run init l in
  hs_get e (hs s) = None -> (forall r, m <> MReq r) ->
  fst (step s (Msg e m)) = s.
Proof.
  intros l e m s He Hm. cbn [step]. unfold step_msg. rewrite He.
  destruct m; try reflexivity. exfalso. eapply Hm. reflexivity.
Qed.

(** Replay: a confirmation computed for a transcript with another responder
    share (every earlier handshake has one) is refused; and the share drawn at
    PASEPake1 is new. *)
Theorem replayed_confirmation_no_session : forall (l : list op) e v t vf g tr p,
  let s := run init l in
  hs_get e (hs s) = Some (AwaitP3 vf g tr p) -> tr_pb t <> tr_pb tr ->
  commits (fst (step s (Msg e (MP3 (P3Conf (Ca v t)))))) = commits s.
Proof.
  intros l e v t vf g tr p s He Ht.
  eapply mutated_transcript_no_session; [exact He|]. intros ->. apply Ht. reflexivity.
Qed.

Theorem responder_share_is_fresh : forall (l : list op),
  let s := run init l in
  (forall e vf g tr p, hs_get e (hs s) = Some (AwaitP3 vf g tr p) -> tr_pb tr < nonce s) /\
  (forall x, In x (sessions s) -> tr_pb (s_tr x) < nonce s).
Proof.
  intros l s. pose proof (reachable_inv l) as I. fold s in I. split.
  - apply (inv_nonce s I).
  - apply (inv_sess_nonce s I).
Qed.

(** ** C02_failures_counted *)

Inductive win_effect (s s' : st) : Prop :=
| WeSame : win s' = win s -> win_effect s s'
| WeCounted w : win s = Some w -> win s' = bump w -> win_effect s s'
| WeGone : win s' = None -> win_effect s s'
| WeOpened w' : win s = None -> win s' = Some w' -> w_fail w' = 0 -> win_effect s s'.

Lemma update_marker_win s e new : win (fst (update_marker s e new)) = win s.
Proof. pose proof (update_marker_fields s e new) as H. cbn in H. tauto. Qed.

Lemma check_timeout_win s :
  win (fst (check_timeout s)) = win s \/ win (fst (check_timeout s)) = None.
Proof.
  destruct (check_timeout_cases s) as [[-> _]|(w0 & _ & _ & ->)]; [left; reflexivity|right].
  pose proof (close_fields s) as Hf. cbn in Hf. tauto.
Qed.

Lemma record_failure_effect s0 s : Inv s -> win s = win s0 \/ win s = None -> win_effect s0 (record_failure s).
Proof.
  intros I [Hw|Hw].
  - destruct (win s0) as [w|] eqn:Hw0.
    + eapply WeCounted; [exact Hw0|]. rewrite record_failure_win, Hw by exact I. reflexivity.
    + apply WeGone. rewrite record_failure_win, Hw by exact I. reflexivity.
  - apply WeGone. rewrite record_failure_win, Hw by exact I. reflexivity.
Qed.

Lemma win_effect_of s0 s : win s = win s0 \/ win s = None -> win_effect s0 s.
Proof. intros [H|H]; [apply WeSame|apply WeGone]; exact H. Qed.

Ltac wfin Hc :=
  red_st;
  first [ left; congruence | right; congruence
        | destruct Hc as [Hc|Hc]; first [ left; congruence | right; congruence ]
        | match goal with |- ?G => idtac "wfin:" G; fail 1 end ].

Lemma step_win_effect s o : Inv s -> win_effect s (fst (step s o)).
Proof.
  intros I. destruct o as [b v t| | |d|e m|e]; cbn [step].
  - unfold open. destruct (win s) eqn:Hw; [apply WeSame; cbn; congruence|].
    destruct (_ || _); [apply WeSame; cbn; congruence|].
    destruct (_ || _); [apply WeSame; cbn; congruence|].
    eapply WeOpened; cbn; eauto.
  - apply WeGone. pose proof (close_fields s) as H. cbn in H. destruct (close s). cbn in *. tauto.
  - apply win_effect_of. pose proof (check_timeout_win s) as H. destruct (check_timeout s). exact H.
  - apply WeSame. reflexivity.
  - unfold step_msg. destruct (hs_get e (hs s)) as [[rq rs psid|vf g tr psid|ok]|] eqn:He.
    + destruct m; try (apply WeSame; reflexivity); unfold step_p1;
        destruct (update_marker s e false) as [s1 b] eqn:Hu;
        pose proof (update_marker_win s e false) as Hs; rewrite Hu in Hs; cbn in Hs;
        (assert (I1 : Inv s1) by
          (replace s1 with (fst (update_marker s e false)) by (rewrite Hu; reflexivity);
           apply update_marker_inv; [exact I|intros; discriminate]));
        pose proof (check_timeout_win s1) as Hc; pose proof (check_timeout_inv s1 I1) as I2;
        repeat dm; cbn [fst];
        try (apply record_failure_effect; [apply del_inv; assumption|wfin Hc]);
        apply win_effect_of; wfin Hc.
    + destruct m as [r|p1|[c|]| |]; try (apply WeSame; reflexivity); unfold step_p3;
        destruct (update_marker s e false) as [s1 b] eqn:Hu;
        pose proof (update_marker_win s e false) as Hs; rewrite Hu in Hs; cbn in Hs;
        (assert (I1 : Inv s1) by
          (replace s1 with (fst (update_marker s e false)) by (rewrite Hu; reflexivity);
           apply update_marker_inv; [exact I|intros; discriminate]));
        pose proof (check_timeout_win s1) as Hc; pose proof (check_timeout_inv s1 I1) as I2;
        repeat dm; cbn [fst];
        try (apply record_failure_effect; [apply del_inv; assumption|wfin Hc]);
        apply win_effect_of; wfin Hc.
    + unfold step_ack. destruct ok; cbn [fst].
      * apply WeSame. reflexivity.
      * apply record_failure_effect; [apply del_inv; exact I|left; reflexivity].
    + destruct m; try (apply WeSame; reflexivity). unfold step_req.
      destruct (update_marker s e true) as [s1 b] eqn:Hu.
      pose proof (update_marker_win s e true) as Hs. rewrite Hu in Hs. cbn in Hs.
      pose proof (check_timeout_win s1) as Hc.
      destruct b as [x|]; [apply WeSame; exact Hs|].
      destruct (win s) as [w|] eqn:Hw.
      * assert (I1 : Inv s1).
        { replace s1 with (fst (update_marker s e true)) by (rewrite Hu; reflexivity).
          apply update_marker_inv; [exact I|]. intros _. split; [eauto|].
          intros vf g tr p Hx. rewrite He in Hx. discriminate. }
        pose proof (check_timeout_inv s1 I1) as I2.
        repeat dm; cbn [fst];
          try (apply record_failure_effect; [assumption|wfin Hc]);
          apply win_effect_of; wfin Hc.
      * assert (Hn : win (fst (check_timeout s1)) = None) by (destruct Hc; congruence).
        rewrite Hn. cbn. apply WeSame. red_st. congruence.
  - cbn. unfold step_abort. destruct (hs_get e (hs s)) as [[| |[|]]|].
    all: try (apply WeSame; reflexivity).
    all: try (apply record_failure_effect; [apply del_inv; exact I|left; reflexivity]).
    apply record_failure_effect; [|left; reflexivity].
    apply (make_live_inv (del s e)). apply del_inv. exact I.
Qed.

(** Every step leaves the counter alone, adds exactly one failure to it (revoking
    the window at the twentieth), closes the window, or opens a fresh one with
    a zero counter; the counter of an open window stays below twenty. *)
Theorem counter_moves_by_failures_only : forall (l : list op) (o : op),
  let s := run init l in let s' := fst (step s o) in
  (forall w, win s = Some w -> w_fail w < 20) /\
  (win s' = win s \/
   (exists w, win s = Some w /\ win s' = bump w) \/
   win s' = None \/
   (win s = None /\ exists w', win s' = Some w' /\ w_fail w' = 0)).
Proof.
  intros l o s s'. pose proof (reachable_inv l) as I. fold s in I. split; [apply (inv_fail s I)|].
  destruct (step_win_effect s o I) as [H|w Hw H|H|w' Hw H Hf]; eauto 8.
Qed.

Lemma bump_none w : w_fail w < 20 -> (bump w = None <-> w_fail w = 19).
Proof.
  intros Hf. unfold bump, MAX_FAILURES. destruct (20 <=? w_fail w + 1) eqn:Hc; beq; split; intros H;
    try discriminate; try reflexivity; lia.
Qed.

(** A confirmation that does not verify is answered InvalidParameter and leaves the
    handler waiting for the acknowledgement, nothing else changed ... *)
Theorem failed_confirmation_pending : forall (l : list op) e c vf g tr p d w,
  let s := run init l in
  hs_get e (hs s) = Some (AwaitP3 vf g tr p) -> marker s = Some (e, d) -> now s <= d ->
  win s = Some w -> now s <= w_expiry w -> c <> Ca vf tr ->
  let '(s', r) := step s (Msg e (MP3 (P3Conf c))) in
  r = OStatus StInvalidParameter /\ hs_get e (hs s') = Some (AwaitAck false) /\
  win s' = win s /\ sessions s' = sessions s.
Proof.
  intros l e c vf g tr p d w s He Hm Hd Hw Hle Hc. clearbody s.
  cbn [step]. unfold step_msg. rewrite He. unfold step_p3, update_marker.
  rewrite Hm. assert (Hx : (d <? now s) = false) by (apply N.ltb_ge; exact Hd). rewrite Hx, Hm.
  rewrite N.eqb_refl. unfold check_timeout. red_st. rewrite Hw.
  assert (Hy : (w_expiry w <? now s) = false) by (apply N.ltb_ge; exact Hle). rewrite Hy. cbn. rewrite ?Hw.
  destruct (conf_eqb c (Ca vf tr)) eqn:Hcf; [apply conf_eqb_eq in Hcf; contradiction|].
  red_st. hsrw. rewrite N.eqb_refl. auto.
Qed.

(** ... and however that handler ends (acknowledgement, any further message, or
    the retransmissions running out), the failure is counted. *)
Theorem pending_failure_counted : forall (l : list op) e,
  let s := run init l in
  hs_get e (hs s) = Some (AwaitAck false) ->
  (forall m, win (fst (step s (Msg e m))) = match win s with Some w => bump w | None => None end) /\
  win (fst (step s (Abort e))) = match win s with Some w => bump w | None => None end.
Proof.
  intros l e s He. pose proof (reachable_inv l) as I. fold s in I. split; [intros m|].
  - cbn [step]. unfold step_msg. rewrite He. unfold step_ack. cbn [fst].
    rewrite record_failure_win by (apply del_inv; exact I). reflexivity.
  - cbn [step fst]. unfold step_abort. rewrite He.
    rewrite record_failure_win by (apply del_inv; exact I). reflexivity.
Qed.

(** Failures that end the handler at once: an invalid / identity point, an
    unparsable Pake1 or Pake3, or a StatusReport from the initiator, on the
    exchange that owns the live marker. *)
Definition ends_at_once (st0 : stage) (m : msg) : Prop :=
  match st0, m with
  | AwaitP1 _ _ _, MP1 (P1Point pt) => point_valid pt = false
  | AwaitP1 _ _ _, MP1 P1Malformed => True
  | AwaitP1 _ _ _, MStatus => True
  | AwaitP3 _ _ _ _, MP3 P3Malformed => True
  | AwaitP3 _ _ _ _, MStatus => True
  | _, _ => False
  end.

Lemma check_timeout_open s w :
  win s = Some w -> now s <= w_expiry w -> check_timeout s = (s, false).
Proof.
  intros Hw Hle. unfold check_timeout. rewrite Hw.
  assert (Hy : (w_expiry w <? now s) = false) by (apply N.ltb_ge; exact Hle). rewrite Hy. reflexivity.
Qed.

Lemma update_marker_owner s e d new :
  marker s = Some (e, d) -> now s <= d ->
  update_marker s e new = (set_marker s (Some (e, now s + EST_TIMEOUT_MS)), None).
Proof.
  intros Hm Hd. unfold update_marker.
  assert (Hx : (d <? now s) = false) by (apply N.ltb_ge; exact Hd).
  rewrite Hm, Hx, Hm, N.eqb_refl. reflexivity.
Qed.

Lemma rf_del_props s e w :
  Inv s -> win s = Some w ->
  let s' := record_failure (del s e) in
  win s' = bump w /\ hs_get e (hs s') = None /\ sessions s' = sessions s.
Proof.
  intros I Hw s'. subst s'.
  pose proof (record_failure_fields (del s e)) as Hf. cbn in Hf.
  destruct Hf as (_ & Hh & Hs & _).
  rewrite record_failure_win by (apply del_inv; exact I). rewrite Hh, Hs.
  red_st. rewrite Hw, hs_get_del, N.eqb_refl. auto.
Qed.

Theorem immediate_failure_counted : forall (l : list op) e st0 m d w,
  let s := run init l in
  hs_get e (hs s) = Some st0 -> ends_at_once st0 m ->
  marker s = Some (e, d) -> now s <= d -> win s = Some w -> now s <= w_expiry w ->
  let s' := fst (step s (Msg e m)) in
  win s' = bump w /\ hs_get e (hs s') = None /\ sessions s' = sessions s.
Proof.
  intros l e st0 m d w s He Hend Hm Hd Hw Hle.
  pose proof (reachable_inv l) as I. fold s in I. clearbody s.
  set (sm := set_marker s (Some (e, now s + EST_TIMEOUT_MS))).
  assert (Im : Inv sm).
  { pose proof (update_marker_inv s e false I) as H.
    rewrite (update_marker_owner s e d false Hm Hd) in H. apply H. intros; discriminate. }
  assert (Hwm : win sm = Some w) by exact Hw.
  assert (Hcm : check_timeout sm = (sm, false)) by (apply check_timeout_open with w; assumption).
  pose proof (rf_del_props sm e w Im Hwm) as Hr. cbn zeta in Hr.
  cbn [step]. unfold step_msg. rewrite He.
  destruct st0 as [rq rs p|vf g tr p|ok]; destruct m as [r|[pt|]|[c|]| |]; cbn in Hend; try contradiction;
    unfold step_p1, step_p3; rewrite (update_marker_owner s e d false Hm Hd); fold sm;
    rewrite ?Hcm; cbn [fst]; rewrite ?Hwm, ?Hend; cbn [fst]; exact Hr.
Qed.

(** A verified handshake is not counted: when its final StatusReport is
    acknowledged the counter is where it was and the session is usable. *)
Theorem success_not_counted : forall (l : list op) e m,
  let s := run init l in
  hs_get e (hs s) = Some (AwaitAck true) ->
  let s' := fst (step s (Msg e m)) in
  win s' = win s /\ sessions s' = make_live (sessions s) e /\ marker s' = None.
Proof.
  intros l e m s He. clearbody s. cbn [step]. unfold step_msg. rewrite He. unfold step_ack. cbn. auto.
Qed.

(** ** C02_single_handshake *)

Theorem second_initiator_busy : forall (l : list op) e1 d e2 r,
  let s := run init l in
  marker s = Some (e1, d) -> now s <= d -> e2 <> e1 -> hs_get e2 (hs s) = None ->
  step s (Msg e2 (MReq r)) = (s, OStatus StBusy).
Proof.
  intros l e1 d e2 r s Hm Hd Hne He. clearbody s.
  cbn [step]. unfold step_msg. rewrite He. unfold step_req, update_marker.
  rewrite Hm. assert (Hx : (d <? now s) = false) by (apply N.ltb_ge; exact Hd). rewrite Hx, Hm.
  assert (Hq : (e1 =? e2) = false) by (apply N.eqb_neq; congruence). rewrite Hq. reflexivity.
Qed.

(** Messages on other exchanges while the marker is live: a new request is
    answered Busy and changes nothing; an older handler that lost the marker
    answers Busy and ends.  The first handshake's marker, window, sessions and
    handler are untouched.  (Excluded: another handler still waiting for the
    acknowledgement of its final StatusReport, which cannot coexist with a
    live marker of another exchange within the 60 s deadline in real time.) *)
Definition foreign (e1 : N) (o : op) : Prop := exists e2 m, o = Msg e2 m /\ e2 <> e1.
Definition no_foreign_ack (s : st) (e1 : N) : Prop :=
  forall e2 ok, e2 <> e1 -> hs_get e2 (hs s) <> Some (AwaitAck ok).

Lemma foreign_step s e1 d o :
  marker s = Some (e1, d) -> now s <= d -> no_foreign_ack s e1 -> foreign e1 o ->
  let s' := fst (step s o) in
  (s' = s \/ exists e2, e2 <> e1 /\ s' = del s e2) /\
  (forall r, (exists e2, o = Msg e2 (MReq r) /\ hs_get e2 (hs s) = None) -> snd (step s o) = OStatus StBusy).
Proof.
  intros Hm Hd Hna (e2 & m & -> & Hne).
  assert (Hx : (d <? now s) = false) by (apply N.ltb_ge; exact Hd).
  assert (Hq : (e1 =? e2) = false) by (apply N.eqb_neq; congruence).
  cbn [step]. unfold step_msg.
  destruct (hs_get e2 (hs s)) as [[rq rs p|vf g tr p|ok]|] eqn:He.
  - split; [|intros r (e3 & Ho & He3); inversion Ho; subst; congruence].
    destruct m; try (left; reflexivity); unfold step_p1, update_marker; rewrite Hm, Hx, Hm, Hq; cbn; eauto.
  - split; [|intros r (e3 & Ho & He3); inversion Ho; subst; congruence].
    destruct m; try (left; reflexivity); unfold step_p3, update_marker; rewrite Hm, Hx, Hm, Hq; cbn; eauto.
  - exfalso. eapply Hna; eassumption.
  - split.
    + destruct m; try (left; reflexivity). unfold step_req, update_marker. rewrite Hm, Hx, Hm, Hq. cbn. auto.
    + intros r (e3 & Ho & He3). inversion Ho. subst. unfold step_req, update_marker. rewrite Hm, Hx, Hm, Hq. reflexivity.
Qed.

Theorem first_handshake_undisturbed : forall (l : list op) (k : list op) e1 d,
  let s := run init l in
  marker s = Some (e1, d) -> now s <= d -> no_foreign_ack s e1 -> Forall (foreign e1) k ->
  let s' := run s k in
  marker s' = marker s /\ win s' = win s /\ sessions s' = sessions s /\
  hs_get e1 (hs s') = hs_get e1 (hs s) /\ now s' = now s /\ nonce s' = nonce s.
Proof.
  intros l k e1 d s. generalize s. clear s l.
  induction k as [|o t IH]; intros s Hm Hd Hna Hf; cbn [run]; [auto 8|].
  inversion Hf as [|? ? Ho Ht]. subst.
  destruct (foreign_step s e1 d o Hm Hd Hna Ho) as [[Hs|(e2 & Hne & Hs)] _].
  - rewrite Hs. apply IH; assumption.
  - rewrite Hs.
    assert (H1 : marker (del s e2) = Some (e1, d)) by exact Hm.
    assert (H3 : no_foreign_ack (del s e2) e1).
    { intros e3 ok Hne3 Hc. red_st. rewrite hs_get_del in Hc. destruct (e2 =? e3); [discriminate|].
      eapply Hna; eassumption. }
    destruct (IH (del s e2) H1 Hd H3 Ht) as (A & B & C & D & E & F).
    rewrite A, B, C, D, E, F. red_st. rewrite hs_get_del.
    assert (Hq : (e2 =? e1) = false) by (apply N.eqb_neq; exact Hne). rewrite Hq. auto 8.
Qed.

(** ** C02_advertised_iff_open *)

Theorem advertised_iff_open : forall (l : list op),
  let s := run init l in
  (advertised s = true <-> exists w, win s = Some w) /\
  (forall w, win s = Some w -> now s <= w_expiry w + since_poll s).
Proof.
  intros l s. pose proof (reachable_inv l) as I. fold s in I. split.
  - unfold advertised. destruct (win s); split; intros H; eauto; try discriminate.
    destruct H as [w H]. discriminate.
  - apply (inv_poll s I).
Qed.

(** Right after a periodic check the advertised window is unexpired. *)
Theorem polled_window_unexpired : forall (l : list op),
  let s := fst (step (run init l) Poll) in
  since_poll s = 0 /\ forall w, win s = Some w -> now s <= w_expiry w.
Proof.
  intros l s.
  assert (I : Inv s) by (apply step_inv, reachable_inv).
  assert (H0 : since_poll s = 0).
  { subst s. cbn [step]. destruct (check_timeout (run init l)). reflexivity. }
  split; [exact H0|]. intros w Hw. pose proof (inv_poll s I w Hw). lia.
Qed.

(** If the periodic check runs at least every [P] ms, an advertised window is at most [P] ms past its expiry. *)
Fixpoint polled_within (P : N) (acc : N) (l : list op) : Prop :=
  match l with
  | [] => True
  | Poll :: t => polled_within P 0 t
  | Advance d :: t => acc + d <= P /\ polled_within P (acc + d) t
  | _ :: t => polled_within P acc t
  end.

Lemma since_poll_bound P : forall l s, since_poll s <= P -> polled_within P (since_poll s) l ->
  since_poll (run s l) <= P.
Proof.
  induction l as [|o t IH]; intros s Hs Hp; cbn [run]; [exact Hs|].
  assert (Hsame : forall s', since_poll s' = since_poll s -> polled_within P (since_poll s) t ->
                             since_poll (run s' t) <= P).
  { intros s' He Hq. apply IH; rewrite He; assumption. }
  destruct o as [b v tm| | |d|e m|e]; cbn [polled_within] in Hp.
  - apply Hsame; [|exact Hp]. cbn [step]. unfold open. repeat dm; reflexivity.
  - apply Hsame; [|exact Hp]. cbn [step]. pose proof (close_fields s) as H. cbn in H.
    destruct (close s). cbn in *. tauto.
  - apply IH.
    + cbn [step]. destruct (check_timeout s). cbn. lia.
    + cbn [step]. destruct (check_timeout s). cbn. exact Hp.
  - destruct Hp as [Hle Hp]. apply IH; cbn; assumption.
  - apply Hsame; [|exact Hp]. cbn [step]. unfold step_msg.
    repeat dm; try reflexivity; unfold step_req, step_p1, step_p3, step_ack;
      repeat match goal with
      | |- context [update_marker ?a ?b ?c] =>
          let H := fresh in let Hu := fresh in
          pose proof (update_marker_fields a b c) as H; cbn in H;
          destruct (update_marker a b c) eqn:Hu; cbn in H
      end;
      repeat dm; cbn [fst];
      repeat match goal with
      | |- context [record_failure ?x] =>
          let H := fresh in pose proof (record_failure_fields x) as H; cbn in H;
          destruct H as (_ & _ & _ & _ & _ & _ & -> & _)
      end; red_st;
      repeat match goal with
      | |- context [check_timeout ?x] =>
          let H := fresh in pose proof (check_timeout_fields x) as H; cbn in H;
          destruct H as (_ & _ & _ & _ & _ & _ & ->)
      end; try tauto; try reflexivity.
  - apply Hsame; [|exact Hp]. cbn [step fst]. unfold step_abort.
    repeat dm; try reflexivity;
      match goal with
      | |- context [record_failure ?x] =>
          let H := fresh in pose proof (record_failure_fields x) as H; cbn in H;
          destruct H as (_ & _ & _ & _ & _ & _ & -> & _)
      end; reflexivity.
Qed.

Theorem advertised_at_most_polling_period_late : forall (P : N) (l : list op),
  polled_within P 0 l ->
  let s := run init l in
  forall w, win s = Some w -> now s <= w_expiry w + P.
Proof.
  intros P l Hp s w Hw.
  pose proof (reachable_inv l) as I. fold s in I.
  pose proof (inv_poll s I w Hw) as H1.
  assert (H2 : since_poll s <= P).
  { subst s. apply since_poll_bound; cbn; [lia|exact Hp]. }
  lia.
Qed.
