(** [WriteBuf] with a capacity: a write that does not fit fails with
    NoSpace and whatever was written before is still there; rewinding to a
    recorded anchor restores exactly the earlier bytes; the derived
    structure encoders are atomic. *)
From Coq Require Import NArith ZArith List Bool Lia ZifyN ZifyBool.
From RsM Require Import Model.Tlv Model.TlvDerive Model.TlvBuf Proofs.TlvFacts Proofs.TlvDeriveFacts.
Import ListNotations.
Open Scope N_scope.

Definition wb_ok (w : wbuf) : Prop :=
  wb_size w <= blen (wb_mem w) /\ wb_start w <= wb_end w /\ wb_end w <= wb_size w.

(** [w'] still holds, below [a], what [w] held there *)
Definition pres (a : N) (w w' : wbuf) : Prop :=
  wb_ok w' /\ wb_size w' = wb_size w /\ wb_start w' = wb_start w /\
  length (wb_mem w') = length (wb_mem w) /\ a <= wb_end w' /\
  firstn (N.to_nat a) (wb_mem w') = firstn (N.to_nat a) (wb_mem w).

Lemma pres_refl a w : wb_ok w -> a <= wb_end w -> pres a w w.
Proof. intros H Ha. repeat split; try apply H; auto. Qed.

Lemma pres_trans a w1 w2 w3 : pres a w1 w2 -> pres a w2 w3 -> pres a w1 w3.
Proof.
  intros (O2 & S2 & T2 & L2 & A2 & F2) (O3 & S3 & T3 & L3 & A3 & F3).
  repeat split; try apply O3; congruence.
Qed.

Lemma firstn_mono {A} (a b : list A) k n :
  (k <= n)%nat -> firstn n a = firstn n b -> firstn k a = firstn k b.
Proof.
  intros H E. rewrite <- (Nat.min_l k n H), <- !firstn_firstn, E. reflexivity.
Qed.

Lemma pres_weaken a a' w w' : a' <= a -> pres a w w' -> pres a' w w'.
Proof.
  intros H (O & S & T & L & A & F). repeat split; try apply O; auto; [lia|].
  eapply firstn_mono; [|exact F]. lia.
Qed.

Lemma upd_length i b l : (i < length l)%nat -> length (upd i b l) = length l.
Proof.
  intros H. unfold upd. rewrite app_length. cbn [length]. rewrite firstn_length, skipn_length. lia.
Qed.

Lemma upd_firstn_le i b l k :
  (i <= length l)%nat -> (k <= i)%nat -> firstn k (upd i b l) = firstn k l.
Proof.
  intros Hi H. unfold upd. rewrite firstn_app, firstn_firstn.
  replace (Nat.min k i) with k by lia.
  rewrite firstn_length_le by lia. replace (k - i)%nat with O by lia. cbn [firstn].
  apply app_nil_r.
Qed.

Lemma upd_firstn_S i b l : (i < length l)%nat -> firstn (S i) (upd i b l) = firstn i l ++ [b].
Proof.
  intros H. unfold upd. rewrite firstn_app, firstn_firstn.
  replace (Nat.min (S i) i) with i by lia. rewrite firstn_length_le by lia.
  replace (S i - i)%nat with 1%nat by lia. reflexivity.
Qed.

(** * One byte *)

Lemma wb_write_ok w b :
  wb_ok w -> wb_end w + 1 <= wb_size w ->
  exists w', wb_write w b = (ROk tt, w') /\ pres (wb_end w) w w' /\ wb_end w' = wb_end w + 1 /\
    firstn (N.to_nat (wb_end w + 1)) (wb_mem w') = firstn (N.to_nat (wb_end w)) (wb_mem w) ++ [b].
Proof.
  intros (Hs & Hst & He) Hfit. unfold wb_write.
  destruct (N.leb_spec (wb_end w + 1) (wb_size w)); [|lia].
  destruct (N.ltb_spec (wb_end w) (blen (wb_mem w))); [|lia].
  eexists. split; [reflexivity|].
  assert (Hi : (N.to_nat (wb_end w) < length (wb_mem w))%nat) by (unfold blen in *; lia).
  repeat split; cbn [wb_mem wb_size wb_start wb_end].
  - unfold blen in *. rewrite upd_length by exact Hi. lia.
  - lia.
  - lia.
  - apply upd_length, Hi.
  - lia.
  - apply upd_firstn_le; lia.
  - replace (N.to_nat (wb_end w + 1)) with (S (N.to_nat (wb_end w))) by lia.
    apply upd_firstn_S, Hi.
Qed.

Lemma wb_write_full w b :
  wb_size w < wb_end w + 1 -> wb_write w b = (RErr E_NOSPACE, w).
Proof. intros H. unfold wb_write. destruct (N.leb_spec (wb_end w + 1) (wb_size w)); [lia|reflexivity]. Qed.

(** * A run of bytes: all of them, or as many as fit and then NoSpace *)

Theorem wb_write_all_spec bs : forall w,
  wb_ok w ->
  let k := N.min (blen bs) (wb_size w - wb_end w) in
  exists w',
    wb_write_all w bs =
      ((if blen bs <=? wb_size w - wb_end w then ROk tt else RErr E_NOSPACE), w') /\
    pres (wb_end w) w w' /\ wb_end w' = wb_end w + k /\
    firstn (N.to_nat (wb_end w + k)) (wb_mem w')
      = firstn (N.to_nat (wb_end w)) (wb_mem w) ++ firstn (N.to_nat k) bs.
Proof.
  induction bs as [|b bs IH]; intros w Hok k.
  - exists w. subst k. rewrite blen_nil. cbn [wb_write_all]. rewrite N.min_0_l.
    destruct (N.leb_spec 0 (wb_size w - wb_end w)); [|lia].
    split; [reflexivity|]. split; [apply pres_refl; [exact Hok|lia]|].
    split; [lia|]. rewrite N.add_0_r. cbn [N.to_nat firstn]. rewrite app_nil_r. reflexivity.
  - cbn [wb_write_all]. destruct (N.leb_spec (wb_end w + 1) (wb_size w)) as [Hfit|Hfull].
    + destruct (wb_write_ok w b Hok Hfit) as (w1 & E1 & P1 & End1 & F1). rewrite E1.
      pose proof P1 as (Ok1 & S1 & T1 & L1 & A1 & Pre1).
      destruct (IH w1 Ok1) as (w2 & E2 & P2 & End2 & F2). rewrite E2.
      exists w2. subst k. rewrite blen_cons in *. rewrite S1, End1 in *.
      split.
      { f_equal. destruct (N.leb_spec (blen bs) (wb_size w - (wb_end w + 1))),
                          (N.leb_spec (1 + blen bs) (wb_size w - wb_end w)); try reflexivity; lia. }
      split.
      { eapply pres_trans; [exact P1|]. eapply pres_weaken; [|exact P2]. lia. }
      split; [lia|].
      replace (wb_end w + N.min (1 + blen bs) (wb_size w - wb_end w))
        with (wb_end w + 1 + N.min (blen bs) (wb_size w - (wb_end w + 1))) by lia.
      rewrite F2, F1, <- app_assoc. f_equal.
      replace (N.to_nat (N.min (1 + blen bs) (wb_size w - wb_end w)))
        with (S (N.to_nat (N.min (blen bs) (wb_size w - (wb_end w + 1))))) by lia.
      reflexivity.
    + rewrite wb_write_full by lia. exists w. subst k. rewrite blen_cons.
      destruct Hok as (Hs & Hst & He).
      replace (N.min (1 + blen bs) (wb_size w - wb_end w)) with 0 by lia.
      destruct (N.leb_spec (1 + blen bs) (wb_size w - wb_end w)); [lia|].
      split; [reflexivity|]. split; [apply pres_refl; [repeat split; assumption|lia]|].
      split; [lia|]. rewrite N.add_0_r. cbn [N.to_nat firstn]. rewrite app_nil_r. reflexivity.
Qed.

Lemma wb_write_all_pres bs w a :
  wb_ok w -> a <= wb_end w -> pres a w (snd (wb_write_all w bs)).
Proof.
  intros Hok Ha. destruct (wb_write_all_spec bs w Hok) as (w' & E & P & _). rewrite E. cbn [snd].
  eapply pres_weaken; [exact Ha|exact P].
Qed.

Lemma wb_write_all_code bs w :
  wb_ok w ->
  fst (wb_write_all w bs) = if blen bs <=? wb_size w - wb_end w then ROk tt else RErr E_NOSPACE.
Proof. intros Hok. destruct (wb_write_all_spec bs w Hok) as (w' & E & _). rewrite E. reflexivity. Qed.

Lemma wb_rewind_pres w a p :
  wb_ok w -> wb_start w <= p -> a <= p -> p <= wb_size w -> a <= wb_end w ->
  pres a w (wb_rewind_to w p).
Proof.
  intros (Hs & Hst & He) H1 H2 H3 H4. unfold wb_rewind_to.
  repeat split; cbn [wb_mem wb_size wb_start wb_end]; auto.
Qed.

(** * Scripts: writes, anchors, rewinds *)

Lemma wb_run_pres ops : forall w anchors a,
  wb_ok w -> wb_start w <= a -> a <= wb_end w ->
  Forall (fun p => a <= p /\ p <= wb_size w) anchors ->
  pres a w (snd (wb_run w anchors ops)).
Proof.
  induction ops as [|o ops IH]; intros w anchors a Hok Hsa Ha Han.
  - apply pres_refl; assumption.
  - destruct o as [o| |k]; cbn [wb_run].
    + unfold wb_op. pose proof (wb_write_all_pres (w_op o) w a Hok Ha) as P.
      destruct (wb_write_all w (w_op o)) as [res w1]. cbn [snd] in P.
      pose proof P as (O1 & S1 & T1 & L1 & A1 & F1).
      specialize (IH w1 anchors a O1 ltac:(lia) A1).
      destruct (wb_run w1 anchors ops) as [rs w2]. cbn [snd] in *.
      eapply pres_trans; [exact P|]. apply IH.
      eapply Forall_impl; [|exact Han]. intros p Hp. cbn beta in *. lia.
    + apply IH; auto. apply Forall_app. split; [exact Han|].
      constructor; [|constructor]. unfold wb_get_tail. destruct Hok as (_ & _ & He). lia.
    + destruct (nth_error anchors k) as [p|] eqn:E.
      * rewrite Forall_forall in Han. destruct (Han p (nth_error_In _ _ E)) as [Hp1 Hp2].
        assert (P : pres a w (wb_rewind_to w p)) by (apply wb_rewind_pres; auto; lia).
        pose proof P as (O1 & S1 & T1 & L1 & A1 & F1).
        eapply pres_trans; [exact P|]. apply IH; [exact O1|lia|exact A1|].
        apply Forall_forall. intros q Hq. specialize (Han q Hq). cbn [wb_rewind_to wb_size]. exact Han.
      * apply IH; auto.
Qed.

Lemma wb_as_slice_ok w :
  wb_ok w ->
  wb_as_slice w = ROk (skipn (N.to_nat (wb_start w)) (firstn (N.to_nat (wb_end w)) (wb_mem w))).
Proof.
  intros (Hs & Hst & He). unfold wb_as_slice.
  destruct (N.leb_spec (wb_start w) (wb_end w)); [|lia].
  destruct (N.leb_spec (wb_end w) (blen (wb_mem w))); [|lia]. cbn [andb]. f_equal.
  rewrite firstn_skipn_comm. f_equal. f_equal. lia.
Qed.

Lemma pres_same_end_slice w w' :
  wb_ok w -> pres (wb_end w) w w' -> wb_end w' = wb_end w -> wb_as_slice w' = wb_as_slice w.
Proof.
  intros Hok (O & S & T & L & A & F) E.
  rewrite (wb_as_slice_ok w Hok), (wb_as_slice_ok w' O), T, E, F. reflexivity.
Qed.

(** whatever is written after an anchor, with whatever outcome, rewinding to
    the anchor gives back exactly the buffer contents at the anchor *)
Lemma wb_run_then_rewind ops : forall w anchors a0,
  wb_ok w -> wb_start w <= a0 -> a0 <= wb_end w ->
  Forall (fun p => a0 <= p /\ p <= wb_size w) anchors ->
  nth_error anchors 0 = Some a0 ->
  wb_end (snd (wb_run w anchors (ops ++ [BRewind 0]))) = a0 /\
  pres a0 w (snd (wb_run w anchors (ops ++ [BRewind 0]))).
Proof.
  intros w anchors a0 Hok Hs Ha Han H0. split; [|apply wb_run_pres; assumption].
  revert w anchors Hok Hs Ha Han H0.
  induction ops as [|o ops IH]; intros w anchors Hok Hs Ha Han H0.
  - cbn [app wb_run]. rewrite H0. reflexivity.
  - destruct o as [o| |k]; cbn [app wb_run].
    + unfold wb_op. pose proof (wb_write_all_pres (w_op o) w a0 Hok Ha) as P.
      destruct (wb_write_all w (w_op o)) as [res w1]. cbn [snd] in P.
      pose proof P as (O1 & S1 & T1 & L1 & A1 & F1).
      specialize (IH w1 anchors O1 ltac:(lia) A1).
      destruct (wb_run w1 anchors (ops ++ [BRewind 0])) as [rs w2]. cbn [snd] in *.
      apply IH; [|exact H0]. eapply Forall_impl; [|exact Han]. intros p Hp. cbn beta in *. lia.
    + apply IH; auto.
      * apply Forall_app. split; [exact Han|]. constructor; [|constructor].
        unfold wb_get_tail. destruct Hok as (_ & _ & He). lia.
      * destruct anchors; [discriminate|exact H0].
    + destruct (nth_error anchors k) as [p|] eqn:E.
      * rewrite Forall_forall in Han. destruct (Han p (nth_error_In _ _ E)) as [Hp1 Hp2].
        assert (P : pres a0 w (wb_rewind_to w p)) by (apply wb_rewind_pres; auto; lia).
        pose proof P as (O1 & S1 & T1 & L1 & A1 & F1).
        apply IH; [exact O1|lia|exact A1| |exact H0].
        apply Forall_forall. intros q Hq. specialize (Han q Hq). cbn [wb_rewind_to wb_size]. exact Han.
      * apply IH; auto.
Qed.

Theorem wb_anchor_rewind_restores w ops :
  wb_ok w ->
  let w' := snd (wb_run w [] (BAnchor :: ops ++ [BRewind 0])) in
  wb_as_slice w' = wb_as_slice w /\ wb_end w' = wb_end w /\
  firstn (N.to_nat (wb_end w)) (wb_mem w') = firstn (N.to_nat (wb_end w)) (wb_mem w).
Proof.
  intros Hok w'. subst w'. cbn [wb_run app]. unfold wb_get_tail.
  pose proof Hok as (Hs & Hst & He).
  destruct (wb_run_then_rewind ops w [wb_end w] (wb_end w) Hok Hst ltac:(lia)
              ltac:(constructor; [lia|constructor]) eq_refl) as [Hend P].
  split; [apply pres_same_end_slice; assumption|]. split; [exact Hend|]. apply P.
Qed.

(** * The derived encoders on a buffer *)

Definition step := wbuf -> rres unit * wbuf.

(** [f] never touches what lies below the end of the buffer it is given *)
Definition keeps (f : step) : Prop :=
  forall w a, wb_ok w -> wb_start w <= a -> a <= wb_end w -> pres a w (snd (f w)).

Lemma keeps_write_all bs : keeps (fun w => wb_write_all w bs).
Proof. intros w a Hok _ Ha. apply wb_write_all_pres; assumption. Qed.

Lemma keeps_id r : keeps (fun w => (r, w)).
Proof. intros w a Hok _ Ha. apply pres_refl; assumption. Qed.

Lemma keeps_seqw A B : keeps A -> keeps B -> keeps (seqw A B).
Proof.
  intros HA HB w a Hok Hs Ha. unfold seqw. pose proof (HA w a Hok Hs Ha) as P.
  destruct (A w) as [r w1]. cbn [snd] in P. destruct r; try exact P.
  pose proof P as (O1 & S1 & T1 & L1 & A1 & F1).
  eapply pres_trans; [exact P|]. apply HB; auto. lia.
Qed.

Lemma keeps_with_anchor body : keeps body -> keeps (fun w => with_anchor w body).
Proof.
  intros Hb w a Hok Hs Ha. unfold with_anchor, wb_get_tail. pose proof (Hb w a Hok Hs Ha) as P.
  destruct (body w) as [r w1]. cbn [snd] in P. destruct r; try exact P;
    (pose proof P as (O1 & S1 & T1 & L1 & A1 & F1); eapply pres_trans; [exact P|];
     destruct Hok as (? & ? & ?); apply wb_rewind_pres; auto; lia).
Qed.

Theorem denc_wb_keeps d : forall t v, keeps (denc_wb d t v).
Proof.
  induction d as [sg wd| | | | | |d IH|d IH|cap d IH|n d IH|k o fs IH|nk vs IH|w16 vals] using dty_ind2;
    intros t v; destruct v; cbn [denc_wb]; try apply keeps_id; try apply keeps_write_all; auto.
  - (* DNullable, XNN *)
    destruct d; auto; destruct v; auto.
    + destruct (_ =? _)%Z; [apply keeps_id|auto].
    + destruct (nth_error vals i); [|apply keeps_id]. destruct (_ =? _); [apply keeps_id|auto].
  - (* DVec *)
    apply keeps_seqw; [apply keeps_write_all|]. apply keeps_seqw; [|apply keeps_write_all].
    induction l as [|x r IHr]; [apply keeps_id|]. apply keeps_seqw; [apply IH|exact IHr].
  - (* DFixed *)
    apply keeps_seqw; [apply keeps_write_all|]. apply keeps_seqw; [|apply keeps_write_all].
    induction l as [|x r IHr]; [apply keeps_id|]. apply keeps_seqw; [apply IH|exact IHr].
  - (* DStruct *)
    apply keeps_with_anchor. apply keeps_seqw; [apply keeps_write_all|].
    apply keeps_seqw; [|apply keeps_write_all].
    revert l. induction IH as [|[ft fd] fr Hfd Hfr IHfr]; intros l.
    + destruct l; apply keeps_id.
    + destruct l as [|fv vr]; [apply keeps_id|]. apply keeps_seqw; [apply Hfd|apply IHfr].
  - (* DEnum *)
    apply keeps_with_anchor.
    assert (Hpick : keeps
      ((fix pick (vs : list (N * dty)) (i : nat) (w : wbuf) : rres unit * wbuf :=
          match vs, i with
          | (vt, vd) :: _, O => denc_wb vd (TgCtx vt) v w
          | _ :: r, S j => pick r j w
          | [], _ => (RErr E_ILL, w)
          end) vs i)).
    { revert i. induction IH as [|[a ad] r Had Hr IHr]; intros i.
      - destruct i; apply keeps_id.
      - destruct i as [|i]; [apply Had|apply IHr]. }
    destruct nk; [exact Hpick|].
    apply keeps_seqw; [apply keeps_write_all|]. apply keeps_seqw; [exact Hpick|apply keeps_write_all].
  - (* DUnit *)
    destruct (nth_error vals i); [|apply keeps_id].
    apply (keeps_with_anchor (fun w => wb_write_all w (if w16 then w_u16 t n else w_u8 t n))).
    apply keeps_write_all.
Qed.

(** a derived structure / enum that cannot be written completely leaves the
    buffer exactly as it found it *)
Theorem denc_wb_atomic d t v w :
  atomic_ty d = true -> wb_ok w ->
  fst (denc_wb d t v w) <> ROk tt ->
  wb_end (snd (denc_wb d t v w)) = wb_end w /\ wb_as_slice (snd (denc_wb d t v w)) = wb_as_slice w.
Proof.
  intros Hat Hok Hfail.
  assert (Hend : wb_end (snd (denc_wb d t v w)) = wb_end w).
  { destruct d; try discriminate; destruct v; cbn [denc_wb] in *; try reflexivity.
    - unfold with_anchor in *. destruct (seqw _ _ w) as [[[]| | |] w1]; cbn [fst snd] in *;
        try reflexivity; congruence.
    - unfold with_anchor in *.
      match goal with |- context [match ?X with _ => _ end] => destruct X as [[[]| | |] w1] end;
        cbn [fst snd] in *; try reflexivity; congruence.
    - destruct (nth_error vals i); [|reflexivity]. unfold with_anchor in *.
      destruct (wb_write_all w _) as [[[]| | |] w1]; cbn [fst snd] in *; try reflexivity; congruence. }
  split; [exact Hend|]. apply pres_same_end_slice; [exact Hok| |exact Hend].
  destruct Hok as (Hs & Hst & He). apply denc_wb_keeps; [repeat split; assumption|exact Hst|lia].
Qed.
