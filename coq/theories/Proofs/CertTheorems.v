(** Theorems about the certificate-chain model: verifier = declarative
    rule conjunction (for every chain), wrappers, rule independence. *)
From Coq Require Import ZifyN ZifyBool.
From RsM Require Import Lib.MachInt Model.Cert Model.CertSpec Proofs.CertFacts.
Open Scope N_scope.

Arguments N.add : simpl never.
Arguments N.sub : simpl never.
Arguments N.div : simpl never.
Arguments N.modulo : simpl never.
Arguments N.land : simpl never.
Arguments N.eqb : simpl never.
Arguments N.ltb : simpl never.
Arguments N.leb : simpl never.

(** ** The loop *)

Lemma forall_rules_cons : forall t l ls,
  (forall r, forallb (rule_link t r) (l :: ls) = true) <->
  (link_okb t l = true /\ forall r, forallb (rule_link t r) ls = true).
Proof.
  intros t l ls. rewrite link_okb_iff. cbn [forallb]. split.
  - intros H. split; intros r; specialize (H r); apply andb_true_iff in H; tauto.
  - intros [H1 H2] r. rewrite H1, H2. reflexivity.
Qed.

Lemma verify_from_iff : forall t rest d c,
  d + N.of_nat (length rest) <= 255 ->
  (verify_from t d c rest = Ok tt <->
   forall r, forallb (rule_link t r) (links_from d c rest) = true).
Proof.
  intros t rest. induction rest as [|p rest IH]; intros d c Hlen.
  - cbn [verify_from links_from]. rewrite forall_rules_cons, step_ok_iff.
    cbn [forallb]. tauto.
  - cbn [verify_from links_from]. rewrite forall_rules_cons.
    cbn [length] in Hlen.
    assert (Hs : sat_inc d = d + 1) by (unfold sat_inc; destruct (N.ltb_spec d 255); lia).
    rewrite Hs. rewrite <- IH by lia. rewrite <- step_ok_iff.
    unfold bind. destruct (step t d c p false) as [[]|e|s]; split;
      try tauto; try (intros [H _]; discriminate H); try discriminate.
Qed.

Theorem accept_iff_valid : forall (t : clock) (cs : list cert),
  N.of_nat (length cs) <= 256 ->
  (verify_chain t cs = Ok tt <-> chain_valid t cs).
Proof.
  intros t [|c rest] Hlen; unfold chain_valid, rule_holds, verify_chain, links.
  - split; [discriminate|]. intros H. specialize (H RSigned). discriminate.
  - cbn [length] in Hlen. apply verify_from_iff. lia.
Qed.

Lemma chain_validb_iff : forall t cs, chain_validb t cs = true <-> chain_valid t cs.
Proof.
  intros t cs. unfold chain_validb, chain_valid. rewrite forallb_forall. split.
  - intros H r. apply H, all_rules_complete.
  - intros H r _. apply H.
Qed.

Theorem verifier_computes_spec : forall (t : clock) (cs : list cert),
  N.of_nat (length cs) <= 256 ->
  (match verify_chain t cs with Ok _ => true | _ => false end) = chain_validb t cs.
Proof.
  intros t cs Hlen. pose proof (accept_iff_valid t cs Hlen) as H.
  rewrite <- chain_validb_iff in H.
  destruct (verify_chain t cs) as [[]|e|s], (chain_validb t cs); try reflexivity;
    try (destruct H as [H1 H2]; (discriminate (H1 eq_refl) || discriminate (H2 eq_refl))).
Qed.

(** ** What the rules say, in plain terms *)

Definition rule_meaning (t : clock) (r : rule) (l : link) : Prop :=
  let c := l_child l in
  let p := l_parent l in
  match r with
  | RSigned => signer c = Some (pubkey p)
  | RKeyId => exists k, skid p = Some k /\ akid c = Some k
  | RName => issuer c = subject p
  | RNotAfter => not_after c = 0 \/ any_secs t <= not_after c
  | RNotBefore => forall s, reliable_secs t = Some s -> not_before c <= s
  | RNoCritical => crit_ext c = false
  | RLeafType => is_leaf l = true -> cert_type_of (subject c) = Some TNoc
  | RLeafNotCa => is_leaf l = true -> exists pl, bc c = Some (false, pl)
  | RLeafKeyUsage =>
      is_leaf l = true -> exists k, ku c = Some k /\ N.land k KU_DIGITAL_SIGNATURE <> 0
  | RLeafExtKeyUsage =>
      is_leaf l = true -> exists e, eku c = Some e /\ In EKU_SERVER_AUTH e /\ In EKU_CLIENT_AUTH e
  | RAuthType =>
      is_leaf l = false ->
      cert_type_of (subject c) = Some TIcac \/ cert_type_of (subject c) = Some TRcac
  | RAuthIsCa => is_leaf l = false -> exists pl, bc c = Some (true, pl)
  | RAuthKeyUsage =>
      is_leaf l = false -> exists k, ku c = Some k /\ N.land k KU_KEY_CERT_SIGN <> 0
  | RAuthPathLen =>
      is_leaf l = false -> forall ca m, bc c = Some (ca, Some m) -> l_depth l - 1 <= m
  end.

Lemma mem_In : forall x l, mem x l = true <-> In x l.
Proof.
  intros x l. unfold mem. rewrite existsb_exists. split.
  - intros (y & Hy & E). apply N.eqb_eq in E. subst. exact Hy.
  - intros H. exists x. split; [exact H|apply N.eqb_refl].
Qed.

Lemma has_bits_iff : forall v m, has_bits v m = true <-> N.land v m <> 0.
Proof.
  intros v m. unfold has_bits. destruct (N.eqb_spec (N.land v m) 0); cbn; split;
    intros; try discriminate; try reflexivity; try contradiction; assumption.
Qed.

Lemma rule_link_meaning : forall t r l, rule_link t r l = true <-> rule_meaning t r l.
Proof.
  intros t r l. destruct r; unfold rule_link, rule_meaning; cbn zeta.
  - destruct (signer (l_child l)) as [k|]; [|split; discriminate].
    rewrite N.eqb_eq. split; [intros ->; reflexivity|intros H; inversion H; reflexivity].
  - destruct (skid (l_parent l)) as [s|], (akid (l_child l)) as [a|]; split;
      try discriminate; try (intros (k & H1 & H2); discriminate).
    + intros H. apply N.eqb_eq in H. subst. exists s. split; reflexivity.
    + intros (k & H1 & H2). inversion H1; inversion H2; subst. apply N.eqb_refl.
  - apply dn_eqb_eq.
  - rewrite orb_true_iff, N.eqb_eq, N.leb_le. tauto.
  - destruct (reliable_secs t) as [s|]; split; intros H; try reflexivity.
    + intros s' E. inversion E; subst. apply N.leb_le. exact H.
    + apply N.leb_le. apply H. reflexivity.
    + intros s' E. discriminate.
  - destruct (crit_ext (l_child l)); cbn; split; intros; try discriminate; reflexivity.
  - destruct (is_leaf l); [|split; [discriminate|reflexivity]].
    destruct (cert_type_of (subject (l_child l))) as [[| |]|]; split; intros H;
      try reflexivity; try discriminate; try (specialize (H eq_refl); discriminate).
  - destruct (is_leaf l); [|split; [discriminate|reflexivity]].
    destruct (bc (l_child l)) as [[[|] pl]|]; split; intros H;
      try discriminate; try reflexivity;
      try (destruct (H eq_refl) as (pl' & E); discriminate).
    exists pl. reflexivity.
  - destruct (is_leaf l); [|split; [discriminate|reflexivity]].
    destruct (ku (l_child l)) as [k|]; split; intros H; try discriminate.
    + exists k. split; [reflexivity|]. apply has_bits_iff. exact H.
    + destruct (H eq_refl) as (k' & E & Hb). inversion E; subst. apply has_bits_iff. exact Hb.
    + destruct (H eq_refl) as (k' & E & _). discriminate.
  - destruct (is_leaf l); [|split; [discriminate|reflexivity]].
    destruct (eku (l_child l)) as [e|]; split; intros H; try discriminate.
    + apply andb_true_iff in H as [H1 H2]. apply mem_In in H1, H2. exists e. tauto.
    + destruct (H eq_refl) as (e' & E & H1 & H2). inversion E; subst.
      apply andb_true_iff. split; apply mem_In; assumption.
    + destruct (H eq_refl) as (e' & E & _). discriminate.
  - destruct (is_leaf l); [split; [discriminate|reflexivity]|].
    destruct (cert_type_of (subject (l_child l))) as [[| |]|]; split; intros H;
      try discriminate; try tauto;
      try (destruct (H eq_refl) as [E|E]; discriminate).
  - destruct (is_leaf l); [split; [discriminate|reflexivity]|].
    destruct (bc (l_child l)) as [[[|] pl]|]; split; intros H;
      try discriminate; try reflexivity;
      try (destruct (H eq_refl) as (pl' & E); discriminate).
    exists pl. reflexivity.
  - destruct (is_leaf l); [split; [discriminate|reflexivity]|].
    destruct (ku (l_child l)) as [k|]; split; intros H; try discriminate.
    + exists k. split; [reflexivity|]. apply has_bits_iff. exact H.
    + destruct (H eq_refl) as (k' & E & Hb). inversion E; subst. apply has_bits_iff. exact Hb.
    + destruct (H eq_refl) as (k' & E & _). discriminate.
  - destruct (is_leaf l); [split; [discriminate|reflexivity]|].
    destruct (bc (l_child l)) as [[ca [m|]]|]; split; intros H; try reflexivity;
      try (intros _ ca' m' E; discriminate).
    + intros _ ca' m' E. inversion E; subst. apply N.leb_le. exact H.
    + apply N.leb_le. apply (H eq_refl ca m). reflexivity.
Qed.

(** The property's predicate, spelled out: every link of the chain
    satisfies every rule's plain-terms meaning. *)
Theorem chain_valid_meaning : forall t cs,
  chain_valid t cs <->
  (cs <> [] /\ forall r l, In l (links cs) -> rule_meaning t r l).
Proof.
  intros t cs. unfold chain_valid, rule_holds. destruct cs as [|c rest].
  - split; [intros H; specialize (H RSigned); discriminate|intros [H _]; contradiction].
  - split.
    + intros H. split; [discriminate|]. intros r l Hl.
      apply rule_link_meaning. specialize (H r). rewrite forallb_forall in H. apply H, Hl.
    + intros [_ H] r. apply forallb_forall. intros l Hl. apply rule_link_meaning, H, Hl.
Qed.

(** A node certificate carries a node identifier by definition of its type. *)
Lemma noc_type_has_node_id : forall l,
  cert_type_of l = Some TNoc -> exists n, dn_find DN_NODE l = Some n.
Proof.
  induction l as [|[tg v] r IH]; cbn [cert_type_of dn_find]; [discriminate|].
  destruct (tg =? DN_NODE); [intros _; exists v; reflexivity|].
  destruct (tg =? DN_ICA); [discriminate|]. destruct (tg =? DN_RCA); [discriminate|]. exact IH.
Qed.

Lemma valid_leaf_has_node_id : forall t noc rest,
  rest <> [] -> chain_valid t (noc :: rest) -> exists n, get_node_id noc = Some n.
Proof.
  intros t noc [|p rest] Hne H; [contradiction|].
  specialize (H RLeafType). unfold rule_holds, links in H. cbn [links_from forallb] in H.
  apply andb_true_iff in H as [H _]. unfold rule_link, is_leaf in H.
  cbn [l_child l_depth l_root] in H.
  change ((0 =? 0) && negb false) with true in H. cbn iota in H.
  unfold get_node_id. apply noc_type_has_node_id.
  destruct (cert_type_of (subject noc)) as [[| |]|]; try discriminate; reflexivity.
Qed.

(** ** CASE *)

Lemma chain_len_ok : forall (noc root : cert) icac,
  N.of_nat (length (noc :: opt_list icac ++ [root])) <= 256.
Proof. intros noc root [i|]; cbn; lia. Qed.

Theorem case_validate_iff : forall t fid root noc icac,
  case_validate t fid root noc icac = Ok tt <-> case_valid t fid root noc icac.
Proof.
  intros t fid root noc icac. unfold case_validate, case_valid, leaf_fabric_ok, icac_fabric_ok.
  rewrite <- (accept_iff_valid t _ (chain_len_ok noc root icac)). unfold verify_chain.
  destruct (get_fabric_id noc) as [f|]; [|split; [discriminate|intros (_ & H & _); discriminate]].
  destruct (f =? fid); cbn [negb]; [|split; [discriminate|intros (_ & H & _); discriminate]].
  destruct icac as [i|]; cbn [opt_list app].
  - destruct (get_fabric_id i) as [fi|]; [destruct (fi =? fid)|]; cbn [negb];
      split; try tauto; try discriminate; intros (_ & _ & H); discriminate.
  - tauto.
Qed.

Theorem case_admit_iff : forall t fid root noc icac n,
  case_admit t fid root noc icac = Ok n <->
  (case_valid t fid root noc icac /\ get_node_id noc = Some n).
Proof.
  intros t fid root noc icac n. rewrite <- case_validate_iff. unfold case_admit, bind.
  destruct (case_validate t fid root noc icac) as [[]|e|s];
    try (split; [discriminate|intros [H _]; discriminate]).
  destruct (get_node_id noc) as [m|]; split.
  - intros H. inversion H. tauto.
  - intros [_ H]. inversion H. reflexivity.
  - discriminate.
  - intros [_ H]. discriminate.
Qed.

(** With a valid chain the node-id extraction cannot fail. *)
Theorem case_admit_total : forall t fid root noc icac,
  case_valid t fid root noc icac -> exists n, case_admit t fid root noc icac = Ok n.
Proof.
  intros t fid root noc icac H. pose proof H as (Hc & _).
  destruct (valid_leaf_has_node_id t noc (opt_list icac ++ [root])) as (n & Hn).
  - destruct icac; discriminate.
  - exact Hc.
  - exists n. apply case_admit_iff. tauto.
Qed.

Lemma case_validb_iff : forall t fid root noc icac,
  case_validb t fid root noc icac = true <-> case_valid t fid root noc icac.
Proof.
  intros. unfold case_validb, case_valid. rewrite !andb_true_iff, chain_validb_iff. tauto.
Qed.

(** ** Installing credentials *)

Lemma fs_validate_iff : forall t root noc icac,
  fs_validate t root noc icac = Ok tt <->
  (chain_valid t (noc :: opt_list icac ++ [root]) /\ icac_separate icac = true).
Proof.
  intros t root noc icac.
  rewrite <- (accept_iff_valid t _ (chain_len_ok noc root icac)).
  unfold fs_validate, icac_separate, verify_chain, is_authority, bind.
  destruct icac as [i|]; cbn [opt_list app]; [|tauto].
  destruct (skid i) as [s|] eqn:Es.
  - destruct (akid i) as [a|]; [destruct (a =? s)|]; cbn [negb]; split; try tauto;
      try discriminate; intros [_ H]; discriminate.
  - split; [discriminate|]. intros [H _]. exfalso.
    cbn [verify_from] in H. unfold step, is_authority, bind in H. rewrite Es in H. discriminate.
Qed.

Theorem add_noc_iff : forall t fabrics csr admin root noc icac fid nid rk,
  add_noc t fabrics csr admin root noc icac = Ok (fid, nid, rk) <->
  (add_noc_valid t fabrics csr admin root noc icac fid nid /\ rk = pubkey root).
Proof.
  intros t fabrics csr admin root noc icac fid nid rk.
  unfold add_noc, add_noc_valid, install_common, fabric_exists, bind, map_err.
  pose proof (fs_validate_iff t root noc icac) as Hfs.
  destruct (is_node admin) eqn:En, (is_noc_cat admin) eqn:Ec; cbn [negb andb].
  4: { split; [discriminate|]. intros [(_ & _ & _ & _ & [H|H]) _]; discriminate. }
  all: destruct (fs_validate t root noc icac) as [[]|e|s];
    try (split; [discriminate|]; intros [((H1 & H2 & _) & _) _];
         assert (X : @Err unit e = Ok tt) by (apply Hfs; tauto); discriminate X);
    try (split; [discriminate|]; intros [((H1 & H2 & _) & _) _];
         assert (X : @Panic unit s = Ok tt) by (apply Hfs; tauto); discriminate X).
  all: destruct (proj1 Hfs eq_refl) as [Hv Hsep].
  all: destruct (N.eqb_spec csr (pubkey noc)) as [Ek|Ek]; cbn [negb];
    try (split; [discriminate|]; intros [((_ & _ & H) & _) _]; congruence).
  all: destruct (get_fabric_id noc) as [f|];
    try (split; [discriminate|]; intros [(_ & H & _) _]; discriminate).
  all: destruct (existsb _ fabrics) eqn:Ex;
    try (split; [discriminate|]; intros [(_ & H & _ & H2 & _) _]; inversion H; subst; congruence).
  all: destruct (get_node_id noc) as [m|];
    try (split; [discriminate|]; intros [(_ & _ & H & _) _]; discriminate).
  all: split; [intros H; inversion H; subst; repeat split; auto|
               intros [(_ & H1 & H2 & _) H3]; inversion H1; inversion H2; subst; reflexivity].
Qed.

Theorem update_noc_iff : forall t fabric_id csr root noc icac fid nid,
  update_noc t fabric_id csr root noc icac = Ok (fid, nid) <->
  (update_noc_valid t fabric_id csr root noc icac nid /\ fid = fabric_id).
Proof.
  intros t fabric_id csr root noc icac fid nid.
  unfold update_noc, update_noc_valid, install_common, bind, map_err.
  pose proof (fs_validate_iff t root noc icac) as Hfs.
  destruct (fs_validate t root noc icac) as [[]|e|s];
    try (split; [discriminate|]; intros [((H1 & H2 & _) & _) _];
         assert (X : @Err unit e = Ok tt) by (apply Hfs; tauto); discriminate X);
    try (split; [discriminate|]; intros [((H1 & H2 & _) & _) _];
         assert (X : @Panic unit s = Ok tt) by (apply Hfs; tauto); discriminate X).
  destruct (proj1 Hfs eq_refl) as [Hv Hsep].
  destruct (N.eqb_spec csr (pubkey noc)) as [Ek|Ek]; cbn [negb];
    try (split; [discriminate|]; intros [((_ & _ & H) & _) _]; congruence).
  destruct (get_fabric_id noc) as [f|];
    try (split; [discriminate|]; intros [(_ & H & _) _]; discriminate).
  destruct (N.eqb_spec f fabric_id) as [Ef|Ef]; cbn [negb];
    try (split; [discriminate|]; intros [(_ & H & _) _]; inversion H; congruence).
  destruct (get_node_id noc) as [m|];
    try (split; [discriminate|]; intros [(_ & _ & H) _]; discriminate).
  split; [intros H; inversion H; subst; repeat split; auto|
          intros [(_ & H1 & H2) H3]; inversion H2; subst; reflexivity].
Qed.

(** What the two installing commands add to chain validity, as one
    statement: they succeed exactly when the chain is valid AND the
    intermediate is a separate certificate AND the leaf certifies the
    key of this request AND the leaf names a fabric and a node AND
    (AddNOC) no such fabric exists yet and the admin subject is usable /
    (UpdateNOC) it is the fabric being updated. *)
Theorem install_checks : forall t fabrics csr admin fabric_id root noc icac,
  ((exists out, add_noc t fabrics csr admin root noc icac = Ok out) <->
   (chain_valid t (noc :: opt_list icac ++ [root]) /\ icac_separate icac = true /\
    pubkey noc = csr /\
    (exists fid, get_fabric_id noc = Some fid /\ fabric_exists fabrics fid (pubkey root) = false) /\
    (is_node admin = true \/ is_noc_cat admin = true))) /\
  ((exists out, update_noc t fabric_id csr root noc icac = Ok out) <->
   (chain_valid t (noc :: opt_list icac ++ [root]) /\ icac_separate icac = true /\
    pubkey noc = csr /\ get_fabric_id noc = Some fabric_id)).
Proof.
  intros t fabrics csr admin fabric_id root noc icac. split; split.
  - intros ([[fid nid] rk] & H). apply add_noc_iff in H as [(Hc & Hf & Hn & Hx & Ha) _].
    destruct Hc as (H1 & H2 & H3). repeat split; try assumption. exists fid. tauto.
  - intros (H1 & H2 & H3 & (fid & Hf & Hx) & Ha).
    destruct (valid_leaf_has_node_id t noc (opt_list icac ++ [root])) as (n & Hn);
      [destruct icac; discriminate|exact H1|].
    exists (fid, n, pubkey root). apply add_noc_iff. unfold add_noc_valid, install_common. tauto.
  - intros ([fid nid] & H). apply update_noc_iff in H as [(Hc & Hf & Hn) _].
    destruct Hc as (H1 & H2 & H3). tauto.
  - intros (H1 & H2 & H3 & Hf).
    destruct (valid_leaf_has_node_id t noc (opt_list icac ++ [root])) as (n & Hn);
      [destruct icac; discriminate|exact H1|].
    exists (fabric_id, n). apply update_noc_iff. unfold update_noc_valid, install_common. tauto.
Qed.

Lemma add_noc_validb_iff : forall t fabrics csr admin root noc icac,
  add_noc_validb t fabrics csr admin root noc icac = true <->
  exists out, add_noc t fabrics csr admin root noc icac = Ok out.
Proof.
  intros t fabrics csr admin root noc icac.
  rewrite (proj1 (install_checks t fabrics csr admin 0 root noc icac)).
  unfold add_noc_validb, install_commonb.
  rewrite !andb_true_iff, chain_validb_iff, N.eqb_eq, orb_true_iff. split.
  - intros [[[[H1 H2] H3] H4] H5]. repeat split; try assumption.
    destruct (get_fabric_id noc) as [f|]; [|discriminate].
    destruct (get_node_id noc); [|discriminate].
    exists f. split; [reflexivity|]. apply negb_true_iff. exact H4.
  - intros (H1 & H2 & H3 & (f & Hf & Hx) & H5).
    destruct (valid_leaf_has_node_id t noc (opt_list icac ++ [root])) as (n & Hn);
      [destruct icac; discriminate|exact H1|].
    rewrite Hf, Hn, Hx. tauto.
Qed.

Lemma update_noc_validb_iff : forall t fabric_id csr root noc icac,
  update_noc_validb t fabric_id csr root noc icac = true <->
  exists out, update_noc t fabric_id csr root noc icac = Ok out.
Proof.
  intros t fabric_id csr root noc icac.
  rewrite (proj2 (install_checks t [] csr 0 fabric_id root noc icac)).
  unfold update_noc_validb, install_commonb.
  rewrite !andb_true_iff, chain_validb_iff, N.eqb_eq. split.
  - intros [[[H1 H2] H3] H4]. repeat split; try assumption.
    destruct (get_fabric_id noc) as [f|]; [|discriminate].
    destruct (get_node_id noc); [|discriminate]. apply N.eqb_eq in H4. subst. reflexivity.
  - intros (H1 & H2 & H3 & Hf).
    destruct (valid_leaf_has_node_id t noc (opt_list icac ++ [root])) as (n & Hn);
      [destruct icac; discriminate|exact H1|].
    rewrite Hf, Hn, N.eqb_refl. tauto.
Qed.

Theorem add_root_iff : forall t root,
  add_root t root = Ok tt <-> root_validb t root = true.
Proof.
  intros t root. unfold add_root, root_validb, bind, map_err.
  rewrite andb_true_iff, chain_validb_iff.
  rewrite <- (accept_iff_valid t [root]) by (cbn; lia). unfold verify_chain.
  destruct (verify_from t 0 root []) as [[]|e|s];
    try (split; [discriminate|intros [H _]; discriminate]).
  destruct (bc root) as [[ca [m|]]|]; try tauto.
  destruct (N.ltb_spec 1 m) as [Ha|Ha], (N.leb_spec m 1) as [Hb|Hb]; try (exfalso; lia);
    split; try tauto; try discriminate.
  intros [_ Hx]; discriminate Hx.
Qed.

(** Once the chain has been validated the later node-id extraction of
    [Fabrics::add] / [Fabrics::update] (which runs after the fabric
    record has been overwritten) cannot fail. *)
Theorem install_no_late_node_id_failure : forall t fabrics csr admin fabric_id root noc icac,
  add_noc t fabrics csr admin root noc icac <> Err E_NONODE /\
  update_noc t fabric_id csr root noc icac <> Err E_NONODE.
Proof.
  intros t fabrics csr admin fabric_id root noc icac.
  pose proof (fs_validate_iff t root noc icac) as Hfs.
  assert (Hn : fs_validate t root noc icac = Ok tt -> exists n, get_node_id noc = Some n).
  { intros H. apply Hfs in H as [H _].
    apply (valid_leaf_has_node_id t noc (opt_list icac ++ [root])); [destruct icac; discriminate|exact H]. }
  unfold add_noc, update_noc, bind, map_err. split.
  - destruct (negb (is_node admin) && negb (is_noc_cat admin)); [discriminate|].
    destruct (fs_validate t root noc icac) as [[]|e|s]; try discriminate.
    destruct (Hn eq_refl) as (n & En). rewrite En.
    destruct (negb (csr =? pubkey noc)); [discriminate|].
    destruct (get_fabric_id noc); [|discriminate].
    destruct (existsb _ fabrics); discriminate.
  - destruct (fs_validate t root noc icac) as [[]|e|s]; try discriminate.
    destruct (Hn eq_refl) as (n & En). rewrite En.
    destruct (negb (csr =? pubkey noc)); [discriminate|].
    destruct (get_fabric_id noc) as [f|]; [|discriminate].
    destruct (negb (f =? fabric_id)); discriminate.
Qed.

(** The root repeated as "intermediate" admits nothing new: whenever CASE
    admits [noc] with the trusted root presented again as intermediate,
    it admits the same node without it (the leaf is directly signed by
    the trusted root either way). *)
Lemma rule_link_root_flag_above_leaf : forall t r c p,
  rule_link t r (mkLink 1 c p false) = rule_link t r (mkLink 1 c p true).
Proof. intros t r c p. destruct r; reflexivity. Qed.

Theorem repeated_root_admits_nothing_new : forall t fid root noc n,
  case_admit t fid root noc (Some root) = Ok n ->
  case_admit t fid root noc None = Ok n.
Proof.
  intros t fid root noc n H.
  apply case_admit_iff in H as [(Hc & Hf & _) Hn].
  apply case_admit_iff. split; [|exact Hn].
  split; [|split; [exact Hf|reflexivity]].
  intros r. specialize (Hc r). unfold rule_holds, links in *.
  cbn [opt_list app links_from forallb] in *.
  apply andb_true_iff in Hc as [H0 Hc]. apply andb_true_iff in Hc as [H1 _].
  change (0 + 1) with 1 in *.
  rewrite H0, <- rule_link_root_flag_above_leaf, H1. reflexivity.
Qed.
