(** C12 proofs, global group data message counter. *)
From RsM Require Import Lib.MachInt Model.Counters Model.CountersSpec Proofs.CountersGeneric.
From Coq Require Import ZifyN ZifyBool.
Open Scope N_scope.
Ltac Zify.zify_post_hook ::= Z.div_mod_to_equations.

Arguments N.add : simpl never.
Arguments N.sub : simpl never.
Arguments N.mul : simpl never.
Arguments N.modulo : simpl never.
Arguments N.land : simpl never.
Arguments N.leb : simpl never.
Arguments N.ltb : simpl never.
Arguments N.eqb : simpl never.

(** ghost position -> counter value: the ring [1 .. G_MASK] *)
Definition gring (p : N) : N := p mod G_MASK + 1.

Lemma land_mask x : N.land x G_MASK = x mod two28.
Proof. change G_MASK with (N.ones 28). rewrite N.land_ones. reflexivity. Qed.

Lemma gring_range p : 1 <= gring p <= G_MASK.
Proof. unfold gring, G_MASK. lia. Qed.

Lemma gring_of_value v : 1 <= v <= G_MASK -> v = gring (v - 1).
Proof. unfold gring, G_MASK. lia. Qed.

Lemma gring_inj o a b :
  o <= a < o + G_MASK -> o <= b < o + G_MASK -> gring a = gring b -> a = b.
Proof. unfold gring, G_MASK. lia. Qed.

Lemma g_adv_1 p : g_adv (gring p) 1 = gring (p + 1).
Proof.
  unfold g_adv, wrap32. rewrite land_mask.
  destruct (N.eqb_spec ((gring p + 1) mod two32 mod two28) 0) as [H0|Hn];
    revert H0 || revert Hn; unfold gring, G_MASK, two32, two28; lia.
Qed.

Lemma g_adv_epoch p :
  exists dl, 999 <= dl <= 1000 /\ g_adv (gring p) G_EPOCH = gring (p + dl).
Proof.
  unfold g_adv, wrap32. rewrite land_mask.
  destruct (N.le_gt_cases (p mod G_MASK + 1001) two28) as [Hle|Hgt].
  - exists 1000. split; [lia|].
    destruct (N.eqb_spec ((gring p + G_EPOCH) mod two32 mod two28) 0) as [H0|Hn];
      revert H0 || revert Hn; revert Hle; unfold gring, G_MASK, G_EPOCH, two32, two28; lia.
  - exists 999. split; [lia|].
    destruct (N.eqb_spec ((gring p + G_EPOCH) mod two32 mod two28) 0) as [H0|Hn];
      revert H0 || revert Hn; revert Hgt; unfold gring, G_MASK, G_EPOCH, two32, two28; lia.
Qed.

Lemma gring_eqb c d : c <= d <= c + 1000 -> (gring c =? gring d) = (c =? d).
Proof.
  intros H. destruct (N.eqb_spec c d) as [->|Hne]; [apply N.eqb_refl|].
  apply N.eqb_neq. revert H Hne. unfold gring, G_MASK. lia.
Qed.

Lemma g_covers_ring c d : c < d <= c + 1000 -> g_covers (Some (gring d)) (gring c) = true.
Proof.
  intros H. unfold g_covers, in_ring, walk_dist.
  pose proof (gring_range c). pose proof (gring_range d).
  assert (Hd : (gring d + G_MASK - gring c) mod G_MASK = d - c).
  { revert H. unfold gring, G_MASK. lia. }
  rewrite Hd. unfold G_EPOCH. lia.
Qed.

Lemma g_covers_ahead kv v : g_covers kv v = true -> g_ahead kv v = true.
Proof.
  unfold g_covers, g_ahead, in_ring, walk_dist. destruct kv as [b|]; [|discriminate].
  unfold G_MASK, G_EPOCH, two28. intros H.
  assert (Hb : (b =? 0) = false) by lia. rewrite Hb. lia.
Qed.

Definition GLive (s : gstate) (o M T : N) : Prop :=
  exists c d, gs_kv s = Some (gring d) /\ o <= M /\ M <= c /\
    ((gs_pend s = None /\ gs_ram s = mkGRam (gring c) (gring d) /\
      c <= d <= c + 1000 /\ c <= o + T) \/
     (exists b, gs_pend s = Some (gring c, gring b) /\
                gs_ram s = mkGRam (gring (c + 1)) (gring b) /\
                c = d /\ c < b <= c + 1000 /\ c + 1 <= o + T)).

Definition GFresh (s : gstate) (cr : N) : Prop :=
  gs_kv s = None /\
  ((gs_pend s = None /\ g_ctr (gs_ram s) = g_bnd (gs_ram s) /\ g_ctr (gs_ram s) <= G_MASK) \/
   (exists c b, gs_pend s = Some (gring c, gring b) /\
                gs_ram s = mkGRam (gring (c + 1)) (gring b) /\
                c < b <= c + 1000 /\ 1 <= cr)).

Lemma gring_neq0 p : (gring p =? 0) = false.
Proof. apply N.eqb_neq. pose proof (gring_range p). lia. Qed.

Lemma g_get_or_init_live p q r : g_get_or_init (mkGRam (gring p) q) r = mkGRam (gring p) q.
Proof. unfold g_get_or_init. cbn [g_ctr]. rewrite gring_neq0. reflexivity. Qed.

Lemma g_reserve_at_boundary p r :
  exists dl, 999 <= dl <= 1000 /\
    g_reserve (mkGRam (gring p) (gring p)) r =
    (mkGRam (gring (p + 1)) (gring (p + dl)), gring p, Some (gring (p + dl))).
Proof.
  destruct (g_adv_epoch p) as [dl [Hdl Hadv]]. exists dl. split; [exact Hdl|].
  unfold g_reserve, g_get_or_init. cbn [g_ctr g_bnd]. rewrite gring_neq0.
  cbn [g_ctr g_bnd]. rewrite N.eqb_refl, Hadv, g_adv_1. reflexivity.
Qed.

Lemma g_reserve_inside c d r :
  c < d <= c + 1000 ->
  g_reserve (mkGRam (gring c) (gring d)) r =
  (mkGRam (gring (c + 1)) (gring d), gring c, None).
Proof.
  intros H. unfold g_reserve, g_get_or_init. cbn [g_ctr g_bnd]. rewrite gring_neq0.
  cbn [g_ctr g_bnd]. rewrite gring_eqb by lia.
  assert (E : (c =? d) = false) by lia. rewrite E, g_adv_1. reflexivity.
Qed.

Lemma g_live_step : forall s op o M T s' e,
  GLive s o M T -> true = true -> g_step true s op = (s', e) ->
  exists M' T', GLive s' o M' T' /\ M <= M' /\ T' <= T + g_cost op /\
                ev_ok gring g_covers e o M M' T'.
Proof.
  intros s op o M T s' e [c [d [Hkv [HoM [HMc Hsh]]]]] _ Hst.
  destruct s as [ram kv pend]. cbn [gs_kv gs_pend gs_ram] in *. subst kv.
  destruct Hsh as [[Hp [Hram [Hcd HcT]]]|[b [Hp [Hram [Hcd' [Hcb HcT]]]]]]; subst pend ram.
  - (* no reservation pending *)
    destruct op as [r0|r|ok| |]; cbn [g_step gs_pend gs_ram gs_kv] in Hst; cbn [g_cost].
    + rewrite g_get_or_init_live in Hst. inversion Hst; subst s' e; clear Hst.
      exists M, T. split; [|split; [lia|split; [lia|exact I]]].
      exists c, d. cbn [gs_kv gs_pend gs_ram]. split; [reflexivity|]. split; [exact HoM|]. split; [exact HMc|].
      left. repeat split; lia.
    + destruct (N.eq_dec c d) as [->|Hne].
      * destruct (g_reserve_at_boundary d r) as [dl [Hdl Hres]]. rewrite Hres in Hst.
        inversion Hst; subst s' e; clear Hst.
        exists M, (T + 1). split; [|split; [lia|split; [lia|exact I]]].
        exists d, d. cbn [gs_kv gs_pend gs_ram]. split; [reflexivity|]. split; [exact HoM|]. split; [exact HMc|].
        right. exists (d + dl). repeat split; lia.
      * rewrite g_reserve_inside in Hst by lia.
        inversion Hst; subst s' e; clear Hst.
        exists (c + 1), (T + 1). split; [|split; [lia|split; [lia|]]].
        -- exists (c + 1), d. cbn [gs_kv gs_pend gs_ram]. split; [reflexivity|]. split; [lia|]. split; [lia|].
           left. repeat split; lia.
        -- cbn [ev_ok]. exists c. repeat split; try lia. apply g_covers_ring. lia.
    + inversion Hst; subst s' e; clear Hst.
      exists M, T. split; [|split; [lia|split; [lia|exact I]]].
      exists c, d. cbn [gs_kv gs_pend gs_ram]. split; [reflexivity|]. split; [exact HoM|]. split; [exact HMc|].
      left. repeat split; lia.
    + inversion Hst; subst s' e; clear Hst.
      exists M, T. split; [|split; [lia|split; [lia|exact I]]].
      exists c, d. cbn [gs_kv gs_pend gs_ram]. split; [reflexivity|]. split; [exact HoM|]. split; [exact HMc|].
      left. repeat split; lia.
    + inversion Hst; subst s' e; clear Hst.
      exists M, (T + 1000). split; [|split; [lia|split; [unfold G_EPOCH; lia|exact I]]].
      exists d, d. unfold g_init, g_load, g_resume, g_set. rewrite gring_neq0.
      cbn [gs_kv gs_pend gs_ram]. split; [reflexivity|]. split; [exact HoM|]. split; [lia|].
      left. repeat split; lia.
  - (* a reservation is pending *)
    subst d.
    destruct op as [r0|r|ok| |]; cbn [g_step gs_pend gs_ram gs_kv] in Hst; cbn [g_cost].
    + rewrite g_get_or_init_live in Hst. inversion Hst; subst s' e; clear Hst.
      exists M, T. split; [|split; [lia|split; [lia|exact I]]].
      exists c, c. cbn [gs_kv gs_pend gs_ram]. split; [reflexivity|]. split; [exact HoM|]. split; [exact HMc|].
      right. exists b. repeat split; lia.
    + inversion Hst; subst s' e; clear Hst.
      exists M, T. split; [|split; [lia|split; [lia|exact I]]].
      exists c, c. cbn [gs_kv gs_pend gs_ram]. split; [reflexivity|]. split; [exact HoM|]. split; [exact HMc|].
      right. exists b. repeat split; lia.
    + destruct ok; inversion Hst; subst s' e; clear Hst.
      * exists (c + 1), T. split; [|split; [lia|split; [lia|]]].
        -- exists (c + 1), b. cbn [gs_kv gs_pend gs_ram]. split; [reflexivity|]. split; [lia|]. split; [lia|].
           left. repeat split; lia.
        -- cbn [ev_ok]. exists c. repeat split; try lia. apply g_covers_ring. lia.
      * exists M, T. split; [|split; [lia|split; [lia|exact I]]].
        exists c, c. cbn [gs_kv gs_pend gs_ram]. split; [reflexivity|]. split; [exact HoM|]. split; [exact HMc|].
        left. unfold g_unreserve, g_set. repeat split; lia.
    + inversion Hst; subst s' e; clear Hst.
      exists M, T. split; [|split; [lia|split; [lia|exact I]]].
      exists c, c. cbn [gs_kv gs_pend gs_ram]. split; [reflexivity|]. split; [exact HoM|]. split; [exact HMc|].
      right. exists b. repeat split; lia.
    + inversion Hst; subst s' e; clear Hst.
      exists M, (T + 1000). split; [|split; [lia|split; [unfold G_EPOCH; lia|exact I]]].
      exists c, c. unfold g_init, g_load, g_resume, g_set. rewrite gring_neq0.
      cbn [gs_kv gs_pend gs_ram]. split; [reflexivity|]. split; [exact HoM|]. split; [lia|].
      left. repeat split; lia.
Qed.

Lemma g_seeded_value m r :
  g_ctr m = g_bnd m -> g_ctr m <= G_MASK ->
  exists p, g_get_or_init m r = mkGRam (gring p) (gring p).
Proof.
  intros Heq Hle. unfold g_get_or_init. destruct m as [ctr bnd]. cbn [g_ctr g_bnd] in *. subst bnd.
  destruct (N.eqb_spec ctr 0) as [->|Hn].
  - rewrite land_mask. unfold g_set.
    destruct (N.eqb_spec (r mod two28) 0) as [H0|H1].
    + exists 0. reflexivity.
    + exists (r mod two28 - 1). rewrite <- gring_of_value; [reflexivity|].
      revert H1. unfold G_MASK, two28. lia.
  - exists (ctr - 1). rewrite <- gring_of_value by lia. reflexivity.
Qed.

Lemma g_fresh_step : forall s op cr s' e,
  GFresh s cr -> true = true -> g_step true s op = (s', e) ->
  (exists cr', GFresh s' cr' /\ cr' <= cr + g_cost op /\ forall v kv, e <> EvYield v kv) \/
  (exists o M' T', GLive s' o M' T' /\ o <= M' /\ T' <= cr + g_cost op /\
                   ev_ok gring g_covers e o o M' T').
Proof.
  intros s op cr s' e [Hkv Hsh] _ Hst.
  destruct s as [ram kv pend]. cbn [gs_kv gs_pend gs_ram] in *. subst kv.
  destruct Hsh as [[Hp [Heq Hle]]|[c [b [Hp [Hram [Hcb Hcr]]]]]]; subst pend.
  - destruct op as [r0|r|ok| |]; cbn [g_step gs_pend gs_ram gs_kv] in Hst; cbn [g_cost].
    + left. destruct (g_seeded_value ram r0 Heq Hle) as [p Hseed]. rewrite Hseed in Hst.
      inversion Hst; subst s' e; clear Hst.
      exists cr. split; [|split; [lia|discriminate]].
      split; [reflexivity|]. left. cbn [gs_pend gs_ram g_ctr g_bnd].
      pose proof (gring_range p). repeat split; lia.
    + left. destruct (g_seeded_value ram r Heq Hle) as [p Hseed].
      destruct (g_reserve_at_boundary p r) as [dl [Hdl Hres]].
      assert (Hres' : g_reserve ram r = g_reserve (mkGRam (gring p) (gring p)) r).
      { unfold g_reserve at 1. rewrite Hseed. unfold g_reserve, g_get_or_init.
        cbn [g_ctr g_bnd]. rewrite gring_neq0. reflexivity. }
      rewrite Hres', Hres in Hst. inversion Hst; subst s' e; clear Hst.
      exists (cr + 1). split; [|split; [lia|discriminate]].
      split; [reflexivity|]. right. exists p, (p + dl). cbn [gs_pend gs_ram]. repeat split; lia.
    + left. inversion Hst; subst s' e; clear Hst.
      exists cr. split; [|split; [lia|discriminate]].
      split; [reflexivity|]. left. cbn [gs_pend gs_ram]. repeat split; assumption.
    + left. inversion Hst; subst s' e; clear Hst.
      exists cr. split; [|split; [lia|discriminate]].
      split; [reflexivity|]. left. cbn [gs_pend gs_ram]. repeat split; assumption.
    + left. inversion Hst; subst s' e; clear Hst.
      exists cr. split; [|split; [lia|discriminate]].
      split; [reflexivity|]. left. cbn. repeat split; unfold G_MASK; lia.
  - subst ram.
    destruct op as [r0|r|ok| |]; cbn [g_step gs_pend gs_ram gs_kv] in Hst; cbn [g_cost].
    + left. rewrite g_get_or_init_live in Hst. inversion Hst; subst s' e; clear Hst.
      exists cr. split; [|split; [lia|discriminate]].
      split; [reflexivity|]. right. exists c, b. cbn [gs_pend gs_ram]. repeat split; lia.
    + left. inversion Hst; subst s' e; clear Hst.
      exists cr. split; [|split; [lia|discriminate]].
      split; [reflexivity|]. right. exists c, b. cbn [gs_pend gs_ram]. repeat split; lia.
    + destruct ok; inversion Hst; subst s' e; clear Hst.
      * right. exists c, (c + 1), 1. split; [|split; [lia|split; [lia|]]].
        -- exists (c + 1), b. cbn [gs_kv gs_pend gs_ram]. split; [reflexivity|]. split; [lia|]. split; [lia|].
           left. repeat split; lia.
        -- cbn [ev_ok]. exists c. repeat split; try lia. apply g_covers_ring. lia.
      * left. exists cr. split; [|split; [lia|discriminate]].
        split; [reflexivity|]. left. unfold g_unreserve, g_set. cbn [gs_pend gs_ram g_ctr g_bnd].
        pose proof (gring_range c). repeat split; lia.
    + left. inversion Hst; subst s' e; clear Hst.
      exists cr. split; [|split; [lia|discriminate]].
      split; [reflexivity|]. right. exists c, b. cbn [gs_pend gs_ram]. repeat split; lia.
    + left. inversion Hst; subst s' e; clear Hst.
      exists cr. split; [|split; [lia|discriminate]].
      split; [reflexivity|]. left. cbn. repeat split; unfold G_MASK; lia.
Qed.

Lemma g_init_live x : 1 <= x <= G_MASK -> GLive (g_init (Some x)) (x - 1) (x - 1) 0.
Proof.
  intros Hx. exists (x - 1), (x - 1). rewrite <- gring_of_value by exact Hx.
  unfold g_init, g_load, g_resume, g_set.
  assert (E : (x =? 0) = false) by lia. rewrite E. cbn [gs_kv gs_pend gs_ram].
  split; [reflexivity|]. split; [lia|]. split; [lia|]. left. repeat split; lia.
Qed.

Lemma g_init_fresh : GFresh (g_init None) 0.
Proof. split; [reflexivity|]. left. cbn. repeat split; unfold G_MASK; lia. Qed.

Lemma g_sched_ok s l : sched_ok (g_step true) (fun _ _ => true) s l = true.
Proof. apply sched_ok_always. Qed.

Theorem group_unique_on_wire : forall (kv0 : option N) (sched : list gop),
  g_kv_ok kv0 -> g_travel sched <= G_MASK ->
  NoDup (yields (fst (g_run true (g_init kv0) sched))).
Proof.
  intros kv0 sched Hkv Hb. unfold g_run, g_travel in *. destruct kv0 as [x|]; cbn [g_kv_ok] in Hkv.
  - eapply (gen_unique_live (g_step true) (fun _ _ => true) g_cost gring g_covers GLive GFresh
              g_live_step g_fresh_step G_MASK gring_inj);
      [apply g_init_live; exact Hkv|apply g_sched_ok|exact Hb].
  - eapply (gen_unique_fresh (g_step true) (fun _ _ => true) g_cost gring g_covers GLive GFresh
              g_live_step g_fresh_step G_MASK gring_inj);
      [apply g_init_fresh|apply g_sched_ok|exact Hb].
Qed.

Theorem group_covered_before_use : forall (kv0 : option N) (sched : list gop) (v : N) (kv : option N),
  g_kv_ok kv0 ->
  In (EvYield v kv) (fst (g_run true (g_init kv0) sched)) -> g_covers kv v = true.
Proof.
  intros kv0 sched v kv Hkv Hin. apply (forall_cov_in g_covers _ v kv) in Hin; [exact Hin|].
  unfold g_run. destruct kv0 as [x|]; cbn [g_kv_ok] in Hkv.
  - eapply (gen_covered_live (g_step true) (fun _ _ => true) g_cost gring g_covers GLive GFresh
              g_live_step g_fresh_step);
      [apply g_init_live; exact Hkv|apply g_sched_ok].
  - eapply (gen_covered_fresh (g_step true) (fun _ _ => true) g_cost gring g_covers GLive GFresh
              g_live_step g_fresh_step);
      [apply g_init_fresh|apply g_sched_ok].
Qed.

(** The code before the repair (the reservation is not taken back when
    the store fails): the value after the failed one goes out with no
    stored boundary covering it, and again after a restart. *)
Definition g_witness_unfixed : list gop :=
  [GReserve 0; GStore false; GReserve 0; GCrash; GReserve 0; GStore true; GReserve 0].

Lemma group_unfixed_refuted :
  g_travel g_witness_unfixed <= G_MASK /\
  yields (fst (g_run false (g_init (Some 1000)) g_witness_unfixed)) = [1001; 1000; 1001] /\
  In (EvYield 1001 (Some 1000)) (fst (g_run false (g_init (Some 1000)) g_witness_unfixed)) /\
  g_covers (Some 1000) 1001 = false.
Proof. vm_compute. repeat split; try discriminate. do 2 right. left. reflexivity. Qed.
