(** Check-In payload layout: round trip, canonicity, totality, for every
    symmetric primitive that behaves like an AEAD (visible hypotheses). *)
From RsM Require Import Lib.MachInt Model.Headers Model.Codecs Model.CodecsCheckin
  Proofs.HeadersFacts Proofs.CodecsQr.
From Coq Require Import ZifyN ZifyBool.
Open Scope N_scope.

Lemma firstn_len_eq {A} (l r : list A) (n : nat) : length l = n -> firstn n (l ++ r) = l.
Proof. intros <-. apply firstn_len_app. Qed.

Section CheckInFacts.
  Variable nonce_of : N -> list N.
  Variable aead_enc : list N -> list N -> list N.
  Variable aead_dec : list N -> list N -> option (list N).

  (** the nonce is 13 bytes *)
  Hypothesis Hnonce : forall c, length (nonce_of c) = 13%nat.
  (** decryption inverts encryption, ciphertext = plaintext + 16-byte MIC *)
  Hypothesis Hdec_enc : forall n p, bytes p -> aead_dec n (aead_enc n p) = Some p.
  Hypothesis Henc_len : forall n p, length (aead_enc n p) = (length p + 16)%nat.
  (** ideal integrity: only ciphertexts made by encryption are accepted *)
  Hypothesis Hdec_sound : forall n c p, aead_dec n c = Some p -> c = aead_enc n p.
  (** plaintexts are byte strings *)
  Hypothesis Hdec_bytes : forall n c p, aead_dec n c = Some p -> bytes p.

  Notation generate := (checkin_generate nonce_of aead_enc).
  Notation parse := (checkin_parse nonce_of aead_dec).

  Lemma checkin_generate_ok (cap : nat) (counter : N) (app : list N) :
    (33 + length app <= cap)%nat ->
    generate cap counter app =
    Ok (nonce_of counter ++ aead_enc (nonce_of counter) (le_bytes 4 counter ++ app)).
  Proof.
    intro H. unfold checkin_generate, CI_MIN_LEN.
    replace (Nat.ltb cap (33 + length app)) with false by (symmetry; apply Nat.ltb_ge; lia).
    reflexivity.
  Qed.

  Lemma checkin_generate_small (cap : nat) (counter : N) (app : list N) :
    (cap < 33 + length app)%nat -> generate cap counter app = Err E_BUF.
  Proof.
    intro H. unfold checkin_generate, CI_MIN_LEN.
    replace (Nat.ltb cap (33 + length app)) with true by (symmetry; apply Nat.ltb_lt; lia).
    reflexivity.
  Qed.

  Lemma checkin_payload_length (cap : nat) (counter : N) (app p : list N) :
    generate cap counter app = Ok p -> length p = (33 + length app)%nat.
  Proof.
    unfold checkin_generate. cbv zeta.
    destruct (Nat.ltb cap (CI_MIN_LEN + length app)); [discriminate|].
    intro H. assert (Hp : p = nonce_of counter ++
                 aead_enc (nonce_of counter) (le_bytes CI_COUNTER_LEN counter ++ app)) by congruence.
    subst p.
    rewrite app_length, Hnonce, Henc_len, app_length, le_bytes_length. unfold CI_COUNTER_LEN. lia.
  Qed.

  Lemma checkin_roundtrip (cap : nat) (counter : N) (app p : list N) :
    counter < two32 -> bytes app -> generate cap counter app = Ok p -> parse p = Ok (counter, app).
  Proof.
    intros Hc Happ Hg. pose proof (checkin_payload_length _ _ _ _ Hg) as Hlen.
    unfold checkin_generate in Hg. cbv zeta in Hg.
    destruct (Nat.ltb cap (CI_MIN_LEN + length app)); [discriminate|].
    assert (Hp : p = nonce_of counter ++
                 aead_enc (nonce_of counter) (le_bytes CI_COUNTER_LEN counter ++ app)) by congruence.
    clear Hg. subst p.
    unfold checkin_parse.
    replace (Nat.ltb _ CI_MIN_LEN) with false
      by (symmetry; apply Nat.ltb_ge; rewrite Hlen; unfold CI_MIN_LEN; lia).
    unfold CI_NONCE_LEN.
    rewrite (firstn_len_eq _ _ 13 (Hnonce counter)), (skipn_len_eq _ _ 13 (Hnonce counter)).
    rewrite Hdec_enc by (apply bytes_app; split; [apply le_bytes_bytes|exact Happ]).
    rewrite app_length, le_bytes_length.
    replace (Nat.ltb (CI_COUNTER_LEN + length app) CI_COUNTER_LEN) with false
      by (symmetry; apply Nat.ltb_ge; lia).
    pose proof (le_bytes_length CI_COUNTER_LEN counter) as Hl.
    rewrite (firstn_len_eq _ _ _ Hl), (skipn_len_eq _ _ _ Hl).
    rewrite le_val_le_bytes by (unfold CI_COUNTER_LEN; rewrite pow_4; exact Hc).
    rewrite list_eqb_refl. reflexivity.
  Qed.

  Lemma checkin_parse_total (p : list N) : no_panic (parse p).
  Proof.
    unfold checkin_parse.
    destruct (Nat.ltb (length p) CI_MIN_LEN) eqn:El; [exact I|].
    apply Nat.ltb_ge in El. unfold CI_MIN_LEN in El.
    destruct (aead_dec _ _) as [pt|] eqn:Ed; [|exact I].
    apply Hdec_sound in Ed.
    assert (Hct : length (skipn CI_NONCE_LEN p) = (length pt + 16)%nat)
      by (rewrite Ed at 1; apply Henc_len).
    rewrite skipn_length in Hct. unfold CI_NONCE_LEN in Hct.
    replace (Nat.ltb (length pt) CI_COUNTER_LEN) with false
      by (symmetry; apply Nat.ltb_ge; unfold CI_COUNTER_LEN; lia).
    destruct (negb _); exact I.
  Qed.

  (** every accepted payload is exactly what [generate] makes of the result *)
  Lemma checkin_parse_canonical (p : list N) (c : N) (a : list N) :
    parse p = Ok (c, a) ->
    c < two32 /\ bytes a /\ generate (length p) c a = Ok p.
  Proof.
    unfold checkin_parse. intro H.
    destruct (Nat.ltb (length p) CI_MIN_LEN) eqn:El; [discriminate|].
    destruct (aead_dec _ _) as [pt|] eqn:Ed; [|discriminate].
    destruct (Nat.ltb (length pt) CI_COUNTER_LEN) eqn:Ep; [discriminate|].
    apply Nat.ltb_ge in Ep.
    destruct (negb _) eqn:En; [discriminate|].
    assert (Hc' : c = le_val (firstn CI_COUNTER_LEN pt)) by congruence.
    assert (Ha' : a = skipn CI_COUNTER_LEN pt) by congruence.
    clear H. subst c a.
    apply negb_false_iff, list_eqb_eq in En.
    pose proof (Hdec_bytes _ _ _ Ed) as Hb.
    rewrite <- (firstn_skipn CI_COUNTER_LEN pt) in Hb. apply bytes_app in Hb as [Hb1 Hb2].
    assert (Hl4 : length (firstn CI_COUNTER_LEN pt) = CI_COUNTER_LEN)
      by (apply firstn_length_le; exact Ep).
    split; [|split; [exact Hb2|]].
    - pose proof (le_val_lt _ Hb1) as Hlt. rewrite Hl4 in Hlt.
      unfold CI_COUNTER_LEN in Hlt. rewrite pow_4 in Hlt. exact Hlt.
    - apply Hdec_sound in Ed.
      assert (Hpt : le_bytes CI_COUNTER_LEN (le_val (firstn CI_COUNTER_LEN pt)) ++
                    skipn CI_COUNTER_LEN pt = pt).
      { rewrite <- Hl4 at 1. rewrite le_bytes_le_val by exact Hb1. apply firstn_skipn. }
      assert (Hp : p = firstn CI_NONCE_LEN p ++ aead_enc (firstn CI_NONCE_LEN p) pt).
      { rewrite <- Ed. symmetry. apply firstn_skipn. }
      rewrite checkin_generate_ok.
      + unfold CI_COUNTER_LEN in *. rewrite En, Hpt. rewrite <- Hp. reflexivity.
      + apply Nat.ltb_ge in El. unfold CI_MIN_LEN in El.
        assert (Hl1 : length (skipn CI_NONCE_LEN p) = (length pt + 16)%nat)
          by (rewrite Ed at 1; apply Henc_len).
        rewrite skipn_length in Hl1. rewrite skipn_length.
        unfold CI_NONCE_LEN, CI_COUNTER_LEN in *. lia.
  Qed.

  (** the monitors hold of the model *)
  Lemma mon_checkin_dec_model (p : list N) :
    mon_checkin_dec nonce_of p (parse p) = true.
  Proof.
    pose proof (checkin_parse_total p) as Ht.
    destruct (parse p) as [[c a]|e|s] eqn:E; cbn [mon_checkin_dec]; [|reflexivity|contradiction].
    pose proof (checkin_parse_canonical _ _ _ E) as (Hc & Ha & Hg).
    pose proof (checkin_payload_length _ _ _ _ Hg) as Hlen.
    unfold checkin_generate in Hg. cbv zeta in Hg.
    destruct (Nat.ltb (length p) (CI_MIN_LEN + length a)); [discriminate|].
    assert (Hg' : nonce_of c ++ aead_enc (nonce_of c) (le_bytes CI_COUNTER_LEN c ++ a) = p) by congruence.
    clear Hg. rename Hg' into Hg.
    apply bytesb_spec in Ha. rewrite Ha.
    replace (c <? two32) with true by lia.
    rewrite Hlen. unfold CI_MIN_LEN. rewrite Nat.eqb_refl.
    rewrite <- Hg. unfold CI_NONCE_LEN.
    rewrite (firstn_len_eq _ _ 13 (Hnonce c)), list_eqb_refl. reflexivity.
  Qed.
End CheckInFacts.

(** The assumptions on the symbolic primitives, as one predicate: a 13-byte
    nonce derivation, and an ideal AEAD with a 16-byte MIC (decryption inverts
    encryption; only ciphertexts made by encryption are accepted; plaintexts
    are byte strings). *)
Definition aead_ideal (nonce_of : N -> list N) (aead_enc : list N -> list N -> list N)
           (aead_dec : list N -> list N -> option (list N)) : Prop :=
  (forall c, length (nonce_of c) = 13%nat) /\
  (forall n p, bytes p -> aead_dec n (aead_enc n p) = Some p) /\
  (forall n p, length (aead_enc n p) = (length p + 16)%nat) /\
  (forall n c p, aead_dec n c = Some p -> c = aead_enc n p) /\
  (forall n c p, aead_dec n c = Some p -> bytes p).

Lemma checkin_roundtrip_i nonce_of aead_enc aead_dec :
  aead_ideal nonce_of aead_enc aead_dec ->
  forall (cap : nat) (counter : N) (app p : list N),
  counter < two32 -> bytes app -> checkin_generate nonce_of aead_enc cap counter app = Ok p ->
  checkin_parse nonce_of aead_dec p = Ok (counter, app).
Proof. intros (H1 & H2 & H3 & H4 & H5). exact (checkin_roundtrip _ _ _ H1 H2 H3 H4 H5). Qed.

Lemma checkin_generate_i nonce_of aead_enc aead_dec :
  aead_ideal nonce_of aead_enc aead_dec ->
  forall (cap : nat) (counter : N) (app : list N),
  if Nat.ltb cap (33 + length app)
  then checkin_generate nonce_of aead_enc cap counter app = Err E_BUF
  else exists p, checkin_generate nonce_of aead_enc cap counter app = Ok p /\
                 length p = (33 + length app)%nat.
Proof.
  intros (H1 & H2 & H3 & H4 & H5) cap counter app.
  destruct (Nat.ltb cap (33 + length app)) eqn:E.
  - apply Nat.ltb_lt in E. exact (checkin_generate_small _ _ _ H1 H2 H3 H4 H5 _ _ _ E).
  - apply Nat.ltb_ge in E. eexists. split.
    + apply (checkin_generate_ok nonce_of aead_enc aead_dec H1 H2 H3 H4 H5). exact E.
    + eapply (checkin_payload_length _ _ _ H1 H2 H3 H4 H5).
      apply (checkin_generate_ok nonce_of aead_enc aead_dec H1 H2 H3 H4 H5). exact E.
Qed.

Lemma checkin_total_i nonce_of aead_enc aead_dec :
  aead_ideal nonce_of aead_enc aead_dec ->
  forall p : list N, no_panic (checkin_parse nonce_of aead_dec p).
Proof. intros (H1 & H2 & H3 & H4 & H5). exact (checkin_parse_total _ _ _ H2 H3 H4 H5). Qed.

Lemma checkin_canonical_i nonce_of aead_enc aead_dec :
  aead_ideal nonce_of aead_enc aead_dec ->
  forall (p : list N) (c : N) (a : list N),
  checkin_parse nonce_of aead_dec p = Ok (c, a) ->
  c < two32 /\ bytes a /\ checkin_generate nonce_of aead_enc (length p) c a = Ok p.
Proof. intros (H1 & H2 & H3 & H4 & H5). exact (checkin_parse_canonical _ _ _ H1 H2 H3 H4 H5). Qed.

Lemma mon_checkin_dec_i nonce_of aead_enc aead_dec :
  aead_ideal nonce_of aead_enc aead_dec ->
  forall p : list N, mon_checkin_dec nonce_of p (checkin_parse nonce_of aead_dec p) = true.
Proof. intros (H1 & H2 & H3 & H4 & H5). exact (mon_checkin_dec_model _ _ _ H1 H2 H3 H4 H5). Qed.

(** the assumptions are satisfiable: a toy scheme (append sixteen zero bytes) *)
Definition toy_enc (_ p : list N) : list N := p ++ repeat 0 16.
Definition toy_dec (_ c : list N) : option (list N) :=
  if Nat.leb 16 (length c) && list_eqb (skipn (length c - 16) c) (repeat 0 16) &&
     bytesb (firstn (length c - 16) c)
  then Some (firstn (length c - 16) c) else None.

Lemma toy_aead_ideal : aead_ideal (fun c => le_bytes 13 c) toy_enc toy_dec.
Proof.
  unfold aead_ideal, toy_enc, toy_dec. split; [|split; [|split; [|split]]].
  - intro c. apply le_bytes_length.
  - intros _ p Hp. rewrite app_length, repeat_length.
    replace (length p + 16 - 16)%nat with (length p) by lia.
    rewrite firstn_len_app, skipn_len_app, list_eqb_refl.
    apply bytesb_spec in Hp. rewrite Hp.
    replace (Nat.leb 16 (length p + 16)) with true by (symmetry; apply Nat.leb_le; lia).
    reflexivity.
  - intros _ p. rewrite app_length, repeat_length. reflexivity.
  - intros _ c p H.
    destruct (Nat.leb 16 (length c) && list_eqb (skipn (length c - 16) c) (repeat 0 16) &&
              bytesb (firstn (length c - 16) c)) eqn:E; [|discriminate].
    injection H as <-. apply andb_prop in E as [E _]. apply andb_prop in E as [_ E].
    apply list_eqb_eq in E. rewrite <- E. symmetry. apply firstn_skipn.
  - intros _ c p H.
    destruct (Nat.leb 16 (length c) && list_eqb (skipn (length c - 16) c) (repeat 0 16) &&
              bytesb (firstn (length c - 16) c)) eqn:E; [|discriminate].
    injection H as <-. apply andb_prop in E as [_ E]. apply bytesb_spec. exact E.
Qed.
