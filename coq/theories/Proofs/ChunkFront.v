(** C14: the front end of the correspondence driver (synthetic node + request ->
    work list) produces inputs that satisfy the hypotheses of the theorems, and
    its list of expectations is the one the theorems speak about. *)
From RsM Require Import Lib.MachInt Model.Chunk Model.ChunkSpec Proofs.ChunkFacts Proofs.ChunkEvents Proofs.ChunkTheorems.
From Coq Require Import ZifyN ZifyBool Lia Sorted.
Open Scope N_scope.

Lemma map_flat_map' {A B C} (f : B -> C) (g : A -> list B) (l : list A) :
  map f (flat_map g l) = flat_map (fun x => map f (g x)) l.
Proof. induction l as [|x l IH]; [reflexivity|]. cbn [flat_map]. rewrite map_app, IH. reflexivity. Qed.

Lemma flat_map_ext' {A B} (f g : A -> list B) (l : list A) :
  (forall x, f x = g x) -> flat_map f l = flat_map g l.
Proof. intros H. induction l as [|x l IH]; [reflexivity|]. cbn [flat_map]. rewrite H, IH. reflexivity. Qed.

Lemma expand_map {T U} (f : T -> U) (leaf : clus -> N * aspec -> T) (status : path -> N -> T) nd fs qs :
  map f (expand leaf status nd fs qs)
  = expand (fun cl a => f (leaf cl a)) (fun p code => f (status p code)) nd fs qs.
Proof.
  unfold expand. rewrite map_flat_map'. apply flat_map_ext'. intros q. unfold expand_path.
  rewrite map_app, map_flat_map'. f_equal.
  - unfold concrete_status. destruct q as [[[e|] [c_|]] [a|]]; try reflexivity.
    repeat match goal with |- context [if ?b then _ else _] => destruct b end; reflexivity.
  - apply flat_map_ext'. intros cl. destruct (filtered_out fs cl); [reflexivity|].
    unfold expand_cluster. destruct q as [[qe qc] qa]. destruct (_ && _); [|reflexivity].
    rewrite map_map. reflexivity.
Qed.

Lemma expand_ext {T} (leaf leaf' : clus -> N * aspec -> T) (status status' : path -> N -> T) nd fs qs :
  (forall cl a, leaf cl a = leaf' cl a) -> (forall p code, status p code = status' p code) ->
  expand leaf status nd fs qs = expand leaf' status' nd fs qs.
Proof.
  intros H1 H2. unfold expand. apply flat_map_ext'. intros q. unfold expand_path. f_equal.
  - unfold concrete_status. destruct q as [[[e|] [c_|]] [a|]]; try reflexivity.
    repeat match goal with |- context [if ?b then _ else _] => destruct b end; rewrite ?H2; reflexivity.
  - apply flat_map_ext'. intros cl. destruct (filtered_out fs cl); [reflexivity|].
    unfold expand_cluster. destruct q as [[qe qc] qa]. destruct (_ && _); [|reflexivity].
    apply map_ext. intros a. apply H1.
Qed.

Lemma expects_of_items nd fs qs : expects_of nd fs qs = map expect_of_item (items_of nd fs qs).
Proof.
  unfold expects_of, items_of. rewrite expand_map. apply expand_ext.
  - intros cl [id sp]. unfold expect_of, item_of. cbn [fst snd]. destruct sp as [len|lens]; cbn [expect_of_item].
    + reflexivity.
    + rewrite map_length. reflexivity.
  - reflexivity.
Qed.

Lemma items_of_ok nd fs qs : forallb item_ok (items_of nd fs qs) = true.
Proof.
  assert (H : map item_ok (items_of nd fs qs) = expand (fun _ _ => true) (fun _ _ => true) nd fs qs).
  { unfold items_of. rewrite expand_map. apply expand_ext.
    - intros cl [id sp]. unfold item_of. cbn [fst snd]. destruct sp; reflexivity.
    - reflexivity. }
  assert (Hall : forall l : list bool, (forall b, In b l -> b = true) -> forallb (fun b => b) l = true).
  { intros l. induction l as [|b l IH]; intros Hl; [reflexivity|]. cbn [forallb].
    rewrite (Hl b (or_introl eq_refl)), IH; [reflexivity|]. intros b' Hb'. apply Hl. right. assumption. }
  rewrite <- (map_id (items_of nd fs qs)). rewrite forallb_forall. intros it Hit. rewrite map_id in Hit.
  assert (In (item_ok it) (map item_ok (items_of nd fs qs))) by (apply in_map; assumption).
  rewrite H in H0. clear - H0. unfold expand in H0. apply in_flat_map in H0. destruct H0 as (q & _ & Hq).
  unfold expand_path in Hq. apply in_app_or in Hq. destruct Hq as [Hq|Hq].
  - unfold concrete_status in Hq. destruct q as [[[e|] [c_|]] [a|]]; try destruct Hq.
    repeat match type of Hq with context [if ?b then _ else _] => destruct b end;
      cbn [In] in Hq; intuition congruence.
  - apply in_flat_map in Hq. destruct Hq as (cl & _ & Hcl). destruct (filtered_out fs cl); [destruct Hcl|].
    unfold expand_cluster in Hcl. destruct q as [[qe qc] qa]. destruct (_ && _); [|destruct Hcl].
    apply in_map_iff in Hcl. destruct Hcl as (a & Ha & _). congruence.
Qed.

Lemma report_items_ok nd qs chs : forallb item_ok (report_items_of nd qs chs) = true.
Proof.
  unfold report_items_of. pose proof (items_of_ok (bump_node nd chs) [] qs) as H. rewrite forallb_forall in *.
  intros it Hit. apply filter_In in Hit. apply H. tauto.
Qed.

Lemma ev_statuses_ok nd qs : forallb is_evstatus (ev_statuses_of nd qs) = true.
Proof. unfold ev_statuses_of. induction (ev_status_codes nd qs) as [|x l IH]; [reflexivity|]. cbn [map forallb is_evstatus]. exact IH. Qed.

Lemma evs_of_lower nd qs mins (l : list evspec) : forall num,
  Forall (fun e => num <= ev_num e) (evs_of nd qs mins num l).
Proof.
  induction l as [|e l IH]; intros num; cbn [evs_of]; constructor.
  - cbn [ev_num]. lia.
  - eapply Forall_impl; [|apply (IH (num + 1))]. cbn beta. intros x Hx. lia.
Qed.

Lemma evs_of_sorted nd qs mins (l : list evspec) : forall num, ev_sorted (evs_of nd qs mins num l).
Proof.
  unfold ev_sorted. induction l as [|e l IH]; intros num; cbn [evs_of]; constructor.
  - apply IH.
  - eapply Forall_impl; [|apply (evs_of_lower nd qs mins l (num + 1))]. cbn beta. cbn [ev_num]. intros x Hx. lia.
Qed.

Lemma evexpects_of_total (c : cfg) nd qs (evs : list ev) :
  evexpects_of c nd qs evs = map evx_of_atom (events_total c (ev_statuses_of nd qs) evs).
Proof.
  unfold evexpects_of, events_total, ev_statuses_of, want, in_range. rewrite map_app, !map_map. reflexivity.
Qed.
