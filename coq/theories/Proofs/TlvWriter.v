(** What the reader sees at the front of bytes produced by the writer:
    control byte, tag, value; skipping one written item. *)
From Coq Require Import NArith ZArith List Bool Lia ZifyN ZifyBool.
From RsM Require Import Model.Tlv Proofs.TlvFacts.
Import ListNotations.
Open Scope N_scope.

Ltac nlia := unfold blen, two63, two64 in *; cbn [length] in *; lia.

(** * Well-formed tags, values, trees *)

Definition wf_tag (t : tag) : Prop :=
  match t with
  | TgAnon => True
  | TgCtx v => v < 256
  | TgC16 v | TgI16 v => v < 65536
  | TgC32 v | TgI32 v => v < 4294967296
  | TgF48 a b c => a < 65536 /\ b < 65536 /\ c < 65536
  | TgF64 a b c => a < 65536 /\ b < 65536 /\ c < 4294967296
  end.

(** leaf values: in range for their width; a string fits its length field *)
Definition wf_val (v : tval) : Prop :=
  match v with
  | VS w z => (- Z.of_N (whalf w) <= z < Z.of_N (whalf w))%Z
  | VU w n => n < wfull w
  | VF32 b => b < 4294967296
  | VF64 b => b < two64
  | VUtf w s => is_bytes s /\ blen s < wfull w /\ utf8_valid s = true
  | VStr w s => is_bytes s /\ blen s < wfull w
  | VBool _ | VNull => True
  | VCont _ | VEnd => False
  end.

Fixpoint wf_tree (x : tree) : Prop :=
  match x with
  | Leaf t v => wf_tag t /\ wf_val v
  | Node t k cs =>
      wf_tag t /\
      (fix all (l : list tree) : Prop :=
         match l with [] => True | c :: r => wf_tree c /\ all r end) cs
  end.

Definition wf_list (cs : list tree) : Prop := Forall wf_tree cs.

Lemma wf_node t k cs : wf_tree (Node t k cs) <-> wf_tag t /\ wf_list cs.
Proof.
  cbn [wf_tree]. split; intros [Ht H]; split; auto.
  - induction cs as [|c r IH]; constructor; [tauto|apply IH; tauto].
  - induction H; [exact I|split; auto].
Qed.

(** induction over trees with the children as a [Forall] *)
Section tree_ind2.
  Variable P : tree -> Prop.
  Hypothesis Hleaf : forall t v, P (Leaf t v).
  Hypothesis Hnode : forall t k cs, Forall P cs -> P (Node t k cs).
  Fixpoint tree_ind2 (x : tree) : P x :=
    match x with
    | Leaf t v => Hleaf t v
    | Node t k cs =>
        Hnode t k cs
          ((fix go (l : list tree) : Forall P l :=
              match l with
              | [] => Forall_nil P
              | c :: r => Forall_cons c (tree_ind2 c) (go r)
              end) cs)
    end.
End tree_ind2.

(** * Control byte round trip *)

Lemma code_of_vtype_lt v : code_of_vtype v < 32.
Proof. destruct v as [[]|[]| | | | |[]|[]| |[]|]; cbn; lia. Qed.
Lemma code_of_tagtype_lt t : code_of_tagtype t < 8.
Proof. destruct t; cbn; lia. Qed.

Lemma vtype_of_code_of v : vtype_of_code (code_of_vtype v) = Some v.
Proof. destruct v as [[]|[]| | | | |[]|[]| |[]|]; reflexivity. Qed.
Lemma tagtype_of_code_of t : tagtype_of_code (code_of_tagtype t) = t.
Proof. destruct t; reflexivity. Qed.

Lemma parse_ctl_byte t v : parse_control (ctl_byte t v) = ROk (t, v).
Proof.
  unfold parse_control, ctl_byte.
  pose proof (code_of_vtype_lt v). pose proof (code_of_tagtype_lt t).
  replace ((32 * code_of_tagtype t + code_of_vtype v) mod 32) with (code_of_vtype v).
  2:{ rewrite N.add_comm, N.mul_comm, N.mod_add by lia. symmetry. apply N.mod_small. lia. }
  replace ((32 * code_of_tagtype t + code_of_vtype v) / 32) with (code_of_tagtype t).
  2:{ rewrite N.add_comm, N.mul_comm, N.div_add by lia. rewrite N.div_small by lia. lia. }
  rewrite vtype_of_code_of, N.mod_small, tagtype_of_code_of by lia. reflexivity.
Qed.

Lemma ctl_byte_lt t v : ctl_byte t v < 256.
Proof.
  unfold ctl_byte. pose proof (code_of_vtype_lt v). pose proof (code_of_tagtype_lt t). lia.
Qed.

(** * Tags *)

Lemma enc_tag_blen t : blen (enc_tag t) = tagsize (tagtype_of_tag t).
Proof. destruct t; cbn [enc_tag tagtype_of_tag tagsize]; rewrite ?blen_app, ?le_bytes_blen; reflexivity. Qed.

Lemma enc_tag_is_bytes t : is_bytes (enc_tag t).
Proof.
  destruct t; cbn [enc_tag]; repeat (apply is_bytes_app; split);
    try apply le_bytes_is_bytes. constructor.
Qed.

Lemma le_val_le_bytes_small n v : v < 256 ^ N.of_nat n -> le_val (le_bytes n v) = v.
Proof. intros H. rewrite le_val_le_bytes. apply N.mod_small. exact H. Qed.

Lemma firstn_app_exact {A} (a b : list A) : firstn (length a) (a ++ b) = a.
Proof. rewrite firstn_app, firstn_all, Nat.sub_diag. cbn. apply app_nil_r. Qed.
Lemma skipn_app_exact {A} (a b : list A) : skipn (length a) (a ++ b) = b.
Proof. rewrite skipn_app, skipn_all, Nat.sub_diag. reflexivity. Qed.

Lemma subsl_a (a b c : bytes) : length a = 2%nat -> subsl (a ++ b ++ c) 0 2 = a.
Proof.
  destruct a as [|a0 [|a1 [|]]]; try discriminate. intros _. reflexivity.
Qed.
Lemma subsl_b (a b c : bytes) :
  length a = 2%nat -> length b = 2%nat -> subsl (a ++ b ++ c) 2 2 = b.
Proof.
  destruct a as [|a0 [|a1 [|]]]; try discriminate.
  destruct b as [|b0 [|b1 [|]]]; try discriminate. intros _ _. reflexivity.
Qed.
Lemma subsl_c (a b c : bytes) n :
  length a = 2%nat -> length b = 2%nat -> length c = n -> subsl (a ++ b ++ c) 4 n = c.
Proof.
  destruct a as [|a0 [|a1 [|]]]; try discriminate.
  destruct b as [|b0 [|b1 [|]]]; try discriminate. intros _ _ <-.
  unfold subsl. cbn [app skipn]. apply firstn_all.
Qed.

Lemma tag_of_slice_enc t : wf_tag t -> tag_of_slice (tagtype_of_tag t) (enc_tag t) = ROk t.
Proof.
  destruct t; cbn [wf_tag tagtype_of_tag enc_tag tag_of_slice]; intros H.
  - reflexivity.
  - cbn [le_bytes]. rewrite N.mod_small by lia. reflexivity.
  - unfold le_exact. rewrite le_bytes_blen. change (N.of_nat 2 =? 2) with true. cbn [rbind].
    rewrite le_val_le_bytes_small by (cbn; lia). reflexivity.
  - unfold le_exact. rewrite le_bytes_blen. change (N.of_nat 4 =? 4) with true. cbn [rbind].
    rewrite le_val_le_bytes_small by (cbn; lia). reflexivity.
  - unfold le_exact. rewrite le_bytes_blen. change (N.of_nat 2 =? 2) with true. cbn [rbind].
    rewrite le_val_le_bytes_small by (cbn; lia). reflexivity.
  - unfold le_exact. rewrite le_bytes_blen. change (N.of_nat 4 =? 4) with true. cbn [rbind].
    rewrite le_val_le_bytes_small by (cbn; lia). reflexivity.
  - destruct H as (Ha & Hb & Hc).
    rewrite !blen_app, !le_bytes_blen. change (N.of_nat 2 + (N.of_nat 2 + N.of_nat 2) <? 6) with false.
    cbn iota.
    rewrite subsl_a, subsl_b, subsl_c by apply le_bytes_length.
    rewrite !le_val_le_bytes_small by (cbn; lia). reflexivity.
  - destruct H as (Ha & Hb & Hc).
    rewrite !blen_app, !le_bytes_blen. change (N.of_nat 2 + (N.of_nat 2 + N.of_nat 4) <? 8) with false.
    cbn iota.
    rewrite subsl_a, subsl_b, subsl_c by apply le_bytes_length.
    rewrite !le_val_le_bytes_small by (cbn; lia). reflexivity.
Qed.

(** * The front of [w_raw_value t vt (lf ++ data) ++ rest] *)

Lemma raw_unfold t vt p rest :
  w_raw_value t vt p ++ rest = ctl_byte (tagtype_of_tag t) vt :: enc_tag t ++ p ++ rest.
Proof. unfold w_raw_value. cbn [app]. rewrite <- app_assoc. reflexivity. Qed.

Lemma raw_control t vt p rest :
  control (w_raw_value t vt p ++ rest) = ROk (tagtype_of_tag t, vt).
Proof. rewrite raw_unfold. cbn [control]. apply parse_ctl_byte. Qed.

Lemma raw_el_tag t vt p rest :
  wf_tag t -> el_tag (w_raw_value t vt p ++ rest) = ROk t.
Proof.
  intros Hw. unfold el_tag. rewrite raw_control. cbn [rbind fst].
  rewrite raw_unfold, tag_start_cons. cbn [rbind].
  rewrite <- enc_tag_blen, get_to_app. cbn [ok_or rbind].
  apply tag_of_slice_enc. exact Hw.
Qed.

Lemma raw_vls t vt p rest :
  value_len_start (w_raw_value t vt p ++ rest) (tagtype_of_tag t) = ROk (p ++ rest).
Proof.
  unfold value_len_start. rewrite raw_unfold, tag_start_cons.
  rewrite <- enc_tag_blen, get_from_app. reflexivity.
Qed.

Lemma next_enter_control x c : control x = ROk c -> next_enter x = next_start x c.
Proof.
  intros H. destruct x as [|b x]; [cbn in H; discriminate|].
  unfold next_enter. rewrite H. reflexivity.
Qed.

(** [lf] is the length field (empty for fixed-size types), [data] the value *)
Definition shape (vt : vtype) (lf data : bytes) : Prop :=
  blen lf = varlen vt /\
  match fixed_size vt with
  | Some n => n = blen data
  | None => le_val lf = blen data
  end.

Section Shape.
  Variables (t : tag) (vt : vtype) (lf data rest : bytes).
  Hypothesis Hsh : shape vt lf data.
  Let s := w_raw_value t vt (lf ++ data) ++ rest.
  Let c := (tagtype_of_tag t, vt).

  Lemma sh_value_len : value_len s c = ROk (blen data).
  Proof.
    destruct Hsh as [Hl Hf]. unfold value_len, s, c. cbn [fst snd].
    destruct (fixed_size vt) as [n|]; [subst n; reflexivity|].
    rewrite raw_vls. cbn [rbind]. rewrite <- Hl, <- app_assoc, get_to_app. cbn [ok_or rbind].
    unfold le_exact. rewrite N.eqb_refl. rewrite Hf. reflexivity.
  Qed.

  Lemma sh_value_start : value_start s c = ROk (data ++ rest).
  Proof.
    destruct Hsh as [Hl _]. unfold value_start, s, c. cbn [fst snd].
    rewrite raw_vls. cbn [rbind]. rewrite <- Hl, <- app_assoc, get_from_app. reflexivity.
  Qed.

  Lemma sh_value : value s c = ROk data.
  Proof.
    unfold value. rewrite sh_value_len, sh_value_start. cbn [rbind].
    rewrite get_to_app. reflexivity.
  Qed.

  Lemma sh_next_start : next_start s c = ROk rest.
  Proof.
    unfold next_start. rewrite sh_value_len, sh_value_start. cbn [rbind].
    rewrite get_from_app. reflexivity.
  Qed.

  Lemma sh_next_enter : next_enter s = ROk rest.
  Proof.
    rewrite (next_enter_control s c) by apply raw_control. apply sh_next_start.
  Qed.

  Lemma sh_blen : blen (w_raw_value t vt (lf ++ data)) = hdr_len c + blen data.
  Proof.
    destruct Hsh as [Hl _]. unfold w_raw_value, hdr_len, c. cbn [fst snd].
    rewrite blen_cons, !blen_app, enc_tag_blen, Hl. lia.
  Qed.

  Lemma sh_len : blen (w_raw_value t vt (lf ++ data)) < two64 ->
    len_ s = ROk (blen (w_raw_value t vt (lf ++ data))).
  Proof.
    intros Hb. unfold len_. fold s. replace (control s) with (ROk (A:=control_t) c)
      by (symmetry; apply raw_control).
    cbn [rbind]. rewrite sh_value_len. cbn [rbind]. unfold add_len.
    rewrite <- sh_blen. destruct (N.ltb_spec (blen (w_raw_value t vt (lf ++ data))) two64); [reflexivity|lia].
  Qed.

  Lemma sh_container_value : is_container_vt vt = false -> container_value s c = ROk data.
  Proof.
    intros Hc. unfold container_value, container_value_len. change (snd c) with vt.
    rewrite Hc. rewrite sh_value_len, sh_value_start. cbn [rbind].
    rewrite get_to_app. reflexivity.
  Qed.
End Shape.

(** * Leaves *)

Lemma w_tlv_raw t v : w_tlv t v = w_raw_value t (vtype_of_val v) (val_payload v).
Proof. unfold w_tlv, w_raw_value. cbn [app]. rewrite app_nil_r. reflexivity. Qed.

Lemma wfull_pow w : wfull w = 256 ^ N.of_nat (wnat w).
Proof. destruct w; vm_compute; reflexivity. Qed.
Lemma wlen_wnat w : wlen w = N.of_nat (wnat w).
Proof. destruct w; reflexivity. Qed.

Definition val_lf (v : tval) : bytes :=
  match v with
  | VUtf w s | VStr w s => le_bytes (wnat w) (blen s)
  | _ => []
  end.
Definition val_data (v : tval) : bytes :=
  match v with
  | VS w z => le_bytes (wnat w) (of_signed w z)
  | VU w n => le_bytes (wnat w) n
  | VF32 b => le_bytes 4 b
  | VF64 b => le_bytes 8 b
  | VUtf _ s | VStr _ s => s
  | _ => []
  end.

Lemma val_payload_split v : val_payload v = val_lf v ++ val_data v.
Proof. destruct v; reflexivity. Qed.

Lemma val_shape v :
  (match v with VUtf w s | VStr w s => blen s < wfull w | _ => True end) ->
  shape (vtype_of_val v) (val_lf v) (val_data v).
Proof.
  intros H. destruct v as [w z|w n|[]|b|b|w s|w s| |k|];
    cbn [vtype_of_val val_lf val_data shape varlen fixed_size]; unfold shape;
    cbn [varlen fixed_size]; rewrite ?le_bytes_blen, ?blen_nil; try (split; reflexivity);
    try (split; [reflexivity|apply wlen_wnat]).
  - split; [symmetry; apply wlen_wnat|]. apply le_val_le_bytes_small. rewrite <- wfull_pow. exact H.
  - split; [symmetry; apply wlen_wnat|]. apply le_val_le_bytes_small. rewrite <- wfull_pow. exact H.
Qed.

Lemma wf_val_strlen v : wf_val v ->
  match v with VUtf w s | VStr w s => blen s < wfull w | _ => True end.
Proof. destruct v; cbn; tauto. Qed.

Lemma wf_val_shape v : wf_val v -> shape (vtype_of_val v) (val_lf v) (val_data v).
Proof. intros H. apply val_shape, wf_val_strlen, H. Qed.

Lemma to_of_signed w z :
  (- Z.of_N (whalf w) <= z < Z.of_N (whalf w))%Z -> to_signed w (of_signed w z) = z.
Proof.
  intros H. unfold to_signed, of_signed.
  assert (Hf : Z.of_N (wfull w) = (2 * Z.of_N (whalf w))%Z) by (destruct w; reflexivity).
  assert (Hp : (0 < Z.of_N (whalf w))%Z) by (destruct w; reflexivity).
  destruct (Z.ltb_spec z 0) as [Hneg|Hpos].
  - assert (E : (z mod Z.of_N (wfull w) = z + Z.of_N (wfull w))%Z).
    { symmetry. apply Z.mod_unique_pos with (q := (-1)%Z); lia. }
    rewrite E. destruct (N.ltb_spec (Z.to_N (z + Z.of_N (wfull w))) (whalf w)); lia.
  - rewrite Z.mod_small by lia.
    destruct (N.ltb_spec (Z.to_N z) (whalf w)); lia.
Qed.

Lemma of_signed_lt w z : of_signed w z < wfull w.
Proof.
  unfold of_signed. assert (0 < Z.of_N (wfull w))%Z by (destruct w; reflexivity).
  pose proof (Z.mod_pos_bound z (Z.of_N (wfull w)) H). lia.
Qed.

Lemma leaf_not_container v : wf_val v -> is_container_vt (vtype_of_val v) = false.
Proof. destruct v as [| |[]| | | | | | |]; cbn; tauto. Qed.

Lemma leaf_el_value t v rest :
  wf_val v -> el_value (w_tlv t v ++ rest) = ROk v.
Proof.
  intros Hw. rewrite w_tlv_raw, val_payload_split. unfold el_value.
  rewrite raw_control. cbn [rbind].
  rewrite sh_container_value by (auto using wf_val_shape, leaf_not_container).
  cbn [rbind snd].
  destruct v as [w z|w n|[]|b|b|w s|w s| |k|]; cbn [vtype_of_val val_data wf_val] in *;
    try reflexivity; try contradiction.
  - unfold le_exact. rewrite le_bytes_blen, <- wlen_wnat, N.eqb_refl. cbn [rbind].
    rewrite le_val_le_bytes_small by (rewrite <- wfull_pow; apply of_signed_lt).
    rewrite to_of_signed by exact Hw. reflexivity.
  - unfold le_exact. rewrite le_bytes_blen, <- wlen_wnat, N.eqb_refl. cbn [rbind].
    rewrite le_val_le_bytes_small by (rewrite <- wfull_pow; exact Hw). reflexivity.
  - unfold le_exact. rewrite le_bytes_blen. change (N.of_nat 4 =? 4) with true. cbn [rbind].
    rewrite le_val_le_bytes_small by (cbn; lia). reflexivity.
  - unfold le_exact. rewrite le_bytes_blen. change (N.of_nat 8 =? 8) with true. cbn [rbind].
    rewrite le_val_le_bytes_small by (unfold two64 in Hw; cbn; lia). reflexivity.
  - destruct Hw as (_ & _ & ->). reflexivity.
Qed.

Lemma leaf_el_tag t v rest : wf_tag t -> el_tag (w_tlv t v ++ rest) = ROk t.
Proof. intros. rewrite w_tlv_raw. apply raw_el_tag. assumption. Qed.

Lemma leaf_control t v rest :
  control (w_tlv t v ++ rest) = ROk (tagtype_of_tag t, vtype_of_val v).
Proof. rewrite w_tlv_raw. apply raw_control. Qed.

Lemma leaf_next_enter t v rest : wf_val v -> next_enter (w_tlv t v ++ rest) = ROk rest.
Proof.
  intros Hw. rewrite w_tlv_raw, val_payload_split. apply sh_next_enter.
  apply wf_val_shape; assumption.
Qed.

Lemma leaf_len t v rest : wf_val v -> blen (w_tlv t v) < two64 ->
  len_ (w_tlv t v ++ rest) = ROk (blen (w_tlv t v)).
Proof.
  intros Hw Hb. rewrite w_tlv_raw, val_payload_split in *. apply sh_len; auto.
  apply wf_val_shape; assumption.
Qed.

(** * Container start and end markers *)

Lemma start_shape k : shape (TCont k) [] [].
Proof. split; reflexivity. Qed.
Lemma end_shape : shape TEnd [] [].
Proof. split; reflexivity. Qed.

Lemma w_start_raw t k : w_start t k = w_raw_value t (TCont k) ([] ++ []).
Proof. reflexivity. Qed.
Lemma w_end_raw : w_end = w_raw_value TgAnon TEnd ([] ++ []).
Proof. reflexivity. Qed.

Lemma start_control t k rest : control (w_start t k ++ rest) = ROk (tagtype_of_tag t, TCont k).
Proof. apply raw_control. Qed.
Lemma start_el_tag t k rest : wf_tag t -> el_tag (w_start t k ++ rest) = ROk t.
Proof. apply raw_el_tag. Qed.
Lemma start_next_enter t k rest : next_enter (w_start t k ++ rest) = ROk rest.
Proof. rewrite w_start_raw. apply sh_next_enter, start_shape. Qed.
Lemma start_len t k rest : len_ (w_start t k ++ rest) = ROk (blen (w_start t k)).
Proof.
  rewrite w_start_raw. apply sh_len; [apply start_shape|].
  rewrite sh_blen by apply start_shape. unfold hdr_len. cbn [fst snd varlen].
  rewrite blen_nil. pose proof (enc_tag_blen t). destruct t; cbn [tagtype_of_tag tagsize]; unfold two64; lia.
Qed.
Lemma start_value_start t k rest :
  value_start (w_start t k ++ rest) (tagtype_of_tag t, TCont k) = ROk rest.
Proof. rewrite w_start_raw. apply (sh_value_start t (TCont k) [] [] rest (start_shape k)). Qed.

Lemma end_control rest : control (w_end ++ rest) = ROk (GAnon, TEnd).
Proof. apply (raw_control TgAnon TEnd [] rest). Qed.
Lemma end_next_enter rest : next_enter (w_end ++ rest) = ROk rest.
Proof. rewrite w_end_raw. apply sh_next_enter, end_shape. Qed.
Lemma end_len rest : len_ (w_end ++ rest) = ROk 1.
Proof. reflexivity. Qed.
