(** The accounting invariant of the session table and the reserved-session
    handles (layer 1 of Model/Slots.v): unique identifiers, capacity, and
    "a slot is reserved exactly when a live handle owns it". *)
From RsM Require Import Lib.MachInt Model.Slots Proofs.SlotsFacts.
From Coq Require Import Permutation ZifyN ZifyBool Arith.
Open Scope N_scope.

Arguments N.add : simpl never.
Arguments N.ltb : simpl never.
Arguments N.eqb : simpl never.

(** [tinv cap l H nx]: invariant of a session list [l] against the handle
    identifiers [H] and the identifier cursor [nx]; invariant under permutation. *)
Definition tinv (cap : nat) (l : list session) (H : list N) (nx : N) : Prop :=
  NoDup (map s_id l) /\ (length l <= cap)%nat /\
  (forall x, In x l -> (s_reserved x = true <-> In (s_id x) H)) /\
  (forall x, In x l -> s_id x < nx).

Definition inv1 (cap : nat) (s : st) : Prop :=
  tinv cap (t_sess (tb s)) (hids s) (t_next (tb s)) /\
  NoDup (hids s) /\ (forall h, In h (hids s) -> h < t_next (tb s)).

Lemma nodup_app_r : forall {A} (a b : list A), NoDup (a ++ b) -> NoDup b.
Proof. intros A a; induction a as [|x a IH]; intros b H; cbn in *; [exact H|]. inversion H; subst; auto. Qed.

Lemma nodup_snoc : forall {A} (l : list A) x, NoDup l -> ~ In x l -> NoDup (l ++ [x]).
Proof.
  intros A l; induction l as [|a l IH]; intros x Hnd Hni; cbn.
  - constructor; [intros []|constructor].
  - inversion Hnd; subst. constructor.
    + intros Hin. apply in_app_or in Hin. destruct Hin as [|[->|[]]]; auto. apply Hni; left; auto.
    + apply IH; auto. intros Hin; apply Hni; right; auto.
Qed.

Lemma tinv_perm : forall cap l l' H nx, Permutation l l' -> tinv cap l H nx -> tinv cap l' H nx.
Proof.
  intros cap l l' H nx Hp [Hnd [Hlen [Hres Hfr]]]. repeat split.
  - eapply Permutation_NoDup; [apply Permutation_map; exact Hp|exact Hnd].
  - rewrite <- (Permutation_length Hp); auto.
  - intros Hr. apply Hres; auto. eapply Permutation_in; [apply Permutation_sym; exact Hp|auto].
  - intros Hi. apply Hres; auto. eapply Permutation_in; [apply Permutation_sym; exact Hp|auto].
  - intros x Hin. apply Hfr. eapply Permutation_in; [apply Permutation_sym; exact Hp|auto].
Qed.

Lemma tinv_tail : forall cap g l H nx, tinv cap (g ++ l) H nx -> tinv cap l H nx.
Proof.
  intros cap g l H nx [Hnd [Hlen [Hres Hfr]]]. repeat split.
  - rewrite map_app in Hnd. eapply nodup_app_r; eauto.
  - rewrite app_length in Hlen. lia.
  - intros Hr. apply Hres; auto. apply in_or_app; auto.
  - intros Hi. apply Hres; auto. apply in_or_app; auto.
  - intros x Hin. apply Hfr. apply in_or_app; auto.
Qed.

Lemma tinv_next_mono : forall cap l H nx nx', nx <= nx' -> tinv cap l H nx -> tinv cap l H nx'.
Proof.
  intros cap l H nx nx' Hle [Hnd [Hlen [Hres Hfr]]]. repeat split; auto; try (apply Hres; auto).
  intros x Hin. specialize (Hfr x Hin). lia.
Qed.

Lemma tinv_cons_upd : forall cap x y rest H nx,
  tinv cap (x :: rest) H nx -> s_id y = s_id x -> s_reserved y = s_reserved x ->
  tinv cap (y :: rest) H nx.
Proof.
  intros cap x y rest H nx [Hnd [Hlen [Hres Hfr]]] Hid Hr. repeat split.
  - cbn in *. rewrite Hid. auto.
  - cbn in *. auto.
  - intros Hry. destruct H0 as [<-|Hin].
    + rewrite Hid. apply (Hres x); [left; auto|congruence].
    + apply Hres; auto. right; auto.
  - intros Hi. destruct H0 as [<-|Hin].
    + rewrite Hr. apply (Hres x); [left; auto|congruence].
    + apply Hres; auto. right; auto.
  - intros z [<-|Hin]; [rewrite Hid; apply Hfr; left; auto | apply Hfr; right; auto].
Qed.

Definition keeps (f : session -> session) : Prop :=
  forall x, s_id (f x) = s_id x /\ s_reserved (f x) = s_reserved x.

Lemma keeps_set_last : forall t, keeps (set_last t). Proof. intros t x; split; reflexivity. Qed.
Lemma keeps_set_mode : forall m, keeps (set_mode m). Proof. intros t x; split; reflexivity. Qed.
Lemma keeps_set_expired : forall b, keeps (set_expired b). Proof. intros t x; split; reflexivity. Qed.
Lemma keeps_set_exch : forall e, keeps (set_exch e). Proof. intros t x; split; reflexivity. Qed.
Lemma keeps_xset : forall i v, keeps (xset i v). Proof. intros i v x; split; reflexivity. Qed.

Lemma tinv_upd_nth : forall cap l i f H nx,
  keeps f -> tinv cap l H nx -> tinv cap (upd_nth i f l) H nx.
Proof.
  intros cap l i f H nx Hk Hi. destruct (nth_error l i) as [x|] eqn:Hn.
  - destruct (decomp_at _ _ _ Hn) as [rest [H1 [_ H3]]].
    eapply tinv_perm; [apply Permutation_sym; apply (H3 f)|].
    eapply tinv_cons_upd; [eapply tinv_perm; [exact H1|exact Hi]|apply Hk|apply Hk].
  - rewrite upd_nth_none; auto.
Qed.

Lemma tinv_t_upd : forall cap t id f H nx,
  keeps f -> tinv cap (t_sess t) H nx -> tinv cap (t_sess (t_upd id f t)) H nx.
Proof.
  intros cap t id f H nx Hk Hi. unfold t_upd. destruct (t_find id t); cbn; auto.
  apply tinv_upd_nth; auto.
Qed.

Lemma t_upd_next : forall t id f, t_next (t_upd id f t) = t_next t.
Proof. intros. unfold t_upd. destruct (t_find id t); auto. Qed.

Lemma tinv_t_get : forall cap t id now t1 H nx,
  t_get id now t = Some t1 -> tinv cap (t_sess t) H nx -> tinv cap (t_sess t1) H nx /\ t_next t1 = t_next t.
Proof.
  intros cap t id now t1 H nx Hg Hi. unfold t_get in Hg. destruct (t_find id t); inversion Hg; subst; cbn.
  split; auto. apply tinv_upd_nth; auto. apply keeps_set_last.
Qed.

Lemma tinv_swap_remove : forall cap l i H nx, tinv cap l H nx -> tinv cap (swap_remove i l) H nx.
Proof.
  intros cap l i H nx Hi. destruct (nth_error l i) as [x|] eqn:Hn.
  - destruct (decomp_at _ _ _ Hn) as [rest [H1 [H2 _]]].
    eapply tinv_perm; [apply Permutation_sym; exact H2|].
    apply (tinv_tail cap [x]). cbn. eapply tinv_perm; eauto.
  - rewrite swap_remove_none; auto.
Qed.

Lemma tinv_t_remove : forall cap t id H nx,
  tinv cap (t_sess t) H nx -> tinv cap (t_sess (t_remove id t)) H nx /\ t_next (t_remove id t) = t_next t.
Proof.
  intros cap t id H nx Hi. unfold t_remove. destruct (t_find id t); cbn; auto.
  split; auto. apply tinv_swap_remove; auto.
Qed.

Lemma t_remove_gone : forall t id, NoDup (ids t) -> ~ In id (ids (t_remove id t)).
Proof.
  intros t id Hnd. unfold t_remove. destruct (t_find id t) as [i|] eqn:Hf.
  - destruct (t_find_decomp _ _ _ Hf) as [x [rest [Hn [Hx [Hp [Hr _]]]]]].
    cbn. unfold ids; cbn. intros Hin. apply in_map_iff in Hin. destruct Hin as [y [Hy Hin]].
    apply (Permutation_in _ Hr) in Hin.
    eapply (NoDup_map_perm_unique _ _ _ Hp Hnd y Hin). congruence.
  - apply t_find_none; auto.
Qed.

Lemma t_evict_spec : forall now t t1 id,
  t_evict now t = (t1, Some id) ->
  exists i x, evict_choice now t = Some i /\ nth_error (t_sess t) i = Some x /\ s_id x = id /\
    Permutation (t_sess t) (x :: t_sess t1) /\ t_next t1 = t_next t.
Proof.
  intros now t t1 id He. unfold t_evict in He.
  destruct (evict_choice now t) as [i|] eqn:Hc; [|inversion He].
  destruct (nth_error (t_sess t) i) as [x|] eqn:Hn; inversion He; subst; clear He.
  exists i, x. repeat split; auto. cbn.
  destruct (decomp_at _ _ _ Hn) as [rest [H1 [H2 _]]].
  eapply Permutation_trans; [exact H1|]. apply perm_skip. apply Permutation_sym; auto.
Qed.

Lemma t_evict_none : forall now t t1, t_evict now t = (t1, None) -> t1 = t.
Proof.
  intros now t t1 He. unfold t_evict in He.
  destruct (evict_choice now t) as [i|]; [|inversion He; auto].
  destruct (nth_error (t_sess t) i); inversion He; auto.
Qed.

(** * handles *)

Lemma h_remove_ids : forall id l, NoDup (map h_id l) ->
  forall a, In a (map h_id (h_remove id l)) <-> In a (map h_id l) /\ a <> id.
Proof.
  intros id l; induction l as [|h r IH]; intros Hnd a; cbn.
  - tauto.
  - inversion Hnd as [|? ? Hni Hnd']; subst. unfold h_has at 1.
    destruct (h_id h =? id) eqn:He.
    + apply N.eqb_eq in He. subst id. split.
      * intros Hin. split; auto. intros ->. auto.
      * intros [[Heq|Hin] Hne]; [congruence|auto].
    + apply N.eqb_neq in He. cbn. rewrite (IH Hnd' a). split.
      * intros [Heq|[Hin Hne]]; [subst a; split; auto|split; auto].
      * intros [[Heq|Hin] Hne]; [left; auto|right; split; auto].
Qed.

Lemma h_remove_nodup : forall id l, NoDup (map h_id l) -> NoDup (map h_id (h_remove id l)).
Proof.
  intros id l; induction l as [|h r IH]; intros Hnd; cbn; auto.
  inversion Hnd as [|? ? Hni Hnd']; subst. destruct (h_has id h); auto.
  cbn. constructor; auto. intros Hin. apply (h_remove_ids id r Hnd') in Hin. tauto.
Qed.

Lemma find_h_in : forall id l h, find (h_has id) l = Some h -> In id (map h_id l) /\ h_id h = id.
Proof.
  intros id l h Hf. apply find_some in Hf. destruct Hf as [Hin Hp]. unfold h_has in Hp.
  apply N.eqb_eq in Hp. split; auto. rewrite <- Hp. apply in_map; auto.
Qed.

Lemma map_complete_ids : forall id l,
  map h_id (map (fun h => if h_has id h then mkH (h_id h) true else h) l) = map h_id l.
Proof.
  intros id l; induction l as [|h r IH]; cbn; auto. rewrite IH. destruct (h_has id h); auto.
Qed.

(** * t_add *)

Lemma next_uid_ok : forall x, x + 1 <= UID_MAX -> next_uid x = x + 1.
Proof. intros x Hx. unfold next_uid. destruct (UID_MAX <? x + 1) eqn:E; lia. Qed.

Lemma t_add_spec : forall cap t reserved now t1 r,
  t_add cap t reserved now = (t1, r) -> t_next t + 1 <= UID_MAX ->
  t_next t1 = t_next t + 1 /\
  match r with
  | Some id => id = t_next t /\ (length (t_sess t) < cap)%nat /\
               t_sess t1 = t_sess t ++ [mkS id MPlain reserved false now []]
  | None => t_sess t1 = t_sess t /\ (cap <= length (t_sess t))%nat
  end.
Proof.
  intros cap t reserved now t1 r Ha Hb. unfold t_add in Ha.
  destruct (Nat.ltb (length (t_sess t)) cap) eqn:Hl; inversion Ha; subst; cbn.
  - rewrite next_uid_ok; auto. apply Nat.ltb_lt in Hl. auto.
  - rewrite next_uid_ok; auto. apply Nat.ltb_ge in Hl. auto.
Qed.

Lemma tinv_add : forall cap l H nx reserved now,
  tinv cap l H nx -> (length l < cap)%nat -> (forall h, In h H -> h < nx) ->
  tinv cap (l ++ [mkS nx MPlain reserved false now []]) (if reserved then H ++ [nx] else H) (nx + 1).
Proof.
  intros cap l H nx reserved now [Hnd [Hlen [Hres Hfr]]] Hlt HH. repeat split.
  - rewrite map_app. cbn. apply nodup_snoc; auto.
    intros Hin. apply in_map_iff in Hin. destruct Hin as [y [Hy Hin]]. specialize (Hfr y Hin). lia.
  - rewrite app_length. cbn. lia.
  - intros Hr. apply in_app_or in H0. destruct H0 as [Hin|[<-|[]]].
    + destruct reserved; [apply in_or_app; left|]; apply Hres; auto.
    + cbn in *. subst reserved. apply in_or_app; right; left; auto.
  - intros Hi. apply in_app_or in H0. destruct H0 as [Hin|[<-|[]]].
    + apply Hres; auto. destruct reserved; auto. apply in_app_or in Hi. destruct Hi as [|[Heq|[]]]; auto.
      specialize (Hfr x Hin). lia.
    + cbn in *. destruct reserved; auto. specialize (HH nx Hi). lia.
  - intros x Hin. apply in_app_or in Hin. destruct Hin as [Hin|[<-|[]]].
    + specialize (Hfr x Hin). lia.
    + cbn. lia.
Qed.
