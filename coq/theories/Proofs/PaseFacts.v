(** Lemmas about the PASE responder model: association-list facts, symbolic
    term equality, and the reachable-state invariant. *)
From RsM Require Import Model.Pase Model.PaseSpec.
From Coq Require Import NArith List Bool Lia ZifyN ZifyBool.
Import ListNotations.
Open Scope N_scope.

Arguments N.add : simpl never.
Arguments N.mul : simpl never.
Arguments N.sub : simpl never.
Arguments N.leb : simpl never.
Arguments N.ltb : simpl never.
Arguments N.eqb : simpl never.
Arguments N.min : simpl never.

(** ** Handshake table *)

Lemma hs_get_del e0 e l :
  hs_get e0 (hs_del e l) = if e =? e0 then None else hs_get e0 l.
Proof.
  induction l as [|[k v] t IH]; cbn [hs_get hs_del].
  - destruct (e =? e0); reflexivity.
  - destruct (k =? e) eqn:Hke.
    + rewrite IH. apply N.eqb_eq in Hke. subst k.
      destruct (e =? e0) eqn:He; reflexivity.
    + cbn [hs_get]. rewrite IH.
      destruct (k =? e0) eqn:Hk0; [|reflexivity].
      apply N.eqb_eq in Hk0. subst k. rewrite N.eqb_sym, Hke. reflexivity.
Qed.

Lemma hs_get_put e0 e v l :
  hs_get e0 (hs_put e v l) = if e =? e0 then Some v else hs_get e0 l.
Proof.
  unfold hs_put. cbn [hs_get]. rewrite hs_get_del.
  destruct (e =? e0); reflexivity.
Qed.

(** ** Symbolic terms: the boolean equalities decide equality *)

Lemma vf_eqb_eq a b : vf_eqb a b = true <-> a = b.
Proof.
  destruct a as [a1 a2 a3 a4], b as [b1 b2 b3 b4]. unfold vf_eqb. cbn.
  rewrite !andb_true_iff, !N.eqb_eq. split.
  - intros [[[-> ->] ->] ->]. reflexivity.
  - intros H. inversion H. auto.
Qed.

Lemma point_eqb_eq a b : point_eqb a b = true <-> a = b.
Proof.
  destruct a, b; cbn [point_eqb]; try rewrite N.eqb_eq; split; intros H;
    try discriminate; try reflexivity; try (inversion H; reflexivity); try (subst; reflexivity).
Qed.

Lemma tr_eqb_eq a b : tr_eqb a b = true <-> a = b.
Proof.
  destruct a as [a1 a2 a3 a4], b as [b1 b2 b3 b4]. unfold tr_eqb. cbn.
  rewrite !andb_true_iff, !N.eqb_eq, point_eqb_eq. split.
  - intros [[[-> ->] ->] ->]. reflexivity.
  - intros H. inversion H. auto.
Qed.

Lemma conf_eqb_eq a b : conf_eqb a b = true <-> a = b.
Proof.
  destruct a, b; cbn [conf_eqb]; try rewrite andb_true_iff, vf_eqb_eq, tr_eqb_eq;
    try rewrite N.eqb_eq; split; intros H; try discriminate.
  - destruct H as [-> ->]. reflexivity.
  - inversion H. auto.
  - subst. reflexivity.
  - inversion H. reflexivity.
Qed.

Lemma conf_eqb_refl a : conf_eqb a a = true.
Proof. apply conf_eqb_eq. reflexivity. Qed.

(** ** Sessions: becoming usable does not change what was committed *)

Lemma core_make_live l e : map core (make_live l e) = map core l.
Proof.
  unfold make_live. rewrite map_map. apply map_ext. intros x.
  destruct (_ && _); reflexivity.
Qed.

(** ** The invariant of reachable states *)

Record Inv (s : st) : Prop := mkInv {
  inv_fail : forall w, win s = Some w -> w_fail w < 20;
  inv_marker_win : forall e d, marker s = Some (e, d) -> exists w, win s = Some w;
  inv_p3 : forall e d vf g tr p,
      marker s = Some (e, d) -> hs_get e (hs s) = Some (AwaitP3 vf g tr p) ->
      exists w, win s = Some w /\ vf = w_vf w /\ g = w_gen w;
  inv_gen : forall w, win s = Some w -> w_gen w < gen s;
  inv_p3_gen : forall e vf g tr p, hs_get e (hs s) = Some (AwaitP3 vf g tr p) -> g < gen s;
  inv_poll : forall w, win s = Some w -> now s <= w_expiry w + since_poll s;
  inv_nonce : forall e vf g tr p,
      hs_get e (hs s) = Some (AwaitP3 vf g tr p) -> tr_pb tr < nonce s;
  inv_sess_nonce : forall x, In x (sessions s) -> tr_pb (s_tr x) < nonce s
}.

Lemma init_inv : Inv init.
Proof.
  constructor; cbn; intros; try discriminate; try contradiction.
Qed.

Ltac dm :=
  match goal with
  | |- context [match ?x with _ => _ end] => destruct x eqn:?
  | H : context [match ?x with _ => _ end] |- _ => destruct x eqn:?
  end.

Ltac inj :=
  repeat match goal with
  | H : Some _ = Some _ |- _ => inversion H; clear H; subst
  | H : (_, _) = (_, _) |- _ => inversion H; clear H; subst
  | H : Some _ = None |- _ => discriminate H
  | H : None = Some _ |- _ => discriminate H
  end.

Ltac beq :=
  repeat match goal with
  | H : (_ =? _) = true |- _ => apply N.eqb_eq in H
  | H : (_ =? _) = false |- _ => apply N.eqb_neq in H
  | H : (_ <? _) = true |- _ => apply N.ltb_lt in H
  | H : (_ <? _) = false |- _ => apply N.ltb_ge in H
  | H : (_ <=? _) = true |- _ => apply N.leb_le in H
  | H : (_ <=? _) = false |- _ => apply N.leb_gt in H
  end.

Ltac fail_show := match goal with |- ?G => idtac G end.
Ltac red_st :=
  unfold set_win, set_marker, set_hs, set_nonce, set_sessions, clear_marker, del, put in *; cbn in *.

(** The effect of the helpers, field by field. *)

Lemma close_fields s :
  let s' := fst (close s) in
  now s' = now s /\ hs s' = hs s /\ sessions s' = sessions s /\ nonce s' = nonce s /\
  gen s' = gen s /\ fs_armed s' = fs_armed s /\ since_poll s' = since_poll s /\
  win s' = None /\ (win s = None -> marker s' = marker s) /\ (win s <> None -> marker s' = None).
Proof.
  unfold close. destruct (win s) eqn:Hw; cbn; repeat split; auto; try congruence.
Qed.

Lemma close_inv s : Inv s -> Inv (fst (close s)).
Proof.
  intros I. unfold close. destruct (win s) eqn:Hw; [|exact I].
  destruct I. constructor; cbn; intros; try discriminate; eauto.
Qed.

Lemma check_timeout_inv s : Inv s -> Inv (fst (check_timeout s)).
Proof.
  intros I. unfold check_timeout. destruct (win s); [|exact I].
  destruct (_ <? _); [apply close_inv; exact I|exact I].
Qed.

Lemma check_timeout_cases s :
  (fst (check_timeout s) = s /\ forall w, win s = Some w -> now s <= w_expiry w) \/
  (exists w, win s = Some w /\ w_expiry w < now s /\ fst (check_timeout s) = fst (close s)).
Proof.
  unfold check_timeout. destruct (win s) eqn:Hw.
  - destruct (w_expiry w <? now s) eqn:Hx; beq.
    + right. exists w. auto.
    + left. split; [reflexivity|]. intros w0 Hw0. inj. assumption.
  - left. split; [reflexivity|]. intros; discriminate.
Qed.

Lemma record_failure_inv s : Inv s -> Inv (record_failure s).
Proof.
  intros I. unfold record_failure. red_st.
  destruct (win s) eqn:Hw.
  - destruct (MAX_FAILURES <=? N.min (w_fail w + 1) 255) eqn:Hf.
    + apply close_inv.
      destruct I. constructor; cbn; intros; try discriminate; inj; eauto.
    + unfold MAX_FAILURES in Hf. beq. destruct I.
      constructor; cbn; intros; try discriminate; inj; cbn; eauto; try lia.
  - destruct I. constructor; cbn; intros; try discriminate; eauto.
Qed.

(** [record_failure] on the window: the counter moves by exactly one, the window goes at twenty. *)
Lemma record_failure_win s :
  Inv s ->
  win (record_failure s) = match win s with Some w => bump w | None => None end.
Proof.
  intros I. unfold record_failure, bump. red_st.
  destruct (win s) eqn:Hw; [|reflexivity].
  pose proof (inv_fail s I w Hw) as Hf.
  replace (N.min (w_fail w + 1) 255) with (w_fail w + 1) by lia.
  destruct (MAX_FAILURES <=? w_fail w + 1) eqn:Hc.
  - unfold close. cbn. try rewrite Hw. reflexivity.
  - reflexivity.
Qed.

Lemma record_failure_fields s :
  let s' := record_failure s in
  now s' = now s /\ hs s' = hs s /\ sessions s' = sessions s /\ nonce s' = nonce s /\
  gen s' = gen s /\ fs_armed s' = fs_armed s /\ since_poll s' = since_poll s /\ marker s' = None.
Proof.
  unfold record_failure. red_st.
  destruct (win s) eqn:Hw; [destruct (_ <=? _)|]; unfold close; cbn; try rewrite Hw; cbn; repeat split.
Qed.

(** ** The invariant is preserved by every building block *)

Ltac hsrw :=
  repeat match goal with
  | H : context [hs_get _ (hs_put _ _ _)] |- _ => rewrite hs_get_put in H
  | H : context [hs_get _ (hs_del _ _)] |- _ => rewrite hs_get_del in H
  | |- context [hs_get _ (hs_put _ _ _)] => rewrite hs_get_put
  | |- context [hs_get _ (hs_del _ _)] => rewrite hs_get_del
  end.

Lemma clear_marker_inv s : Inv s -> Inv (clear_marker s).
Proof.
  intros []. constructor; red_st; intros; try discriminate; eauto.
Qed.

Lemma del_inv s e : Inv s -> Inv (del s e).
Proof.
  intros []. constructor; red_st; intros; eauto;
    hsrw;
    repeat dm; try discriminate; eauto.
Qed.

Lemma put_inv s e v :
  Inv s -> (forall vf g tr p, v <> AwaitP3 vf g tr p) -> Inv (put s e v).
Proof.
  intros [] Hv. constructor; red_st; intros; eauto;
    hsrw;
    repeat dm; inj; try discriminate; eauto; exfalso; eapply Hv; reflexivity.
Qed.

Lemma put_p3_inv s e w tr p :
  Inv s -> win s = Some w -> tr_pb tr < nonce s ->
  Inv (put s e (AwaitP3 (w_vf w) (w_gen w) tr p)).
Proof.
  intros [] Hw Hn. constructor; red_st; intros; eauto;
    hsrw;
    repeat dm; inj; try discriminate; eauto.
Qed.

Lemma set_nonce_inv s n : Inv s -> nonce s <= n -> Inv (set_nonce s n).
Proof.
  intros [] Hn. constructor; red_st; intros; eauto.
  - specialize (inv_nonce0 _ _ _ _ _ H). lia.
  - specialize (inv_sess_nonce0 _ H). lia.
Qed.

Lemma update_marker_fields s e new :
  let s' := fst (update_marker s e new) in
  now s' = now s /\ win s' = win s /\ hs s' = hs s /\ sessions s' = sessions s /\
  nonce s' = nonce s /\ gen s' = gen s /\ fs_armed s' = fs_armed s /\ since_poll s' = since_poll s.
Proof.
  unfold update_marker. repeat dm; red_st; repeat split.
Qed.

(** What [update_marker] decides. *)
Lemma update_marker_go s e new s1 :
  update_marker s e new = (s1, None) ->
  marker s1 = Some (e, now s + EST_TIMEOUT_MS) /\
  ((exists d, marker s = Some (e, d) /\ now s <= d) \/
   (new = true /\ (marker s = None \/ exists e' d, marker s = Some (e', d) /\ d < now s))).
Proof.
  unfold update_marker. intros H.
  destruct (marker s) as [[e' d]|] eqn:Hm.
  - destruct (d <? now s) eqn:Hx; red_st; beq.
    + destruct new; inj; try discriminate. split; [reflexivity|]. right. eauto 6.
    + rewrite Hm in H. destruct (e' =? e) eqn:He; beq; inj; try discriminate.
      split; [reflexivity|]. left. eauto.
  - rewrite Hm in H. destruct new; red_st; inj; try discriminate. split; [reflexivity|]. right. auto.
Qed.

Lemma update_marker_stop s e new s1 x :
  update_marker s e new = (s1, Some x) ->
  (x = StBusy /\ s1 = s /\ exists e' d, marker s = Some (e', d) /\ e' <> e /\ now s <= d) \/
  (x = StSessionNotFound /\ new = false /\ marker s1 = None).
Proof.
  unfold update_marker. intros H.
  destruct (marker s) as [[e' d]|] eqn:Hm.
  - destruct (d <? now s) eqn:Hx; red_st; beq.
    + destruct new; inj; try discriminate. right. auto.
    + rewrite Hm in H. destruct (e' =? e) eqn:He; beq; inj; try discriminate.
      left. eauto 8.
  - rewrite Hm in H. destruct new; red_st; inj; try discriminate. right. auto.
Qed.

Lemma update_marker_inv s e new :
  Inv s ->
  (new = true -> (exists w, win s = Some w) /\
                 (forall vf g tr p, hs_get e (hs s) <> Some (AwaitP3 vf g tr p))) ->
  Inv (fst (update_marker s e new)).
Proof.
  intros I Hnew. unfold update_marker.
  assert (Hclr : Inv (set_marker s None)).
  { destruct I. constructor; red_st; intros; try discriminate; eauto. }
  assert (Hset : forall d, (exists d0, marker s = Some (e, d0)) \/ new = true ->
                           Inv (set_marker s (Some (e, d)))).
  { intros d Hc. destruct I. constructor; red_st; intros; inj; try discriminate; eauto.
    - destruct Hc as [[dd Hdd]|Hn]; [eauto|]. destruct (Hnew Hn) as [Hw _]. exact Hw.
    - destruct Hc as [[dd Hdd]|Hn]; [eauto|]. destruct (Hnew Hn) as [_ Hp]. exfalso. eapply Hp. eassumption. }
  destruct (marker s) as [[e' d]|] eqn:Hm.
  - destruct (d <? now s) eqn:Hx; red_st.
    + destruct new; cbn; [|exact Hclr].
      apply (Hset (now s + EST_TIMEOUT_MS)). right. reflexivity.
    + rewrite Hm. destruct (e' =? e) eqn:He; beq; cbn; [|exact I].
      subst e'. apply (Hset (now s + EST_TIMEOUT_MS)). left. eauto.
  - rewrite Hm. destruct new; cbn; [|exact I].
    apply (Hset (now s + EST_TIMEOUT_MS)). right. reflexivity.
Qed.

Lemma check_timeout_fields s :
  let s' := fst (check_timeout s) in
  now s' = now s /\ hs s' = hs s /\ sessions s' = sessions s /\ nonce s' = nonce s /\
  gen s' = gen s /\ fs_armed s' = fs_armed s /\ since_poll s' = since_poll s.
Proof.
  unfold check_timeout. destruct (win s) eqn:Hw; [destruct (_ <? _)|]; cbn; repeat split;
    try (pose proof (close_fields s) as Hc; cbn in Hc; tauto).
Qed.

(** A state that differs from an invariant one only by a cleared marker. *)
Lemma inv_marker_cleared s s' :
  Inv s -> now s' = now s -> win s' = win s -> hs s' = hs s -> sessions s' = sessions s ->
  nonce s' = nonce s -> gen s' = gen s -> since_poll s' = since_poll s -> marker s' = None ->
  Inv s'.
Proof.
  intros [] H1 H2 H3 H4 H5 H6 H7 H8.
  constructor; rewrite ?H1, ?H2, ?H3, ?H4, ?H5, ?H6, ?H7, ?H8; intros; try discriminate; eauto.
Qed.

Lemma put_p3_fresh_inv s e w rq rs pt p :
  Inv s -> win s = Some w ->
  Inv (set_nonce (put s e (AwaitP3 (w_vf w) (w_gen w) (mkTr rq rs pt (nonce s)) p)) (nonce s + 1)).
Proof.
  intros [] Hw. constructor; red_st; intros; eauto; hsrw; repeat dm; inj; try discriminate; cbn; eauto; try lia.
  - specialize (inv_nonce0 _ _ _ _ _ H). lia.
  - specialize (inv_sess_nonce0 _ H). lia.
Qed.

Lemma commit_inv s e p vf tr :
  Inv s -> tr_pb tr < nonce s ->
  Inv (mkSt (now s) (win s) (marker s) (hs_put e (AwaitAck true) (hs s))
            (sessions s ++ [mkSess p vf tr e false]) (nonce s) (gen s) true (since_poll s)).
Proof.
  intros [] Hn. constructor; cbn; intros; eauto; hsrw; repeat dm; inj; try discriminate; eauto.
  apply in_app_or in H. destruct H as [H|[<-|[]]]; cbn; eauto.
Qed.

Lemma make_live_inv s e : Inv s -> Inv (set_sessions s (make_live (sessions s) e)).
Proof.
  intros []. constructor; red_st; intros; eauto.
  unfold make_live in H. apply in_map_iff in H. destruct H as [y [<- Hy]].
  destruct (_ && _); cbn; eauto.
Qed.

Lemma step_req_inv s e r :
  Inv s -> hs_get e (hs s) = None -> Inv (fst (step_req s e r)).
Proof.
  intros I He. unfold step_req.
  destruct (update_marker s e true) as [s1 b] eqn:Hu.
  pose proof (update_marker_fields s e true) as Hf. rewrite Hu in Hf. cbn in Hf.
  destruct Hf as (F1 & F2 & F3 & F4 & F5 & F6 & F7 & F8).
  destruct b as [x|].
  - cbn. destruct (update_marker_stop _ _ _ _ _ Hu) as [(_ & -> & _)|(_ & Hn & _)]; [exact I|discriminate].
  - destruct (win s) as [w|] eqn:Hw.
    + assert (I1 : Inv s1).
      { replace s1 with (fst (update_marker s e true)) by (rewrite Hu; reflexivity).
        apply update_marker_inv; [exact I|]. intros _. split; [eauto|].
        intros vf g tr p Hc. rewrite He in Hc. discriminate. }
      pose proof (check_timeout_inv s1 I1) as I2.
      destruct (win (fst (check_timeout s1))) as [w2|] eqn:Hw2.
      * destruct (rq_class r); cbn [fst]; try (apply record_failure_inv; exact I2);
          (apply set_nonce_inv; [apply put_inv; [exact I2|intros; discriminate]|red_st; lia]).
      * cbn [fst]. apply clear_marker_inv. exact I2.
    + assert (Hc : fst (check_timeout s1) = s1).
      { unfold check_timeout. rewrite F2. reflexivity. }
      rewrite Hc, F2. cbn [fst].
      eapply inv_marker_cleared; [exact I|..]; red_st; auto; congruence.
Qed.

Lemma step_p1_inv s e rq rs psid m :
  Inv s -> Inv (fst (step_p1 s e rq rs psid m)).
Proof.
  intros I. unfold step_p1.
  destruct (update_marker s e false) as [s1 b] eqn:Hu.
  assert (I1 : Inv s1).
  { replace s1 with (fst (update_marker s e false)) by (rewrite Hu; reflexivity).
    apply update_marker_inv; [exact I|]. intros; discriminate. }
  destruct b as [x|]; [cbn; apply del_inv; exact I1|].
  destruct m as [r|[pt|]|p3| |]; cbn [fst];
    try (apply record_failure_inv; apply del_inv; exact I1);
    try (apply put_inv; [exact I1|intros; discriminate]).
  pose proof (check_timeout_inv s1 I1) as I2.
  destruct (win (fst (check_timeout s1))) as [w2|] eqn:Hw2; cbn [fst].
  - destruct (point_valid pt); cbn [fst].
    + apply put_p3_fresh_inv; assumption.
    + apply record_failure_inv, del_inv. exact I2.
  - apply clear_marker_inv, del_inv. exact I2.
Qed.

Lemma step_p3_inv s e vf g tr psid m :
  Inv s -> hs_get e (hs s) = Some (AwaitP3 vf g tr psid) ->
  Inv (fst (step_p3 s e vf g tr psid m)).
Proof.
  intros I He. unfold step_p3.
  destruct (update_marker s e false) as [s1 b] eqn:Hu.
  pose proof (update_marker_fields s e false) as Hf. rewrite Hu in Hf. cbn in Hf.
  destruct Hf as (F1 & F2 & F3 & F4 & F5 & F6 & F7 & F8).
  assert (I1 : Inv s1).
  { replace s1 with (fst (update_marker s e false)) by (rewrite Hu; reflexivity).
    apply update_marker_inv; [exact I|]. intros; discriminate. }
  destruct b as [x|]; [cbn; apply del_inv; exact I1|].
  destruct m as [r|p1|[c|]| |]; cbn [fst];
    try (apply record_failure_inv; apply del_inv; exact I1);
    try (apply put_inv; [exact I1|intros; discriminate]).
  pose proof (check_timeout_inv s1 I1) as I2.
  pose proof (check_timeout_fields s1) as Hc. cbn in Hc.
  destruct Hc as (C1 & C3 & C4 & C5 & C6 & C7 & C8).
  destruct (win (fst (check_timeout s1))) as [w2|] eqn:Hw2; cbn [fst].
  - destruct (conf_eqb c (Ca vf tr)); cbn [fst].
    + rewrite <- Hw2. apply commit_inv; [exact I2|].
      rewrite C5, F5. eapply inv_nonce; eassumption.
    + apply put_inv; [exact I2|intros; discriminate].
  - apply clear_marker_inv, del_inv. exact I2.
Qed.

Lemma step_ack_inv s e ok : Inv s -> Inv (fst (step_ack s e ok)).
Proof.
  intros I. unfold step_ack. destruct ok; cbn [fst].
  - apply clear_marker_inv. apply (make_live_inv (del s e)). apply del_inv. exact I.
  - apply record_failure_inv, del_inv. exact I.
Qed.

Lemma step_abort_inv s e : Inv s -> Inv (step_abort s e).
Proof.
  intros I. unfold step_abort.
  destruct (hs_get e (hs s)) as [[| |[|]]|]; try exact I;
    try (apply record_failure_inv, del_inv; exact I).
  apply record_failure_inv. apply (make_live_inv (del s e)). apply del_inv. exact I.
Qed.

Lemma open_inv s b v t : Inv s -> Inv (fst (open s b v t)).
Proof.
  intros I. unfold open. destruct (win s) eqn:Hw; [exact I|].
  destruct (_ || _); [exact I|]. destruct (_ || _); [exact I|].
  destruct I. constructor; cbn; intros; inj; cbn; eauto; try lia;
    try (match goal with Hm : marker _ = Some _ |- _ =>
           destruct (inv_marker_win0 _ _ Hm) as [w0 Hw0]; rewrite Hw in Hw0; discriminate end).
  all: try (match goal with Hp : hs_get _ _ = Some _ |- _ => specialize (inv_p3_gen0 _ _ _ _ _ Hp); lia end).
Qed.

Lemma step_inv s o : Inv s -> Inv (fst (step s o)).
Proof.
  intros I. destruct o as [b v t| | |d|e m|e]; cbn [step].
  - apply open_inv. exact I.
  - pose proof (close_inv s I). destruct (close s). exact H.
  - pose proof (check_timeout_inv s I) as I2.
    pose proof (check_timeout_cases s) as Hc.
    destruct (check_timeout s) as [s' b]. cbn [fst] in *.
    destruct I2. constructor; cbn; intros; eauto.
    destruct Hc as [[-> Hle]|(w0 & Hw0 & Hx & ->)].
    + specialize (Hle _ H). lia.
    + pose proof (close_fields s) as Hf. cbn in Hf. destruct Hf as (_&_&_&_&_&_&_&Hn&_).
      rewrite Hn in H. discriminate.
  - destruct I. constructor; cbn; intros; eauto.
    specialize (inv_poll0 _ H). lia.
  - unfold step_msg. destruct (hs_get e (hs s)) as [[rq rs psid|vf g tr psid|ok]|] eqn:He.
    + destruct m; try exact I; apply step_p1_inv; exact I.
    + destruct m; try exact I; apply step_p3_inv; assumption.
    + apply step_ack_inv. exact I.
    + destruct m; try exact I. apply step_req_inv; assumption.
  - cbn. apply step_abort_inv. exact I.
Qed.

Lemma run_inv l : forall s, Inv s -> Inv (run s l).
Proof.
  induction l as [|o t IH]; intros s I; cbn [run]; [exact I|].
  apply IH, step_inv, I.
Qed.

Lemma reachable_inv l : Inv (run init l).
Proof. apply run_inv, init_inv. Qed.
