(** History-level theorems about the receive window. *)
From RsM Require Import Lib.MachInt Lib.BitFacts Model.Dedup Proofs.DedupFacts.
From Coq Require Import ZifyN ZifyBool.
Open Scope N_scope.

Arguments N.testbit : simpl never.
Arguments N.sub : simpl never.
Arguments N.add : simpl never.
Arguments N.leb : simpl never.
Arguments N.ltb : simpl never.
Arguments N.eqb : simpl never.
Arguments N.modulo : simpl never.

Notation hist_final h := (final true false rx_unsynced h).
Notation hist_acc h := (accepted true false rx_unsynced h).
Notation would_accept s v := (snd (post_recv s v true false)).

(** Full characterisation, encrypted unicast session, any history from
    the fresh state: the next value is accepted iff it was not accepted
    before and is not more than 16 behind the largest accepted value. *)
Theorem accept_iff (h : list N) (v : N) :
  would_accept (hist_final h) v = true <->
  (~ In v (hist_acc h) /\ forall a, In a (hist_acc h) -> a <= v + 16).
Proof.
  pose proof (bits_history h) as HB.
  split.
  - intros Ha. split.
    + intros Hin. apply accepted_in_seen_final in Hin.
      apply rejects_iff_seen in Hin. congruence.
    + intros a Hin. apply accepted_in_seen_final in Hin.
      destruct (N.le_gt_cases a (v + 16)) as [|Hgt]; [assumption|exfalso].
      destruct Hin as [Hs Hin].
      assert (HS : Seen (hist_final h) v).
      { split; [assumption|]. right.
        destruct Hin as [Hin|[Hlt _]]; (split; [lia|left; lia]). }
      apply rejects_iff_seen in HS. congruence.
  - intros [Hnin Hold].
    destruct (would_accept (hist_final h) v) eqn:Ha; [reflexivity|exfalso].
    apply rejects_iff_seen in Ha. destruct Ha as [Hs Hv].
    destruct (HB Hs) as [Hmax Hbits].
    destruct Hv as [->|[Hlt [Hfar|Hbit]]].
    + contradiction.
    + specialize (Hold _ Hmax). lia.
    + destruct (Hbits _ Hbit) as (_ & _ & Hin).
      replace (max_ctr (hist_final h) - 1 - (max_ctr (hist_final h) - v - 1))
        with v in Hin by lia.
      contradiction.
Qed.

Theorem newer_accepted (h : list N) (v : N) :
  (forall a, In a (hist_acc h) -> a < v) -> would_accept (hist_final h) v = true.
Proof.
  intros H. apply accept_iff. split.
  - intros Hin. specialize (H _ Hin). lia.
  - intros a Hin. specialize (H _ Hin). lia.
Qed.

Theorem too_old_rejected (h : list N) (v a : N) :
  In a (hist_acc h) -> v + 16 < a -> would_accept (hist_final h) v = false.
Proof.
  intros Hin Hlt.
  destruct (would_accept (hist_final h) v) eqn:Ha; [exfalso|reflexivity].
  apply accept_iff in Ha as [_ Ha]. specialize (Ha _ Hin). lia.
Qed.

Theorem in_window_fresh_accepted (h : list N) (v : N) :
  ~ In v (hist_acc h) ->
  (forall a, In a (hist_acc h) -> a <= v + 16) ->
  would_accept (hist_final h) v = true.
Proof. intros H1 H2. apply accept_iff. split; assumption. Qed.

Theorem accepted_exactly_once (h1 h2 : list N) (v : N) :
  would_accept (hist_final h1) v = true ->
  would_accept (hist_final (h1 ++ v :: h2)) v = false.
Proof.
  intros Ha.
  destruct (would_accept (hist_final (h1 ++ v :: h2)) v) eqn:Hb; [exfalso|reflexivity].
  apply accept_iff in Hb as [Hb _]. apply Hb.
  rewrite accepted_app. apply in_or_app. right.
  rewrite accepted_cons, Ha. left. reflexivity.
Qed.

(** Unsecured sessions: a restart of the peer's counter (a value behind
    the window) is accepted and re-anchors the window there. *)
Theorem unsecured_restart_accepted (s : rx) (v : N) :
  synced s = true -> v + 16 < max_ctr s ->
  post_recv s v false false = (mkRx true v 65535, true).
Proof.
  intros Hs Hlt. rewrite post_recv_uni by assumption. unfold uni.
  assert (E1 : (v =? max_ctr s) = false) by lia.
  assert (E2 : (v <? max_ctr s) = true) by lia.
  assert (E3 : (max_ctr s - v <=? 16) = false) by lia.
  rewrite E1, E2, E3. reflexivity.
Qed.

(** ** Group senders: modular comparison refines the unbounded model
    as long as the true counters stay within half the ring. *)

Definition wrap_rx (s : rx) : rx := mkRx (synced s) (wrap32 (max_ctr s)) (bitmap s).

Lemma wrap_rx_insert s i : wrap_rx (insert s i) = insert (wrap_rx s) i.
Proof. reflexivity. Qed.

Lemma roll_refines (s : rx) (C : N) :
  synced s = true ->
  max_ctr s <= C + two31 -> C + 1 <= max_ctr s + two31 ->
  post_recv (wrap_rx s) (wrap32 C) true true =
  (wrap_rx (fst (post_recv s C true false)), snd (post_recv s C true false)).
Proof.
  intros Hs Hlo Hhi. rewrite post_recv_uni by assumption.
  destruct s as [sy M b]. cbn [synced max_ctr] in *. subst sy.
  unfold post_recv, uni, wrap_rx, wsub32, wrap32, two31, two32, WIN in *.
  cbn [synced max_ctr bitmap fst snd negb].
  destruct (N.eqb_spec C M) as [->|Hne].
  { rewrite N.eqb_refl. reflexivity. }
  assert (E0 : (C mod 4294967296 =? M mod 4294967296) = false).
  { apply N.eqb_neq. intro Heq.
    Ltac Zify.zify_post_hook ::= Z.div_mod_to_equations. lia. }
  rewrite E0.
  destruct (N.ltb_spec C M) as [Hlt|Hge].
  - (* behind *)
    assert (F : (C mod 4294967296 + 4294967296 - M mod 4294967296) mod 4294967296
                = 4294967296 - (M - C)).
    { Ltac Zify.zify_post_hook ::= Z.div_mod_to_equations. lia. }
    assert (G : (M mod 4294967296 + 4294967296 - C mod 4294967296) mod 4294967296
                = M - C).
    { Ltac Zify.zify_post_hook ::= Z.div_mod_to_equations. lia. }
    rewrite F, G.
    assert (E1 : (4294967296 - (M - C) <=? 2147483648 - 1) = false) by lia.
    rewrite E1. cbn [negb andb].
    destruct (N.leb_spec (M - C) 16) as [Hle|Hgt]; [|reflexivity].
    rewrite contains_spec. cbn [bitmap].
    destruct (N.testbit b (M - C - 1)); reflexivity.
  - (* forward *)
    assert (F : (C mod 4294967296 + 4294967296 - M mod 4294967296) mod 4294967296
                = C - M).
    { Ltac Zify.zify_post_hook ::= Z.div_mod_to_equations. lia. }
    rewrite F.
    assert (E1 : (C - M <=? 2147483648 - 1) = true) by lia.
    rewrite E1. cbn [negb andb].
    destruct (N.leb_spec (C - M) 16); reflexivity.
Qed.

(** all true counters of a group sender (first one included) lie in a
    band narrower than half the ring *)
Definition in_band (lo : N) (H : list N) : Prop :=
  Forall (fun c => lo <= c /\ c < lo + two31) H.

Lemma band_max_step lo s C :
  lo <= max_ctr s < lo + two31 -> lo <= C < lo + two31 -> synced s = true ->
  lo <= max_ctr (fst (post_recv s C true false)) < lo + two31.
Proof.
  intros HM HC Hs. rewrite post_recv_uni by assumption. unfold uni.
  destruct (C =? max_ctr s); [assumption|].
  destruct (C <? max_ctr s).
  - destruct (max_ctr s - C <=? 16); [|assumption].
    destruct (N.testbit _ _); assumption.
  - destruct (C - max_ctr s <=? 16); cbn [fst]; [rewrite insert_max|]; assumption.
Qed.

Theorem group_refines_unbounded (lo : N) (H : list N) (s : rx) :
  synced s = true -> lo <= max_ctr s < lo + two31 -> in_band lo H ->
  run true true (wrap_rx s) (map wrap32 H) =
  (fst (run true false s H), wrap_rx (snd (run true false s H))).
Proof.
  revert s. induction H as [|C t IH]; intros s Hs HM HB; [reflexivity|].
  inversion HB as [|? ? HC HB']; subst.
  cbn [map run].
  rewrite roll_refines by (first [assumption | unfold two31 in *; lia]).
  destruct (post_recv s C true false) as [s' a] eqn:E. cbn [fst snd].
  assert (Hs' : synced s' = true).
  { pose proof (post_recv_synced s C true false) as P. rewrite E in P. exact P. }
  assert (HM' : lo <= max_ctr s' < lo + two31).
  { pose proof (band_max_step lo s C HM HC Hs) as P. rewrite E in P. exact P. }
  rewrite (IH s' Hs' HM' HB').
  destruct (run true false s' t) as [l sf]. reflexivity.
Qed.

Lemma run_accepted enc roll s h :
  accepted enc roll s h =
  map fst (filter snd (combine h (fst (run enc roll s h)))).
Proof.
  revert s. induction h as [|c t IH]; intros s; [reflexivity|].
  cbn [accepted run]. destruct (post_recv s c enc roll) as [s' a].
  specialize (IH s'). destruct (run enc roll s' t) as [l sf]. cbn [fst] in *.
  cbn [combine filter snd]. destruct a; cbn [map fst]; rewrite IH; reflexivity.
Qed.

(** Never twice for a tracked group sender: the true counters accepted
    are pairwise distinct, and so are their wire images because the band
    is narrower than the ring. *)
Theorem group_never_twice (lo first : N) (H : list N) :
  lo <= first < lo + two31 -> in_band lo H ->
  let flags := fst (run true true (rx_new (wrap32 first)) (map wrap32 H)) in
  NoDup (map fst (filter snd (combine H flags))).
Proof.
  intros Hf HB flags. subst flags.
  change (rx_new (wrap32 first)) with (wrap_rx (rx_new first)).
  rewrite (group_refines_unbounded lo H (rx_new first)) by (try assumption; reflexivity).
  cbn [fst]. rewrite <- run_accepted. apply never_twice.
Qed.

Lemma wrap32_inj_band lo a b :
  lo <= a < lo + two31 -> lo <= b < lo + two31 -> wrap32 a = wrap32 b -> a = b.
Proof.
  unfold wrap32, two31, two32. intros Ha Hb E.
  Ltac Zify.zify_post_hook ::= Z.div_mod_to_equations. lia.
Qed.

(** ** The model meets the executable specification (the monitor) *)
From RsM Require Import Model.DedupSpec.

Lemma spec_accept_iff A v :
  spec_accept A v = true <->
  (~ In v A /\ forall a, In a A -> a <= v + 16).
Proof.
  unfold spec_accept. rewrite andb_true_iff, negb_true_iff, forallb_forall.
  split.
  - intros [H1 H2]. split.
    + intros Hin. assert (E : existsb (N.eqb v) A = true).
      { apply existsb_exists. exists v. split; [assumption|apply N.eqb_refl]. }
      congruence.
    + intros a Hin. specialize (H2 _ Hin). lia.
  - intros [H1 H2]. split.
    + destruct (existsb (N.eqb v) A) eqn:E; [exfalso|reflexivity].
      apply existsb_exists in E as [x [Hx Hxe]]. apply N.eqb_eq in Hxe. subst x.
      contradiction.
    + intros a Hin. specialize (H2 _ Hin). lia.
Qed.

Lemma spec_accept_ext A B v :
  (forall x, In x A <-> In x B) -> spec_accept A v = spec_accept B v.
Proof.
  intros HE.
  destruct (spec_accept A v) eqn:EA, (spec_accept B v) eqn:EB; try reflexivity; exfalso.
  - apply spec_accept_iff in EA as [H1 H2].
    assert (X : spec_accept B v = true).
    { apply spec_accept_iff. split.
      - intros Hin. apply H1, HE, Hin.
      - intros a Hin. apply H2, HE, Hin. }
    congruence.
  - apply spec_accept_iff in EB as [H1 H2].
    assert (X : spec_accept A v = true).
    { apply spec_accept_iff. split.
      - intros Hin. apply H1, HE, Hin.
      - intros a Hin. apply H2, HE, Hin. }
    congruence.
Qed.

Lemma run_flags_cons enc roll s c t :
  fst (run enc roll s (c :: t)) =
  snd (post_recv s c enc roll) :: fst (run enc roll (fst (post_recv s c enc roll)) t).
Proof.
  cbn [run]. destruct (post_recv s c enc roll) as [s' a]. cbn [fst snd].
  destruct (run enc roll s' t). reflexivity.
Qed.

Lemma model_meets_spec_gen (h1 h2 : list N) (A : list N) :
  (forall x, In x A <-> In x (hist_acc h1)) ->
  fst (run true false (hist_final h1) h2) = spec_run A h2.
Proof.
  revert h1 A. induction h2 as [|c t IH]; intros h1 A HA; [reflexivity|].
  rewrite run_flags_cons. cbn [spec_run].
  assert (E : would_accept (hist_final h1) c = spec_accept A c).
  { rewrite (spec_accept_ext A (hist_acc h1)) by assumption.
    destruct (spec_accept (hist_acc h1) c) eqn:ES.
    - apply accept_iff. apply spec_accept_iff. assumption.
    - destruct (would_accept (hist_final h1) c) eqn:EW; [|reflexivity].
      apply accept_iff in EW. apply spec_accept_iff in EW. congruence. }
  rewrite E. f_equal.
  replace (fst (post_recv (hist_final h1) c true false)) with (hist_final (h1 ++ [c]))
    by (rewrite final_app; reflexivity).
  apply IH. intros x. rewrite accepted_snoc, E.
  destruct (spec_accept A c); cbn [In]; rewrite ?in_app_iff; cbn [In];
    rewrite <- HA; tauto.
Qed.

Theorem model_meets_spec (h : list N) :
  fst (run true false rx_unsynced h) = spec_run [] h.
Proof.
  apply (model_meets_spec_gen [] h []). intros x. cbn. tauto.
Qed.

Theorem monitor_accepts_model (h : list N) :
  monitor_unicast h (fst (run true false rx_unsynced h)) = true.
Proof.
  unfold monitor_unicast. rewrite model_meets_spec.
  destruct (list_eq_dec _ _ _); [reflexivity|contradiction].
Qed.

(** ** The clauses required of a tracked group sender *)

Lemma seen_le_max s v : Seen s v -> v <= max_ctr s.
Proof. intros [_ [->|[H _]]]; lia. Qed.

Lemma reject_same_state s c :
  synced s = true -> snd (post_recv s c true false) = false ->
  fst (post_recv s c true false) = s.
Proof.
  intros Hs. rewrite post_recv_uni by assumption. unfold uni.
  destruct (c =? max_ctr s); [reflexivity|].
  destruct (c <? max_ctr s).
  - destruct (max_ctr s - c <=? 16); [|reflexivity].
    destruct (N.testbit _ _); [reflexivity|discriminate].
  - destruct (c - max_ctr s <=? 16); discriminate.
Qed.

Lemma accept_max s c :
  synced s = true ->
  max_ctr (fst (post_recv s c true false)) = c \/
  max_ctr (fst (post_recv s c true false)) = max_ctr s.
Proof.
  intros Hs. rewrite post_recv_uni by assumption. unfold uni.
  destruct (c =? max_ctr s); [right; reflexivity|].
  destruct (c <? max_ctr s).
  - destruct (max_ctr s - c <=? 16); [|right; reflexivity].
    destruct (N.testbit _ _); right; reflexivity.
  - destruct (c - max_ctr s <=? 16); left; reflexivity.
Qed.

Lemma group_clauses_model (s : rx) (A : list N) (h : list N) :
  synced s = true -> (forall x, In x A -> Seen s x) -> In (max_ctr s) A ->
  group_clauses A h (fst (run true false s h)) = true.
Proof.
  revert s A. induction h as [|c t IH]; intros s A Hs HA Hmax; [reflexivity|].
  rewrite run_flags_cons. cbn [group_clauses].
  destruct (snd (post_recv s c true false)) eqn:Ea.
  - assert (Hns : ~ Seen s c).
    { intro HS. apply rejects_iff_seen in HS. congruence. }
    apply andb_true_intro. split.
    + apply andb_true_intro. split.
      * apply negb_true_iff. destruct (existsb (N.eqb c) A) eqn:E; [exfalso|reflexivity].
        apply existsb_exists in E as [x [Hx Hxe]]. apply N.eqb_eq in Hxe. subst x.
        apply Hns, HA, Hx.
      * rewrite negb_involutive. apply forallb_forall. intros a Hin.
        apply N.leb_le. destruct (N.le_gt_cases a (c + 16)) as [|Hgt]; [assumption|exfalso].
        pose proof (seen_le_max _ _ (HA _ Hin)) as Hle.
        apply Hns. split; [assumption|]. right. split; [lia|left; lia].
    + apply IH.
      * apply post_recv_synced.
      * intros x [<-|Hin]; [apply accept_then_seen; assumption|].
        apply seen_stable, HA, Hin.
      * destruct (accept_max s c Hs) as [->| ->]; [left; reflexivity|right; assumption].
  - apply andb_true_intro. split.
    + apply negb_true_iff. destruct (forallb (fun a => a <? c) A) eqn:E; [exfalso|reflexivity].
      rewrite forallb_forall in E. specialize (E _ Hmax). apply N.ltb_lt in E.
      apply rejects_iff_seen in Ea. apply seen_le_max in Ea. lia.
    + rewrite reject_same_state by assumption. apply IH; assumption.
Qed.

(** a tracked group sender whose true counters stay within half the
    ring satisfies the three group clauses of the property *)
Theorem group_sender_clauses (lo first : N) (H : list N) :
  lo <= first < lo + two31 -> in_band lo H ->
  group_clauses [first] H
    (fst (run true true (rx_new (wrap32 first)) (map wrap32 H))) = true.
Proof.
  intros Hf HB.
  change (rx_new (wrap32 first)) with (wrap_rx (rx_new first)).
  rewrite (group_refines_unbounded lo H (rx_new first)) by (try assumption; reflexivity).
  cbn [fst]. apply group_clauses_model.
  - reflexivity.
  - intros x [<-|[]]. split; [reflexivity|left; reflexivity].
  - left. reflexivity.
Qed.
