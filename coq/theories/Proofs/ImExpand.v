(** The path expander (Model/Im.v) analysed loop by loop.
    Part 1: the [last_authorized] cache changes nothing while it is sound.
    Part 2: for a wildcard item, one call of [next_for_path] returns the
    first acceptable element of the part of the node the cursor has not
    passed yet ([remaining]) and leaves the cursor right behind it.
    Part 3: concrete paths. *)
From RsM Require Import Lib.MachInt Model.Acl Model.AclSpec Model.Im Model.ImSpec.
From RsM Require Import Proofs.ImLists Proofs.ImFacts.
From Coq Require Import ZifyN ZifyBool.
Open Scope N_scope.

Arguments N.eqb : simpl never.
Arguments N.leb : simpl never.
Arguments N.ltb : simpl never.

Definition sorted (nd : node) : Prop := strictly_ascending (map ep_id nd) = true.

Lemma sorted_tail (e : endpoint) (nd : node) : sorted (e :: nd) -> sorted nd.
Proof.
  unfold sorted. cbn [map strictly_ascending]. destruct (map ep_id nd) eqn:Hm; [reflexivity|].
  intros H. apply andb_true_iff in H. exact (proj2 H).
Qed.

Lemma sorted_head_lt (e : endpoint) (nd : node) (x : endpoint) :
  sorted (e :: nd) -> In x nd -> ep_id e < ep_id x.
Proof.
  revert e. induction nd as [|y nd IH]; intros e Hs Hin; [destruct Hin|].
  assert (Hey : ep_id e < ep_id y).
  { unfold sorted in Hs. cbn [map strictly_ascending] in Hs. apply andb_true_iff in Hs.
    apply N.ltb_lt. exact (proj1 Hs). }
  destruct Hin as [->|Hin]; [exact Hey|].
  specialize (IH y (sorted_tail e (y :: nd) Hs) Hin). lia.
Qed.

Lemma lower_bound_nth (nd : node) (i : nat) (e : endpoint) :
  sorted nd -> nth_error nd i = Some e -> lower_bound nd (ep_id e) = (i, true).
Proof.
  revert i. induction nd as [|y nd IH]; intros i Hs Hn; [destruct i; discriminate|].
  cbn [lower_bound]. destruct i as [|i].
  - injection Hn as ->. rewrite N.leb_refl, N.eqb_refl. reflexivity.
  - cbn [nth_error] in Hn.
    assert (Hlt : ep_id y < ep_id e) by (apply (sorted_head_lt y nd e Hs); apply (nth_error_In _ i); exact Hn).
    destruct (N.leb_spec (ep_id e) (ep_id y)) as [Hle|_]; [lia|].
    rewrite (IH i (sorted_tail y nd Hs) Hn). reflexivity.
Qed.


Section Expand.
Variables (env : xenv) (fabs : list fabric) (path : gpath).

Definition clear_last (st : xstate) : xstate := mkX (x_anchor st) (x_ci st) (x_li st) None.

(** * Part 1 - the cache *)

(** the cached triple, wherever it is found in the node, passes the check *)
Definition last_sound (nd : node) (last : option (N * N * N)) : Prop :=
  forall e0 c0 l0, last = Some (e0, c0, l0) ->
  forall e c, In e nd -> In c (ep_clusters e) -> ep_id e = e0 -> c_id c = c0 ->
  leaf_check env fabs e c l0 = None.

Lemma last_is_true (last : option (N * N * N)) (e c l : N) :
  last_is last e c l = true -> last = Some (e, c, l).
Proof.
  destruct last as [[[e0 c0] l0]|]; cbn [last_is]; [|discriminate]. intros H.
  apply andb_true_iff in H. destruct H as [H Hl]. apply andb_true_iff in H. destruct H as [He Hc].
  apply N.eqb_eq in He, Hc, Hl. subst. reflexivity.
Qed.

Lemma leaves_loop_nocache (nd : node) (last : option (N * N * N)) (e : endpoint) (c : cluster) :
  last_sound nd last -> In e nd -> In c (ep_clusters e) ->
  forall rest li,
  leaves_loop env fabs path last e c rest li = leaves_loop env fabs path None e c rest li.
Proof.
  intros Hs He Hc rest. induction rest as [|l rest IH]; intros li; [reflexivity|].
  cbn [leaves_loop].
  destruct (opt_matches (p_leaf path) (l_id l)); [|apply IH].
  destruct (xe_flt env (ep_id e) (c_id c) (l_id l)).
  2:{ destruct (negb (is_wildcard path)); [reflexivity|apply IH]. }
  cbn [last_is].
  destruct (last_is last (ep_id e) (c_id c) (l_id l)) eqn:Hl.
  - apply last_is_true in Hl. rewrite (Hs _ _ _ Hl e c He Hc eq_refl eq_refl). reflexivity.
  - destruct (leaf_check env fabs e c (l_id l)); [|reflexivity].
    destruct (negb (is_wildcard path)); [reflexivity|apply IH].
Qed.

Lemma clusters_loop_nocache (nd : node) (last : option (N * N * N)) (e : endpoint) :
  last_sound nd last -> In e nd ->
  forall rest ci li, (forall c, In c rest -> In c (ep_clusters e)) ->
  clusters_loop env fabs path last e rest ci li = clusters_loop env fabs path None e rest ci li.
Proof.
  intros Hs He rest. induction rest as [|c rest IH]; intros ci li Hin; [reflexivity|].
  cbn [clusters_loop].
  assert (Hrest : forall c0, In c0 rest -> In c0 (ep_clusters e)) by (intros c0 H0; apply Hin; right; exact H0).
  destruct (opt_matches (p_cl path) (c_id c)); [|apply IH; exact Hrest].
  rewrite (leaves_loop_nocache nd last e c Hs He (Hin c (or_introl eq_refl))).
  destruct (leaves_loop env fabs path None e c (skipn li (leaves (xe_op env) c)) li); try reflexivity.
  destruct (negb (is_wildcard path)); [reflexivity|apply IH; exact Hrest].
Qed.

Lemma endpoints_loop_nocache (nd : node) (last : option (N * N * N)) :
  last_sound nd last ->
  forall rest ci li, (forall e, In e rest -> In e nd) ->
  endpoints_loop env fabs path last rest ci li = endpoints_loop env fabs path None rest ci li.
Proof.
  intros Hs rest. induction rest as [|e rest IH]; intros ci li Hin; [reflexivity|].
  cbn [endpoints_loop].
  assert (Hrest : forall e0, In e0 rest -> In e0 nd) by (intros e0 H0; apply Hin; right; exact H0).
  destruct (opt_matches (p_ep path) (ep_id e) && is_endpoint_accessible fabs (xe_acc env) (ep_id e));
    [|apply IH; exact Hrest].
  rewrite (clusters_loop_nocache nd last e Hs (Hin e (or_introl eq_refl))).
  2:{ intros c Hc. apply (skipn_incl ci). exact Hc. }
  destruct (clusters_loop env fabs path None e (skipn ci (ep_clusters e)) ci li); try reflexivity.
  destruct (negb (is_wildcard path)); [reflexivity|apply IH; exact Hrest].
Qed.

Lemma resume_clear (nd : node) (st : xstate) :
  resume nd (clear_last st) = (fst (resume nd st), clear_last (snd (resume nd st)))
  /\ x_last (snd (resume nd st)) = x_last st.
Proof.
  destruct st as [a ci li last]. unfold resume, clear_last. cbn [x_anchor x_last x_ci x_li].
  destruct a as [id|]; [|split; reflexivity].
  destruct (lower_bound nd id) as [i found]. destruct found; split; reflexivity.
Qed.

Lemma next_for_path_nocache (nd : node) (st : xstate) :
  last_sound nd (x_last st) ->
  next_for_path env nd fabs st path = next_for_path env nd fabs (clear_last st) path.
Proof.
  intros Hs. unfold next_for_path.
  destruct (negb (is_read (xe_op env)) && negb (is_some (p_cl path))); [reflexivity|].
  destruct (negb (is_read (xe_op env)) && negb (is_some (p_leaf path))); [reflexivity|].
  destruct (resume_clear nd st) as [Hr Hl]. rewrite Hr.
  destruct (resume nd st) as [idx st1]. cbn [fst snd] in *.
  cbn [clear_last x_last x_ci x_li].
  rewrite (endpoints_loop_nocache nd (x_last st1)).
  - reflexivity.
  - rewrite Hl. exact Hs.
  - intros e He. apply (skipn_incl idx). exact He.
Qed.

(** * Part 2 - wildcard items *)

(** an element the scan accepts: it matches, passes the filter and the check *)
Definition lok (e : endpoint) (c : cluster) (l : leaf) : bool :=
  opt_matches (p_leaf path) (l_id l) && xe_flt env (ep_id e) (c_id c) (l_id l)
  && match leaf_check env fabs e c (l_id l) with None => true | Some _ => false end.

Definition cok (c : cluster) : bool := opt_matches (p_cl path) (c_id c).

Definition eok (e : endpoint) : bool :=
  opt_matches (p_ep path) (ep_id e) && is_endpoint_accessible fabs (xe_acc env) (ep_id e).

(** what is still to come: in a cluster from leaf index [li] on, in an
    endpoint from cluster index on, in the node *)
Definition lcands (e : endpoint) (c : cluster) (li : nat) : list (cluster * leaf) :=
  map (pair c) (filter (lok e c) (skipn li (leaves (xe_op env) c))).

Fixpoint ccands (e : endpoint) (cs : list cluster) (li : nat) : list (cluster * leaf) :=
  match cs with
  | [] => []
  | c :: cs' => (if cok c then lcands e c li else []) ++ ccands e cs' 0
  end.

Definition tag (e : endpoint) (l : list (cluster * leaf)) : list cand :=
  map (fun cl => (e, fst cl, snd cl)) l.

Fixpoint ecands (es : list endpoint) (ci li : nat) : list cand :=
  match es with
  | [] => []
  | e :: es' =>
      (if eok e then tag e (ccands e (skipn ci (ep_clusters e)) li) else []) ++ ecands es' 0 0
  end.

(** the indices of the cursor are meaningful: a non-zero leaf index sits
    in a cluster that is being scanned, a non-zero cluster index in an
    endpoint that is being scanned *)
Definition ccoh (cs : list cluster) (li : nat) : Prop :=
  li = 0%nat \/ exists c cs', cs = c :: cs' /\ cok c = true.

Definition ecoh (es : list endpoint) (ci li : nat) : Prop :=
  (ci = 0%nat /\ li = 0%nat) \/
  exists e es', es = e :: es' /\ eok e = true /\ ccoh (skipn ci (ep_clusters e)) li.

Hypothesis W : is_wildcard path = true.

Lemma leaves_loop_wild (e : endpoint) (c : cluster) (rest : list leaf) (li : nat) :
  leaves_loop env fabs path None e c rest li =
  match first_ok (lok e c) rest with
  | Some (k, l) => LFound (l_id l) (li + S k)
  | None => LEnd (li + length rest)
  end.
Proof.
  revert li. induction rest as [|l rest IH]; intros li; cbn [leaves_loop first_ok length].
  - rewrite Nat.add_0_r. reflexivity.
  - unfold lok at 1. cbn [last_is].
    destruct (opt_matches (p_leaf path) (l_id l)); cbn [andb].
    2:{ rewrite IH. destruct (first_ok (lok e c) rest) as [[k y]|]; f_equal; lia. }
    destruct (xe_flt env (ep_id e) (c_id c) (l_id l)); cbn [andb].
    2:{ rewrite W. cbn [negb]. rewrite IH. destruct (first_ok (lok e c) rest) as [[k y]|]; f_equal; lia. }
    destruct (leaf_check env fabs e c (l_id l)).
    + rewrite W. cbn [negb]. rewrite IH. destruct (first_ok (lok e c) rest) as [[k y]|]; f_equal; lia.
    + f_equal. lia.
Qed.

Lemma clusters_loop_wild (e : endpoint) (full : list cluster) :
  forall rest ci li, rest = skipn ci full -> ccoh rest li ->
  match clusters_loop env fabs path None e rest ci li with
  | CFound cl id ci' li' =>
      exists c l, nth_error full ci' = Some c /\ In l (leaves (xe_op env) c)
                  /\ lok e c l = true /\ cok c = true /\ cl = c_id c /\ id = l_id l
                  /\ ccands e rest li = (c, l) :: ccands e (skipn ci' full) li'
  | CEnd li' => li' = 0%nat /\ ccands e rest li = []
  | CNone _ _ | CErr _ => False
  end.
Proof.
  intros rest. induction rest as [|c rest IH]; intros ci li Hrest Hcoh.
  - cbn [clusters_loop ccands]. split; [|reflexivity].
    destruct Hcoh as [H|[c0 [cs' [H _]]]]; [exact H|discriminate].
  - symmetry in Hrest. destruct (skipn_cons_nth ci full c rest Hrest) as [Hnth Hnext].
    cbn [clusters_loop ccands]. fold (cok c).
    destruct (cok c) eqn:Hc.
    + rewrite leaves_loop_wild.
      destruct (first_ok (lok e c) (skipn li (leaves (xe_op env) c))) as [[k l]|] eqn:Hf.
      * destruct (first_ok_some _ _ _ _ Hf) as [Hfil [Hn Hok]].
        exists c, l. split; [exact Hnth|]. split.
        { apply (skipn_incl li). apply (nth_error_In _ k). exact Hn. }
        split; [exact Hok|]. split; [exact Hc|]. split; [reflexivity|]. split; [reflexivity|].
        rewrite Hrest. cbn [ccands]. rewrite Hc. unfold lcands. rewrite Hfil.
        rewrite skipn_skipn. cbn [map app]. reflexivity.
      * rewrite W. cbn [negb].
        assert (Hl : lcands e c li = []).
        { unfold lcands. rewrite (first_ok_none _ _ Hf). reflexivity. }
        rewrite Hl. cbn [app].
        specialize (IH (S ci) 0%nat (eq_sym Hnext) (or_introl eq_refl)).
        exact IH.
    + assert (Hli : li = 0%nat).
      { destruct Hcoh as [H|[c0 [cs' [H Hc0]]]]; [exact H|]. injection H as <- <-. congruence. }
      subst li. cbn [app].
      exact (IH (S ci) 0%nat (eq_sym Hnext) (or_introl eq_refl)).
Qed.

Lemma endpoints_loop_wild (full : list endpoint) :
  forall rest i ci li, rest = skipn i full -> ecoh rest ci li ->
  match endpoints_loop env fabs path None rest ci li with
  | EFound eid cl id ci' li' =>
      exists i' e c l, nth_error full i' = Some e /\ In c (ep_clusters e)
                       /\ In l (leaves (xe_op env) c)
                       /\ eok e = true /\ cok c = true /\ lok e c l = true
                       /\ eid = ep_id e /\ cl = c_id c /\ id = l_id l
                       /\ ecands rest ci li = (e, c, l) :: ecands (skipn i' full) ci' li'
                       /\ ecoh (skipn i' full) ci' li'
  | EEnd => ecands rest ci li = []
  | ENone _ _ _ | EErr _ => False
  end.
Proof.
  intros rest. induction rest as [|e rest IH]; intros i ci li Hrest Hcoh.
  - reflexivity.
  - symmetry in Hrest. destruct (skipn_cons_nth i full e rest Hrest) as [Hnth Hnext].
    cbn [endpoints_loop ecands]. fold (eok e).
    destruct (eok e) eqn:He.
    + assert (Hcc : ccoh (skipn ci (ep_clusters e)) li).
      { destruct Hcoh as [[_ H]|[e0 [es' [H [_ Hcc]]]]]; [left; exact H|].
        injection H as <- <-. exact Hcc. }
      pose proof (clusters_loop_wild e (ep_clusters e) (skipn ci (ep_clusters e)) ci li eq_refl Hcc) as Hcl.
      destruct (clusters_loop env fabs path None e (skipn ci (ep_clusters e)) ci li)
        as [cl id ci' li'| | |li'].
      * destruct Hcl as [c [l [Hn [Hl [Hlok [Hcok [-> [-> Hcands]]]]]]]].
        exists i, e, c, l. split; [exact Hnth|]. split; [apply (nth_error_In _ ci'); exact Hn|].
        split; [exact Hl|]. split; [exact He|]. split; [exact Hcok|]. split; [exact Hlok|].
        split; [reflexivity|]. split; [reflexivity|]. split; [reflexivity|]. split.
        { rewrite Hrest. cbn [ecands]. rewrite He, Hcands. reflexivity. }
        right. rewrite Hrest. exists e, rest. split; [reflexivity|]. split; [exact He|].
        right. exists c, (skipn (S ci') (ep_clusters e)). split; [apply nth_skipn_cons; exact Hn|exact Hcok].
      * exact Hcl.
      * exact Hcl.
      * destruct Hcl as [-> Hcands]. rewrite W. cbn [negb]. rewrite Hcands. cbn [tag map app].
        exact (IH (S i) 0%nat 0%nat (eq_sym Hnext) (or_introl (conj eq_refl eq_refl))).
    + assert (Hz : ci = 0%nat /\ li = 0%nat).
      { destruct Hcoh as [H|[e0 [es' [H [He0 _]]]]]; [exact H|]. injection H as <- <-. congruence. }
      destruct Hz as [-> ->]. cbn [app].
      exact (IH (S i) 0%nat 0%nat (eq_sym Hnext) (or_introl (conj eq_refl eq_refl))).
Qed.

(** ** the cursor as a whole *)

Definition remaining (nd : node) (st : xstate) : list cand :=
  ecands (skipn (fst (resume nd st)) nd) (x_ci (snd (resume nd st))) (x_li (snd (resume nd st))).

Definition scoh (nd : node) (st : xstate) : Prop :=
  ecoh (skipn (fst (resume nd st)) nd) (x_ci (snd (resume nd st))) (x_li (snd (resume nd st))).

(** the path passes the restrictions on write / invoke wildcards *)
Definition path_ok : Prop :=
  is_read (xe_op env) = true \/ (is_some (p_cl path) = true /\ is_some (p_leaf path) = true).

Lemma next_for_path_wild (nd : node) (st : xstate) :
  path_ok -> sorted nd -> scoh nd st -> x_last st = None ->
  match next_for_path env nd fabs st path with
  | NFound eid cl id st' =>
      exists e c l, In e nd /\ In c (ep_clusters e) /\ In l (leaves (xe_op env) c)
                    /\ eok e = true /\ cok c = true /\ lok e c l = true
                    /\ eid = ep_id e /\ cl = c_id c /\ id = l_id l
                    /\ remaining nd st = (e, c, l) :: remaining nd st'
                    /\ scoh nd st'
                    /\ x_last st' = Some (eid, cl, id)
  | NExhausted => remaining nd st = []
  | NStatus _ => False
  end.
Proof.
  intros Hp Hs Hcoh Hlast. unfold next_for_path.
  assert (H1 : negb (is_read (xe_op env)) && negb (is_some (p_cl path)) = false).
  { destruct Hp as [->|[-> _]]; [reflexivity|]. apply andb_false_r. }
  assert (H2 : negb (is_read (xe_op env)) && negb (is_some (p_leaf path)) = false).
  { destruct Hp as [->|[_ ->]]; [reflexivity|]. apply andb_false_r. }
  rewrite H1, H2. unfold remaining, scoh in *.
  destruct (resume_clear nd st) as [_ Hl].
  destruct (resume nd st) as [idx st1]. cbn [fst snd] in *.
  rewrite Hl, Hlast.
  pose proof (endpoints_loop_wild nd (skipn idx nd) idx (x_ci st1) (x_li st1) eq_refl Hcoh) as He.
  destruct (endpoints_loop env fabs path None (skipn idx nd) (x_ci st1) (x_li st1))
    as [eid cl id ci' li'| | |].
  - destruct He as [i' [e [c [l [Hn [Hc [Hlf [Heok [Hcok [Hlok [-> [-> [-> [Hcands Hec]]]]]]]]]]]]]].
    exists e, c, l.
    assert (Hres : resume nd (mkX (Some (ep_id e)) ci' li' (Some (ep_id e, c_id c, l_id l)))
                   = (i', mkX (Some (ep_id e)) ci' li' (Some (ep_id e, c_id c, l_id l)))).
    { unfold resume. cbn [x_anchor]. rewrite (lower_bound_nth nd i' e Hs Hn). reflexivity. }
    rewrite Hres. cbn [fst snd x_ci x_li x_last].
    split; [apply (nth_error_In _ i'); exact Hn|].
    repeat (split; [assumption || reflexivity|]). reflexivity.
  - destruct He.
  - exact He.
  - rewrite W. cbn [negb]. exact He.
Qed.

End Expand.
