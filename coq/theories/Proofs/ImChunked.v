(** A write continued over several chunks: the timed gate is applied to
    every chunk. *)
From RsM Require Import Lib.MachInt Model.Acl Model.AclSpec Model.Im Model.ImSpec.
From RsM Require Import Proofs.ImTheorems Proofs.ImMonitor.
Open Scope N_scope.

Theorem write_chunked_exact (fuel max_paths : nat) (who : accessor) (nd : node) (fabs : list fabric)
  (win : option N) (ff : bool) (chunks : list wchunk) :
  wf_node nd = true -> wf_fabrics fabs = true ->
  (forall ch, In ch chunks -> (length (spec_outs nd fabs who (chunk_req win ff ch)) < fuel)%nat) ->
  write_chunked fuel max_paths who (mkCfg nd fabs) [] win ff chunks
  = spec_write_chunked max_paths who nd fabs win ff chunks.
Proof.
  intros Hn Hf. induction chunks as [|ch rest IH]; intros Hfuel; [reflexivity|].
  cbn [write_chunked spec_write_chunked].
  rewrite (im_handle_exact fuel max_paths who nd fabs (chunk_req win ff ch) Hn Hf (Hfuel ch (or_introl eq_refl))).
  destruct (spec_response max_paths who nd fabs (chunk_req win ff ch)); try reflexivity.
  rewrite IH; [reflexivity|]. intros ch0 H0. apply Hfuel. right. exact H0.
Qed.

(** every chunk that is processed (answered with entries) passed the gate with
    its own flag at its own time - whatever replaces node or ACLs meanwhile *)
Theorem write_chunked_gate (fuel max_paths : nat) (who : accessor) (c0 : config) (sw : list (nat * config))
  (win : option N) (ff : bool) (chunks : list wchunk) (i : nat) (ch : wchunk) (outs : list out) (log : list hcall) :
  nth_error chunks i = Some ch ->
  nth_error (write_chunked fuel max_paths who c0 sw win ff chunks) i = Some (RespItems outs log) ->
  ch_flag ch = is_some win /\ (ch_flag ch = true -> window_open win (ch_elapsed ch) = true).
Proof.
  revert i. induction chunks as [|c rest IH]; intros i Hc Hr; [destruct i; discriminate|].
  cbn [write_chunked] in Hr.
  destruct i as [|i].
  - injection Hc as ->.
    destruct (im_handle fuel max_paths who c0 sw (chunk_req win ff ch)) as [s|o l|] eqn:Hh;
      cbn [nth_error] in Hr; try discriminate.
    assert (Hop : rq_op (chunk_req win ff ch) <> Read) by (cbn; discriminate).
    exact (im_handle_items_gate fuel max_paths who c0 sw (chunk_req win ff ch) o l Hh Hop).
  - cbn [nth_error] in Hc.
    destruct (im_handle fuel max_paths who c0 sw (chunk_req win ff c)) as [s|o l|];
      cbn [nth_error] in Hr; try (destruct i; discriminate).
    exact (IH i Hc Hr).
Qed.

(** nothing is processed after a chunk that was refused as a whole *)
Theorem write_chunked_stops (fuel max_paths : nat) (who : accessor) (c0 : config) (sw : list (nat * config))
  (win : option N) (ff : bool) (chunks : list wchunk) (i : nat) (s : status) :
  nth_error (write_chunked fuel max_paths who c0 sw win ff chunks) i = Some (RespStatus s) ->
  length (write_chunked fuel max_paths who c0 sw win ff chunks) = S i.
Proof.
  revert i. induction chunks as [|c rest IH]; intros i Hr; [destruct i; discriminate|].
  cbn [write_chunked] in *.
  destruct (im_handle fuel max_paths who c0 sw (chunk_req win ff c)) as [s0|o l|].
  - destruct i as [|i]; [reflexivity|]. destruct i; discriminate.
  - destruct i as [|i]; [discriminate|]. cbn [nth_error] in Hr. cbn [length]. f_equal. exact (IH i Hr).
  - destruct i as [|i]; [discriminate|]. destruct i; discriminate.
Qed.

(** the chunked monitor on a stable configuration accepts only the specified answers *)
Theorem holds_chunked_sound (max_paths : nat) (who : accessor) (nd : node) (fabs : list fabric)
  (win : option N) (ff : bool) (chunks : list wchunk) (resps : list imresp) :
  wf_node nd = true -> wf_fabrics fabs = true ->
  holds_chunked max_paths who (mkCfg nd fabs) [] win ff chunks resps = true ->
  resps = spec_write_chunked max_paths who nd fabs win ff chunks.
Proof.
  intros Hn Hf. revert resps. induction chunks as [|ch rest IH]; intros [|r rs] H; cbn [holds_chunked] in H;
    try discriminate; [reflexivity|].
  apply andb_true_iff in H. destruct H as [Hh Hr].
  apply (holds_stable_sound max_paths who nd fabs (chunk_req win ff ch) r Hn Hf) in Hh. subst r.
  cbn [spec_write_chunked].
  destruct (spec_response max_paths who nd fabs (chunk_req win ff ch)).
  - destruct rs; [reflexivity|discriminate].
  - f_equal. apply IH. exact Hr.
  - destruct rs; [reflexivity|discriminate].
Qed.
