(** Lemmas about the header codecs of [Model/Headers.v]: little-endian
    primitives, round trips, canonicity, totality. *)
From RsM Require Import Lib.MachInt Lib.BitFacts Model.Headers.
From Coq Require Import ZifyN ZifyBool.
Open Scope N_scope.

Arguments N.add : simpl never.
Arguments N.mul : simpl never.
Arguments N.pow : simpl never.
Arguments N.div : simpl never.
Arguments N.modulo : simpl never.
Arguments N.ltb : simpl never.
Arguments N.eqb : simpl never.
Arguments N.land : simpl never.
Arguments N.testbit : simpl never.

Ltac dm_lia := zify; Z.div_mod_to_equations; lia.

(** * Little-endian primitives *)

Lemma pow256_succ (n : nat) : 256 ^ N.of_nat (S n) = 256 * 256 ^ N.of_nat n.
Proof. rewrite Nat2N.inj_succ, N.pow_succ_r'. reflexivity. Qed.

Lemma pow256_pos (n : nat) : 0 < 256 ^ N.of_nat n.
Proof. apply N.neq_0_lt_0, N.pow_nonzero. discriminate. Qed.

Lemma le_bytes_length (n : nat) (v : N) : length (le_bytes n v) = n.
Proof.
  revert v. induction n as [|n IH]; intro v; cbn [le_bytes length]; [reflexivity|].
  rewrite IH. reflexivity.
Qed.

Lemma le_bytes_bytes (n : nat) (v : N) : bytes (le_bytes n v).
Proof.
  revert v. induction n as [|n IH]; intro v; cbn [le_bytes]; constructor.
  - apply N.mod_lt. discriminate.
  - apply IH.
Qed.

Lemma le_val_le_bytes (n : nat) (v : N) :
  v < 256 ^ N.of_nat n -> le_val (le_bytes n v) = v.
Proof.
  revert v. induction n as [|n IH]; intros v Hv.
  - cbn [le_bytes le_val]. change (256 ^ N.of_nat 0) with 1 in Hv. lia.
  - cbn [le_bytes le_val]. rewrite pow256_succ in Hv.
    rewrite IH.
    + dm_lia.
    + pose proof (pow256_pos n) as Hp. apply N.div_lt_upper_bound; lia.
Qed.

Lemma le_val_lt (bs : list N) :
  bytes bs -> le_val bs < 256 ^ N.of_nat (length bs).
Proof.
  intro Hb. induction Hb as [|b t Hb Ht IH].
  - cbn [le_val length]. change (256 ^ N.of_nat 0) with 1. lia.
  - cbn [le_val length]. rewrite pow256_succ. lia.
Qed.

Lemma le_bytes_le_val (bs : list N) :
  bytes bs -> le_bytes (length bs) (le_val bs) = bs.
Proof.
  intro Hb. induction Hb as [|b t Hb Ht IH].
  - reflexivity.
  - cbn [le_val length le_bytes].
    replace ((b + 256 * le_val t) mod 256) with b by dm_lia.
    replace ((b + 256 * le_val t) / 256) with (le_val t) by dm_lia.
    rewrite IH. reflexivity.
Qed.

Lemma bytes_app (a b : list N) : bytes (a ++ b) <-> bytes a /\ bytes b.
Proof. apply Forall_app. Qed.

Lemma bytesb_spec (l : list N) : bytesb l = true <-> bytes l.
Proof.
  unfold bytesb, bytes, is_byte. rewrite forallb_forall, Forall_forall.
  split; intros H x Hx; specialize (H x Hx); lia.
Qed.

Lemma firstn_len_app {A} (l r : list A) : firstn (length l) (l ++ r) = l.
Proof. induction l as [|x l IH]; cbn; [destruct r|rewrite IH]; reflexivity. Qed.

Lemma skipn_len_app {A} (l r : list A) : skipn (length l) (l ++ r) = r.
Proof. induction l as [|x l IH]; cbn; [|rewrite IH]; reflexivity. Qed.

Lemma take_le_app (n : nat) (v : N) (rest : list N) :
  v < 256 ^ N.of_nat n -> take_le n (le_bytes n v ++ rest) = Ok (v, rest).
Proof.
  intro Hv. unfold take_le.
  rewrite app_length, le_bytes_length.
  replace (Nat.leb n (n + length rest)) with true
    by (symmetry; apply Nat.leb_le; lia).
  pose proof (le_bytes_length n v) as Hl.
  rewrite <- Hl at 1 3. rewrite firstn_len_app, skipn_len_app.
  rewrite le_val_le_bytes by assumption. reflexivity.
Qed.

Lemma take_le_inv (n : nat) (b : list N) (v : N) (r : list N) :
  bytes b -> take_le n b = Ok (v, r) ->
  b = le_bytes n v ++ r /\ v < 256 ^ N.of_nat n /\ bytes r.
Proof.
  intros Hb H. unfold take_le in H.
  destruct (Nat.leb n (length b)) eqn:Hn; [|discriminate].
  apply Nat.leb_le in Hn. injection H as Hv Hr.
  rewrite <- (firstn_skipn n b) in Hb. apply bytes_app in Hb as [Hf Hs].
  assert (Hlen : length (firstn n b) = n) by (apply firstn_length_le; assumption).
  split; [|split].
  - rewrite <- Hv, <- Hr. rewrite <- Hlen at 1.
    rewrite le_bytes_le_val by assumption. symmetry. apply firstn_skipn.
  - rewrite <- Hv. rewrite <- Hlen at 2. apply le_val_lt. assumption.
  - rewrite <- Hr. assumption.
Qed.

Lemma take_le_total (n : nat) (b : list N) :
  (exists v r, take_le n b = Ok (v, r)) \/ take_le n b = Err E_TRUNC.
Proof.
  unfold take_le. destruct (Nat.leb n (length b)); [left; eauto|right; reflexivity].
Qed.

Lemma take_le_short (n : nat) (b : list N) :
  (length b < n)%nat -> take_le n b = Err E_TRUNC.
Proof.
  intro H. unfold take_le.
  replace (Nat.leb n (length b)) with false; [reflexivity|].
  symmetry. apply Nat.leb_gt. assumption.
Qed.

(** a result that is not a panic *)
Definition no_panic {A} (r : res A) : Prop :=
  match r with Panic _ => False | _ => True end.

Lemma no_panic_bind_take {A} (n : nat) (b : list N) (k : N * list N -> res A) :
  (forall v r, no_panic (k (v, r))) -> no_panic (bind (take_le n b) k).
Proof.
  intro Hk. destruct (take_le_total n b) as [(v & r & ->)| ->]; cbn [bind].
  - apply Hk.
  - exact I.
Qed.

(** * PlainHdr *)

Lemma plain_wf_inv (h : plain_hdr) :
  plain_wf h = true ->
  p_flags h < 256 /\ msg_flags_ok (p_flags h) = true /\ p_sess h < two16 /\
  p_sec h < 256 /\ sec_flags_ok (p_sec h) = true /\ p_ctr h < two32 /\
  (if has_src (p_flags h) then p_src h < two64 else p_src h = 0) /\
  (if negb (dsiz_both (p_flags h)) then
     if dsiz_uni (p_flags h) then p_dst h < two64
     else if dsiz_grp (p_flags h) then p_dst h < two16
     else p_dst h = 0
   else p_dst h = 0).
Proof.
  unfold plain_wf. intro H.
  repeat (apply andb_prop in H; destruct H as [H ?]).
  repeat split; try lia.
  - destruct (has_src (p_flags h)); lia.
  - destruct (negb (dsiz_both (p_flags h))); [|lia].
    destruct (dsiz_uni (p_flags h)); [lia|].
    destruct (dsiz_grp (p_flags h)); lia.
Qed.

Lemma pow_1 : 256 ^ N.of_nat 1 = 256. Proof. reflexivity. Qed.
Lemma pow_2 : 256 ^ N.of_nat 2 = two16. Proof. reflexivity. Qed.
Lemma pow_4 : 256 ^ N.of_nat 4 = two32. Proof. reflexivity. Qed.
Lemma pow_8 : 256 ^ N.of_nat 8 = two64. Proof. reflexivity. Qed.

Lemma plain_roundtrip (h : plain_hdr) (rest : list N) :
  plain_wf h = true -> plain_decode (plain_encode h ++ rest) = Ok (h, rest).
Proof.
  intro Hwf. apply plain_wf_inv in Hwf.
  destruct Hwf as (Hf & Hfo & Hs & Hc & Hco & Hctr & Hsrc & Hdst).
  destruct h as [fl sid sf ctr src dst]. cbn [p_flags p_sess p_sec p_ctr p_src p_dst] in *.
  unfold plain_decode, plain_decode_from, plain_encode.
  cbn [p_flags p_sess p_sec p_ctr p_src p_dst plain_new].
  repeat rewrite <- app_assoc.
  rewrite take_le_app by (rewrite pow_1; assumption). cbn [bind].
  rewrite Hfo. cbn [negb].
  rewrite take_le_app by (rewrite pow_2; assumption). cbn [bind].
  rewrite take_le_app by (rewrite pow_1; assumption). cbn [bind].
  rewrite Hco. cbn [negb].
  rewrite take_le_app by (rewrite pow_4; assumption). cbn [bind].
  destruct (has_src fl).
  - rewrite take_le_app by (rewrite pow_8; assumption). cbn [bind].
    destruct (negb (dsiz_both fl)).
    + destruct (dsiz_uni fl).
      * rewrite take_le_app by (rewrite pow_8; assumption). reflexivity.
      * destruct (dsiz_grp fl).
        -- rewrite take_le_app by (rewrite pow_2; assumption). reflexivity.
        -- subst dst. reflexivity.
    + subst dst. reflexivity.
  - subst src. cbn [app bind].
    destruct (negb (dsiz_both fl)).
    + destruct (dsiz_uni fl).
      * rewrite take_le_app by (rewrite pow_8; assumption). reflexivity.
      * destruct (dsiz_grp fl).
        -- rewrite take_le_app by (rewrite pow_2; assumption). reflexivity.
        -- subst dst. reflexivity.
    + subst dst. reflexivity.
Qed.

Lemma lt_ltb (a b : N) : a < b -> (a <? b) = true.
Proof. intro; lia. Qed.

(** every accepted input is the encoding of what was decoded, followed by
    the unread rest; and the decoded header is well-formed *)
Lemma plain_decode_canonical (b : list N) (h : plain_hdr) (rest : list N) :
  bytes b -> plain_decode b = Ok (h, rest) ->
  b = plain_encode h ++ rest /\ plain_wf h = true /\ bytes rest.
Proof.
  intros Hb H. unfold plain_decode, plain_decode_from in H.
  destruct (take_le 1 b) as [[fl b1]| |] eqn:E1; cbn [bind] in H; try discriminate.
  apply take_le_inv in E1 as (-> & Hfl & Hb1); [|assumption].
  destruct (msg_flags_ok fl) eqn:Hfo; cbn [negb] in H; [|discriminate].
  destruct (take_le 2 b1) as [[sid b2]| |] eqn:E2; cbn [bind] in H; try discriminate.
  apply take_le_inv in E2 as (-> & Hsid & Hb2); [|assumption].
  destruct (take_le 1 b2) as [[sf b3]| |] eqn:E3; cbn [bind] in H; try discriminate.
  apply take_le_inv in E3 as (-> & Hsf & Hb3); [|assumption].
  destruct (sec_flags_ok sf) eqn:Hso; cbn [negb] in H; [|discriminate].
  destruct (take_le 4 b3) as [[ctr b4]| |] eqn:E4; cbn [bind] in H; try discriminate.
  apply take_le_inv in E4 as (-> & Hctr & Hb4); [|assumption].
  rewrite pow_1 in Hfl, Hsf. rewrite pow_2 in Hsid. rewrite pow_4 in Hctr.
  unfold plain_encode, plain_wf.
  destruct (has_src fl) eqn:Hsrc.
  - destruct (take_le 8 b4) as [[src b5]| |] eqn:E5; cbn [bind] in H; try discriminate.
    apply take_le_inv in E5 as (-> & Hsrcv & Hb5); [|assumption].
    rewrite pow_8 in Hsrcv.
    destruct (negb (dsiz_both fl)) eqn:Hboth.
    + destruct (dsiz_uni fl) eqn:Huni.
      * destruct (take_le 8 b5) as [[dst b6]| |] eqn:E6; cbn [bind] in H; try discriminate.
        apply take_le_inv in E6 as (-> & Hdst & Hb6); [|assumption].
        rewrite pow_8 in Hdst. injection H as <- <-.
        cbn [p_flags p_sess p_sec p_ctr p_src p_dst].
        rewrite Hsrc, Hboth, Huni, Hfo, Hso. repeat rewrite <- app_assoc.
        rewrite !lt_ltb by assumption. repeat split; assumption.
      * destruct (dsiz_grp fl) eqn:Hgrp.
        -- destruct (take_le 2 b5) as [[dst b6]| |] eqn:E6; cbn [bind] in H; try discriminate.
           apply take_le_inv in E6 as (-> & Hdst & Hb6); [|assumption].
           rewrite pow_2 in Hdst. injection H as <- <-.
           cbn [p_flags p_sess p_sec p_ctr p_src p_dst].
           rewrite Hsrc, Hboth, Huni, Hgrp, Hfo, Hso. repeat rewrite <- app_assoc.
           rewrite !lt_ltb by assumption. repeat split; assumption.
        -- cbn [bind plain_new p_dst] in H. injection H as <- <-.
           cbn [p_flags p_sess p_sec p_ctr p_src p_dst].
           rewrite Hsrc, Hboth, Huni, Hgrp, Hfo, Hso. repeat rewrite <- app_assoc.
           rewrite !lt_ltb by assumption. rewrite app_nil_l. repeat split; assumption.
    + cbn [bind plain_new p_dst] in H. injection H as <- <-.
      cbn [p_flags p_sess p_sec p_ctr p_src p_dst].
      rewrite Hsrc, Hboth, Hfo, Hso. repeat rewrite <- app_assoc.
      rewrite !lt_ltb by assumption. rewrite app_nil_l. repeat split; assumption.
  - cbn [bind plain_new p_src] in H.
    destruct (negb (dsiz_both fl)) eqn:Hboth.
    + destruct (dsiz_uni fl) eqn:Huni.
      * destruct (take_le 8 b4) as [[dst b6]| |] eqn:E6; cbn [bind] in H; try discriminate.
        apply take_le_inv in E6 as (-> & Hdst & Hb6); [|assumption].
        rewrite pow_8 in Hdst. injection H as <- <-.
        cbn [p_flags p_sess p_sec p_ctr p_src p_dst].
        rewrite Hsrc, Hboth, Huni, Hfo, Hso. repeat rewrite <- app_assoc.
        rewrite !lt_ltb by assumption. repeat split; assumption.
      * destruct (dsiz_grp fl) eqn:Hgrp.
        -- destruct (take_le 2 b4) as [[dst b6]| |] eqn:E6; cbn [bind] in H; try discriminate.
           apply take_le_inv in E6 as (-> & Hdst & Hb6); [|assumption].
           rewrite pow_2 in Hdst. injection H as <- <-.
           cbn [p_flags p_sess p_sec p_ctr p_src p_dst].
           rewrite Hsrc, Hboth, Huni, Hgrp, Hfo, Hso. repeat rewrite <- app_assoc.
           rewrite !lt_ltb by assumption. repeat split; assumption.
        -- cbn [bind plain_new p_dst] in H. injection H as <- <-.
           cbn [p_flags p_sess p_sec p_ctr p_src p_dst].
           rewrite Hsrc, Hboth, Huni, Hgrp, Hfo, Hso. repeat rewrite <- app_assoc.
           rewrite !lt_ltb by assumption. repeat split; assumption.
    + cbn [bind plain_new p_dst] in H. injection H as <- <-.
      cbn [p_flags p_sess p_sec p_ctr p_src p_dst].
      rewrite Hsrc, Hboth, Hfo, Hso. repeat rewrite <- app_assoc.
      rewrite !lt_ltb by assumption. repeat split; assumption.
Qed.

Lemma plain_decode_total (h0 : plain_hdr) (b : list N) :
  no_panic (plain_decode_from h0 b).
Proof.
  unfold plain_decode_from.
  apply no_panic_bind_take. intros fl b1.
  destruct (negb (msg_flags_ok fl)); [exact I|].
  apply no_panic_bind_take. intros sid b2.
  apply no_panic_bind_take. intros sf b3.
  destruct (negb (sec_flags_ok sf)); [exact I|].
  apply no_panic_bind_take. intros ctr b4.
  assert (Hdst : forall src b5, no_panic
    (let? (dst, b6) :=
       (if negb (dsiz_both fl) then
          if dsiz_uni fl then take_le 8 b5
          else if dsiz_grp fl then take_le 2 b5 else Ok (p_dst h0, b5)
        else Ok (p_dst h0, b5)) in
     Ok (mkPlain fl sid sf ctr src dst, b6))).
  { intros src b5.
    destruct (negb (dsiz_both fl)); [|exact I].
    destruct (dsiz_uni fl); [apply no_panic_bind_take; intros; exact I|].
    destruct (dsiz_grp fl); [apply no_panic_bind_take; intros; exact I|exact I]. }
  destruct (has_src fl).
  - apply no_panic_bind_take. intros src b5. apply Hdst.
  - cbn [bind]. apply Hdst.
Qed.

Lemma plain_encode_length (h : plain_hdr) : (length (plain_encode h) <= 24)%nat.
Proof.
  unfold plain_encode. rewrite !app_length, !le_bytes_length.
  destruct (has_src (p_flags h)), (negb (dsiz_both (p_flags h))),
    (dsiz_uni (p_flags h)), (dsiz_grp (p_flags h));
    rewrite ?le_bytes_length; cbn [length]; lia.
Qed.

Lemma plain_encode_bytes (h : plain_hdr) : bytes (plain_encode h).
Proof.
  unfold plain_encode.
  repeat (apply bytes_app; split); try apply le_bytes_bytes.
  - destruct (has_src (p_flags h)); [apply le_bytes_bytes|constructor].
  - destruct (negb (dsiz_both (p_flags h))); [|constructor].
    destruct (dsiz_uni (p_flags h)); [apply le_bytes_bytes|].
    destruct (dsiz_grp (p_flags h)); [apply le_bytes_bytes|constructor].
Qed.

Lemma plain_encode_inj (h1 h2 : plain_hdr) (r1 r2 : list N) :
  plain_wf h1 = true -> plain_wf h2 = true ->
  plain_encode h1 ++ r1 = plain_encode h2 ++ r2 -> h1 = h2 /\ r1 = r2.
Proof.
  intros H1 H2 He.
  pose proof (plain_roundtrip h1 r1 H1) as R1.
  pose proof (plain_roundtrip h2 r2 H2) as R2.
  rewrite He in R1. rewrite R1 in R2. injection R2 as -> ->. split; reflexivity.
Qed.

(** the setters keep a header well-formed *)
Lemma bit_cases_lt8 (fl : N) : fl < 8 ->
  fl = 0 \/ fl = 1 \/ fl = 2 \/ fl = 3 \/ fl = 4 \/ fl = 5 \/ fl = 6 \/ fl = 7.
Proof. lia. Qed.

Lemma msg_flags_ok_lt8 (fl : N) : fl < 256 -> msg_flags_ok fl = true -> fl < 8.
Proof.
  intros Hb H. unfold msg_flags_ok, MSG_FLAGS_ALL in H. apply N.eqb_eq in H.
  change (255 - 7) with 248 in H.
  destruct (N.lt_ge_cases fl 8) as [|Hge]; [assumption|exfalso].
  (* some bit 3..7 is set *)
  assert (Hbit : exists i, 3 <= i < 8 /\ N.testbit fl i = true).
  { destruct (N.testbit fl 3) eqn:B3; [exists 3; split; [lia|assumption]|].
    destruct (N.testbit fl 4) eqn:B4; [exists 4; split; [lia|assumption]|].
    destruct (N.testbit fl 5) eqn:B5; [exists 5; split; [lia|assumption]|].
    destruct (N.testbit fl 6) eqn:B6; [exists 6; split; [lia|assumption]|].
    destruct (N.testbit fl 7) eqn:B7; [exists 7; split; [lia|assumption]|].
    exfalso.
    assert (Hlt : fl < 2 ^ 3).
    { apply testbit_lt_pow2. intros j Hj.
      destruct (N.lt_ge_cases j 8) as [Hj8|Hj8].
      - assert (j = 3 \/ j = 4 \/ j = 5 \/ j = 6 \/ j = 7) as [->|[->|[->|[->| ->]]]] by lia;
          assumption.
      - apply lt_pow2_testbit_high with 8; [exact Hb|assumption]. }
    change (2 ^ 3) with 8 in Hlt. lia. }
  destruct Hbit as (i & Hi & Hti).
  assert (Ht : N.testbit (N.land fl 248) i = true).
  { rewrite N.land_spec, Hti.
    assert (i = 3 \/ i = 4 \/ i = 5 \/ i = 6 \/ i = 7) as [->|[->|[->|[->| ->]]]] by lia;
      reflexivity. }
  rewrite H, N.bits_0 in Ht. discriminate.
Qed.

Lemma plain_setters_wf (h : plain_hdr) (src : option N) (dstk : N) (dst : option N) :
  plain_wf h = true ->
  (match src with Some v => v < two64 | None => True end) ->
  (match dst with Some v => v < (if dstk =? 0 then two64 else two16) | None => True end) ->
  plain_wf ((if dstk =? 0 then plain_set_dst_unicast else plain_set_dst_groupcast)
              (plain_set_src h src) dst) = true.
Proof.
  intros Hwf Hs Hd. apply plain_wf_inv in Hwf.
  destruct Hwf as (Hf & Hfo & Hsid & Hc & Hco & Hctr & Hsrc & Hdst).
  destruct h as [fl sid sf ctr s d]. cbn [p_flags p_sess p_sec p_ctr p_src p_dst] in *.
  pose proof (msg_flags_ok_lt8 fl Hf Hfo) as H8.
  apply bit_cases_lt8 in H8.
  apply lt_ltb in Hsid, Hc, Hctr.
  unfold plain_wf.
  destruct (dstk =? 0); destruct src as [sv|]; destruct dst as [dv|];
    try apply lt_ltb in Hs; try apply lt_ltb in Hd;
    cbn [plain_set_src plain_set_dst_unicast plain_set_dst_groupcast
         p_flags p_sess p_sec p_ctr p_src p_dst];
    rewrite Hsid, Hc, Hctr, Hco; try rewrite Hs; try rewrite Hd;
    destruct H8 as [->|[->|[->|[->|[->|[->|[->| ->]]]]]]];
    vm_compute; reflexivity.
Qed.

(** * ProtoHdr *)

Lemma proto_wf_inv (h : proto_hdr) :
  proto_wf h = true ->
  x_flags h < 256 /\ exch_flags_ok (x_flags h) = true /\ x_opcode h < 256 /\
  x_exch h < two16 /\ x_proto h < two16 /\
  (if has_vendor (x_flags h) then x_vendor h < two16 else x_vendor h = 0) /\
  (if has_ack (x_flags h) then x_ack h < two32 else x_ack h = 0).
Proof.
  unfold proto_wf. intro H.
  repeat (apply andb_prop in H; destruct H as [H ?]).
  repeat split; try lia.
  - destruct (has_vendor (x_flags h)); lia.
  - destruct (has_ack (x_flags h)); lia.
Qed.

Lemma proto_roundtrip (h : proto_hdr) (rest : list N) :
  proto_wf h = true -> proto_decode (proto_encode h ++ rest) = Ok (h, rest).
Proof.
  intro Hwf. apply proto_wf_inv in Hwf.
  destruct Hwf as (Hf & Hfo & Hop & He & Hp & Hv & Ha).
  destruct h as [eid fl pid op ven ack].
  cbn [x_exch x_flags x_proto x_opcode x_vendor x_ack] in *.
  unfold proto_decode, proto_decode_from, proto_encode.
  cbn [x_exch x_flags x_proto x_opcode x_vendor x_ack proto_new].
  repeat rewrite <- app_assoc.
  rewrite take_le_app by (rewrite pow_1; assumption). cbn [bind].
  rewrite Hfo. cbn [negb].
  rewrite take_le_app by (rewrite pow_1; assumption). cbn [bind].
  rewrite take_le_app by (rewrite pow_2; assumption). cbn [bind].
  rewrite take_le_app by (rewrite pow_2; assumption). cbn [bind].
  destruct (has_vendor fl).
  - rewrite take_le_app by (rewrite pow_2; assumption). cbn [bind].
    destruct (has_ack fl).
    + rewrite take_le_app by (rewrite pow_4; assumption). reflexivity.
    + subst ack. reflexivity.
  - subst ven. cbn [app bind].
    destruct (has_ack fl).
    + rewrite take_le_app by (rewrite pow_4; assumption). reflexivity.
    + subst ack. reflexivity.
Qed.

Lemma proto_decode_canonical (b : list N) (h : proto_hdr) (rest : list N) :
  bytes b -> proto_decode b = Ok (h, rest) ->
  b = proto_encode h ++ rest /\ proto_wf h = true /\ bytes rest.
Proof.
  intros Hb H. unfold proto_decode, proto_decode_from in H.
  destruct (take_le 1 b) as [[fl b1]| |] eqn:E1; cbn [bind] in H; try discriminate.
  apply take_le_inv in E1 as (-> & Hfl & Hb1); [|assumption].
  destruct (exch_flags_ok fl) eqn:Hfo; cbn [negb] in H; [|discriminate].
  destruct (take_le 1 b1) as [[op b2]| |] eqn:E2; cbn [bind] in H; try discriminate.
  apply take_le_inv in E2 as (-> & Hop & Hb2); [|assumption].
  destruct (take_le 2 b2) as [[eid b3]| |] eqn:E3; cbn [bind] in H; try discriminate.
  apply take_le_inv in E3 as (-> & Heid & Hb3); [|assumption].
  destruct (take_le 2 b3) as [[pid b4]| |] eqn:E4; cbn [bind] in H; try discriminate.
  apply take_le_inv in E4 as (-> & Hpid & Hb4); [|assumption].
  rewrite pow_1 in Hfl, Hop. rewrite pow_2 in Heid, Hpid.
  unfold proto_encode, proto_wf.
  destruct (has_vendor fl) eqn:Hven.
  - destruct (take_le 2 b4) as [[ven b5]| |] eqn:E5; cbn [bind] in H; try discriminate.
    apply take_le_inv in E5 as (-> & Hvenv & Hb5); [|assumption].
    rewrite pow_2 in Hvenv.
    destruct (has_ack fl) eqn:Hack.
    + destruct (take_le 4 b5) as [[ack b6]| |] eqn:E6; cbn [bind] in H; try discriminate.
      apply take_le_inv in E6 as (-> & Hackv & Hb6); [|assumption].
      rewrite pow_4 in Hackv. injection H as <- <-.
      cbn [x_exch x_flags x_proto x_opcode x_vendor x_ack].
      rewrite Hven, Hack, Hfo. repeat rewrite <- app_assoc.
      rewrite !lt_ltb by assumption. repeat split; assumption.
    + cbn [bind proto_new x_ack] in H. injection H as <- <-.
      cbn [x_exch x_flags x_proto x_opcode x_vendor x_ack].
      rewrite Hven, Hack, Hfo. repeat rewrite <- app_assoc.
      rewrite !lt_ltb by assumption. rewrite app_nil_l. repeat split; assumption.
  - cbn [bind proto_new x_vendor] in H.
    destruct (has_ack fl) eqn:Hack.
    + destruct (take_le 4 b4) as [[ack b6]| |] eqn:E6; cbn [bind] in H; try discriminate.
      apply take_le_inv in E6 as (-> & Hackv & Hb6); [|assumption].
      rewrite pow_4 in Hackv. injection H as <- <-.
      cbn [x_exch x_flags x_proto x_opcode x_vendor x_ack].
      rewrite Hven, Hack, Hfo. repeat rewrite <- app_assoc.
      rewrite !lt_ltb by assumption. repeat split; assumption.
    + cbn [bind proto_new x_ack] in H. injection H as <- <-.
      cbn [x_exch x_flags x_proto x_opcode x_vendor x_ack].
      rewrite Hven, Hack, Hfo. repeat rewrite <- app_assoc.
      rewrite !lt_ltb by assumption. repeat split; assumption.
Qed.

Lemma proto_decode_total (h0 : proto_hdr) (b : list N) :
  no_panic (proto_decode_from h0 b).
Proof.
  unfold proto_decode_from.
  apply no_panic_bind_take. intros fl b1.
  destruct (negb (exch_flags_ok fl)); [exact I|].
  apply no_panic_bind_take. intros op b2.
  apply no_panic_bind_take. intros eid b3.
  apply no_panic_bind_take. intros pid b4.
  assert (Hack : forall ven b5, no_panic
    (let? (ack, b6) := (if has_ack fl then take_le 4 b5 else Ok (x_ack h0, b5)) in
     Ok (mkProto eid fl pid op ven ack, b6))).
  { intros ven b5. destruct (has_ack fl); [|exact I].
    apply no_panic_bind_take. intros; exact I. }
  destruct (has_vendor fl).
  - apply no_panic_bind_take. intros ven b5. apply Hack.
  - cbn [bind]. apply Hack.
Qed.

Lemma proto_encode_length (h : proto_hdr) : (length (proto_encode h) <= 12)%nat.
Proof.
  unfold proto_encode. rewrite !app_length, !le_bytes_length.
  destruct (has_vendor (x_flags h)), (has_ack (x_flags h));
    rewrite ?le_bytes_length; cbn [length]; lia.
Qed.

Lemma proto_encode_bytes (h : proto_hdr) : bytes (proto_encode h).
Proof.
  unfold proto_encode.
  repeat (apply bytes_app; split); try apply le_bytes_bytes.
  - destruct (has_vendor (x_flags h)); [apply le_bytes_bytes|constructor].
  - destruct (has_ack (x_flags h)); [apply le_bytes_bytes|constructor].
Qed.

Lemma proto_encode_inj (h1 h2 : proto_hdr) (r1 r2 : list N) :
  proto_wf h1 = true -> proto_wf h2 = true ->
  proto_encode h1 ++ r1 = proto_encode h2 ++ r2 -> h1 = h2 /\ r1 = r2.
Proof.
  intros H1 H2 He.
  pose proof (proto_roundtrip h1 r1 H1) as R1.
  pose proof (proto_roundtrip h2 r2 H2) as R2.
  rewrite He in R1. rewrite R1 in R2. injection R2 as -> ->. split; reflexivity.
Qed.

(** * Both headers in sequence *)

Lemma hdrs_roundtrip (p : plain_hdr) (x : proto_hdr) (rest : list N) :
  plain_wf p = true -> proto_wf x = true ->
  hdrs_decode (hdrs_encode p x ++ rest) = Ok (p, x, rest).
Proof.
  intros Hp Hx. unfold hdrs_decode, hdrs_encode.
  rewrite <- app_assoc, plain_roundtrip by assumption. cbn [bind].
  rewrite proto_roundtrip by assumption. reflexivity.
Qed.

Lemma hdrs_decode_canonical (b : list N) p x rest :
  bytes b -> hdrs_decode b = Ok (p, x, rest) ->
  b = hdrs_encode p x ++ rest /\ plain_wf p = true /\ proto_wf x = true /\ bytes rest.
Proof.
  intros Hb H. unfold hdrs_decode in H.
  destruct (plain_decode b) as [[p' r]| |] eqn:E1; cbn [bind] in H; try discriminate.
  destruct (proto_decode r) as [[x' r']| |] eqn:E2; cbn [bind] in H; try discriminate.
  injection H as -> -> ->.
  apply plain_decode_canonical in E1 as (-> & Hp & Hr); [|assumption].
  apply proto_decode_canonical in E2 as (-> & Hx & Hr'); [|assumption].
  unfold hdrs_encode. rewrite <- app_assoc. repeat split; assumption.
Qed.

Lemma hdrs_decode_total (b : list N) : no_panic (hdrs_decode b).
Proof.
  unfold hdrs_decode.
  pose proof (plain_decode_total plain_new b) as Hp. fold (plain_decode b) in Hp.
  destruct (plain_decode b) as [[p r]| |]; cbn [bind]; try exact I; [|contradiction].
  pose proof (proto_decode_total proto_new r) as Hx. fold (proto_decode r) in Hx.
  destruct (proto_decode r) as [[x r']| |]; cbn [bind]; try exact I. contradiction.
Qed.
