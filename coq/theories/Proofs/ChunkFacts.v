(** C14: facts about the chunking responder model (Model/Chunk.v):
    rendering of messages, the buffer invariant, one lemma per responder function. *)
From RsM Require Import Lib.MachInt Model.Chunk Model.ChunkSpec.
From Coq Require Import ZifyN ZifyBool Lia.
Open Scope N_scope.

Arguments N.add : simpl never.
Arguments N.sub : simpl never.
Arguments N.mul : simpl never.
Arguments N.leb : simpl never.
Arguments N.ltb : simpl never.
Arguments N.eqb : simpl never.

(** * Sums *)

Lemma sum_with_app {A} (f : A -> N) (l m : list A) :
  sum_with f (l ++ m) = sum_with f l + sum_with f m.
Proof. induction l as [|x l IH]; cbn [sum_with app]; [lia | rewrite IH; lia]. Qed.

Lemma tsum_app (l m : list token) : tsum (l ++ m) = tsum l + tsum m.
Proof. apply sum_with_app. Qed.

Lemma tsum_cons (t : token) (l : list token) : tsum (t :: l) = tsize t + tsum l.
Proof. reflexivity. Qed.

Lemma tsum_nil : tsum [] = 0.
Proof. reflexivity. Qed.

Lemma tsum_atoms (l : list atom) : tsum (map TAtom l) = sum_with asize l.
Proof. induction l as [|a l IH]; [reflexivity|]. cbn [map]. rewrite tsum_cons, IH. reflexivity. Qed.

(** * Rendering of a message from its description *)

Record desc := mkDesc { d_attrs : option (list atom); d_events : option (list atom); d_more : bool }.

Definition arr (opener : token) (o : option (list atom)) : list token :=
  match o with Some l => opener :: map TAtom l ++ [TEnd] | None => [] end.

Definition flags (c : cfg) (more : bool) : list token :=
  if more then [TMore] else if suppress c then [TSuppress] else [].

Definition render (c : cfg) (d : desc) : list token :=
  hdr c ++ arr TArrA (d_attrs d) ++ arr TArrE (d_events d) ++ flags c (d_more d) ++ [TRev; TEnd].

Definition view_of (c : cfg) (d : desc) : view :=
  mkView (sub_w c) (d_attrs d) (d_events d) (d_more d)
         (if d_more d then false else suppress c) (tsum (render c d)).

Lemma take_atoms_map (l : list atom) (r : list token) :
  (forall a r', r <> TAtom a :: r') ->
  take_atoms (map TAtom l ++ r) = (l, r).
Proof.
  intros Hr. induction l as [|a l IH]; cbn [map app].
  - destruct r as [|t r']; [reflexivity|]. destruct t; try reflexivity. exfalso. eapply Hr. reflexivity.
  - cbn [take_atoms]. rewrite IH. reflexivity.
Qed.

Lemma parse_array_some (op : token) (f : token -> bool) (l : list atom) (r : list token) :
  f op = true ->
  parse_array f (op :: (map TAtom l ++ [TEnd]) ++ r) = Some (Some l, r).
Proof.
  intros Hf. cbn [parse_array]. rewrite Hf.
  rewrite <- app_assoc. cbn [app]. rewrite take_atoms_map by (intros a r' H; discriminate H).
  reflexivity.
Qed.

Lemma parse_fields_render (c : cfg) (d : desc) :
  parse_fields (render c d) =
  Some (sub_w c, d_attrs d, d_events d, d_more d, if d_more d then false else suppress c).
Proof.
  destruct d as [da de mo]. unfold render, hdr, flags. cbn [d_attrs d_events d_more].
  destruct (sub_w c) as [w|]; destruct da as [la|]; destruct de as [le|]; destruct mo;
    try destruct (suppress c); cbn [app arr parse_fields];
    repeat (first [ rewrite parse_array_some by reflexivity
                  | rewrite <- app_assoc; cbn [app];
                    rewrite take_atoms_map by (intros ? ? HH; discriminate HH)
                  | progress cbn [parse_array is_arrA is_arrE] ]; cbv beta iota);
    reflexivity.
Qed.

Lemma parse_render (c : cfg) (d : desc) : parse_chunk (render c d) = Some (view_of c d).
Proof. unfold parse_chunk. rewrite parse_fields_render. reflexivity. Qed.

Lemma view_size_render (c : cfg) (d : desc) : view_size (view_of c d) = tsum (render c d).
Proof.
  destruct d as [da de mo]. unfold view_size, view_of, render, hdr, flags.
  cbn [v_sub v_attrs v_events v_more v_supp d_attrs d_events d_more].
  repeat rewrite tsum_app.
  destruct (sub_w c) as [w|]; destruct da as [la|]; destruct de as [le|]; destruct mo;
    try destruct (suppress c); unfold arr;
    repeat (rewrite ?tsum_cons, ?tsum_app, ?tsum_atoms, ?tsum_nil); cbn [tsize]; lia.
Qed.

(** * Configuration facts *)

Definition limit (c : cfg) : N := tx c - reserve_sz c.
Definition hsz (c : cfg) : N := tsum (hdr c).

Lemma cfg_ok_facts (c : cfg) :
  cfg_ok c = true -> 10 <= reserve_sz c /\ reserve_sz c + hsz c + 2 <= tx c.
Proof. unfold cfg_ok, hsz. intros H. lia. Qed.

Lemma fresh_room_eq (c : cfg) : fresh_room c = limit c - hsz c - 2.
Proof. reflexivity. Qed.

Lemma hsz_pos (c : cfg) : 1 <= hsz c.
Proof. unfold hsz, hdr. rewrite tsum_cons. cbn [tsize]. lia. Qed.

(** * Elementary buffer operations *)

Lemma put_some (t : token) (s : st) :
  pos s + tsize t <= room s ->
  put t s = Some (mkSt (buf s ++ [t]) (room s) (rsv s) (fresh s) (seen s) (out s)).
Proof. intros H. unfold put, set_buf. destruct (N.leb_spec (pos s + tsize t) (room s)); [reflexivity | lia]. Qed.

Lemma put_none (t : token) (s : st) :
  room s < pos s + tsize t -> put t s = None.
Proof. intros H. unfold put. destruct (N.leb_spec (pos s + tsize t) (room s)); [lia | reflexivity]. Qed.

Lemma put_inv (t : token) (s s' : st) :
  put t s = Some s' ->
  pos s + tsize t <= room s /\
  s' = mkSt (buf s ++ [t]) (room s) (rsv s) (fresh s) (seen s) (out s).
Proof.
  unfold put, set_buf. destruct (N.leb_spec (pos s + tsize t) (room s)) as [H|H]; intros E; [|discriminate E].
  inversion E. split; [assumption | reflexivity].
Qed.

Lemma put_none_inv (t : token) (s : st) : put t s = None -> room s < pos s + tsize t.
Proof. unfold put. destruct (N.leb_spec (pos s + tsize t) (room s)) as [H|H]; intros E; [discriminate E | assumption]. Qed.

Lemma pos_put (b : list token) (t : token) r v f sn o :
  pos (mkSt (b ++ [t]) r v f sn o) = tsum b + tsize t.
Proof. unfold pos. cbn [buf]. rewrite tsum_app, tsum_cons, tsum_nil. lia. Qed.

Lemma release_some (c : cfg) (n : N) (s : st) :
  n <= rsv s -> room s + n <= tx c ->
  release c n s = Some (mkSt (buf s) (room s + n) (rsv s - n) (fresh s) (seen s) (out s)).
Proof.
  intros H1 H2. unfold release.
  destruct (N.leb_spec n (rsv s)); [|lia]. destruct (N.leb_spec (room s + n) (tx c)); [|lia]. reflexivity.
Qed.

Lemma start_reply_some (c : cfg) (s : st) :
  cfg_ok c = true ->
  start_reply c s = Some (mkSt (hdr c) (limit c) (reserve_sz c) (fresh s) (seen s) (out s)).
Proof.
  intros Hc. destruct (cfg_ok_facts c Hc) as [Hr Hh]. unfold start_reply.
  destruct (N.leb_spec (reserve_sz c) (tx c)); [|lia].
  unfold hsz, hdr in Hh. unfold hdr, limit.
  rewrite put_some by (unfold pos; cbn [buf room]; rewrite tsum_nil; cbn [tsize];
                       destruct (sub_w c); rewrite ?tsum_cons, ?tsum_nil in Hh; cbn [tsize] in Hh; lia).
  cbn [obind buf room rsv fresh seen out app].
  destruct (sub_w c) as [w|]; [|reflexivity].
  rewrite put_some by (unfold pos; cbn [buf room]; rewrite !tsum_cons, tsum_nil in *; cbn [tsize] in *; lia).
  reflexivity.
Qed.

(** * The invariant of an open reply *)

Definition opener (k : kind) : token := match k with KAttrs => TArrA | _ => TArrE end.

Definition desc_of (pre : option (list atom)) (k : kind) (l : list atom) (more : bool) : desc :=
  match k with KAttrs => mkDesc (Some l) None more | _ => mkDesc pre (Some l) more end.

Record OInv (c : cfg) (s : st) (ds : list desc) (pre : option (list atom)) (k : kind) (l : list atom)
  : Prop := mkOInv {
  oi_buf : buf s = hdr c ++ arr TArrA pre ++ opener k :: map TAtom l;
  oi_pre : k = KAttrs -> pre = None;
  oi_room : room s + rsv s = tx c;
  oi_rsv_lo : reserve_sz c <= rsv s + match k with KAttrs => 0 | _ => 3 end;
  oi_rsv_hi : rsv s <= reserve_sz c;
  oi_fresh : fresh s = hsz c + 2;
  oi_pos : pos s <= room s;
  oi_out : out s = map (render c) ds;
  oi_more : Forall (fun d => d_more d = true) ds;
  oi_sz : Forall (fun d => tsum (render c d) <= tx c) ds
}.

Lemma render_chunking (c : cfg) (pre : option (list atom)) (k : kind) (l : list atom) :
  k <> KDone -> (k = KAttrs -> pre = None) ->
  (hdr c ++ arr TArrA pre ++ opener k :: map TAtom l) ++ [TEnd; TMore; TRev; TEnd]
  = render c (desc_of pre k l true).
Proof.
  intros Hk Hp. unfold render, flags. destruct k; [| |congruence].
  - rewrite (Hp eq_refl). cbn [desc_of d_attrs d_events d_more arr opener app].
    repeat (rewrite <- app_assoc; cbn [app]). reflexivity.
  - cbn [desc_of d_attrs d_events d_more opener]. destruct pre as [lp|]; cbn [arr app];
      repeat (rewrite <- app_assoc; cbn [app]); reflexivity.
Qed.

(** sending a chunk while the array [k] is open *)
Lemma send_chunk (c : cfg) (s : st) ds pre k l :
  cfg_ok c = true -> k <> KDone -> OInv c s ds pre k l ->
  exists s', send c k s = Some s' /\ OInv c s' (ds ++ [desc_of pre k l true]) None k []
             /\ seen s' = seen s /\ pos s' = fresh s'.
Proof.
  intros Hc Hk I. destruct (cfg_ok_facts c Hc) as [Hr Hh]. destruct I.
  assert (Hlo : reserve_sz c <= rsv s + 3) by (destruct k; lia). clear oi_rsv_lo0.
  assert (Hbuf : buf s ++ [TEnd; TMore; TRev; TEnd] = render c (desc_of pre k l true)).
  { rewrite oi_buf0. apply render_chunking; assumption. }
  unfold send, end_reply.
  rewrite release_some by lia. cbn [obind].
  assert (Hp : pos s + 7 <= tx c) by lia.
  assert (E1 : (match k with
                | KAttrs | KEvents =>
                    do x <- put TEnd (mkSt (buf s) (room s + rsv s) (rsv s - rsv s) (fresh s) (seen s) (out s));
                    put TMore x
                | KDone => if suppress c then put TSuppress (mkSt (buf s) (room s + rsv s) (rsv s - rsv s) (fresh s) (seen s) (out s))
                           else Some (mkSt (buf s) (room s + rsv s) (rsv s - rsv s) (fresh s) (seen s) (out s))
                end) = Some (mkSt ((buf s ++ [TEnd]) ++ [TMore]) (room s + rsv s) (rsv s - rsv s) (fresh s) (seen s) (out s))).
  { destruct k; [| |congruence];
      (rewrite put_some by (unfold pos in *; cbn [buf room tsize]; lia); cbn [obind buf room rsv fresh seen out];
       rewrite put_some by (rewrite pos_put; unfold pos in *; cbn [room tsize]; lia); reflexivity). }
  rewrite E1. cbn [obind].
  rewrite put_some by (rewrite pos_put; unfold pos in *; cbn [room tsize]; rewrite tsum_app, tsum_cons, tsum_nil; cbn [tsize]; lia).
  cbn [obind buf room rsv fresh seen out].
  rewrite put_some by (rewrite pos_put; unfold pos in *; cbn [room tsize];
                       rewrite !tsum_app, !tsum_cons, !tsum_nil; cbn [tsize]; lia).
  cbn [obind buf room rsv fresh seen out].
  assert (Hfin : (((buf s ++ [TEnd]) ++ [TMore]) ++ [TRev]) ++ [TEnd] = render c (desc_of pre k l true)).
  { rewrite <- Hbuf. repeat (rewrite <- app_assoc; cbn [app]). reflexivity. }
  rewrite Hfin.
  assert (Hsz : tsum (render c (desc_of pre k l true)) <= tx c).
  { rewrite <- Hbuf. rewrite tsum_app, !tsum_cons, tsum_nil. cbn [tsize]. unfold pos in Hp. lia. }
  assert (E2 : forall op, tsize op = 2 ->
     (do s3 <- start_reply c (mkSt (render c (desc_of pre k l true)) (room s + rsv s) (rsv s - rsv s) (fresh s) (seen s)
                                   (out s ++ [render c (desc_of pre k l true)]));
      do s4 <- put op s3; Some (set_fresh s4 (pos s4)))
     = Some (mkSt (hdr c ++ [op]) (limit c) (reserve_sz c) (hsz c + 2) (seen s) (out s ++ [render c (desc_of pre k l true)]))).
  { intros op Hop. rewrite start_reply_some by assumption. cbn [obind fresh seen out].
    rewrite put_some by (unfold pos, limit, hsz in *; cbn [buf room]; lia).
    cbn [obind buf room rsv fresh seen out]. unfold set_fresh. cbn [buf room rsv fresh seen out].
    rewrite pos_put. unfold hsz. rewrite Hop. reflexivity. }
  destruct k; [| |congruence].
  - rewrite (E2 TArrA eq_refl). eexists. split; [reflexivity|]. split; [|split].
    + constructor; cbn [buf room rsv fresh seen out opener arr app map].
      * reflexivity.
      * reflexivity.
      * unfold limit. lia.
      * lia.
      * lia.
      * reflexivity.
      * rewrite pos_put. cbn [tsize]. unfold limit, hsz in *. lia.
      * rewrite oi_out0, map_app. reflexivity.
      * apply Forall_app. split; [assumption|]. constructor; [reflexivity | constructor].
      * apply Forall_app. split; [assumption|]. constructor; [assumption | constructor].
    + reflexivity.
    + rewrite pos_put. cbn [fresh tsize]. unfold hsz. reflexivity.
  - rewrite (E2 TArrE eq_refl). eexists. split; [reflexivity|]. split; [|split].
    + constructor; cbn [buf room rsv fresh seen out opener arr app map].
      * reflexivity.
      * discriminate.
      * unfold limit. lia.
      * lia.
      * lia.
      * reflexivity.
      * rewrite pos_put. cbn [tsize]. unfold limit, hsz in *. lia.
      * rewrite oi_out0, map_app. reflexivity.
      * apply Forall_app. split; [assumption|]. constructor; [reflexivity | constructor].
      * apply Forall_app. split; [assumption|]. constructor; [assumption | constructor].
    + reflexivity.
    + rewrite pos_put. cbn [fresh tsize]. unfold hsz. reflexivity.
Qed.

(** * What has been written so far, over all messages *)

Definition datoms (d : desc) : list atom := oatoms (d_attrs d).
Definition devents (d : desc) : list atom := oatoms (d_events d).

Definition totA (ds : list desc) (pre : option (list atom)) (k : kind) (l : list atom) : list atom :=
  flat_map datoms ds ++ match k with KAttrs => l | _ => oatoms pre end.
Definition totE (ds : list desc) (k : kind) (l : list atom) : list atom :=
  flat_map devents ds ++ match k with KAttrs => [] | _ => l end.

Definition onA (k : kind) (x : list atom) : list atom := match k with KAttrs => x | _ => [] end.
Definition onE (k : kind) (x : list atom) : list atom := match k with KAttrs => [] | _ => x end.

Lemma totA_send ds pre k l : totA (ds ++ [desc_of pre k l true]) None k [] = totA ds pre k l.
Proof.
  unfold totA. rewrite flat_map_app. cbn [flat_map]. rewrite app_nil_r, <- app_assoc.
  destruct k; cbn [desc_of datoms d_attrs oatoms]; rewrite ?app_nil_r; reflexivity.
Qed.

Lemma totE_send ds pre k l : totE (ds ++ [desc_of pre k l true]) k [] = totE ds k l.
Proof.
  unfold totE. rewrite flat_map_app. cbn [flat_map]. rewrite app_nil_r, <- app_assoc.
  destruct k; cbn [desc_of devents d_events oatoms]; rewrite ?app_nil_r; reflexivity.
Qed.

Lemma totA_push ds pre k l a : totA ds pre k (l ++ [a]) = totA ds pre k l ++ onA k [a].
Proof. unfold totA, onA. destruct k; rewrite ?app_assoc, ?app_nil_r; reflexivity. Qed.

Lemma totE_push ds k l a : totE ds k (l ++ [a]) = totE ds k l ++ onE k [a].
Proof. unfold totE, onE. destruct k; rewrite ?app_assoc, ?app_nil_r; reflexivity. Qed.

Definition Good (c : cfg) (s : st) (k : kind) (A E : list atom) : Prop :=
  exists ds pre l, OInv c s ds pre k l /\ totA ds pre k l = A /\ totE ds k l = E.

Lemma OInv_push (c : cfg) (s s' : st) ds pre k l a :
  OInv c s ds pre k l -> put (TAtom a) s = Some s' ->
  OInv c s' ds pre k (l ++ [a]) /\ seen s' = seen s.
Proof.
  intros I Hp. apply put_inv in Hp. destruct Hp as [Hle ->]. destruct I. split; [|reflexivity].
  constructor; cbn [buf room rsv fresh seen out]; try assumption.
  - rewrite oi_buf0, map_app. cbn [map]. repeat (rewrite <- app_assoc; cbn [app]). reflexivity.
  - rewrite pos_put. unfold pos in Hle. exact Hle.
Qed.

Lemma not_fits_sz (c : cfg) (s : st) ds pre k l sz :
  cfg_ok c = true -> OInv c s ds pre k l -> room s < pos s + sz -> pos s = fresh s ->
  (sz <=? fresh_room c) = false.
Proof.
  intros Hc I Hp Hf. destruct (cfg_ok_facts c Hc) as [Hr Hh]. destruct I.
  rewrite fresh_room_eq. unfold limit.
  destruct (N.leb_spec sz (tx c - reserve_sz c - hsz c - 2)); [lia | reflexivity].
Qed.

Lemma not_fits (c : cfg) (s : st) ds pre k l a :
  cfg_ok c = true -> OInv c s ds pre k l -> put (TAtom a) s = None -> pos s = fresh s ->
  atom_fits c a = false.
Proof.
  intros Hc I Hp Hf. apply put_none_inv in Hp. destruct (cfg_ok_facts c Hc) as [Hr Hh]. destruct I.
  unfold atom_fits. rewrite fresh_room_eq. unfold limit. cbn [tsize] in Hp.
  destruct (N.leb_spec (asize a) (tx c - reserve_sz c - hsz c - 2)); [lia | reflexivity].
Qed.

Lemma write_atom_fresh (n : nat) (c : cfg) (k : kind) (a : atom) (s : st) A E :
  cfg_ok c = true -> Good c s k A E -> pos s = fresh s ->
  match write_atom n c k a s with
  | Go s' => Good c s' k (A ++ onA k [a]) (E ++ onE k [a]) /\ seen s' = seen s
  | Halt o s' => Good c s' k A E /\ seen s' = seen s /\ o = OStatus /\ atom_fits c a = false
  end.
Proof.
  intros Hc (ds & pre & l & I & HA & HE) Hf.
  destruct n; cbn [write_atom]; destruct (put (TAtom a) s) as [s'|] eqn:Hp.
  1,3: destruct (OInv_push _ _ _ _ _ _ _ _ I Hp) as [I' Hs]; split; [|assumption];
       exists ds, pre, (l ++ [a]); split; [assumption|]; rewrite totA_push, totE_push, HA, HE; split; reflexivity.
  all: rewrite Hf, N.eqb_refl; split; [exists ds, pre, l; auto|]; split; [reflexivity|]; split; [reflexivity|];
       eapply not_fits; eassumption.
Qed.

(** why a run stopped before the end: an item that does not fit an empty message, the fuel of the
    model, or the peer *)
Definition can_refuse (c : cfg) : bool := match accept c with Some _ => true | None => false end.

Definition cause (c : cfg) (o : outcome) (n : nat) (fits : bool) : Prop :=
  (o = OStatus /\ fits = false) \/ (o = OFuel /\ n = O) \/ (o = OAbort /\ can_refuse c = true).

Lemma cause_weaken (c : cfg) (o : outcome) (n : nat) (f1 f2 : bool) :
  cause c o n f1 -> (f1 = false -> f2 = false) -> cause c o n f2.
Proof. intros [[Ho Hf]|[H|H]] Hw; [left; split; auto | right; left; exact H | right; right; exact H]. Qed.

Lemma refused_can (c : cfg) (s : st) : refused c s = true -> can_refuse c = true.
Proof. unfold refused, can_refuse. destruct (accept c); [reflexivity | discriminate]. Qed.

Lemma write_atom_spec (n : nat) (c : cfg) (k : kind) (a : atom) (s : st) A E :
  cfg_ok c = true -> k <> KDone -> Good c s k A E ->
  match write_atom n c k a s with
  | Go s' => Good c s' k (A ++ onA k [a]) (E ++ onE k [a]) /\ seen s' = seen s
  | Halt o s' => Good c s' k A E /\ seen s' = seen s /\ cause c o n (atom_fits c a)
  end.
Proof.
  intros Hc Hk G. pose proof G as (ds & pre & l & I & HA & HE).
  destruct n; cbn [write_atom]; destruct (put (TAtom a) s) as [s'|] eqn:Hp.
  1,3: destruct (OInv_push _ _ _ _ _ _ _ _ I Hp) as [I' Hs]; split; [|assumption];
       exists ds, pre, (l ++ [a]); split; [assumption|]; rewrite totA_push, totE_push, HA, HE; split; reflexivity.
  - destruct (N.eqb_spec (pos s) (fresh s)) as [Hf|Hf].
    + split; [assumption|]. split; [reflexivity|]. left. split; [reflexivity|]. eapply not_fits; eassumption.
    + split; [assumption|]. split; [reflexivity|]. right. left. split; reflexivity.
  - destruct (N.eqb_spec (pos s) (fresh s)) as [Hf|Hf].
    + split; [assumption|]. split; [reflexivity|]. left. split; [reflexivity|]. eapply not_fits; eassumption.
    + destruct (send_chunk c s ds pre k l Hc Hk I) as (s1 & Hs1 & I1 & Hseen & Hfresh). rewrite Hs1.
      assert (G1 : Good c s1 k A E).
      { exists (ds ++ [desc_of pre k l true]), None, []. split; [assumption|].
        rewrite totA_send, totE_send. split; assumption. }
      destruct (refused c s1) eqn:Hrf.
      { split; [assumption|]. split; [assumption|]. right. right. split; [reflexivity | eapply refused_can; eassumption]. }
      pose proof (write_atom_fresh n c k a s1 A E Hc G1 Hfresh) as H.
      destruct (write_atom n c k a s1) as [s2|o s2].
      * destruct H as [H1 H2]. split; [assumption | congruence].
      * destruct H as (H1 & H2 & H3 & H4). split; [assumption|]. split; [congruence|]. left. split; assumption.
Qed.

(** * Attribute phase *)


Lemma write_elems_spec (n : nat) (c : cfg) (p : path) (elems : list N) : forall (idx : N) (s : st) A E,
  cfg_ok c = true -> Good c s KAttrs A E ->
  match write_elems n c p idx elems s with
  | Go s' => Good c s' KAttrs (A ++ elem_atoms p idx elems) E /\ seen s' = seen s
  | Halt o s' => (exists A', Good c s' KAttrs A' E) /\ seen s' = seen s /\
                 cause c o n (forallb (fun sz => sz <=? fresh_room c) elems)
  end.
Proof.
  induction elems as [|sz rest IH]; intros idx s A E Hc G; cbn [write_elems elem_atoms].
  - rewrite app_nil_r. split; [assumption | reflexivity].
  - pose proof (write_atom_spec n c KAttrs (AElem p idx sz) s A E Hc ltac:(discriminate) G) as H.
    destruct (write_atom n c KAttrs (AElem p idx sz) s) as [s1|o s1]; cbn [rbind].
    + destruct H as [G1 Hs1]. cbn [onA onE] in G1. rewrite app_nil_r in G1.
      specialize (IH (idx + 1) s1 _ _ Hc G1).
      destruct (write_elems n c p (idx + 1) rest s1) as [s2|o s2].
      * destruct IH as [G2 Hs2]. split; [|congruence]. rewrite <- app_assoc in G2. exact G2.
      * destruct IH as (G2 & Hs2 & Hc2). split; [assumption|]. split; [congruence|].
        cbn [forallb]. apply (cause_weaken _ _ _ _ _ Hc2); intros Hf.
        rewrite Hf. apply andb_false_r.
    + destruct H as (G1 & Hs1 & Hc1). split; [exists A; assumption|]. split; [assumption|].
      cbn [forallb]. apply (cause_weaken _ _ _ _ _ Hc1); intros Hf.
      unfold atom_fits in Hf. cbn [asize] in Hf. rewrite Hf. reflexivity.
Qed.

Lemma probe_end_fresh (n : nat) (c : cfg) (sz : N) (s : st) A E :
  cfg_ok c = true -> Good c s KAttrs A E -> pos s = fresh s ->
  match probe_end n c sz s with
  | Go s' => Good c s' KAttrs A E /\ seen s' = seen s
  | Halt o s' => Good c s' KAttrs A E /\ seen s' = seen s /\ o = OStatus /\ (sz <=? fresh_room c) = false
  end.
Proof.
  intros Hc G Hf. pose proof G as (ds & pre & l & I & HA & HE).
  destruct n; cbn [probe_end]; destruct (N.leb_spec (pos s + sz) (room s)) as [Hle|Hgt].
  1,3: split; [assumption | reflexivity].
  all: rewrite Hf, N.eqb_refl; split; [assumption|]; split; [reflexivity|]; split; [reflexivity|];
       eapply not_fits_sz; eassumption.
Qed.

Lemma probe_end_spec (n : nat) (c : cfg) (sz : N) (s : st) A E :
  cfg_ok c = true -> Good c s KAttrs A E ->
  match probe_end n c sz s with
  | Go s' => Good c s' KAttrs A E /\ seen s' = seen s
  | Halt o s' => Good c s' KAttrs A E /\ seen s' = seen s /\ cause c o n (sz <=? fresh_room c)
  end.
Proof.
  intros Hc G. pose proof G as (ds & pre & l & I & HA & HE).
  destruct n; cbn [probe_end]; destruct (N.leb_spec (pos s + sz) (room s)) as [Hle|Hgt].
  1,3: split; [assumption | reflexivity].
  - destruct (N.eqb_spec (pos s) (fresh s)) as [Hf|Hf]; (split; [assumption|]); (split; [reflexivity|]).
    + left. split; [reflexivity|]. eapply not_fits_sz; eassumption.
    + right. left. split; reflexivity.
  - destruct (N.eqb_spec (pos s) (fresh s)) as [Hf|Hf].
    + split; [assumption|]. split; [reflexivity|]. left. split; [reflexivity|]. eapply not_fits_sz; eassumption.
    + destruct (send_chunk c s ds pre KAttrs l Hc ltac:(discriminate) I) as (s1 & Hs1 & I1 & Hseen & Hfresh).
      rewrite Hs1.
      assert (G1 : Good c s1 KAttrs A E).
      { exists (ds ++ [desc_of pre KAttrs l true]), None, []. split; [assumption|].
        rewrite totA_send, totE_send. split; assumption. }
      destruct (refused c s1) eqn:Hrf.
      { split; [assumption|]. split; [assumption|]. right. right. split; [reflexivity | eapply refused_can; eassumption]. }
      pose proof (probe_end_fresh n c sz s1 A E Hc G1 Hfresh) as H.
      destruct (probe_end n c sz s1) as [s2|o s2].
      * destruct H as [H1 H2]. split; [assumption | congruence].
      * destruct H as (H1 & H2 & H3 & H4). split; [assumption|]. split; [congruence|]. left. split; assumption.
Qed.

Lemma do_item_spec (n : nat) (c : cfg) (it : item) (s : st) A E :
  cfg_ok c = true -> Good c s KAttrs A E ->
  match do_item n c it s with
  | Go s' => (exists g, sent_as it g /\ Good c s' KAttrs (A ++ g) E) /\ seen s' = seen s
  | Halt o s' => (exists A', Good c s' KAttrs A' E) /\ seen s' = seen s /\ cause c o n (item_fits c it)
  end.
Proof.
  intros Hc G. destruct it as [a|p whole marker elems probe]; cbn [do_item].
  - pose proof (write_atom_spec n c KAttrs a s A E Hc ltac:(discriminate) G) as H.
    destruct (write_atom n c KAttrs a s) as [s1|o s1].
    + destruct H as [G1 Hs1]. cbn [onA onE] in G1. rewrite app_nil_r in G1.
      split; [|assumption]. exists [a]. split; [constructor | assumption].
    + destruct H as (G1 & Hs1 & Hc1). split; [exists A; assumption|]. split; [assumption|]. exact Hc1.
  - destruct (put (TAtom (AWhole p whole)) s) as [s1|] eqn:Hp.
    + destruct G as (ds & pre & l & I & HA & HE).
      destruct (OInv_push _ _ _ _ _ _ _ _ I Hp) as [I' Hs]. split; [|assumption].
      exists [AWhole p whole]. split; [constructor|].
      exists ds, pre, (l ++ [AWhole p whole]). split; [assumption|].
      rewrite totA_push, totE_push, HA, HE. cbn [onA onE]. rewrite app_nil_r. split; reflexivity.
    + pose proof (write_atom_spec n c KAttrs (AMarker p marker) s A E Hc ltac:(discriminate) G) as H.
      destruct (write_atom n c KAttrs (AMarker p marker) s) as [s1|o s1]; cbn [rbind].
      * destruct H as [G1 Hs1]. cbn [onA onE] in G1. rewrite app_nil_r in G1.
        pose proof (write_elems_spec n c p elems 0 s1 _ _ Hc G1) as H2.
        destruct (write_elems n c p 0 elems s1) as [s2|o s2]; cbn [rbind].
        -- destruct H2 as [G2 Hs2].
           pose proof (probe_end_spec n c probe s2 _ _ Hc G2) as H3.
           destruct (probe_end n c probe s2) as [s3|o s3].
           ++ destruct H3 as [G3 Hs3]. split; [|congruence].
              exists (AMarker p marker :: elem_atoms p 0 elems). split; [constructor|].
              rewrite <- app_assoc in G3. exact G3.
           ++ destruct H3 as (G3 & Hs3 & Hc3). split; [eexists; eassumption|]. split; [congruence|].
              cbn [item_fits]. apply (cause_weaken _ _ _ _ _ Hc3); intros Hf.
              rewrite Hf. apply andb_false_r.
        -- destruct H2 as (G2 & Hs2 & Hc2). split; [assumption|]. split; [congruence|].
           cbn [item_fits]. apply (cause_weaken _ _ _ _ _ Hc2); intros Hf.
           rewrite Hf. rewrite andb_false_r. reflexivity.
      * destruct H as (G1 & Hs1 & Hc1). split; [exists A; assumption|]. split; [assumption|].
        cbn [item_fits]. apply (cause_weaken _ _ _ _ _ Hc1); intros Hf.
        rewrite Hf. reflexivity.
Qed.

Lemma do_items_spec (n : nat) (c : cfg) (its : list item) : forall (s : st) A E,
  cfg_ok c = true -> Good c s KAttrs A E ->
  match do_items n c its s with
  | Go s' => (exists gs, Forall2 sent_as its gs /\ Good c s' KAttrs (A ++ concat gs) E) /\ seen s' = seen s
  | Halt o s' => (exists A', Good c s' KAttrs A' E) /\ seen s' = seen s /\
                 cause c o n (forallb (item_fits c) its)
  end.
Proof.
  induction its as [|it rest IH]; intros s A E Hc G; cbn [do_items].
  - split; [|reflexivity]. exists []. split; [constructor|]. cbn [concat]. rewrite app_nil_r. assumption.
  - pose proof (do_item_spec n c it s A E Hc G) as H.
    destruct (do_item n c it s) as [s1|o s1]; cbn [rbind].
    + destruct H as [(g & Hg & G1) Hs1]. specialize (IH s1 _ _ Hc G1).
      destruct (do_items n c rest s1) as [s2|o s2].
      * destruct IH as [(gs & Hgs & G2) Hs2]. split; [|congruence].
        exists (g :: gs). split; [constructor; assumption|]. cbn [concat]. rewrite app_assoc. exact G2.
      * destruct IH as (G2 & Hs2 & Hc2). split; [assumption|]. split; [congruence|].
        cbn [forallb]. apply (cause_weaken _ _ _ _ _ Hc2); intros Hf.
        rewrite Hf. apply andb_false_r.
    + destruct H as (G1 & Hs1 & Hc1). split; [assumption|]. split; [assumption|].
      cbn [forallb]. apply (cause_weaken _ _ _ _ _ Hc1); intros Hf.
      rewrite Hf. reflexivity.
Qed.

(** * A reply whose arrays are closed (between the phases, and before the final send) *)

Record CInv (c : cfg) (s : st) (ds : list desc) (pa pe : option (list atom)) (used : N) : Prop := mkCInv {
  ci_buf : buf s = hdr c ++ arr TArrA pa ++ arr TArrE pe;
  ci_room : room s + rsv s = tx c;
  ci_rsv_lo : reserve_sz c <= rsv s + used;
  ci_rsv_hi : rsv s <= reserve_sz c;
  ci_fresh : (pos s = fresh s -> pos s = hsz c) /\ (pos s <> fresh s -> fresh s = hsz c + 2);
  ci_pos : pos s <= room s;
  ci_out : out s = map (render c) ds;
  ci_more : Forall (fun d => d_more d = true) ds;
  ci_sz : Forall (fun d => tsum (render c d) <= tx c) ds
}.

Definition Closed (c : cfg) (s : st) (A E : list atom) (used : N) (noev : bool) : Prop :=
  exists ds pa pe, CInv c s ds pa pe used /\ flat_map datoms ds ++ oatoms pa = A
                   /\ flat_map devents ds ++ oatoms pe = E /\ (noev = true -> pe = None).

(** [release_reserve(1)], [end_container] of the open array *)
Lemma close_array (c : cfg) (s : st) (k : kind) A E :
  cfg_ok c = true -> k <> KDone -> Good c s k A E ->
  exists s', (do x <- release c 1 s; put TEnd x) = Some s' /\ seen s' = seen s /\
             Closed c s' A E (match k with KAttrs => 1 | _ => 4 end)
                    (match k with KAttrs => true | _ => false end).
Proof.
  intros Hc Hk (ds & pre & l & I & HA & HE). destruct (cfg_ok_facts c Hc) as [Hr Hh]. destruct I.
  assert (Hlo : reserve_sz c <= rsv s + 3) by (destruct k; lia).
  rewrite release_some by lia. cbn [obind].
  rewrite put_some by (unfold pos in *; cbn [buf room tsize]; lia).
  eexists. split; [reflexivity|]. split; [reflexivity|].
  assert (Hpos : pos s = hsz c + tsum (arr TArrA pre) + 2 + sum_with asize l).
  { unfold pos. rewrite oi_buf0, !tsum_app, tsum_cons, tsum_atoms. unfold hsz. destruct k; cbn [opener tsize]; lia. }
  destruct k; [| |congruence].
  - exists ds, (Some l), None. split; [|split; [|split]].
    + constructor; cbn [buf room rsv fresh seen out]; try assumption; try lia.
      * rewrite oi_buf0, (oi_pre0 eq_refl). cbn [arr opener app]. rewrite app_nil_r.
        repeat (rewrite <- app_assoc; cbn [app]). reflexivity.
      * rewrite pos_put. fold (pos s). rewrite oi_fresh0. cbn [tsize]. split; intros H; lia.
      * rewrite pos_put. fold (pos s). cbn [tsize]. lia.
    + rewrite <- HA. unfold totA. reflexivity.
    + rewrite <- HE. unfold totE. reflexivity.
    + reflexivity.
  - exists ds, pre, (Some l). split; [|split; [|split]].
    + constructor; cbn [buf room rsv fresh seen out]; try assumption; try lia.
      * rewrite oi_buf0. cbn [arr opener]. repeat (rewrite <- app_assoc; cbn [app]). reflexivity.
      * rewrite pos_put. fold (pos s). rewrite oi_fresh0. cbn [tsize]. split; intros H; lia.
      * rewrite pos_put. fold (pos s). cbn [tsize]. lia.
    + rewrite <- HA. unfold totA. reflexivity.
    + rewrite <- HE. unfold totE. reflexivity.
    + discriminate.
Qed.

(** the state right after [start_reply] in [respond] *)
Record Start (c : cfg) (s : st) : Prop := mkStart {
  st_buf : buf s = hdr c;
  st_room : room s = limit c;
  st_rsv : rsv s = reserve_sz c;
  st_fresh : fresh s = hsz c;
  st_out : out s = []
}.

Lemma start_closed (c : cfg) :
  cfg_ok c = true ->
  exists s0, start_reply c (init_st c) = Some s0 /\ seen s0 = ev_lo c /\
             Start c (set_fresh s0 (pos s0)).
Proof.
  intros Hc. rewrite start_reply_some by assumption.
  eexists. split; [reflexivity|]. split; [reflexivity|].
  unfold set_fresh. constructor; cbn [buf room rsv fresh seen out init_st]; reflexivity.
Qed.

Lemma Start_Closed (c : cfg) (s : st) : cfg_ok c = true -> Start c s -> Closed c s [] [] 1 true.
Proof.
  intros Hc []. destruct (cfg_ok_facts c Hc) as [Hr Hh].
  exists [], None, None. split; [|split; [|split]]; try reflexivity.
  assert (Hpos : pos s = hsz c) by (unfold pos, hsz; rewrite st_buf0; reflexivity).
  constructor; cbn [arr app map].
  - rewrite app_nil_r. assumption.
  - unfold limit in *. lia.
  - lia.
  - lia.
  - split; intros H; [assumption | congruence].
  - unfold limit in *. lia.
  - assumption.
  - constructor.
  - constructor.
Qed.

Lemma report_attributes_spec (n : nat) (c : cfg) (its : list item) (s : st) :
  cfg_ok c = true -> Start c s ->
  match report_attributes n c its s with
  | Go s' => seen s' = seen s /\
             exists A, Closed c s' A [] 1 true /\
               if has_attrs c then exists gs, Forall2 sent_as its gs /\ A = concat gs else A = []
  | Halt o s' => seen s' = seen s /\ (exists A, Good c s' KAttrs A []) /\
                 cause c o n (forallb (item_fits c) its)
  end.
Proof.
  intros Hc S. destruct (cfg_ok_facts c Hc) as [Hr Hh].
  unfold report_attributes. destruct (has_attrs c).
  2:{ split; [reflexivity|]. exists []. split; [|reflexivity]. apply Start_Closed; assumption. }
  destruct S.
  assert (Hpos : pos s = hsz c) by (unfold pos, hsz; rewrite st_buf0; reflexivity).
  rewrite put_some by (cbn [tsize]; unfold limit in *; lia). cbn [or_error rbind].
  match goal with |- context [do_items n c its ?s2] => set (s2' := s2) end.
  assert (G : Good c s2' KAttrs [] []).
  { exists [], None, []. split; [|split; reflexivity].
    subst s2'. unfold set_fresh. constructor; cbn [buf room rsv fresh seen out arr app map opener]; try lia.
    - rewrite st_buf0. reflexivity.
    - reflexivity.
    - unfold limit in *. lia.
    - rewrite pos_put. fold (pos s). cbn [tsize]. lia.
    - rewrite pos_put. fold (pos s). cbn [tsize]. unfold limit in *. lia.
    - assumption.
    - constructor.
    - constructor. }
  pose proof (do_items_spec n c its s2' [] [] Hc G) as H.
  assert (Hseen : seen s2' = seen s) by reflexivity.
  destruct (do_items n c its s2') as [s3|o s3]; cbn [rbind].
  - destruct H as [(gs & Hgs & G3) Hs3]. cbn [app] in G3.
    destruct (close_array c s3 KAttrs _ _ Hc ltac:(discriminate) G3) as (s4 & E4 & Hs4 & C4).
    rewrite E4. cbn [or_error]. split; [congruence|]. exists (concat gs). split; [assumption|].
    exists gs. split; [assumption | reflexivity].
  - destruct H as (G3 & Hs3 & Hc3). split; [congruence|]. split; assumption.
Qed.
