(** Facts about the event queue model (Model/C13Events.v): the readers' iteration
    order is ascending in the event number, evictions only delete, and therefore
    a report delivers exactly the retained events of its range. *)
From Coq Require Import ZifyN ZifyBool Sorted.
From RsM Require Import Model.C13Events.
Open Scope N_scope.

Arguments N.add : simpl never.
Arguments N.sub : simpl never.
Arguments N.max : simpl never.
Arguments N.modulo : simpl never.
Arguments N.ltb : simpl never.
Arguments N.leb : simpl never.
Arguments N.eqb : simpl never.

(** * subsequences *)
Inductive subseq {A} : list A -> list A -> Prop :=
| sub_nil : subseq [] []
| sub_skip : forall x l1 l2, subseq l1 l2 -> subseq l1 (x :: l2)
| sub_take : forall x l1 l2, subseq l1 l2 -> subseq (x :: l1) (x :: l2).

Lemma subseq_refl : forall {A} (l : list A), subseq l l.
Proof. induction l; constructor; assumption. Qed.

Lemma subseq_trans : forall {A} (a b c : list A), subseq a b -> subseq b c -> subseq a c.
Proof.
  intros A a b c H1 H2. revert a H1. induction H2 as [|x l1 l2 H IH|x l1 l2 H IH]; intros a H1.
  - exact H1.
  - apply sub_skip. apply IH. exact H1.
  - inversion H1 as [|y m1 m2 Hm|y m1 m2 Hm]; subst.
    + apply sub_skip. apply IH. exact Hm.
    + apply sub_take. apply IH. exact Hm.
Qed.

Lemma subseq_app : forall {A} (a a' b b' : list A), subseq a a' -> subseq b b' -> subseq (a ++ b) (a' ++ b').
Proof.
  intros A a a' b b' H1 H2. induction H1; cbn [app]; [exact H2|apply sub_skip; assumption|apply sub_take; assumption].
Qed.

Lemma subseq_In : forall {A} (a b : list A) x, subseq a b -> In x a -> In x b.
Proof.
  intros A a b x H. induction H; intros Hin; [exact Hin|right; auto|].
  destruct Hin as [E|Hin]; [left; exact E|right; auto].
Qed.

Lemma subseq_tail : forall {A} (x : A) l, subseq l (x :: l).
Proof. intros. apply sub_skip. apply subseq_refl. Qed.

Definition lt_ev (a b : ev) : Prop := v_num a < v_num b.

Lemma subseq_sorted : forall (a b : list ev), subseq a b -> StronglySorted lt_ev b -> StronglySorted lt_ev a.
Proof.
  intros a b H. induction H as [|x l1 l2 H IH|x l1 l2 H IH]; intros S.
  - constructor.
  - apply IH. inversion S; assumption.
  - inversion S as [|? ? S' F]; subst. constructor; [apply IH; exact S'|].
    apply Forall_forall. intros y Hy. rewrite Forall_forall in F. apply F. eapply subseq_In; eassumption.
Qed.

Lemma sorted_app_one : forall (l : list ev) (e : ev),
  StronglySorted lt_ev l -> (forall x, In x l -> v_num x < v_num e) -> StronglySorted lt_ev (l ++ [e]).
Proof.
  intros l e S H. induction l as [|h t IH]; cbn [app].
  - constructor; [constructor|constructor].
  - inversion S as [|? ? S' F]; subst. constructor.
    + apply IH; [exact S'|]. intros x Hx. apply H. right. exact Hx.
    + apply Forall_forall. intros y Hy. apply in_app_or in Hy. destruct Hy as [Hy|[E|[]]].
      * rewrite Forall_forall in F. apply F. exact Hy.
      * subst y. apply H. left. reflexivity.
Qed.

(** * evictions only delete, in order *)

Lemma room_crit_subseq : forall fuel cap len l, subseq (room_crit fuel cap len l) l.
Proof.
  induction fuel as [|f IH]; intros cap len l; cbn [room_crit]; [apply subseq_refl|].
  destruct (cap - used l <? len); [|apply subseq_refl].
  destruct l as [|h t]; [apply subseq_refl|]. apply sub_skip. apply IH.
Qed.

Lemma evict_info_facts : forall cap q,
  subseq (all_events (evict_info cap q)) (all_events q) /\ q_next (evict_info cap q) = q_next q.
Proof.
  intros cap q. unfold evict_info, all_events. destruct (q_info q) as [|e t] eqn:E.
  - rewrite E. split; [apply subseq_refl|reflexivity].
  - destruct (2 <=? v_prio e); cbn [q_crit q_info q_dbg q_next]; split; try reflexivity.
    + rewrite <- app_assoc. apply subseq_app; [apply room_crit_subseq|]. cbn [app]. apply subseq_refl.
    + apply subseq_app; [apply subseq_refl|]. cbn [app]. apply sub_skip. apply subseq_refl.
Qed.

Lemma room_info_facts : forall fuel cap len q,
  subseq (all_events (room_info fuel cap len q)) (all_events q) /\ q_next (room_info fuel cap len q) = q_next q.
Proof.
  induction fuel as [|f IH]; intros cap len q; cbn [room_info]; [split; [apply subseq_refl|reflexivity]|].
  destruct (cap - used (q_info q) <? len); [|split; [apply subseq_refl|reflexivity]].
  destruct (q_info q) as [|e t] eqn:E; [split; [apply subseq_refl|reflexivity]|].
  destruct (IH cap len (evict_info cap q)) as [I1 I2]. destruct (evict_info_facts cap q) as [E1 E2].
  split; [eapply subseq_trans; eassumption|congruence].
Qed.

Lemma evict_dbg_facts : forall cap q,
  subseq (all_events (evict_dbg cap q)) (all_events q) /\ q_next (evict_dbg cap q) = q_next q.
Proof.
  intros cap q. unfold evict_dbg. destruct (q_dbg q) as [|e t] eqn:E.
  - split; [apply subseq_refl|reflexivity].
  - destruct (1 <=? v_prio e); cbn [q_next]; split; try reflexivity.
    + destruct (room_info_facts (length (q_info q)) cap (v_len e) q) as [R1 _].
      (* the debug buffer is untouched by room_info *)
      assert (Hd : forall fuel q0, q_dbg (room_info fuel cap (v_len e) q0) = q_dbg q0).
      { induction fuel as [|f IHf]; intros q0; cbn [room_info]; [reflexivity|].
        destruct (cap - used (q_info q0) <? v_len e); [|reflexivity].
        destruct (q_info q0) eqn:E0; [reflexivity|]. rewrite IHf. unfold evict_info. rewrite E0.
        destruct (2 <=? v_prio e0); reflexivity. }
      unfold all_events in *. cbn [q_crit q_info q_dbg]. rewrite Hd, E in R1.
      set (q1 := room_info (length (q_info q)) cap (v_len e) q) in *.
      rewrite <- app_assoc. cbn [app].
      replace (q_crit q ++ q_info q ++ e :: t) with ((q_crit q ++ q_info q) ++ e :: t) in * by (rewrite <- app_assoc; reflexivity).
      replace (q_crit q1 ++ q_info q1 ++ e :: t) with ((q_crit q1 ++ q_info q1) ++ e :: t) in * by (rewrite <- app_assoc; reflexivity).
      rewrite E. rewrite (app_assoc (q_crit q) (q_info q) (e :: t)). exact R1.
    + unfold all_events. cbn [q_crit q_info q_dbg]. rewrite E.
      apply subseq_app; [apply subseq_refl|]. apply subseq_app; [apply subseq_refl|]. apply subseq_tail.
Qed.

Lemma room_dbg_facts : forall fuel cap len q,
  subseq (all_events (room_dbg fuel cap len q)) (all_events q) /\ q_next (room_dbg fuel cap len q) = q_next q.
Proof.
  induction fuel as [|f IH]; intros cap len q; cbn [room_dbg]; [split; [apply subseq_refl|reflexivity]|].
  destruct (cap - used (q_dbg q) <? len); [|split; [apply subseq_refl|reflexivity]].
  destruct (q_dbg q) as [|e t] eqn:E; [split; [apply subseq_refl|reflexivity]|].
  destruct (IH cap len (evict_dbg cap q)) as [I1 I2]. destruct (evict_dbg_facts cap q) as [E1 E2].
  split; [eapply subseq_trans; eassumption|congruence].
Qed.

(** * the invariant: ascending numbers, all below the next number *)

Record QInv (q : evq) : Prop := mkQInv {
  qi_sorted : StronglySorted lt_ev (all_events q);
  qi_below : forall e, In e (all_events q) -> v_num e < q_next q;
  qi_pos : 1 <= q_next q
}.

Lemma next_num_next : forall n, n + 2 < two64 -> next_num n = n + 1.
Proof. intros n H. unfold next_num, two64 in *. rewrite N.mod_small by lia. lia. Qed.

Lemma push_inv : forall cap prio len q, QInv q -> q_next q + 2 < two64 -> QInv (fst (push cap prio len q)).
Proof.
  intros cap prio len q [S B P] Hb. unfold push.
  destruct (cap <? len); cbn [fst].
  - destruct (room_dbg_facts (length (q_dbg q)) cap cap q) as [R1 R2].
    set (q1 := room_dbg (length (q_dbg q)) cap cap q) in *.
    constructor; unfold all_events in *; cbn [q_crit q_info q_dbg q_next]; rewrite ?next_num_next by exact Hb.
    + eapply subseq_sorted; eassumption.
    + intros e He. pose proof (B e (subseq_In _ _ _ R1 He)). lia.
    + lia.
  - destruct (room_dbg_facts (length (q_dbg q)) cap len q) as [R1 R2].
    set (q1 := room_dbg (length (q_dbg q)) cap len q) in *.
    assert (Hall : all_events (mkQ (q_crit q1) (q_info q1) (q_dbg q1 ++ [mkEv (q_next q) prio len]) (next_num (q_next q)))
                   = all_events q1 ++ [mkEv (q_next q) prio len]).
    { unfold all_events. cbn [q_crit q_info q_dbg]. rewrite !app_assoc. reflexivity. }
    constructor; rewrite ?Hall; cbn [q_next]; rewrite ?next_num_next by exact Hb.
    + apply sorted_app_one; [eapply subseq_sorted; eassumption|].
      intros x Hx. cbn [v_num]. apply B. eapply subseq_In; eassumption.
    + intros e He. apply in_app_or in He. destruct He as [He|[E|[]]].
      * pose proof (B e (subseq_In _ _ _ R1 He)). lia.
      * subst e. cbn [v_num]. lia.
    + lia.
Qed.

Lemma push_next : forall cap prio len q, q_next q + 2 < two64 -> q_next (fst (push cap prio len q)) = q_next q + 1.
Proof.
  intros cap prio len q H. unfold push. destruct (cap <? len); cbn [fst q_next]; apply next_num_next; exact H.
Qed.

Lemma init_qinv : QInv evq_init.
Proof. constructor; cbn; [constructor|intros e []|lia]. Qed.

Lemma push_all_inv : forall cap l q, QInv q -> q_next q + N.of_nat (length l) + 2 < two64 -> QInv (push_all cap q l).
Proof.
  intros cap l. induction l as [|[prio len] t IH]; intros q I Hb; [exact I|].
  cbn [push_all]. cbn [length] in Hb. apply IH.
  - apply push_inv; [exact I|lia].
  - rewrite push_next by lia. lia.
Qed.

(** * the reader *)

Lemma read_range_spec : forall l seen upto,
  StronglySorted lt_ev l ->
  forall n, In n (read_range seen upto l) <-> (exists e, In e l /\ v_num e = n /\ seen < n /\ n <= upto).
Proof.
  induction l as [|e t IH]; intros seen upto S n; cbn [read_range].
  - split; [intros []|intros [e [[] _]]].
  - inversion S as [|? ? S' F]; subst. rewrite Forall_forall in F.
    destruct ((seen <? v_num e) && (v_num e <=? upto)) eqn:C.
    + apply andb_true_iff in C. destruct C as [C1 C2]. cbn [In]. rewrite (IH (v_num e) upto S' n). split.
      * intros [E|[x [Hx [E [H1 H2]]]]].
        -- exists e. split; [left; reflexivity|]. lia.
        -- exists x. split; [right; exact Hx|]. lia.
      * intros [x [[E|Hx] [En [H1 H2]]]].
        -- subst x. left. exact En.
        -- right. exists x. split; [exact Hx|]. pose proof (F x Hx) as Hlt. unfold lt_ev in Hlt. lia.
    + rewrite (IH seen upto S' n). split.
      * intros [x [Hx H]]. exists x. split; [right; exact Hx|exact H].
      * intros [x [[E|Hx] [En [H1 H2]]]].
        -- subst x. exfalso. apply andb_false_iff in C. lia.
        -- exists x. split; [exact Hx|]. lia.
Qed.

Lemma retained_spec : forall q n, retained q n = true <-> exists e, In e (all_events q) /\ v_num e = n.
Proof.
  intros q n. unfold retained. rewrite existsb_exists. split; intros [e [H1 H2]]; exists e; split; try assumption; lia.
Qed.

(** a report delivers exactly the retained events of its range *)
Theorem report_delivers_retained : forall cap l seen upto n,
  N.of_nat (length l) + 3 < two64 ->
  let q := push_all cap evq_init l in
  In n (report_events q seen upto) <-> (retained q n = true /\ seen < n /\ n <= upto).
Proof.
  intros cap l seen upto n Hb q.
  assert (I : QInv q) by (apply push_all_inv; [apply init_qinv|cbn; lia]).
  unfold report_events. rewrite (read_range_spec _ seen upto (qi_sorted q I) n). rewrite retained_spec. split.
  - intros [e [H1 [H2 [H3 H4]]]]. split; [exists e; split; assumption|]. split; assumption.
  - intros [[e [H1 H2]] [H3 H4]]. exists e. repeat split; assumption.
Qed.

(** outside the class "evicted while above the subscriber's watermark", an event is delivered by the
    next report whose range reaches it *)
Theorem delivered_unless_evicted : forall cap l seen n,
  N.of_nat (length l) + 3 < two64 ->
  let q := push_all cap evq_init l in
  seen < n -> n < q_next q -> evicted_undelivered q seen n = false ->
  In n (report_events q seen (q_next q - 1)).
Proof.
  intros cap l seen n Hb q H1 H2 H3. apply report_delivers_retained; [exact Hb|].
  unfold evicted_undelivered in H3. fold q. split; [|lia].
  destruct (retained q n); [reflexivity|]. exfalso.
  apply andb_false_iff in H3. destruct H3 as [H3|H3]; [|discriminate].
  apply andb_false_iff in H3. lia.
Qed.

(** the class is inhabited: capacity 64, three info events of 30 bytes - the first one is gone
    (it fell out of the debug buffer into the info buffer, and out of that one too) *)
Definition evict_witness : list (N * N) := [(1, 30); (1, 30); (1, 30); (1, 30); (1, 30); (1, 30); (1, 30)].
Lemma evicted_inhabited :
  let q := push_all 64 evq_init evict_witness in
  evicted_undelivered q 0 1 = true /\ report_events q 0 7 = [4; 5; 6; 7].
Proof. vm_compute. split; reflexivity. Qed.

(** nothing is lost while everything fits the debug buffer *)
Lemma room_dbg_noop : forall fuel cap len q, len <= cap - used (q_dbg q) -> room_dbg fuel cap len q = q.
Proof. intros fuel cap len q H. destruct fuel; cbn [room_dbg]; [reflexivity|]. replace (cap - used (q_dbg q) <? len) with false by lia. reflexivity. Qed.
