(** The path expander on a concrete path: the first miss on the way down
    (endpoint, cluster, element) or the first failing check decides the
    status; nothing is skipped. *)
From RsM Require Import Lib.MachInt Model.Acl Model.AclSpec Model.Im Model.ImSpec.
From RsM Require Import Proofs.ImLists Proofs.ImFacts Proofs.ImExpand.
From Coq Require Import ZifyN ZifyBool.
Open Scope N_scope.

Arguments N.eqb : simpl never.

(** results up to the cursor indices they carry *)
Inductive shape := ShFound (e c l : N) | ShNone | ShErr (s : status) | ShEnd.

Definition lshape (e c : N) (r : lres) : shape :=
  match r with LFound id _ => ShFound e c id | LNone _ => ShNone | LErr s => ShErr s | LEnd _ => ShEnd end.
Definition cshape (e : N) (r : cres) : shape :=
  match r with CFound c id _ _ => ShFound e c id | CNone _ _ => ShNone | CErr s => ShErr s | CEnd _ => ShEnd end.
Definition eshape (r : eres) : shape :=
  match r with EFound e c id _ _ => ShFound e c id | ENone _ _ _ => ShNone | EErr s => ShErr s | EEnd => ShEnd end.
Definition nshape (r : nres) : shape :=
  match r with NFound e c id _ => ShFound e c id | NExhausted => ShNone | NStatus s => ShErr s end.

Section Concrete.
Variables (env : xenv) (fabs : list fabric) (e0 c0 l0 : N).
Let path := mkPath (Some e0) (Some c0) (Some l0).

Definition conc_leaf (e : endpoint) (c : cluster) (ls : list leaf) : shape :=
  match find (fun l => l_id l =? l0) ls with
  | None => ShEnd
  | Some _ =>
      if xe_flt env (ep_id e) (c_id c) l0 then
        match leaf_check env fabs e c l0 with
        | None => ShFound (ep_id e) (c_id c) l0
        | Some s => ShErr s
        end
      else ShNone
  end.

Definition conc_cluster (e : endpoint) (cs : list cluster) : shape :=
  match find (fun c => c_id c =? c0) cs with
  | None => ShEnd
  | Some c =>
      match conc_leaf e c (leaves (xe_op env) c) with
      | ShEnd => ShErr (if is_invoke (xe_op env) then SUnsupportedCommand else SUnsupportedAttribute)
      | s => s
      end
  end.

Definition conc_node (es : list endpoint) : shape :=
  match find (eok env fabs path) es with
  | None => ShEnd
  | Some e =>
      match conc_cluster e (ep_clusters e) with
      | ShEnd => ShErr SUnsupportedCluster
      | s => s
      end
  end.

Lemma leaves_loop_conc (e : endpoint) (c : cluster) (rest : list leaf) (li : nat) :
  lshape (ep_id e) (c_id c) (leaves_loop env fabs path None e c rest li) = conc_leaf e c rest.
Proof.
  revert li. unfold conc_leaf. induction rest as [|l rest IH]; intros li; [reflexivity|].
  cbn [leaves_loop find]. cbn [path p_leaf opt_matches is_wildcard p_ep p_cl is_some andb negb last_is].
  rewrite (N.eqb_sym l0 (l_id l)).
  destruct (N.eqb_spec (l_id l) l0) as [->|Hne]; [|apply IH].
  destruct (xe_flt env (ep_id e) (c_id c) l0); [|reflexivity].
  destruct (leaf_check env fabs e c l0); reflexivity.
Qed.

Lemma clusters_loop_conc (e : endpoint) (rest : list cluster) (ci : nat) :
  cshape (ep_id e) (clusters_loop env fabs path None e rest ci 0) = conc_cluster e rest.
Proof.
  revert ci. unfold conc_cluster. induction rest as [|c rest IH]; intros ci; [reflexivity|].
  cbn [clusters_loop find]. cbn [path p_cl opt_matches is_wildcard p_ep p_leaf is_some andb negb skipn].
  rewrite (N.eqb_sym c0 (c_id c)).
  destruct (N.eqb_spec (c_id c) c0) as [Heq|Hne]; [|apply IH].
  pose proof (leaves_loop_conc e c (leaves (xe_op env) c) 0) as Hl. fold path.
  destruct (leaves_loop env fabs path None e c (leaves (xe_op env) c) 0); cbn [lshape] in Hl;
    rewrite <- Hl; reflexivity.
Qed.

Lemma endpoints_loop_conc (rest : list endpoint) :
  eshape (endpoints_loop env fabs path None rest 0 0) = conc_node rest.
Proof.
  unfold conc_node. induction rest as [|e rest IH]; [reflexivity|].
  cbn [endpoints_loop find]. fold (eok env fabs path e).
  destruct (eok env fabs path e); [|exact IH].
  cbn [skipn].
  pose proof (clusters_loop_conc e (ep_clusters e) 0) as Hc.
  destruct (clusters_loop env fabs path None e (ep_clusters e) 0 0); cbn [cshape] in Hc;
    rewrite <- Hc; reflexivity.
Qed.

(** the restrictions on write / invoke wildcards never fire on a concrete path *)
Lemma next_for_path_conc (nd : node) :
  nshape (next_for_path env nd fabs (fresh None) path) =
  match conc_node nd with
  | ShEnd => ShErr SUnsupportedEndpoint
  | s => s
  end.
Proof.
  unfold next_for_path. cbn [path p_cl p_leaf is_some negb andb].
  rewrite !andb_false_r. cbn [fresh resume x_anchor x_last x_ci x_li skipn].
  pose proof (endpoints_loop_conc nd) as He. fold path.
  destruct (endpoints_loop env fabs path None nd 0 0); cbn [eshape] in He; rewrite <- He; reflexivity.
Qed.

Lemma next_for_path_found_last (nd : node) (st : xstate) (p : gpath) (e c l : N) (st' : xstate) :
  next_for_path env nd fabs st p = NFound e c l st' -> x_last st' = Some (e, c, l).
Proof.
  unfold next_for_path.
  destruct (negb (is_read (xe_op env)) && negb (is_some (p_cl p))); [discriminate|].
  destruct (negb (is_read (xe_op env)) && negb (is_some (p_leaf p))); [discriminate|].
  destruct (resume nd st) as [idx st1].
  destruct (endpoints_loop env fabs p (x_last st1) (skipn idx nd) (x_ci st1) (x_li st1)); try discriminate.
  - intros H. injection H as <- <- <- <-. reflexivity.
  - destruct (negb (is_wildcard p)); discriminate.
Qed.

End Concrete.
