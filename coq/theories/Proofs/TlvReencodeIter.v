(** Re-encoding a written element through [ToTLV for TLVElement::tlv_iter]
    (the iterator encoder) reproduces its bytes. *)
From Coq Require Import NArith ZArith List Bool Lia ZifyN ZifyBool.
From RsM Require Import Model.Tlv Model.TlvSpec Proofs.TlvFacts Proofs.TlvWriter Proofs.TlvRoundtrip
  Proofs.TlvIter Proofs.TlvDeriveFacts.
Import ListNotations.
Open Scope N_scope.

Fixpoint tlv_stream_bytes (l : list (tag * tval)) : bytes :=
  match l with
  | [] => []
  | (t, v) :: r => w_tlv t v ++ tlv_stream_bytes r
  end.

Lemma tlv_stream_bytes_app a b : tlv_stream_bytes (a ++ b) = tlv_stream_bytes a ++ tlv_stream_bytes b.
Proof.
  induction a as [|[t v] a IH]; [reflexivity|]. cbn [app tlv_stream_bytes]. rewrite IH, app_assoc. reflexivity.
Qed.

Lemma tlvs_bytes_inl l : tlvs_bytes (map inl l) = ROk (tlv_stream_bytes l).
Proof.
  induction l as [|[t v] l IH]; [reflexivity|]. cbn [map tlvs_bytes tlv_stream_bytes]. rewrite IH. reflexivity.
Qed.

Lemma w_tlv_cont t k : w_tlv t (VCont k) = w_start t k.
Proof. unfold w_tlv, w_start. cbn [vtype_of_val val_payload]. apply app_nil_r. Qed.

Lemma w_tlv_end : w_tlv TgAnon VEnd = w_end.
Proof. reflexivity. Qed.

(** the flat [TLV] stream of a tree, written item by item, is its encoding *)
Lemma flatten_bytes x : tlv_stream_bytes (flatten x) = encode x.
Proof.
  induction x as [t v|t k cs IH] using tree_ind2.
  - cbn [flatten tlv_stream_bytes encode]. apply app_nil_r.
  - cbn [flatten tlv_stream_bytes encode]. rewrite tlv_stream_bytes_app, w_tlv_cont.
    cbn [tlv_stream_bytes]. rewrite w_tlv_end, app_nil_r. f_equal. f_equal.
    induction IH as [|c r Hc Hr IHr]; [reflexivity|].
    cbn [flat_map]. rewrite tlv_stream_bytes_app, Hc, IHr. reflexivity.
Qed.

Lemma flatten_list_bytes cs : tlv_stream_bytes (flat_map flatten cs) = encode_list cs.
Proof.
  unfold encode_list. induction cs as [|c r IH]; [reflexivity|].
  cbn [flat_map]. rewrite tlv_stream_bytes_app, flatten_bytes, IH. reflexivity.
Qed.

Theorem reencode_iter_reproduces x rest :
  wf_tree x -> blen (encode x ++ rest) < two63 ->
  el_reencode_iter (root_tag x) (encode x ++ rest) = ROk (encode x).
Proof.
  intros Hw Hb. unfold el_reencode_iter.
  assert (Hnil : is_nil (encode x ++ rest) = false).
  { destruct (encode_raw x) as (p & ->). reflexivity. }
  rewrite Hnil. destruct x as [t v|t k cs].
  - destruct Hw as [Ht Hv]. cbn [encode root_tag]. rewrite leaf_el_value by assumption. cbn [rbind].
    unfold el_container. rewrite leaf_control. cbn [rbind snd].
    destruct v as [| |[]| | | | | | |]; try reflexivity; contradiction.
  - apply wf_node in Hw as [Ht Hcs]. cbn [root_tag].
    rewrite node_el_value by assumption. cbn [rbind].
    assert (Hcont : el_container (encode (Node t k cs) ++ rest) = ROk (encode_list cs ++ w_end ++ rest)).
    { unfold el_container. rewrite encode_node, start_control. cbn [rbind snd]. apply start_next_enter. }
    rewrite Hcont. rewrite tlv_iter_flatten; [|assumption|rewrite encode_node, blen_app in Hb; lia].
    cbn [rbind]. rewrite tlvs_bytes_inl. cbn [rbind]. rewrite flatten_list_bytes, w_tlv_cont.
    cbn [encode]. reflexivity.
Qed.
