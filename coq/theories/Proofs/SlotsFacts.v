(** List and table facts for the C20 model (Model/Slots.v). *)
From RsM Require Import Lib.MachInt Model.Slots.
From Coq Require Import Permutation ZifyN ZifyBool Arith.
Open Scope N_scope.

Arguments N.add : simpl never.
Arguments N.ltb : simpl never.
Arguments N.eqb : simpl never.

(** * find_idx / upd_nth / swap_remove *)

Lemma find_idx_some : forall {A} (p : A -> bool) l i,
  find_idx p l = Some i -> exists x, nth_error l i = Some x /\ p x = true.
Proof.
  intros A p l; induction l as [|a l IH]; intros i Hf; cbn in Hf; [discriminate|].
  destruct (p a) eqn:Hp.
  - inversion Hf; subst. exists a; auto.
  - destruct (find_idx p l) as [j|] eqn:Hj; cbn in Hf; [|discriminate].
    inversion Hf; subst. destruct (IH j eq_refl) as [x [Hx Hpx]]. exists x; auto.
Qed.

Lemma find_idx_none : forall {A} (p : A -> bool) l,
  find_idx p l = None -> forall x, In x l -> p x = false.
Proof.
  intros A p l; induction l as [|a l IH]; intros Hf x Hin; [inversion Hin|].
  cbn in Hf. destruct (p a) eqn:Hp; [discriminate|].
  destruct (find_idx p l) eqn:Hj; cbn in Hf; [discriminate|].
  destruct Hin as [->|Hin]; auto.
Qed.

Lemma find_idx_exists : forall {A} (p : A -> bool) l x,
  In x l -> p x = true -> exists i, find_idx p l = Some i.
Proof.
  intros A p l x Hin Hp. destruct (find_idx p l) as [i|] eqn:Hf; [eauto|].
  rewrite (find_idx_none p l Hf x Hin) in Hp. discriminate.
Qed.

Lemma find_idx_first : forall {A} (p : A -> bool) l i,
  find_idx p l = Some i -> forall j y, (j < i)%nat -> nth_error l j = Some y -> p y = false.
Proof.
  intros A p l; induction l as [|a l IH]; intros i Hf j y Hlt Hn; cbn in Hf; [discriminate|].
  destruct (p a) eqn:Hp.
  - inversion Hf; subst. inversion Hlt.
  - destruct (find_idx p l) as [k|] eqn:Hk; cbn in Hf; [|discriminate].
    inversion Hf; subst. destruct j as [|j]; cbn in Hn.
    + inversion Hn; subst; auto.
    + eapply IH; eauto. apply Nat.succ_lt_mono; exact Hlt.
Qed.

Lemma find_find_idx : forall {A} (p : A -> bool) l,
  find p l = match find_idx p l with Some i => nth_error l i | None => None end.
Proof.
  intros A p l; induction l as [|a l IH]; cbn; auto.
  destruct (p a); auto. rewrite IH. destruct (find_idx p l); auto.
Qed.

Lemma nth_error_split_perm : forall {A} (l : list A) i x,
  nth_error l i = Some x -> Permutation l (x :: firstn i l ++ skipn (S i) l).
Proof.
  intros A l; induction l as [|a l IH]; intros i x Hn; destruct i; cbn in *; try discriminate.
  - inversion Hn; subst. apply Permutation_refl.
  - specialize (IH i x Hn).
    eapply Permutation_trans; [apply perm_skip; exact IH|]. apply perm_swap.
Qed.

Lemma upd_nth_perm : forall {A} (f : A -> A) (l : list A) i x,
  nth_error l i = Some x -> Permutation (upd_nth i f l) (f x :: firstn i l ++ skipn (S i) l).
Proof.
  intros A f l; induction l as [|a l IH]; intros i x Hn; destruct i; cbn in *; try discriminate.
  - inversion Hn; subst. apply Permutation_refl.
  - specialize (IH i x Hn).
    eapply Permutation_trans; [apply perm_skip; exact IH|]. apply perm_swap.
Qed.

Lemma upd_nth_none : forall {A} (f : A -> A) (l : list A) i,
  nth_error l i = None -> upd_nth i f l = l.
Proof.
  intros A f l; induction l as [|a l IH]; intros i Hn; destruct i; cbn in *; try discriminate; auto.
  rewrite IH; auto.
Qed.

Lemma upd_nth_length : forall {A} (f : A -> A) (l : list A) i, length (upd_nth i f l) = length l.
Proof. intros A f l; induction l as [|a l IH]; intros [|i]; cbn; auto. Qed.

Lemma upd_nth_nth_same : forall {A} (f : A -> A) (l : list A) i x,
  nth_error l i = Some x -> nth_error (upd_nth i f l) i = Some (f x).
Proof.
  intros A f l; induction l as [|a l IH]; intros [|i] x Hn; cbn in *; try discriminate.
  - inversion Hn; auto.
  - auto.
Qed.

Lemma upd_nth_nth_other : forall {A} (f : A -> A) (l : list A) i j,
  i <> j -> nth_error (upd_nth i f l) j = nth_error l j.
Proof.
  intros A f l; induction l as [|a l IH]; intros [|i] [|j] Hne; cbn; auto.
  - congruence.
Qed.

Lemma upd_nth_app_at : forall {A} (f : A -> A) (l1 l2 : list A) x,
  upd_nth (length l1) f (l1 ++ x :: l2) = l1 ++ f x :: l2.
Proof. intros A f l1; induction l1 as [|a l1 IH]; intros; cbn; auto. rewrite IH; auto. Qed.

Lemma swap_remove_perm : forall {A} (l : list A) i x,
  nth_error l i = Some x -> Permutation (swap_remove i l) (firstn i l ++ skipn (S i) l).
Proof.
  intros A l i x Hn. unfold swap_remove. rewrite Hn.
  destruct (nth_error_split l i Hn) as [l1 [l2 [Hl Hlen]]]. subst l i.
  rewrite firstn_app, firstn_all, Nat.sub_diag. cbn [firstn]. rewrite app_nil_r.
  replace (skipn (S (length l1)) (l1 ++ x :: l2)) with l2.
  2:{ replace (S (length l1)) with (length (l1 ++ [x])) by (rewrite app_length; cbn; lia).
      replace (l1 ++ x :: l2) with ((l1 ++ [x]) ++ l2) by (rewrite <- app_assoc; auto).
      rewrite skipn_app, skipn_all, Nat.sub_diag; cbn; auto. }
  destruct l2 as [|b l2'] using rev_ind.
  - rewrite rev_app_distr. cbn [rev app].
    rewrite app_length. cbn [length]. replace (length l1 + 1)%nat with (S (length l1)) by lia.
    rewrite Nat.eqb_refl. rewrite removelast_last. rewrite app_nil_r. apply Permutation_refl.
  - clear IHl2'.
    replace (l1 ++ x :: l2' ++ [b]) with ((l1 ++ x :: l2') ++ [b]) by (rewrite <- app_assoc; auto).
    rewrite rev_app_distr. cbn [rev app].
    rewrite removelast_last.
    match goal with |- context [Nat.eqb ?a ?b] => destruct (Nat.eqb a b) eqn:He end.
    + apply Nat.eqb_eq in He. rewrite !app_length in He. cbn [length] in He. lia.
    + rewrite upd_nth_app_at.
      apply Permutation_app_head. apply Permutation_cons_append.
Qed.

Lemma swap_remove_none : forall {A} (l : list A) i, nth_error l i = None -> swap_remove i l = l.
Proof. intros A l i Hn. unfold swap_remove. rewrite Hn. reflexivity. Qed.

(** decomposition of a list at an index, up to permutation *)
Lemma decomp_at : forall {A} (l : list A) i x,
  nth_error l i = Some x ->
  exists rest, Permutation l (x :: rest) /\
               Permutation (swap_remove i l) rest /\
               forall f, Permutation (upd_nth i f l) (f x :: rest).
Proof.
  intros A l i x Hn. exists (firstn i l ++ skipn (S i) l). split; [|split].
  - apply nth_error_split_perm; auto.
  - eapply swap_remove_perm; eauto.
  - intros f. apply upd_nth_perm; auto.
Qed.

(** * Identifiers *)

Definition ids (t : tbl) : list N := map s_id (t_sess t).
Definition hids (s : st) : list N := map h_id (hs s).

Lemma NoDup_map_perm_unique : forall (l : list session) x rest,
  Permutation l (x :: rest) -> NoDup (map s_id l) ->
  forall y, In y rest -> s_id y <> s_id x.
Proof.
  intros l x rest Hp Hnd y Hin Heq.
  apply (Permutation_map s_id) in Hp. apply (Permutation_NoDup Hp) in Hnd.
  cbn in Hnd. inversion Hnd as [|? ? Hni _]; subst. apply Hni. rewrite <- Heq. apply in_map; auto.
Qed.

(** The table at an identifier: the session found, and the rest. *)
Lemma t_find_decomp : forall id t i,
  t_find id t = Some i ->
  exists x rest, nth_error (t_sess t) i = Some x /\ s_id x = id /\
    Permutation (t_sess t) (x :: rest) /\
    Permutation (swap_remove i (t_sess t)) rest /\
    forall f, Permutation (upd_nth i f (t_sess t)) (f x :: rest).
Proof.
  intros id t i Hf. unfold t_find in Hf.
  destruct (find_idx_some _ _ _ Hf) as [x [Hn Hp]]. unfold has_id in Hp. apply N.eqb_eq in Hp.
  destruct (decomp_at _ _ _ Hn) as [rest [H1 [H2 H3]]].
  exists x, rest. auto.
Qed.

Lemma t_find_none : forall id t, t_find id t = None -> ~ In id (ids t).
Proof.
  intros id t Hf Hin. unfold ids in Hin. apply in_map_iff in Hin. destruct Hin as [x [Hx Hin]].
  unfold t_find in Hf. pose proof (find_idx_none _ _ Hf x Hin) as Hp. unfold has_id in Hp.
  apply N.eqb_neq in Hp. auto.
Qed.

Lemma t_find_in : forall id t, In id (ids t) -> exists i, t_find id t = Some i.
Proof.
  intros id t Hin. destruct (t_find id t) eqn:Hf; [eauto|]. exfalso. eapply t_find_none; eauto.
Qed.

Lemma t_lookup_find : forall id t,
  t_lookup id t = match t_find id t with Some i => nth_error (t_sess t) i | None => None end.
Proof. intros. unfold t_lookup, t_find. apply find_find_idx. Qed.

Lemma t_lookup_some : forall id t x, t_lookup id t = Some x -> In x (t_sess t) /\ s_id x = id.
Proof.
  intros id t x Hl. unfold t_lookup in Hl. apply find_some in Hl. destruct Hl as [Hin Hp].
  unfold has_id in Hp. apply N.eqb_eq in Hp. auto.
Qed.

Lemma t_lookup_in : forall id t x,
  NoDup (ids t) -> In x (t_sess t) -> s_id x = id -> t_lookup id t = Some x.
Proof.
  intros id t x Hnd Hin Hid. rewrite t_lookup_find.
  destruct (t_find id t) as [i|] eqn:Hf.
  - destruct (t_find_decomp _ _ _ Hf) as [y [rest [Hn [Hy [Hp _]]]]].
    rewrite Hn. f_equal.
    pose proof (Permutation_in _ Hp Hin) as Hin'. destruct Hin' as [->|Hin']; auto.
    exfalso. eapply (NoDup_map_perm_unique _ _ _ Hp Hnd x Hin'). congruence.
  - exfalso. eapply t_find_none; eauto. unfold ids. subst id. apply in_map; auto.
Qed.

(** * purge *)

Lemma purge_sub : forall fuel p l, exists gone, Permutation l (gone ++ purge fuel p l).
Proof.
  induction fuel as [|f IH]; intros p l; cbn.
  - exists []. apply Permutation_refl.
  - destruct (find_idx p l) as [i|] eqn:Hf.
    + destruct (find_idx_some _ _ _ Hf) as [x [Hn _]].
      destruct (decomp_at _ _ _ Hn) as [rest [H1 [H2 _]]].
      destruct (IH p (swap_remove i l)) as [gone Hg].
      exists (x :: gone). cbn. eapply Permutation_trans; [exact H1|]. apply perm_skip.
      eapply Permutation_trans; [apply Permutation_sym; exact H2|]. exact Hg.
    + exists []. apply Permutation_refl.
Qed.

Lemma purge_complete : forall fuel p l,
  (length l <= fuel)%nat -> forall x, In x (purge fuel p l) -> p x = false.
Proof.
  induction fuel as [|f IH]; intros p l Hlen x Hin; cbn in Hin.
  - destruct l; [inversion Hin | cbn in Hlen; lia].
  - destruct (find_idx p l) as [i|] eqn:Hf.
    + destruct (find_idx_some _ _ _ Hf) as [y [Hn _]].
      destruct (decomp_at _ _ _ Hn) as [rest [H1 [H2 _]]].
      eapply IH; [|exact Hin].
      apply Permutation_length in H1. apply Permutation_length in H2. cbn in H1. lia.
    + eapply find_idx_none; eauto.
Qed.

(** purge keeps everything that does not satisfy [p] *)
Lemma purge_keeps : forall fuel p l x, In x l -> p x = false -> In x (purge fuel p l).
Proof.
  induction fuel as [|f IH]; intros p l x Hin Hp; cbn; auto.
  destruct (find_idx p l) as [i|] eqn:Hf; auto.
  destruct (find_idx_some _ _ _ Hf) as [y [Hn Hpy]].
  destruct (decomp_at _ _ _ Hn) as [rest [H1 [H2 _]]].
  apply IH; auto. apply (Permutation_in _ (Permutation_sym H2)).
  pose proof (Permutation_in _ H1 Hin) as Hin'. destruct Hin' as [->|]; auto. congruence.
Qed.
