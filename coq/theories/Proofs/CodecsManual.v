(** Verhoeff check digit and the manual pairing code. *)
From RsM Require Import Lib.MachInt Model.Headers Model.Codecs
  Proofs.HeadersFacts Proofs.CodecsBase38.
From Coq Require Import ZifyN ZifyBool.
Open Scope N_scope.

Arguments N.add : simpl never.
Arguments N.mul : simpl never.
Arguments N.pow : simpl never.
Arguments N.div : simpl never.
Arguments N.modulo : simpl never.
Arguments N.sub : simpl never.
Arguments N.ltb : simpl never.
Arguments N.leb : simpl never.
Arguments N.eqb : simpl never.

Ltac dm_lia := zify; Z.div_mod_to_equations; lia.

(** * Finite facts about the tables, by enumeration *)

Lemma all2 (n1 n2 : nat) (f : N -> N -> bool) :
  forallb (fun a => forallb (f a) (nrange n2)) (nrange n1) = true ->
  forall a b, a < N.of_nat n1 -> b < N.of_nat n2 -> f a b = true.
Proof.
  intros H a b Ha Hb.
  pose proof (forall_lt_by_compute n1 _ H a Ha) as H1. cbv beta in H1.
  exact (forall_lt_by_compute n2 _ H1 b Hb).
Qed.

Lemma all3 (n1 n2 n3 : nat) (f : N -> N -> N -> bool) :
  forallb (fun a => forallb (fun b => forallb (f a b) (nrange n3)) (nrange n2)) (nrange n1) = true ->
  forall a b c, a < N.of_nat n1 -> b < N.of_nat n2 -> c < N.of_nat n3 -> f a b c = true.
Proof.
  intros H a b c Ha Hb Hc.
  pose proof (forall_lt_by_compute n1 _ H a Ha) as H1. cbv beta in H1.
  exact (all2 n2 n3 _ H1 b c Hb Hc).
Qed.

Lemma all4 (n1 n2 n3 n4 : nat) (f : N -> N -> N -> N -> bool) :
  forallb (fun a => forallb (fun b => forallb (fun c => forallb (f a b c) (nrange n4))
     (nrange n3)) (nrange n2)) (nrange n1) = true ->
  forall a b c d, a < N.of_nat n1 -> b < N.of_nat n2 -> c < N.of_nat n3 -> d < N.of_nat n4 ->
  f a b c d = true.
Proof.
  intros H a b c d Ha Hb Hc Hd.
  pose proof (forall_lt_by_compute n1 _ H a Ha) as H1. cbv beta in H1.
  exact (all3 n2 n3 n4 _ H1 b c d Hb Hc Hd).
Qed.

Lemma vh_p_mod (i d : N) : vh_p i d = vh_p (i mod 8) d.
Proof. unfold vh_p. rewrite N.mod_mod by discriminate. reflexivity. Qed.

Lemma vh_d_range (c x : N) : c < 10 -> x < 10 -> vh_d c x < 10.
Proof.
  intros Hc Hx. apply N.ltb_lt.
  revert c x Hc Hx. apply (all2 10 10 (fun c x => vh_d c x <? 10)). vm_compute. reflexivity.
Qed.

Lemma vh_p_range (i d : N) : d < 10 -> vh_p i d < 10.
Proof.
  intro Hd. rewrite vh_p_mod. assert (Hi : i mod 8 < 8) by (apply N.mod_lt; discriminate).
  apply N.ltb_lt. revert Hi Hd. generalize (i mod 8) as j. intros j Hj Hd. revert j d Hj Hd.
  apply (all2 8 10 (fun j d => vh_p j d <? 10)). vm_compute. reflexivity.
Qed.

Lemma vh_inv_range (c : N) : c < 10 -> vh_inv c < 10.
Proof.
  intro Hc. apply N.ltb_lt. revert c Hc.
  apply (forall_lt_by_compute 10 (fun c => vh_inv c <? 10)). vm_compute. reflexivity.
Qed.

Lemma vh_d_inj_r (c x y : N) : c < 10 -> x < 10 -> y < 10 -> vh_d c x = vh_d c y -> x = y.
Proof.
  intros Hc Hx Hy He.
  assert (H : (negb (vh_d c x =? vh_d c y) || (x =? y)) = true).
  { clear He. revert c x y Hc Hx Hy.
    apply (all3 10 10 10 (fun c x y => negb (vh_d c x =? vh_d c y) || (x =? y))).
    vm_compute. reflexivity. }
  rewrite He, N.eqb_refl in H. cbn [negb orb] in H. apply N.eqb_eq. exact H.
Qed.

Lemma vh_d_inj_l (c c' x : N) : c < 10 -> c' < 10 -> x < 10 -> vh_d c x = vh_d c' x -> c = c'.
Proof.
  intros Hc Hc' Hx He.
  assert (H : (negb (vh_d c x =? vh_d c' x) || (c =? c')) = true).
  { clear He. revert c c' x Hc Hc' Hx.
    apply (all3 10 10 10 (fun c c' x => negb (vh_d c x =? vh_d c' x) || (c =? c'))).
    vm_compute. reflexivity. }
  rewrite He, N.eqb_refl in H. cbn [negb orb] in H. apply N.eqb_eq. exact H.
Qed.

Lemma vh_p_inj (i x y : N) : x < 10 -> y < 10 -> vh_p i x = vh_p i y -> x = y.
Proof.
  intros Hx Hy. rewrite (vh_p_mod i x), (vh_p_mod i y).
  assert (Hi : i mod 8 < 8) by (apply N.mod_lt; discriminate).
  revert Hi. generalize (i mod 8) as j. intros j Hj He.
  assert (H : (negb (vh_p j x =? vh_p j y) || (x =? y)) = true).
  { clear He. revert j x y Hj Hx Hy.
    apply (all3 8 10 10 (fun j x y => negb (vh_p j x =? vh_p j y) || (x =? y))).
    vm_compute. reflexivity. }
  rewrite He, N.eqb_refl in H. cbn [negb orb] in H. apply N.eqb_eq. exact H.
Qed.

(** adjacent transposition: 8 positions x 10 states x 10 x 10 digits *)
Lemma vh_transpose (i c a b : N) : c < 10 -> a < 10 -> b < 10 -> a <> b ->
  vh_d (vh_d c (vh_p i a)) (vh_p (i + 1) b) <> vh_d (vh_d c (vh_p i b)) (vh_p (i + 1) a).
Proof.
  intros Hc Ha Hb Hab.
  rewrite (vh_p_mod i a), (vh_p_mod i b), (vh_p_mod (i + 1) a), (vh_p_mod (i + 1) b).
  rewrite <- (N.add_mod_idemp_l i 1 8) by discriminate.
  assert (Hi : i mod 8 < 8) by (apply N.mod_lt; discriminate).
  revert Hi. generalize (i mod 8) as j. intros j Hj.
  rewrite <- !vh_p_mod.
  assert (H : ((a =? b) || negb (vh_d (vh_d c (vh_p j a)) (vh_p (j + 1) b) =?
                                  vh_d (vh_d c (vh_p j b)) (vh_p (j + 1) a))) = true).
  { clear Hab. revert j c a b Hj Hc Ha Hb.
    apply (all4 8 10 10 10 (fun j c a b => (a =? b) ||
       negb (vh_d (vh_d c (vh_p j a)) (vh_p (j + 1) b) =?
             vh_d (vh_d c (vh_p j b)) (vh_p (j + 1) a)))).
    vm_compute. reflexivity. }
  intro He. rewrite He, N.eqb_refl in H. cbn [negb] in H. rewrite orb_false_r in H.
  apply N.eqb_eq in H. contradiction.
Qed.

Lemma vh_d_assoc (a b c : N) : a < 10 -> b < 10 -> c < 10 ->
  vh_d (vh_d a b) c = vh_d a (vh_d b c).
Proof.
  intros Ha Hb Hc. apply N.eqb_eq. revert a b c Ha Hb Hc.
  apply (all3 10 10 10 (fun a b c => vh_d (vh_d a b) c =? vh_d a (vh_d b c))).
  vm_compute. reflexivity.
Qed.

Lemma vh_d_0_l (x : N) : x < 10 -> vh_d 0 x = x.
Proof.
  intro Hx. apply N.eqb_eq. revert x Hx.
  apply (forall_lt_by_compute 10 (fun x => vh_d 0 x =? x)). vm_compute. reflexivity.
Qed.

Lemma vh_d_inv_l (x : N) : x < 10 -> vh_d (vh_inv x) x = 0.
Proof.
  intro Hx. apply N.eqb_eq. revert x Hx.
  apply (forall_lt_by_compute 10 (fun x => vh_d (vh_inv x) x =? 0)). vm_compute. reflexivity.
Qed.

Lemma vh_p_0 (d : N) : d < 10 -> vh_p 0 d = d.
Proof.
  intro Hd. apply N.eqb_eq. revert d Hd.
  apply (forall_lt_by_compute 10 (fun d => vh_p 0 d =? d)). vm_compute. reflexivity.
Qed.

(** * The fold over a digit string *)

Definition digits (l : list N) : Prop := Forall (fun d => d < 10) l.

Lemma digits_forallb (l : list N) : forallb is_digit l = true <-> digits l.
Proof.
  unfold digits, is_digit. rewrite forallb_forall, Forall_forall.
  split; intros H x Hx; specialize (H x Hx); lia.
Qed.

Lemma digits_app (a b : list N) : digits (a ++ b) <-> digits a /\ digits b.
Proof. apply Forall_app. Qed.

Lemma digits_rev (l : list N) : digits l -> digits (rev l).
Proof. unfold digits. rewrite !Forall_forall. intros H x Hx. apply H, in_rev, Hx. Qed.

Lemma vh_fold_range (r : list N) (i c : N) : digits r -> c < 10 -> vh_fold r i c < 10.
Proof.
  intro Hr. revert i c. induction Hr as [|d t Hd Ht IH]; intros i c Hc; cbn [vh_fold].
  - exact Hc.
  - apply IH. apply vh_d_range; [exact Hc|apply vh_p_range; exact Hd].
Qed.

Lemma vh_fold_inj (r : list N) (i c c' : N) :
  digits r -> c < 10 -> c' < 10 -> c <> c' -> vh_fold r i c <> vh_fold r i c'.
Proof.
  intro Hr. revert i c c'. induction Hr as [|d t Hd Ht IH]; intros i c c' Hc Hc' Hne; cbn [vh_fold].
  - exact Hne.
  - apply IH.
    + apply vh_d_range; [exact Hc|apply vh_p_range; exact Hd].
    + apply vh_d_range; [exact Hc'|apply vh_p_range; exact Hd].
    + intro He. apply Hne. eapply vh_d_inj_l; [exact Hc|exact Hc'| |exact He].
      apply vh_p_range; exact Hd.
Qed.

Lemma vh_fold_subst (r1 r2 : list N) (a b i c : N) :
  digits r1 -> digits r2 -> a < 10 -> b < 10 -> a <> b -> c < 10 ->
  vh_fold (r1 ++ a :: r2) i c <> vh_fold (r1 ++ b :: r2) i c.
Proof.
  intros H1 H2 Ha Hb Hab. revert i c.
  induction H1 as [|d t Hd Ht IH]; intros i c Hc; cbn [app vh_fold].
  - apply vh_fold_inj; [exact H2| | |].
    + apply vh_d_range; [exact Hc|apply vh_p_range; exact Ha].
    + apply vh_d_range; [exact Hc|apply vh_p_range; exact Hb].
    + intro He. apply vh_d_inj_r in He; [|exact Hc|apply vh_p_range; exact Ha|apply vh_p_range; exact Hb].
      apply vh_p_inj in He; [contradiction|exact Ha|exact Hb].
  - apply IH. apply vh_d_range; [exact Hc|apply vh_p_range; exact Hd].
Qed.

Lemma vh_fold_transp (r1 r2 : list N) (a b i c : N) :
  digits r1 -> digits r2 -> a < 10 -> b < 10 -> a <> b -> c < 10 ->
  vh_fold (r1 ++ a :: b :: r2) i c <> vh_fold (r1 ++ b :: a :: r2) i c.
Proof.
  intros H1 H2 Ha Hb Hab. revert i c.
  induction H1 as [|d t Hd Ht IH]; intros i c Hc; cbn [app vh_fold].
  - intro He.
    destruct (N.eq_dec (vh_d (vh_d c (vh_p i a)) (vh_p (i + 1) b))
                       (vh_d (vh_d c (vh_p i b)) (vh_p (i + 1) a))) as [Heq|Hne].
    + exact (vh_transpose i c a b Hc Ha Hb Hab Heq).
    + revert He. apply vh_fold_inj; [exact H2| | |exact Hne];
        repeat (first [apply vh_d_range | apply vh_p_range]); assumption.
  - apply IH. apply vh_d_range; [exact Hc|apply vh_p_range; exact Hd].
Qed.

(** the fold is a product in the group with table D *)
Lemma vh_fold_mul (r : list N) (i c : N) :
  digits r -> c < 10 -> vh_fold r i c = vh_d c (vh_fold r i 0).
Proof.
  intro Hr. revert i c. induction Hr as [|d t Hd Ht IH]; intros i c Hc; cbn [vh_fold].
  - symmetry.
    assert (H : (vh_d c 0 =? c) = true).
    { revert c Hc. apply (forall_lt_by_compute 10 (fun c => vh_d c 0 =? c)). vm_compute. reflexivity. }
    apply N.eqb_eq. exact H.
  - pose proof (vh_p_range i d Hd) as Hp.
    rewrite IH by (apply vh_d_range; assumption).
    rewrite (IH (i + 1) (vh_d 0 (vh_p i d))) by (apply vh_d_range; [lia|assumption]).
    rewrite vh_d_0_l by assumption.
    apply vh_d_assoc; [assumption|assumption|].
    apply vh_fold_range; [exact Ht|lia].
Qed.

(** * Check digit theorems *)

Lemma rev_mid (l1 l2 : list N) (a : N) : rev (l1 ++ a :: l2) = rev l2 ++ a :: rev l1.
Proof. rewrite rev_app_distr. cbn [rev]. rewrite <- app_assoc. reflexivity. Qed.

Lemma rev_mid2 (l1 l2 : list N) (a b : N) :
  rev (l1 ++ a :: b :: l2) = rev l2 ++ b :: a :: rev l1.
Proof. rewrite rev_app_distr. cbn [rev]. rewrite <- !app_assoc. reflexivity. Qed.

Lemma vh_calc_range (ds : list N) : digits ds -> vh_calc ds < 10.
Proof.
  intro H. unfold vh_calc. apply vh_inv_range, vh_fold_range; [apply digits_rev, H|lia].
Qed.

Lemma vh_validate_calc (ds : list N) :
  digits ds -> vh_validate (ds ++ [vh_calc ds]) = true.
Proof.
  intro H. pose proof (vh_calc_range ds H) as Hk.
  unfold vh_validate. apply andb_true_intro. split.
  - apply digits_forallb. apply digits_app. split; [exact H|]. constructor; [exact Hk|constructor].
  - apply N.eqb_eq. rewrite rev_app_distr. cbn [rev app vh_fold].
    rewrite vh_p_0 by exact Hk. rewrite vh_d_0_l by exact Hk.
    change (0 + 1) with 1.
    rewrite vh_fold_mul by (try apply digits_rev; assumption).
    unfold vh_calc. apply vh_d_inv_l. apply vh_fold_range; [apply digits_rev, H|lia].
Qed.

Lemma vh_validate_digits (ds : list N) : vh_validate ds = true -> digits ds.
Proof.
  unfold vh_validate. intro H. apply andb_prop in H as [H _]. apply digits_forallb. exact H.
Qed.

(** every single-digit substitution is detected, whatever the length *)
Lemma vh_detects_substitution (l1 l2 : list N) (a b : N) :
  vh_validate (l1 ++ a :: l2) = true -> a <> b -> vh_validate (l1 ++ b :: l2) = false.
Proof.
  intros Hv Hab. pose proof (vh_validate_digits _ Hv) as Hd.
  apply digits_app in Hd as [Hd1 Hd2]. inversion Hd2 as [|? ? Ha Hd2']; subst.
  unfold vh_validate in *. apply andb_prop in Hv as [_ Hv]. apply N.eqb_eq in Hv.
  destruct (forallb is_digit (l1 ++ b :: l2)) eqn:Hdb; [|reflexivity].
  apply digits_forallb, digits_app in Hdb as [_ Hdb]. inversion Hdb as [|? ? Hb _]; subst.
  cbn [andb]. apply N.eqb_neq. rewrite rev_mid in *.
  intro He.
  assert (Heq : vh_fold (rev l2 ++ a :: rev l1) 0 0 = vh_fold (rev l2 ++ b :: rev l1) 0 0)
    by (rewrite Hv, He; reflexivity).
  revert Heq. apply vh_fold_subst; try assumption; try lia; apply digits_rev; assumption.
Qed.

(** every transposition of two adjacent different digits is detected *)
Lemma vh_detects_transposition (l1 l2 : list N) (a b : N) :
  vh_validate (l1 ++ a :: b :: l2) = true -> a <> b ->
  vh_validate (l1 ++ b :: a :: l2) = false.
Proof.
  intros Hv Hab. pose proof (vh_validate_digits _ Hv) as Hd.
  apply digits_app in Hd as [Hd1 Hd2]. inversion Hd2 as [|? ? Ha Hd2']; subst.
  inversion Hd2' as [|? ? Hb Hd2'']; subst.
  unfold vh_validate in *. apply andb_prop in Hv as [_ Hv]. apply N.eqb_eq in Hv.
  destruct (forallb is_digit (l1 ++ b :: a :: l2)); [|reflexivity].
  cbn [andb]. apply N.eqb_neq. rewrite rev_mid2 in *.
  intro He.
  assert (Heq : vh_fold (rev l2 ++ b :: a :: rev l1) 0 0 = vh_fold (rev l2 ++ a :: b :: rev l1) 0 0)
    by (rewrite Hv, He; reflexivity).
  revert Heq. apply vh_fold_transp; try assumption; try lia; apply digits_rev; assumption.
Qed.

(** * Decimal groups *)

Lemma dec_digits_length (n : nat) (v : N) : length (dec_digits n v) = n.
Proof.
  revert v. induction n as [|n IH]; intro v; cbn [dec_digits]; [reflexivity|].
  rewrite app_length, IH. cbn [length]. lia.
Qed.

Lemma dec_digits_digits (n : nat) (v : N) : digits (dec_digits n v).
Proof.
  revert v. induction n as [|n IH]; intro v; cbn [dec_digits]; [constructor|].
  apply digits_app. split; [apply IH|]. constructor; [|constructor].
  apply N.mod_lt. discriminate.
Qed.

Lemma pow10_succ (n : nat) : 10 ^ N.of_nat (S n) = 10 * 10 ^ N.of_nat n.
Proof. rewrite Nat2N.inj_succ, N.pow_succ_r'. reflexivity. Qed.

Lemma fold_dec_digits (n : nat) (v acc : N) :
  fold_left (fun a d => a * 10 + d) (dec_digits n v) acc =
  acc * 10 ^ N.of_nat n + v mod 10 ^ N.of_nat n.
Proof.
  revert v acc. induction n as [|n IH]; intros v acc.
  - cbn [dec_digits fold_left]. change (10 ^ N.of_nat 0) with 1. rewrite N.mod_1_r. lia.
  - cbn [dec_digits]. rewrite fold_left_app, IH. cbn [fold_left].
    rewrite pow10_succ.
    assert (Hp : 10 ^ N.of_nat n <> 0) by (apply N.pow_nonzero; discriminate).
    rewrite (N.mod_mul_r v 10 (10 ^ N.of_nat n)) by (try discriminate; exact Hp).
    lia.
Qed.

Lemma dec_val_dec_digits (n : nat) (v : N) :
  v < 10 ^ N.of_nat n -> dec_val (dec_digits n v) = v.
Proof.
  intro H. unfold dec_val. rewrite fold_dec_digits, N.mod_small by exact H. lia.
Qed.

(** * The manual pairing code *)

Lemma manual_strip_digits (ds acc : list N) :
  digits ds -> (length acc + length ds <= 21)%nat ->
  manual_strip (map digit_char ds) acc = Ok (acc ++ ds).
Proof.
  intro Hd. revert acc. induction Hd as [|d t Hd Ht IH]; intros acc Hl.
  - cbn [map manual_strip]. rewrite app_nil_r. reflexivity.
  - cbn [map manual_strip length] in *. change (digit_char d) with (48 + d).
    replace ((48 + d =? 45) || (48 + d =? 32)) with false by lia.
    replace ((48 <=? 48 + d) && (48 + d <=? 57)) with true by lia.
    replace (Nat.ltb (length acc) 21) with true by (symmetry; apply Nat.ltb_lt; lia).
    replace (48 + d - 48) with d by lia.
    rewrite IH by (rewrite app_length; cbn [length]; lia).
    rewrite <- app_assoc. reflexivity.
Qed.

Lemma slice_at (pre x post : list N) (off len : nat) :
  length pre = off -> length x = len -> slice (pre ++ x ++ post) off len = x.
Proof.
  intros <- <-. unfold slice. rewrite skipn_len_app, firstn_len_app. reflexivity.
Qed.

Lemma slice_at0 (x post : list N) (len : nat) :
  length x = len -> slice (x ++ post) 0 len = x.
Proof. intros <-. unfold slice. cbn [skipn]. apply firstn_len_app. Qed.

Definition MAX_PASS : N := 134217728.     (* 2^27 *)

Lemma parse_digits_short (d1 g2 g3 : N) (ds : list N) :
  d1 < 4 -> g2 < 65536 -> g3 < 8192 ->
  ds = dec_digits 1 d1 ++ dec_digits 5 g2 ++ dec_digits 4 g3 ->
  manual_parse_digits (ds ++ [vh_calc ds]) =
  Ok (mkManual false (d1 mod 4 * 4 + g2 / 16384 mod 4) (g3 * 16384 + g2 mod 16384) 0 0).
Proof.
  intros H1 H2 H3 Eds.
  assert (Hds : digits ds).
  { subst ds. apply digits_app; split; [apply dec_digits_digits|].
    apply digits_app; split; apply dec_digits_digits. }
  assert (Hlen : length (ds ++ [vh_calc ds]) = 11%nat).
  { subst ds. rewrite !app_length, !dec_digits_length. reflexivity. }
  unfold manual_parse_digits. rewrite Hlen. cbn [Nat.eqb bind].
  rewrite vh_validate_calc by exact Hds. cbn [negb].
  generalize (vh_calc ds) as k. intro k. subst ds. rewrite <- !app_assoc.
  rewrite slice_at0 by apply dec_digits_length.
  rewrite (dec_val_dec_digits 1 d1) by (change (10 ^ N.of_nat 1) with 10; lia).
  replace (7 <? d1) with false by lia.
  replace (d1 / 4 =? 1) with false by dm_lia.
  cbn [Bool.eqb negb].
  rewrite (slice_at (dec_digits 1 d1) (dec_digits 5 g2)) by apply dec_digits_length.
  rewrite (dec_val_dec_digits 5 g2) by (change (10 ^ N.of_nat 5) with 100000; lia).
  replace (65535 <? g2) with false by lia.
  rewrite (app_assoc (dec_digits 1 d1) (dec_digits 5 g2)).
  rewrite (slice_at (dec_digits 1 d1 ++ dec_digits 5 g2) (dec_digits 4 g3))
    by (rewrite ?app_length, ?dec_digits_length; reflexivity).
  rewrite (dec_val_dec_digits 4 g3) by (change (10 ^ N.of_nat 4) with 10000; lia).
  replace (8191 <? g3) with false by lia.
  reflexivity.
Qed.

Lemma parse_digits_long (d1 g2 g3 vid pid : N) (ds : list N) :
  4 <= d1 < 8 -> g2 < 65536 -> g3 < 8192 -> vid < 65536 -> pid < 65536 ->
  ds = dec_digits 1 d1 ++ dec_digits 5 g2 ++ dec_digits 4 g3 ++
       dec_digits 5 vid ++ dec_digits 5 pid ->
  manual_parse_digits (ds ++ [vh_calc ds]) =
  Ok (mkManual true (d1 mod 4 * 4 + g2 / 16384 mod 4) (g3 * 16384 + g2 mod 16384) vid pid).
Proof.
  intros H1 H2 H3 Hv Hpi Eds.
  assert (Hds : digits ds).
  { subst ds. apply digits_app; split; [apply dec_digits_digits|].
    apply digits_app; split; [apply dec_digits_digits|].
    apply digits_app; split; [apply dec_digits_digits|].
    apply digits_app; split; apply dec_digits_digits. }
  assert (Hlen : length (ds ++ [vh_calc ds]) = 21%nat).
  { subst ds. rewrite !app_length, !dec_digits_length. reflexivity. }
  unfold manual_parse_digits. rewrite Hlen. cbn [Nat.eqb bind].
  rewrite vh_validate_calc by exact Hds. cbn [negb].
  generalize (vh_calc ds) as k. intro k. subst ds. rewrite <- !app_assoc.
  rewrite slice_at0 by apply dec_digits_length.
  rewrite (dec_val_dec_digits 1 d1) by (change (10 ^ N.of_nat 1) with 10; lia).
  replace (7 <? d1) with false by lia.
  replace (d1 / 4 =? 1) with true by dm_lia.
  cbn [Bool.eqb negb].
  rewrite (slice_at (dec_digits 1 d1) (dec_digits 5 g2)) by apply dec_digits_length.
  rewrite (dec_val_dec_digits 5 g2) by (change (10 ^ N.of_nat 5) with 100000; lia).
  replace (65535 <? g2) with false by lia.
  rewrite (app_assoc (dec_digits 1 d1) (dec_digits 5 g2)).
  rewrite (slice_at (dec_digits 1 d1 ++ dec_digits 5 g2) (dec_digits 4 g3))
    by (rewrite ?app_length, ?dec_digits_length; reflexivity).
  rewrite (dec_val_dec_digits 4 g3) by (change (10 ^ N.of_nat 4) with 10000; lia).
  replace (8191 <? g3) with false by lia.
  rewrite (app_assoc (dec_digits 1 d1 ++ dec_digits 5 g2) (dec_digits 4 g3)).
  rewrite (slice_at ((dec_digits 1 d1 ++ dec_digits 5 g2) ++ dec_digits 4 g3) (dec_digits 5 vid))
    by (rewrite ?app_length, ?dec_digits_length; reflexivity).
  rewrite (dec_val_dec_digits 5 vid) by (change (10 ^ N.of_nat 5) with 100000; lia).
  rewrite (app_assoc ((dec_digits 1 d1 ++ dec_digits 5 g2) ++ dec_digits 4 g3) (dec_digits 5 vid)).
  rewrite (slice_at (((dec_digits 1 d1 ++ dec_digits 5 g2) ++ dec_digits 4 g3) ++ dec_digits 5 vid)
             (dec_digits 5 pid))
    by (rewrite ?app_length, ?dec_digits_length; reflexivity).
  rewrite (dec_val_dec_digits 5 pid) by (change (10 ^ N.of_nat 5) with 100000; lia).
  replace ((65535 <? vid) || (65535 <? pid)) with false by lia.
  reflexivity.
Qed.

Lemma manual_parse_of_digits (ds : list N) :
  digits ds -> (length ds <= 21)%nat ->
  manual_parse (map digit_char ds) = manual_parse_digits ds.
Proof.
  intros Hd Hl. unfold manual_parse.
  rewrite manual_strip_digits by (cbn [length]; assumption). reflexivity.
Qed.

(** the short (11-digit) form, as [compute_pairing_code] prints it *)
Lemma manual_roundtrip_short (passcode disc : N) (code : list N) :
  passcode < MAX_PASS -> disc < 4096 ->
  manual_encode passcode disc = Ok code ->
  manual_parse (map digit_char code) = Ok (mkManual false (disc / 256) passcode 0 0).
Proof.
  unfold MAX_PASS. intros Hp Hd He. unfold manual_encode, manual_digits10 in He.
  cbv zeta in He.
  replace ((disc / 1024 <? 10) && (passcode / 16384 <? 10000)) with true in He by dm_lia.
  cbn [bind] in He.
  assert (Hc : code =
    (dec_digits 1 (disc / 1024) ++
     dec_digits 5 ((disc / 256) mod 4 * 16384 + passcode mod 16384) ++
     dec_digits 4 (passcode / 16384)) ++
    [vh_calc (dec_digits 1 (disc / 1024) ++
     dec_digits 5 ((disc / 256) mod 4 * 16384 + passcode mod 16384) ++
     dec_digits 4 (passcode / 16384))]) by congruence.
  clear He. subst code.
  remember (dec_digits 1 (disc / 1024) ++
            dec_digits 5 ((disc / 256) mod 4 * 16384 + passcode mod 16384) ++
            dec_digits 4 (passcode / 16384)) as ds eqn:Eds.
  assert (Hds : digits ds).
  { subst ds. apply digits_app; split; [apply dec_digits_digits|].
    apply digits_app; split; apply dec_digits_digits. }
  assert (Hlen : length ds = 10%nat).
  { subst ds. rewrite !app_length, !dec_digits_length. reflexivity. }
  rewrite manual_parse_of_digits.
  - rewrite (parse_digits_short (disc / 1024)
               ((disc / 256) mod 4 * 16384 + passcode mod 16384) (passcode / 16384) ds)
      by (try exact Eds; dm_lia).
    f_equal. f_equal; dm_lia.
  - apply digits_app. split; [exact Hds|]. constructor; [apply vh_calc_range, Hds|constructor].
  - rewrite app_length, Hlen. cbn [length]. lia.
Qed.

(** the encoder panics exactly outside its ten-character budget *)
Lemma manual_encode_ok (passcode disc : N) :
  passcode < MAX_PASS -> disc < 4096 -> exists code, manual_encode passcode disc = Ok code.
Proof.
  unfold MAX_PASS. intros Hp Hd. unfold manual_encode, manual_digits10.
  replace ((disc / 1024 <? 10) && (passcode / 16384 <? 10000)) with true by dm_lia.
  cbn [bind]. eexists. reflexivity.
Qed.

(** the long (21-digit) layout of the specification is parsed back *)
Lemma manual_roundtrip_long (passcode disc vid pid : N) :
  passcode < MAX_PASS -> disc < 4096 -> vid < two16 -> pid < two16 ->
  manual_parse (map digit_char (manual_encode_long passcode disc vid pid)) =
  Ok (mkManual true (disc / 256) passcode vid pid).
Proof.
  unfold MAX_PASS, two16. intros Hp Hd Hv Hpi. unfold manual_encode_long.
  remember (dec_digits 1 (4 + disc / 1024) ++
            dec_digits 5 ((disc / 256) mod 4 * 16384 + passcode mod 16384) ++
            dec_digits 4 (passcode / 16384) ++ dec_digits 5 vid ++ dec_digits 5 pid)
    as ds eqn:Eds.
  assert (Hds : digits ds).
  { subst ds. apply digits_app; split; [apply dec_digits_digits|].
    apply digits_app; split; [apply dec_digits_digits|].
    apply digits_app; split; [apply dec_digits_digits|].
    apply digits_app; split; apply dec_digits_digits. }
  assert (Hlen : length ds = 20%nat).
  { subst ds. rewrite !app_length, !dec_digits_length. reflexivity. }
  rewrite manual_parse_of_digits.
  - rewrite (parse_digits_long (4 + disc / 1024)
               ((disc / 256) mod 4 * 16384 + passcode mod 16384) (passcode / 16384) vid pid ds)
      by (try exact Eds; dm_lia).
    f_equal. f_equal; dm_lia.
  - apply digits_app. split; [exact Hds|]. constructor; [apply vh_calc_range, Hds|constructor].
  - rewrite app_length, Hlen. cbn [length]. lia.
Qed.

(** what an accepted code guarantees (every check of the parser) *)
Lemma manual_parse_inv (code : list N) (p : manual_payload) :
  manual_parse code = Ok p ->
  exists ds, manual_strip code [] = Ok ds /\
    length ds = (if m_long p then 21 else 11)%nat /\
    vh_validate ds = true /\
    m_passcode p < MAX_PASS /\ m_short_disc p < 16 /\
    m_vid p < two16 /\ m_pid p < two16 /\
    dec_val (slice ds 1 5) <= 65535 /\ dec_val (slice ds 6 4) <= 8191 /\
    dec_val (slice ds 0 1) <= 7 /\
    (m_long p = false -> m_vid p = 0 /\ m_pid p = 0).
Proof.
  unfold manual_parse, MAX_PASS, two16. intro H.
  destruct (manual_strip code []) as [ds| |] eqn:Es; cbn [bind] in H; try discriminate.
  exists ds. split; [reflexivity|]. unfold manual_parse_digits in H.
  destruct (Nat.eqb (length ds) 11) eqn:E11.
  - cbn [bind] in H. apply Nat.eqb_eq in E11.
    destruct (vh_validate ds); cbn [negb] in H; [|discriminate].
    destruct (7 <? dec_val (slice ds 0 1)) eqn:E7; [discriminate|].
    destruct (dec_val (slice ds 0 1) / 4 =? 1) eqn:Ep; cbn [Bool.eqb negb] in H; [discriminate|].
    destruct (65535 <? dec_val (slice ds 1 5)) eqn:Eg; [discriminate|].
    destruct (8191 <? dec_val (slice ds 6 4)) eqn:Eh; [discriminate|].
    injection H as <-. cbn [m_long m_passcode m_short_disc m_vid m_pid].
    repeat split; try assumption; try dm_lia.
  - destruct (Nat.eqb (length ds) 21) eqn:E21; cbn [bind] in H; [|discriminate].
    apply Nat.eqb_eq in E21.
    destruct (vh_validate ds); cbn [negb] in H; [|discriminate].
    destruct (7 <? dec_val (slice ds 0 1)) eqn:E7; [discriminate|].
    destruct (dec_val (slice ds 0 1) / 4 =? 1) eqn:Ep; cbn [Bool.eqb negb] in H; [|discriminate].
    destruct (65535 <? dec_val (slice ds 1 5)) eqn:Eg; [discriminate|].
    destruct (8191 <? dec_val (slice ds 6 4)) eqn:Eh; [discriminate|].
    destruct ((65535 <? dec_val (slice ds 10 5)) || (65535 <? dec_val (slice ds 15 5))) eqn:Ev;
      [discriminate|].
    injection H as <-. cbn [m_long m_passcode m_short_disc m_vid m_pid].
    repeat split; try assumption; try dm_lia; try discriminate.
Qed.

Lemma manual_strip_total (code acc : list N) : no_panic (manual_strip code acc).
Proof.
  revert acc. induction code as [|ch t IH]; intro acc; cbn [manual_strip]; [exact I|].
  destruct ((ch =? 45) || (ch =? 32)); [apply IH|].
  destruct ((48 <=? ch) && (ch <=? 57)); [|exact I].
  destruct (Nat.ltb (length acc) 21); [apply IH|exact I].
Qed.

Lemma manual_strip_err (code acc : list N) (e : N) :
  manual_strip code acc = Err e -> e = E_INVDATA.
Proof.
  revert acc. induction code as [|ch t IH]; intro acc; cbn [manual_strip]; [discriminate|].
  destruct ((ch =? 45) || (ch =? 32)); [apply IH|].
  destruct ((48 <=? ch) && (ch <=? 57)); [|intro H; injection H as <-; reflexivity].
  destruct (Nat.ltb (length acc) 21); [apply IH|intro H; injection H as <-; reflexivity].
Qed.

(** the parser never panics and its only error is InvalidData *)
Lemma manual_parse_digits_total (ds : list N) :
  (exists p, manual_parse_digits ds = Ok p) \/ manual_parse_digits ds = Err E_INVDATA.
Proof.
  unfold manual_parse_digits. cbv zeta.
  destruct (Nat.eqb (length ds) 11); [|destruct (Nat.eqb (length ds) 21)]; cbn [bind];
    try (right; reflexivity);
    repeat match goal with
           | |- context [if ?c then _ else _] =>
               destruct c; try (right; reflexivity); try (left; eexists; reflexivity)
           end.
Qed.

Lemma manual_parse_total (code : list N) :
  (exists p, manual_parse code = Ok p) \/ manual_parse code = Err E_INVDATA.
Proof.
  unfold manual_parse.
  pose proof (manual_strip_total code []) as Ht.
  destruct (manual_strip code []) as [ds|e|] eqn:Es; cbn [bind]; [| |contradiction].
  - apply manual_parse_digits_total.
  - right. f_equal. eapply manual_strip_err; exact Es.
Qed.

(** a digit string with a wrong check digit is refused *)
Lemma manual_rejects_bad_check (ds : list N) :
  digits ds -> (length ds <= 21)%nat -> vh_validate ds = false ->
  manual_parse (map digit_char ds) = Err E_INVDATA.
Proof.
  intros Hd Hl Hv. rewrite manual_parse_of_digits by assumption.
  unfold manual_parse_digits.
  destruct (Nat.eqb (length ds) 11); cbn [bind]; [rewrite Hv; reflexivity|].
  destruct (Nat.eqb (length ds) 21); cbn [bind]; [rewrite Hv; reflexivity|reflexivity].
Qed.

Lemma manual_strip_digits_inv (x acc r : list N) :
  digits x -> manual_strip (map digit_char x) acc = Ok r -> r = acc ++ x.
Proof.
  intro Hx. revert acc. induction Hx as [|d t Hd Ht IH]; intros acc H.
  - cbn [map manual_strip] in H. injection H as <-. rewrite app_nil_r. reflexivity.
  - cbn [map manual_strip] in H. change (digit_char d) with (48 + d) in H.
    replace ((48 + d =? 45) || (48 + d =? 32)) with false in H by lia.
    replace ((48 <=? 48 + d) && (48 + d <=? 57)) with true in H by lia.
    destruct (Nat.ltb (length acc) 21); [|discriminate].
    replace (48 + d - 48) with d in H by lia.
    apply IH in H. rewrite <- app_assoc in H. exact H.
Qed.

(** ... in particular any accepted code with one digit replaced, or with two
    different neighbouring digits swapped *)
Lemma manual_rejects_substitution (l1 l2 : list N) (a b : N) (p : manual_payload) :
  digits (l1 ++ a :: l2) -> b < 10 -> a <> b ->
  manual_parse (map digit_char (l1 ++ a :: l2)) = Ok p ->
  manual_parse (map digit_char (l1 ++ b :: l2)) = Err E_INVDATA.
Proof.
  intros Hd Hb Hab Hp.
  apply manual_parse_inv in Hp as (ds & Hs & Hlen & Hv & _).
  apply manual_strip_digits_inv in Hs; [|exact Hd]. cbn [app] in Hs. subst ds.
  apply manual_rejects_bad_check.
  - apply digits_app in Hd as [Hd1 Hd2]. apply digits_app. split; [exact Hd1|].
    inversion Hd2; subst. constructor; assumption.
  - rewrite app_length in *. cbn [length] in *. destruct (m_long p); lia.
  - eapply vh_detects_substitution; eassumption.
Qed.

Lemma manual_rejects_transposition (l1 l2 : list N) (a b : N) (p : manual_payload) :
  digits (l1 ++ a :: b :: l2) -> a <> b ->
  manual_parse (map digit_char (l1 ++ a :: b :: l2)) = Ok p ->
  manual_parse (map digit_char (l1 ++ b :: a :: l2)) = Err E_INVDATA.
Proof.
  intros Hd Hab Hp.
  apply manual_parse_inv in Hp as (ds & Hs & Hlen & Hv & _).
  apply manual_strip_digits_inv in Hs; [|exact Hd]. cbn [app] in Hs. subst ds.
  apply manual_rejects_bad_check.
  - apply digits_app in Hd as [Hd1 Hd2]. apply digits_app. split; [exact Hd1|].
    inversion Hd2 as [|? ? Ha Hd3]; subst. inversion Hd3 as [|? ? Hb' Hd4]; subst.
    repeat constructor; assumption.
  - rewrite app_length in *. cbn [length] in *. destruct (m_long p); lia.
  - eapply vh_detects_transposition; eassumption.
Qed.
