(** C11: the theorems over all histories and all crash points. *)
From Coq Require Import NArith Arith List Bool Lia ZifyN ZifyBool.
From RsM Require Import Model.Persist Proofs.PersistFacts Proofs.PersistInv.
Import ListNotations.
Open Scope N_scope.

Section Thms.
  Variable blob : Type.
  Variable enc_fab : N -> fabric -> blob.
  Variable dec_fab : blob -> option (N * fabric).
  Variable enc_basic : basic -> blob.
  Variable dec_basic : blob -> option basic.
  Variable enc_nets : nets -> blob.
  Variable dec_nets : blob -> option nets.
  Variable enc_labels : N -> blob.
  Variable dec_labels : blob -> option N.
  Variable enc_binds : list (N * N) -> blob.
  Variable dec_binds : blob -> option (list (N * N)).
  Variable enc_res : list (N * N) -> blob.
  Variable dec_res : blob -> option (list (N * N)).
  Variable enc_tz : N -> blob.
  Variable dec_tz : blob -> option N.
  Variable enc_tts : N * N -> blob.
  Variable dec_tts : blob -> option (N * N).
  Variable enc_icd : list (N * N) -> blob.
  Variable dec_icd : blob -> option (list (N * N)).
  Variable enc_ota : list (N * N) -> blob.
  Variable dec_ota : blob -> option (list (N * N)).
  Variable enc_scenes : list (N * N) -> blob.
  Variable dec_scenes : blob -> option (list (N * N)).
  Variable enc_sub : N * N -> blob.
  Variable dec_sub : blob -> option (N * N).

  Hypothesis rt_fab : forall i f, dec_fab (enc_fab i f) = Some (i, f).
  Hypothesis rt_basic : forall v, dec_basic (enc_basic v) = Some v.
  Hypothesis rt_nets : forall v, dec_nets (enc_nets v) = Some v.
  Hypothesis rt_labels : forall v, dec_labels (enc_labels v) = Some v.
  Hypothesis rt_binds : forall v, dec_binds (enc_binds v) = Some v.
  Hypothesis rt_res : forall v, dec_res (enc_res v) = Some v.
  Hypothesis rt_tz : forall v, dec_tz (enc_tz v) = Some v.
  Hypothesis rt_tts : forall v, dec_tts (enc_tts v) = Some v.
  Hypothesis rt_icd : forall v, dec_icd (enc_icd v) = Some v.
  Hypothesis rt_ota : forall v, dec_ota (enc_ota v) = Some v.
  Hypothesis rt_scenes : forall v, dec_scenes (enc_scenes v) = Some v.
  Hypothesis rt_sub : forall v, dec_sub (enc_sub v) = Some v.

  Notation state := (state blob).
  Notation kv := (kv blob).
  Notation stepf := (step blob enc_fab dec_fab enc_basic dec_basic enc_nets dec_nets enc_labels dec_labels
                          enc_binds dec_binds enc_res dec_res enc_tz dec_tz enc_tts dec_tts enc_icd dec_icd
                          enc_ota dec_ota enc_scenes dec_scenes enc_sub dec_sub).
  Notation step := (stepf true).
  Notation run := (run blob enc_fab dec_fab enc_basic dec_basic enc_nets dec_nets enc_labels dec_labels
                       enc_binds dec_binds enc_res dec_res enc_tz dec_tz enc_tts dec_tts enc_icd dec_icd
                          enc_ota dec_ota enc_scenes dec_scenes enc_sub dec_sub true).
  Notation states := (states blob enc_fab dec_fab enc_basic dec_basic enc_nets dec_nets enc_labels dec_labels
                             enc_binds dec_binds enc_res dec_res enc_tz dec_tz enc_tts dec_tts enc_icd dec_icd
                          enc_ota dec_ota enc_scenes dec_scenes enc_sub dec_sub true).
  Notation startup := (startup blob dec_fab dec_basic dec_nets dec_labels dec_binds enc_res dec_res
                               dec_tz dec_tts dec_icd dec_ota dec_scenes enc_sub dec_sub).
  Notation boot := (boot blob dec_fab dec_basic dec_nets dec_labels dec_binds enc_res dec_res
                         dec_tz dec_tts dec_icd dec_ota dec_scenes enc_sub dec_sub).
  Notation load_resump := (load_resump blob enc_res dec_res).
  Notation replay := (replay blob).
  Notation kvlog := (kvlog blob).
  Notation Inv := (Inv blob enc_fab enc_basic enc_nets enc_labels enc_binds enc_res enc_tz enc_tts enc_icd enc_ota enc_scenes enc_sub).
  Notation fabric_removed := (fabric_removed blob enc_binds enc_res enc_icd enc_ota enc_scenes enc_sub).

  (** ** The store of the state is the replay of the log the operation returned *)

  Lemma fabric_removed_events : forall r g,
    forallb (fun e => match e with EKv _ => true | EAck _ => false end) (snd (fabric_removed r g)) = true.
  Proof.
    intros r g. unfold Persist.fabric_removed, Persist.drop_for.
    assert (Hm : forall l : list (kvop blob), forallb (fun e => match e with EKv _ => true | EAck _ => false end) (map EKv l) = true)
      by (induction l as [|a t IH]; [reflexivity|exact IH]).
    destruct (Nat.eqb (length (drop_subs g (r_subs r))) (length (r_subs r))),
             (amem (r_scenes r) g), (amem (r_ota r) g), (amem (r_icd r) g), (amem (r_binds r) g);
      cbn [snd app forallb andb]; rewrite ?forallb_app, ?Hm; reflexivity.
  Qed.

  Ltac opcases st :=
    repeat match goal with
    | |- context [match caller_fab blob st ?c with _ => _ end] => destruct (caller_fab blob st c)
    | |- context [match s_fs st with _ => _ end] => destruct (s_fs st) as [|?ctx ?stg]
    | |- context [match s_pase st with _ => _ end] => destruct (s_pase st)
    | |- context [match r_tts (s_ram st) with _ => _ end] => destruct (r_tts (s_ram st)) as [[? ?]|]
    | |- context [match aget ?m ?k with _ => _ end] => destruct (aget m k) eqn:?
    | |- context [if ?b then _ else _] => destruct b
    | |- context [match ?stg with N0 => _ | Npos _ => _ end] => destruct stg
    | |- context [match net_add ?a ?b with _ => _ end] => destruct (net_add a b)
    | |- context [match new_index ?a with _ => _ end] => destruct (new_index a)
    | |- context [match dec_fab ?b with _ => _ end] => destruct (dec_fab b) as [[? ?]|]
    | |- context [match dec_nets ?b with _ => _ end] => destruct (dec_nets b)
    | |- context [let (_, _) := fabric_removed ?r ?g in _] => destruct (fabric_removed r g) eqn:?
    | |- context [match startup ?m with _ => _ end] => destruct (startup m) as [[? ?]|] eqn:?
    end.

  Theorem step_kv_log : forall fx st o,
    s_kv (fst (stepf fx st o)) = replay (s_kv st) (kvlog (snd (stepf fx st o))).
  Proof.
    intros fx st o. destruct o; cbn [Persist.step]; unfold Persist.fabric_write;
      opcases st; try reflexivity.
  Qed.

  (** ** Runs *)
  Definition full_log (evss : list (list (ev blob))) : list (kvop blob) := flat_map kvlog evss.

  Lemma run_cons : forall st o t,
    run st (o :: t) = (fst (run (fst (step st o)) t), snd (step st o) :: snd (run (fst (step st o)) t)).
  Proof.
    intros st o t. cbn [Persist.run]. destruct (step st o) as [st1 e]. cbn [fst snd].
    destruct (run st1 t) as [st2 es]. reflexivity.
  Qed.

  (** the state after the first [j] operations, and the key-value log up to that boundary *)
  Fixpoint state_at (st : state) (ops : list op) (j : nat) : state :=
    match j, ops with
    | S j', o :: t => state_at (fst (step st o)) t j'
    | _, _ => st
    end.

  Fixpoint log_upto (st : state) (ops : list op) (j : nat) : list (kvop blob) :=
    match j, ops with
    | S j', o :: t => kvlog (snd (step st o)) ++ log_upto (fst (step st o)) t j'
    | _, _ => []
    end.

  Lemma log_upto_0 : forall st ops, log_upto st ops 0 = [].
  Proof. intros st [|o t]; reflexivity. Qed.
  Lemma state_at_0 : forall st ops, state_at st ops 0 = st.
  Proof. intros st [|o t]; reflexivity. Qed.

  Lemma state_at_inv : forall ops st j, Inv st -> Inv (state_at st ops j).
  Proof.
    induction ops as [|o t IH]; intros st j HI; destruct j; cbn [state_at]; try assumption.
    apply IH. apply step_inv; assumption.
  Qed.

  Lemma log_upto_all : forall ops st, log_upto st ops (length ops) = full_log (snd (run st ops)).
  Proof.
    induction ops as [|o t IH]; intros st; [reflexivity|].
    rewrite run_cons. cbn [length log_upto snd full_log flat_map]. rewrite IH. reflexivity.
  Qed.

  Lemma state_at_all : forall ops st, state_at st ops (length ops) = fst (run st ops).
  Proof.
    induction ops as [|o t IH]; intros st; [reflexivity|].
    rewrite run_cons. cbn [length state_at fst]. apply IH.
  Qed.

  Lemma boundary_store : forall ops st j,
    s_kv (state_at st ops j) = replay (s_kv st) (log_upto st ops j).
  Proof.
    induction ops as [|o t IH]; intros st j; destruct j; cbn [state_at log_upto]; try reflexivity.
    rewrite replay_app, <- step_kv_log. apply IH.
  Qed.

  (** ** Every prefix of the log is an operation boundary or lies strictly inside one operation *)

  (** the cut after [n] key-value operations falls strictly inside the [j]-th operation (0-based) *)
  Definition cut_inside (st : state) (ops : list op) (n : nat) (j : nat) : Prop :=
    (j < length ops)%nat /\
    (length (log_upto st ops j) < n < length (log_upto st ops (S j)))%nat.

  Lemma prefix_cases : forall ops st n, (n <= length (full_log (snd (run st ops))))%nat ->
    (exists j, (j <= length ops)%nat /\ firstn n (full_log (snd (run st ops))) = log_upto st ops j) \/
    (exists j, cut_inside st ops n j).
  Proof.
    induction ops as [|o t IH]; intros st n Hn.
    - left. exists 0%nat. cbn in *. assert (n = 0)%nat by lia. subst. split; [lia|reflexivity].
    - rewrite run_cons in *. cbn [snd full_log flat_map] in *. fold (full_log (snd (run (fst (step st o)) t))) in *.
      set (e := kvlog (snd (step st o))) in *. set (L' := full_log (snd (run (fst (step st o)) t))) in *.
      rewrite app_length in Hn.
      destruct (Nat.eq_dec n 0) as [E0|E0].
      + left. exists 0%nat. subst n. split; [lia|]. rewrite log_upto_0. reflexivity.
      + destruct (Nat.lt_ge_cases n (length e)) as [Hlt|Hge].
        * right. exists 0%nat. unfold cut_inside. cbn [length log_upto]. rewrite log_upto_0, app_nil_r. fold e. split; lia.
        * destruct (IH (fst (step st o)) (n - length e)%nat) as [[j [Hj Hp]]|[j [Hj1 Hj2]]]; [fold L'; lia| |].
          -- left. exists (S j). split; [cbn [length]; lia|]. cbn [log_upto]. fold e.
             rewrite firstn_app. rewrite firstn_all2 by lia. f_equal. exact Hp.
          -- right. exists (S j). unfold cut_inside in *. cbn [length log_upto]. fold e.
             rewrite !app_length. cbn [log_upto] in Hj2. split; lia.
  Qed.

  (** an operation that issues at most one key-value operation has no inside *)
  Lemma cut_inside_multi : forall ops st n j, cut_inside st ops n j ->
    exists o, nth_error ops j = Some o /\ (2 <= length (kvlog (snd (step (state_at st ops j) o))))%nat.
  Proof.
    induction ops as [|o t IH]; intros st n j [Hj Hc]; [cbn in Hj; lia|].
    destruct j as [|j].
    - exists o. split; [reflexivity|]. cbn [log_upto state_at length] in *.
      rewrite log_upto_0 in Hc. rewrite app_nil_r in Hc. cbn [length] in Hc. lia.
    - cbn [nth_error state_at]. apply (IH (fst (step st o)) (n - length (kvlog (snd (step st o))))%nat j).
      split; [cbn [length] in Hj; lia|]. cbn [log_upto] in Hc. rewrite !app_length in Hc. cbn [log_upto]. lia.
  Qed.

  (** ** What a restart gives: memory, except for what the fail-safe holds staged *)
  Definition committed_view (st : state) (r : ram) : Prop :=
    (forall i, armed_for (s_fs st) i = false -> aget (r_fabs r) i = aget (r_fabs (s_ram st)) i) /\
    r_basic r = r_basic (s_ram st) /\
    (s_fs st = Idle -> r_nets r = r_nets (s_ram st)) /\
    r_labels r = r_labels (s_ram st) /\
    r_binds r = r_binds (s_ram st) /\
    r_tz r = r_tz (s_ram st) /\ r_tts r = r_tts (s_ram st) /\ r_icd r = r_icd (s_ram st) /\
    r_ota r = r_ota (s_ram st) /\ r_scenes r = r_scenes (s_ram st).

  Theorem restart_committed : forall st, Inv st ->
    exists r, boot (s_kv st) = Some r /\ committed_view st r.
  Proof.
    intros st HI.
    edestruct (startup_sync blob enc_fab dec_fab enc_basic dec_basic enc_nets dec_nets enc_labels dec_labels
                 enc_binds dec_binds enc_res dec_res enc_tz dec_tz enc_tts dec_tts enc_icd dec_icd
                 enc_ota dec_ota enc_scenes dec_scenes enc_sub dec_sub)
      as [r [ops [Hs [H1 [_ [H2 [H3 [H4 [H5 [_ [_ [_ H6]]]]]]]]]]]]; try eassumption.
    exists r. unfold Persist.boot. rewrite Hs. split; [reflexivity|]. unfold committed_view. tauto.
  Qed.

  Theorem prefix_consistent : forall st0 ops n, Inv st0 ->
    (n <= length (full_log (snd (run st0 ops))))%nat ->
    (forall j, ~ cut_inside st0 ops n j) ->
    exists j r, (j <= length ops)%nat /\
      boot (replay (s_kv st0) (firstn n (full_log (snd (run st0 ops))))) = Some r /\
      committed_view (state_at st0 ops j) r.
  Proof.
    intros st0 ops n HI Hn Hout.
    destruct (prefix_cases ops st0 n Hn) as [[j [Hj Hp]]|[j Hin]]; [|exfalso; eapply Hout; eassumption].
    destruct (restart_committed (state_at st0 ops j) (state_at_inv ops st0 j HI)) as [r [Hb Hc]].
    exists j, r. split; [assumption|]. rewrite Hp, <- boundary_store. tauto.
  Qed.

  (** ** The answer comes after the last write *)
  Definition not_ack (e : ev blob) : bool := match e with EKv _ => true | EAck _ => false end.
  Definition ack_is_last (evs : list (ev blob)) : bool := forallb not_ack (removelast evs).

  Lemma removelast_snoc : forall A (l : list A) x, removelast (l ++ [x]) = l.
  Proof. intros. apply removelast_last. Qed.

  Lemma ack_last_snoc : forall l a, forallb not_ack l = true -> ack_is_last (l ++ [EAck a]) = true.
  Proof. intros l a H. unfold ack_is_last. rewrite removelast_snoc. assumption. Qed.

  Lemma ack_last_noack : forall l, forallb not_ack l = true -> ack_is_last l = true.
  Proof.
    intros l H. unfold ack_is_last. induction l as [|a t IH]; [reflexivity|].
    cbn [forallb] in H. apply andb_true_iff in H. destruct H as [Ha Ht].
    destruct t as [|b t']; [reflexivity|]. cbn [removelast forallb]. rewrite Ha. cbn [andb]. apply IH. assumption.
  Qed.

  Theorem ack_after_writes : forall fx st o, (forall c v, o <> OSub c v) ->
    ack_is_last (snd (stepf fx st o)) = true.
  Proof.
    intros fx st o Hns. destruct o; try solve [exfalso; eapply Hns; reflexivity];
      cbn [Persist.step]; unfold Persist.fabric_write;
      opcases st; try reflexivity.
    all: cbn [snd Persist.commit];
      try (match goal with H : fabric_removed ?r ?g = (_, ?l) |- _ =>
             pose proof (fabric_removed_events r g) as Hev; rewrite H in Hev; cbn [snd] in Hev end);
      first [ repeat rewrite app_assoc; apply ack_last_snoc; rewrite ?forallb_app;
              cbn [app forallb not_ack andb]; assumption
            | apply ack_last_noack; assumption
            | apply ack_last_noack; apply forallb_forall; intros e He; apply in_map_iff in He;
              destruct He as [k [<- _]]; reflexivity ].
  Qed.

  (** ** Nothing reaches the store from a change the fail-safe holds back, or from a refused command *)
  Definition gate_closed (st : state) (o : op) : bool :=
    match o with
    | OAcl c _ | OGkm c _ | OLabel c _ =>
        match caller_fab blob st c with Some f => armed_for (s_fs st) f | None => true end
    | OVid c _ =>
        match caller_fab blob st c with Some f => pending_noc_for (s_fs st) f | None => true end
    | OArm _ | OAddNoc _ | OUpdNoc _ _ | ONet _ _ | OResume _ _ | OPase => true
    | _ => false
    end.

  Theorem gated_writes_nothing : forall st o, gate_closed st o = true -> kvlog (snd (step st o)) = [].
  Proof.
    intros st o. destruct o; cbn [gate_closed Persist.step]; unfold Persist.fabric_write; cbn [negb orb];
      try discriminate;
      repeat (progress (opcases st; cbn [armed_for pending_noc_for andb negb orb]));
      intros H; try reflexivity; try discriminate.
  Qed.

  Theorem refused_changes_nothing_durable : forall st o,
    In (EAck Refused) (snd (step st o)) -> kvlog (snd (step st o)) = [] /\ s_ram (fst (step st o)) = s_ram st.
  Proof.
    intros st o. destruct o; cbn [Persist.step]; unfold Persist.fabric_write;
      opcases st; cbn [snd fst Persist.commit Persist.refuse In with_ram s_ram Persist.kvlog];
      intros H; try (split; reflexivity);
      try (repeat (destruct H as [H|H]; try discriminate); contradiction).
    all: try (match goal with H' : fabric_removed ?r ?g = (_, ?l) |- _ =>
             pose proof (fabric_removed_events r g) as Hev; rewrite H' in Hev; cbn [snd] in Hev;
             rewrite forallb_forall in Hev end).
    all: first
      [ (* RemoveFabric: its events end with the OK answer *)
        rewrite !in_app_iff in H; cbn [In] in H;
        repeat match goal with H0 : _ \/ _ |- _ => destruct H0 as [H0|H0] end;
        try discriminate; try contradiction;
        match goal with H0 : In _ _ |- _ => specialize (Hev _ H0); discriminate end
      | specialize (Hev _ H); discriminate
      | apply in_map_iff in H; destruct H as [k [E _]]; discriminate
      | (* a subscribe request: the OK answer, then the table *)
        destruct H as [H|H]; [discriminate|apply in_map_iff in H; destruct H as [k [E _]]; discriminate] ].
  Qed.

  (** ** Factory reset *)
  Definition writable_keys : list N :=
    map fabric_key fab_indices ++
    [K_BASIC; K_NETS; K_LABELS; K_BIND; K_RESUMP; K_TZ; K_TTS; K_ICD_CLIENTS; K_OTA; K_SCENES] ++
    nrange SUBS_START (N.to_nat NSUBS).

  Theorem reset_removes_writable : forall st k, In k writable_keys ->
    aget (s_kv (fst (step st OReset))) k = None.
  Proof.
    intros st k Hk. cbn [Persist.step Persist.commit fst s_kv].
    rewrite (kvlog_removes blob), (aget_replay_removes blob).
    assert (H : existsb (N.eqb k) reset_keys = true); [|rewrite H; reflexivity].
    apply existsb_exists. exists k. split; [|apply N.eqb_refl].
    unfold writable_keys in Hk. unfold reset_keys. rewrite !in_app_iff in *. cbn [In] in *. tauto.
  Qed.

  Definition singleton_keys : list N :=
    [K_BASIC; K_NETS; K_LABELS; K_BIND; K_RESUMP; K_TZ; K_TTS; K_ICD_CLIENTS; K_OTA; K_SCENES].

  Lemma persist_subs_keys : forall l k b, In (KStore k b) (persist_subs blob enc_sub l) -> in_subs k.
  Proof.
    intros l k b H. pose proof (persist_subs_subop blob enc_sub l) as Hf.
    rewrite Forall_forall in Hf. specialize (Hf _ H). cbn in Hf. tauto.
  Qed.

  Lemma fabric_removed_keys : forall r g k b, In (EKv (KStore k b)) (snd (fabric_removed r g)) ->
    In k singleton_keys \/ in_subs k.
  Proof.
    intros r g k b. unfold Persist.fabric_removed, Persist.drop_for.
    destruct (Nat.eqb (length (drop_subs g (r_subs r))) (length (r_subs r))),
             (amem (r_scenes r) g), (amem (r_ota r) g), (amem (r_icd r) g), (amem (r_binds r) g);
      cbn [snd]; rewrite !in_app_iff; cbn [In]; intros H;
      repeat match goal with
      | H : _ \/ _ |- _ => destruct H as [H|H]
      | H : False |- _ => contradiction
      | H : EKv (KStore _ _) = EKv (KStore _ _) |- _ => injection H as <- _; left; cbn; tauto
      | H : In _ (map EKv _) |- _ => apply in_map_iff in H; destruct H as [x [E H]]; injection E as ->;
                                      right; eapply persist_subs_keys; eassumption
      end.
  Qed.

  Lemma in_kvlog : forall evs o, In o (kvlog evs) <-> In (EKv o) evs.
  Proof.
    induction evs as [|[x|a] t IH]; intros o; cbn [Persist.kvlog In]; [tauto| |]; rewrite IH; intuition congruence.
  Qed.

  Lemma load_resump_keys : forall m fabs k b, In (KStore k b) (snd (load_resump m fabs)) -> k = K_RESUMP.
  Proof.
    intros m fabs k b. unfold Persist.load_resump. destruct (aget m K_RESUMP) as [x|]; [|intros []].
    destruct (dec_res x) as [l|]; [|cbn; intros [H|[]]; discriminate].
    destruct (length (filter (fun r => amem fabs (fst r)) l) =? length l)%nat; cbn; [intros []|].
    intros [H|[]]. injection H as <- _. reflexivity.
  Qed.

  (** ** A damaged resumption cache never prevents start-up *)
  Lemma load_fabs_ext : forall ks (m m' : kv) acc,
    (forall i, In i ks -> aget m' (fabric_key i) = aget m (fabric_key i)) ->
    load_fabs blob dec_fab ks m' acc = load_fabs blob dec_fab ks m acc.
  Proof.
    induction ks as [|i t IH]; intros m m' acc H; cbn [Persist.load_fabs]; [reflexivity|].
    rewrite (H i (or_introl eq_refl)).
    destruct (aget m (fabric_key i)); [|apply IH; intros; apply H; right; assumption].
    destruct (dec_fab b) as [[j f]|]; [|reflexivity].
    destruct (MAX_FABRICS <=? length acc)%nat; [reflexivity|]. apply IH. intros; apply H; right; assumption.
  Qed.

  Lemma load_subs_ext : forall slots (m m' : kv),
    (forall k, In k slots -> aget m' k = aget m k) ->
    load_subs blob dec_sub slots m' = load_subs blob dec_sub slots m.
  Proof.
    induction slots as [|k t IH]; intros m m' H; cbn [Persist.load_subs]; [reflexivity|].
    rewrite (H k (or_introl eq_refl)), (IH m m') by (intros; apply H; right; assumption). reflexivity.
  Qed.

  Lemma resume_subs_subop : forall (m : kv) fabs sb ops,
    resume_subs blob enc_sub dec_sub m fabs = Some (sb, ops) -> Forall (subop blob enc_sub) ops.
  Proof.
    intros m fabs sb ops. unfold Persist.resume_subs.
    destruct (load_subs blob dec_sub (nrange SUBS_START (N.to_nat NSUBS)) m) as [l|]; [|discriminate].
    destruct (length (drop_where (fun x => negb (amem fabs (fst x))) l) =? length l)%nat; intros H; injection H as <- <-.
    - constructor.
    - apply persist_subs_subop.
  Qed.

  Local Opaque fab_indices.
  Theorem bad_cache_boots : forall st (b : blob), Inv st ->
    exists r ops,
      startup (aset (s_kv st) K_RESUMP b) = Some (r, ops) /\
      committed_view st r /\
      (dec_res b = None -> r_resump r = [] /\ In (KRemove K_RESUMP) ops) /\
      (aget (replay (aset (s_kv st) K_RESUMP b) ops) K_RESUMP = None \/
       exists l, dec_res b = Some l /\
         (aget (replay (aset (s_kv st) K_RESUMP b) ops) K_RESUMP = Some b \/
          exists l', aget (replay (aset (s_kv st) K_RESUMP b) ops) K_RESUMP = Some (enc_res l'))).
  Proof.
    intros st b HI.
    edestruct (startup_sync blob enc_fab dec_fab enc_basic dec_basic enc_nets dec_nets enc_labels dec_labels
                 enc_binds dec_binds enc_res dec_res enc_tz dec_tz enc_tts dec_tts enc_icd dec_icd
                 enc_ota dec_ota enc_scenes dec_scenes enc_sub dec_sub)
      as [r [ops [Hs [H1 [_ [H2 [H3 [H4 [H5 [_ [_ [_ H6]]]]]]]]]]]]; try eassumption.
    set (m' := aset (s_kv st) K_RESUMP b).
    assert (Hother : forall k, k <> K_RESUMP -> aget m' k = aget (s_kv st) k)
      by (intros k Hk; apply aget_aset_other; assumption).
    assert (Hsubs : forall fabs, resume_subs blob enc_sub dec_sub m' fabs = resume_subs blob enc_sub dec_sub (s_kv st) fabs).
    { intros fabs. unfold Persist.resume_subs. rewrite (load_subs_ext _ (s_kv st) m'); [reflexivity|].
      intros k Hk. apply Hother. apply in_nrange in Hk. unfold K_RESUMP, SUBS_START in *. lia. }
    unfold Persist.startup, load_opt in Hs |- *.
    rewrite (load_fabs_ext fab_indices (s_kv st) m' [])
      by (intros i Hi; apply Hother; apply in_fab_indices in Hi; rewrite fabric_key_id; unfold K_RESUMP; lia).
    rewrite !Hother
      by (unfold K_RESUMP, K_BASIC, K_NETS, K_BIND, K_LABELS, K_TZ, K_TTS, K_ICD_CLIENTS, K_OTA, K_SCENES; lia).
    destruct (load_fabs blob dec_fab fab_indices (s_kv st) []) as [fabs|]; [|discriminate].
    rewrite Hsubs.
    destruct (match aget (s_kv st) K_BASIC with Some b0 => dec_basic b0 | None => Some basic_default end) as [bs|]; [|discriminate].
    destruct (load_resump (s_kv st) fabs) as [res0 ops0].
    destruct (load_resump m' fabs) as [res' ops'] eqn:El.
    repeat match type of Hs with
    | match ?x with _ => _ end = Some _ => destruct x eqn:?; try discriminate
    | (let (_, _) := ?x in _) = Some _ => destruct x eqn:?
    end.
    injection Hs as <- <-. cbn [r_fabs r_basic r_nets r_labels r_binds r_tz r_tts r_icd r_ota r_scenes r_subs] in *.
    match goal with E : resume_subs _ _ _ (s_kv st) fabs = Some (?sb, ?o2) |- _ =>
      pose proof (resume_subs_subop _ _ _ _ E) as Hsub2; rename o2 into ops2 end.
    destruct (replay_subops blob enc_sub ops2 (replay m' ops') Hsub2) as [Hout2 _].
    assert (Hres : aget (replay m' (ops' ++ ops2)) K_RESUMP = aget (replay m' ops') K_RESUMP).
    { rewrite replay_app. apply Hout2. unfold in_subs, K_RESUMP, SUBS_START, NSUBS. lia. }
    eexists _, (ops' ++ ops2). split; [reflexivity|].
    split; [unfold committed_view; cbn [r_fabs r_basic r_nets r_labels r_binds r_tz r_tts r_icd r_ota r_scenes]; tauto|].
    rewrite Hres.
    unfold Persist.load_resump in El. unfold m' in El at 1. rewrite aget_aset_same in El.
    destruct (dec_res b) as [lr|] eqn:Ed.
    - split; [discriminate|]. right. exists lr. split; [reflexivity|].
      destruct (length (filter (fun r => amem fabs (fst r)) lr) =? length lr)%nat; injection El as <- <-;
        cbn [Persist.replay fold_left kv_apply r_resump].
      + left. apply aget_aset_same.
      + right. eexists. apply aget_aset_same.
    - injection El as <- <-. split; [intros _; split; [reflexivity|left; reflexivity]|].
      left. cbn [Persist.replay fold_left kv_apply]. apply aget_adel_same.
  Qed.

  (** Start-up leaves the resumption cache CLEAN, in memory and in the store, whatever the store held:
      every record is of a fabric in the table, and the stored cache (if any) reads back as exactly
      the cache in memory.  (A cut inside RemoveFabric leaves records of a fabric that is gone; the
      next start-up must not leave them for the one after it.) *)
  Lemma filter_length_le' : forall (A : Type) (f : A -> bool) (l : list A), (length (filter f l) <= length l)%nat.
  Proof using Type.
    clear. intros A f. induction l as [|a l IH]; cbn [filter length]; [lia|]. destruct (f a); cbn [length]; lia.
  Qed.

  Lemma filter_length_all : forall (A : Type) (f : A -> bool) (l : list A),
    length (filter f l) = length l -> forall x, In x l -> f x = true.
  Proof using Type.
    clear. intros A f. induction l as [|a l IH]; cbn [filter length In]; intros H x Hx; [contradiction|].
    destruct (f a) eqn:Ea.
    - cbn [length] in H. destruct Hx as [<-|Hx]; [assumption|]. apply IH; [lia|assumption].
    - pose proof (filter_length_le' A f l). lia.
  Qed.

  Theorem startup_cache_clean : forall (m : kv) r ops,
    startup m = Some (r, ops) ->
    (forall x, In x (r_resump r) -> amem (r_fabs r) (fst x) = true) /\
    match aget (replay m ops) K_RESUMP with
    | None => r_resump r = []
    | Some b => dec_res b = Some (r_resump r)
    end.
  Proof.
    intros m r ops Hs.
    unfold Persist.startup, load_opt in Hs.
    destruct (load_fabs blob dec_fab fab_indices m []) as [fabs|]; [|discriminate].
    destruct (match aget m K_BASIC with Some b0 => dec_basic b0 | None => Some basic_default end) as [bs|]; [|discriminate].
    destruct (load_resump m fabs) as [res' ops'] eqn:El.
    repeat match type of Hs with
    | match ?x with _ => _ end = Some _ => destruct x eqn:?; try discriminate
    | (let (_, _) := ?x in _) = Some _ => destruct x eqn:?
    end.
    injection Hs as <- <-. cbn [r_fabs r_resump].
    match goal with E : resume_subs _ _ _ m fabs = Some (?sb, ?o2) |- _ =>
      pose proof (resume_subs_subop _ _ _ _ E) as Hsub2; rename o2 into ops2 end.
    destruct (replay_subops blob enc_sub ops2 (replay m ops') Hsub2) as [Hout2 _].
    assert (Hres : aget (replay m (ops' ++ ops2)) K_RESUMP = aget (replay m ops') K_RESUMP).
    { rewrite replay_app. apply Hout2. unfold in_subs, K_RESUMP, SUBS_START, NSUBS. lia. }
    rewrite Hres. clear Hres Hout2 Hsub2.
    unfold Persist.load_resump in El.
    destruct (aget m K_RESUMP) as [b|] eqn:Eb.
    - destruct (dec_res b) as [lr|] eqn:Ed.
      + destruct (length (filter (fun r => amem fabs (fst r)) lr) =? length lr)%nat eqn:El2; injection El as <- <-;
          cbn [Persist.replay fold_left kv_apply].
        * split.
          -- apply Nat.eqb_eq in El2. intros x Hx. apply (filter_length_all _ _ _ El2 x Hx).
          -- rewrite Eb. assumption.
        * split.
          -- intros x Hx. apply filter_In in Hx. tauto.
          -- rewrite aget_aset_same. apply rt_res.
      + injection El as <- <-. split; [intros x []|].
        cbn [Persist.replay fold_left kv_apply]. rewrite aget_adel_same. reflexivity.
    - injection El as <- <-. split; [intros x []|].
      cbn [Persist.replay fold_left kv_apply]. rewrite Eb. reflexivity.
  Qed.

  (** every store goes to the key of a fabric in the table, to one of the singleton keys or to a
      subscription slot *)
  Theorem store_keys : forall st o k b, In (KStore k b) (kvlog (snd (step st o))) ->
    (exists f, k = fabric_key f /\ amem (r_fabs (s_ram st)) f = true) \/ In k singleton_keys \/ in_subs k.
  Proof.
    intros st o k b. rewrite in_kvlog.
    destruct o; cbn [Persist.step]; unfold Persist.fabric_write; cbn [negb orb];
      opcases st; cbn [snd Persist.commit Persist.refuse In app]; intros H;
      repeat match goal with
      | H : _ \/ _ |- _ => destruct H as [H|H]
      | H : False |- _ => contradiction
      | H : EAck _ = EKv _ |- _ => discriminate
      | H : EKv (KRemove _) = EKv (KStore _ _) |- _ => discriminate
      | H : EKv (KStore _ _) = EKv (KStore _ _) |- _ => injection H as <- _
      end;
      try (right; left; cbn; tauto);
      try (left; eexists; split; [reflexivity|]; apply amem_true; eexists; eassumption).
    all: rewrite ?in_app_iff in H; cbn [In] in H;
      repeat match goal with
      | H : _ \/ _ |- _ => destruct H as [H|H]
      | H : False |- _ => contradiction
      | H : EAck _ = EKv _ |- _ => discriminate
      | H : EKv (KRemove _) = EKv (KStore _ _) |- _ => discriminate
      end.
    all: first
      [ (* the removal broadcast *)
        right; eapply fabric_removed_keys;
        match goal with E : fabric_removed ?r ?g = (_, _) |- _ => rewrite E; cbn [snd]; eassumption end
      | (* a subscribe request / the table written back *)
        apply in_map_iff in H; destruct H as [x [E Hin]]; injection E as ->;
        right; right; eapply persist_subs_keys; eassumption
      | (* factory reset: only removes *)
        apply in_map_iff in H; destruct H as [x [E _]]; discriminate
      | (* restart: what start-up itself writes *)
        apply in_map_iff in H; destruct H as [x [E Hin]]; injection E as ->;
        right; unfold Persist.startup in *;
        repeat match goal with
        | E : match ?x with _ => _ end = Some _ |- _ => destruct x eqn:?; try discriminate
        | E : (let (_, _) := ?x in _) = Some _ |- _ => destruct x eqn:?
        end;
        match goal with E : Some (_, _) = Some (_, _) |- _ => injection E as <- <- end;
        (apply in_app_or in Hin; destruct Hin as [Hin|Hin];
        [ left; match goal with E : load_resump ?m ?f = (_, ?ops) |- _ =>
            pose proof (load_resump_keys m f k b) as Hk; rewrite E in Hk; cbn [snd] in Hk; rewrite (Hk Hin) end;
          cbn; tauto
        | right; match goal with E : resume_subs _ _ _ _ _ = Some (_, _) |- _ =>
            pose proof (resume_subs_subop _ _ _ _ E) as Hf end;
          rewrite Forall_forall in Hf; specialize (Hf _ Hin); cbn in Hf; tauto ]) ].
  Qed.

  Theorem writes_only_writable_keys : forall st o k b, Inv st ->
    In (KStore k b) (kvlog (snd (step st o))) -> In k writable_keys.
  Proof.
    intros st o k b HI H. apply store_keys in H. unfold writable_keys. rewrite !in_app_iff.
    destruct H as [[f [-> Hm]]|[H|H]]; [left|right; left; exact H|right; right; apply in_nrange; unfold in_subs in H; lia].
    apply in_map. apply in_fab_indices. apply amem_true in Hm. destruct Hm as [v Hv].
    apply aget_In_keys in Hv. eapply i_range in Hv; [|exact HI]. lia.
  Qed.

End Thms.
