(** Every layer-1 operation of Model/Slots.v preserves the accounting invariant
    [inv1] (as long as the 28-bit identifier cursor does not wrap). *)
From RsM Require Import Lib.MachInt Model.Slots Proofs.SlotsFacts Proofs.SlotsInv.
From Coq Require Import Permutation ZifyN ZifyBool Arith.
Open Scope N_scope.

Arguments N.add : simpl never.
Arguments N.ltb : simpl never.
Arguments N.eqb : simpl never.
Arguments N.mul : simpl never.

Definition next_of (s : st) : N := t_next (tb s).

Lemma hids_app : forall t l h, hids (mkSt t (l ++ [h])) = map h_id l ++ [h_id h].
Proof. intros. unfold hids; cbn. rewrite map_app; auto. Qed.

Lemma reserve_now_inv : forall cap s now s1 r,
  inv1 cap s -> next_of s + 1 <= UID_MAX -> reserve_now cap s now = (s1, r) ->
  inv1 cap s1 /\ next_of s1 = next_of s + 1 /\
  match r with
  | RId id => id = next_of s /\ hs s1 = hs s ++ [mkH id false] /\
              t_sess (tb s1) = t_sess (tb s) ++ [mkS id MPlain true false now []]
  | RErr _ => hs s1 = hs s /\ t_sess (tb s1) = t_sess (tb s) /\ (cap <= length (t_sess (tb s)))%nat
  | _ => False
  end.
Proof.
  intros cap s now s1 r [Ht [Hnd Hfr]] Hb Hr. unfold reserve_now in Hr. unfold next_of in *.
  destruct (t_add cap (tb s) true now) as [t1 [id|]] eqn:Ha;
    destruct (t_add_spec _ _ _ _ _ _ Ha Hb) as [Hn Hs]; inversion Hr; subst; clear Hr; cbn.
  - destruct Hs as [Hid [Hlt Hl]]. subst id. split; [|split; auto].
    unfold inv1; cbn. rewrite Hl, Hn. unfold hids; cbn. rewrite map_app; cbn. split; [|split].
    + apply (tinv_add cap _ _ _ true now Ht Hlt Hfr).
    + apply nodup_snoc; auto. intros Hin. specialize (Hfr _ Hin). lia.
    + intros h Hin. apply in_app_or in Hin. destruct Hin as [Hin|[<-|[]]]; [specialize (Hfr _ Hin)|]; lia.
  - destruct Hs as [Hl Hc]. split; [|split; auto].
    unfold inv1; cbn. rewrite Hl, Hn. split; [|split]; auto.
    + eapply tinv_next_mono; [|exact Ht]. lia.
    + intros h Hin. specialize (Hfr _ Hin). unfold hids in *; cbn in *. lia.
Qed.

Lemma inv1_tbl : forall cap s t1,
  inv1 cap s -> tinv cap (t_sess t1) (hids s) (t_next t1) -> t_next (tb s) <= t_next t1 ->
  inv1 cap (mkSt t1 (hs s)).
Proof.
  intros cap s t1 [Ht [Hnd Hfr]] Ht1 Hle. unfold inv1; cbn. split; [|split]; auto.
  intros h Hin. specialize (Hfr h Hin). unfold hids in *; cbn in *. lia.
Qed.

Lemma inv1_upd : forall cap s id f,
  inv1 cap s -> keeps f -> inv1 cap (mkSt (t_upd id f (tb s)) (hs s)).
Proof.
  intros cap s id f Hi Hk. apply inv1_tbl; auto; rewrite t_upd_next; [|lia].
  apply tinv_t_upd; auto. apply Hi.
Qed.

Lemma inv1_get_upd : forall cap s id now t1 f,
  inv1 cap s -> t_get id now (tb s) = Some t1 -> keeps f ->
  inv1 cap (mkSt (t_upd id f t1) (hs s)) /\ t_next (t_upd id f t1) = t_next (tb s).
Proof.
  intros cap s id now t1 f Hi Hg Hk.
  destruct (tinv_t_get cap _ _ _ _ _ _ Hg (proj1 Hi)) as [Ht1 Hn].
  split; [|rewrite t_upd_next; auto].
  apply inv1_tbl; auto; rewrite t_upd_next, Hn; [|lia].
  apply tinv_t_upd; auto.
Qed.

Lemma inv1_get : forall cap s id now t1,
  inv1 cap s -> t_get id now (tb s) = Some t1 -> inv1 cap (mkSt t1 (hs s)) /\ t_next t1 = t_next (tb s).
Proof.
  intros cap s id now t1 Hi Hg.
  destruct (tinv_t_get cap _ _ _ _ _ _ Hg (proj1 Hi)) as [Ht1 Hn]. split; auto.
  apply inv1_tbl; auto; rewrite Hn; [auto|lia].
Qed.

Lemma inv1_remove : forall cap s id, inv1 cap s -> inv1 cap (mkSt (t_remove id (tb s)) (hs s)).
Proof.
  intros cap s id Hi. destruct (tinv_t_remove cap _ id _ _ (proj1 Hi)) as [Ht Hn].
  apply inv1_tbl; auto; rewrite Hn; [auto|lia].
Qed.

Lemma inv1_evict : forall cap s now t1 r,
  inv1 cap s -> t_evict now (tb s) = (t1, r) -> inv1 cap (mkSt t1 (hs s)) /\ t_next t1 = t_next (tb s).
Proof.
  intros cap s now t1 r Hi He. destruct r as [id|].
  - destruct (t_evict_spec _ _ _ _ He) as [i [x [_ [_ [_ [Hp Hn]]]]]]. split; auto.
    apply inv1_tbl; auto; rewrite Hn; [|lia].
    apply (tinv_tail cap [x]). cbn. eapply tinv_perm; [exact Hp|apply Hi].
  - apply t_evict_none in He. subst t1. split; auto.
Qed.

(** [H'] is [H] without [id] *)
Definition minus (H H' : list N) (id : N) : Prop := forall a, In a H' <-> In a H /\ a <> id.

Lemma tinv_H_absent : forall cap l H H' nx id,
  tinv cap l H nx -> (forall x, In x l -> s_id x <> id) -> minus H H' id -> tinv cap l H' nx.
Proof.
  intros cap l H H' nx id [Hnd [Hlen [Hres Hfr]]] Hab Hm. repeat split; auto.
  - intros Hr. apply Hm. split; [apply Hres; auto|apply Hab; auto].
  - intros Hi. apply Hm in Hi. apply Hres; tauto.
Qed.

Lemma tinv_release : forall cap x y rest H H' nx,
  tinv cap (x :: rest) H nx -> minus H H' (s_id x) -> s_id y = s_id x -> s_reserved y = false ->
  tinv cap (y :: rest) H' nx.
Proof.
  intros cap x y rest H H' nx Ht Hm Hid Hr.
  assert (Hne : forall z, In z rest -> s_id z <> s_id x).
  { intros z Hz. eapply NoDup_map_perm_unique; [apply Permutation_refl|apply Ht|exact Hz]. }
  pose proof (tinv_H_absent cap rest H H' nx (s_id x) (tinv_tail cap [x] rest H nx Ht) Hne Hm) as [Hnd [Hlen [Hres Hfr]]].
  destruct Ht as [Hnd0 [Hlen0 [_ Hfr0]]].
  repeat split.
  - cbn. constructor; auto. rewrite Hid. intros Hin. apply in_map_iff in Hin. destruct Hin as [z [Hz Hin]].
    apply (Hne z Hin); auto.
  - cbn in *. lia.
  - intros Hry. destruct H0 as [<-|Hin]; [congruence|apply Hres; auto].
  - intros Hi. destruct H0 as [<-|Hin]; [|apply Hres; auto].
    apply Hm in Hi. rewrite Hid in Hi. tauto.
  - intros z [<-|Hin]; [rewrite Hid; apply Hfr0; left; auto|apply Hfr; auto].
Qed.

Lemma find_idx_upd_nth_keeps : forall {A} (p : A -> bool) (f : A -> A) l i,
  (forall x, p (f x) = p x) -> find_idx p (upd_nth i f l) = find_idx p l.
Proof.
  intros A p f l; induction l as [|a l IH]; intros [|i] Hk; cbn; auto.
  - rewrite Hk; auto.
  - rewrite IH; auto.
Qed.

Lemma upd_nth_compose : forall {A} (f g : A -> A) l i,
  upd_nth i g (upd_nth i f l) = upd_nth i (fun x => g (f x)) l.
Proof. intros A f g l; induction l as [|a l IH]; intros [|i]; cbn; auto. rewrite IH; auto. Qed.

(** [Sessions::get] followed by an update of the same slot *)
Lemma get_upd_decomp : forall t id now t1,
  t_get id now t = Some t1 ->
  exists x rest, Permutation (t_sess t) (x :: rest) /\ s_id x = id /\ In x (t_sess t) /\
    t_next t1 = t_next t /\
    Permutation (t_sess t1) (set_last now x :: rest) /\
    forall f, Permutation (t_sess (t_upd id f t1)) (f (set_last now x) :: rest) /\
              t_next (t_upd id f t1) = t_next t.
Proof.
  intros t id now t1 Hg. unfold t_get in Hg. destruct (t_find id t) as [i|] eqn:Hf; inversion Hg; subst; clear Hg.
  destruct (t_find_decomp _ _ _ Hf) as [x [rest [Hn [Hx [Hp [_ Hu]]]]]].
  exists x, rest. repeat split; auto.
  - apply (Permutation_in _ (Permutation_sym Hp)). left; auto.
  - cbn. apply Hu.
  - unfold t_upd, t_find. cbn.
    rewrite find_idx_upd_nth_keeps by (intros; reflexivity).
    unfold t_find in Hf. rewrite Hf. cbn. rewrite upd_nth_compose. apply (Hu (fun x => f (set_last now x))).
  - rewrite t_upd_next. reflexivity.
Qed.

Lemma t_upd_in : forall t id f y,
  In y (t_sess (t_upd id f t)) -> In y (t_sess t) \/ exists x, In x (t_sess t) /\ s_id x = id /\ y = f x.
Proof.
  intros t id f y Hin. unfold t_upd in Hin. destruct (t_find id t) as [i|] eqn:Hf; auto.
  destruct (t_find_decomp _ _ _ Hf) as [x [rest [Hn [Hx [Hp [_ Hu]]]]]]. cbn in Hin.
  apply (Permutation_in _ (Hu f)) in Hin. destruct Hin as [<-|Hin].
  - right. exists x. repeat split; auto. apply (Permutation_in _ (Permutation_sym Hp)). left; auto.
  - left. apply (Permutation_in _ (Permutation_sym Hp)). right; auto.
Qed.

(** with unique identifiers, the updated table is the old one with [x] replaced by [f x] *)
Lemma t_upd_in_nodup : forall t id f y,
  NoDup (ids t) -> In y (t_sess (t_upd id f t)) ->
  (In y (t_sess t) /\ s_id y <> id) \/ exists x, In x (t_sess t) /\ s_id x = id /\ y = f x.
Proof.
  intros t id f y Hnd Hin. unfold t_upd in Hin. destruct (t_find id t) as [i|] eqn:Hf.
  - destruct (t_find_decomp _ _ _ Hf) as [x [rest [Hn [Hx [Hp [_ Hu]]]]]]. cbn in Hin.
    apply (Permutation_in _ (Hu f)) in Hin. destruct Hin as [<-|Hin].
    + right. exists x. repeat split; auto. apply (Permutation_in _ (Permutation_sym Hp)). left; auto.
    + left. split; [apply (Permutation_in _ (Permutation_sym Hp)); right; auto|].
      rewrite <- Hx. eapply NoDup_map_perm_unique; eauto.
  - left. split; auto. intros Heq. apply (t_find_none _ _ Hf). unfold ids. rewrite <- Heq. apply in_map; auto.
Qed.

Lemma t_get_in : forall t id now t1 y,
  t_get id now t = Some t1 -> In y (t_sess t1) ->
  In y (t_sess t) \/ exists x, In x (t_sess t) /\ s_id x = id /\ y = set_last now x.
Proof.
  intros t id now t1 y Hg Hin. unfold t_get in Hg. destruct (t_find id t) as [i|] eqn:Hf; inversion Hg; subst.
  pose proof (t_upd_in t id (set_last now) y) as H. unfold t_upd in H. rewrite Hf in H. apply H; auto.
Qed.

Lemma t_remove_in : forall t id y, In y (t_sess (t_remove id t)) -> In y (t_sess t).
Proof.
  intros t id y Hin. unfold t_remove in Hin. destruct (t_find id t) as [i|] eqn:Hf; auto.
  destruct (t_find_decomp _ _ _ Hf) as [x [rest [Hn [Hx [Hp [Hr _]]]]]]. cbn in Hin.
  apply (Permutation_in _ (Permutation_sym Hp)). right. apply (Permutation_in _ Hr); auto.
Qed.

Lemma t_remove_pase_tinv : forall cap t keep H nx,
  tinv cap (t_sess t) H nx -> tinv cap (t_sess (t_remove_pase keep t)) H nx.
Proof.
  intros cap t keep H nx Ht. unfold t_remove_pase. cbn.
  assert (Hp : tinv cap (purge (length (t_sess t)) (pase_victim keep) (t_sess t)) H nx).
  { destruct (purge_sub (length (t_sess t)) (pase_victim keep) (t_sess t)) as [gone Hg].
    eapply tinv_tail. eapply tinv_perm; [exact Hg|exact Ht]. }
  destruct keep as [k|]; auto.
  destruct (find_idx _ _); auto. apply tinv_upd_nth; auto. apply keeps_set_expired.
Qed.

Lemma minus_h_remove : forall s id, NoDup (hids s) -> minus (hids s) (map h_id (h_remove id (hs s))) id.
Proof. intros s id Hnd a. apply h_remove_ids; auto. Qed.

Lemma inv1_mk : forall cap t1 hs1,
  tinv cap (t_sess t1) (map h_id hs1) (t_next t1) -> NoDup (map h_id hs1) ->
  (forall h, In h (map h_id hs1) -> h < t_next t1) -> inv1 cap (mkSt t1 hs1).
Proof. intros. unfold inv1, hids; cbn. auto. Qed.

Lemma purge_expire_tinv : forall cap l p q H nx,
  tinv cap l H nx ->
  tinv cap (match find_idx q (purge (length l) p l) with
            | Some i => upd_nth i (set_expired true) (purge (length l) p l)
            | None => purge (length l) p l
            end) H nx.
Proof.
  intros cap l p q H nx Ht.
  assert (Hp : tinv cap (purge (length l) p l) H nx).
  { destruct (purge_sub (length l) p l) as [gone Hg].
    eapply tinv_tail. eapply tinv_perm; [exact Hg|exact Ht]. }
  destruct (find_idx _ _); auto. apply tinv_upd_nth; auto. apply keeps_set_expired.
Qed.

Lemma t_remove_set_tinv : forall cap t ids keep H nx,
  tinv cap (t_sess t) H nx -> tinv cap (t_sess (t_remove_set ids keep t)) H nx.
Proof.
  intros cap t ids keep H nx Ht. unfold t_remove_set. cbn [t_sess].
  destruct keep as [k|].
  - apply purge_expire_tinv; auto.
  - destruct (purge_sub (length (t_sess t)) (in_set ids None) (t_sess t)) as [gone Hg].
    eapply tinv_tail. eapply tinv_perm; [exact Hg|exact Ht].
Qed.

Lemma ex_add_inv1 : forall cap mx s id pending now,
  inv1 cap s -> next_of s + 2 <= UID_MAX ->
  let s' := fst (ex_add mx s id pending now) in
  inv1 cap s' /\ next_of s <= next_of s' /\ next_of s' <= next_of s + 2.
Proof.
  intros cap mx s id pending now Hi Hb. unfold next_of in *. unfold ex_add.
  destruct (t_lookup id (tb s)) as [x|]; [|cbn; split; [auto|lia]].
  destruct (pending && s_reserved x); [cbn; split; [auto|lia]|].
  destruct (t_get id now (tb s)) as [t1|] eqn:Hg; [|cbn; split; [auto|lia]].
  destruct (s_expired x).
  { destruct (inv1_get _ _ _ _ _ Hi Hg) as [H1 H2]. cbn. split; auto. lia. }
  destruct (x_add mx (s_exch x) (if pending then XPending else XOwned)) as [[x' i]|].
  + destruct (inv1_get_upd _ _ _ _ _ (set_exch x') Hi Hg (keeps_set_exch x')) as [H1 H2].
    cbn. split; auto. lia.
  + destruct (inv1_get _ _ _ _ _ Hi Hg) as [H1 H2]. cbn. split; auto. lia.
Qed.

Theorem step_inv1 : forall cap mx s o,
  inv1 cap s -> next_of s + 2 <= UID_MAX ->
  let s' := fst (step cap mx s o) in
  inv1 cap s' /\ next_of s <= next_of s' /\ next_of s' <= next_of s + 2.
Proof.
  intros cap mx s o Hi Hb. unfold next_of in *.
  destruct o; cbn [step].
  - (* OAdd *)
    destruct (t_add cap (tb s) false now) as [t1 [id|]] eqn:Ha;
      destruct (t_add_spec _ _ _ _ _ _ Ha ltac:(lia)) as [Hn Hs]; cbn; (split; [|lia]).
    + destruct Hs as [Hid [Hlt Hl]]. subst id. apply inv1_tbl; auto; [|lia].
      rewrite Hl, Hn. destruct Hi as [Ht [Hnd Hfr]]. apply (tinv_add cap _ _ _ false now Ht Hlt Hfr).
    + destruct Hs as [Hl Hc]. apply inv1_tbl; auto; [|lia]. rewrite Hl, Hn.
      eapply tinv_next_mono; [|apply Hi]. lia.
  - (* OReserveNow *)
    destruct (reserve_now cap s now) as [s1 r] eqn:Hr.
    destruct (reserve_now_inv _ _ _ _ _ Hi ltac:(unfold next_of; lia) Hr) as [H1 [H2 _]]. cbn.
    unfold next_of in *. split; auto. lia.
  - (* OReserve *)
    destruct (reserve_now cap s now) as [s1 r] eqn:Hr.
    destruct (reserve_now_inv _ _ _ _ _ Hi ltac:(unfold next_of; lia) Hr) as [H1 [H2 H3]].
    unfold next_of in *.
    destruct r; try (cbn; split; [auto|lia]).
    destruct (t_evict now (tb s1)) as [t2 [v|]] eqn:He.
    + destruct (inv1_evict _ _ _ _ _ H1 He) as [H4 H5].
      destruct (reserve_now cap (mkSt t2 (hs s1)) now) as [s3 r3] eqn:Hr3.
      destruct (reserve_now_inv _ _ _ _ _ H4 ltac:(unfold next_of; cbn; lia) Hr3) as [H6 [H7 _]].
      cbn. unfold next_of in *; cbn in *. split; auto. lia.
    + destruct (inv1_evict _ _ _ _ _ H1 He) as [H4 H5]. cbn. split; auto. lia.
  - (* OUpdate *)
    destruct (existsb (h_has id) (hs s)); [|cbn; split; [auto|lia]].
    destruct (t_get id now (tb s)) as [t1|] eqn:Hg; [|cbn; split; [auto|lia]].
    destruct (inv1_get_upd _ _ _ _ _ (set_mode m) Hi Hg (keeps_set_mode m)) as [H1 H2].
    cbn. split; auto. lia.
  - (* OComplete *)
    cbn. split; [|lia]. destruct Hi as [Ht [Hnd Hfr]]. unfold inv1, hids in *; cbn.
    rewrite map_complete_ids. auto.
  - (* ODropH *)
    destruct (find (h_has id) (hs s)) as [h|] eqn:Hf; [|cbn; split; [auto|lia]].
    destruct (find_h_in _ _ _ Hf) as [Hin Hid].
    destruct Hi as [Ht [Hnd Hfr]].
    pose proof (minus_h_remove s id Hnd) as Hm.
    assert (Hfr' : forall t1, t_next t1 = t_next (tb s) ->
              forall a, In a (map h_id (h_remove id (hs s))) -> a < t_next t1).
    { intros t1 Hn a Ha. apply Hm in Ha. rewrite Hn. apply Hfr. tauto. }
    destruct (h_complete h).
    + destruct (t_get id now (tb s)) as [t1|] eqn:Hg.
      * destruct (get_upd_decomp _ _ _ _ Hg) as [x [rest [Hp [Hx [_ [_ [_ Hu]]]]]]].
        destruct (Hu (set_reserved false)) as [Hp2 Hn2]. cbn. rewrite Hn2. split; [|lia].
        apply inv1_mk; [|apply h_remove_nodup; auto|apply Hfr'; auto].
        rewrite Hn2. eapply tinv_perm; [apply Permutation_sym; exact Hp2|].
        eapply tinv_release; [eapply tinv_perm; [exact Hp|exact Ht]|rewrite Hx; exact Hm|reflexivity|reflexivity].
      * cbn. split; [|lia]. apply inv1_mk; [|apply h_remove_nodup; auto|apply Hfr'; auto].
        eapply tinv_H_absent; [exact Ht| |exact Hm].
        intros x Hx Heq. unfold t_get in Hg. destruct (t_find id (tb s)) eqn:Hfi; [discriminate|].
        apply (t_find_none _ _ Hfi). unfold ids. rewrite <- Heq. apply in_map; auto.
    + cbn. unfold t_remove. destruct (t_find id (tb s)) as [i|] eqn:Hfi; cbn; (split; [|lia]).
      * destruct (t_find_decomp _ _ _ Hfi) as [x [rest [Hn [Hx [Hp [Hr _]]]]]].
        apply inv1_mk; [|apply h_remove_nodup; auto|apply Hfr'; auto]. cbn.
        eapply tinv_perm; [apply Permutation_sym; exact Hr|].
        pose proof (tinv_perm _ _ _ _ _ Hp Ht) as Ht2.
        eapply tinv_H_absent; [apply (tinv_tail cap [x]); exact Ht2| |exact Hm].
        intros z Hz. rewrite <- Hx. eapply NoDup_map_perm_unique; [apply Permutation_refl|apply Ht2|exact Hz].
      * apply inv1_mk; [|apply h_remove_nodup; auto|apply Hfr'; auto].
        eapply tinv_H_absent; [exact Ht| |exact Hm].
        intros x Hx Heq. apply (t_find_none _ _ Hfi). unfold ids. rewrite <- Heq. apply in_map; auto.
  - (* ORemove *)
    destruct (t_find id (tb s)); cbn; (split; [|try rewrite (proj2 (tinv_t_remove cap _ id _ _ (proj1 Hi))); lia]); auto.
    apply inv1_remove; auto.
  - (* OEvict *)
    destruct (t_evict now (tb s)) as [t1 [v|]] eqn:He; destruct (inv1_evict _ _ _ _ _ Hi He) as [H1 H2];
      cbn; (split; [auto|lia]).
  - (* OTouch *)
    destruct (t_get id now (tb s)) as [t1|] eqn:Hg; cbn; [|split; [auto|lia]].
    destruct (inv1_get _ _ _ _ _ Hi Hg) as [H1 H2]. split; auto. lia.
  - (* OSetExpired *)
    cbn. rewrite t_upd_next. split; [|lia]. apply inv1_upd; auto. apply keeps_set_expired.
  - (* OSetLast *)
    cbn. rewrite t_upd_next. split; [|lia]. apply inv1_upd; auto. apply keeps_set_last.
  - (* OSetMode *)
    destruct (t_lookup id (tb s)) as [x|]; [|cbn; split; [auto|lia]].
    destruct (s_reserved x); cbn; [split; [auto|lia]|].
    rewrite t_upd_next. split; [|lia]. apply inv1_upd; auto. apply keeps_set_mode.
  - (* ORemovePase *)
    cbn. split; [|lia]. apply inv1_tbl; auto; [|cbn; lia]. cbn.
    apply (t_remove_pase_tinv cap (tb s) keep). apply Hi.
  - (* OExAdd *)
    apply ex_add_inv1; auto.
  - (* OExAccept *)
    destruct (t_lookup id (tb s)) as [x|]; [|cbn; split; [auto|lia]].
    destruct (nth_error (s_exch x) xi) as [[[]|]|]; try (cbn; split; [auto|lia]).
    destruct (t_get id now (tb s)) as [t1|] eqn:Hg; [|cbn; split; [auto|lia]].
    destruct (inv1_get_upd _ _ _ _ _ (xset xi (Some XOwned)) Hi Hg (keeps_xset _ _)) as [H1 H2].
    cbn. split; auto. lia.
  - (* OExTimeout *)
    destruct (t_lookup id (tb s)) as [x|]; [|cbn; split; [auto|lia]].
    destruct (nth_error (s_exch x) xi) as [[[]|]|]; try (cbn; split; [auto|lia]).
    destruct (t_get id now (tb s)) as [t1|] eqn:Hg; [|cbn; split; [auto|lia]].
    destruct (inv1_get_upd _ _ _ _ _ (xset xi (Some XDropAck)) Hi Hg (keeps_xset _ _)) as [H1 H2].
    cbn. split; auto. lia.
  - (* OExDrop *)
    destruct (t_lookup id (tb s)) as [x|]; [|cbn; split; [auto|lia]].
    destruct (nth_error (s_exch x) xi) as [[[]|]|]; try (cbn; split; [auto|lia]).
    destruct (t_get id now (tb s)) as [t1|] eqn:Hg; [|cbn; split; [auto|lia]].
    set (v := x_drop retr ack (Some XOwned)). clearbody v.
    destruct (inv1_get_upd _ _ _ _ _ (xset xi v) Hi Hg (keeps_xset _ _)) as [H1 H2].
    cbn. split; auto. lia.
  - (* OSweep *)
    destruct (find_slot slot_retr (t_sess (tb s))) as [[id xi]|].
    + cbn. rewrite (proj2 (tinv_t_remove cap _ id _ _ (proj1 Hi))). split; [|lia]. apply inv1_remove; auto.
    + destruct (find_slot slot_dropped (t_sess (tb s))) as [[id xi]|]; [|cbn; split; [auto|lia]].
      destruct (t_get id now (tb s)) as [t1|] eqn:Hg; [|cbn; split; [auto|lia]].
      destruct (inv1_get_upd _ _ _ _ _ (xset xi None) Hi Hg (keeps_xset _ _)) as [H1 H2].
      cbn. split; auto. lia.
  - (* OExAcked *)
    destruct (t_lookup id (tb s)) as [x|]; [|cbn; split; [auto|lia]].
    destruct (nth_error (s_exch x) xi) as [[[]|]|]; try (cbn; split; [auto|lia]).
    destruct (t_get id now (tb s)) as [t1|] eqn:Hg; [|cbn; split; [auto|lia]].
    destruct (inv1_get_upd _ _ _ _ _ (xset xi (Some XDropAck)) Hi Hg (keeps_xset _ _)) as [H1 H2].
    cbn. split; auto. lia.
  - (* ORxExch *)
    pose proof (ex_add_inv1 cap mx s id true now Hi Hb) as [H1 [H2 H3]]. unfold next_of in *.
    destruct (ex_add mx s id true now) as [s1 r]. cbn [fst] in H1, H2, H3.
    destruct r; try (cbn; split; [auto|lia]).
    destruct (c =? E_NOSPACE_EXCH); [|cbn; split; [auto|lia]].
    cbn. rewrite (proj2 (tinv_t_remove cap _ id _ _ (proj1 H1))). split; [|lia]. apply inv1_remove; auto.
  - (* ORemoveSet *)
    cbn. split; [|lia]. apply inv1_tbl; auto; [|cbn; lia]. cbn.
    apply (t_remove_set_tinv cap (tb s) ids keep). apply Hi.
Qed.

Theorem run_inv1 : forall cap mx ops s,
  inv1 cap s -> next_of s + 2 * N.of_nat (length ops) <= UID_MAX ->
  inv1 cap (run cap mx s ops) /\ next_of (run cap mx s ops) <= next_of s + 2 * N.of_nat (length ops).
Proof.
  intros cap mx ops; induction ops as [|o r IH]; intros s Hi Hb; cbn [run].
  - split; auto. cbn. lia.
  - cbn [length] in Hb.
    destruct (step_inv1 cap mx s o Hi ltac:(lia)) as [H1 [H2 H3]].
    destruct (IH _ H1 ltac:(lia)) as [H4 H5]. split; auto. cbn [length]. lia.
Qed.

Lemma inv1_init : forall cap, inv1 cap st_init.
Proof.
  intros cap. unfold inv1, tinv, st_init, hids; cbn.
  split; [split; [constructor|split; [lia|split; intros x []]]|split; [constructor|intros h []]].
Qed.
