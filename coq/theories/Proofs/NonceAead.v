(** C15 composed with C03's packet model: what the AEAD is called with.
    [Model.Packet.nonce] is [get_iv] (security flags, 32-bit message counter,
    source node id); the counters are those of [Model.Nonce]. *)
From RsM Require Import Model.Packet Proofs.PacketFacts.
From RsM Require Import Lib.MachInt Model.Mrp Model.Nonce Proofs.NonceTheorems.
From Coq Require Import ZifyN ZifyBool.
Open Scope N_scope.

(** equal AEAD nonces on one session mean the same wire message *)
Theorem aead_nonce_unique (sf node : N) (s0 : sess) (ops : list sop) :
  sf < 256 -> node < two64 ->
  WInv s0 [] -> honest s0 ops = true -> s_ctr s0 < two32 ->
  forall w1 w2, In w1 (snd (fst (sess_run s0 ops))) ->
                In w2 (snd (fst (sess_run s0 ops))) ->
                nonce sf (w_ctr w1) node = nonce sf (w_ctr w2) node -> w1 = w2.
Proof.
  intros Hsf Hnode I0 Hh Hb w1 w2 H1 H2 Hn.
  pose proof (wire_ctrs_fit s0 ops I0 Hh Hb w1 H1) as B1.
  pose proof (wire_ctrs_fit s0 ops I0 Hh Hb w2 H2) as B2.
  apply nonce_inj in Hn as (_ & Hc & _); try assumption.
  exact (nonce_unique_from s0 ops I0 Hh w1 w2 H1 H2 Hc).
Qed.

(** the term sealed for a transmission, for ANY deterministic way [frame] of
    building associated data and plaintext from the wire record *)
Definition sealed_for (key sf node : N) (frame : wire -> list N * list N) (w : wire) : term :=
  Aead key (nonce sf (w_ctr w) node) (fst (frame w)) (snd (frame w)).

Definition same_key_nonce (t1 t2 : term) : Prop :=
  match t1, t2 with Aead k1 n1 _ _, Aead k2 n2 _ _ => k1 = k2 /\ n1 = n2 end.

(** no two different (associated data, plaintext) pairs are ever sealed under
    the same key and nonce *)
Theorem one_nonce_one_plaintext (key sf node : N) (frame : wire -> list N * list N)
    (s0 : sess) (ops : list sop) :
  sf < 256 -> node < two64 ->
  WInv s0 [] -> honest s0 ops = true -> s_ctr s0 < two32 ->
  forall w1 w2, In w1 (snd (fst (sess_run s0 ops))) ->
                In w2 (snd (fst (sess_run s0 ops))) ->
                same_key_nonce (sealed_for key sf node frame w1) (sealed_for key sf node frame w2) ->
                sealed_for key sf node frame w1 = sealed_for key sf node frame w2.
Proof.
  intros Hsf Hnode I0 Hh Hb w1 w2 H1 H2 [_ Hn].
  rewrite (aead_nonce_unique sf node s0 ops Hsf Hnode I0 Hh Hb w1 w2 H1 H2 Hn). reflexivity.
Qed.
