(** C14: the event phase of the responder model, the final message, and the
    summary of a whole run of [respond]. *)
From RsM Require Import Lib.MachInt Model.Chunk Model.ChunkSpec Proofs.ChunkFacts.
From Coq Require Import ZifyN ZifyBool Lia Sorted.
Open Scope N_scope.

Arguments N.add : simpl never.
Arguments N.sub : simpl never.
Arguments N.mul : simpl never.
Arguments N.leb : simpl never.
Arguments N.ltb : simpl never.
Arguments N.eqb : simpl never.

(** [release_reserve(2)], [start_array(EventReports)], adjust [fresh_tail] *)
Lemma open_events (c : cfg) (s : st) A :
  cfg_ok c = true -> Closed c s A [] 1 true ->
  exists s1, (do x <- release c 2 s; put TArrE x) = Some s1 /\ seen s1 = seen s /\
    Good c (if pos s =? fresh s then set_fresh s1 (pos s1) else s1) KEvents A [].
Proof.
  intros Hc (ds & pa & pe & I & HA & HE & Hpe). destruct (cfg_ok_facts c Hc) as [Hr Hh].
  rewrite (Hpe eq_refl) in *.
  destruct I as [ci_buf0 ci_room0 ci_rsv_lo0 ci_rsv_hi0 ci_fresh0 ci_pos0 ci_out0 ci_more0 ci_sz0].
  cbn [arr] in ci_buf0. rewrite app_nil_r in ci_buf0.
  rewrite release_some by lia. cbn [obind].
  rewrite put_some by (unfold pos in *; cbn [buf room tsize]; lia).
  eexists. split; [reflexivity|]. split; [reflexivity|].
  exists ds, pa, []. split; [|split].
  - destruct ci_fresh0 as [F1 F2].
    destruct (N.eqb_spec (pos s) (fresh s)) as [e|e]; unfold set_fresh;
      try (pose proof (F1 e) as F); try (pose proof (F2 e) as F);
      constructor; cbn [buf room rsv fresh seen out opener map];
      first [ assumption | discriminate | lia
            | (rewrite ci_buf0; repeat (rewrite <- app_assoc; cbn [app]); reflexivity)
            | (rewrite pos_put; fold (pos s); cbn [tsize]; lia) ].
  - unfold totA. assumption.
  - unfold totE. cbn [oatoms] in HE. rewrite app_nil_r in *. assumption.
Qed.

Lemma Good_set_seen (c : cfg) (s : st) k A E v : Good c s k A E -> Good c (set_seen s v) k A E.
Proof.
  intros (ds & pre & l & I & HA & HE). exists ds, pre, l. split; [|auto].
  destruct I. constructor; assumption.
Qed.

(** * Event statuses *)

Definition cause_ev (c : cfg) (o : outcome) (fits : bool) : Prop :=
  (o = OError /\ fits = false) \/ (o = OAbort /\ can_refuse c = true).

Lemma cause_ev_weaken (c : cfg) (o : outcome) (f1 f2 : bool) :
  cause_ev c o f1 -> (f1 = false -> f2 = false) -> cause_ev c o f2.
Proof. intros [[Ho Hf]|H] Hw; [left; split; auto | right; exact H]. Qed.

Lemma write_evstatus_spec (c : cfg) (a : atom) (s : st) A E :
  cfg_ok c = true -> Good c s KEvents A E ->
  match write_evstatus c a s with
  | Go s' => Good c s' KEvents A (E ++ [a]) /\ seen s' = seen s
  | Halt o s' => cause_ev c o (atom_fits c a) /\ seen s' = seen s /\ exists E', Good c s' KEvents A E'
  end.
Proof.
  intros Hc G. pose proof G as (ds & pre & l & I & HA & HE). unfold write_evstatus.
  destruct (put (TAtom a) s) as [s'|] eqn:Hp.
  - destruct (OInv_push _ _ _ _ _ _ _ _ I Hp) as [I' Hs]. split; [|assumption].
    exists ds, pre, (l ++ [a]). split; [assumption|]. rewrite totA_push, totE_push, HA, HE. cbn [onA onE].
    rewrite app_nil_r. split; reflexivity.
  - destruct (send_chunk c s ds pre KEvents l Hc ltac:(discriminate) I) as (s1 & Hs1 & I1 & Hseen & Hfresh).
    rewrite Hs1.
    assert (G1 : Good c s1 KEvents A E).
    { exists (ds ++ [desc_of pre KEvents l true]), None, []. split; [assumption|].
      rewrite totA_send, totE_send. split; assumption. }
    destruct (refused c s1) eqn:Hrf.
    { split; [right; split; [reflexivity | eapply refused_can; eassumption]|]. split; [assumption|]. exists E. assumption. }
    destruct (put (TAtom a) s1) as [s2|] eqn:Hp1; cbn [or_error].
    + destruct (OInv_push _ _ _ _ _ _ _ _ I1 Hp1) as [I2 Hs2]. split; [|congruence].
      exists (ds ++ [desc_of pre KEvents l true]), None, ([] ++ [a]). split; [assumption|].
      rewrite totA_push, totE_push, totA_send, totE_send, HA, HE. cbn [onA onE]. rewrite app_nil_r. split; reflexivity.
    + split; [left; split; [reflexivity | eapply not_fits; eassumption]|]. split; [assumption|]. exists E. assumption.
Qed.

Lemma write_evstatuses_spec (c : cfg) (l : list atom) : forall (s : st) A E,
  cfg_ok c = true -> Good c s KEvents A E ->
  match write_evstatuses c l s with
  | Go s' => Good c s' KEvents A (E ++ l) /\ seen s' = seen s
  | Halt o s' => cause_ev c o (forallb (atom_fits c) l) /\ seen s' = seen s /\
                 exists E', Good c s' KEvents A E'
  end.
Proof.
  induction l as [|a rest IH]; intros s A E Hc G; cbn [write_evstatuses].
  - rewrite app_nil_r. split; [assumption | reflexivity].
  - pose proof (write_evstatus_spec c a s A E Hc G) as H.
    destruct (write_evstatus c a s) as [s1|o s1]; cbn [rbind].
    + destruct H as [G1 Hs1]. specialize (IH s1 _ _ Hc G1).
      destruct (write_evstatuses c rest s1) as [s2|o s2].
      * destruct IH as [G2 Hs2]. split; [|congruence]. rewrite <- app_assoc in G2. exact G2.
      * destruct IH as (Ho & Hs2 & G2). split; [|split; [congruence | assumption]].
        apply (cause_ev_weaken _ _ _ _ Ho). intros Hf. cbn [forallb]. rewrite Hf. apply andb_false_r.
    + destruct H as (Ho & Hs1 & G1). split; [|split; assumption].
      apply (cause_ev_weaken _ _ _ _ Ho). intros Hf. cbn [forallb]. rewrite Hf. reflexivity.
Qed.

(** * Resumption by event number *)

Lemma want_skip (c : cfg) (a b : N) (r : list ev) :
  a <= b -> Forall (fun x => b < ev_num x) r -> want c a r = want c b r.
Proof.
  intros Hab Hr. unfold want. apply filter_ext_in. intros x Hx.
  rewrite Forall_forall in Hr. specialize (Hr x Hx). unfold in_range.
  destruct (N.ltb_spec a (ev_num x)); destruct (N.ltb_spec b (ev_num x)); try lia; reflexivity.
Qed.

Lemma want_length (c : cfg) (lo : N) (evs : list ev) : (length (want c lo evs) <= length evs)%nat.
Proof. unfold want. induction evs as [|e r IH]; cbn [filter length]; [lia|]. destruct (_ && _); cbn [length]; lia. Qed.

Lemma want_in (c : cfg) (lo : N) (evs : list ev) (e : ev) : In e (want c lo evs) -> In e evs.
Proof. unfold want. intros H. apply filter_In in H. tauto. Qed.

Lemma ev_pass_spec (c : cfg) (evs : list ev) : forall (s : st) A E,
  ev_sorted evs -> Good c s KEvents A E ->
  let '(s', fin) := ev_pass c evs s in
  exists w rest,
    want c (seen s) evs = w ++ rest /\
    Good c s' KEvents A (E ++ map ev_atom w) /\
    want c (seen s') evs = rest /\
    seen s <= seen s' /\
    (fin = true -> rest = []) /\
    (fin = false -> exists e r, rest = e :: r /\ put (TAtom (ev_atom e)) s' = None) /\
    (w = [] -> pos s' = pos s /\ fresh s' = fresh s).
Proof.
  induction evs as [|e r IH]; intros s A E Hs G; cbn [ev_pass].
  - exists [], []. cbn [want filter map app]. rewrite app_nil_r.
    repeat split; auto; try lia; try discriminate.
  - inversion Hs as [|? ? Hs' Hall]; subst.
    assert (Hw : forall lo, want c lo (e :: r) = if in_range c lo e && ev_sel e then e :: want c lo r else want c lo r)
      by reflexivity.
    fold (in_range c (seen s) e).
    destruct (in_range c (seen s) e) eqn:Hir.
    + assert (Hlt : seen s < ev_num e /\ ev_num e <= ev_hi c) by (unfold in_range in Hir; lia).
      destruct (ev_sel e) eqn:Hsel.
      * destruct (put (TAtom (AEvent (ev_num e) (ev_size e))) s) as [s1|] eqn:Hp.
        -- destruct G as (ds & pre & l & I & HA & HE).
           destruct (OInv_push _ _ _ _ _ _ _ _ I Hp) as [I1 Hs1].
           assert (G1 : Good c (set_seen s1 (ev_num e)) KEvents A (E ++ [ev_atom e])).
           { apply Good_set_seen. exists ds, pre, (l ++ [ev_atom e]). split; [assumption|].
             rewrite totA_push, totE_push, HA, HE. cbn [onA onE]. rewrite app_nil_r. split; reflexivity. }
           specialize (IH (set_seen s1 (ev_num e)) _ _ Hs' G1).
           destruct (ev_pass c r (set_seen s1 (ev_num e))) as [s' fin].
           destruct IH as (w & rest & H1 & H2 & H3 & H4 & H5 & H6 & H7). cbn [seen set_seen] in *.
           exists (e :: w), rest. rewrite !Hw, Hir. cbn [andb].
           assert (Hir' : in_range c (seen s') e = false) by (unfold in_range; lia).
           rewrite Hir'. cbn [andb].
           rewrite (want_skip c (seen s) (ev_num e) r) by (try lia; assumption).
           rewrite H1. cbn [app map]. rewrite <- app_assoc in H2. cbn [app] in H2.
           repeat split; auto; try lia; try discriminate.
        -- exists [], (e :: want c (seen s) r). rewrite Hw, Hir. cbn [andb app map]. rewrite app_nil_r.
           repeat split; auto; try lia; try discriminate.
           exists e, (want c (seen s) r). split; [reflexivity | exact Hp].
      * assert (G1 : Good c (set_seen s (ev_num e)) KEvents A E) by (apply Good_set_seen; assumption).
        specialize (IH (set_seen s (ev_num e)) _ _ Hs' G1).
        destruct (ev_pass c r (set_seen s (ev_num e))) as [s' fin].
        destruct IH as (w & rest & H1 & H2 & H3 & H4 & H5 & H6 & H7). cbn [seen set_seen] in *.
        exists w, rest. rewrite !Hw, Hir. cbn [andb].
        assert (Hir' : in_range c (seen s') e = false) by (unfold in_range; lia).
        rewrite Hir'. cbn [andb].
        rewrite (want_skip c (seen s) (ev_num e) r) by (try lia; assumption).
        repeat split; auto; try lia; destruct (H7 H) as [P1 P2]; assumption.
    + specialize (IH s _ _ Hs' G). destruct (ev_pass c r s) as [s' fin].
      destruct IH as (w & rest & H1 & H2 & H3 & H4 & H5 & H6 & H7).
      exists w, rest. rewrite !Hw, Hir. cbn [andb].
      assert (Hir' : in_range c (seen s') e = false) by (unfold in_range in *; lia).
      rewrite Hir'. cbn [andb]. repeat split; auto; destruct (H7 H) as [P1 P2]; assumption.
Qed.

Lemma ev_loop_spec (c : cfg) (evs : list ev) (n : nat) : forall (s : st) A E,
  cfg_ok c = true -> ev_sorted evs -> Good c s KEvents A E ->
  match ev_loop n c evs s with
  | Go s' => Good c s' KEvents A (E ++ map ev_atom (want c (seen s) evs))
  | Halt o s' => (exists E', Good c s' KEvents A E') /\
      ((o = OStatus /\ forallb (fun e => ev_size e <=? fresh_room c) evs = false) \/
       (o = OFuel /\ (n <= length (want c (seen s) evs))%nat /\
        (pos s = fresh s -> (S n <= length (want c (seen s) evs))%nat)) \/
       (o = OAbort /\ can_refuse c = true))
  end.
Proof.
  induction n as [|n IH]; intros s A E Hc Hs G; cbn [ev_loop];
    pose proof (ev_pass_spec c evs s A E Hs G) as H;
    destruct (ev_pass c evs s) as [s1 fin];
    destruct H as (w & rest & H1 & G1 & H3 & H4 & H5 & H6 & H7);
    destruct fin.
  1,3: rewrite (H5 eq_refl), app_nil_r in H1; rewrite H1; exact G1.
  all: destruct (H6 eq_refl) as (e & r0 & -> & Hput);
       pose proof G1 as (ds & pre & l & I & HA & HE);
       destruct (N.eqb_spec (pos s1) (fresh s1)) as [Hf|Hf].
  1,3: split; [eexists; eassumption|]; left; split; [reflexivity|];
       pose proof (not_fits c s1 ds pre KEvents l (ev_atom e) Hc I Hput Hf) as Hnf;
       unfold atom_fits in Hnf; cbn [ev_atom asize] in Hnf;
       assert (Hin : In e evs) by (apply (want_in c (seen s)); rewrite H1; apply in_or_app; right; left; reflexivity);
       clear - Hin Hnf; induction evs as [|x xs IHx]; [destruct Hin|]; cbn [forallb];
       destruct Hin as [->|Hin]; [rewrite Hnf; reflexivity | rewrite (IHx Hin); apply andb_false_r].
  - split; [eexists; eassumption|]. right. left. split; [reflexivity|]. split; [lia|].
    intros Hfs. rewrite H1, app_length. cbn [length].
    destruct w as [|w0 w']; [|cbn [length]; lia]. destruct (H7 eq_refl) as [P1 P2]. congruence.
  - destruct (send_chunk c s1 ds pre KEvents l Hc ltac:(discriminate) I) as (s2 & Hs2 & I2 & Hseen & Hfresh).
    rewrite Hs2.
    assert (G2 : Good c s2 KEvents A (E ++ map ev_atom w)).
    { exists (ds ++ [desc_of pre KEvents l true]), None, []. split; [assumption|].
      rewrite totA_send, totE_send. split; assumption. }
    destruct (refused c s2) eqn:Hrf.
    { split; [eexists; eassumption|]. right. right. split; [reflexivity | eapply refused_can; eassumption]. }
    specialize (IH s2 _ _ Hc Hs G2). rewrite Hseen, H3 in IH.
    destruct (ev_loop n c evs s2) as [s3|o s3].
    + rewrite H1, map_app, app_assoc. exact IH.
    + destruct IH as [G3 [Hst|[(Ho & Hn & Hfr)|Hab]]]; split; try assumption;
        [left; assumption | | right; right; assumption].
      right. left. split; [assumption|]. specialize (Hfr Hfresh). rewrite H1, app_length. cbn [length] in *. split; [lia|].
      intros Hfs. destruct w as [|w0 w']; [|cbn [length]; lia].
      destruct (H7 eq_refl) as [P1 P2]. congruence.
Qed.

(** * [report_events] *)

Lemma report_events_spec (n : nat) (c : cfg) (stats : list atom) (evs : list ev) (s : st) A :
  cfg_ok c = true -> ev_sorted evs -> seen s = ev_lo c -> Closed c s A [] 1 true ->
  match report_events n c stats evs s with
  | Go s' => exists E, Closed c s' A E 4 false /\
               E = if has_events c then events_total c stats evs else []
  | Halt o s' => (exists E, Good c s' KEvents A E) /\
      ((o = OStatus /\ forallb (fun e => ev_size e <=? fresh_room c) evs = false) \/
       (o = OError /\ forallb (atom_fits c) stats = false) \/
       (o = OFuel /\ (n <= length evs)%nat) \/
       (o = OAbort /\ can_refuse c = true))
  end.
Proof.
  intros Hc Hs Hseen C. unfold report_events. destruct (has_events c).
  2:{ exists []. split; [|reflexivity]. destruct C as (ds & pa & pe & I & HA & HE & Hpe).
      exists ds, pa, pe. split; [|split; [|split]]; try assumption; [|intros HH; discriminate HH].
      destruct I. constructor; try assumption. lia. }
  destruct (open_events c s A Hc C) as (s1 & E1 & Hs1 & G1). rewrite E1. cbn [or_error rbind].
  match goal with |- context [write_evstatuses c stats ?x] => set (s2 := x) in * end.
  assert (Hs2 : seen s2 = seen s) by (subst s2; destruct (pos s =? fresh s); assumption).
  pose proof (write_evstatuses_spec c stats s2 A [] Hc G1) as H.
  destruct (write_evstatuses c stats s2) as [s3|o s3]; cbn [rbind].
  - destruct H as [G3 Hs3]. cbn [app] in G3.
    pose proof (ev_loop_spec c evs n s3 A stats Hc Hs G3) as H4.
    destruct (ev_loop n c evs s3) as [s4|o s4]; cbn [rbind].
    + destruct (close_array c s4 KEvents _ _ Hc ltac:(discriminate) H4) as (s5 & E5 & Hs5 & C5).
      rewrite E5. cbn [or_error]. eexists. split; [exact C5|].
      unfold events_total. rewrite Hs3, Hs2, Hseen. reflexivity.
    + destruct H4 as [G4 [Hst|[(Ho & Hn & _)|Hab]]]; (split; [assumption|]);
        [left; assumption | | right; right; right; assumption].
      right. right. left. split; [assumption|]. pose proof (want_length c (seen s3) evs). lia.
  - destruct H as (Ho & Hs3 & G3). split; [assumption|].
    destruct Ho as [Ho|Ho]; [right; left; assumption | right; right; right; assumption].
Qed.

(** * The last message *)

Lemma send_done (c : cfg) (s : st) A E :
  cfg_ok c = true -> Closed c s A E 4 false ->
  exists s' ds, send c KDone s = Some s' /\ out s' = map (render c) ds /\
    flat_map datoms ds = A /\ flat_map devents ds = E /\
    Forall (fun d => tsum (render c d) <= tx c) ds /\
    exists init last, ds = init ++ [last] /\ Forall (fun d => d_more d = true) init /\ d_more last = false.
Proof.
  intros Hc (ds & pa & pe & I & HA & HE & _). destruct (cfg_ok_facts c Hc) as [Hr Hh].
  destruct I as [ci_buf0 ci_room0 ci_rsv_lo0 ci_rsv_hi0 ci_fresh0 ci_pos0 ci_out0 ci_more0 ci_sz0].
  unfold send, end_reply. rewrite release_some by lia. cbn [obind].
  assert (Hbuf : buf s ++ flags c false ++ [TRev; TEnd] = render c (mkDesc pa pe false)).
  { rewrite ci_buf0. unfold render. cbn [d_attrs d_events d_more]. repeat (rewrite <- app_assoc). reflexivity. }
  assert (Hsz : tsum (render c (mkDesc pa pe false)) <= tx c).
  { rewrite <- Hbuf. rewrite !tsum_app, !tsum_cons, tsum_nil. cbn [tsize]. unfold pos in ci_pos0.
    unfold flags. destruct (suppress c); rewrite ?tsum_cons, ?tsum_nil; cbn [tsize]; lia. }
  assert (E1 : exists s', (do s1 <- (if suppress c then put TSuppress (mkSt (buf s) (room s + rsv s) (rsv s - rsv s) (fresh s) (seen s) (out s))
                                      else Some (mkSt (buf s) (room s + rsv s) (rsv s - rsv s) (fresh s) (seen s) (out s)));
                           do s2 <- put TRev s1; put TEnd s2) = Some s'
                          /\ buf s' = render c (mkDesc pa pe false) /\ out s' = out s
                          /\ room s' = room s + rsv s /\ rsv s' = rsv s - rsv s /\ fresh s' = fresh s /\ seen s' = seen s).
  { rewrite <- Hbuf. unfold flags. unfold pos in ci_pos0. destruct (suppress c).
    - rewrite put_some by (unfold pos; cbn [buf room tsize]; lia). cbn [obind buf room rsv fresh seen out].
      rewrite put_some by (rewrite pos_put; cbn [room tsize]; lia). cbn [obind buf room rsv fresh seen out].
      rewrite put_some by (rewrite pos_put; cbn [room tsize]; rewrite tsum_app, tsum_cons, tsum_nil; cbn [tsize]; lia).
      eexists. split; [reflexivity|]. cbn [buf room rsv fresh seen out].
      repeat (rewrite <- app_assoc; cbn [app]). repeat split; reflexivity.
    - cbn [obind].
      rewrite put_some by (unfold pos; cbn [buf room tsize]; lia). cbn [obind buf room rsv fresh seen out].
      rewrite put_some by (rewrite pos_put; cbn [room tsize]; lia).
      eexists. split; [reflexivity|]. cbn [buf room rsv fresh seen out].
      repeat (rewrite <- app_assoc; cbn [app]). repeat split; reflexivity. }
  destruct E1 as (s' & E1 & Hb & Ho & _). rewrite E1. cbn [obind].
  eexists. exists (ds ++ [mkDesc pa pe false]). split; [reflexivity|]. cbn [out].
  split; [rewrite Ho, Hb, ci_out0, map_app; reflexivity|].
  split; [rewrite flat_map_app; cbn [flat_map datoms d_attrs]; rewrite app_nil_r; assumption|].
  split; [rewrite flat_map_app; cbn [flat_map devents d_events]; rewrite app_nil_r; assumption|].
  split; [apply Forall_app; split; [assumption | constructor; [assumption | constructor]]|].
  exists ds, (mkDesc pa pe false). split; [reflexivity|]. split; [assumption | reflexivity].
Qed.

(** * A whole run *)

Definition attrs_total (c : cfg) (its : list item) (A : list atom) : Prop :=
  if has_attrs c then exists gs, Forall2 sent_as its gs /\ A = concat gs else A = [].

Theorem respond_spec (n : nat) (c : cfg) (its : list item) (stats : list atom) (evs : list ev) :
  cfg_ok c = true -> ev_sorted evs ->
  let '(o, chunks) := respond n c its stats evs in
  exists ds, chunks = map (render c) ds /\
    Forall (fun d => tsum (render c d) <= tx c) ds /\
    match o with
    | ODone =>
        (exists A, attrs_total c its A /\ flat_map datoms ds = A) /\
        flat_map devents ds = (if has_events c then events_total c stats evs else []) /\
        exists init last, ds = init ++ [last] /\ Forall (fun d => d_more d = true) init /\ d_more last = false
    | OStatus =>
        Forall (fun d => d_more d = true) ds /\
        (forallb (item_fits c) its = false \/ forallb (fun e => ev_size e <=? fresh_room c) evs = false)
    | OError => Forall (fun d => d_more d = true) ds /\ forallb (atom_fits c) stats = false
    | OFuel => Forall (fun d => d_more d = true) ds /\ (n <= length evs)%nat
    | OAbort => Forall (fun d => d_more d = true) ds /\ can_refuse c = true
    end.
Proof.
  intros Hc Hs. unfold respond.
  destruct (start_closed c Hc) as (s0 & E0 & Hseen0 & S0). rewrite E0.
  pose proof (report_attributes_spec n c its _ Hc S0) as HA.
  assert (Hout : forall s k A E, Good c s k A E ->
            exists ds, out s = map (render c) ds /\ Forall (fun d => tsum (render c d) <= tx c) ds
                       /\ Forall (fun d => d_more d = true) ds).
  { intros s k A E (ds & pre & l & [] & _). exists ds. auto. }
  destruct (report_attributes n c its (set_fresh s0 (pos s0))) as [s1|o s1]; cbn [rbind].
  - destruct HA as (Hs1 & A & C1 & HAt).
    assert (Hseen1 : seen s1 = ev_lo c) by (rewrite Hs1; cbn [set_fresh seen]; assumption).
    pose proof (report_events_spec n c stats evs s1 A Hc Hs Hseen1 C1) as HE.
    destruct (report_events n c stats evs s1) as [s2|o s2].
    + destruct HE as (E & C2 & HEq).
      destruct (send_done c s2 A E Hc C2) as (s3 & ds & E3 & Ho & HdA & HdE & Hsz & Hlast).
      rewrite E3. exists ds. split; [assumption|]. split; [assumption|].
      split; [exists A; split; assumption|]. split; [congruence | assumption].
    + destruct HE as [(E & G) Hcause]. destruct (Hout _ _ _ _ G) as (ds & Ho & Hsz & Hmore).
      exists ds. split; [assumption|]. split; [assumption|].
      destruct Hcause as [[-> Hf]|[[-> Hf]|[[-> Hf]|[-> Hf]]]]; (split; [assumption|]); auto.
  - destruct HA as (Hs1 & (A & G) & Hcause). destruct (Hout _ _ _ _ G) as (ds & Ho & Hsz & Hmore).
    exists ds. split; [assumption|]. split; [assumption|].
    destruct Hcause as [[-> Hf]|[[-> Hf]|[-> Hf]]]; (split; [assumption|]);
      [left; assumption | subst n; apply Nat.le_0_l | assumption].
Qed.
