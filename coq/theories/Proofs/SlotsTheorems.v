(** Headline lemmas of C20 in their final form (stated over all operation
    sequences from the initial state). *)
From RsM Require Import Lib.MachInt Model.Slots Model.SlotsSpec Proofs.SlotsFacts Proofs.SlotsInv
  Proofs.SlotsStep Proofs.SlotsEvict Proofs.SlotsRdv Proofs.SlotsNode Proofs.SlotsOwn
  Proofs.SlotsExch Proofs.SlotsExchNode Proofs.SlotsSweep Proofs.SlotsProbe.
From Coq Require Import Permutation ZifyN ZifyBool Arith.
Open Scope N_scope.

Arguments N.add : simpl never.
Arguments N.ltb : simpl never.
Arguments N.eqb : simpl never.
Arguments N.mul : simpl never.

(** * reserved slots = live handles *)

Lemma nodup_map_filter : forall {A B} (f : A -> B) (p : A -> bool) l,
  NoDup (map f l) -> NoDup (map f (filter p l)).
Proof.
  intros A B f p l; induction l as [|a l IH]; intros Hnd; cbn; auto.
  inversion Hnd as [|? ? Hni Hnd']; subst. destruct (p a); auto.
  cbn. constructor; auto. intros Hin. apply Hni. apply in_map_iff in Hin.
  destruct Hin as [x [Hx Hin]]. apply filter_In in Hin. rewrite <- Hx. apply in_map. tauto.
Qed.

Lemma present_iff : forall id l, existsb (has_id id) l = true <-> In id (map s_id l).
Proof.
  intros id l. rewrite existsb_exists. split.
  - intros [x [Hin Hp]]. unfold has_id in Hp. apply N.eqb_eq in Hp. rewrite <- Hp. apply in_map; auto.
  - intros Hin. apply in_map_iff in Hin. destruct Hin as [x [Hx Hin]]. exists x. split; auto.
    unfold has_id. apply N.eqb_eq; auto.
Qed.

Lemma inv1_counts : forall cap s, inv1 cap s -> n_reserved (tb s) = n_present_handles s.
Proof.
  intros cap s [[Hnd [_ [Hres _]]] [Hhnd _]]. unfold n_reserved, n_present_handles. f_equal.
  rewrite <- (map_length s_id (filter s_reserved (t_sess (tb s)))).
  rewrite <- (map_length h_id (filter _ (hs s))).
  apply Permutation_length. apply NoDup_Permutation.
  - apply nodup_map_filter; auto.
  - apply nodup_map_filter; auto.
  - intros id. split; intros Hin; apply in_map_iff in Hin; destruct Hin as [x [Hx Hin]]; apply filter_In in Hin;
      destruct Hin as [Hin Hp].
    + pose proof (proj1 (Hres x Hin) Hp) as Hh. unfold hids in Hh. apply in_map_iff in Hh.
      destruct Hh as [h [Hh Hhin]]. apply in_map_iff. exists h. split; [congruence|].
      apply filter_In. split; auto. apply present_iff. rewrite Hh. apply in_map; auto.
    + apply present_iff in Hp. apply in_map_iff in Hp. destruct Hp as [y [Hy Hyin]].
      apply in_map_iff. exists y. split; [congruence|]. apply filter_In. split; auto.
      apply (Hres y Hyin). rewrite Hy. unfold hids. apply in_map; auto.
Qed.

Theorem reserved_matches_handles : forall cap mx ops,
  2 * N.of_nat (length ops) <= UID_MAX ->
  let s := run cap mx st_init ops in
  NoDup (ids (tb s)) /\ NoDup (hids s) /\ (length (t_sess (tb s)) <= cap)%nat /\
  (forall x, In x (t_sess (tb s)) -> (s_reserved x = true <-> In (s_id x) (hids s))) /\
  n_reserved (tb s) = n_present_handles s.
Proof.
  intros cap mx ops Hb s.
  assert (Hb0 : next_of st_init + 2 * N.of_nat (length ops) <= UID_MAX) by (unfold next_of; cbn [st_init tb t_next]; lia).
  destruct (run_inv1 cap mx ops st_init (inv1_init cap) Hb0) as [Hi _].
  fold s in Hi. pose proof (inv1_counts _ _ Hi) as Hc.
  destruct Hi as [[H1 [H2 [H3 _]]] [H4 _]]. repeat split; auto; apply H3; auto.
Qed.

(** no live handle, no reserved slot *)
Corollary no_handles_no_reserved : forall cap mx ops,
  2 * N.of_nat (length ops) <= UID_MAX ->
  let s := run cap mx st_init ops in
  hs s = [] -> forall x, In x (t_sess (tb s)) -> s_reserved x = false.
Proof.
  intros cap mx ops Hb s Hh x Hin.
  destruct (reserved_matches_handles cap mx ops Hb) as [_ [_ [_ [Hres _]]]]. fold s in Hres.
  destruct (s_reserved x) eqn:Hr; auto. apply (Hres x Hin) in Hr. unfold hids in Hr. rewrite Hh in Hr. inversion Hr.
Qed.

(** * the node: every live handle belongs to a live attempt *)

Theorem node_invariants : forall cap mx ops,
  8 * N.of_nat (length ops) <= UID_MAX ->
  let n := nrun cap mx node_init ops in
  inv1 cap (core n) /\ hinv n.
Proof.
  intros cap mx ops Hb n.
  assert (Hb0 : next_of (core node_init) + 8 * N.of_nat (length ops) <= UID_MAX)
    by (unfold next_of; cbn [node_init st_init core tb t_next]; lia).
  destruct (nrun_inv1 cap mx ops node_init (inv1_init cap) Hb0) as [Hi _].
  split; auto. apply nrun_hinv; auto; [apply inv1_init|apply hinv_init].
Qed.

Theorem node_handles_owned : forall cap mx ops,
  8 * N.of_nat (length ops) <= UID_MAX ->
  let n := nrun cap mx node_init ops in
  (forall x, In x (t_sess (tb (core n))) -> s_reserved x = true ->
     exists a, In a (atts n) /\ a_h a = Some (s_id x) /\ a_stage a <> 0) /\
  n_reserved (tb (core n)) = n_present_handles (core n).
Proof.
  intros cap mx ops Hb n. destruct (node_invariants cap mx ops Hb) as [Hi Hh]. fold n in Hi, Hh.
  split; [|eapply inv1_counts; eauto].
  intros x Hin Hr. destruct Hi as [[_ [_ [Hres _]]] _]. apply (Hres x Hin) in Hr.
  destruct Hh as [_ [_ [H3 H4]]]. destruct (H4 _ Hr) as [a [Ha Hah]]. exists a. repeat split; auto.
  intros Hs. rewrite (H3 a Ha Hs) in Hah. discriminate.
Qed.

Theorem quiescent_no_reserved : forall cap mx ops,
  8 * N.of_nat (length ops) <= UID_MAX ->
  let n := nrun cap mx node_init ops in
  atts n = [] ->
  hs (core n) = [] /\ (forall x, In x (t_sess (tb (core n))) -> s_reserved x = false) /\
  n_reserved (tb (core n)) = 0.
Proof.
  intros cap mx ops Hb n Hq. destruct (node_handles_owned cap mx ops Hb) as [Hown Hc]. fold n in Hown, Hc.
  destruct (node_invariants cap mx ops Hb) as [Hi [_ [_ [_ H4]]]]. fold n in Hi, H4.
  assert (Hh : hs (core n) = []).
  { destruct (hs (core n)) as [|h r] eqn:E; auto. exfalso.
    destruct (H4 (h_id h)) as [a [Ha _]]; [unfold hids; rewrite E; left; auto|]. rewrite Hq in Ha. inversion Ha. }
  split; auto. split.
  - intros x Hin. destruct (s_reserved x) eqn:Hr; auto. destruct (Hown x Hin Hr) as [a [Ha _]].
    rewrite Hq in Ha. inversion Ha.
  - rewrite Hc. unfold n_present_handles. rewrite Hh. reflexivity.
Qed.

(** * eviction *)

Theorem step_evict_keeps_busy : forall cap mx s now y,
  In y (t_sess (tb s)) -> s_reserved y = true \/ no_exch y = false ->
  In y (t_sess (tb (fst (step cap mx s (OEvict now))))) /\
  In y (t_sess (tb (fst (step cap mx s (OReserve now))))).
Proof.
  intros cap mx s now y Hin Hb. split; cbn [step].
  - destruct (t_evict now (tb s)) as [t1 r] eqn:He.
    pose proof (evict_keeps_busy _ _ _ _ _ He Hin Hb). destruct r; auto.
  - unfold reserve_now at 1. unfold t_add at 1.
    destruct (Nat.ltb (length (t_sess (tb s))) cap); cbn [fst snd tb hs t_sess].
    + apply in_or_app; auto.
    + set (t1 := mkT (t_sess (tb s)) (next_uid (t_next (tb s)))).
      destruct (t_evict now t1) as [t2 r] eqn:He.
      assert (Hy : In y (t_sess t2)) by (eapply evict_keeps_busy; eauto).
      destruct r; cbn [fst tb]; auto.
      unfold reserve_now, t_add. cbn [tb hs t_sess t_next].
      destruct (Nat.ltb (length (t_sess t2)) cap); cbn [fst tb t_sess]; auto. apply in_or_app; auto.
Qed.

Theorem recovers : forall cap mx ops now,
  2 * N.of_nat (length ops) + 2 <= UID_MAX -> (0 < cap)%nat ->
  let s := run cap mx st_init ops in
  (exists x, In x (t_sess (tb s)) /\ idle now x = true) \/ (length (t_sess (tb s)) < cap)%nat ->
  exists id, snd (step cap mx s (OReserve now)) = RId id /\
    In (mkS id MPlain true false now []) (t_sess (tb (fst (step cap mx s (OReserve now))))) /\
    In id (hids (fst (step cap mx s (OReserve now)))).
Proof.
  intros cap mx ops now Hb Hc s Hroom.
  assert (Hb0 : next_of st_init + 2 * N.of_nat (length ops) <= UID_MAX) by (unfold next_of; cbn [st_init tb t_next]; lia).
  destruct (run_inv1 cap mx ops st_init (inv1_init cap) Hb0) as [Hi Hn].
  fold s in Hi, Hn. unfold next_of in Hn. cbn [st_init tb t_next] in Hn.
  apply reserve_recovers; auto; [unfold next_of; lia|]. destruct Hroom as [Hx|Hl]; auto.
Qed.

(** * the dropped-exchange sweeper is enabled whenever there is something to sweep *)

Lemma find_slot_none : forall p l, find_slot p l = None ->
  forall x e, In x l -> In e (s_exch x) -> p e = false.
Proof.
  intros p l; induction l as [|s r IH]; intros Hf x e Hx He; [inversion Hx|]. cbn in Hf.
  destruct (find_idx p (s_exch s)) as [i|] eqn:Hi; [discriminate|].
  destruct Hx as [->|Hx]; [eapply find_idx_none; eauto|eapply IH; eauto].
Qed.

Lemma find_slot_some : forall p l id xi, find_slot p l = Some (id, xi) -> In id (map s_id l).
Proof.
  intros p l; induction l as [|s r IH]; intros id xi Hf; cbn in Hf; [discriminate|].
  destruct (find_idx p (s_exch s)); [inversion Hf; left; auto|right; eapply IH; eauto].
Qed.

Theorem sweep_enabled : forall cap mx s now x e,
  In x (t_sess (tb s)) -> In e (s_exch x) -> slot_dropped e = true ->
  snd (step cap mx s (OSweep now)) <> RNone.
Proof.
  intros cap mx s now x e Hx He Hd. cbn [step].
  destruct (find_slot slot_retr (t_sess (tb s))) as [[id xi]|] eqn:Hr; [cbn; discriminate|].
  destruct (find_slot slot_dropped (t_sess (tb s))) as [[id xi]|] eqn:Hs.
  - destruct (t_get id now (tb s)) as [t1|] eqn:Hg; [cbn; discriminate|]. exfalso.
    unfold t_get in Hg. destruct (t_find id (tb s)) eqn:Hf; [discriminate|].
    apply (t_find_none _ _ Hf). eapply find_slot_some; eauto.
  - exfalso. rewrite (find_slot_none _ _ Hs x e Hx He) in Hd. discriminate.
Qed.

(** * the PASE in-progress marker does not outlive its time-out *)

Theorem marker_expires : forall a o e now,
  e < now -> marker_check a true now (Some (o, e)) = (Some (a, now + PASE_TIMEOUT_MS), None).
Proof.
  intros a o e now Hlt. unfold marker_check, marker_live.
  destruct (e <? now) eqn:E; [reflexivity|lia].
Qed.

Theorem marker_free_accepts : forall a now,
  marker_check a true now None = (Some (a, now + PASE_TIMEOUT_MS), None).
Proof. reflexivity. Qed.

(** * exchange slots of unsecured sessions belong to running handlers *)

Theorem exchange_slots_owned : forall cap mx ops,
  8 * N.of_nat (length ops) <= UID_MAX ->
  xinv (nrun cap mx node_init ops).
Proof.
  intros cap mx ops Hb.
  assert (Hb0 : next_of (core node_init) + 8 * N.of_nat (length ops) <= UID_MAX)
    by (unfold next_of; cbn [node_init st_init core tb t_next]; lia).
  apply nrun_xinv; auto; [apply inv1_init|apply hinv_init|apply xinv_init].
Qed.

(** * a new handshake gets its two slots when two are reclaimable *)

Theorem handshake_two_slots : forall cap mx ops k now,
  8 * N.of_nat (length ops) + 24 <= UID_MAX ->
  let n := nrun cap mx node_init ops in
  room2 cap now (nl n) ->
  (k = HPase -> marker_live now (marker n) = None) ->
  exists n1 a, first_msg cap mx k now n = (n1, Some a) /\
               snd (nstep cap mx n1 (NAccept a VGood now)) = ROk.
Proof.
  intros cap mx ops k now Hb n Hroom Hm.
  assert (Hb0 : next_of (core node_init) + 8 * N.of_nat (length ops) <= UID_MAX)
    by (unfold next_of; cbn [node_init st_init core tb t_next]; lia).
  destruct (nrun_inv1 cap mx ops node_init (inv1_init cap) Hb0) as [Hi Hn]. fold n in Hi, Hn.
  unfold next_of in Hn at 2. cbn [node_init st_init core tb t_next] in Hn.
  pose proof (nrun_hinv cap mx ops node_init (inv1_init cap) Hb0 hinv_init) as Hh. fold n in Hh.
  apply handshake_gets_both_slots; auto. lia.
Qed.
