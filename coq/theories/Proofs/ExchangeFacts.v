(** Facts about the list helpers and the pure functions of Model/Exchange.v
    (Session::post_recv, add_exch, remove_exch, swap_remove). *)
From RsM Require Import Lib.MachInt Model.Dedup Model.Mrp Model.Exchange.
From Coq Require Import ZifyN ZifyBool Lia Bool PeanoNat Permutation.
Open Scope N_scope.

Arguments N.ltb : simpl never.
Arguments N.leb : simpl never.
Arguments N.eqb : simpl never.
Arguments N.add : simpl never.

(** ** find_index / set_nth *)

Lemma find_index_some {A} (p : A -> bool) (l : list A) (i : nat) :
  find_index p l = Some i -> exists x, nth_error l i = Some x /\ p x = true.
Proof.
  revert i. induction l as [|a t IH]; intros i H; cbn [find_index] in H; [discriminate|].
  destruct (p a) eqn:Hp.
  - inversion H; subst. exists a. split; [reflexivity|exact Hp].
  - destruct (find_index p t) as [k|] eqn:Hf; cbn [option_map] in H; [|discriminate].
    inversion H; subst. destruct (IH k eq_refl) as [x [Hx Hpx]].
    exists x. split; [exact Hx|exact Hpx].
Qed.

Lemma find_index_first {A} (p : A -> bool) (l : list A) (i : nat) :
  find_index p l = Some i ->
  forall j x, (j < i)%nat -> nth_error l j = Some x -> p x = false.
Proof.
  revert i. induction l as [|a t IH]; intros i H j x Hj Hx; cbn [find_index] in H; [discriminate|].
  destruct (p a) eqn:Hp.
  - inversion H; subst. lia.
  - destruct (find_index p t) as [k|] eqn:Hf; cbn [option_map] in H; [|discriminate].
    inversion H; subst. destruct j as [|j]; cbn [nth_error] in Hx.
    + inversion Hx; subst. exact Hp.
    + eapply IH; [reflexivity| |exact Hx]. lia.
Qed.

Lemma find_index_none {A} (p : A -> bool) (l : list A) :
  find_index p l = None -> forall x, In x l -> p x = false.
Proof.
  induction l as [|a t IH]; intros H x Hin; [destruct Hin|].
  cbn [find_index] in H. destruct (p a) eqn:Hp; [discriminate|].
  destruct (find_index p t) eqn:Hf; cbn [option_map] in H; [discriminate|].
  destruct Hin as [->|Hin]; [exact Hp|apply IH; [reflexivity|exact Hin]].
Qed.

Lemma find_index_exists {A} (p : A -> bool) (l : list A) x :
  In x l -> p x = true -> exists i, find_index p l = Some i.
Proof.
  intros Hin Hp. destruct (find_index p l) as [i|] eqn:Hf; [exists i; reflexivity|].
  rewrite (find_index_none p l Hf x Hin) in Hp. discriminate.
Qed.

Lemma set_nth_length {A} (l : list A) i x : length (set_nth l i x) = length l.
Proof.
  revert i. induction l as [|a t IH]; intros [|i]; cbn [set_nth length]; try reflexivity.
  rewrite IH. reflexivity.
Qed.

Lemma nth_error_set_nth_eq {A} (l : list A) i x :
  (i < length l)%nat -> nth_error (set_nth l i x) i = Some x.
Proof.
  revert i. induction l as [|a t IH]; intros [|i] H; cbn [length] in H; cbn [set_nth nth_error];
    try lia; try reflexivity.
  apply IH. lia.
Qed.

Lemma nth_error_set_nth_neq {A} (l : list A) i j x :
  i <> j -> nth_error (set_nth l i x) j = nth_error l j.
Proof.
  revert i j. induction l as [|a t IH]; intros [|i] [|j] H; cbn [set_nth nth_error];
    try reflexivity; try congruence.
  apply IH. congruence.
Qed.

Lemma nth_error_set_nth {A} (l : list A) i j x :
  nth_error (set_nth l i x) j =
  if (i =? j)%nat then (if (i <? length l)%nat then Some x else None) else nth_error l j.
Proof.
  destruct (Nat.eqb_spec i j) as [->|Hne].
  - destruct (Nat.ltb_spec j (length l)) as [Hlt|Hge].
    + apply nth_error_set_nth_eq. exact Hlt.
    + apply nth_error_None. rewrite set_nth_length. exact Hge.
  - apply nth_error_set_nth_neq. exact Hne.
Qed.

Lemma in_set_nth {A} (l : list A) i x y : In y (set_nth l i x) -> y = x \/ In y l.
Proof.
  revert i. induction l as [|a t IH]; intros [|i]; cbn [set_nth]; intros H; try (destruct H; fail).
  - destruct H as [<-|H]; [left; reflexivity|right; right; exact H].
  - destruct H as [<-|H]; [right; left; reflexivity|].
    destruct (IH i H) as [->|Hin]; [left; reflexivity|right; right; exact Hin].
Qed.

(** ** swap_remove *)

Lemma set_nth_app_perm {A} (l : list A) i x y :
  nth_error l i = Some x -> Permutation (l ++ [y]) (x :: set_nth l i y).
Proof.
  revert i. induction l as [|a t IH]; intros [|i] H; cbn [nth_error] in H; try discriminate.
  - inversion H; subst. cbn [set_nth app].
    apply perm_skip. apply Permutation_sym. apply Permutation_cons_append.
  - cbn [set_nth app]. eapply perm_trans; [apply perm_skip; apply (IH i H)|apply perm_swap].
Qed.

Lemma swap_remove_perm {A} (l : list A) i x :
  nth_error l i = Some x -> Permutation l (x :: swap_remove l i).
Proof.
  intros H. unfold swap_remove. destruct (rev l) as [|lst rinit] eqn:E.
  - apply (f_equal (@rev A)) in E. rewrite rev_involutive in E. subst. destruct i; discriminate.
  - apply (f_equal (@rev A)) in E. rewrite rev_involutive in E. cbn [rev] in E.
    set (init := rev rinit) in *. subst l.
    destruct (Nat.eqb_spec i (length init)) as [->|Hne].
    + rewrite nth_error_app2 in H by lia. rewrite Nat.sub_diag in H. cbn in H. inversion H; subst.
      apply Permutation_sym. apply Permutation_cons_append.
    + assert (Hlt : (i < length init)%nat).
      { assert (Hl : (i < length (init ++ [lst]))%nat) by (apply nth_error_Some; congruence).
        rewrite app_length in Hl. cbn [length] in Hl. lia. }
      destruct (Nat.ltb_spec i (length init)) as [_|Hge]; [|lia].
      rewrite nth_error_app1 in H by exact Hlt.
      apply set_nth_app_perm. exact H.
Qed.

Lemma swap_remove_out {A} (l : list A) i : nth_error l i = None -> swap_remove l i = l.
Proof.
  intros H. apply nth_error_None in H. unfold swap_remove.
  destruct (rev l) as [|lst rinit] eqn:E.
  - apply (f_equal (@rev A)) in E. rewrite rev_involutive in E. symmetry. exact E.
  - assert (El : l = rev rinit ++ [lst]).
    { apply (f_equal (@rev A)) in E. rewrite rev_involutive in E. exact E. }
    assert (Hlen : length l = S (length (rev rinit))).
    { rewrite El at 1. rewrite app_length. cbn [length]. lia. }
    destruct (Nat.eqb_spec i (length (rev rinit))); [lia|].
    destruct (Nat.ltb_spec i (length (rev rinit))); [lia|reflexivity].
Qed.

Lemma in_swap_remove {A} (l : list A) i y : In y (swap_remove l i) -> In y l.
Proof.
  intros H. destruct (nth_error l i) as [x|] eqn:E.
  - eapply Permutation_in; [apply Permutation_sym; apply (swap_remove_perm l i x E)|].
    right. exact H.
  - rewrite (swap_remove_out l i E) in H. exact H.
Qed.

Lemma nodup_map_swap_remove {A B} (f : A -> B) (l : list A) i :
  NoDup (map f l) -> NoDup (map f (swap_remove l i)).
Proof.
  intros H. destruct (nth_error l i) as [x|] eqn:E.
  - pose proof (swap_remove_perm l i x E) as P.
    apply (Permutation_map f) in P. apply (Permutation_NoDup P) in H.
    cbn [map] in H. inversion H; assumption.
  - rewrite (swap_remove_out l i E). exact H.
Qed.

Lemma swap_remove_removed {A B} (f : A -> B) (l : list A) i x y :
  NoDup (map f l) -> nth_error l i = Some x -> In y (swap_remove l i) -> f y <> f x.
Proof.
  intros H E Hin. pose proof (swap_remove_perm l i x E) as P.
  apply (Permutation_map f) in P. apply (Permutation_NoDup P) in H.
  cbn [map] in H. inversion H as [|? ? Hnin _]; subst.
  intros Heq. apply Hnin. rewrite <- Heq. apply in_map. exact Hin.
Qed.

Lemma swap_remove_kept {A} (l : list A) i x y :
  nth_error l i = Some x -> In y l -> y = x \/ In y (swap_remove l i).
Proof.
  intros E Hin. pose proof (swap_remove_perm l i x E) as P.
  apply (Permutation_in _ P) in Hin. destruct Hin as [<-|Hin]; [left; reflexivity|right; exact Hin].
Qed.

(** ** exchange matching *)

Lemma find_exch_some l m i e :
  find_exch l m = Some (i, e) -> nth_error l i = Some (Some e) /\ exch_is_for_rx e m = true.
Proof.
  unfold find_exch. destruct (find_index (slot_is_for_rx m) l) as [k|] eqn:Hf; [|discriminate].
  destruct (find_index_some _ _ _ Hf) as [x [Hx Hp]].
  rewrite Hx. destruct x as [e'|]; [|discriminate].
  intros H; inversion H; subst. split; [exact Hx|exact Hp].
Qed.

Lemma find_exch_none l m :
  find_exch l m = None -> forall i e, nth_error l i = Some (Some e) -> exch_is_for_rx e m = false.
Proof.
  unfold find_exch. destruct (find_index (slot_is_for_rx m) l) as [k|] eqn:Hf.
  - destruct (find_index_some _ _ _ Hf) as [x [Hx Hp]]. rewrite Hx.
    destruct x as [e'|]; [discriminate|]. cbn in Hp. discriminate.
  - intros _ i e Hn. apply nth_error_In in Hn.
    apply (find_index_none _ _ Hf (Some e) Hn).
Qed.

Lemma exch_is_for_rx_spec e m :
  exch_is_for_rx e m = true <-> e_id e = m_exid m /\ m_init m = is_responder (e_role e).
Proof.
  unfold exch_is_for_rx. rewrite andb_true_iff, N.eqb_eq, eqb_true_iff. tauto.
Qed.

(** ** add_exch *)

Lemma add_exch_some l e l' i :
  add_exch l e = Some (l', i) ->
  nth_error l' i = Some (Some e) /\
  (forall j, j <> i -> nth_error l' j = nth_error l j) /\
  (nth_error l i = None \/ nth_error l i = Some None) /\
  (length l <= MAX_EXCHANGES -> length l' <= MAX_EXCHANGES)%nat.
Proof.
  unfold add_exch. destruct (Nat.ltb_spec (length l) MAX_EXCHANGES) as [Hlt|Hge].
  - intros H; inversion H; subst. repeat split.
    + rewrite nth_error_app2 by lia. rewrite Nat.sub_diag. reflexivity.
    + intros j Hj. destruct (Nat.ltb_spec j (length l)) as [Hj1|Hj2].
      * apply nth_error_app1. exact Hj1.
      * transitivity (@None (option exch)).
        -- apply nth_error_None. rewrite app_length. cbn [length]. lia.
        -- symmetry. apply nth_error_None. lia.
    + left. apply nth_error_None. lia.
    + intros _. rewrite app_length. cbn [length]. lia.
  - destruct (find_index is_none l) as [k|] eqn:Hf; [|discriminate].
    intros H; inversion H; subst.
    destruct (find_index_some _ _ _ Hf) as [x [Hx Hp]].
    assert (Hlt : (i < length l)%nat) by (apply nth_error_Some; congruence).
    repeat split.
    + apply nth_error_set_nth_eq. exact Hlt.
    + intros j Hj. apply nth_error_set_nth_neq. congruence.
    + right. rewrite Hx. destruct x; [discriminate|reflexivity].
    + intros Hl. rewrite set_nth_length. exact Hl.
Qed.

Lemma add_exch_none l e :
  add_exch l e = None ->
  (MAX_EXCHANGES <= length l)%nat /\ forall i, (i < length l)%nat -> exists x, nth_error l i = Some (Some x).
Proof.
  unfold add_exch. destruct (Nat.ltb_spec (length l) MAX_EXCHANGES) as [Hlt|Hge]; [discriminate|].
  destruct (find_index is_none l) as [k|] eqn:Hf; [discriminate|].
  intros _. split; [exact Hge|]. intros i Hi.
  destruct (nth_error l i) as [o|] eqn:Hn; [|apply nth_error_None in Hn; lia].
  destruct o as [x|]; [exists x; reflexivity|].
  apply nth_error_In in Hn. pose proof (find_index_none _ _ Hf None Hn) as Hc. discriminate.
Qed.

(** ** ReliableMessage on a fresh exchange never fails *)

Lemma rm_post_recv_new ctr ack rel :
  exists r, rm_post_recv rm_new ctr ack rel = (r, Ok tt) /\ rm_received r = true.
Proof.
  unfold rm_post_recv, rm_new. cbn. destruct ack, rel; cbn; eexists; split; reflexivity.
Qed.

Lemma rm_post_recv_ok_received s ctr ack rel r :
  rm_post_recv s ctr ack rel = (r, Ok tt) -> rm_received r = true.
Proof.
  unfold rm_post_recv. destruct ack as [k|], (rm_retr s) as [rt|]; cbn.
  all: try (destruct (r_ctr rt =? k)); cbn; intros H; inversion H; reflexivity.
Qed.

Lemma exch_post_recv_role e m now e' r :
  exch_post_recv e m now = (e', r) -> e_id e' = e_id e /\ e_role e' = e_role e.
Proof.
  unfold exch_post_recv. destruct (rm_post_recv (e_mrp e) (m_ctr m) (m_ack m) (m_rel m)) as [r' [u|c|p]];
    intros H; inversion H; subst; split; reflexivity.
Qed.

Lemma exch_post_recv_ok e m now e' :
  exch_post_recv e m now = (e', Ok tt) ->
  e_rat e' = now /\ rm_received (e_mrp e') = true.
Proof.
  unfold exch_post_recv.
  destruct (rm_post_recv (e_mrp e) (m_ctr m) (m_ack m) (m_rel m)) as [r' [u|c|p]] eqn:E;
    intros H; inversion H; subst. cbn. split; [reflexivity|].
  destruct u. eapply rm_post_recv_ok_received. exact E.
Qed.

Lemma exch_post_recv_err e m now e' r :
  exch_post_recv e m now = (e', r) -> r <> Ok tt -> e' = e.
Proof.
  unfold exch_post_recv. destruct (rm_post_recv (e_mrp e) (m_ctr m) (m_ack m) (m_rel m)) as [r' [u|c|p]];
    intros H Hr; inversion H; subst; try reflexivity. destruct u. congruence.
Qed.

Lemma exch_post_recv_new m now :
  exists e', exch_post_recv (mkExch (m_exid m) RespPending rm_new 0) m now = (e', Ok tt).
Proof.
  unfold exch_post_recv. cbn [e_mrp].
  destruct (rm_post_recv_new (m_ctr m) (m_ack m) (m_rel m)) as [r [E _]]. rewrite E.
  eexists. reflexivity.
Qed.

(** ** Session::post_recv *)

Definition slot_view (o : option exch) : option (N * role) :=
  match o with Some e => Some (e_id e, e_role e) | None => None end.

(** the (exchange id, role) table of a session, what routing decisions read *)
Definition table (s : session) : list (option (N * role)) := map slot_view (s_exchs s).

Lemma session_post_recv_raw_fields s m now s' r :
  session_post_recv_raw s m now = (s', r) ->
  s_id s' = s_id s /\ s_key s' = s_key s /\ s_enc s' = s_enc s /\ s_expired s' = s_expired s /\
  s_group s' = s_group s.
Proof.
  unfold session_post_recv_raw.
  destruct (post_recv (s_win s) (m_ctr m) (s_enc s) false) as [w' fresh].
  destruct fresh; cbn [negb].
  2:{ intros H; inversion H; subst. cbn. tauto. }
  destruct (find_exch (s_exchs s) m) as [[i e]|].
  - destruct (exch_post_recv e m now) as [e' [u|c|p]]; intros H; inversion H; subst; cbn; tauto.
  - destruct (negb (m_init m) || negb (is_new_exchange (m_op m))).
    { intros H; inversion H; subst; cbn; tauto. }
    destruct (s_expired s) eqn:Hex.
    { intros H; inversion H; subst; cbn; rewrite ?Hex; tauto. }
    destruct (add_exch (s_exchs s) _) as [[l' i]|].
    + destruct (exch_post_recv _ m now) as [e' [u|c|p]]; intros H; inversion H; subst; cbn; rewrite ?Hex; tauto.
    + intros H; inversion H; subst; cbn; rewrite ?Hex; tauto.
Qed.

Lemma map_set_nth {A B} (f : A -> B) (l : list A) i x :
  map f (set_nth l i x) = set_nth (map f l) i (f x).
Proof.
  revert i. induction l as [|a t IH]; intros [|i]; cbn [set_nth map]; try reflexivity.
  rewrite IH. reflexivity.
Qed.

Lemma set_nth_same {A} (l : list A) i x : nth_error l i = Some x -> set_nth l i x = l.
Proof.
  revert i. induction l as [|a t IH]; intros [|i] H; cbn [nth_error] in H; try discriminate; cbn [set_nth].
  - inversion H; reflexivity.
  - rewrite (IH i H). reflexivity.
Qed.

(** The complete characterisation of the routing decision. *)
Lemma session_post_recv_raw_cases s m now s' r :
  session_post_recv_raw s m now = (s', r) ->
  snd (post_recv (s_win s) (m_ctr m) (s_enc s) false) = false /\ r = Err ERR_DUPLICATE /\ s_exchs s' = s_exchs s
  \/
  snd (post_recv (s_win s) (m_ctr m) (s_enc s) false) = true /\
  ( (exists i e, find_exch (s_exchs s) m = Some (i, e) /\
       ( (exists e', exch_post_recv e m now = (e', Ok tt) /\ r = Ok false /\
                     s_exchs s' = set_nth (s_exchs s) i (Some e'))
         \/ (r <> Ok false /\ r <> Ok true /\ s_exchs s' = s_exchs s) ))
    \/
    (find_exch (s_exchs s) m = None /\
       ( (m_init m = false \/ is_new_exchange (m_op m) = false) /\ r = Err ERR_NO_EXCHANGE /\ s_exchs s' = s_exchs s
         \/
         m_init m = true /\ is_new_exchange (m_op m) = true /\ s_expired s = true /\
           r = Err ERR_NO_SESSION /\ s_exchs s' = s_exchs s
         \/
         m_init m = true /\ is_new_exchange (m_op m) = true /\ s_expired s = false /\
           add_exch (s_exchs s) (mkExch (m_exid m) RespPending rm_new 0) = None /\
           r = Err ERR_NO_SPACE_EXCHANGES /\ s_exchs s' = s_exchs s
         \/
         m_init m = true /\ is_new_exchange (m_op m) = true /\ s_expired s = false /\
           exists l' i e', add_exch (s_exchs s) (mkExch (m_exid m) RespPending rm_new 0) = Some (l', i) /\
             exch_post_recv (mkExch (m_exid m) RespPending rm_new 0) m now = (e', Ok tt) /\
             r = Ok true /\ s_exchs s' = set_nth l' i (Some e')))).
Proof.
  unfold session_post_recv_raw.
  destruct (post_recv (s_win s) (m_ctr m) (s_enc s) false) as [w' fresh]. cbn [snd].
  destruct fresh; cbn [negb].
  2:{ intros H; inversion H; subst. left. cbn. tauto. }
  intros H0. right. split; [reflexivity|]. revert H0.
  destruct (find_exch (s_exchs s) m) as [[i e]|] eqn:Hf.
  - intros H0. left. exists i, e. split; [reflexivity|]. revert H0.
    destruct (exch_post_recv e m now) as [e' [u|c|p]] eqn:He; intros HH; inversion HH; subst.
    + left. exists e'. destruct u. cbn. tauto.
    + right. cbn. repeat split; congruence.
    + right. cbn. repeat split; congruence.
  - intros H0. right. split; [reflexivity|]. revert H0.
    destruct (m_init m) eqn:Hi; cbn [negb orb].
    2:{ intros H; inversion H; subst. left. cbn. tauto. }
    destruct (is_new_exchange (m_op m)) eqn:Hn; cbn [negb].
    2:{ intros H; inversion H; subst. left. cbn. tauto. }
    destruct (s_expired s) eqn:Hex.
    { intros H; inversion H; subst. right. left. cbn. tauto. }
    destruct (add_exch (s_exchs s) _) as [[l' i]|] eqn:Ha.
    + destruct (exch_post_recv_new m now) as [e' He]. rewrite He.
      intros H; inversion H; subst. right. right. right. cbn.
      repeat split; try reflexivity. exists l', i, e'. tauto.
    + intros H; inversion H; subst. right. right. left. cbn. tauto.
Qed.

(** ** the R / A flags of group data messages are not honoured *)

Lemma effective_fields s m :
  m_key (effective s m) = m_key m /\ m_enc (effective s m) = m_enc m /\
  m_group (effective s m) = m_group m /\ m_ctr (effective s m) = m_ctr m /\
  m_exid (effective s m) = m_exid m /\ m_init (effective s m) = m_init m /\
  m_op (effective s m) = m_op m.
Proof. unfold effective. destruct (s_group s && negb (m_ctl m)); cbn; tauto. Qed.

Lemma effective_plain s m : s_group s = false -> effective s m = m.
Proof. intros H. unfold effective. rewrite H. reflexivity. Qed.

Lemma find_index_ext {A} (p q : A -> bool) l :
  (forall x, p x = q x) -> find_index p l = find_index q l.
Proof.
  intros H. induction l as [|a t IH]; [reflexivity|]. cbn [find_index]. rewrite H, IH. reflexivity.
Qed.

Lemma find_exch_same l m m' :
  m_exid m' = m_exid m -> m_init m' = m_init m -> find_exch l m' = find_exch l m.
Proof.
  intros E1 E2. unfold find_exch.
  rewrite (find_index_ext (slot_is_for_rx m') (slot_is_for_rx m)); [reflexivity|].
  intros [e|]; [|reflexivity]. cbn. unfold exch_is_for_rx. rewrite E1, E2. reflexivity.
Qed.

Lemma find_exch_effective s l m : find_exch l (effective s m) = find_exch l m.
Proof. destruct (effective_fields s m) as [_ [_ [_ [_ [E1 [E2 _]]]]]]. apply find_exch_same; assumption. Qed.

Lemma session_post_recv_fields s m now s' r :
  session_post_recv s m now = (s', r) ->
  s_id s' = s_id s /\ s_key s' = s_key s /\ s_enc s' = s_enc s /\ s_expired s' = s_expired s /\
  s_group s' = s_group s.
Proof. unfold session_post_recv. apply session_post_recv_raw_fields. Qed.

(** the characterisation of [Session::post_recv]; the reliability layer sees
    [effective s m], everything else reads fields that [effective] leaves alone *)
Lemma session_post_recv_cases s m now s' r :
  session_post_recv s m now = (s', r) ->
  snd (post_recv (s_win s) (m_ctr m) (s_enc s) false) = false /\ r = Err ERR_DUPLICATE /\ s_exchs s' = s_exchs s
  \/
  snd (post_recv (s_win s) (m_ctr m) (s_enc s) false) = true /\
  ( (exists i e, find_exch (s_exchs s) m = Some (i, e) /\
       ( (exists e', exch_post_recv e (effective s m) now = (e', Ok tt) /\ r = Ok false /\
                     s_exchs s' = set_nth (s_exchs s) i (Some e'))
         \/ (r <> Ok false /\ r <> Ok true /\ s_exchs s' = s_exchs s) ))
    \/
    (find_exch (s_exchs s) m = None /\
       ( (m_init m = false \/ is_new_exchange (m_op m) = false) /\ r = Err ERR_NO_EXCHANGE /\ s_exchs s' = s_exchs s
         \/
         m_init m = true /\ is_new_exchange (m_op m) = true /\ s_expired s = true /\
           r = Err ERR_NO_SESSION /\ s_exchs s' = s_exchs s
         \/
         m_init m = true /\ is_new_exchange (m_op m) = true /\ s_expired s = false /\
           add_exch (s_exchs s) (mkExch (m_exid m) RespPending rm_new 0) = None /\
           r = Err ERR_NO_SPACE_EXCHANGES /\ s_exchs s' = s_exchs s
         \/
         m_init m = true /\ is_new_exchange (m_op m) = true /\ s_expired s = false /\
           exists l' i e', add_exch (s_exchs s) (mkExch (m_exid m) RespPending rm_new 0) = Some (l', i) /\
             exch_post_recv (mkExch (m_exid m) RespPending rm_new 0) (effective s m) now = (e', Ok tt) /\
             r = Ok true /\ s_exchs s' = set_nth l' i (Some e')))).
Proof.
  unfold session_post_recv. intros H. apply session_post_recv_raw_cases in H.
  destruct (effective_fields s m) as [_ [_ [_ [Ec [Ex [Ei Eo]]]]]].
  rewrite Ec, Ex, Ei, Eo, find_exch_effective in H. exact H.
Qed.
