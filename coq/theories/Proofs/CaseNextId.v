(** C01: the session-id cursor never moves backwards. *)
From Coq Require Import ZifyN ZifyBool.
From RsM Require Import Lib.MachInt Model.Cert Model.CertSpec Model.Case Model.CaseSpec
  Proofs.CertTheorems Proofs.CaseFacts.
Open Scope N_scope.
Arguments N.add : simpl never.
Arguments N.eqb : simpl never.

Ltac break_match :=
  repeat match goal with
         | |- context [match ?x with _ => _ end] => destruct x
         | |- context [if ?x then _ else _] => destruct x
         end.

Lemma resp_try_resume_next_id : forall st slot fr q o,
  resp_try_resume st slot fr q = Some o -> n_next_id (ro_node o) = n_next_id st.
Proof.
  intros st slot fr q o. unfold resp_try_resume.
  destruct (g1_rid q); [|discriminate]. destruct (g1_mic q); [|discriminate].
  destruct (find_by_rid (n_cache st) t); [|discriminate].
  destruct (negb _); [discriminate|].
  destruct (get_fabric (r_fab r) (n_fabrics st)); intros H; inversion H; reflexivity.
Qed.

Lemma resp_step_next_id : forall st rs fr m, n_next_id st <= n_next_id (ro_node (resp_step st rs fr m)).
Proof.
  intros st rs fr m. destruct rs; cbn [resp_step].
  - unfold resp_first. destruct (reserve st) as [st1 slot] eqn:Hr. unfold reserve in Hr. inversion Hr; subst; clear Hr.
    destruct (negb _); [cbn; lia|]. destruct (parse_sigma1 m); try (cbn; lia).
    destruct (resp_try_resume _ _ fr v) eqn:E.
    + apply resp_try_resume_next_id in E. rewrite E. cbn. lia.
    + unfold resp_sigma1. break_match; cbn; lia.
  - unfold resp_sigma3. break_match; cbn; lia.
  - unfold resp_finished. break_match; cbn; lia.
  - cbn. lia.
Qed.

Lemma resp_run_next_id : forall fr ms st rs st' rs' out,
  resp_run st rs fr ms = (st', rs', out) -> n_next_id st <= n_next_id st'.
Proof.
  induction ms as [|m r IH]; intros st rs st' rs' out H; cbn [resp_run] in H.
  - inversion H; subst. lia.
  - destruct (resp_run (ro_node (resp_step st rs fr m)) (ro_state (resp_step st rs fr m)) fr r) as [[a b] c] eqn:E.
    inversion H; subst. apply IH in E. pose proof (resp_step_next_id st rs fr m). lia.
Qed.

Lemma init_step_next_id : forall st s m, n_next_id st <= n_next_id (io_node (init_step st s m)).
Proof.
  intros st s m. destruct s; cbn [init_step].
  - unfold init_resume, init_sigma2. break_match; cbn; lia.
  - unfold init_finish. break_match; cbn; lia.
  - cbn. lia.
  - cbn. lia.
Qed.

Lemma init_run_next_id : forall ms st s st' s' out,
  init_run st s ms = (st', s', out) -> n_next_id st <= n_next_id st'.
Proof.
  induction ms as [|m r IH]; intros st s st' s' out H; cbn [init_run] in H.
  - inversion H; subst. lia.
  - destruct (init_run (io_node (init_step st s m)) (io_state (init_step st s m)) r) as [[a b] c] eqn:E.
    inversion H; subst. apply IH in E. pose proof (init_step_next_id st s m). lia.
Qed.

Lemma init_start_next_id : forall st fr fab peer, n_next_id st <= n_next_id (io_node (init_start st fr fab peer)).
Proof. intros. unfold init_start, reserve. break_match; cbn; lia. Qed.
