(** Round trip: every well-formed tree written by the writer decodes
    back to itself; the skipping loops of the reader walk exactly the
    bytes of a written element. *)
From Coq Require Import NArith ZArith List Bool Lia ZifyN ZifyBool.
From RsM Require Import Model.Tlv Proofs.TlvFacts Proofs.TlvWriter.
Import ListNotations.
Open Scope N_scope.

Fixpoint nsum (l : list nat) : nat :=
  match l with [] => 0 | a :: r => a + nsum r end.

(** number of TLV items (loop iterations) of a tree *)
Fixpoint items (x : tree) : nat :=
  match x with
  | Leaf _ _ => 1
  | Node _ _ cs => S (S (nsum (map items cs)))
  end.
Definition items_list (cs : list tree) : nat := nsum (map items cs).

Lemma encode_node t k cs rest :
  encode (Node t k cs) ++ rest = w_start t k ++ encode_list cs ++ w_end ++ rest.
Proof. cbn [encode]. unfold encode_list. rewrite <- !app_assoc. reflexivity. Qed.

Lemma encode_list_cons c r rest :
  encode_list (c :: r) ++ rest = encode c ++ encode_list r ++ rest.
Proof. unfold encode_list. cbn [flat_map]. rewrite <- app_assoc. reflexivity. Qed.

Lemma blen_encode_node t k cs :
  blen (encode (Node t k cs)) = blen (w_start t k) + blen (encode_list cs) + 1.
Proof. cbn [encode]. fold (encode_list cs). rewrite !blen_app. change (blen w_end) with 1. lia. Qed.

Lemma blen_encode_list_cons c r :
  blen (encode_list (c :: r)) = blen (encode c) + blen (encode_list r).
Proof. unfold encode_list. cbn [flat_map]. apply blen_app. Qed.

Lemma blen_w_start_pos t k : 1 <= blen (w_start t k).
Proof. unfold w_start, w_raw_value. rewrite blen_cons. lia. Qed.

Lemma blen_encode_pos x : 1 <= blen (encode x).
Proof.
  destruct x; cbn [encode].
  - unfold w_tlv, w_raw_value. cbn [app]. rewrite blen_cons. lia.
  - unfold w_start, w_raw_value. cbn [app]. rewrite blen_cons. lia.
Qed.

Lemma items_le_length x : (items x <= length (encode x))%nat.
Proof.
  induction x as [t v|t k cs IH] using tree_ind2.
  - pose proof (blen_encode_pos (Leaf t v)) as H. cbn [items]. unfold blen in H. lia.
  - cbn [items encode]. rewrite !app_length. cbn [w_end length].
    pose proof (blen_w_start_pos t k) as Hs. unfold blen in Hs.
    assert (nsum (map items cs) <= length (flat_map encode cs))%nat.
    { induction IH as [|c r Hc Hr IHr]; cbn [map nsum flat_map]; [lia|].
      rewrite app_length. lia. }
    lia.
Qed.

Lemma items_list_le_length cs : (items_list cs <= length (encode_list cs))%nat.
Proof.
  unfold items_list, encode_list. induction cs as [|c r IH]; cbn [map nsum flat_map]; [lia|].
  rewrite app_length. pose proof (items_le_length c). lia.
Qed.

(** * [cn_loop] skips a written tree *)

Lemma level_nz level : 1 <= level -> (level =? 0) = false.
Proof. intros. lia. Qed.

Lemma level_step_leaf t v level :
  wf_val v -> level_step (tagtype_of_tag t, vtype_of_val v) level = ROk level.
Proof.
  intros Hw. unfold level_step. cbn [snd].
  pose proof (leaf_not_container v Hw) as Hc. unfold is_container_vt in Hc.
  apply orb_false_iff in Hc as [_ Hc2]. rewrite Hc2.
  unfold is_container_vt. rewrite Hc2. destruct (is_cstart _) eqn:E; [|reflexivity].
  pose proof (leaf_not_container v Hw) as Hc. unfold is_container_vt in Hc. rewrite E in Hc. discriminate.
Qed.

Lemma level_step_start t k level :
  level + 1 < two64 -> level_step (tagtype_of_tag t, TCont k) level = ROk (level + 1).
Proof.
  intros H. unfold level_step. cbn [snd is_cend is_container_vt is_cstart orb].
  destruct (N.ltb_spec (level + 1) two64); [reflexivity|lia].
Qed.

Lemma level_step_end level : level_step (GAnon, TEnd) level = ROk (level - 1).
Proof. reflexivity. Qed.

Lemma cn_loop_S f next level :
  cn_loop (S f) next level =
  if level =? 0 then ROk next
  else let! c := control next in
       let! level' := level_step c level in
       let! next' := next_enter next in
       cn_loop f next' level'.
Proof. reflexivity. Qed.

Lemma cn_loop_tree x :
  wf_tree x -> forall fuel rest level,
  1 <= level -> level + blen (encode x) < two64 ->
  cn_loop (items x + fuel) (encode x ++ rest) level = cn_loop fuel rest level.
Proof.
  induction x as [t v|t k cs IH] using tree_ind2; intros Hw fuel rest level Hl Hb.
  - destruct Hw as [Ht Hv]. cbn [items encode Nat.add]. rewrite cn_loop_S.
    rewrite level_nz, leaf_control by assumption. cbn [rbind].
    rewrite level_step_leaf by assumption. cbn [rbind].
    rewrite leaf_next_enter by assumption. reflexivity.
  - apply wf_node in Hw as [Ht Hcs]. rewrite encode_node.
    rewrite blen_encode_node in Hb. pose proof (blen_w_start_pos t k) as Hs.
    replace (items (Node t k cs) + fuel)%nat with (S (items_list cs + S fuel))
      by (cbn [items]; unfold items_list; lia).
    rewrite cn_loop_S.
    rewrite level_nz, start_control by assumption. cbn [rbind].
    rewrite level_step_start by lia. cbn [rbind].
    rewrite start_next_enter. cbn [rbind].
    (* the children, at level + 1 *)
    assert (Hlist : forall fuel' rest' level',
      1 <= level' -> level' + blen (encode_list cs) < two64 ->
      cn_loop (items_list cs + fuel') (encode_list cs ++ rest') level' = cn_loop fuel' rest' level').
    { clear Hb Hs. induction IH as [|c r Hc Hr IHr]; intros fuel' rest' level' Hl' Hb'.
      - reflexivity.
      - apply Forall_cons_iff in Hcs as [Hwc Hwr].
        rewrite encode_list_cons. rewrite blen_encode_list_cons in Hb'.
        unfold items_list. cbn [map nsum]. rewrite <- Nat.add_assoc.
        rewrite Hc by (auto; lia). apply IHr; auto. lia. }
    rewrite Hlist by lia.
    rewrite cn_loop_S. rewrite level_nz, end_control by lia. cbn [rbind].
    rewrite level_step_end. cbn [rbind]. rewrite end_next_enter. cbn [rbind].
    replace (level + 1 - 1) with level by lia. reflexivity.
Qed.

Lemma cn_loop_list cs :
  wf_list cs -> forall fuel rest level,
  1 <= level -> level + blen (encode_list cs) < two64 ->
  cn_loop (items_list cs + fuel) (encode_list cs ++ rest) level = cn_loop fuel rest level.
Proof.
  induction 1 as [|c r Hc Hr IH]; intros fuel rest level Hl Hb.
  - reflexivity.
  - rewrite encode_list_cons. rewrite blen_encode_list_cons in Hb.
    unfold items_list. cbn [map nsum]. rewrite <- Nat.add_assoc.
    rewrite cn_loop_tree by (auto; lia). apply IH; auto. lia.
Qed.

Lemma container_next_control s c :
  control s = ROk c ->
  container_next s =
  if is_cend (snd c) then (let! _ := confirm_end c in ROk s)
  else let! next := next_enter s in
       if is_container_vt (snd c) then cn_loop (S (length s)) next 1 else ROk next.
Proof.
  intros H. destruct s as [|b s]; [cbn in H; discriminate|].
  unfold container_next. rewrite H. reflexivity.
Qed.

Lemma container_next_tree x rest :
  wf_tree x -> blen (encode x ++ rest) < two63 ->
  container_next (encode x ++ rest) = ROk rest.
Proof.
  intros Hw Hb. destruct x as [t v|t k cs].
  - destruct Hw as [Ht Hv]. cbn [encode].
    rewrite (container_next_control _ _ (leaf_control t v rest)). cbn [snd].
    pose proof (leaf_not_container v Hv) as Hn. unfold is_container_vt in *.
    apply orb_false_iff in Hn as [Hn1 Hn2]. rewrite Hn2, Hn1. cbn [orb].
    rewrite leaf_next_enter by assumption. reflexivity.
  - apply wf_node in Hw as [Ht Hcs].
    rewrite encode_node in *.
    rewrite (container_next_control _ _ (start_control t k (encode_list cs ++ w_end ++ rest))).
    cbn [snd is_cend is_container_vt is_cstart orb].
    rewrite start_next_enter. cbn [rbind].
    pose proof (items_list_le_length cs) as Hit.
    assert (Hlen : (length (encode_list cs) + 2 <= length (w_start t k ++ encode_list cs ++ w_end ++ rest))%nat).
    { rewrite !app_length. pose proof (blen_w_start_pos t k). cbn [w_end length]. nlia. }
    remember (S (length (w_start t k ++ encode_list cs ++ w_end ++ rest))) as F.
    replace F with (items_list cs + (F - items_list cs))%nat by lia.
    rewrite cn_loop_list; [|assumption|lia|].
    2:{ rewrite !blen_app in Hb. nlia. }
    destruct (F - items_list cs)%nat as [|[|f]] eqn:EF; [lia|lia|].
    rewrite cn_loop_S. change (1 =? 0) with false. cbv iota.
    rewrite end_control. cbn [rbind]. rewrite level_step_end. cbn [rbind].
    rewrite end_next_enter. reflexivity.
Qed.

(** * [cvl_loop] measures a written tree *)

Definition skips (it : bytes) : Prop := forall R, next_enter (it ++ R) = ROk R.

Definition last_item (x : tree) : bytes :=
  match x with Leaf t v => w_tlv t v | Node _ _ _ => w_end end.

Lemma skips_last_item x : wf_tree x -> skips (last_item x).
Proof.
  destruct x as [t v|t k cs]; intros Hw R; cbn [last_item].
  - apply leaf_next_enter. apply Hw.
  - apply end_next_enter.
Qed.

Lemma cvl_loop_S f next len level :
  cvl_loop (S f) next len level =
  if level =? 0 then ROk len
  else let! next' := next_enter next in
       let! l := len_ next' in
       let! len' := add_len len l in
       let! c := control next' in
       let! level' := level_step c level in
       cvl_loop f next' len' level'.
Proof. reflexivity. Qed.

Lemma add_len_ok a b : a + b < two64 -> add_len a b = ROk (a + b).
Proof. intros H. unfold add_len. destruct (N.ltb_spec (a + b) two64); [reflexivity|lia]. Qed.

Lemma cvl_loop_tree x :
  wf_tree x -> forall it fuel rest len level,
  skips it -> 1 <= level ->
  level + blen (encode x) < two64 -> len + blen (encode x) < two64 ->
  cvl_loop (items x + fuel) (it ++ encode x ++ rest) len level
  = cvl_loop fuel (last_item x ++ rest) (len + blen (encode x)) level.
Proof.
  induction x as [t v|t k cs IH] using tree_ind2; intros Hw it fuel rest len level Hsk Hl Hb Hlen.
  - destruct Hw as [Ht Hv]. cbn [items encode Nat.add last_item] in *. rewrite cvl_loop_S.
    rewrite level_nz, Hsk by assumption. cbn [rbind].
    rewrite leaf_len by (auto; lia). cbn [rbind].
    rewrite add_len_ok by lia. cbn [rbind].
    rewrite leaf_control. cbn [rbind]. rewrite level_step_leaf by assumption. reflexivity.
  - apply wf_node in Hw as [Ht Hcs]. rewrite encode_node. cbn [last_item].
    rewrite blen_encode_node in *. pose proof (blen_w_start_pos t k) as Hs.
    replace (items (Node t k cs) + fuel)%nat with (S (items_list cs + S fuel))
      by (cbn [items]; unfold items_list; lia).
    rewrite cvl_loop_S. rewrite level_nz, Hsk by assumption. cbn [rbind].
    rewrite start_len. cbn [rbind]. rewrite add_len_ok by lia. cbn [rbind].
    rewrite start_control. cbn [rbind]. rewrite level_step_start by lia. cbn [rbind].
    assert (Hlist : forall it' fuel' rest' len' level',
      skips it' -> 1 <= level' ->
      level' + blen (encode_list cs) < two64 -> len' + blen (encode_list cs) < two64 ->
      exists it'', skips it'' /\
      cvl_loop (items_list cs + fuel') (it' ++ encode_list cs ++ rest') len' level'
      = cvl_loop fuel' (it'' ++ rest') (len' + blen (encode_list cs)) level').
    { clear Hb Hlen Hs Hsk. induction IH as [|c r Hc Hr IHr];
        intros it' fuel' rest' len' level' Hsk' Hl' Hb' Hlen'.
      - exists it'. split; [assumption|]. unfold encode_list. cbn [flat_map app].
        rewrite blen_nil, N.add_0_r. reflexivity.
      - apply Forall_cons_iff in Hcs as [Hwc Hwr].
        rewrite encode_list_cons. rewrite blen_encode_list_cons in *.
        unfold items_list. cbn [map nsum]. rewrite <- Nat.add_assoc.
        rewrite Hc by (auto; lia).
        destruct (IHr Hwr (last_item c) fuel' rest' (len' + blen (encode c)) level')
          as (it'' & Hsk'' & E); [apply skips_last_item; assumption|assumption|lia|lia|].
        exists it''. split; [assumption|]. unfold items_list in E. rewrite E.
        rewrite N.add_assoc. reflexivity. }
    destruct (Hlist (w_start t k) (S fuel) (w_end ++ rest) (len + blen (w_start t k)) (level + 1))
      as (it'' & Hsk'' & E); [intros R; apply start_next_enter|lia|lia|lia|].
    rewrite E. rewrite cvl_loop_S. rewrite level_nz, Hsk'' by lia. cbn [rbind].
    rewrite end_len. cbn [rbind]. rewrite add_len_ok by lia. cbn [rbind].
    rewrite end_control. cbn [rbind]. rewrite level_step_end. cbn [rbind].
    replace (level + 1 - 1) with level by lia.
    replace (len + blen (w_start t k) + blen (encode_list cs) + 1)
      with (len + (blen (w_start t k) + blen (encode_list cs) + 1)) by lia.
    reflexivity.
Qed.

Lemma cvl_loop_list cs :
  wf_list cs -> forall it fuel rest len level,
  skips it -> 1 <= level ->
  level + blen (encode_list cs) < two64 -> len + blen (encode_list cs) < two64 ->
  exists it', skips it' /\
  cvl_loop (items_list cs + fuel) (it ++ encode_list cs ++ rest) len level
  = cvl_loop fuel (it' ++ rest) (len + blen (encode_list cs)) level.
Proof.
  induction 1 as [|c r Hc Hr IH]; intros it fuel rest len level Hsk Hl Hb Hlen.
  - exists it. split; [assumption|]. unfold encode_list. cbn [flat_map app].
    rewrite blen_nil, N.add_0_r. reflexivity.
  - rewrite encode_list_cons. rewrite blen_encode_list_cons in *.
    unfold items_list. cbn [map nsum]. rewrite <- Nat.add_assoc.
    rewrite cvl_loop_tree by (auto; lia).
    destruct (IH (last_item c) fuel rest (len + blen (encode c)) level)
      as (it' & Hsk' & E); [apply skips_last_item; assumption|assumption|lia|lia|].
    exists it'. split; [assumption|]. unfold items_list in E. rewrite E.
    rewrite N.add_assoc. reflexivity.
Qed.

Lemma container_value_len_node t k cs rest :
  wf_list cs -> blen (w_start t k ++ encode_list cs ++ w_end ++ rest) < two63 ->
  container_value_len (w_start t k ++ encode_list cs ++ w_end ++ rest) (tagtype_of_tag t, TCont k)
  = ROk (blen (encode_list cs) + 1).
Proof.
  intros Hcs Hb. unfold container_value_len. cbn [snd is_container_vt is_cstart orb].
  pose proof (items_list_le_length cs) as Hit.
  assert (Hlen : (length (encode_list cs) + 2 <= length (w_start t k ++ encode_list cs ++ w_end ++ rest))%nat).
  { rewrite !app_length. pose proof (blen_w_start_pos t k). cbn [w_end length]. nlia. }
  rewrite !blen_app in Hb.
  remember (S (length (w_start t k ++ encode_list cs ++ w_end ++ rest))) as F.
  replace F with (items_list cs + (F - items_list cs))%nat by lia.
  destruct (cvl_loop_list cs Hcs (w_start t k) (F - items_list cs)%nat (w_end ++ rest) 0 1)
    as (it' & Hsk & E); [intros R; apply start_next_enter|lia|nlia|nlia|].
  rewrite E. destruct (F - items_list cs)%nat as [|[|f]] eqn:EF; [lia|lia|].
  rewrite cvl_loop_S. change (1 =? 0) with false. cbv iota. rewrite Hsk. cbn [rbind].
  rewrite end_len. cbn [rbind]. rewrite add_len_ok by nlia. cbn [rbind].
  rewrite end_control. cbn [rbind]. rewrite level_step_end. cbn [rbind].
  rewrite cvl_loop_S. change (1 - 1 =? 0) with true. cbv iota. rewrite N.add_0_l. reflexivity.
Qed.

Lemma container_value_node t k cs rest :
  wf_list cs -> blen (encode (Node t k cs) ++ rest) < two63 ->
  container_value (encode (Node t k cs) ++ rest) (tagtype_of_tag t, TCont k)
  = ROk (encode_list cs ++ w_end).
Proof.
  intros Hcs Hb. rewrite encode_node in *. unfold container_value.
  rewrite container_value_len_node by assumption. cbn [rbind].
  rewrite start_value_start. cbn [rbind].
  replace (blen (encode_list cs) + 1) with (blen (encode_list cs ++ w_end))
    by (rewrite blen_app; reflexivity).
  replace (encode_list cs ++ w_end ++ rest) with ((encode_list cs ++ w_end) ++ rest)
    by (rewrite <- app_assoc; reflexivity).
  rewrite get_to_app. reflexivity.
Qed.

Lemma node_el_value t k cs rest :
  wf_list cs -> blen (encode (Node t k cs) ++ rest) < two63 ->
  el_value (encode (Node t k cs) ++ rest) = ROk (VCont k).
Proof.
  intros Hcs Hb. unfold el_value.
  assert (Hc : control (encode (Node t k cs) ++ rest) = ROk (tagtype_of_tag t, TCont k))
    by (rewrite encode_node; apply start_control).
  rewrite Hc. cbn [rbind]. rewrite container_value_node by assumption. reflexivity.
Qed.

(** * Decoding a written tree *)

Fixpoint dfuel (x : tree) : nat :=
  match x with
  | Leaf _ _ => 1
  | Node _ _ cs => S (S (nsum (map (fun c => S (dfuel c)) cs)))
  end.
Definition dseq (cs : list tree) : nat := S (nsum (map (fun c => S (dfuel c)) cs)).

Lemma current_control s c :
  control s = ROk c ->
  current s = if is_cend (snd c) then (let! _ := confirm_end c in ROk []) else ROk s.
Proof.
  intros H. destruct s as [|b s]; [cbn in H; discriminate|].
  unfold current. rewrite H. reflexivity.
Qed.

Lemma encode_control x rest :
  wf_tree x -> exists c, control (encode x ++ rest) = ROk c /\ is_cend (snd c) = false.
Proof.
  destruct x as [t v|t k cs]; intros Hw.
  - exists (tagtype_of_tag t, vtype_of_val v). split; [apply leaf_control|].
    destruct Hw as [_ Hv]. apply leaf_not_container in Hv. unfold is_container_vt in Hv.
    apply orb_false_iff in Hv. tauto.
  - exists (tagtype_of_tag t, TCont k). split; [|reflexivity].
    rewrite encode_node. apply start_control.
Qed.

Lemma seq_iter_next_tree x rest :
  wf_tree x -> blen (encode x ++ rest) < two63 ->
  seq_iter_next (encode x ++ rest) = (ROk (Some (encode x ++ rest)), rest).
Proof.
  intros Hw Hb. unfold seq_iter_next.
  destruct (encode_control x rest Hw) as (c & Hc & Hend).
  rewrite (current_control _ _ Hc), Hend. cbn [rbind].
  rewrite container_next_tree by assumption. cbn [rbind].
  destruct (encode x ++ rest) eqn:E; [cbn in Hc; discriminate|]. reflexivity.
Qed.

Lemma seq_iter_next_end rest :
  seq_iter_next (w_end ++ rest) = (ROk None, w_end ++ rest).
Proof.
  unfold seq_iter_next.
  rewrite (current_control _ _ (end_control rest)).
  rewrite (container_next_control _ _ (end_control rest)). reflexivity.
Qed.

Lemma decode_el_S f s :
  decode_el (S f) s =
  let! t := el_tag s in
  let! v := el_value s in
  match v with
  | VCont k => let! sq := el_container s in let! cs := decode_seq f sq in ROk (Node t k cs)
  | _ => ROk (Leaf t v)
  end.
Proof. reflexivity. Qed.

Lemma decode_seq_S f s :
  decode_seq (S f) s =
  match seq_iter_next s with
  | (ROk None, _) => ROk []
  | (ROk (Some e), s') => let! x := decode_el f e in let! r := decode_seq f s' in ROk (x :: r)
  | (RErr c, _) => RErr c
  | (RPanic p, _) => RPanic p
  | (RFuel, _) => RFuel
  end.
Proof. reflexivity. Qed.

Lemma decode_tree x :
  wf_tree x -> forall f rest,
  (dfuel x <= f)%nat -> blen (encode x ++ rest) < two63 ->
  decode_el f (encode x ++ rest) = ROk x.
Proof.
  induction x as [t v|t k cs IH] using tree_ind2; intros Hw f rest Hf Hb.
  - destruct Hw as [Ht Hv]. destruct f as [|f]; [cbn [dfuel] in Hf; lia|].
    rewrite decode_el_S. cbn [encode].
    rewrite leaf_el_tag, leaf_el_value by assumption. cbn [rbind].
    destruct v; try reflexivity. contradiction.
  - pose proof Hw as Hw'. apply wf_node in Hw as [Ht Hcs].
    destruct f as [|f]; [cbn [dfuel] in Hf; lia|]. rewrite decode_el_S.
    rewrite node_el_value by assumption.
    assert (Htag : el_tag (encode (Node t k cs) ++ rest) = ROk t)
      by (rewrite encode_node; apply start_el_tag; assumption).
    rewrite Htag. cbn [rbind].
    assert (Hcont : el_container (encode (Node t k cs) ++ rest) = ROk (encode_list cs ++ w_end ++ rest)).
    { unfold el_container. rewrite encode_node, start_control. cbn [rbind snd].
      apply start_next_enter. }
    rewrite Hcont. cbn [rbind].
    assert (Hlist : forall f' R, (dseq cs <= f')%nat ->
      blen (encode_list cs ++ w_end ++ R) < two63 ->
      decode_seq f' (encode_list cs ++ w_end ++ R) = ROk cs).
    { clear Hf Hb Hcont Htag Hw'. induction IH as [|c r Hc Hr IHr]; intros f' R Hf' Hb'.
      - destruct f' as [|f']; [unfold dseq in Hf'; cbn [map nsum] in Hf'; lia|]. rewrite decode_seq_S.
        unfold encode_list. cbn [flat_map app]. rewrite seq_iter_next_end. reflexivity.
      - apply Forall_cons_iff in Hcs as [Hwc Hwr].
        destruct f' as [|f']; [unfold dseq in Hf'; cbn [map nsum] in Hf'; lia|]. rewrite decode_seq_S.
        rewrite encode_list_cons in *.
        rewrite seq_iter_next_tree by assumption.
        unfold dseq in Hf'. cbn [map nsum] in Hf'.
        rewrite Hc by (auto; lia). cbn [rbind].
        rewrite IHr; [reflexivity|assumption|unfold dseq; lia|].
        rewrite blen_app in Hb'. lia. }
    rewrite Hlist; [reflexivity|cbn [dfuel] in Hf; unfold dseq; lia|].
    rewrite encode_node in Hb. rewrite blen_app in Hb. lia.
Qed.

Lemma dfuel_le x : (dfuel x + 1 <= 2 * length (encode x))%nat.
Proof.
  induction x as [t v|t k cs IH] using tree_ind2.
  - pose proof (blen_encode_pos (Leaf t v)) as H. unfold blen in H. cbn [dfuel]. lia.
  - cbn [dfuel encode]. rewrite !app_length. cbn [w_end length].
    pose proof (blen_w_start_pos t k) as Hs. unfold blen in Hs.
    assert (nsum (map (fun c => S (dfuel c)) cs) <= 2 * length (flat_map encode cs))%nat.
    { induction IH as [|c r Hc Hr IHr]; cbn [map nsum flat_map]; [lia|].
      rewrite app_length. lia. }
    lia.
Qed.

(** the round trip through the tree decoder *)
Theorem decode_encode x rest :
  wf_tree x -> blen (encode x ++ rest) < two63 ->
  decode (encode x ++ rest) = ROk x.
Proof.
  intros Hw Hb. unfold decode. apply decode_tree; auto.
  rewrite app_length. pose proof (dfuel_le x). lia.
Qed.
