(** QR payload bit packing and the StatusReport layout. *)
From RsM Require Import Lib.MachInt Model.Headers Model.Codecs
  Proofs.HeadersFacts Proofs.CodecsBase38.
From Coq Require Import ZifyN ZifyBool.
Open Scope N_scope.

Arguments N.add : simpl never.
Arguments N.mul : simpl never.
Arguments N.pow : simpl never.
Arguments N.div : simpl never.
Arguments N.modulo : simpl never.
Arguments N.sub : simpl never.
Arguments N.ltb : simpl never.
Arguments N.leb : simpl never.
Arguments N.eqb : simpl never.
Arguments N.odd : simpl never.

Ltac dm_lia := zify; Z.div_mod_to_equations; lia.

(** * Bits *)

Lemma bits_of_length (n : nat) (v : N) : length (bits_of n v) = n.
Proof.
  revert v. induction n as [|n IH]; intro v; cbn [bits_of length]; [reflexivity|].
  rewrite IH. reflexivity.
Qed.

Lemma pow2_succ (n : nat) : 2 ^ N.of_nat (S n) = 2 * 2 ^ N.of_nat n.
Proof. rewrite Nat2N.inj_succ, N.pow_succ_r'. reflexivity. Qed.

Lemma val_of_bits_of (n : nat) (v : N) : val_of_bits (bits_of n v) = v mod 2 ^ N.of_nat n.
Proof.
  revert v. induction n as [|n IH]; intro v.
  - cbn [bits_of val_of_bits]. change (2 ^ N.of_nat 0) with 1. rewrite N.mod_1_r. reflexivity.
  - cbn [bits_of val_of_bits]. rewrite IH, pow2_succ.
    assert (Hp : 2 ^ N.of_nat n <> 0) by (apply N.pow_nonzero; discriminate).
    rewrite (N.mod_mul_r v 2 (2 ^ N.of_nat n)) by (try discriminate; exact Hp).
    rewrite <- N.bit0_mod, N.bit0_odd. destruct (N.odd v); reflexivity.
Qed.

Lemma val_of_bits_of_small (n : nat) (v : N) :
  v < 2 ^ N.of_nat n -> val_of_bits (bits_of n v) = v.
Proof. intro H. rewrite val_of_bits_of. apply N.mod_small. exact H. Qed.

Lemma val_of_bits_lt (bs : list bool) : val_of_bits bs < 2 ^ N.of_nat (length bs).
Proof.
  induction bs as [|b t IH]; cbn [val_of_bits length].
  - change (2 ^ N.of_nat 0) with 1. lia.
  - rewrite pow2_succ. destruct b; lia.
Qed.

Lemma list_ind8 {A} (P : list A -> Prop) :
  (forall l, (length l < 8)%nat -> P l) ->
  (forall b0 b1 b2 b3 b4 b5 b6 b7 t, P t -> P (b0 :: b1 :: b2 :: b3 :: b4 :: b5 :: b6 :: b7 :: t)) ->
  forall l, P l.
Proof.
  intros H0 H8. fix IH 1.
  intros [|b0 [|b1 [|b2 [|b3 [|b4 [|b5 [|b6 [|b7 t]]]]]]]]; try (apply H0; cbn; lia).
  apply H8. apply IH.
Qed.

Definition mult8 {A} (l : list A) : Prop := (length l mod 8 = 0)%nat.

Lemma mult8_short {A} (l : list A) : (length l < 8)%nat -> mult8 l -> l = [].
Proof.
  unfold mult8. intros Hl Hm. rewrite Nat.mod_small in Hm by exact Hl.
  destruct l; [reflexivity|discriminate].
Qed.

Lemma mult8_cons8 {A} (b0 b1 b2 b3 b4 b5 b6 b7 : A) (t : list A) :
  mult8 (b0 :: b1 :: b2 :: b3 :: b4 :: b5 :: b6 :: b7 :: t) <-> mult8 t.
Proof.
  unfold mult8. cbn [length].
  replace (S (S (S (S (S (S (S (S (length t))))))))) with (length t + 1 * 8)%nat by lia.
  rewrite Nat.mod_add by discriminate. reflexivity.
Qed.

Lemma bits_to_bytes_short (l : list bool) : (length l < 8)%nat -> bits_to_bytes l = [].
Proof.
  destruct l as [|b0 [|b1 [|b2 [|b3 [|b4 [|b5 [|b6 [|b7 t]]]]]]]]; cbn [length]; intro H;
    try reflexivity. lia.
Qed.

Lemma bits_to_bytes_bytes (l : list bool) : bytes (bits_to_bytes l).
Proof.
  induction l as [l Hl|b0 b1 b2 b3 b4 b5 b6 b7 t IH] using list_ind8.
  - rewrite bits_to_bytes_short by exact Hl. constructor.
  - cbn [bits_to_bytes]. constructor; [|exact IH].
    pose proof (val_of_bits_lt [b0; b1; b2; b3; b4; b5; b6; b7]) as H.
    cbn [length] in H. change (2 ^ N.of_nat 8) with 256 in H. exact H.
Qed.

Lemma bits_to_bytes_app (x y : list bool) :
  mult8 x -> bits_to_bytes (x ++ y) = bits_to_bytes x ++ bits_to_bytes y.
Proof.
  induction x as [x Hx|b0 b1 b2 b3 b4 b5 b6 b7 t IH] using list_ind8; intro Hm.
  - rewrite (mult8_short x Hx Hm). reflexivity.
  - apply mult8_cons8 in Hm. cbn [app bits_to_bytes]. rewrite IH by exact Hm. reflexivity.
Qed.

Lemma bits_to_bytes_length (l : list bool) (n : nat) :
  length l = (8 * n)%nat -> length (bits_to_bytes l) = n.
Proof.
  revert n. induction l as [l Hl|b0 b1 b2 b3 b4 b5 b6 b7 t IH] using list_ind8; intros n Hn.
  - rewrite bits_to_bytes_short by exact Hl. cbn [length]. lia.
  - cbn [bits_to_bytes length] in *. destruct n as [|n]; [lia|].
    rewrite (IH n) by lia. reflexivity.
Qed.

Lemma bits_of_8_val (b0 b1 b2 b3 b4 b5 b6 b7 : bool) :
  bits_of 8 (val_of_bits [b0; b1; b2; b3; b4; b5; b6; b7]) = [b0; b1; b2; b3; b4; b5; b6; b7].
Proof.
  destruct b0, b1, b2, b3, b4, b5, b6, b7; vm_compute; reflexivity.
Qed.

Lemma bytes_to_bits_app (a b : list N) :
  bytes_to_bits (a ++ b) = bytes_to_bits a ++ bytes_to_bits b.
Proof. unfold bytes_to_bits. apply flat_map_app. Qed.

Lemma bytes_to_bits_to_bytes (l : list bool) :
  mult8 l -> bytes_to_bits (bits_to_bytes l) = l.
Proof.
  induction l as [l Hl|b0 b1 b2 b3 b4 b5 b6 b7 t IH] using list_ind8; intro Hm.
  - rewrite (mult8_short l Hl Hm). reflexivity.
  - apply mult8_cons8 in Hm. cbn [bits_to_bytes].
    unfold bytes_to_bits in *. cbn [flat_map]. rewrite IH by exact Hm.
    rewrite bits_of_8_val. reflexivity.
Qed.

Lemma bits_to_bytes_to_bits (t : list N) : bytes t -> bits_to_bytes (bytes_to_bits t) = t.
Proof.
  intro Hb. induction Hb as [|b t Hb Ht IH]; [reflexivity|].
  unfold bytes_to_bits in *. cbn [flat_map].
  rewrite bits_to_bytes_app by (unfold mult8; rewrite bits_of_length; reflexivity).
  rewrite IH. f_equal.
  pose proof (val_of_bits_of_small 8 b Hb) as Hv.
  cbn [bits_of] in *. cbn [bits_to_bytes]. rewrite Hv. reflexivity.
Qed.

Lemma bytes_to_bits_length (t : list N) : length (bytes_to_bits t) = (8 * length t)%nat.
Proof.
  induction t as [|b t IH]; [reflexivity|].
  unfold bytes_to_bits in *. cbn [flat_map length]. rewrite app_length, bits_of_length, IH. lia.
Qed.

(** * Sequential bit reads *)

Lemma bit_read_at (pre x post : list bool) (pos len : nat) :
  length pre = pos -> length x = len ->
  bit_read (pre ++ x ++ post) pos len = Ok (val_of_bits x, (pos + len)%nat).
Proof.
  intros <- <-. unfold bit_read. rewrite !app_length.
  replace (Nat.ltb _ _) with false by (symmetry; apply Nat.ltb_ge; lia).
  rewrite skipn_len_app, firstn_len_app. reflexivity.
Qed.

Lemma bit_read_at0 (x post : list bool) (len : nat) :
  length x = len -> bit_read (x ++ post) 0 len = Ok (val_of_bits x, (0 + len)%nat).
Proof. intro H. exact (bit_read_at [] x post 0 len eq_refl H). Qed.

Lemma list_eqb_refl (l : list N) : list_eqb l l = true.
Proof. induction l as [|x l IH]; cbn [list_eqb]; [reflexivity|]. rewrite N.eqb_refl, IH. reflexivity. Qed.

Lemma list_eqb_eq (a b : list N) : list_eqb a b = true -> a = b.
Proof.
  revert b. induction a as [|x a IH]; intros [|y b] H; cbn [list_eqb] in H; try discriminate.
  - reflexivity.
  - apply andb_prop in H as [H1 H2]. apply N.eqb_eq in H1. subst. f_equal. apply IH, H2.
Qed.

Lemma strip_prefix_app (pre s : list N) : strip_prefix pre (pre ++ s) = Some s.
Proof.
  unfold strip_prefix. rewrite firstn_len_app, list_eqb_refl, skipn_len_app. reflexivity.
Qed.

Lemma strip_prefix_inv (pre s r : list N) : strip_prefix pre s = Some r -> s = pre ++ r.
Proof.
  unfold strip_prefix. destruct (list_eqb (firstn (length pre) s) pre) eqn:E; [|discriminate].
  intro H. injection H as <-. apply list_eqb_eq in E. rewrite <- E at 1.
  symmetry. apply firstn_skipn.
Qed.

(** * QR round trip *)

Lemma skipn_len_eq {A} (l r : list A) (n : nat) : length l = n -> skipn n (l ++ r) = r.
Proof. intros <-. apply skipn_len_app. Qed.

Lemma qr_fixed_length (p : qr_payload) : length (qr_fixed_bits p) = 88%nat.
Proof. unfold qr_fixed_bits. rewrite !app_length, !bits_of_length. reflexivity. Qed.

Lemma qr_valid_inv (p : qr_payload) : qr_valid p = true ->
  q_version p < 8 /\ q_vid p < two16 /\ q_pid p < two16 /\ q_flow p < 3 /\
  q_caps p < 8 /\ q_disc p < 4096 /\ q_pass p < 134217728.
Proof.
  unfold qr_valid. intro H. repeat (apply andb_prop in H; destruct H as [H ?]).
  repeat split; lia.
Qed.

Lemma qr_roundtrip (p : qr_payload) (tail : list N) :
  qr_valid p = true -> bytes tail -> qr_decode (qr_encode p tail) = Ok (p, tail).
Proof.
  intros Hv Ht. apply qr_valid_inv in Hv as (H1 & H2 & H3 & H4 & H5 & H6 & H7).
  unfold two16 in *.
  unfold qr_decode, qr_encode. rewrite strip_prefix_app.
  pose proof (qr_fixed_length p) as Hfl.
  assert (Hm : mult8 (qr_fixed_bits p)) by (unfold mult8; rewrite Hfl; reflexivity).
  rewrite bits_to_bytes_app by exact Hm.
  rewrite bits_to_bytes_to_bits by exact Ht.
  rewrite b38_roundtrip
    by (apply bytes_app; split; [apply bits_to_bytes_bytes|exact Ht]).
  cbn [bind].
  assert (HFl : length (bits_to_bytes (qr_fixed_bits p)) = 11%nat)
    by (apply bits_to_bytes_length; rewrite Hfl; reflexivity).
  rewrite app_length, HFl.
  replace (Nat.ltb (11 + length tail) 11) with false by (symmetry; apply Nat.ltb_ge; lia).
  rewrite bytes_to_bits_app, bytes_to_bits_to_bytes by exact Hm.
  rewrite (skipn_len_eq _ tail 11 HFl).
  generalize (bytes_to_bits tail) as tb. intro tb.
  destruct p as [ver vid pid flow caps disc pass].
  cbn [q_version q_vid q_pid q_flow q_caps q_disc q_pass] in *.
  unfold qr_fixed_bits. cbn [q_version q_vid q_pid q_flow q_caps q_disc q_pass].
  rewrite <- !app_assoc.
  rewrite (bit_read_at0 (bits_of 3 ver)) by (rewrite ?bits_of_length; reflexivity).
  cbn [bind Nat.add].
  rewrite (bit_read_at (bits_of 3 ver) (bits_of 16 vid))
    by (rewrite ?app_length, ?bits_of_length; reflexivity).
  cbn [bind Nat.add].
  rewrite (app_assoc (bits_of 3 ver) (bits_of 16 vid)).
  rewrite (bit_read_at (bits_of 3 ver ++ bits_of 16 vid) (bits_of 16 pid))
    by (rewrite ?app_length, ?bits_of_length; reflexivity).
  cbn [bind Nat.add].
  rewrite (app_assoc (bits_of 3 ver ++ bits_of 16 vid) (bits_of 16 pid)).
  rewrite (bit_read_at ((bits_of 3 ver ++ bits_of 16 vid) ++ bits_of 16 pid) (bits_of 2 flow))
    by (rewrite ?app_length, ?bits_of_length; reflexivity).
  cbn [bind Nat.add].
  rewrite (val_of_bits_of_small 2 flow) by (change (2 ^ N.of_nat 2) with 4; lia).
  replace (2 <? flow) with false by lia.
  rewrite (app_assoc ((bits_of 3 ver ++ bits_of 16 vid) ++ bits_of 16 pid) (bits_of 2 flow)).
  rewrite (bit_read_at (((bits_of 3 ver ++ bits_of 16 vid) ++ bits_of 16 pid) ++ bits_of 2 flow)
             (bits_of 8 caps))
    by (rewrite ?app_length, ?bits_of_length; reflexivity).
  cbn [bind Nat.add].
  rewrite (app_assoc (((bits_of 3 ver ++ bits_of 16 vid) ++ bits_of 16 pid) ++ bits_of 2 flow)
             (bits_of 8 caps)).
  rewrite (bit_read_at ((((bits_of 3 ver ++ bits_of 16 vid) ++ bits_of 16 pid) ++ bits_of 2 flow) ++
             bits_of 8 caps) (bits_of 12 disc))
    by (rewrite ?app_length, ?bits_of_length; reflexivity).
  cbn [bind Nat.add].
  rewrite (app_assoc ((((bits_of 3 ver ++ bits_of 16 vid) ++ bits_of 16 pid) ++ bits_of 2 flow) ++
             bits_of 8 caps) (bits_of 12 disc)).
  rewrite (bit_read_at (((((bits_of 3 ver ++ bits_of 16 vid) ++ bits_of 16 pid) ++ bits_of 2 flow) ++
             bits_of 8 caps) ++ bits_of 12 disc) (bits_of 27 pass))
    by (rewrite ?app_length, ?bits_of_length; reflexivity).
  cbn [bind Nat.add].
  rewrite (app_assoc (((((bits_of 3 ver ++ bits_of 16 vid) ++ bits_of 16 pid) ++ bits_of 2 flow) ++
             bits_of 8 caps) ++ bits_of 12 disc) (bits_of 27 pass)).
  rewrite (bit_read_at ((((((bits_of 3 ver ++ bits_of 16 vid) ++ bits_of 16 pid) ++ bits_of 2 flow) ++
             bits_of 8 caps) ++ bits_of 12 disc) ++ bits_of 27 pass) (bits_of 4 0))
    by (rewrite ?app_length, ?bits_of_length; reflexivity).
  cbn [bind].
  rewrite (val_of_bits_of_small 3 ver) by (change (2 ^ N.of_nat 3) with 8; lia).
  rewrite (val_of_bits_of_small 16 vid) by (change (2 ^ N.of_nat 16) with 65536; lia).
  rewrite (val_of_bits_of_small 16 pid) by (change (2 ^ N.of_nat 16) with 65536; lia).
  rewrite (val_of_bits_of_small 8 caps) by (change (2 ^ N.of_nat 8) with 256; lia).
  rewrite (val_of_bits_of_small 12 disc) by (change (2 ^ N.of_nat 12) with 4096; lia).
  rewrite (val_of_bits_of_small 27 pass) by (change (2 ^ N.of_nat 27) with 134217728; lia).
  rewrite (N.mod_small caps 8) by lia.
  reflexivity.
Qed.

Lemma bit_read_total (bits : list bool) (pos len : nat) :
  (exists v, bit_read bits pos len = Ok (v, (pos + len)%nat)) \/
  bit_read bits pos len = Err E_INVDATA.
Proof.
  unfold bit_read. destruct (Nat.ltb (length bits) (pos + len)); [right|left; eexists]; reflexivity.
Qed.

Lemma bit_read_lt (bits : list bool) (pos len : nat) (v : N) (q : nat) :
  bit_read bits pos len = Ok (v, q) -> v < 2 ^ N.of_nat len.
Proof.
  unfold bit_read. destruct (Nat.ltb (length bits) (pos + len)) eqn:E; [discriminate|].
  intro H. injection H as <- _. apply Nat.ltb_ge in E.
  pose proof (val_of_bits_lt (firstn len (skipn pos bits))) as Hlt.
  rewrite firstn_length_le in Hlt; [exact Hlt|]. rewrite skipn_length. lia.
Qed.

(** the QR parser never panics, its only error is InvalidData, and what it
    accepts is in range *)
Lemma qr_decode_total (s : list N) :
  (exists p tail, qr_decode s = Ok (p, tail) /\ qr_valid p = true /\ bytes tail) \/
  qr_decode s = Err E_INVDATA.
Proof.
  unfold qr_decode. destruct (strip_prefix QR_PREFIX s) as [body|]; [|right; reflexivity].
  pose proof (b38_decode_total body) as Ht.
  destruct (b38_decode body) as [decoded|e|] eqn:Ed; cbn [bind]; [| |contradiction].
  2:{ right. f_equal. eapply b38_decode_err; exact Ed. }
  apply b38_decode_canonical in Ed as [_ Hbytes].
  destruct (Nat.ltb (length decoded) 11); [right; reflexivity|].
  set (bits := bytes_to_bits decoded).
  destruct (bit_read bits 0 3) as [[ver p1]| |] eqn:E1; cbn [bind];
    [|destruct (bit_read_total bits 0 3) as [[? Hx]|Hx]; rewrite Hx in E1; try discriminate;
      injection E1 as <-; right; reflexivity
     |destruct (bit_read_total bits 0 3) as [[? Hx]|Hx]; rewrite Hx in E1; discriminate].
  destruct (bit_read bits p1 16) as [[vid p2]| |] eqn:E2; cbn [bind];
    [|destruct (bit_read_total bits p1 16) as [[? Hx]|Hx]; rewrite Hx in E2; try discriminate;
      injection E2 as <-; right; reflexivity
     |destruct (bit_read_total bits p1 16) as [[? Hx]|Hx]; rewrite Hx in E2; discriminate].
  destruct (bit_read bits p2 16) as [[pid p3]| |] eqn:E3; cbn [bind];
    [|destruct (bit_read_total bits p2 16) as [[? Hx]|Hx]; rewrite Hx in E3; try discriminate;
      injection E3 as <-; right; reflexivity
     |destruct (bit_read_total bits p2 16) as [[? Hx]|Hx]; rewrite Hx in E3; discriminate].
  destruct (bit_read bits p3 2) as [[flow p4]| |] eqn:E4; cbn [bind];
    [|destruct (bit_read_total bits p3 2) as [[? Hx]|Hx]; rewrite Hx in E4; try discriminate;
      injection E4 as <-; right; reflexivity
     |destruct (bit_read_total bits p3 2) as [[? Hx]|Hx]; rewrite Hx in E4; discriminate].
  destruct (2 <? flow) eqn:Ef; [right; reflexivity|].
  destruct (bit_read bits p4 8) as [[caps p5]| |] eqn:E5; cbn [bind];
    [|destruct (bit_read_total bits p4 8) as [[? Hx]|Hx]; rewrite Hx in E5; try discriminate;
      injection E5 as <-; right; reflexivity
     |destruct (bit_read_total bits p4 8) as [[? Hx]|Hx]; rewrite Hx in E5; discriminate].
  destruct (bit_read bits p5 12) as [[disc p6]| |] eqn:E6; cbn [bind];
    [|destruct (bit_read_total bits p5 12) as [[? Hx]|Hx]; rewrite Hx in E6; try discriminate;
      injection E6 as <-; right; reflexivity
     |destruct (bit_read_total bits p5 12) as [[? Hx]|Hx]; rewrite Hx in E6; discriminate].
  destruct (bit_read bits p6 27) as [[pass p7]| |] eqn:E7; cbn [bind];
    [|destruct (bit_read_total bits p6 27) as [[? Hx]|Hx]; rewrite Hx in E7; try discriminate;
      injection E7 as <-; right; reflexivity
     |destruct (bit_read_total bits p6 27) as [[? Hx]|Hx]; rewrite Hx in E7; discriminate].
  destruct (bit_read bits p7 4) as [[pad p8]| |] eqn:E8; cbn [bind];
    [|destruct (bit_read_total bits p7 4) as [[? Hx]|Hx]; rewrite Hx in E8; try discriminate;
      injection E8 as <-; right; reflexivity
     |destruct (bit_read_total bits p7 4) as [[? Hx]|Hx]; rewrite Hx in E8; discriminate].
  left. eexists _, _. split; [reflexivity|]. split.
  - apply bit_read_lt in E1, E2, E3, E6, E7.
    change (2 ^ N.of_nat 3) with 8 in E1. change (2 ^ N.of_nat 16) with 65536 in E2, E3.
    change (2 ^ N.of_nat 12) with 4096 in E6. change (2 ^ N.of_nat 27) with 134217728 in E7.
    unfold qr_valid, two16. cbn [q_version q_vid q_pid q_flow q_caps q_disc q_pass].
    assert (caps mod 8 < 8) by (apply N.mod_lt; discriminate). lia.
  - rewrite <- (firstn_skipn 11 decoded) in Hbytes. apply bytes_app in Hbytes as [_ H]. exact H.
Qed.

(** * StatusReport *)

Lemma sr_valid_inv (r : status_report) : sr_valid r = true ->
  sr_general r <= 16 /\ sr_proto_id r < two32 /\ sr_proto_code r < two16 /\ bytes (sr_data r).
Proof.
  unfold sr_valid. intro H. repeat (apply andb_prop in H; destruct H as [H ?]).
  repeat split; try lia. apply bytesb_spec. assumption.
Qed.

Lemma sr_roundtrip (r : status_report) : sr_valid r = true -> sr_decode (sr_encode r) = Ok r.
Proof.
  intro Hv. apply sr_valid_inv in Hv as (Hg & Hp & Hc & Hd).
  destruct r as [g pid pc data]. cbn [sr_general sr_proto_id sr_proto_code sr_data] in *.
  unfold sr_decode, sr_encode. cbn [sr_general sr_proto_id sr_proto_code sr_data].
  rewrite take_le_app by (rewrite pow_2; unfold two16; lia). cbn [bind].
  replace (16 <? g) with false by lia.
  rewrite take_le_app by (rewrite pow_4; assumption). cbn [bind].
  rewrite take_le_app by (rewrite pow_2; assumption). reflexivity.
Qed.

Lemma sr_decode_canonical (b : list N) (r : status_report) :
  bytes b -> sr_decode b = Ok r -> b = sr_encode r /\ sr_valid r = true.
Proof.
  intros Hb H. unfold sr_decode in H.
  destruct (take_le 2 b) as [[g b1]| |] eqn:E1; cbn [bind] in H; try discriminate.
  apply take_le_inv in E1 as (-> & Hg & Hb1); [|assumption].
  destruct (16 <? g) eqn:Eg; [discriminate|].
  destruct (take_le 4 b1) as [[pid b2]| |] eqn:E2; cbn [bind] in H; try discriminate.
  apply take_le_inv in E2 as (-> & Hpid & Hb2); [|assumption].
  destruct (take_le 2 b2) as [[pc b3]| |] eqn:E3; cbn [bind] in H; try discriminate.
  apply take_le_inv in E3 as (-> & Hpc & Hb3); [|assumption].
  injection H as <-. rewrite pow_4 in Hpid. rewrite pow_2 in Hpc.
  unfold sr_encode, sr_valid. cbn [sr_general sr_proto_id sr_proto_code sr_data].
  split; [reflexivity|].
  apply bytesb_spec in Hb3. rewrite Hb3. lia.
Qed.

Lemma sr_decode_total (b : list N) : no_panic (sr_decode b).
Proof.
  unfold sr_decode. apply no_panic_bind_take. intros g b1.
  destruct (16 <? g); [exact I|].
  apply no_panic_bind_take. intros pid b2.
  apply no_panic_bind_take. intros pc b3. exact I.
Qed.
