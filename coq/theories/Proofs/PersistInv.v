(** C11: the state invariant "the store holds exactly the encodings of what is in
    memory, except for the fabric the fail-safe is armed for and the networks
    while it is armed", what start-up makes of such a store, and preservation of
    the invariant by every operation. *)
From Coq Require Import NArith Arith List Bool Lia ZifyN ZifyBool.
From RsM Require Import Model.Persist Proofs.PersistFacts.
Import ListNotations.
Open Scope N_scope.

Section Inv.
  Variable blob : Type.
  Variable enc_fab : N -> fabric -> blob.
  Variable dec_fab : blob -> option (N * fabric).
  Variable enc_basic : basic -> blob.
  Variable dec_basic : blob -> option basic.
  Variable enc_nets : nets -> blob.
  Variable dec_nets : blob -> option nets.
  Variable enc_labels : N -> blob.
  Variable dec_labels : blob -> option N.
  Variable enc_binds : list (N * N) -> blob.
  Variable dec_binds : blob -> option (list (N * N)).
  Variable enc_res : list (N * N) -> blob.
  Variable dec_res : blob -> option (list (N * N)).
  Variable enc_tz : N -> blob.
  Variable dec_tz : blob -> option N.
  Variable enc_tts : N * N -> blob.
  Variable dec_tts : blob -> option (N * N).
  Variable enc_icd : list (N * N) -> blob.
  Variable dec_icd : blob -> option (list (N * N)).
  Variable enc_ota : list (N * N) -> blob.
  Variable dec_ota : blob -> option (list (N * N)).
  Variable enc_scenes : list (N * N) -> blob.
  Variable dec_scenes : blob -> option (list (N * N)).
  Variable enc_sub : N * N -> blob.
  Variable dec_sub : blob -> option (N * N).

  (** the codecs read back what they wrote (checked on the real codecs by the harness) *)
  Hypothesis rt_fab : forall i f, dec_fab (enc_fab i f) = Some (i, f).
  Hypothesis rt_basic : forall v, dec_basic (enc_basic v) = Some v.
  Hypothesis rt_nets : forall v, dec_nets (enc_nets v) = Some v.
  Hypothesis rt_labels : forall v, dec_labels (enc_labels v) = Some v.
  Hypothesis rt_binds : forall v, dec_binds (enc_binds v) = Some v.
  Hypothesis rt_res : forall v, dec_res (enc_res v) = Some v.
  Hypothesis rt_tz : forall v, dec_tz (enc_tz v) = Some v.
  Hypothesis rt_tts : forall v, dec_tts (enc_tts v) = Some v.
  Hypothesis rt_icd : forall v, dec_icd (enc_icd v) = Some v.
  Hypothesis rt_ota : forall v, dec_ota (enc_ota v) = Some v.
  Hypothesis rt_scenes : forall v, dec_scenes (enc_scenes v) = Some v.
  Hypothesis rt_sub : forall v, dec_sub (enc_sub v) = Some v.

  Notation state := (state blob).
  Notation kv := (kv blob).
  Notation step := (step blob enc_fab dec_fab enc_basic dec_basic enc_nets dec_nets enc_labels dec_labels
                         enc_binds dec_binds enc_res dec_res enc_tz dec_tz enc_tts dec_tts enc_icd dec_icd
                         enc_ota dec_ota enc_scenes dec_scenes enc_sub dec_sub true).
  Notation startup := (startup blob dec_fab dec_basic dec_nets dec_labels dec_binds enc_res dec_res
                               dec_tz dec_tts dec_icd dec_ota dec_scenes enc_sub dec_sub).
  Notation persist_subs := (persist_subs blob enc_sub).
  Notation load_subs := (load_subs blob dec_sub).
  Notation resume_subs := (resume_subs blob enc_sub dec_sub).
  Notation load_fabs := (load_fabs blob dec_fab).
  Notation load_resump := (load_resump blob enc_res dec_res).
  Notation replay := (replay blob).
  Notation kvlog := (kvlog blob).

  Definition cell_sync {A} (o : option blob) (enc : A -> blob) (dflt v : A) : Prop :=
    (o = None /\ v = dflt) \/ o = Some (enc v).
  Definition cell_dec {A} (o : option blob) (enc : A -> blob) : Prop :=
    o = None \/ exists v, o = Some (enc v).

  Record Inv (st : state) : Prop := mkInv {
    i_nodup : NoDup (akeys (r_fabs (s_ram st)));
    i_range : forall i, In i (akeys (r_fabs (s_ram st))) -> 1 <= i <= 254;
    i_cap : (length (r_fabs (s_ram st)) <= MAX_FABRICS)%nat;
    i_fab : forall i, 1 <= i <= 255 ->
      match aget (s_kv st) i with
      | None => armed_for (s_fs st) i = true \/ aget (r_fabs (s_ram st)) i = None
      | Some b => exists f, b = enc_fab i f /\ amem (r_fabs (s_ram st)) i = true /\
                            (armed_for (s_fs st) i = false -> aget (r_fabs (s_ram st)) i = Some f)
      end;
    i_basic : cell_sync (aget (s_kv st) K_BASIC) enc_basic basic_default (r_basic (s_ram st));
    i_nets : (s_fs st = Idle -> cell_sync (aget (s_kv st) K_NETS) enc_nets nets_reset (r_nets (s_ram st)));
    i_nets_dec : cell_dec (aget (s_kv st) K_NETS) enc_nets;
    i_labels : cell_sync (aget (s_kv st) K_LABELS) enc_labels 0 (r_labels (s_ram st));
    i_binds : cell_sync (aget (s_kv st) K_BIND) enc_binds [] (r_binds (s_ram st));
    i_res : cell_dec (aget (s_kv st) K_RESUMP) enc_res;
    i_tz : cell_sync (aget (s_kv st) K_TZ) enc_tz 0 (r_tz (s_ram st));
    i_tts : match r_tts (s_ram st) with
            | None => aget (s_kv st) K_TTS = None
            | Some x => aget (s_kv st) K_TTS = Some (enc_tts x)
            end;
    i_icd : cell_sync (aget (s_kv st) K_ICD_CLIENTS) enc_icd [] (r_icd (s_ram st));
    i_ota : cell_sync (aget (s_kv st) K_OTA) enc_ota [] (r_ota (s_ram st));
    i_scenes : cell_sync (aget (s_kv st) K_SCENES) enc_scenes [] (r_scenes (s_ram st));
    (* the subscription slots hold records or nothing (the table itself is persisted best-effort) *)
    i_subs : forall i, i < NSUBS -> cell_dec (aget (s_kv st) (SUBS_START + i)) enc_sub;
    (* a PASE session is on fabric 0 unless this fail-safe period's AddNOC upgraded it *)
    i_pase : forall pf, s_pase st = Some pf -> pf <> 0 -> s_fs st = Armed pf 2
  }.

  (** ** The subscription slots *)
  Definition in_subs (k : N) : Prop := SUBS_START <= k < SUBS_START + NSUBS.

  Definition subop (o : kvop blob) : Prop :=
    match o with
    | KStore k b => in_subs k /\ exists x, b = enc_sub x
    | KRemove k => in_subs k
    end.

  Lemma sub_stores_subop : forall l slot, SUBS_START <= slot -> slot + N.of_nat (length l) <= SUBS_START + NSUBS ->
    Forall subop (sub_stores blob enc_sub slot l).
  Proof using Type.
    clear.
    induction l as [|x t IH]; intros slot H1 H2; cbn [sub_stores]; constructor.
    - cbn [length] in H2. split; [unfold in_subs; lia|eexists; reflexivity].
    - apply IH; cbn [length] in H2; lia.
  Qed.

  Lemma persist_subs_subop : forall l, Forall subop (persist_subs l).
  Proof using Type.
    clear.
    intros l. unfold Persist.persist_subs. apply Forall_app. split.
    - apply sub_stores_subop; [lia|].
      pose proof (firstn_le_length (N.to_nat NSUBS) l). lia.
    - apply Forall_forall. intros o Ho. apply in_map_iff in Ho. destruct Ho as [k [<- Hk]].
      apply in_nrange in Hk. pose proof (firstn_le_length (N.to_nat NSUBS) l). cbn [subop]. unfold in_subs. lia.
  Qed.

  Lemma replay_subops : forall ops (m : kv), Forall subop ops ->
    (forall k, ~ in_subs k -> aget (replay m ops) k = aget m k) /\
    (forall k, cell_dec (aget m k) enc_sub -> cell_dec (aget (replay m ops) k) enc_sub).
  Proof using Type.
    clear.
    induction ops as [|o t IH]; intros m Hf; cbn [Persist.replay fold_left]; [tauto|].
    inversion Hf as [|? ? Ho Ht]; subst. fold (replay (kv_apply blob m o) t).
    destruct (IH (kv_apply blob m o) Ht) as [IH1 IH2]. split.
    - intros k Hk. rewrite IH1 by assumption. destruct o as [k0 b|k0]; cbn [kv_apply subop] in *.
      + destruct Ho as [Hin _]. apply aget_aset_other. intros E. subst. contradiction.
      + apply aget_adel_other. intros E. subst. contradiction.
    - intros k Hk. apply IH2. destruct o as [k0 b|k0]; cbn [kv_apply subop] in *.
      + destruct Ho as [_ [x ->]]. destruct (N.eq_dec k k0) as [E|E].
        * subst. rewrite aget_aset_same. right. eexists. reflexivity.
        * rewrite aget_aset_other by assumption. assumption.
      + destruct (N.eq_dec k k0) as [E|E].
        * subst. rewrite aget_adel_same. left. reflexivity.
        * rewrite aget_adel_other by assumption. assumption.
  Qed.

  Lemma load_subs_total : forall slots (m : kv),
    (forall k, In k slots -> cell_dec (aget m k) enc_sub) -> exists l, load_subs slots m = Some l.
  Proof.
    induction slots as [|k t IH]; intros m H; cbn [Persist.load_subs]; [eauto|].
    destruct (H k (or_introl eq_refl)) as [E|[x E]]; rewrite E; [eauto|]. rewrite rt_sub.
    destruct (IH m) as [l El]; [intros k0 Hk0; apply H; right; assumption|]. rewrite El. eauto.
  Qed.

  Lemma resume_subs_total : forall (m : kv) fabs,
    (forall i, i < NSUBS -> cell_dec (aget m (SUBS_START + i)) enc_sub) ->
    exists sb ops, resume_subs m fabs = Some (sb, ops) /\ Forall subop ops.
  Proof.
    intros m fabs H. unfold Persist.resume_subs.
    destruct (load_subs_total (nrange SUBS_START (N.to_nat NSUBS)) m) as [l El].
    - intros k Hk. apply in_nrange in Hk. replace k with (SUBS_START + (k - SUBS_START)) by lia. apply H. lia.
    - rewrite El. destruct (length (drop_where (fun x => negb (amem fabs (fst x))) l) =? length l)%nat.
      + eexists _, _. split; [reflexivity|constructor].
      + eexists _, _. split; [reflexivity|apply persist_subs_subop].
  Qed.

  (** ** Start-up from a store satisfying the invariant *)

  (** entries contributed by index [i] *)
  Definition fab_entry (m : kv) (i : N) : list (N * fabric) :=
    match aget m (fabric_key i) with
    | Some b => match dec_fab b with Some (j, f) => [(j, f)] | None => [] end
    | None => []
    end.

  Lemma load_fabs_spec : forall (m : kv) ks acc,
    (forall i, In i ks -> forall b, aget m (fabric_key i) = Some b -> exists f, dec_fab b = Some (i, f)) ->
    (length acc + length (filter (fun i => amem m (fabric_key i)) ks) <= MAX_FABRICS)%nat ->
    load_fabs ks m acc = Some (acc ++ flat_map (fab_entry m) ks).
  Proof.
    intros m ks. induction ks as [|i t IH]; intros acc Hdec Hlen; cbn [load_fabs flat_map].
    - rewrite app_nil_r. reflexivity.
    - unfold fab_entry at 1. cbn [filter] in Hlen. unfold amem in Hlen at 1.
      destruct (aget m (fabric_key i)) as [b|] eqn:Eb.
      + destruct (Hdec i (or_introl eq_refl) b Eb) as [f Ef]. rewrite Ef.
        cbn [length] in Hlen.
        destruct (Nat.leb_spec MAX_FABRICS (length acc)) as [Hge|Hlt]; [lia|].
        rewrite IH.
        * rewrite <- app_assoc. reflexivity.
        * intros j Hj. apply Hdec. right; assumption.
        * rewrite app_length. cbn [length]. lia.
      + apply IH.
        * intros j Hj. apply Hdec. right; assumption.
        * exact Hlen.
  Qed.

  Lemma aget_flat_entry : forall (m : kv) ks i,
    (forall j, In j ks -> forall b, aget m (fabric_key j) = Some b -> exists f, dec_fab b = Some (j, f)) ->
    NoDup ks ->
    aget (flat_map (fab_entry m) ks) i =
      if existsb (N.eqb i) ks
      then match aget m (fabric_key i) with
           | Some b => match dec_fab b with Some (_, f) => Some f | None => None end
           | None => None
           end
      else None.
  Proof.
    intros m ks i. induction ks as [|j t IH]; intros Hdec Hnd; cbn [flat_map existsb]; [reflexivity|].
    inversion Hnd as [|? ? Hnj Hnt]; subst.
    rewrite aget_app.
    assert (Ht : forall j0, In j0 t -> forall b, aget m (fabric_key j0) = Some b -> exists f, dec_fab b = Some (j0, f))
      by (intros j0 Hj0; apply Hdec; right; assumption).
    specialize (IH Ht Hnt).
    unfold fab_entry at 1.
    destruct (N.eqb_spec i j) as [E|E].
    - subst j. cbn [orb].
      destruct (aget m (fabric_key i)) as [b|] eqn:Eb.
      + destruct (Hdec i (or_introl eq_refl) b Eb) as [f Ef]. rewrite Ef. cbn [aget]. rewrite N.eqb_refl. reflexivity.
      + cbn [aget]. rewrite IH.
        destruct (existsb (N.eqb i) t) eqn:Ex; [|reflexivity].
        apply existsb_exists in Ex. destruct Ex as [x [Hx Hxe]]. apply N.eqb_eq in Hxe. subst x. contradiction.
    - cbn [orb].
      destruct (aget m (fabric_key j)) as [b|] eqn:Eb.
      + destruct (Hdec j (or_introl eq_refl) b Eb) as [f Ef]. rewrite Ef. cbn [aget].
        destruct (N.eqb_spec i j); [congruence|]. exact IH.
      + cbn [aget]. exact IH.
  Qed.

  Lemma akeys_flat_entry : forall (m : kv) ks,
    (forall j, In j ks -> forall b, aget m (fabric_key j) = Some b -> exists f, dec_fab b = Some (j, f)) ->
    akeys (flat_map (fab_entry m) ks) = filter (fun i => amem m (fabric_key i)) ks.
  Proof.
    intros m ks. induction ks as [|j t IH]; intros Hdec; cbn [flat_map filter]; [reflexivity|].
    rewrite akeys_app, IH by (intros j0 Hj0; apply Hdec; right; assumption).
    unfold fab_entry at 1. unfold amem at 2.
    destruct (aget m (fabric_key j)) as [b|] eqn:Eb.
    - destruct (Hdec j (or_introl eq_refl) b Eb) as [f Ef]. rewrite Ef. reflexivity.
    - reflexivity.
  Qed.

  Lemma existsb_fab_indices : forall i, existsb (N.eqb i) fab_indices = true <-> 1 <= i <= 255.
  Proof.
    intros i. rewrite existsb_exists. split.
    - intros [x [Hx He]]. apply N.eqb_eq in He. subst x. apply in_fab_indices. assumption.
    - intros H. exists i. split; [apply in_fab_indices; assumption|apply N.eqb_refl].
  Qed.

  (** what a fabric key decodes to *)
  Definition stored_fab (m : kv) (i : N) : option fabric :=
    match aget m i with
    | Some b => match dec_fab b with Some (_, f) => Some f | None => None end
    | None => None
    end.

  Lemma inv_fab_dec : forall st, Inv st ->
    forall j, In j fab_indices -> forall b, aget (s_kv st) (fabric_key j) = Some b -> exists f, dec_fab b = Some (j, f).
  Proof.
    intros st HI j Hj b Hb. rewrite fabric_key_id in Hb. apply in_fab_indices in Hj.
    pose proof (i_fab st HI j Hj) as H. rewrite Hb in H. destruct H as [f [E _]]. subst b.
    exists f. apply rt_fab.
  Qed.

  Lemma inv_present_count : forall st, Inv st ->
    (length (filter (fun i => amem (s_kv st) (fabric_key i)) fab_indices) <= MAX_FABRICS)%nat.
  Proof.
    intros st HI.
    apply Nat.le_trans with (length (akeys (r_fabs (s_ram st)))).
    - apply NoDup_incl_length.
      + apply NoDup_filter. apply nodup_nrange.
      + intros i Hi. apply filter_In in Hi. destruct Hi as [Hin Hm].
        rewrite fabric_key_id in Hm. apply in_fab_indices in Hin.
        pose proof (i_fab st HI i Hin) as H. apply amem_true in Hm. destruct Hm as [b Hb]. rewrite Hb in H.
        destruct H as [f [_ [Hmem _]]]. apply amem_true in Hmem. destruct Hmem as [v Hv].
        eapply aget_In_keys; eassumption.
    - unfold akeys. rewrite map_length. apply (i_cap st HI).
  Qed.

  Lemma load_fabs_inv : forall st, Inv st ->
    exists l, load_fabs fab_indices (s_kv st) [] = Some l /\
      (forall i, aget l i = if existsb (N.eqb i) fab_indices then stored_fab (s_kv st) i else None) /\
      akeys l = filter (fun i => amem (s_kv st) (fabric_key i)) fab_indices.
  Proof.
    intros st HI. eexists. split; [|split].
    - apply load_fabs_spec.
      + apply inv_fab_dec; assumption.
      + cbn [length]. apply inv_present_count; assumption.
    - intros i. cbn [app]. rewrite aget_flat_entry.
      + unfold stored_fab. rewrite fabric_key_id. reflexivity.
      + apply inv_fab_dec; assumption.
      + apply nodup_nrange.
    - cbn [app]. apply akeys_flat_entry. apply inv_fab_dec; assumption.
  Qed.

  Lemma load_opt_sync : forall A (m : kv) k (enc : A -> blob) dec dflt v,
    (forall x, dec (enc x) = Some x) ->
    cell_sync (aget m k) enc dflt v -> load_opt blob m k dec dflt = Some v.
  Proof.
    intros A m k enc dec dflt v Hrt [[E1 E2]|E]; unfold load_opt; rewrite ?E1, ?E.
    - subst. reflexivity.
    - apply Hrt.
  Qed.

  Lemma load_opt_dec : forall A (m : kv) k (enc : A -> blob) dec dflt,
    (forall x, dec (enc x) = Some x) ->
    cell_dec (aget m k) enc -> exists v, load_opt blob m k dec dflt = Some v.
  Proof.
    intros A m k enc dec dflt Hrt [E|[v E]]; unfold load_opt; rewrite E; eauto.
  Qed.

  (** the headline fact about start-up: it succeeds and gives back memory, except for what is staged *)
  Theorem startup_sync : forall st, Inv st ->
    exists r ops, startup (s_kv st) = Some (r, ops) /\
      (forall i, armed_for (s_fs st) i = false -> aget (r_fabs r) i = aget (r_fabs (s_ram st)) i) /\
      (forall i, 1 <= i <= 255 -> aget (r_fabs r) i = stored_fab (s_kv st) i) /\
      r_basic r = r_basic (s_ram st) /\
      (s_fs st = Idle -> r_nets r = r_nets (s_ram st)) /\
      r_labels r = r_labels (s_ram st) /\
      r_binds r = r_binds (s_ram st) /\
      (exists ops1 ops2, (r_resump r, ops1) = load_resump (s_kv st) (r_fabs r) /\
                         resume_subs (s_kv st) (r_fabs r) = Some (r_subs r, ops2) /\
                         Forall subop ops2 /\ ops = ops1 ++ ops2) /\
      cell_sync (aget (s_kv st) K_NETS) enc_nets nets_reset (r_nets r) /\
      akeys (r_fabs r) = filter (fun i => amem (s_kv st) (fabric_key i)) fab_indices /\
      (r_tz r = r_tz (s_ram st) /\ r_tts r = r_tts (s_ram st) /\ r_icd r = r_icd (s_ram st) /\
       r_ota r = r_ota (s_ram st) /\ r_scenes r = r_scenes (s_ram st)).
  Proof.
    intros st HI.
    destruct (load_fabs_inv st HI) as [l [Hl [Hget Hkeys]]].
    pose proof (load_opt_sync _ (s_kv st) K_BASIC enc_basic dec_basic basic_default _ rt_basic (i_basic st HI)) as Hb.
    pose proof (load_opt_sync _ (s_kv st) K_LABELS enc_labels dec_labels 0 _ rt_labels (i_labels st HI)) as Hlb.
    pose proof (load_opt_sync _ (s_kv st) K_BIND enc_binds dec_binds [] _ rt_binds (i_binds st HI)) as Hbd.
    destruct (load_opt_dec _ (s_kv st) K_NETS enc_nets dec_nets nets_reset rt_nets (i_nets_dec st HI)) as [ns Hns].
    pose proof (load_opt_sync _ (s_kv st) K_TZ enc_tz dec_tz 0 _ rt_tz (i_tz st HI)) as Htz.
    pose proof (load_opt_sync _ (s_kv st) K_ICD_CLIENTS enc_icd dec_icd [] _ rt_icd (i_icd st HI)) as Hic.
    pose proof (load_opt_sync _ (s_kv st) K_OTA enc_ota dec_ota [] _ rt_ota (i_ota st HI)) as Hot.
    pose proof (load_opt_sync _ (s_kv st) K_SCENES enc_scenes dec_scenes [] _ rt_scenes (i_scenes st HI)) as Hsc.
    assert (Htt : (match aget (s_kv st) K_TTS with None => Some None
                   | Some b => option_map Some (dec_tts b) end) = Some (r_tts (s_ram st))).
    { pose proof (i_tts st HI) as H. destruct (r_tts (s_ram st)) as [x|]; rewrite H; [rewrite rt_tts|]; reflexivity. }
    unfold Persist.startup. rewrite Hl, Hb.
    destruct (load_resump (s_kv st) l) as [res ops] eqn:Er.
    rewrite Hns, Hbd, Hlb, Hsc, Hot, Htz, Hic, Htt.
    destruct (resume_subs_total (s_kv st) l (i_subs st HI)) as [sb [ops2 [Esb Hops2]]]. rewrite Esb.
    exists (mkRam l (r_basic (s_ram st)) ns (r_labels (s_ram st)) (r_binds (s_ram st)) res
                  (r_tz (s_ram st)) (r_tts (s_ram st)) (r_icd (s_ram st)) (r_ota (s_ram st)) (r_scenes (s_ram st)) sb),
           (ops ++ ops2).
    split; [reflexivity|]. cbn [r_fabs r_basic r_nets r_labels r_binds r_resump r_tz r_tts r_icd r_ota r_scenes r_subs].
    assert (Hstored : forall i, 1 <= i <= 255 -> aget l i = stored_fab (s_kv st) i).
    { intros i Hi. rewrite Hget. apply existsb_fab_indices in Hi. rewrite Hi. reflexivity. }
    split; [|split; [exact Hstored|split; [reflexivity|split; [|split; [reflexivity|split; [reflexivity|split; [exists ops, ops2; repeat split; [symmetry; exact Er|exact Esb|exact Hops2]|split; [|split; [exact Hkeys|repeat split]]]]]]]]].
    - intros i Hna.
      destruct (existsb (N.eqb i) fab_indices) eqn:Ex.
      + apply existsb_fab_indices in Ex. rewrite (Hstored i Ex). unfold stored_fab.
        pose proof (i_fab st HI i Ex) as H.
        destruct (aget (s_kv st) i) as [b|].
        * destruct H as [f [E [_ Hs]]]. subst b. rewrite rt_fab. symmetry. apply Hs. assumption.
        * destruct H as [H|H]; [congruence|symmetry; assumption].
      + rewrite Hget, Ex.
        destruct (aget (r_fabs (s_ram st)) i) as [f|] eqn:Ef; [|reflexivity].
        exfalso. apply aget_In_keys in Ef. apply (i_range st HI) in Ef.
        assert (Hr : 1 <= i <= 255) by lia. apply existsb_fab_indices in Hr. congruence.
    - intros Hidle. pose proof (i_nets st HI Hidle) as Hs.
      pose proof (load_opt_sync _ (s_kv st) K_NETS enc_nets dec_nets nets_reset _ rt_nets Hs) as Hs'.
      congruence.
    - unfold load_opt in Hns. destruct (i_nets_dec st HI) as [E|[v E]]; rewrite E in Hns.
      + left. split; [assumption|congruence].
      + right. rewrite rt_nets in Hns. congruence.
  Qed.

  (** ** Preservation *)

  Ltac keys := unfold in_subs in *;
               unfold K_BASIC, K_NETS, K_LABELS, K_BIND, K_RESUMP, K_TZ, K_TTS, K_ICD_CLIENTS, K_OTA, K_SCENES,
                      SUBS_START, NSUBS, fabric_key, FABRIC_KEYS_START in *; lia.
  Ltac kvs := repeat first
    [ rewrite aget_aset_same | rewrite aget_adel_same
    | rewrite aget_aset_other by keys | rewrite aget_adel_other by keys ].

  Ltac sstate := cbv zeta;
    cbn [fst snd Persist.commit Persist.refuse Persist.kvlog Persist.replay fold_left kv_apply app
         with_ram set_fabs set_basic set_nets set_labels set_binds set_resump set_tz set_tts set_icd set_ota set_scenes set_subs
         s_ram s_fs s_kv s_pase r_fabs r_basic r_nets r_labels r_binds r_resump r_tz r_tts r_icd r_ota r_scenes r_subs].

  Notation fabric_write := (fabric_write blob enc_fab).
  Notation commit := (commit blob).
  Notation refuse := (refuse blob).
  Notation caller_fab := (caller_fab blob).

  Lemma armed_for_pending : forall s f, pending_noc_for s f = true -> armed_for s f = true.
  Proof. intros [|c t] f; cbn; [discriminate|]. intros H. apply andb_true_iff in H. tauto. Qed.

  (** a store under a key that is not a fabric key and not one of the synced singletons' *)
  Lemma inv_fabric_write : forall st f upd staged, Inv st ->
    (staged = true -> armed_for (s_fs st) f = true) ->
    Inv (fst (fabric_write st f upd staged)).
  Proof.
    intros st f upd staged HI Hst. unfold Persist.fabric_write.
    destruct (aget (r_fabs (s_ram st)) f) as [fb|] eqn:Ef; [|exact HI].
    assert (Hr : 1 <= f <= 254) by (apply (i_range st HI); eapply aget_In_keys; eassumption).
    destruct HI as [Hnd Hrg Hcap Hfab Hbas Hnets Hnd2 Hlab Hbind Hres Htz Htts Hicd Hota Hsc Hsub Hpase].
    destruct staged; sstate.
    - (* staged: memory only *)
      constructor; sstate; try assumption.
      + apply nodup_aset; assumption.
      + intros i Hi. apply akeys_aset in Hi. destruct Hi as [[Hi _]|Hi]; [apply Hrg; assumption|subst; assumption].
      + erewrite length_aset_mem by eassumption. assumption.
      + intros i Hi. specialize (Hfab i Hi). specialize (Hst eq_refl).
        destruct (N.eq_dec i f) as [E|E].
        * subst i. destruct (aget (s_kv st) f).
          -- destruct Hfab as [f0 [E1 [_ _]]]. exists f0. split; [assumption|].
             split; [apply amem_true; eexists; apply aget_aset_same|congruence].
          -- left; assumption.
        * unfold amem. rewrite aget_aset_other by assumption. exact Hfab.
    - (* stored at once *)
      constructor; sstate; kvs; try assumption.
      + apply nodup_aset; assumption.
      + intros i Hi. apply akeys_aset in Hi. destruct Hi as [[Hi _]|Hi]; [apply Hrg; assumption|subst; assumption].
      + erewrite length_aset_mem by eassumption. assumption.
      + intros i Hi. specialize (Hfab i Hi).
        destruct (N.eq_dec i f) as [E|E].
        * subst i. rewrite fabric_key_id, aget_aset_same. exists (upd fb).
          split; [reflexivity|]. split; [apply amem_true; eexists; apply aget_aset_same|].
          intros _. apply aget_aset_same.
        * rewrite fabric_key_id, aget_aset_other by assumption.
          unfold amem. rewrite aget_aset_other by assumption. exact Hfab.
      + intros i Hi. rewrite fabric_key_id. rewrite aget_aset_other by keys. apply Hsub. assumption.
  Qed.

  (** nothing about the fabrics, the fail-safe or the PASE session changes *)
  Lemma inv_update : forall st st', Inv st ->
    r_fabs (s_ram st') = r_fabs (s_ram st) -> s_fs st' = s_fs st -> s_pase st' = s_pase st ->
    (forall i, 1 <= i <= 255 -> aget (s_kv st') i = aget (s_kv st) i) ->
    cell_sync (aget (s_kv st') K_BASIC) enc_basic basic_default (r_basic (s_ram st')) ->
    (s_fs st' = Idle -> cell_sync (aget (s_kv st') K_NETS) enc_nets nets_reset (r_nets (s_ram st'))) ->
    cell_dec (aget (s_kv st') K_NETS) enc_nets ->
    cell_sync (aget (s_kv st') K_LABELS) enc_labels 0 (r_labels (s_ram st')) ->
    cell_sync (aget (s_kv st') K_BIND) enc_binds [] (r_binds (s_ram st')) ->
    cell_dec (aget (s_kv st') K_RESUMP) enc_res ->
    cell_sync (aget (s_kv st') K_TZ) enc_tz 0 (r_tz (s_ram st')) ->
    match r_tts (s_ram st') with
    | None => aget (s_kv st') K_TTS = None
    | Some x => aget (s_kv st') K_TTS = Some (enc_tts x)
    end ->
    cell_sync (aget (s_kv st') K_ICD_CLIENTS) enc_icd [] (r_icd (s_ram st')) ->
    cell_sync (aget (s_kv st') K_OTA) enc_ota [] (r_ota (s_ram st')) ->
    cell_sync (aget (s_kv st') K_SCENES) enc_scenes [] (r_scenes (s_ram st')) ->
    (forall i, i < NSUBS -> cell_dec (aget (s_kv st') (SUBS_START + i)) enc_sub) ->
    Inv st'.
  Proof.
    intros st st' HI Ef Efs Ep Hkv Hb Hn Hnd Hl Hbd Hr Hz Ht Hi Ho Hs Hsb.
    destruct HI as [Hnd0 Hrg Hcap Hfab Hbas Hnets Hnd2 Hlab Hbind Hres Htz Htts Hicd Hota Hsc Hsub Hpase].
    constructor; try assumption.
    - rewrite Ef; assumption.
    - rewrite Ef; assumption.
    - rewrite Ef; assumption.
    - intros i Hi0. rewrite (Hkv i Hi0), Ef, Efs. apply Hfab; assumption.
    - rewrite Ep, Efs. assumption.
  Qed.

  Ltac upd := eapply inv_update; [eassumption|..]; sstate; kvs;
    try reflexivity; try assumption; try (right; reflexivity); try (intros; kvs; reflexivity).

  Lemma sync_some : forall A (o : option blob) (enc : A -> blob) dflt v, o = Some (enc v) -> cell_sync o enc dflt v.
  Proof. intros. right. assumption. Qed.
  Lemma dec_some : forall A (enc : A -> blob) v, cell_dec (Some (enc v)) enc.
  Proof. intros. right. eexists. reflexivity. Qed.

  (** one of the always-synchronised singleton blobs is rewritten; [sel k] says which cell it is *)
  Definition single_keys : list N :=
    [K_BASIC; K_LABELS; K_BIND; K_RESUMP; K_TZ; K_ICD_CLIENTS; K_OTA; K_SCENES].

  Lemma inv_singletons : forall st (r' : ram) (k : N) (b : blob),
    Inv st ->
    r_fabs r' = r_fabs (s_ram st) ->
    In k single_keys ->
    (k = K_BASIC -> b = enc_basic (r_basic r')) -> (k <> K_BASIC -> r_basic r' = r_basic (s_ram st)) ->
    r_nets r' = r_nets (s_ram st) ->
    (k = K_LABELS -> b = enc_labels (r_labels r')) -> (k <> K_LABELS -> r_labels r' = r_labels (s_ram st)) ->
    (k = K_BIND -> b = enc_binds (r_binds r')) -> (k <> K_BIND -> r_binds r' = r_binds (s_ram st)) ->
    (k = K_RESUMP -> exists l, b = enc_res l) ->
    (k = K_TZ -> b = enc_tz (r_tz r')) -> (k <> K_TZ -> r_tz r' = r_tz (s_ram st)) ->
    r_tts r' = r_tts (s_ram st) ->
    (k = K_ICD_CLIENTS -> b = enc_icd (r_icd r')) -> (k <> K_ICD_CLIENTS -> r_icd r' = r_icd (s_ram st)) ->
    (k = K_OTA -> b = enc_ota (r_ota r')) -> (k <> K_OTA -> r_ota r' = r_ota (s_ram st)) ->
    (k = K_SCENES -> b = enc_scenes (r_scenes r')) -> (k <> K_SCENES -> r_scenes r' = r_scenes (s_ram st)) ->
    Inv (mkState blob r' (s_fs st) (s_pase st) (aset (s_kv st) k b)).
  Proof.
    intros st r' k b HI Ef Hk Hb1 Hb2 Hn Hl1 Hl2 Hd1 Hd2 Hr Hz1 Hz2 Ht Hi1 Hi2 Ho1 Ho2 Hs1 Hs2.
    assert (Hnotfab : forall i, 1 <= i <= 255 -> i <> k).
    { intros i Hi E. subst i. cbn in Hk. keys. }
    assert (Hnn : K_NETS <> k) by (cbn in Hk; keys).
    assert (Hnt : K_TTS <> k) by (cbn in Hk; keys).
    (* a synchronised cell: rewritten if it is [k], untouched otherwise *)
    assert (Hcell : forall A (k0 : N) (enc : A -> blob) dflt (v' v : A),
              (k = k0 -> b = enc v') -> (k <> k0 -> v' = v) ->
              cell_sync (aget (s_kv st) k0) enc dflt v ->
              cell_sync (aget (aset (s_kv st) k b) k0) enc dflt v').
    { intros A k0 enc dflt v' v H1 H2 H3. destruct (N.eq_dec k k0) as [E|E].
      - subst k0. rewrite aget_aset_same. right. f_equal. apply H1. reflexivity.
      - rewrite aget_aset_other by congruence. rewrite (H2 E). exact H3. }
    eapply inv_update; [exact HI|..]; sstate; try reflexivity; try assumption.
    - intros i Hi. rewrite aget_aset_other; [reflexivity|]. apply Hnotfab. assumption.
    - eapply Hcell; [eassumption|eassumption|apply (i_basic st HI)].
    - intros Hi. rewrite aget_aset_other by assumption. rewrite Hn. apply (i_nets st HI Hi).
    - rewrite aget_aset_other by assumption. apply (i_nets_dec st HI).
    - eapply Hcell; [eassumption|eassumption|apply (i_labels st HI)].
    - eapply Hcell; [eassumption|eassumption|apply (i_binds st HI)].
    - destruct (N.eq_dec k K_RESUMP) as [E|E].
      + subst k. rewrite aget_aset_same. destruct (Hr eq_refl) as [l El]. subst b. apply dec_some.
      + rewrite aget_aset_other by congruence. apply (i_res st HI).
    - eapply Hcell; [eassumption|eassumption|apply (i_tz st HI)].
    - rewrite Ht, aget_aset_other by assumption. apply (i_tts st HI).
    - eapply Hcell; [eassumption|eassumption|apply (i_icd st HI)].
    - eapply Hcell; [eassumption|eassumption|apply (i_ota st HI)].
    - eapply Hcell; [eassumption|eassumption|apply (i_scenes st HI)].
    - intros i Hi. rewrite aget_aset_other by (cbn in Hk; keys). apply (i_subs st HI). assumption.
  Qed.

  Notation fabric_removed := (fabric_removed blob enc_binds enc_res enc_icd enc_ota enc_scenes enc_sub).

  Ltac single := sstate; try reflexivity; try (intros; keys); try tauto; try (cbn; tauto).

  (** the subscription table in memory changes, and / or sub-slot operations are replayed *)
  Lemma inv_subs : forall st sb ops, Inv st -> Forall subop ops ->
    Inv (mkState blob (set_subs (s_ram st) sb) (s_fs st) (s_pase st) (replay (s_kv st) ops)).
  Proof.
    intros st sb ops HI Hops. destruct (replay_subops ops (s_kv st) Hops) as [Hout Hin].
    eapply inv_update; [exact HI|..]; sstate; try reflexivity; rewrite ?Hout by keys; try apply HI.
    - intros i Hi. rewrite Hout by keys. reflexivity.
    - intros i Hi. apply Hin. apply (i_subs st HI). assumption.
  Qed.

  Lemma inv_fabric_removed : forall st g, Inv st ->
    Inv (mkState blob (fst (fabric_removed (s_ram st) g)) (s_fs st) (s_pase st)
                 (replay (s_kv st) (kvlog (snd (fabric_removed (s_ram st) g))))).
  Proof.
    intros st g HI. unfold Persist.fabric_removed, Persist.drop_for.
    set (res' := filter (fun x => negb (fst x =? g)) (r_resump (s_ram st))).
    (* the resumption cache *)
    assert (HI1 : Inv (mkState blob (set_resump (s_ram st) res') (s_fs st) (s_pase st)
                               (aset (s_kv st) K_RESUMP (enc_res res')))).
    { apply inv_singletons; single. intros _. eexists; reflexivity. }
    set (st0 := mkState blob (set_resump (s_ram st) res') (s_fs st) (s_pase st)
                        (aset (s_kv st) K_RESUMP (enc_res res'))) in *.
    (* the subscriptions of the fabric *)
    set (sb := drop_subs g (r_subs (s_ram st))).
    set (sops := if (length sb =? length (r_subs (s_ram st)))%nat then [] else persist_subs sb).
    assert (HI1s : Inv (mkState blob (set_subs (s_ram st0) sb) (s_fs st) (s_pase st) (replay (s_kv st0) sops))).
    { apply (inv_subs st0); [exact HI1|]. unfold sops.
      destruct (length sb =? length (r_subs (s_ram st)))%nat; [constructor|apply persist_subs_subop]. }
    clear HI1. rename HI1s into HI1.
    set (st1 := mkState blob (set_subs (s_ram st0) sb) (s_fs st) (s_pase st) (replay (s_kv st0) sops)) in *.
    (* scenes *)
    set (sc := if amem (r_scenes (s_ram st)) g then adel (r_scenes (s_ram st)) g else r_scenes (s_ram st)).
    set (kv2 := if amem (r_scenes (s_ram st)) g then aset (s_kv st1) K_SCENES (enc_scenes sc) else s_kv st1).
    assert (HI2 : Inv (mkState blob (set_scenes (s_ram st1) sc) (s_fs st) (s_pase st) kv2)).
    { unfold sc, kv2. destruct (amem (r_scenes (s_ram st)) g).
      - apply (inv_singletons st1); single; assumption.
      - replace (set_scenes (s_ram st1) (r_scenes (s_ram st))) with (s_ram st1) by reflexivity. exact HI1. }
    set (st2 := mkState blob (set_scenes (s_ram st1) sc) (s_fs st) (s_pase st) kv2) in *.
    (* OTA providers *)
    set (ot := if amem (r_ota (s_ram st)) g then adel (r_ota (s_ram st)) g else r_ota (s_ram st)).
    set (kv3 := if amem (r_ota (s_ram st)) g then aset kv2 K_OTA (enc_ota ot) else kv2).
    assert (HI3 : Inv (mkState blob (set_ota (s_ram st2) ot) (s_fs st) (s_pase st) kv3)).
    { unfold ot, kv3. destruct (amem (r_ota (s_ram st)) g).
      - apply (inv_singletons st2); single; assumption.
      - replace (set_ota (s_ram st2) (r_ota (s_ram st))) with (s_ram st2) by reflexivity. exact HI2. }
    set (st3 := mkState blob (set_ota (s_ram st2) ot) (s_fs st) (s_pase st) kv3) in *.
    (* ICD registrations *)
    set (ic := if amem (r_icd (s_ram st)) g then adel (r_icd (s_ram st)) g else r_icd (s_ram st)).
    set (kv4 := if amem (r_icd (s_ram st)) g then aset kv3 K_ICD_CLIENTS (enc_icd ic) else kv3).
    assert (HI4 : Inv (mkState blob (set_icd (s_ram st3) ic) (s_fs st) (s_pase st) kv4)).
    { unfold ic, kv4. destruct (amem (r_icd (s_ram st)) g).
      - apply (inv_singletons st3); single; assumption.
      - replace (set_icd (s_ram st3) (r_icd (s_ram st))) with (s_ram st3) by reflexivity. exact HI3. }
    set (st4 := mkState blob (set_icd (s_ram st3) ic) (s_fs st) (s_pase st) kv4) in *.
    (* bindings *)
    set (bd := if amem (r_binds (s_ram st)) g then adel (r_binds (s_ram st)) g else r_binds (s_ram st)).
    set (kv5 := if amem (r_binds (s_ram st)) g then aset kv4 K_BIND (enc_binds bd) else kv4).
    assert (HI5 : Inv (mkState blob (set_binds (s_ram st4) bd) (s_fs st) (s_pase st) kv5)).
    { unfold bd, kv5. destruct (amem (r_binds (s_ram st)) g).
      - apply (inv_singletons st4); single; assumption.
      - replace (set_binds (s_ram st4) (r_binds (s_ram st))) with (s_ram st4) by reflexivity. exact HI4. }
    (* the function computes exactly this state *)
    unfold kv5, bd in HI5. unfold st4 in HI5. unfold kv4, ic in HI5. unfold st3 in HI5. unfold kv3, ot in HI5.
    unfold st2 in HI5. unfold kv2, sc in HI5. unfold st1 in HI5. unfold sops in HI5. unfold st0 in HI5.
    clear -HI5.
    cbn [with_ram set_fabs set_basic set_nets set_labels set_binds set_resump set_tz set_tts set_icd set_ota
         set_scenes set_subs s_ram s_fs s_kv s_pase r_fabs r_basic r_nets r_labels r_binds r_resump r_tz r_tts
         r_icd r_ota r_scenes r_subs] in HI5.
    fold sb.
    destruct (length sb =? length (r_subs (s_ram st)))%nat,
             (amem (r_scenes (s_ram st)) g), (amem (r_ota (s_ram st)) g), (amem (r_icd (s_ram st)) g),
             (amem (r_binds (s_ram st)) g); sstate; rewrite ?app_nil_r, ?kvlog_app, ?kvlog_map_EKv;
      unfold Persist.replay in *; cbn [Persist.kvlog] in *; rewrite ?fold_left_app;
      cbn [fold_left kv_apply] in *; exact HI5.
  Qed.

  Lemma fabric_removed_fabs : forall r g, r_fabs (fst (fabric_removed r g)) = r_fabs r.
  Proof.
    intros r g. unfold Persist.fabric_removed, Persist.drop_for.
    destruct (Nat.eqb (length (drop_subs g (r_subs r))) (length (r_subs r))),
             (amem (r_scenes r) g), (amem (r_ota r) g), (amem (r_icd r) g), (amem (r_binds r) g); reflexivity.
  Qed.

  (** the fabric's key and table entry go together *)
  Lemma inv_drop_fabric : forall st g, Inv st -> 1 <= g <= 255 ->
    Inv (mkState blob (set_fabs (s_ram st) (adel (r_fabs (s_ram st)) g)) (s_fs st) (s_pase st) (adel (s_kv st) g)).
  Proof.
    intros st g HI Hg.
    destruct HI as [Hnd0 Hrg Hcap Hfab Hbas Hnets Hnd2 Hlab Hbind Hres Htz Htts Hicd Hota Hsc Hsub Hpase].
    constructor; sstate; kvs; try assumption.
    - apply nodup_adel; assumption.
    - intros i Hi. apply akeys_adel in Hi. apply Hrg. tauto.
    - eapply Nat.le_trans; [apply length_adel_le|assumption].
    - intros i Hi. destruct (N.eq_dec i g) as [E|E].
      + subst i. rewrite aget_adel_same. right. apply aget_adel_same.
      + rewrite aget_adel_other by assumption. unfold amem. rewrite aget_adel_other by assumption.
        apply Hfab; assumption.
    - intros i Hi. rewrite aget_adel_other by keys. apply Hsub. assumption.
  Qed.

  Lemma aget_replay_removes : forall ks (m : kv) k,
    aget (replay m (map (@KRemove blob) ks)) k = if existsb (N.eqb k) ks then None else aget m k.
  Proof.
    induction ks as [|a t IH]; intros m k; cbn [map Persist.replay fold_left existsb]; [reflexivity|].
    fold (replay (kv_apply blob m (KRemove a)) (map (@KRemove blob) t)). rewrite IH. cbn [kv_apply].
    destruct (N.eqb_spec k a) as [E|E]; cbn [orb].
    - subst. destruct (existsb (N.eqb a) t); [reflexivity|apply aget_adel_same].
    - destruct (existsb (N.eqb k) t); [reflexivity|apply aget_adel_other; assumption].
  Qed.

  Lemma kvlog_removes : forall ks, kvlog (map (fun k => EKv (@KRemove blob k)) ks) = map (@KRemove blob) ks.
  Proof. induction ks as [|a t IH]; cbn [map Persist.kvlog]; [reflexivity|]. rewrite IH. reflexivity. Qed.

  Lemma reset_keys_fab : forall i, 1 <= i <= 255 -> existsb (N.eqb i) reset_keys = true.
  Proof.
    intros i Hi. apply existsb_exists. exists i. split; [|apply N.eqb_refl].
    unfold reset_keys. apply in_or_app. left. apply in_map_iff. exists i.
    split; [apply fabric_key_id|apply in_fab_indices; assumption].
  Qed.

  Lemma reset_keys_subs : forall i, i < NSUBS -> existsb (N.eqb (SUBS_START + i)) reset_keys = true.
  Proof.
    intros i Hi. apply existsb_exists. exists (SUBS_START + i). split; [|apply N.eqb_refl].
    unfold reset_keys. apply in_or_app. right. apply in_or_app. right. apply in_or_app. right.
    apply in_or_app. left. apply in_nrange. unfold NSUBS in *. lia.
  Qed.

  Lemma inv_reset : forall st, Inv st ->
    Inv (mkState blob (set_subs ram_factory (r_subs (s_ram st))) (s_fs st) (s_pase st)
                 (replay (s_kv st) (kvlog (map (fun k => EKv (@KRemove blob k)) reset_keys)))).
  Proof.
    intros st HI. rewrite kvlog_removes.
    constructor; sstate; rewrite ?aget_replay_removes.
    - constructor.
    - intros i [].
    - cbn. lia.
    - intros i Hi. rewrite aget_replay_removes, (reset_keys_fab i Hi). right. reflexivity.
    - left. split; reflexivity.
    - intros _. left. split; reflexivity.
    - left. reflexivity.
    - left. split; reflexivity.
    - left. split; reflexivity.
    - left. reflexivity.
    - left. split; reflexivity.
    - reflexivity.
    - left. split; reflexivity.
    - left. split; reflexivity.
    - left. split; reflexivity.
    - intros i Hi. rewrite aget_replay_removes, (reset_keys_subs i Hi). left. reflexivity.
    - apply (i_pase st HI).
  Qed.

  Lemma load_resump_ops : forall (m : kv) fabs,
    (forall k, k <> K_RESUMP -> aget (replay m (snd (load_resump m fabs))) k = aget m k) /\
    (cell_dec (aget m K_RESUMP) enc_res -> cell_dec (aget (replay m (snd (load_resump m fabs))) K_RESUMP) enc_res).
  Proof.
    intros m fabs. unfold Persist.load_resump.
    destruct (aget m K_RESUMP) as [b|] eqn:Eb; [|cbn; rewrite Eb; split; [reflexivity|tauto]].
    destruct (dec_res b) as [l|].
    - destruct (length (filter (fun r => amem fabs (fst r)) l) =? length l)%nat; cbn [snd Persist.replay fold_left kv_apply].
      + rewrite Eb. split; [reflexivity|tauto].
      + split; [intros k Hk; apply aget_aset_other; assumption|]. intros _. rewrite aget_aset_same. apply dec_some.
    - cbn [snd Persist.replay fold_left kv_apply]. split; [intros k Hk; apply aget_adel_other; assumption|].
      intros _. rewrite aget_adel_same. left. reflexivity.
  Qed.

  Lemma inv_crash : forall st r ops, Inv st -> startup (s_kv st) = Some (r, ops) ->
    Inv (mkState blob r Idle None (replay (s_kv st) ops)).
  Proof.
    intros st r ops HI Hs.
    destruct (startup_sync st HI) as [r0 [ops0 [Hs0 [_ [Hst [Hb [_ [Hl [Hbd [Hres [Hn [Hk [Hz [Ht [Hic [Ho Hsc]]]]]]]]]]]]]]]].
    rewrite Hs in Hs0. injection Hs0 as <- <-.
    destruct Hres as [ops1 [ops2 [Hres [Hsubs [Hsubops ->]]]]].
    assert (Hops : ops1 = snd (load_resump (s_kv st) (r_fabs r))) by (rewrite <- Hres; reflexivity).
    destruct (load_resump_ops (s_kv st) (r_fabs r)) as [Hother1 Hdec1]. rewrite <- Hops in Hother1, Hdec1.
    destruct (replay_subops ops2 (replay (s_kv st) ops1) Hsubops) as [Hout2 Hin2].
    rewrite replay_app.
    assert (Hother : forall k, k <> K_RESUMP -> ~ in_subs k ->
                     aget (replay (replay (s_kv st) ops1) ops2) k = aget (s_kv st) k).
    { intros k H1 H2. rewrite Hout2 by assumption. apply Hother1. assumption. }
    assert (Hdec : cell_dec (aget (s_kv st) K_RESUMP) enc_res ->
                   cell_dec (aget (replay (replay (s_kv st) ops1) ops2) K_RESUMP) enc_res).
    { intros H. rewrite Hout2 by keys. apply Hdec1. assumption. }
    constructor; sstate; rewrite ?Hother by keys.
    - rewrite Hk. apply NoDup_filter. apply nodup_nrange.
    - intros i Hi. rewrite Hk in Hi. apply filter_In in Hi. destruct Hi as [Hin Hm].
      rewrite fabric_key_id in Hm. apply in_fab_indices in Hin.
      pose proof (i_fab st HI i Hin) as H. apply amem_true in Hm. destruct Hm as [b Eb]. rewrite Eb in H.
      destruct H as [f [_ [Hmem _]]]. apply amem_true in Hmem. destruct Hmem as [v Hv].
      apply (i_range st HI). eapply aget_In_keys; eassumption.
    - replace (length (r_fabs r)) with (length (akeys (r_fabs r))) by (unfold akeys; apply map_length).
      rewrite Hk. apply inv_present_count; assumption.
    - intros i Hi. rewrite Hother by keys. rewrite (Hst i Hi). unfold stored_fab.
      pose proof (i_fab st HI i Hi) as H.
      destruct (aget (s_kv st) i) as [b|] eqn:Eb.
      + destruct H as [f [E _]]. subst b. exists f. rewrite rt_fab.
        split; [reflexivity|]. split; [|reflexivity].
        apply amem_true. exists f. rewrite (Hst i Hi). unfold stored_fab. rewrite Eb, rt_fab. reflexivity.
      + right. reflexivity.
    - rewrite Hb. apply (i_basic st HI).
    - intros _. exact Hn.
    - apply (i_nets_dec st HI).
    - rewrite Hl. apply (i_labels st HI).
    - rewrite Hbd. apply (i_binds st HI).
    - apply Hdec. apply (i_res st HI).
    - rewrite Hz. apply (i_tz st HI).
    - rewrite Ht. apply (i_tts st HI).
    - rewrite Hic. apply (i_icd st HI).
    - rewrite Ho. apply (i_ota st HI).
    - rewrite Hsc. apply (i_scenes st HI).
    - intros i Hi. apply Hin2. rewrite Hother1 by keys. apply (i_subs st HI). assumption.
    - intros pf H. discriminate.
  Qed.

  (** only the fail-safe context / PASE session change, towards "armed" *)
  Lemma inv_arm : forall st c, Inv st -> s_fs st = Idle ->
    (forall pf, s_pase st = Some pf -> pf <> 0 -> False) ->
    Inv (mkState blob (s_ram st) (Armed c 0) (s_pase st) (s_kv st)).
  Proof.
    intros st c HI Hidle Hp.
    destruct HI as [Hnd0 Hrg Hcap Hfab Hbas Hnets Hnd2 Hlab Hbind Hres Htz Htts Hicd Hota Hsc Hsub Hpase].
    constructor; sstate; try assumption.
    - intros i Hi. specialize (Hfab i Hi). rewrite Hidle in Hfab. cbn [armed_for] in Hfab.
      destruct (aget (s_kv st) i).
      + destruct Hfab as [f [E1 [E2 E3]]]. exists f. repeat split; try assumption. intros _. apply E3. reflexivity.
      + right. destruct Hfab as [H|H]; [discriminate|assumption].
    - discriminate.
    - intros pf H1 H2. exfalso. eapply Hp; eassumption.
  Qed.

  Lemma new_index_spec : forall fabs idx, new_index fabs = Some idx ->
    1 <= idx <= 254 /\ aget fabs idx = None.
  Proof.
    intros fabs idx. unfold new_index.
    destruct (N.ltb_spec (nmax (akeys fabs)) 254) as [Hlt|Hge].
    - intros H. injection H as <-. split; [lia|].
      destruct (aget fabs (nmax (akeys fabs) + 1)) as [v|] eqn:E; [|reflexivity].
      apply aget_In_keys in E. apply nmax_ge in E. lia.
    - intros H. apply find_some in H. destruct H as [Hin Hn].
      apply in_nrange in Hin. split; [lia|]. apply amem_false. destruct (amem fabs idx); [discriminate|reflexivity].
  Qed.

  Theorem step_inv : forall st o, Inv st -> Inv (fst (step st o)).
  Proof.
    intros st o HI. destruct o; cbn [Persist.step].
    - (* OAcl *)
      destruct (caller_fab st c) as [f|]; [|exact HI]. destruct (f =? 0); [exact HI|].
      apply inv_fabric_write; [assumption|tauto].
    - (* OGkm *)
      destruct (caller_fab st c) as [f|]; [|exact HI]. destruct (f =? 0); [exact HI|].
      apply inv_fabric_write; [assumption|tauto].
    - (* OLabel *)
      destruct (caller_fab st c) as [f|]; [|exact HI].
      destruct ((f =? 0) || label_conflict (r_fabs (s_ram st)) f v); [exact HI|].
      apply inv_fabric_write; [assumption|]. cbn [negb orb]. tauto.
    - (* OVid *)
      destruct (caller_fab st c) as [f|]; [|exact HI]. destruct (f =? 0); [exact HI|].
      apply inv_fabric_write; [assumption|]. apply armed_for_pending.
    - (* OBind *)
      destruct (caller_fab st c) as [f|]; [|exact HI]. destruct (f =? 0); [exact HI|]. sstate.
      apply inv_singletons; single; assumption.
    - (* OULabel *)
      destruct (caller_fab st c) as [f|]; [|exact HI]. sstate.
      apply inv_singletons; single; assumption.
    - (* ONodeLabel *)
      destruct (caller_fab st c) as [f|]; [|exact HI]. sstate.
      apply inv_singletons; single; assumption.
    - (* OLocation *)
      destruct (caller_fab st c) as [f|]; [|exact HI]. sstate.
      apply inv_singletons; single; assumption.
    - (* OReg *)
      destruct (caller_fab st c) as [f|]; [|exact HI]. sstate.
      apply inv_singletons; single; assumption.
    - (* OTz *)
      destruct (caller_fab st c) as [f|]; [|exact HI]. sstate.
      apply inv_singletons; single; assumption.
    - (* OTts *)
      destruct (caller_fab st c) as [f|]; [|exact HI]. destruct (f =? 0); [exact HI|].
      destruct (v =? 0).
      + destruct (r_tts (s_ram st)) as [x|] eqn:Et; [|exact HI]. sstate.
        eapply inv_update; [exact HI|..]; sstate; kvs; try reflexivity; try apply HI.
        all: intros i Hi; kvs; first [reflexivity | apply (i_subs st HI); assumption].
      + destruct (match r_tts (s_ram st) with Some (f0, v0) => (f0 =? f) && (v0 =? v) | None => false end); [exact HI|].
        sstate. eapply inv_update; [exact HI|..]; sstate; kvs; try reflexivity; try apply HI.
        all: intros i Hi; kvs; first [reflexivity | apply (i_subs st HI); assumption].
    - (* OIcd *)
      destruct (caller_fab st c) as [f|]; [|exact HI]. destruct (f =? 0); [exact HI|].
      destruct (v =? 0).
      + destruct (amem (r_icd (s_ram st)) f); [|exact HI]. sstate. apply inv_singletons; single; assumption.
      + sstate. apply inv_singletons; single; assumption.
    - (* OOta *)
      destruct (caller_fab st c) as [f|]; [|exact HI]. destruct (f =? 0); [exact HI|]. sstate.
      apply inv_singletons; single; assumption.
    - (* OScene *)
      destruct (caller_fab st c) as [f|]; [|exact HI]. destruct (f =? 0); [exact HI|].
      destruct (v =? 0).
      + destruct (amem (r_scenes (s_ram st)) f); [|exact HI]. sstate. apply inv_singletons; single; assumption.
      + sstate. apply inv_singletons; single; assumption.
    - (* OSub *)
      destruct (caller_fab st c) as [f|]; [|exact HI]. destruct (f =? 0); [exact HI|].
      unfold Persist.commit. cbn [fst with_ram s_ram s_fs s_pase s_kv Persist.kvlog]. rewrite kvlog_map_EKv.
      apply (inv_subs st); [exact HI|apply persist_subs_subop].
    - (* ORemove *)
      destruct (caller_fab st c) as [f|]; [|exact HI].
      destruct (amem (r_fabs (s_ram st)) g) eqn:Eg; [|exact HI].
      assert (Hg : 1 <= g <= 255).
      { apply amem_true in Eg. destruct Eg as [v Ev]. apply aget_In_keys in Ev. apply (i_range st HI) in Ev. lia. }
      pose proof (inv_drop_fabric st g HI Hg) as HI0.
      set (tts_of_g := match r_tts (s_ram st) with Some (f0, _) => f0 =? g | None => false end).
      set (r1 := set_fabs (s_ram st) (adel (r_fabs (s_ram st)) g)) in *.
      (* the trusted time source of the fabric, if it is its *)
      assert (HI1 : Inv (mkState blob (if tts_of_g then set_tts r1 None else r1) (s_fs st) (s_pase st)
                                 (replay (adel (s_kv st) g) (kvlog (if tts_of_g then [EKv (KRemove K_TTS)] else []))))).
      { destruct tts_of_g; sstate; [|exact HI0].
        eapply inv_update; [exact HI0|..]; sstate; kvs; try reflexivity; try apply HI0.
        all: try (unfold r1; sstate; apply HI).
        all: intros i Hi; kvs; first [reflexivity | apply (i_subs st HI); assumption]. }
      pose proof (inv_fabric_removed _ g HI1) as H.
      cbn [s_ram s_fs s_pase s_kv] in H.
      destruct (fabric_removed (if tts_of_g then set_tts r1 None else r1) g) as [r2 evs] eqn:Er.
      cbn [fst snd] in H. unfold Persist.commit. cbn [fst with_ram s_ram s_fs s_pase s_kv].
      rewrite !kvlog_app. cbn [Persist.kvlog]. rewrite app_nil_r, !replay_app.
      cbn [Persist.replay fold_left kv_apply] in *. rewrite fabric_key_id. exact H.
    - (* OArm *)
      destruct (caller_fab st c) as [cf|]; [|exact HI].
      destruct (s_fs st) as [|ctx stg] eqn:Efs.
      + sstate. apply inv_arm; [assumption|assumption|].
        intros pf H1 H2. pose proof (i_pase st HI pf H1 H2) as H. congruence.
      + destruct (ctx =? cf); exact HI.
    - (* OAddNoc *)
      destruct (s_pase st) as [pf|] eqn:Ep; [|exact HI].
      destruct (s_fs st) as [|ctx stg] eqn:Efs; [exact HI|].
      destruct stg as [|p]; [|exact HI].
      destruct (N.eqb_spec ctx pf) as [Ec|Ec]; [|exact HI]. subst ctx.
      assert (Hpf : pf = 0).
      { destruct (N.eq_dec pf 0) as [E|E]; [assumption|]. pose proof (i_pase st HI pf Ep E) as H. congruence. }
      subst pf.
      assert (Hstage : forall stg', Inv (mkState blob (s_ram st) (Armed 0 stg') (Some 0) (s_kv st))).
      { intros stg'. destruct HI as [Hnd0 Hrg Hcap Hfab Hbas Hnets Hnd2 Hlab Hbind Hres Htz Htts Hicd Hota Hsc Hsub Hpase].
        constructor; sstate; try assumption.
        - intros i Hi. specialize (Hfab i Hi). rewrite Efs in Hfab. exact Hfab.
        - discriminate.
        - intros pf H1 H2. congruence. }
      destruct (Nat.leb_spec MAX_FABRICS (length (r_fabs (s_ram st)))) as [Hfull|Hroom]; [sstate; apply Hstage|].
      destruct (new_index (r_fabs (s_ram st))) as [idx|] eqn:En; [|sstate; apply Hstage].
      destruct (new_index_spec _ _ En) as [Hidx Hfree]. sstate.
      destruct HI as [Hnd0 Hrg Hcap Hfab Hbas Hnets Hnd2 Hlab Hbind Hres Htz Htts Hicd Hota Hsc Hsub Hpase].
      constructor; sstate; try assumption.
      + apply nodup_aset; assumption.
      + intros i Hi. apply akeys_aset in Hi. destruct Hi as [[Hi _]|Hi]; [apply Hrg; assumption|subst; assumption].
      + pose proof (length_aset_le (r_fabs (s_ram st)) idx (mkFabric nid VENDOR 0 0 0)). lia.
      + intros i Hi. specialize (Hfab i Hi). rewrite Efs in Hfab. cbn [armed_for] in *.
        destruct (N.eqb_spec idx i) as [E|E].
        * subst i. destruct (aget (s_kv st) idx).
          -- destruct Hfab as [f [_ [Hm _]]]. apply amem_true in Hm. destruct Hm as [v Hv]. congruence.
          -- left. reflexivity.
        * assert (E0 : (0 =? i) = false) by (apply N.eqb_neq; lia). rewrite E0 in Hfab.
          unfold amem. rewrite aget_aset_other by congruence. exact Hfab.
      + discriminate.
      + intros pf H1 H2. injection H1 as <-. reflexivity.
    - (* OUpdNoc *)
      destruct (aget (r_fabs (s_ram st)) f) as [fb|] eqn:Ef; [|exact HI].
      destruct (s_fs st) as [|ctx stg] eqn:Efs; [exact HI|].
      destruct stg as [|p]; [|exact HI].
      destruct (N.eqb_spec ctx f) as [Ec|Ec]; [|exact HI]. subst ctx. sstate.
      assert (Hr : 1 <= f <= 254) by (apply (i_range st HI); eapply aget_In_keys; eassumption).
      destruct HI as [Hnd0 Hrg Hcap Hfab Hbas Hnets Hnd2 Hlab Hbind Hres Htz Htts Hicd Hota Hsc Hsub Hpase].
      constructor; sstate; try assumption.
      + apply nodup_aset; assumption.
      + intros i Hi. apply akeys_aset in Hi. destruct Hi as [[Hi _]|Hi]; [apply Hrg; assumption|subst; assumption].
      + erewrite length_aset_mem by eassumption. assumption.
      + intros i Hi. specialize (Hfab i Hi). rewrite Efs in Hfab. cbn [armed_for] in *.
        destruct (N.eqb_spec f i) as [E|E].
        * subst i. destruct (aget (s_kv st) f).
          -- destruct Hfab as [f0 [E1 _]]. exists f0. split; [assumption|].
             split; [apply amem_true; eexists; apply aget_aset_same|discriminate].
          -- left. reflexivity.
        * unfold amem. rewrite aget_aset_other by congruence. exact Hfab.
      + discriminate.
      + intros pf H1 H2. pose proof (Hpase pf H1 H2) as H. rewrite Efs in H. congruence.
    - (* ONet *)
      destruct (caller_fab st c) as [cf|]; [|exact HI].
      destruct (s_fs st) as [|ctx stg] eqn:Efs; [exact HI|].
      destruct (ctx =? cf); [|exact HI].
      destruct (net_add (r_nets (s_ram st)) k) as [n'|]; [|exact HI]. sstate.
      destruct HI as [Hnd0 Hrg Hcap Hfab Hbas Hnets Hnd2 Hlab Hbind Hres Htz Htts Hicd Hota Hsc Hsub Hpase].
      constructor; sstate; try assumption. rewrite Efs. discriminate.
    - (* OComplete *)
      destruct (aget (r_fabs (s_ram st)) f) as [fb|] eqn:Ef; [|exact HI].
      destruct (s_fs st) as [|ctx stg] eqn:Efs; [exact HI|].
      destruct (N.eqb_spec ctx f) as [Ec|Ec]; cbn [andb]; [|exact HI]. subst ctx.
      destruct (f =? 0); cbn [negb]; [exact HI|]. sstate. rewrite fabric_key_id.
      assert (Hr : 1 <= f <= 254) by (apply (i_range st HI); eapply aget_In_keys; eassumption).
      destruct HI as [Hnd0 Hrg Hcap Hfab Hbas Hnets Hnd2 Hlab Hbind Hres Htz Htts Hicd Hota Hsc Hsub Hpase].
      constructor; sstate; kvs; try assumption.
      + intros i Hi. specialize (Hfab i Hi). rewrite Efs in Hfab. cbn [armed_for] in *.
        rewrite aget_aset_other by keys.
        destruct (N.eqb_spec f i) as [E|E].
        * subst i. rewrite aget_aset_same. exists fb. split; [reflexivity|].
          split; [apply amem_true; eexists; eassumption|]. intros _. assumption.
        * rewrite aget_aset_other by congruence. exact Hfab.
      + intros _. right. reflexivity.
      + apply dec_some.
      + intros i Hi. kvs. apply Hsub. assumption.
      + discriminate.
    - (* OExpire *)
      destruct (s_fs st) as [|ctx stg] eqn:Efs; [exact HI|].
      set (reload := fun r0 : ram =>
        match aget (s_kv st) K_NETS with
        | None => set_nets r0 nets_reset
        | Some b => match dec_nets b with Some n => set_nets r0 n | None => r0 end
        end).
      (* after the reload the networks are those of the store *)
      assert (Hreload : forall r0, r_fabs (reload r0) = r_fabs r0 /\ r_basic (reload r0) = r_basic r0 /\
                                   r_labels (reload r0) = r_labels r0 /\ r_binds (reload r0) = r_binds r0 /\
                                   r_resump (reload r0) = r_resump r0 /\
                                   cell_sync (aget (s_kv st) K_NETS) enc_nets nets_reset (r_nets (reload r0)) /\
                                   (r_tz (reload r0) = r_tz r0 /\ r_tts (reload r0) = r_tts r0 /\
                                    r_icd (reload r0) = r_icd r0 /\ r_ota (reload r0) = r_ota r0 /\
                                    r_scenes (reload r0) = r_scenes r0)).
      { intros r0. unfold reload. destruct (i_nets_dec st HI) as [E|[n E]]; rewrite E.
        - repeat split. left. split; reflexivity.
        - rewrite rt_nets. repeat split. right. reflexivity. }
      (* the state with the fail-safe idle, PASE gone and the networks reloaded, fabric table [fabs'] *)
      assert (Hidle : forall fabs',
                NoDup (akeys fabs') -> (forall i, In i (akeys fabs') -> 1 <= i <= 254) ->
                (length fabs' <= MAX_FABRICS)%nat ->
                (forall i, 1 <= i <= 255 ->
                   match aget (s_kv st) i with
                   | None => aget fabs' i = None
                   | Some b => exists f, b = enc_fab i f /\ aget fabs' i = Some f
                   end) ->
                Inv (mkState blob (reload (set_fabs (s_ram st) fabs')) Idle None (s_kv st))).
      { intros fabs' H1 H2 H3 H4.
        destruct (Hreload (set_fabs (s_ram st) fabs')) as [R1 [R2 [R3 [R4 [R5 [R6 [R7 [R8 [R9 [R10 R11]]]]]]]]]].
        constructor; sstate; rewrite ?R1, ?R2, ?R3, ?R4, ?R7, ?R8, ?R9, ?R10, ?R11; sstate; try assumption;
          try apply HI.
        - intros i Hi. specialize (H4 i Hi). destruct (aget (s_kv st) i).
          + destruct H4 as [f [E1 E2]]. exists f. split; [assumption|]. split; [apply amem_true; eauto|auto].
          + right. assumption.
        - intros _. exact R6.
        - discriminate. }
      destruct (N.eqb_spec ctx 0) as [E0|E0].
      + (* PASE context, no fabric yet *)
        subst ctx. sstate. fold (reload (s_ram st)).
        replace (s_ram st) with (set_fabs (s_ram st) (r_fabs (s_ram st))) at 1 by (destruct (s_ram st); reflexivity).
        apply Hidle; try apply HI.
        intros i Hi. pose proof (i_fab st HI i Hi) as H. rewrite Efs in H. cbn [armed_for] in H.
        assert (E : (0 =? i) = false) by (apply N.eqb_neq; lia). rewrite E in H.
        destruct (aget (s_kv st) i).
        * destruct H as [f [E1 [_ E3]]]. exists f. auto.
        * destruct H; [discriminate|assumption].
      + destruct (amem (r_fabs (s_ram st)) ctx) eqn:Em.
        2:{ (* the fabric is gone already *)
          set (st1 := mkState blob (reload (set_fabs (s_ram st) (r_fabs (s_ram st)))) Idle None (s_kv st)).
          assert (HI1 : Inv st1).
          { apply Hidle; try apply HI.
            intros i Hi. pose proof (i_fab st HI i Hi) as H. rewrite Efs in H. cbn [armed_for] in H.
            destruct (N.eqb_spec ctx i) as [E|E].
            - subst i. apply amem_false in Em. destruct (aget (s_kv st) ctx).
              + destruct H as [f0 [_ [Hm _]]]. apply amem_true in Hm. destruct Hm as [v Hv]. congruence.
              + assumption.
            - destruct (aget (s_kv st) i).
              + destruct H as [f0 [E1 [_ E3]]]. exists f0. auto.
              + destruct H; [discriminate|assumption]. }
          pose proof (inv_fabric_removed st1 ctx HI1) as H. unfold st1 in H. cbn [s_ram s_fs s_pase s_kv] in H.
          replace (set_fabs (s_ram st) (r_fabs (s_ram st))) with (s_ram st) in H by (destruct (s_ram st); reflexivity).
          fold (reload (s_ram st)).
          destruct (fabric_removed (reload (s_ram st)) ctx) as [r2 evs].
          cbn [fst snd] in H. sstate. exact H. }
        assert (Hc : 1 <= ctx <= 254).
        { apply amem_true in Em. destruct Em as [v Ev]. apply aget_In_keys in Ev. apply (i_range st HI). assumption. }
        assert (Hc' : 1 <= ctx <= 255) by lia.
        pose proof (i_fab st HI ctx Hc') as Hctx. rewrite fabric_key_id.
        destruct (aget (s_kv st) ctx) as [b|] eqn:Eb.
        * destruct Hctx as [f [E1 _]]. subst b. rewrite rt_fab. sstate.
          fold (reload (set_fabs (s_ram st) (adel (r_fabs (s_ram st)) ctx ++ [(ctx, f)]))).
          apply amem_true in Em. destruct Em as [v Ev].
          apply Hidle.
          -- apply (nodup_aset (r_fabs (s_ram st)) ctx f). apply (i_nodup st HI).
          -- intros i Hi. apply (akeys_aset (r_fabs (s_ram st)) ctx f) in Hi.
             destruct Hi as [[Hi _]|Hi]; [apply (i_range st HI); assumption|subst; assumption].
          -- pose proof (length_aset_mem (r_fabs (s_ram st)) ctx f v (i_nodup st HI) Ev) as Hl.
             unfold aset in Hl. rewrite Hl. apply (i_cap st HI).
          -- intros i Hi. pose proof (i_fab st HI i Hi) as H. rewrite Efs in H. cbn [armed_for] in H.
             destruct (N.eqb_spec ctx i) as [E|E].
             ++ subst i. rewrite Eb. exists f. split; [reflexivity|]. apply (aget_aset_same (r_fabs (s_ram st)) ctx f).
             ++ pose proof (aget_aset_other (r_fabs (s_ram st)) ctx i f) as Ho. unfold aset in Ho.
                rewrite Ho by congruence.
                destruct (aget (s_kv st) i).
                ** destruct H as [f0 [E1 [_ E3]]]. exists f0. auto.
                ** destruct H; [discriminate|assumption].
        * (* the fabric was never stored: dropped, with what hangs on it *)
          set (st1 := mkState blob (reload (set_fabs (s_ram st) (adel (r_fabs (s_ram st)) ctx))) Idle None (s_kv st)).
          assert (HI1 : Inv st1).
          { apply Hidle.
            - apply nodup_adel. apply (i_nodup st HI).
            - intros i Hi. apply akeys_adel in Hi. apply (i_range st HI). tauto.
            - eapply Nat.le_trans; [apply length_adel_le|apply (i_cap st HI)].
            - intros i Hi. pose proof (i_fab st HI i Hi) as H. rewrite Efs in H. cbn [armed_for] in H.
              destruct (N.eqb_spec ctx i) as [E|E].
              + subst i. rewrite Eb. apply aget_adel_same.
              + rewrite aget_adel_other by congruence.
                destruct (aget (s_kv st) i).
                * destruct H as [f0 [E1 [_ E3]]]. exists f0. auto.
                * destruct H; [discriminate|assumption]. }
          pose proof (inv_fabric_removed st1 ctx HI1) as H. unfold st1 in H. cbn [s_ram s_fs s_pase s_kv] in H.
          fold (reload (set_fabs (s_ram st) (adel (r_fabs (s_ram st)) ctx))).
          destruct (fabric_removed (reload (set_fabs (s_ram st) (adel (r_fabs (s_ram st)) ctx))) ctx) as [r2 evs].
          cbn [fst snd] in H. sstate. exact H.
    - (* OResume *)
      destruct (amem (r_fabs (s_ram st)) f); [|exact HI]. sstate.
      destruct HI as [Hnd0 Hrg Hcap Hfab Hbas Hnets Hnd2 Hlab Hbind Hres Htz Htts Hicd Hota Hsc Hsub Hpase].
      constructor; sstate; assumption.
    - (* OFlush *)
      sstate.
      replace (s_ram st) with (set_resump (s_ram st) (r_resump (s_ram st))) at 1 by (destruct (s_ram st); reflexivity).
      apply inv_singletons; single; try assumption.
      intros _. eexists. reflexivity.
    - (* OReset *)
      sstate. apply inv_reset. assumption.
    - (* OPase *)
      sstate. destruct HI as [Hnd0 Hrg Hcap Hfab Hbas Hnets Hnd2 Hlab Hbind Hres Htz Htts Hicd Hota Hsc Hsub Hpase].
      constructor; sstate; try assumption. intros pf H1 H2. injection H1 as <-. congruence.
    - (* OCrash *)
      destruct (startup (s_kv st)) as [[r' ops]|] eqn:Es; [|exact HI]. sstate.
      rewrite kvlog_map_EKv. apply inv_crash; assumption.
  Qed.

End Inv.
