(** C11: the state invariant "the store holds exactly the encodings of what is in
    memory, except for the fabric the fail-safe is armed for and the networks
    while it is armed", what start-up makes of such a store, and preservation of
    the invariant by every operation. *)
From Coq Require Import NArith Arith List Bool Lia ZifyN ZifyBool.
From RsM Require Import Model.Persist Proofs.PersistFacts.
Import ListNotations.
Open Scope N_scope.

Section Inv.
  Variable blob : Type.
  Variable enc_fab : N -> fabric -> blob.
  Variable dec_fab : blob -> option (N * fabric).
  Variable enc_basic : basic -> blob.
  Variable dec_basic : blob -> option basic.
  Variable enc_nets : nets -> blob.
  Variable dec_nets : blob -> option nets.
  Variable enc_labels : N -> blob.
  Variable dec_labels : blob -> option N.
  Variable enc_binds : list (N * N) -> blob.
  Variable dec_binds : blob -> option (list (N * N)).
  Variable enc_res : list (N * N) -> blob.
  Variable dec_res : blob -> option (list (N * N)).

  (** the codecs read back what they wrote (checked on the real codecs by the harness) *)
  Hypothesis rt_fab : forall i f, dec_fab (enc_fab i f) = Some (i, f).
  Hypothesis rt_basic : forall v, dec_basic (enc_basic v) = Some v.
  Hypothesis rt_nets : forall v, dec_nets (enc_nets v) = Some v.
  Hypothesis rt_labels : forall v, dec_labels (enc_labels v) = Some v.
  Hypothesis rt_binds : forall v, dec_binds (enc_binds v) = Some v.
  Hypothesis rt_res : forall v, dec_res (enc_res v) = Some v.

  Notation state := (state blob).
  Notation kv := (kv blob).
  Notation step := (step blob enc_fab dec_fab enc_basic dec_basic enc_nets dec_nets enc_labels dec_labels
                         enc_binds dec_binds enc_res dec_res true).
  Notation startup := (startup blob dec_fab dec_basic dec_nets dec_labels dec_binds enc_res dec_res).
  Notation load_fabs := (load_fabs blob dec_fab).
  Notation load_resump := (load_resump blob enc_res dec_res).
  Notation replay := (replay blob).
  Notation kvlog := (kvlog blob).

  Definition cell_sync {A} (o : option blob) (enc : A -> blob) (dflt v : A) : Prop :=
    (o = None /\ v = dflt) \/ o = Some (enc v).
  Definition cell_dec {A} (o : option blob) (enc : A -> blob) : Prop :=
    o = None \/ exists v, o = Some (enc v).

  Record Inv (st : state) : Prop := mkInv {
    i_nodup : NoDup (akeys (r_fabs (s_ram st)));
    i_range : forall i, In i (akeys (r_fabs (s_ram st))) -> 1 <= i <= 254;
    i_cap : (length (r_fabs (s_ram st)) <= MAX_FABRICS)%nat;
    i_fab : forall i, 1 <= i <= 255 ->
      match aget (s_kv st) i with
      | None => armed_for (s_fs st) i = true \/ aget (r_fabs (s_ram st)) i = None
      | Some b => exists f, b = enc_fab i f /\ amem (r_fabs (s_ram st)) i = true /\
                            (armed_for (s_fs st) i = false -> aget (r_fabs (s_ram st)) i = Some f)
      end;
    i_basic : cell_sync (aget (s_kv st) K_BASIC) enc_basic basic_default (r_basic (s_ram st));
    i_nets : (s_fs st = Idle -> cell_sync (aget (s_kv st) K_NETS) enc_nets nets_reset (r_nets (s_ram st)));
    i_nets_dec : cell_dec (aget (s_kv st) K_NETS) enc_nets;
    i_labels : cell_sync (aget (s_kv st) K_LABELS) enc_labels 0 (r_labels (s_ram st));
    i_binds : cell_sync (aget (s_kv st) K_BIND) enc_binds [] (r_binds (s_ram st));
    i_res : cell_dec (aget (s_kv st) K_RESUMP) enc_res;
    (* a PASE session is on fabric 0 unless this fail-safe period's AddNOC upgraded it *)
    i_pase : forall pf, s_pase st = Some pf -> pf <> 0 -> s_fs st = Armed pf 2
  }.

  (** ** Start-up from a store satisfying the invariant *)

  (** entries contributed by index [i] *)
  Definition fab_entry (m : kv) (i : N) : list (N * fabric) :=
    match aget m (fabric_key i) with
    | Some b => match dec_fab b with Some (j, f) => [(j, f)] | None => [] end
    | None => []
    end.

  Lemma load_fabs_spec : forall (m : kv) ks acc,
    (forall i, In i ks -> forall b, aget m (fabric_key i) = Some b -> exists f, dec_fab b = Some (i, f)) ->
    (length acc + length (filter (fun i => amem m (fabric_key i)) ks) <= MAX_FABRICS)%nat ->
    load_fabs ks m acc = Some (acc ++ flat_map (fab_entry m) ks).
  Proof.
    intros m ks. induction ks as [|i t IH]; intros acc Hdec Hlen; cbn [load_fabs flat_map].
    - rewrite app_nil_r. reflexivity.
    - unfold fab_entry at 1. cbn [filter] in Hlen. unfold amem in Hlen at 1.
      destruct (aget m (fabric_key i)) as [b|] eqn:Eb.
      + destruct (Hdec i (or_introl eq_refl) b Eb) as [f Ef]. rewrite Ef.
        cbn [length] in Hlen.
        destruct (Nat.leb_spec MAX_FABRICS (length acc)) as [Hge|Hlt]; [lia|].
        rewrite IH.
        * rewrite <- app_assoc. reflexivity.
        * intros j Hj. apply Hdec. right; assumption.
        * rewrite app_length. cbn [length]. lia.
      + apply IH.
        * intros j Hj. apply Hdec. right; assumption.
        * exact Hlen.
  Qed.

  Lemma aget_flat_entry : forall (m : kv) ks i,
    (forall j, In j ks -> forall b, aget m (fabric_key j) = Some b -> exists f, dec_fab b = Some (j, f)) ->
    NoDup ks ->
    aget (flat_map (fab_entry m) ks) i =
      if existsb (N.eqb i) ks
      then match aget m (fabric_key i) with
           | Some b => match dec_fab b with Some (_, f) => Some f | None => None end
           | None => None
           end
      else None.
  Proof.
    intros m ks i. induction ks as [|j t IH]; intros Hdec Hnd; cbn [flat_map existsb]; [reflexivity|].
    inversion Hnd as [|? ? Hnj Hnt]; subst.
    rewrite aget_app.
    assert (Ht : forall j0, In j0 t -> forall b, aget m (fabric_key j0) = Some b -> exists f, dec_fab b = Some (j0, f))
      by (intros j0 Hj0; apply Hdec; right; assumption).
    specialize (IH Ht Hnt).
    unfold fab_entry at 1.
    destruct (N.eqb_spec i j) as [E|E].
    - subst j. cbn [orb].
      destruct (aget m (fabric_key i)) as [b|] eqn:Eb.
      + destruct (Hdec i (or_introl eq_refl) b Eb) as [f Ef]. rewrite Ef. cbn [aget]. rewrite N.eqb_refl. reflexivity.
      + cbn [aget]. rewrite IH.
        destruct (existsb (N.eqb i) t) eqn:Ex; [|reflexivity].
        apply existsb_exists in Ex. destruct Ex as [x [Hx Hxe]]. apply N.eqb_eq in Hxe. subst x. contradiction.
    - cbn [orb].
      destruct (aget m (fabric_key j)) as [b|] eqn:Eb.
      + destruct (Hdec j (or_introl eq_refl) b Eb) as [f Ef]. rewrite Ef. cbn [aget].
        destruct (N.eqb_spec i j); [congruence|]. exact IH.
      + cbn [aget]. exact IH.
  Qed.

  Lemma akeys_flat_entry : forall (m : kv) ks,
    (forall j, In j ks -> forall b, aget m (fabric_key j) = Some b -> exists f, dec_fab b = Some (j, f)) ->
    akeys (flat_map (fab_entry m) ks) = filter (fun i => amem m (fabric_key i)) ks.
  Proof.
    intros m ks. induction ks as [|j t IH]; intros Hdec; cbn [flat_map filter]; [reflexivity|].
    rewrite akeys_app, IH by (intros j0 Hj0; apply Hdec; right; assumption).
    unfold fab_entry at 1. unfold amem at 2.
    destruct (aget m (fabric_key j)) as [b|] eqn:Eb.
    - destruct (Hdec j (or_introl eq_refl) b Eb) as [f Ef]. rewrite Ef. reflexivity.
    - reflexivity.
  Qed.

  Lemma existsb_fab_indices : forall i, existsb (N.eqb i) fab_indices = true <-> 1 <= i <= 255.
  Proof.
    intros i. rewrite existsb_exists. split.
    - intros [x [Hx He]]. apply N.eqb_eq in He. subst x. apply in_fab_indices. assumption.
    - intros H. exists i. split; [apply in_fab_indices; assumption|apply N.eqb_refl].
  Qed.

  (** what a fabric key decodes to *)
  Definition stored_fab (m : kv) (i : N) : option fabric :=
    match aget m i with
    | Some b => match dec_fab b with Some (_, f) => Some f | None => None end
    | None => None
    end.

  Lemma inv_fab_dec : forall st, Inv st ->
    forall j, In j fab_indices -> forall b, aget (s_kv st) (fabric_key j) = Some b -> exists f, dec_fab b = Some (j, f).
  Proof.
    intros st HI j Hj b Hb. rewrite fabric_key_id in Hb. apply in_fab_indices in Hj.
    pose proof (i_fab st HI j Hj) as H. rewrite Hb in H. destruct H as [f [E _]]. subst b.
    exists f. apply rt_fab.
  Qed.

  Lemma inv_present_count : forall st, Inv st ->
    (length (filter (fun i => amem (s_kv st) (fabric_key i)) fab_indices) <= MAX_FABRICS)%nat.
  Proof.
    intros st HI.
    apply Nat.le_trans with (length (akeys (r_fabs (s_ram st)))).
    - apply NoDup_incl_length.
      + apply NoDup_filter. apply nodup_nrange.
      + intros i Hi. apply filter_In in Hi. destruct Hi as [Hin Hm].
        rewrite fabric_key_id in Hm. apply in_fab_indices in Hin.
        pose proof (i_fab st HI i Hin) as H. apply amem_true in Hm. destruct Hm as [b Hb]. rewrite Hb in H.
        destruct H as [f [_ [Hmem _]]]. apply amem_true in Hmem. destruct Hmem as [v Hv].
        eapply aget_In_keys; eassumption.
    - unfold akeys. rewrite map_length. apply (i_cap st HI).
  Qed.

  Lemma load_fabs_inv : forall st, Inv st ->
    exists l, load_fabs fab_indices (s_kv st) [] = Some l /\
      (forall i, aget l i = if existsb (N.eqb i) fab_indices then stored_fab (s_kv st) i else None) /\
      akeys l = filter (fun i => amem (s_kv st) (fabric_key i)) fab_indices.
  Proof.
    intros st HI. eexists. split; [|split].
    - apply load_fabs_spec.
      + apply inv_fab_dec; assumption.
      + cbn [length]. apply inv_present_count; assumption.
    - intros i. cbn [app]. rewrite aget_flat_entry.
      + unfold stored_fab. rewrite fabric_key_id. reflexivity.
      + apply inv_fab_dec; assumption.
      + apply nodup_nrange.
    - cbn [app]. apply akeys_flat_entry. apply inv_fab_dec; assumption.
  Qed.

  Lemma load_opt_sync : forall A (m : kv) k (enc : A -> blob) dec dflt v,
    (forall x, dec (enc x) = Some x) ->
    cell_sync (aget m k) enc dflt v -> load_opt blob m k dec dflt = Some v.
  Proof.
    intros A m k enc dec dflt v Hrt [[E1 E2]|E]; unfold load_opt; rewrite ?E1, ?E.
    - subst. reflexivity.
    - apply Hrt.
  Qed.

  Lemma load_opt_dec : forall A (m : kv) k (enc : A -> blob) dec dflt,
    (forall x, dec (enc x) = Some x) ->
    cell_dec (aget m k) enc -> exists v, load_opt blob m k dec dflt = Some v.
  Proof.
    intros A m k enc dec dflt Hrt [E|[v E]]; unfold load_opt; rewrite E; eauto.
  Qed.

  (** the headline fact about start-up: it succeeds and gives back memory, except for what is staged *)
  Theorem startup_sync : forall st, Inv st ->
    exists r ops, startup (s_kv st) = Some (r, ops) /\
      (forall i, armed_for (s_fs st) i = false -> aget (r_fabs r) i = aget (r_fabs (s_ram st)) i) /\
      (forall i, 1 <= i <= 255 -> aget (r_fabs r) i = stored_fab (s_kv st) i) /\
      r_basic r = r_basic (s_ram st) /\
      (s_fs st = Idle -> r_nets r = r_nets (s_ram st)) /\
      r_labels r = r_labels (s_ram st) /\
      r_binds r = r_binds (s_ram st) /\
      (r_resump r, ops) = load_resump (s_kv st) (r_fabs r) /\
      cell_sync (aget (s_kv st) K_NETS) enc_nets nets_reset (r_nets r) /\
      akeys (r_fabs r) = filter (fun i => amem (s_kv st) (fabric_key i)) fab_indices.
  Proof.
    intros st HI.
    destruct (load_fabs_inv st HI) as [l [Hl [Hget Hkeys]]].
    pose proof (load_opt_sync _ (s_kv st) K_BASIC enc_basic dec_basic basic_default _ rt_basic (i_basic st HI)) as Hb.
    pose proof (load_opt_sync _ (s_kv st) K_LABELS enc_labels dec_labels 0 _ rt_labels (i_labels st HI)) as Hlb.
    pose proof (load_opt_sync _ (s_kv st) K_BIND enc_binds dec_binds [] _ rt_binds (i_binds st HI)) as Hbd.
    destruct (load_opt_dec _ (s_kv st) K_NETS enc_nets dec_nets nets_reset rt_nets (i_nets_dec st HI)) as [ns Hns].
    unfold Persist.startup. rewrite Hl, Hb.
    destruct (load_resump (s_kv st) l) as [res ops] eqn:Er.
    rewrite Hns, Hbd, Hlb.
    exists (mkRam l (r_basic (s_ram st)) ns (r_labels (s_ram st)) (r_binds (s_ram st)) res), ops.
    split; [reflexivity|]. cbn [r_fabs r_basic r_nets r_labels r_binds r_resump].
    assert (Hstored : forall i, 1 <= i <= 255 -> aget l i = stored_fab (s_kv st) i).
    { intros i Hi. rewrite Hget. apply existsb_fab_indices in Hi. rewrite Hi. reflexivity. }
    split; [|split; [exact Hstored|split; [reflexivity|split; [|split; [reflexivity|split; [reflexivity|split; [symmetry; exact Er|split; [|exact Hkeys]]]]]]]].
    - intros i Hna.
      destruct (existsb (N.eqb i) fab_indices) eqn:Ex.
      + apply existsb_fab_indices in Ex. rewrite (Hstored i Ex). unfold stored_fab.
        pose proof (i_fab st HI i Ex) as H.
        destruct (aget (s_kv st) i) as [b|].
        * destruct H as [f [E [_ Hs]]]. subst b. rewrite rt_fab. symmetry. apply Hs. assumption.
        * destruct H as [H|H]; [congruence|symmetry; assumption].
      + rewrite Hget, Ex.
        destruct (aget (r_fabs (s_ram st)) i) as [f|] eqn:Ef; [|reflexivity].
        exfalso. apply aget_In_keys in Ef. apply (i_range st HI) in Ef.
        assert (Hr : 1 <= i <= 255) by lia. apply existsb_fab_indices in Hr. congruence.
    - intros Hidle. pose proof (i_nets st HI Hidle) as Hs.
      pose proof (load_opt_sync _ (s_kv st) K_NETS enc_nets dec_nets nets_reset _ rt_nets Hs) as Hs'.
      congruence.
    - unfold load_opt in Hns. destruct (i_nets_dec st HI) as [E|[v E]]; rewrite E in Hns.
      + left. split; [assumption|congruence].
      + right. rewrite rt_nets in Hns. congruence.
  Qed.

  (** ** Preservation *)

  Ltac keys := unfold K_BASIC, K_NETS, K_LABELS, K_BIND, K_RESUMP, fabric_key, FABRIC_KEYS_START in *; lia.
  Ltac kvs := repeat first
    [ rewrite aget_aset_same | rewrite aget_adel_same
    | rewrite aget_aset_other by keys | rewrite aget_adel_other by keys ].

  Ltac sstate := cbv zeta;
    cbn [fst snd Persist.commit Persist.refuse Persist.kvlog Persist.replay fold_left kv_apply app
         with_ram set_fabs set_basic set_nets set_labels set_binds set_resump
         s_ram s_fs s_kv s_pase r_fabs r_basic r_nets r_labels r_binds r_resump].

  Notation fabric_write := (fabric_write blob enc_fab).
  Notation commit := (commit blob).
  Notation refuse := (refuse blob).
  Notation caller_fab := (caller_fab blob).

  Lemma armed_for_pending : forall s f, pending_noc_for s f = true -> armed_for s f = true.
  Proof. intros [|c t] f; cbn; [discriminate|]. intros H. apply andb_true_iff in H. tauto. Qed.

  (** a store under a key that is not a fabric key and not one of the synced singletons' *)
  Lemma inv_fabric_write : forall st f upd staged, Inv st ->
    (staged = true -> armed_for (s_fs st) f = true) ->
    Inv (fst (fabric_write st f upd staged)).
  Proof.
    intros st f upd staged HI Hst. unfold Persist.fabric_write.
    destruct (aget (r_fabs (s_ram st)) f) as [fb|] eqn:Ef; [|exact HI].
    assert (Hr : 1 <= f <= 254) by (apply (i_range st HI); eapply aget_In_keys; eassumption).
    destruct HI as [Hnd Hrg Hcap Hfab Hbas Hnets Hnd2 Hlab Hbind Hres Hpase].
    destruct staged; sstate.
    - (* staged: memory only *)
      constructor; sstate; try assumption.
      + apply nodup_aset; assumption.
      + intros i Hi. apply akeys_aset in Hi. destruct Hi as [[Hi _]|Hi]; [apply Hrg; assumption|subst; assumption].
      + erewrite length_aset_mem by eassumption. assumption.
      + intros i Hi. specialize (Hfab i Hi). specialize (Hst eq_refl).
        destruct (N.eq_dec i f) as [E|E].
        * subst i. destruct (aget (s_kv st) f).
          -- destruct Hfab as [f0 [E1 [_ _]]]. exists f0. split; [assumption|].
             split; [apply amem_true; eexists; apply aget_aset_same|congruence].
          -- left; assumption.
        * unfold amem. rewrite aget_aset_other by assumption. exact Hfab.
    - (* stored at once *)
      constructor; sstate; kvs; try assumption.
      + apply nodup_aset; assumption.
      + intros i Hi. apply akeys_aset in Hi. destruct Hi as [[Hi _]|Hi]; [apply Hrg; assumption|subst; assumption].
      + erewrite length_aset_mem by eassumption. assumption.
      + intros i Hi. specialize (Hfab i Hi).
        destruct (N.eq_dec i f) as [E|E].
        * subst i. rewrite fabric_key_id, aget_aset_same. exists (upd fb).
          split; [reflexivity|]. split; [apply amem_true; eexists; apply aget_aset_same|].
          intros _. apply aget_aset_same.
        * rewrite fabric_key_id, aget_aset_other by assumption.
          unfold amem. rewrite aget_aset_other by assumption. exact Hfab.
  Qed.

  (** nothing about the fabrics, the fail-safe or the PASE session changes *)
  Lemma inv_update : forall st st', Inv st ->
    r_fabs (s_ram st') = r_fabs (s_ram st) -> s_fs st' = s_fs st -> s_pase st' = s_pase st ->
    (forall i, 1 <= i <= 255 -> aget (s_kv st') i = aget (s_kv st) i) ->
    cell_sync (aget (s_kv st') K_BASIC) enc_basic basic_default (r_basic (s_ram st')) ->
    (s_fs st' = Idle -> cell_sync (aget (s_kv st') K_NETS) enc_nets nets_reset (r_nets (s_ram st'))) ->
    cell_dec (aget (s_kv st') K_NETS) enc_nets ->
    cell_sync (aget (s_kv st') K_LABELS) enc_labels 0 (r_labels (s_ram st')) ->
    cell_sync (aget (s_kv st') K_BIND) enc_binds [] (r_binds (s_ram st')) ->
    cell_dec (aget (s_kv st') K_RESUMP) enc_res ->
    Inv st'.
  Proof.
    intros st st' HI Ef Efs Ep Hkv Hb Hn Hnd Hl Hbd Hr.
    destruct HI as [Hnd0 Hrg Hcap Hfab Hbas Hnets Hnd2 Hlab Hbind Hres Hpase].
    constructor; try assumption.
    - rewrite Ef; assumption.
    - rewrite Ef; assumption.
    - rewrite Ef; assumption.
    - intros i Hi. rewrite (Hkv i Hi), Ef, Efs. apply Hfab; assumption.
    - rewrite Ep, Efs. assumption.
  Qed.

  Ltac upd := eapply inv_update; [eassumption|..]; sstate; kvs;
    try reflexivity; try assumption; try (right; reflexivity); try (intros; kvs; reflexivity).

  Lemma sync_some : forall A (o : option blob) (enc : A -> blob) dflt v, o = Some (enc v) -> cell_sync o enc dflt v.
  Proof. intros. right. assumption. Qed.
  Lemma dec_some : forall A (enc : A -> blob) v, cell_dec (Some (enc v)) enc.
  Proof. intros. right. eexists. reflexivity. Qed.

  Lemma inv_singletons : forall st (r' : ram) (k : N) (b : blob),
    Inv st ->
    r_fabs r' = r_fabs (s_ram st) ->
    (k = K_BASIC \/ k = K_LABELS \/ k = K_BIND \/ k = K_RESUMP) ->
    (k = K_BASIC -> b = enc_basic (r_basic r')) -> (k <> K_BASIC -> r_basic r' = r_basic (s_ram st)) ->
    r_nets r' = r_nets (s_ram st) ->
    (k = K_LABELS -> b = enc_labels (r_labels r')) -> (k <> K_LABELS -> r_labels r' = r_labels (s_ram st)) ->
    (k = K_BIND -> b = enc_binds (r_binds r')) -> (k <> K_BIND -> r_binds r' = r_binds (s_ram st)) ->
    (k = K_RESUMP -> exists l, b = enc_res l) ->
    Inv (mkState blob r' (s_fs st) (s_pase st) (aset (s_kv st) k b)).
  Proof.
    intros st r' k b HI Ef Hk Hb1 Hb2 Hn Hl1 Hl2 Hd1 Hd2 Hr.
    assert (Hkeys : K_BASIC <> K_LABELS /\ K_BASIC <> K_BIND /\ K_BASIC <> K_RESUMP /\ K_LABELS <> K_BIND /\
                    K_LABELS <> K_RESUMP /\ K_BIND <> K_RESUMP /\ K_NETS <> K_BASIC /\ K_NETS <> K_LABELS /\
                    K_NETS <> K_BIND /\ K_NETS <> K_RESUMP) by (repeat split; keys).
    eapply inv_update; [exact HI|..]; sstate; try reflexivity; try assumption.
    - intros i Hi. rewrite aget_aset_other; [reflexivity|]. destruct Hk as [E|[E|[E|E]]]; subst k; keys.
    - destruct (N.eq_dec k K_BASIC) as [E|E].
      + subst k. rewrite aget_aset_same. right. f_equal. apply Hb1. reflexivity.
      + rewrite aget_aset_other by congruence. rewrite (Hb2 E). apply (i_basic st HI).
    - intros Hi. rewrite aget_aset_other by (destruct Hk as [E|[E|[E|E]]]; subst k; keys).
      rewrite Hn. apply (i_nets st HI Hi).
    - rewrite aget_aset_other by (destruct Hk as [E|[E|[E|E]]]; subst k; keys). apply (i_nets_dec st HI).
    - destruct (N.eq_dec k K_LABELS) as [E|E].
      + subst k. rewrite aget_aset_same. right. f_equal. apply Hl1. reflexivity.
      + rewrite aget_aset_other by congruence. rewrite (Hl2 E). apply (i_labels st HI).
    - destruct (N.eq_dec k K_BIND) as [E|E].
      + subst k. rewrite aget_aset_same. right. f_equal. apply Hd1. reflexivity.
      + rewrite aget_aset_other by congruence. rewrite (Hd2 E). apply (i_binds st HI).
    - destruct (N.eq_dec k K_RESUMP) as [E|E].
      + subst k. rewrite aget_aset_same. destruct (Hr eq_refl) as [l El]. subst b. apply dec_some.
      + rewrite aget_aset_other by congruence. apply (i_res st HI).
  Qed.

  Notation fabric_removed := (fabric_removed blob enc_binds enc_res).

  Lemma inv_fabric_removed : forall st g, Inv st ->
    Inv (mkState blob (fst (fabric_removed (s_ram st) g)) (s_fs st) (s_pase st)
                 (replay (s_kv st) (kvlog (snd (fabric_removed (s_ram st) g))))).
  Proof.
    intros st g HI. unfold Persist.fabric_removed.
    set (res' := filter (fun x => negb (fst x =? g)) (r_resump (s_ram st))).
    pose proof (inv_singletons st (set_resump (s_ram st) res') K_RESUMP (enc_res res') HI) as H1.
    assert (HI1 : Inv (mkState blob (set_resump (s_ram st) res') (s_fs st) (s_pase st)
                               (aset (s_kv st) K_RESUMP (enc_res res')))).
    { apply H1; sstate; try reflexivity; try (intros; keys); try tauto. intros _. eexists; reflexivity. }
    destruct (amem (r_binds (s_ram st)) g); sstate.
    - pose proof (inv_singletons _ (set_binds (set_resump (s_ram st) res') (adel (r_binds (s_ram st)) g))
                    K_BIND (enc_binds (adel (r_binds (s_ram st)) g)) HI1) as H2.
      apply H2; sstate; try reflexivity; try (intros; keys); try tauto.
    - exact HI1.
  Qed.

  Lemma fabric_removed_fabs : forall r g, r_fabs (fst (fabric_removed r g)) = r_fabs r.
  Proof. intros r g. unfold Persist.fabric_removed. destruct (amem (r_binds r) g); reflexivity. Qed.

  (** the fabric's key and table entry go together *)
  Lemma inv_drop_fabric : forall st g, Inv st -> 1 <= g <= 255 ->
    Inv (mkState blob (set_fabs (s_ram st) (adel (r_fabs (s_ram st)) g)) (s_fs st) (s_pase st) (adel (s_kv st) g)).
  Proof.
    intros st g HI Hg.
    destruct HI as [Hnd0 Hrg Hcap Hfab Hbas Hnets Hnd2 Hlab Hbind Hres Hpase].
    constructor; sstate; kvs; try assumption.
    - apply nodup_adel; assumption.
    - intros i Hi. apply akeys_adel in Hi. apply Hrg. tauto.
    - eapply Nat.le_trans; [apply length_adel_le|assumption].
    - intros i Hi. destruct (N.eq_dec i g) as [E|E].
      + subst i. rewrite aget_adel_same. right. apply aget_adel_same.
      + rewrite aget_adel_other by assumption. unfold amem. rewrite aget_adel_other by assumption.
        apply Hfab; assumption.
  Qed.

  Lemma aget_replay_removes : forall ks (m : kv) k,
    aget (replay m (map (@KRemove blob) ks)) k = if existsb (N.eqb k) ks then None else aget m k.
  Proof.
    induction ks as [|a t IH]; intros m k; cbn [map Persist.replay fold_left existsb]; [reflexivity|].
    fold (replay (kv_apply blob m (KRemove a)) (map (@KRemove blob) t)). rewrite IH. cbn [kv_apply].
    destruct (N.eqb_spec k a) as [E|E]; cbn [orb].
    - subst. destruct (existsb (N.eqb a) t); [reflexivity|apply aget_adel_same].
    - destruct (existsb (N.eqb k) t); [reflexivity|apply aget_adel_other; assumption].
  Qed.

  Lemma kvlog_removes : forall ks, kvlog (map (fun k => EKv (@KRemove blob k)) ks) = map (@KRemove blob) ks.
  Proof. induction ks as [|a t IH]; cbn [map Persist.kvlog]; [reflexivity|]. rewrite IH. reflexivity. Qed.

  Lemma reset_keys_fab : forall i, 1 <= i <= 255 -> existsb (N.eqb i) reset_keys = true.
  Proof.
    intros i Hi. apply existsb_exists. exists i. split; [|apply N.eqb_refl].
    unfold reset_keys. apply in_or_app. left. apply in_map_iff. exists i.
    split; [apply fabric_key_id|apply in_fab_indices; assumption].
  Qed.

  Lemma inv_reset : forall st, Inv st ->
    Inv (mkState blob ram_factory (s_fs st) (s_pase st)
                 (replay (s_kv st) (kvlog (map (fun k => EKv (@KRemove blob k)) reset_keys)))).
  Proof.
    intros st HI. rewrite kvlog_removes.
    constructor; sstate; rewrite ?aget_replay_removes.
    - constructor.
    - intros i [].
    - cbn. lia.
    - intros i Hi. rewrite aget_replay_removes, (reset_keys_fab i Hi). right. reflexivity.
    - left. split; reflexivity.
    - intros _. left. split; reflexivity.
    - left. reflexivity.
    - left. split; reflexivity.
    - left. split; reflexivity.
    - left. reflexivity.
    - apply (i_pase st HI).
  Qed.

  Lemma load_resump_ops : forall (m : kv) fabs,
    (forall k, k <> K_RESUMP -> aget (replay m (snd (load_resump m fabs))) k = aget m k) /\
    (cell_dec (aget m K_RESUMP) enc_res -> cell_dec (aget (replay m (snd (load_resump m fabs))) K_RESUMP) enc_res).
  Proof.
    intros m fabs. unfold Persist.load_resump.
    destruct (aget m K_RESUMP) as [b|] eqn:Eb; [|cbn; rewrite Eb; split; [reflexivity|tauto]].
    destruct (dec_res b) as [l|].
    - destruct (length (filter (fun r => amem fabs (fst r)) l) =? length l)%nat; cbn [snd Persist.replay fold_left kv_apply].
      + rewrite Eb. split; [reflexivity|tauto].
      + split; [intros k Hk; apply aget_aset_other; assumption|]. intros _. rewrite aget_aset_same. apply dec_some.
    - cbn [snd Persist.replay fold_left kv_apply]. split; [intros k Hk; apply aget_adel_other; assumption|].
      intros _. rewrite aget_adel_same. left. reflexivity.
  Qed.

  Lemma inv_crash : forall st r ops, Inv st -> startup (s_kv st) = Some (r, ops) ->
    Inv (mkState blob r Idle None (replay (s_kv st) ops)).
  Proof.
    intros st r ops HI Hs.
    destruct (startup_sync st HI) as [r0 [ops0 [Hs0 [_ [Hst [Hb [_ [Hl [Hbd [Hres [Hn Hk]]]]]]]]]]].
    rewrite Hs in Hs0. injection Hs0 as <- <-.
    assert (Hops : ops = snd (load_resump (s_kv st) (r_fabs r))) by (rewrite <- Hres; reflexivity).
    destruct (load_resump_ops (s_kv st) (r_fabs r)) as [Hother Hdec]. rewrite <- Hops in Hother, Hdec.
    constructor; sstate; rewrite ?Hother by keys.
    - rewrite Hk. apply NoDup_filter. apply nodup_nrange.
    - intros i Hi. rewrite Hk in Hi. apply filter_In in Hi. destruct Hi as [Hin Hm].
      rewrite fabric_key_id in Hm. apply in_fab_indices in Hin.
      pose proof (i_fab st HI i Hin) as H. apply amem_true in Hm. destruct Hm as [b Eb]. rewrite Eb in H.
      destruct H as [f [_ [Hmem _]]]. apply amem_true in Hmem. destruct Hmem as [v Hv].
      apply (i_range st HI). eapply aget_In_keys; eassumption.
    - replace (length (r_fabs r)) with (length (akeys (r_fabs r))) by (unfold akeys; apply map_length).
      rewrite Hk. apply inv_present_count; assumption.
    - intros i Hi. rewrite Hother by keys. rewrite (Hst i Hi). unfold stored_fab.
      pose proof (i_fab st HI i Hi) as H.
      destruct (aget (s_kv st) i) as [b|] eqn:Eb.
      + destruct H as [f [E _]]. subst b. exists f. rewrite rt_fab.
        split; [reflexivity|]. split; [|reflexivity].
        apply amem_true. exists f. rewrite (Hst i Hi). unfold stored_fab. rewrite Eb, rt_fab. reflexivity.
      + right. reflexivity.
    - rewrite Hb. apply (i_basic st HI).
    - intros _. exact Hn.
    - apply (i_nets_dec st HI).
    - rewrite Hl. apply (i_labels st HI).
    - rewrite Hbd. apply (i_binds st HI).
    - apply Hdec. apply (i_res st HI).
    - intros pf H. discriminate.
  Qed.

  (** only the fail-safe context / PASE session change, towards "armed" *)
  Lemma inv_arm : forall st c, Inv st -> s_fs st = Idle ->
    (forall pf, s_pase st = Some pf -> pf <> 0 -> False) ->
    Inv (mkState blob (s_ram st) (Armed c 0) (s_pase st) (s_kv st)).
  Proof.
    intros st c HI Hidle Hp.
    destruct HI as [Hnd0 Hrg Hcap Hfab Hbas Hnets Hnd2 Hlab Hbind Hres Hpase].
    constructor; sstate; try assumption.
    - intros i Hi. specialize (Hfab i Hi). rewrite Hidle in Hfab. cbn [armed_for] in Hfab.
      destruct (aget (s_kv st) i).
      + destruct Hfab as [f [E1 [E2 E3]]]. exists f. repeat split; try assumption. intros _. apply E3. reflexivity.
      + right. destruct Hfab as [H|H]; [discriminate|assumption].
    - discriminate.
    - intros pf H1 H2. exfalso. eapply Hp; eassumption.
  Qed.

  Lemma new_index_spec : forall fabs idx, new_index fabs = Some idx ->
    1 <= idx <= 254 /\ aget fabs idx = None.
  Proof.
    intros fabs idx. unfold new_index.
    destruct (N.ltb_spec (nmax (akeys fabs)) 254) as [Hlt|Hge].
    - intros H. injection H as <-. split; [lia|].
      destruct (aget fabs (nmax (akeys fabs) + 1)) as [v|] eqn:E; [|reflexivity].
      apply aget_In_keys in E. apply nmax_ge in E. lia.
    - intros H. apply find_some in H. destruct H as [Hin Hn].
      apply in_nrange in Hin. split; [lia|]. apply amem_false. destruct (amem fabs idx); [discriminate|reflexivity].
  Qed.

  Theorem step_inv : forall st o, Inv st -> Inv (fst (step st o)).
  Proof.
    intros st o HI. destruct o; cbn [Persist.step].
    - (* OAcl *)
      destruct (caller_fab st c) as [f|]; [|exact HI]. destruct (f =? 0); [exact HI|].
      apply inv_fabric_write; [assumption|tauto].
    - (* OGkm *)
      destruct (caller_fab st c) as [f|]; [|exact HI]. destruct (f =? 0); [exact HI|].
      apply inv_fabric_write; [assumption|tauto].
    - (* OLabel *)
      destruct (caller_fab st c) as [f|]; [|exact HI].
      destruct ((f =? 0) || label_conflict (r_fabs (s_ram st)) f v); [exact HI|].
      apply inv_fabric_write; [assumption|]. cbn [negb orb]. tauto.
    - (* OVid *)
      destruct (caller_fab st c) as [f|]; [|exact HI]. destruct (f =? 0); [exact HI|].
      apply inv_fabric_write; [assumption|]. apply armed_for_pending.
    - (* OBind *)
      destruct (caller_fab st c) as [f|]; [|exact HI]. destruct (f =? 0); [exact HI|]. sstate.
      apply inv_singletons; sstate; try reflexivity; try (intros; keys); try tauto; assumption.
    - (* OULabel *)
      destruct (caller_fab st c) as [f|]; [|exact HI]. sstate.
      apply inv_singletons; sstate; try reflexivity; try (intros; keys); try tauto; assumption.
    - (* ONodeLabel *)
      destruct (caller_fab st c) as [f|]; [|exact HI]. sstate.
      apply inv_singletons; sstate; try reflexivity; try (intros; keys); try tauto; assumption.
    - (* OLocation *)
      destruct (caller_fab st c) as [f|]; [|exact HI]. sstate.
      apply inv_singletons; sstate; try reflexivity; try (intros; keys); try tauto; assumption.
    - (* OReg *)
      destruct (caller_fab st c) as [f|]; [|exact HI]. sstate.
      apply inv_singletons; sstate; try reflexivity; try (intros; keys); try tauto; assumption.
    - (* ORemove *)
      destruct (caller_fab st c) as [f|]; [|exact HI].
      destruct (amem (r_fabs (s_ram st)) g) eqn:Eg; [|exact HI].
      assert (Hg : 1 <= g <= 255).
      { apply amem_true in Eg. destruct Eg as [v Ev]. apply aget_In_keys in Ev. apply (i_range st HI) in Ev. lia. }
      pose proof (inv_fabric_removed _ g (inv_drop_fabric st g HI Hg)) as H.
      cbn [s_ram s_fs s_pase s_kv] in H.
      destruct (fabric_removed (set_fabs (s_ram st) (adel (r_fabs (s_ram st)) g)) g) as [r2 evs] eqn:Er.
      cbn [fst snd] in H. unfold Persist.commit. cbn [fst with_ram s_ram s_fs s_pase s_kv].
      rewrite !kvlog_app. cbn [Persist.kvlog]. rewrite app_nil_r, replay_app.
      cbn [Persist.replay fold_left kv_apply]. rewrite fabric_key_id. exact H.
    - (* OArm *)
      destruct (caller_fab st c) as [cf|]; [|exact HI].
      destruct (s_fs st) as [|ctx stg] eqn:Efs.
      + sstate. apply inv_arm; [assumption|assumption|].
        intros pf H1 H2. pose proof (i_pase st HI pf H1 H2) as H. congruence.
      + destruct (ctx =? cf); exact HI.
    - (* OAddNoc *)
      destruct (s_pase st) as [pf|] eqn:Ep; [|exact HI].
      destruct (s_fs st) as [|ctx stg] eqn:Efs; [exact HI|].
      destruct stg as [|p]; [|exact HI].
      destruct (N.eqb_spec ctx pf) as [Ec|Ec]; [|exact HI]. subst ctx.
      assert (Hpf : pf = 0).
      { destruct (N.eq_dec pf 0) as [E|E]; [assumption|]. pose proof (i_pase st HI pf Ep E) as H. congruence. }
      subst pf.
      assert (Hstage : forall stg', Inv (mkState blob (s_ram st) (Armed 0 stg') (Some 0) (s_kv st))).
      { intros stg'. destruct HI as [Hnd0 Hrg Hcap Hfab Hbas Hnets Hnd2 Hlab Hbind Hres Hpase].
        constructor; sstate; try assumption.
        - intros i Hi. specialize (Hfab i Hi). rewrite Efs in Hfab. exact Hfab.
        - discriminate.
        - intros pf H1 H2. congruence. }
      destruct (Nat.leb_spec MAX_FABRICS (length (r_fabs (s_ram st)))) as [Hfull|Hroom]; [sstate; apply Hstage|].
      destruct (new_index (r_fabs (s_ram st))) as [idx|] eqn:En; [|sstate; apply Hstage].
      destruct (new_index_spec _ _ En) as [Hidx Hfree]. sstate.
      destruct HI as [Hnd0 Hrg Hcap Hfab Hbas Hnets Hnd2 Hlab Hbind Hres Hpase].
      constructor; sstate; try assumption.
      + apply nodup_aset; assumption.
      + intros i Hi. apply akeys_aset in Hi. destruct Hi as [[Hi _]|Hi]; [apply Hrg; assumption|subst; assumption].
      + pose proof (length_aset_le (r_fabs (s_ram st)) idx (mkFabric nid VENDOR 0 0 0)). lia.
      + intros i Hi. specialize (Hfab i Hi). rewrite Efs in Hfab. cbn [armed_for] in *.
        destruct (N.eqb_spec idx i) as [E|E].
        * subst i. destruct (aget (s_kv st) idx).
          -- destruct Hfab as [f [_ [Hm _]]]. apply amem_true in Hm. destruct Hm as [v Hv]. congruence.
          -- left. reflexivity.
        * assert (E0 : (0 =? i) = false) by (apply N.eqb_neq; lia). rewrite E0 in Hfab.
          unfold amem. rewrite aget_aset_other by congruence. exact Hfab.
      + discriminate.
      + intros pf H1 H2. injection H1 as <-. reflexivity.
    - (* OUpdNoc *)
      destruct (aget (r_fabs (s_ram st)) f) as [fb|] eqn:Ef; [|exact HI].
      destruct (s_fs st) as [|ctx stg] eqn:Efs; [exact HI|].
      destruct stg as [|p]; [|exact HI].
      destruct (N.eqb_spec ctx f) as [Ec|Ec]; [|exact HI]. subst ctx. sstate.
      assert (Hr : 1 <= f <= 254) by (apply (i_range st HI); eapply aget_In_keys; eassumption).
      destruct HI as [Hnd0 Hrg Hcap Hfab Hbas Hnets Hnd2 Hlab Hbind Hres Hpase].
      constructor; sstate; try assumption.
      + apply nodup_aset; assumption.
      + intros i Hi. apply akeys_aset in Hi. destruct Hi as [[Hi _]|Hi]; [apply Hrg; assumption|subst; assumption].
      + erewrite length_aset_mem by eassumption. assumption.
      + intros i Hi. specialize (Hfab i Hi). rewrite Efs in Hfab. cbn [armed_for] in *.
        destruct (N.eqb_spec f i) as [E|E].
        * subst i. destruct (aget (s_kv st) f).
          -- destruct Hfab as [f0 [E1 _]]. exists f0. split; [assumption|].
             split; [apply amem_true; eexists; apply aget_aset_same|discriminate].
          -- left. reflexivity.
        * unfold amem. rewrite aget_aset_other by congruence. exact Hfab.
      + discriminate.
      + intros pf H1 H2. pose proof (Hpase pf H1 H2) as H. rewrite Efs in H. congruence.
    - (* ONet *)
      destruct (caller_fab st c) as [cf|]; [|exact HI].
      destruct (s_fs st) as [|ctx stg] eqn:Efs; [exact HI|].
      destruct (ctx =? cf); [|exact HI].
      destruct (net_add (r_nets (s_ram st)) k) as [n'|]; [|exact HI]. sstate.
      destruct HI as [Hnd0 Hrg Hcap Hfab Hbas Hnets Hnd2 Hlab Hbind Hres Hpase].
      constructor; sstate; try assumption. rewrite Efs. discriminate.
    - (* OComplete *)
      destruct (aget (r_fabs (s_ram st)) f) as [fb|] eqn:Ef; [|exact HI].
      destruct (s_fs st) as [|ctx stg] eqn:Efs; [exact HI|].
      destruct (N.eqb_spec ctx f) as [Ec|Ec]; cbn [andb]; [|exact HI]. subst ctx.
      destruct (f =? 0); cbn [negb]; [exact HI|]. sstate. rewrite fabric_key_id.
      assert (Hr : 1 <= f <= 254) by (apply (i_range st HI); eapply aget_In_keys; eassumption).
      destruct HI as [Hnd0 Hrg Hcap Hfab Hbas Hnets Hnd2 Hlab Hbind Hres Hpase].
      constructor; sstate; kvs; try assumption.
      + intros i Hi. specialize (Hfab i Hi). rewrite Efs in Hfab. cbn [armed_for] in *.
        rewrite aget_aset_other by keys.
        destruct (N.eqb_spec f i) as [E|E].
        * subst i. rewrite aget_aset_same. exists fb. split; [reflexivity|].
          split; [apply amem_true; eexists; eassumption|]. intros _. assumption.
        * rewrite aget_aset_other by congruence. exact Hfab.
      + intros _. right. reflexivity.
      + apply dec_some.
      + discriminate.
    - (* OExpire *)
      destruct (s_fs st) as [|ctx stg] eqn:Efs; [exact HI|].
      set (reload := fun r0 : ram =>
        match aget (s_kv st) K_NETS with
        | None => set_nets r0 nets_reset
        | Some b => match dec_nets b with Some n => set_nets r0 n | None => r0 end
        end).
      (* after the reload the networks are those of the store *)
      assert (Hreload : forall r0, r_fabs (reload r0) = r_fabs r0 /\ r_basic (reload r0) = r_basic r0 /\
                                   r_labels (reload r0) = r_labels r0 /\ r_binds (reload r0) = r_binds r0 /\
                                   r_resump (reload r0) = r_resump r0 /\
                                   cell_sync (aget (s_kv st) K_NETS) enc_nets nets_reset (r_nets (reload r0))).
      { intros r0. unfold reload. destruct (i_nets_dec st HI) as [E|[n E]]; rewrite E.
        - repeat split. left. split; reflexivity.
        - rewrite rt_nets. repeat split. right. reflexivity. }
      (* the state with the fail-safe idle, PASE gone and the networks reloaded, fabric table [fabs'] *)
      assert (Hidle : forall fabs',
                NoDup (akeys fabs') -> (forall i, In i (akeys fabs') -> 1 <= i <= 254) ->
                (length fabs' <= MAX_FABRICS)%nat ->
                (forall i, 1 <= i <= 255 ->
                   match aget (s_kv st) i with
                   | None => aget fabs' i = None
                   | Some b => exists f, b = enc_fab i f /\ aget fabs' i = Some f
                   end) ->
                Inv (mkState blob (reload (set_fabs (s_ram st) fabs')) Idle None (s_kv st))).
      { intros fabs' H1 H2 H3 H4. destruct (Hreload (set_fabs (s_ram st) fabs')) as [R1 [R2 [R3 [R4 [R5 R6]]]]].
        constructor; sstate; rewrite ?R1, ?R2, ?R3, ?R4; sstate; try assumption.
        - intros i Hi. specialize (H4 i Hi). destruct (aget (s_kv st) i).
          + destruct H4 as [f [E1 E2]]. exists f. split; [assumption|]. split; [apply amem_true; eauto|auto].
          + right. assumption.
        - apply (i_basic st HI).
        - intros _. exact R6.
        - apply (i_nets_dec st HI).
        - apply (i_labels st HI).
        - apply (i_binds st HI).
        - apply (i_res st HI).
        - discriminate. }
      destruct (N.eqb_spec ctx 0) as [E0|E0].
      + (* PASE context, no fabric yet *)
        subst ctx. sstate. fold (reload (s_ram st)).
        replace (s_ram st) with (set_fabs (s_ram st) (r_fabs (s_ram st))) at 1 by (destruct (s_ram st); reflexivity).
        apply Hidle; try apply HI.
        intros i Hi. pose proof (i_fab st HI i Hi) as H. rewrite Efs in H. cbn [armed_for] in H.
        assert (E : (0 =? i) = false) by (apply N.eqb_neq; lia). rewrite E in H.
        destruct (aget (s_kv st) i).
        * destruct H as [f [E1 [_ E3]]]. exists f. auto.
        * destruct H; [discriminate|assumption].
      + destruct (amem (r_fabs (s_ram st)) ctx) eqn:Em.
        2:{ (* the fabric is gone already *)
          set (st1 := mkState blob (reload (set_fabs (s_ram st) (r_fabs (s_ram st)))) Idle None (s_kv st)).
          assert (HI1 : Inv st1).
          { apply Hidle; try apply HI.
            intros i Hi. pose proof (i_fab st HI i Hi) as H. rewrite Efs in H. cbn [armed_for] in H.
            destruct (N.eqb_spec ctx i) as [E|E].
            - subst i. apply amem_false in Em. destruct (aget (s_kv st) ctx).
              + destruct H as [f0 [_ [Hm _]]]. apply amem_true in Hm. destruct Hm as [v Hv]. congruence.
              + assumption.
            - destruct (aget (s_kv st) i).
              + destruct H as [f0 [E1 [_ E3]]]. exists f0. auto.
              + destruct H; [discriminate|assumption]. }
          pose proof (inv_fabric_removed st1 ctx HI1) as H. unfold st1 in H. cbn [s_ram s_fs s_pase s_kv] in H.
          replace (set_fabs (s_ram st) (r_fabs (s_ram st))) with (s_ram st) in H by (destruct (s_ram st); reflexivity).
          fold (reload (s_ram st)).
          destruct (fabric_removed (reload (s_ram st)) ctx) as [r2 evs].
          cbn [fst snd] in H. sstate. exact H. }
        assert (Hc : 1 <= ctx <= 254).
        { apply amem_true in Em. destruct Em as [v Ev]. apply aget_In_keys in Ev. apply (i_range st HI). assumption. }
        assert (Hc' : 1 <= ctx <= 255) by lia.
        pose proof (i_fab st HI ctx Hc') as Hctx. rewrite fabric_key_id.
        destruct (aget (s_kv st) ctx) as [b|] eqn:Eb.
        * destruct Hctx as [f [E1 _]]. subst b. rewrite rt_fab. sstate.
          fold (reload (set_fabs (s_ram st) (adel (r_fabs (s_ram st)) ctx ++ [(ctx, f)]))).
          apply amem_true in Em. destruct Em as [v Ev].
          apply Hidle.
          -- apply (nodup_aset (r_fabs (s_ram st)) ctx f). apply (i_nodup st HI).
          -- intros i Hi. apply (akeys_aset (r_fabs (s_ram st)) ctx f) in Hi.
             destruct Hi as [[Hi _]|Hi]; [apply (i_range st HI); assumption|subst; assumption].
          -- pose proof (length_aset_mem (r_fabs (s_ram st)) ctx f v (i_nodup st HI) Ev) as Hl.
             unfold aset in Hl. rewrite Hl. apply (i_cap st HI).
          -- intros i Hi. pose proof (i_fab st HI i Hi) as H. rewrite Efs in H. cbn [armed_for] in H.
             destruct (N.eqb_spec ctx i) as [E|E].
             ++ subst i. rewrite Eb. exists f. split; [reflexivity|]. apply (aget_aset_same (r_fabs (s_ram st)) ctx f).
             ++ pose proof (aget_aset_other (r_fabs (s_ram st)) ctx i f) as Ho. unfold aset in Ho.
                rewrite Ho by congruence.
                destruct (aget (s_kv st) i).
                ** destruct H as [f0 [E1 [_ E3]]]. exists f0. auto.
                ** destruct H; [discriminate|assumption].
        * (* the fabric was never stored: dropped, with what hangs on it *)
          set (st1 := mkState blob (reload (set_fabs (s_ram st) (adel (r_fabs (s_ram st)) ctx))) Idle None (s_kv st)).
          assert (HI1 : Inv st1).
          { apply Hidle.
            - apply nodup_adel. apply (i_nodup st HI).
            - intros i Hi. apply akeys_adel in Hi. apply (i_range st HI). tauto.
            - eapply Nat.le_trans; [apply length_adel_le|apply (i_cap st HI)].
            - intros i Hi. pose proof (i_fab st HI i Hi) as H. rewrite Efs in H. cbn [armed_for] in H.
              destruct (N.eqb_spec ctx i) as [E|E].
              + subst i. rewrite Eb. apply aget_adel_same.
              + rewrite aget_adel_other by congruence.
                destruct (aget (s_kv st) i).
                * destruct H as [f0 [E1 [_ E3]]]. exists f0. auto.
                * destruct H; [discriminate|assumption]. }
          pose proof (inv_fabric_removed st1 ctx HI1) as H. unfold st1 in H. cbn [s_ram s_fs s_pase s_kv] in H.
          fold (reload (set_fabs (s_ram st) (adel (r_fabs (s_ram st)) ctx))).
          destruct (fabric_removed (reload (set_fabs (s_ram st) (adel (r_fabs (s_ram st)) ctx))) ctx) as [r2 evs].
          cbn [fst snd] in H. sstate. exact H.
    - (* OResume *)
      destruct (amem (r_fabs (s_ram st)) f); [|exact HI]. sstate.
      destruct HI as [Hnd0 Hrg Hcap Hfab Hbas Hnets Hnd2 Hlab Hbind Hres Hpase].
      constructor; sstate; assumption.
    - (* OFlush *)
      sstate.
      replace (s_ram st) with (set_resump (s_ram st) (r_resump (s_ram st))) at 1 by (destruct (s_ram st); reflexivity).
      apply inv_singletons; sstate; try reflexivity; try (intros; keys); try tauto; try assumption.
      intros _. eexists. reflexivity.
    - (* OReset *)
      sstate. apply inv_reset. assumption.
    - (* OPase *)
      sstate. destruct HI as [Hnd0 Hrg Hcap Hfab Hbas Hnets Hnd2 Hlab Hbind Hres Hpase].
      constructor; sstate; try assumption. intros pf H1 H2. injection H1 as <-. congruence.
    - (* OCrash *)
      destruct (startup (s_kv st)) as [[r' ops]|] eqn:Es; [|exact HI]. sstate.
      rewrite kvlog_map_EKv. apply inv_crash; assumption.
  Qed.

End Inv.
