(** Facts about one BTP end: what the windows guarantee (no checked
    arithmetic ever fails), when a segment is accepted, what a poll emits. *)
From RsM Require Import Lib.MachInt Model.Btp Model.BtpSpec Proofs.BtpCodec.
From Coq Require Import ZifyN ZifyBool.
Open Scope N_scope.

Ltac Zify.zify_post_hook ::= Z.div_mod_to_equations.

Arguments N.add : simpl never.
Arguments N.sub : simpl never.
Arguments N.mul : simpl never.
Arguments N.div : simpl never.
Arguments N.modulo : simpl never.
Arguments N.leb : simpl never.
Arguments N.ltb : simpl never.
Arguments N.eqb : simpl never.
Arguments N.min : simpl never.
Arguments N.max : simpl never.
Arguments N.of_nat : simpl never.
Arguments N.to_nat : simpl never.
Arguments N.testbit : simpl never.
Arguments N.land : simpl never.
Arguments N.shiftr : simpl never.

(** * generic *)

Lemma bind_ok {A B} (r : res A) (f : A -> res B) v :
  bind r f = Ok v -> exists x, r = Ok x /\ f x = Ok v.
Proof. destruct r; cbn [bind]; intro H; try discriminate. eauto. Qed.

Lemma bind_panic {A B} (r : res A) (f : A -> res B) s :
  bind r f = Panic s -> r = Panic s \/ exists x, r = Ok x /\ f x = Panic s.
Proof. destruct r; cbn [bind]; intro Hp; try discriminate; [right; eauto | left; congruence]. Qed.

Lemma csub_ok site a b : b <= a -> csub site a b = Ok (a - b).
Proof. intro H. unfold csub. destruct (N.leb_spec b a); [reflexivity|lia]. Qed.

Lemma cadd_ok bound site a b : a + b < bound -> cadd bound site a b = Ok (a + b).
Proof. intro H. unfold cadd. destruct (N.ltb_spec (a + b) bound); [reflexivity|lia]. Qed.

Lemma csub_inv site a b v : csub site a b = Ok v -> b <= a /\ v = a - b.
Proof. unfold csub. destruct (N.leb_spec b a); intro Hx; inversion Hx. lia. Qed.

Lemma cadd_inv bound site a b v : cadd bound site a b = Ok v -> a + b < bound /\ v = a + b.
Proof. unfold cadd. destruct (N.ltb_spec (a + b) bound); intro Hx; inversion Hx. lia. Qed.

Lemma wrap8_lt x : wrap8 x < 256.
Proof. unfold wrap8, two8. lia. Qed.

Lemma wrap8_small x : x < 256 -> wrap8 x = x.
Proof. unfold wrap8, two8. intro. apply N.mod_small. assumption. Qed.

(** * invariants of one end *)

Definition sw_ok (w : sendw) : Prop :=
  swin w <= 255 /\ slevel w <= swin w /\ slast w < 256.

Definition rw_ok (win : N) (r : recvw) : Prop :=
  rlevel r + rack_level r = win /\ rmsgs r <= rack_level r /\ rack_seq r < 256 /\
  blen (rbuf r) <= RX_CAP.

Definition sess_ok (s : session) : Prop :=
  sw_ok (send s) /\ rw_ok (swin (send s)) (recv s) /\
  ((mtu s = 0 /\ swin (send s) = 0) \/ (20 <= mtu s <= 244 /\ 1 <= swin (send s))) /\
  (hs_pending s = true -> initiator s = false -> 1 <= slevel (send s)).

Definition inner_ok (i : inner) : Prop :=
  sess_ok (sess i) /\ out_off i <= blen (out_buf i).

Lemma inner_new_ok : inner_ok inner_new.
Proof.
  unfold inner_ok, sess_ok, sw_ok, rw_ok. cbn. unfold RX_CAP.
  repeat split; try lia; try discriminate.
Qed.

(** * the receive window *)

Ltac inv_ok H :=
  match type of H with
  | bind _ _ = Ok _ =>
      let x := fresh "x" in let H1 := fresh "Hb" in
      apply bind_ok in H; destruct H as (x & H1 & H)
  end.

(** everything [rw_accept_incoming] has checked when it answers Ok *)
Lemma rw_accept_ok r h p m r' :
  blen (rbuf r) <= RX_CAP ->
  rw_accept_incoming r h p m = Ok r' ->
  fH h = false /\ fM h = false /\ 1 <= rlevel r /\ h_seq h = wrap8 (rack_seq r + 1) /\
  exists prefix rem',
    r' = mkRW (rb_push (rb_push (rbuf r) prefix) p)
              (if fE h && negb (blen p =? 0) then rmsgs r + 1 else rmsgs r)
              (rlevel r - 1) (rack_level r + 1) (h_seq h) rem' /\
    blen (rbuf r) + blen prefix + blen p <= RX_CAP /\
    (fE h = true -> rem' = 0) /\
    match get_msg_len h with
    | Some ml => rrem r = 0 /\ blen p <= ml /\ rem' = ml - blen p /\
                 prefix = (if 0 <? ml then le16 ml else [])
    | None => blen p <= rrem r /\ rem' = rrem r - blen p /\ prefix = []
    end.
Proof.
  unfold rw_accept_incoming. intros Hcap H.
  inv_ok H. destruct x.
  assert (Hint : fH h = false /\ fM h = false /\ h_seq h = wrap8 (rack_seq r + 1)).
  { unfold check_data_integrity in Hb.
    destruct (fH h) eqn:EH; [discriminate|].
    unfold get_opcode in Hb. destruct (fM h) eqn:EM; [discriminate|].
    cbn [is_some] in Hb. inv_ok Hb. unfold get_seq in Hb. rewrite EH in Hb. cbn [negb] in Hb.
    destruct (N.eqb_spec (wrap8 (rack_seq r + 1)) (h_seq h)); cbn [negb] in Hb; [|discriminate].
    auto. }
  destruct Hint as (EH & EM & Eseq).
  destruct (N.eqb_spec (rlevel r) 0) as [|Hlev]; [discriminate|].
  inv_ok H. destruct x as [rem prefix].
  destruct (N.ltb_spec rem (blen p)) as [|Hrem]; [discriminate|].
  inv_ok H. apply csub_inv in Hb1. destruct Hb1 as [_ ->].
  destruct (fE h && (0 <? rem - blen p)) eqn:Efin; [discriminate|].
  unfold rb_free in H.
  destruct (N.ltb_spec (RX_CAP - blen (rbuf r)) (blen prefix + blen p)) as [|Hfree]; [discriminate|].
  inv_ok H. apply csub_inv in Hb1. destruct Hb1 as [_ ->].
  inv_ok H. apply cadd_inv in Hb1. destruct Hb1 as [_ ->].
  inv_ok H. inversion H; subst r'; clear H.
  repeat split; try assumption; try lia.
  exists prefix, (rem - blen p).
  split.
  { f_equal. destruct (fE h && negb (blen p =? 0)).
    - apply cadd_inv in Hb1. destruct Hb1 as [_ ->]. reflexivity.
    - inversion Hb1. reflexivity. }
  split.
  { lia. }
  split.
  { intro EE. rewrite EE in Efin. cbn [andb] in Efin. lia. }
  destruct (get_msg_len h) as [ml|].
  - destruct (N.ltb_spec 0 (rrem r)) as [|Hr0]; [discriminate|].
    destruct ((ml + hdr_len h <=? m) && negb (fE h)); [discriminate|].
    inversion Hb0; subst rem prefix. repeat split; lia.
  - inversion Hb0; subst rem prefix. repeat split; lia.
Qed.

Lemma cdi_no_panic r h p m s : check_data_integrity r h p m <> Panic s.
Proof.
  unfold check_data_integrity.
  destruct (fH h); [discriminate|].
  destruct (is_some (get_opcode h)); [discriminate|].
  destruct (is_standalone_ack h).
  - destruct (negb (blen p =? 0)); cbn [bind]; [discriminate|].
    destruct (get_seq h); [|discriminate].
    destruct (negb (wrap8 (rack_seq r + 1) =? n)); discriminate.
  - destruct (negb (is_some (get_msg_len h)) && negb (fC h) && negb (fE h)); cbn [bind]; [discriminate|].
    destruct (is_some (get_msg_len h) && fC h); cbn [bind]; [discriminate|].
    destruct (negb (fE h) && negb (blen p + hdr_len h =? m)); cbn [bind]; [discriminate|].
    destruct (get_seq h); [|discriminate].
    destruct (negb (wrap8 (rack_seq r + 1) =? n)); discriminate.
Qed.

(** with the window invariant no checked operation of the receive path fails *)
Lemma rw_accept_no_panic win r h p m s :
  rw_ok win r -> win <= 255 -> rw_accept_incoming r h p m <> Panic s.
Proof.
  intros (Hsum & Hmsgs & Hseq & Hcap) Hwin. unfold rw_accept_incoming.
  destruct (check_data_integrity r h p m) eqn:EC; cbn [bind]; [|discriminate|exfalso; eapply cdi_no_panic; eassumption].
  destruct (N.eqb_spec (rlevel r) 0) as [|Hlev]; [discriminate|].
  assert (Hnext : forall rem prefix,
    (if rem <? blen p then Err E_INVALID_DATA
     else let? rem0 := csub P_REM rem (blen p) in
       if fE h && (0 <? rem0) then Err E_INVALID_DATA
       else if rb_free (rbuf r) <? blen prefix + blen p then Err E_INVALID_DATA
       else let buf := rb_push (rb_push (rbuf r) prefix) p in
         let? level := csub P_RECV_LEVEL (rlevel r) 1 in
         let? ack_level := cadd two8 P_ACK_LEVEL (rack_level r) 1 in
         let? msgs := (if fE h && negb (blen p =? 0) then cadd two8 P_MSGS_CT (rmsgs r) 1 else Ok (rmsgs r)) in
         Ok (mkRW buf msgs level ack_level (h_seq h) rem0)) <> Panic s).
  { intros rem prefix.
    destruct (N.ltb_spec rem (blen p)); [discriminate|].
    rewrite csub_ok by lia. cbn [bind].
    destruct (fE h && (0 <? rem - blen p)); [discriminate|].
    destruct (rb_free (rbuf r) <? blen prefix + blen p); [discriminate|].
    cbv zeta. rewrite csub_ok by lia. cbn [bind].
    unfold two8. rewrite cadd_ok by lia. cbn [bind].
    destruct (fE h && negb (blen p =? 0)).
    - rewrite cadd_ok by lia. cbn [bind]. discriminate.
    - cbn [bind]. discriminate. }
  destruct (get_msg_len h) as [ml|].
  - destruct (0 <? rrem r); cbn [bind]; [discriminate|].
    destruct ((ml + hdr_len h <=? m) && negb (fE h)); cbn [bind]; [discriminate|].
    apply Hnext.
  - cbn [bind]. apply Hnext.
Qed.

(** the receive-window invariant after an accepted segment *)
Lemma rw_accept_keeps_ok win r h p m r' :
  rw_ok win r -> win <= 255 -> rw_accept_incoming r h p m = Ok r' -> rw_ok win r'.
Proof.
  intros (Hsum & Hmsgs & Hseq & Hcap) Hwin H.
  apply rw_accept_ok in H; [|assumption].
  destruct H as (EH & EM & Hlev & Es & prefix & rem' & -> & Hfit & _ & _).
  unfold rw_ok. cbn [rlevel rack_level rmsgs rack_seq rbuf].
  rewrite (rb_push_fits (rbuf r) prefix) by lia.
  rewrite rb_push_fits by (rewrite blen_app; lia).
  rewrite !blen_app.
  repeat split; try lia.
  - destruct (fE h && negb (blen p =? 0)); lia.
  - rewrite Es. apply wrap8_lt.
Qed.

(** * the send window *)

Lemma sw_check_no_panic w h s : sw_ok w -> sw_check_incoming w h <> Panic s.
Proof.
  intros (Hw & Hl & Hs). unfold sw_check_incoming.
  destruct (get_ack h); [|discriminate].
  rewrite csub_ok by lia. cbn [bind].
  destruct (swin w - slevel w <? wrap8 (slast w + 256 - n)); discriminate.
Qed.

Lemma sw_check_ok_inv w h :
  sw_ok w -> sw_check_incoming w h = Ok tt ->
  match get_ack h with
  | Some a => wrap8 (slast w + 256 - a) <= swin w - slevel w
  | None => True
  end.
Proof.
  intros (Hw & Hl & Hs). unfold sw_check_incoming.
  destruct (get_ack h); [|trivial].
  rewrite csub_ok by lia. cbn [bind].
  destruct (N.ltb_spec (swin w - slevel w) (wrap8 (slast w + 256 - n))); [discriminate|]. intros _. lia.
Qed.

(** after a checked ACK the level is the window minus what is still unacknowledged *)
Lemma sw_accept_after_check w h :
  sw_ok w -> sw_check_incoming w h = Ok tt ->
  sw_accept_incoming w h =
    Ok (match get_ack h with
        | Some a => mkSW (swin w) (swin w - wrap8 (slast w + 256 - a)) (slast w)
        | None => w
        end).
Proof.
  intros Hok Hc. pose proof (sw_check_ok_inv w h Hok Hc) as Hd.
  destruct Hok as (Hw & Hl & Hs).
  unfold sw_accept_incoming. destruct (get_ack h) as [a|]; [|reflexivity].
  destruct (N.eqb_spec (slast w) a) as [->|Hne].
  - f_equal. f_equal. unfold wrap8, two8.
    replace (a + 256 - a) with 256 by lia. rewrite N.mod_same by lia. lia.
  - rewrite csub_ok by lia. reflexivity.
Qed.

Lemma sw_post_send_ok w : 1 <= slevel w ->
  sw_post_send w = Ok (mkSW (swin w) (slevel w - 1) (wrap8 (slast w + 1))).
Proof. intro H. unfold sw_post_send. rewrite csub_ok by lia. reflexivity. Qed.

Lemma rw_post_send_ok win r : rw_ok win r -> win <= 255 ->
  rw_post_send r =
    Ok (if is_some (rw_pending_ack r)
        then mkRW (rbuf r) (rmsgs r) (rlevel r + rack_level r) 0 (rack_seq r) (rrem r)
        else r).
Proof.
  intros (Hsum & _) Hwin. unfold rw_post_send.
  destruct (is_some (rw_pending_ack r)); [|reflexivity].
  unfold two8. rewrite cadd_ok by lia. reflexivity.
Qed.

(** * what a poll emits *)

(** the segment [prep_tx_seg] builds when the window is open, in closed form *)
Definition tx_seg (s : session) (data : bytes) (off : N) : hdr * bytes :=
  let pa := rw_pending_ack (recv s) in
  let a := match pa with Some a => a | None => 0 end in
  let sq := sw_next_seq (send s) in
  if blen data =? 0 then (mkHdr false false (is_some pa) false false false 0 a sq 0, [])
  else
    let h1 := if off =? 0
              then mkHdr false false (is_some pa) false false true 0 a sq (blen data)
              else mkHdr false false (is_some pa) false true false 0 a sq 0 in
    let remaining := skipn (N.to_nat off) data in
    let chunk := N.min (blen remaining) (mtu s - hdr_len h1) in
    (mkHdr false false (is_some pa) (chunk =? blen remaining) (fC h1) (fB h1) 0 a sq (h_len h1),
     firstn (N.to_nat chunk) remaining).

Lemma prep_tx_seg_open s data off :
  sw_is_full (send s) (recv s) = false -> off <= blen data -> 6 <= mtu s ->
  prep_tx_seg s data off = Ok (Some (tx_seg s data off)).
Proof.
  intros Hfull Hoff Hmtu. unfold prep_tx_seg, tx_seg. rewrite Hfull.
  destruct (N.eqb_spec (blen data) 0) as [E0|Hne]; cbn [negb].
  - reflexivity.
  - destruct (N.ltb_spec (blen data) off); [lia|].
    set (pa := rw_pending_ack (recv s)).
    destruct (N.eqb_spec off 0) as [->|Hoff0].
    + cbn [fA h_ack h_seq].
      match goal with |- context[csub _ _ (hdr_len ?h)] => pose proof (hdr_len_bounds h) as Hb end.
      rewrite csub_ok by lia. cbn [bind].
      match goal with |- context[?c =? blen ?r] => destruct (c =? blen r) end; reflexivity.
    + cbn [fA h_ack h_seq].
      match goal with |- context[csub _ _ (hdr_len ?h)] => pose proof (hdr_len_bounds h) as Hb end.
      rewrite csub_ok by lia. cbn [bind].
      match goal with |- context[?c =? blen ?r] => destruct (c =? blen r) end; reflexivity.
Qed.

Lemma prep_tx_seg_full s data off :
  sw_is_full (send s) (recv s) = true -> prep_tx_seg s data off = Ok None.
Proof. intro H. unfold prep_tx_seg. rewrite H. reflexivity. Qed.

Lemma tx_seg_payload_len s data off :
  off <= blen data -> blen (snd (tx_seg s data off)) <= blen data - off.
Proof.
  intro Hoff. unfold tx_seg.
  destruct (blen data =? 0); cbn [snd]; [rewrite blen_nil; lia|].
  rewrite blen_firstn, N2Nat.id, blen_skipn, N2Nat.id. lia.
Qed.

Lemma not_full_level w r : sw_is_full w r = false -> 1 <= slevel w.
Proof. unfold sw_is_full. intro H. apply orb_false_iff in H. destruct H as [H _]. lia. Qed.

Definition same_rx (r r' : recvw) : Prop :=
  rbuf r' = rbuf r /\ rrem r' = rrem r /\ rmsgs r' = rmsgs r.

Lemma same_rx_refl r : same_rx r r.
Proof. repeat split. Qed.

Lemma pending_ack_msgs r : is_some (rw_pending_ack r) = true -> rmsgs r = 0 /\ 1 <= rack_level r.
Proof.
  unfold rw_pending_ack. destruct (N.ltb_spec 0 (rack_level r)); cbn [andb is_some]; [|discriminate].
  destruct (N.eqb_spec (rmsgs r) 0); cbn [is_some]; [|discriminate]. intros _. lia.
Qed.

(** the state after a segment has been emitted *)
Definition after_tx (s : session) : session :=
  mkSess (initiator s) (address s) (version s) (mtu s) (wsize s) (hs_pending s)
    (if is_some (rw_pending_ack (recv s))
     then mkRW (rbuf (recv s)) (rmsgs (recv s)) (rlevel (recv s) + rack_level (recv s)) 0
               (rack_seq (recv s)) (rrem (recv s))
     else recv s)
    (mkSW (swin (send s)) (slevel (send s) - 1) (wrap8 (slast (send s) + 1))) (relaxed s).

Lemma after_tx_ok s :
  sess_ok s -> hs_pending s = false -> 1 <= slevel (send s) -> sess_ok (after_tx s).
Proof.
  intros ((Hw & Hl & Hs) & (Hsum & Hmsgs & Hseq & Hcap) & Hmtu & _) Hhs Hlev.
  unfold sess_ok, after_tx, sw_ok, rw_ok.
  cbn [send recv mtu hs_pending initiator swin slevel slast].
  pose proof (wrap8_lt (slast (send s) + 1)).
  destruct (is_some (rw_pending_ack (recv s))) eqn:Ep.
  - apply pending_ack_msgs in Ep. cbn [rlevel rack_level rmsgs rack_seq rbuf].
    repeat split; try lia. congruence.
  - repeat split; try lia. congruence.
Qed.

Lemma prep_tx_data_cases s data off cap :
  sess_ok s -> hs_pending s = false -> off <= blen data ->
  match prep_tx_data s data off cap with
  | Ok (s', out, off') =>
      (sw_is_full (send s) (recv s) = true /\ s' = s /\ out = [] /\ off' = off) \/
      (sw_is_full (send s) (recv s) = false /\ s' = after_tx s /\
       out = hdr_encode (fst (tx_seg s data off)) ++ snd (tx_seg s data off) /\
       off' = off + blen (snd (tx_seg s data off)))
  | Err _ => sw_is_full (send s) (recv s) = false
  | Panic _ => False
  end.
Proof.
  intros Hok Hhs Hoff. unfold prep_tx_data.
  destruct (sw_is_full (send s) (recv s)) eqn:Hfull.
  - rewrite prep_tx_seg_full by assumption. cbn [bind]. left. auto.
  - pose proof (not_full_level _ _ Hfull) as Hlev.
    destruct Hok as (Hsw & Hrw & Hmtu & H4).
    assert (Hm : 6 <= mtu s) by (destruct Hsw as (? & ? & ?); lia).
    rewrite prep_tx_seg_open by assumption. cbn [bind].
    destruct (tx_seg s data off) as [h p]. cbn [fst snd].
    unfold wb. destruct (blen (hdr_encode h ++ p) <=? cap); cbn [bind]; [|reflexivity].
    rewrite sw_post_send_ok by assumption. cbn [bind].
    destruct Hsw as (Hw & ? & ?).
    erewrite rw_post_send_ok by eassumption. cbn [bind].
    right. repeat split.
Qed.

Lemma prep_tx_handshake_cases s g cap :
  sess_ok s ->
  match prep_tx_handshake s g cap with
  | Ok (s', out) =>
      (hs_pending s = false /\ s' = s /\ out = []) \/
      (hs_pending s = true /\ (blen out =? 0) = false /\ sess_ok s' /\ hs_pending s' = false /\
       recv s' = recv s)
  | Err _ => True
  | Panic _ => False
  end.
Proof.
  intros Hok. unfold prep_tx_handshake.
  destruct (hs_pending s) eqn:Hhs; [|left; auto].
  destruct (initiator s) eqn:Hini.
  - unfold prep_tx_handshake_req.
    set (m := match g with Some g0 => clamp g0 MIN_MTU MAX_MTU | None => MIN_MTU end).
    assert (Hm : 23 <= m <= 247) by (unfold m, clamp, MIN_MTU, MAX_MTU; destruct g; lia).
    unfold GATT_HDR. rewrite csub_ok by lia. cbn [bind].
    unfold initial_window_size. destruct (N.eqb_spec (m - 3) 0); [lia|]. cbn [bind].
    unfold wb. match goal with |- context[blen ?l <=? cap] => destruct (blen l <=? cap) end; cbn [bind]; trivial.
    right. split; [reflexivity|]. split; [reflexivity|].
    destruct Hok as (Hsw & Hrw & Hmtu & H4).
    unfold sess_ok. cbn [send recv mtu hs_pending initiator].
    split; [|split; reflexivity].
    split; [exact Hsw|split; [exact Hrw|split; [exact Hmtu|intro Hx; discriminate Hx]]].
  - unfold prep_tx_handshake_resp, wb.
    match goal with |- context[blen ?l <=? cap] => destruct (blen l <=? cap) end; cbn [bind]; trivial.
    destruct Hok as (Hsw & Hrw & Hmtu & H4).
    specialize (H4 Hhs Hini).
    rewrite sw_post_send_ok by assumption. cbn [bind].
    right. split; [reflexivity|]. split; [reflexivity|].
    destruct Hsw as (Hw & Hl & Hs). pose proof (wrap8_lt (slast (send s) + 1)).
    split; [|split; reflexivity].
    unfold sess_ok, sw_ok. cbn [send recv mtu hs_pending initiator swin slevel slast].
    split; [lia|]. split; [exact Hrw|]. split; [exact Hmtu|]. intro Hx; discriminate Hx.
Qed.

(** a poll never fails a checked operation, keeps the invariant of the end and
    does not touch what has been received *)
Lemma process_outgoing_ok i g t cap :
  inner_ok i ->
  let '(i', r) := process_outgoing i g t cap in
  (forall s, r <> Panic s) /\ inner_ok i' /\ same_rx (recv (sess i)) (recv (sess i')).
Proof.
  intros (Hs & Hoff). unfold process_outgoing.
  pose proof (prep_tx_handshake_cases (sess i) g cap Hs) as Hh.
  destruct (prep_tx_handshake (sess i) g cap) as [[s1 out]| |];
    [|split; [discriminate|split; [split; assumption|apply same_rx_refl]] | contradiction].
  destruct Hh as [(Hp & -> & ->)|(Hp & Hout & Hs1 & Hp1 & Hr1)].
  2:{ rewrite Hout. cbn [negb]. split; [discriminate|]. split; [split; assumption|].
      cbn [sess]. rewrite Hr1. apply same_rx_refl. }
  cbn [negb blen]. replace (blen [] =? 0) with true by reflexivity. cbn [negb].
  cbn [out_buf out_addr out_off].
  (* stage 2: the queued SDU *)
  set (i1 := mkInner (sess i) (out_addr i) (out_buf i) (out_off i)).
  assert (Hi1 : inner_ok i1) by (split; assumption).
  match goal with |- context[match ?st2 with Ok _ => _ | Err c => (i1, Err c) | Panic p => (i1, Panic p) end] =>
    assert (Hst2 : match st2 with
                   | Ok (i2, sent) => inner_ok i2 /\ same_rx (recv (sess i)) (recv (sess i2)) /\
                                      hs_pending (sess i2) = false
                   | Err _ => True
                   | Panic _ => False
                   end) end.
  { destruct (negb (blen (out_buf i) =? 0));
      [|unfold inner_ok; cbn [sess out_off out_buf]; split; [split; [exact Hs|exact Hoff]|split; [apply same_rx_refl|exact Hp]]].
    destruct (out_addr i =? address (sess i)).
    - pose proof (prep_tx_data_cases (sess i) (out_buf i) (out_off i) cap Hs Hp Hoff) as Hd.
      destruct (prep_tx_data (sess i) (out_buf i) (out_off i) cap) as [[[s2 o2] off2]| |]; cbn [bind]; trivial.
      destruct Hd as [(Hf & -> & -> & ->)|(Hf & -> & -> & ->)].
      + cbn [blen]. replace (blen [] =? 0) with true by reflexivity. unfold inner_ok; cbn [negb sess out_off out_buf].
        split; [split; [exact Hs|exact Hoff]|split; [apply same_rx_refl|exact Hp]].
      + assert (Hs2 : sess_ok (after_tx (sess i))).
        { apply after_tx_ok; try assumption. eapply not_full_level; eassumption. }
        assert (Hrx : same_rx (recv (sess i)) (recv (after_tx (sess i)))).
        { unfold after_tx, same_rx. cbn [recv]. destruct (is_some _); repeat split. }
        pose proof (tx_seg_payload_len (sess i) (out_buf i) (out_off i) Hoff) as Hpl.
        destruct (negb (blen _ =? 0)).
        * destruct (_ =? blen (out_buf i)); unfold inner_ok; cbn [out_reset sess out_off out_buf];
            (split; [split; [assumption|rewrite ?blen_nil; lia]|split; [assumption|exact Hp]]).
        * unfold inner_ok; cbn [sess out_off out_buf]. split; [split; [assumption|lia]|split; [assumption|exact Hp]].
    - destruct (is_established (sess i)); unfold inner_ok; cbn [out_reset sess out_off out_buf];
        (split; [split; [assumption|rewrite ?blen_nil; try (unfold i1; cbn [out_off out_buf]); lia]|split; [apply same_rx_refl|exact Hp]]). }
  match goal with |- context[match ?st2 with Ok _ => _ | Err c => (i1, Err c) | Panic p => (i1, Panic p) end] =>
    destruct st2 as [[i2 sent]| |] end;
    [|split; [discriminate|split; [assumption|apply same_rx_refl]]|contradiction].
  destruct Hst2 as (Hi2 & Hrx2 & Hp2).
  destruct (negb (blen sent =? 0)); [split; [discriminate|split; assumption]|].
  destruct (is_ack_due (sess i2) t); [|split; [discriminate|split; assumption]].
  destruct Hi2 as (Hs2 & Hoff2).
  pose proof (prep_tx_data_cases (sess i2) [] 0 cap Hs2 Hp2 (N.le_0_l _)) as Hd.
  destruct (prep_tx_data (sess i2) [] 0 cap) as [[[s3 o3] off3]| |];
    [|split; [discriminate|split; [split; assumption|assumption]]|contradiction].
  destruct Hd as [(Hf & -> & -> & ->)|(Hf & -> & -> & ->)].
  - split; [discriminate|]. split; [split; assumption|assumption].
  - split; [discriminate|]. cbn [sess out_off out_buf].
    split; [split; [|assumption]|].
    + apply after_tx_ok; try assumption. eapply not_full_level; eassumption.
    + destruct Hrx2 as (E1 & E2 & E3). unfold after_tx, same_rx. cbn [recv].
      destruct (is_some _); cbn [rbuf rrem rmsgs]; repeat split; assumption.
Qed.
