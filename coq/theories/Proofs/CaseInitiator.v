(** C01: the initiator, step by step and fed any sequence of messages (initiator_run_sound). *)
From Coq Require Import ZifyN ZifyBool.
From RsM Require Import Lib.MachInt Model.Cert Model.CertSpec Model.Case Model.CaseSpec
  Proofs.CertTheorems Proofs.CaseFacts.
From RsM Require Import Proofs.CaseResponder.
Open Scope N_scope.

Arguments N.add : simpl never.
Arguments N.eqb : simpl never.
Arguments N.ltb : simpl never.
Arguments N.leb : simpl never.

Definition ictx_ok (st : node) (fr : fresh) (fab peer : N) (m1 : msg) (c : ictx) : Prop :=
  ic_fab c = fab /\ ic_peer c = peer /\ ic_eph c = TNonce (fr_eph fr) /\
  ic_pub c = TPub (TNonce (fr_eph fr)) /\ ic_rand c = TNonce (fr_rand fr) /\
  ic_s1 c = msg_term m1 /\ ic_cached c = find_by_peer (n_cache st) fab peer.

Lemma init_start_spec : forall st fr fab peer,
  let o := init_start st fr fab peer in
  same_frame st (io_node o) /\ n_next_id (io_node o) = n_next_id st + 1 /\
  n_cache (io_node o) = n_cache st /\
  (sessions_wf st ->
   (io_state o = IDone false /\ n_sessions (io_node o) = n_sessions st)
   \/ (exists c m1, io_state o = IAwait2 c /\ io_msgs o = [m1] /\ ic_slot c = n_next_id st /\
         n_sessions (io_node o) = n_sessions st ++ [blank_session (n_next_id st)] /\
         ictx_ok st fr fab peer m1 c)).
Proof.
  intros st fr fab peer. unfold init_start.
  pose proof (reserve_spec st) as Hres. destruct (reserve st) as [st1 slot].
  destruct Hres as (Hslot & Hsess & Hfab & Hcache & Hclk & Hnext). subst slot.
  destruct (get_fabric fab (n_fabrics st1)) as [f|] eqn:Hgf.
  - cbn [io_node io_state io_msgs]. unfold same_frame. repeat split; try assumption.
    intros _. right. eexists. eexists. split; [reflexivity|]. split; [reflexivity|].
    cbn [ic_slot]. repeat split; try assumption; try reflexivity. cbn [ic_cached]. rewrite Hcache. reflexivity.
  - cbn [io_node io_state io_msgs]. pose proof (release_fabrics st1 (n_next_id st)) as (Rf & Rc & Rk & Rn).
    unfold same_frame. rewrite Rf, Rc, Rk, Rn. repeat split; try assumption.
    intros Hwf. left. split; [reflexivity|].
    apply (release_slot st1 (n_sessions st) (blank_session (n_next_id st)) Hsess).
    intros s Hs. cbn. apply wf_ids_ne; assumption.
Qed.

(** what the initiator knows after it accepted Sigma2 and sent Sigma3 *)
Definition ictx2_ok (st : node) (fr : fresh) (fab peer : N) (m1 m2 : msg) (c2 : ictx2) : Prop :=
  exists (f : fabric) (rr rpub : term) (noc : cert) (icac : option cert) (sig : term),
    let m3 := build_sigma3 f (TPub (TNonce (fr_eph fr))) rpub (msg_term m1) (msg_term m2)
                           (dh (TNonce (fr_eph fr)) rpub) in
    get_fabric fab (n_fabrics st) = Some f /\
    get_req m2 1 KBytes = Ok rr /\ get_req m2 3 KBytes = Ok rpub /\
    get_req m2 4 KBytes = Ok (TAead (s2k (f_ipk f) rr rpub (h1 (msg_term m1)) (dh (TNonce (fr_eph fr)) rpub))
                                    (TNum NONCE_S2) (tbe2_plain noc icac sig (i2_rid c2))) /\
    case_valid (n_clock st) (f_fid f) (f_root f) noc icac /\
    get_node_id noc = Some peer /\
    sig = TSig (TKey (pubkey noc)) (tbs noc icac rpub (TPub (TNonce (fr_eph fr)))) /\
    cats_of noc = Ok (i2_cats c2) /\
    i2_s2 c2 = msg_term m2 /\ i2_s3 c2 = msg_term m3 /\ i2_shared c2 = dh (TNonce (fr_eph fr)) rpub.

Lemma init_sigma2_spec : forall st0 fr fab peer m1 st c m2 base,
  same_frame st0 st -> ictx_ok st0 fr fab peer m1 c ->
  n_sessions st = base ++ [blank_session (ic_slot c)] ->
  (forall s, In s base -> s_id s <> ic_slot c) ->
  let o := init_sigma2 st c m2 in
  same_frame st0 (io_node o) /\ n_next_id (io_node o) = n_next_id st /\ n_cache (io_node o) = n_cache st /\
  ((io_state o = IDone false /\ n_sessions (io_node o) = base)
   \/ (exists c2, io_state o = IAwaitStatus c2 /\ i2_c c2 = c /\ io_node o = st /\
         ictx2_ok st0 fr fab peer m1 m2 c2)).
Proof.
  intros st0 fr fab peer m1 st c m2 base [Hfab Hclk] (Hcf & Hcp & Hce & Hcpub & Hcr & Hcs1 & Hcc) Hsess Hfresh.
  unfold init_sigma2.
  pose proof (release_fabrics st (ic_slot c)) as (Rf & Rc & Rk & Rn).
  assert (Hrel : n_sessions (release st (ic_slot c)) = base).
  { apply (release_slot st base (blank_session (ic_slot c))); assumption. }
  assert (Hd : forall msgs arm, let o := mkIout (release st (ic_slot c)) (IDone false) msgs arm in
    same_frame st0 (io_node o) /\ n_next_id (io_node o) = n_next_id st /\ n_cache (io_node o) = n_cache st /\
    ((io_state o = IDone false /\ n_sessions (io_node o) = base)
     \/ (exists c2, io_state o = IAwaitStatus c2 /\ i2_c c2 = c /\ io_node o = st /\
           ictx2_ok st0 fr fab peer m1 m2 c2))).
  { intros msgs arm. cbn [io_node io_state]. unfold same_frame. rewrite Rf, Rc, Rk, Rn.
    repeat split; try congruence. left. split; [reflexivity|exact Hrel]. }
  destruct (get_req m2 1 KBytes) as [rr| |] eqn:H1; cbn [bind]; try apply Hd.
  destruct (get_req m2 2 KUint) as [sid| |] eqn:H2; cbn [bind]; try apply Hd.
  destruct (get_req m2 3 KBytes) as [rpub| |] eqn:H3; cbn [bind]; try apply Hd.
  destruct (get_req m2 4 KBytes) as [enc| |] eqn:H4; cbn [bind]; try apply Hd.
  destruct (get_fabric (ic_fab c) (n_fabrics st)) as [f|] eqn:Hgf; [|apply Hd].
  destruct (is_pub rpub); cbn [negb]; [|apply Hd].
  destruct (adec (s2k (f_ipk f) rr rpub (h1 (ic_s1 c)) (dh (ic_eph c) rpub)) (TNum NONCE_S2) enc) as [pt|] eqn:Hdec;
    [|apply Hd].
  destruct (parse_tbe2 pt) as [[[[noc icac] sig] rid]|] eqn:Hpt; [|apply Hd].
  destruct (case_validate (n_clock st) (f_fid f) (f_root f) noc icac) as [[]| |] eqn:Hcv; try apply Hd.
  destruct (get_node_id noc) as [nid|] eqn:Hnid; [|apply Hd].
  destruct (nid =? ic_peer c) eqn:Hpeer; cbn [negb]; [|apply Hd].
  destruct (sig_ok (pubkey noc) (tbs noc icac rpub (ic_pub c)) sig) eqn:Hsig; cbn [negb]; [|apply Hd].
  destruct (cats_of noc) as [cats| |] eqn:Hcats; try apply Hd.
  apply N.eqb_eq in Hpeer. apply adec_some in Hdec. apply parse_tbe2_some in Hpt. apply sig_ok_iff in Hsig.
  apply case_validate_iff in Hcv. subst enc pt nid.
  cbn [io_node io_state]. unfold same_frame. repeat split; try assumption.
  right. eexists. split; [reflexivity|]. cbn [i2_c]. split; [reflexivity|]. split; [reflexivity|].
  exists f, rr, rpub, noc, icac, sig. cbn zeta.
  cbn [i2_rid i2_cats i2_s2 i2_s3 i2_shared].
  rewrite <- Hfab, <- Hclk, <- Hcf, <- Hcs1, <- Hce, <- Hcp.
  destruct Hcv as (Hv1 & Hv2 & Hv3).
  repeat split; try assumption; try reflexivity.
  all: try (rewrite Hsig, Hcpub, Hce; reflexivity).
  rewrite Hcpub, Hce. reflexivity.
Qed.

Lemma init_finish_spec : forall st0 fr fab peer m1 m2 st c2 m base,
  fabrics_wf (n_fabrics st0) -> same_frame st0 st -> ictx_ok st0 fr fab peer m1 (i2_c c2) ->
  ictx2_ok st0 fr fab peer m1 m2 c2 ->
  n_sessions st = base ++ [blank_session (ic_slot (i2_c c2))] ->
  (forall s, In s base -> s_id s <> ic_slot (i2_c c2)) ->
  let o := init_finish st c2 m in
  same_frame st0 (io_node o) /\ n_next_id (io_node o) = n_next_id st /\
  ((io_state o = IDone false /\ n_sessions (io_node o) = base /\ n_cache (io_node o) = n_cache st)
   \/ (exists s, io_state o = IDone true /\ n_sessions (io_node o) = base ++ [s] /\
         s_id s = ic_slot (i2_c c2) /\ m_op m = OP_STATUS /\ status_is_success m = Ok true /\
         initiator_full_sound st0 fr fab peer m1 m2 s /\
         n_cache (io_node o) = insert_or_update (n_cache st)
                                 (mkRecord (s_fab s) (s_peer s) (s_cats s) (i2_rid c2) (i2_shared c2)))).
Proof.
  intros st0 fr fab peer m1 m2 st c2 m base Hfwf [Hfab Hclk] (Hcf & Hcp & Hce & Hcpub & Hcr & Hcs1 & Hcc)
    (f & rr & rpub & noc & icac & sig & Hc2) Hsess Hfresh.
  cbn zeta in Hc2. destruct Hc2 as (Hgf & H1 & H3 & H4 & Hcv & Hnid & Hsig & Hcats & Hs2 & Hs3 & Hsh).
  unfold init_finish. set (c := i2_c c2) in *.
  pose proof (release_fabrics st (ic_slot c)) as (Rf & Rc & Rk & Rn).
  assert (Hrel : n_sessions (release st (ic_slot c)) = base).
  { apply (release_slot st base (blank_session (ic_slot c))); assumption. }
  assert (Hd : forall msgs arm, let o := mkIout (release st (ic_slot c)) (IDone false) msgs arm in
    same_frame st0 (io_node o) /\ n_next_id (io_node o) = n_next_id st /\
    ((io_state o = IDone false /\ n_sessions (io_node o) = base /\ n_cache (io_node o) = n_cache st)
     \/ (exists s, io_state o = IDone true /\ n_sessions (io_node o) = base ++ [s] /\
         s_id s = ic_slot c /\ m_op m = OP_STATUS /\ status_is_success m = Ok true /\
         initiator_full_sound st0 fr fab peer m1 m2 s /\
         n_cache (io_node o) = insert_or_update (n_cache st)
                                 (mkRecord (s_fab s) (s_peer s) (s_cats s) (i2_rid c2) (i2_shared c2))))).
  { intros msgs arm. cbn [io_node io_state]. unfold same_frame. rewrite Rf, Rc, Rk, Rn.
    repeat split; try congruence. left. repeat split; try assumption. }
  destruct (m_op m =? OP_STATUS) eqn:Hop; cbn [negb]; [|apply Hd].
  destruct (status_is_success m) as [[|]| |] eqn:Hok; try apply Hd.
  rewrite Hcf, Hfab, Hgf.
  apply N.eqb_eq in Hop.
  set (hh := h123 (ic_s1 c) (i2_s2 c2) (i2_s3 c2)).
  set (st1 := update_sess st (ic_slot c) fab (i2_cats c2) (ic_peer c)
                (sess_key 1 (f_ipk f) hh (i2_shared c2)) (sess_key 0 (f_ipk f) hh (i2_shared c2))
                (sess_key 2 (f_ipk f) hh (i2_shared c2))).
  assert (E1 : n_sessions st1 = base ++ [mkSession (ic_slot c) true fab (i2_cats c2) (ic_peer c)
                (sess_key 1 (f_ipk f) hh (i2_shared c2)) (sess_key 0 (f_ipk f) hh (i2_shared c2))
                (sess_key 2 (f_ipk f) hh (i2_shared c2))]).
  { apply (update_slot st base (blank_session (ic_slot c))); assumption. }
  pose proof (complete_slot st1 base _ E1) as E2. cbn [s_id s_fab s_cats s_peer s_dec s_enc s_att] in E2.
  specialize (E2 Hfresh).
  cbn [io_node io_state]. unfold same_frame. repeat split; try (cbn; congruence).
  right. eexists. split; [reflexivity|]. split; [exact E2|]. split; [reflexivity|].
  split; [assumption|]. split; [reflexivity|]. split.
  - exists f, rr, rpub, noc, icac, sig, (i2_rid c2), (i2_cats c2). cbn zeta.
    cbn [s_fab s_peer s_cats s_reserved s_dec s_enc]. subst hh. rewrite Hcs1, Hs2, Hs3, Hsh, Hcp.
    destruct Hcv as (Hv1 & Hv2 & Hv3).
    repeat split; try assumption; try reflexivity.
  - cbn [s_fab s_peer s_cats]. reflexivity.
Qed.

Lemma init_resume_spec : forall st0 fr fab peer m1 st c r m2 base,
  same_frame st0 st -> ictx_ok st0 fr fab peer m1 c -> ic_cached c = Some r ->
  n_sessions st = base ++ [blank_session (ic_slot c)] ->
  (forall s, In s base -> s_id s <> ic_slot c) ->
  let o := init_resume st c r m2 in
  same_frame st0 (io_node o) /\ n_next_id (io_node o) = n_next_id st /\ n_cache (io_node o) = n_cache st /\
  ((io_state o = IDone false /\ n_sessions (io_node o) = base)
   \/ (exists s new_rid, io_state o = IFinishing r new_rid /\ n_sessions (io_node o) = base ++ [s] /\
         s_id s = ic_slot c /\ initiator_resume_sound st0 fr fab peer m2 s /\
         get_req m2 1 KBytes = Ok new_rid)).
Proof.
  intros st0 fr fab peer m1 st c r m2 base [Hfab Hclk] (Hcf & Hcp & Hce & Hcpub & Hcr & Hcs1 & Hcc) Hcached
    Hsess Hfresh.
  unfold init_resume.
  pose proof (release_fabrics st (ic_slot c)) as (Rf & Rc & Rk & Rn).
  assert (Hrel : n_sessions (release st (ic_slot c)) = base).
  { apply (release_slot st base (blank_session (ic_slot c))); assumption. }
  assert (Hd : forall msgs arm, let o := mkIout (release st (ic_slot c)) (IDone false) msgs arm in
    same_frame st0 (io_node o) /\ n_next_id (io_node o) = n_next_id st /\ n_cache (io_node o) = n_cache st /\
    ((io_state o = IDone false /\ n_sessions (io_node o) = base)
     \/ (exists s new_rid, io_state o = IFinishing r new_rid /\ n_sessions (io_node o) = base ++ [s] /\
         s_id s = ic_slot c /\ initiator_resume_sound st0 fr fab peer m2 s /\
         get_req m2 1 KBytes = Ok new_rid))).
  { intros msgs arm. cbn [io_node io_state]. unfold same_frame. rewrite Rf, Rc, Rk, Rn.
    repeat split; try congruence. left. split; [reflexivity|exact Hrel]. }
  destruct (get_req m2 1 KBytes) as [new_rid| |] eqn:H1; cbn [bind]; try apply Hd.
  destruct (get_req m2 2 KBytes) as [mic| |] eqn:H2; cbn [bind]; try apply Hd.
  destruct (get_req m2 3 KUint) as [sid| |] eqn:H3; cbn [bind]; try apply Hd.
  destruct (get_opt m2 4 KStruct) as [p| |] eqn:H4; cbn [bind]; try apply Hd.
  destruct (term_eqb mic (resume_mic INFO_S2RK NONCE_R2 (r_secret r) (ic_rand c) new_rid)) eqn:Hm; cbn [negb];
    [|apply Hd].
  destruct (get_fabric (ic_fab c) (n_fabrics st)) as [f|] eqn:Hgf; [|apply Hd].
  apply term_eqb_eq in Hm. subst mic.
  rewrite Hcc in Hcached. pose proof (find_by_peer_in _ _ _ _ Hcached) as (Hin & Hrf & Hrp).
  set (st1 := update_sess st (ic_slot c) (r_fab r) (r_cats r) (r_peer r)
                (rsess_key 1 (r_secret r) (ic_rand c) (r_rid r)) (rsess_key 0 (r_secret r) (ic_rand c) (r_rid r))
                (rsess_key 2 (r_secret r) (ic_rand c) (r_rid r))).
  assert (E1 : n_sessions st1 = base ++ [mkSession (ic_slot c) true (r_fab r) (r_cats r) (r_peer r)
                (rsess_key 1 (r_secret r) (ic_rand c) (r_rid r)) (rsess_key 0 (r_secret r) (ic_rand c) (r_rid r))
                (rsess_key 2 (r_secret r) (ic_rand c) (r_rid r))]).
  { apply (update_slot st base (blank_session (ic_slot c))); assumption. }
  pose proof (complete_slot st1 base _ E1) as E2. cbn [s_id s_fab s_cats s_peer s_dec s_enc s_att] in E2.
  specialize (E2 Hfresh).
  cbn [io_node io_state]. unfold same_frame. repeat split; try (cbn; congruence).
  right. eexists. exists new_rid. split; [reflexivity|]. split; [exact E2|]. split; [reflexivity|].
  split; [|reflexivity].
  exists r, new_rid, f. cbn [s_fab s_peer s_cats s_reserved s_dec s_enc].
  rewrite <- Hcr. rewrite <- Hfab, <- Hcf.
  repeat split; try assumption; try reflexivity; try congruence.
Qed.

Lemma init_run_done : forall ms st b, init_run st (IDone b) ms = (st, IDone b, []).
Proof.
  induction ms as [|m r IH]; intros st b; cbn [init_run]; [reflexivity|].
  cbn [init_step io_node io_state io_msgs]. rewrite IH. reflexivity.
Qed.

Lemma init_run_finishing : forall ms st r rid, init_run st (IFinishing r rid) ms = (st, IFinishing r rid, []).
Proof.
  induction ms as [|m t IH]; intros st r rid; cbn [init_run]; [reflexivity|].
  cbn [init_step io_node io_state io_msgs]. rewrite IH. reflexivity.
Qed.

(** The initiator ([CaseInitiator::perform] on fabric index [fab] towards node [peer]) fed ANY sequence
    of messages. *)
Theorem initiator_run_sound : forall st fr fab peer ms st' s' out,
  node_wf st ->
  init_run (io_node (init_start st fr fab peer)) (io_state (init_start st fr fab peer)) ms = (st', s', out) ->
  same_frame st st' /\ sessions_wf st' /\
  (   (n_sessions st' = n_sessions st /\ n_cache st' = n_cache st /\ s' = IDone false)
   \/ (exists x, n_sessions st' = n_sessions st ++ [x] /\ s_reserved x = true /\
                 n_cache st' = n_cache st /\ n_sessions (init_abort st' s') = n_sessions st /\
                 init_sent st' s' true = (st', s') /\ init_sent st' s' false = (st', s'))
   \/ (exists s m1 m2 mst rest rid sec,
         io_msgs (init_start st fr fab peer) = [m1] /\ ms = m2 :: mst :: rest /\
         n_sessions st' = n_sessions st ++ [s] /\ s' = IDone true /\
         initiator_full_sound st fr fab peer m1 m2 s /\
         m_op mst = OP_STATUS /\ status_is_success mst = Ok true /\
         n_cache st' = insert_or_update (n_cache st) (mkRecord (s_fab s) (s_peer s) (s_cats s) rid sec))
   \/ (exists s m2 rest r new_rid,
         ms = m2 :: rest /\ n_sessions st' = n_sessions st ++ [s] /\
         s' = IFinishing r new_rid /\ find_by_peer (n_cache st) fab peer = Some r /\
         initiator_resume_sound st fr fab peer m2 s /\ n_cache st' = n_cache st)).
Proof.
  intros st fr fab peer ms st' s' out [Hfwf Hswf] Hrun.
  pose proof (init_start_spec st fr fab peer) as Hs. cbn zeta in Hs.
  destruct Hs as (Hframe & Hnext & Hcache & Hcases). specialize (Hcases Hswf).
  set (o := init_start st fr fab peer) in *.
  assert (Hwf_new : forall l, n_sessions st' = l -> n_next_id st' = n_next_id st + 1 ->
            (forall s, In s l -> In s (n_sessions st) \/ s_id s = n_next_id st) -> sessions_wf st').
  { intros l E En H s Hs. rewrite E in Hs. rewrite En. destruct (H s Hs) as [H1|H1].
    - apply Hswf in H1. lia.
    - lia. }
  assert (Hfresh : forall s, In s (n_sessions st) -> s_id s <> n_next_id st).
  { intros s Hs'. apply wf_ids_ne; assumption. }
  destruct Hcases as [[Hst Hs]|(c & m1 & Hst & Hm1 & Hslot & Hs & Hctx)].
  - rewrite Hst, init_run_done in Hrun. inversion Hrun; subst st' s' out.
    split; [exact Hframe|]. split.
    + apply (Hwf_new (n_sessions st)); try assumption. intros s Hs'. left. exact Hs'.
    + left. repeat split; assumption.
  - rewrite Hst in Hrun. destruct ms as [|m2 rest].
    + cbn in Hrun. inversion Hrun; subst st' s' out.
      split; [exact Hframe|]. split.
      * apply (Hwf_new _ Hs Hnext). intros s Hs'. apply in_app_or in Hs'.
        destruct Hs' as [Hs'|[<-|[]]]; [left; exact Hs'|right; reflexivity].
      * right. left. exists (blank_session (n_next_id st)). repeat split; try assumption.
        cbn [init_abort]. rewrite Hslot.
        apply (release_slot (io_node o) (n_sessions st) (blank_session (n_next_id st)) Hs).
        intros s Hs'. cbn. apply Hfresh. exact Hs'.
    + cbn [init_run] in Hrun. rewrite <- Hslot in Hs, Hfresh.
      assert (Hquiet : forall (msgs : list msg) (arm : N), 
        (let '(st'0, s'0, out0) := init_run (release (io_node o) (ic_slot c)) (IDone false) rest in
         (st'0, s'0, msgs ++ out0)) = (st', s', out) ->
        same_frame st st' /\ sessions_wf st' /\ (n_sessions st' = n_sessions st /\ n_cache st' = n_cache st /\ s' = IDone false)).
      { intros msgs arm Hr. rewrite init_run_done in Hr. inversion Hr; subst st' s' out.
        pose proof (release_fabrics (io_node o) (ic_slot c)) as (Rf & Rc & Rk & Rn).
        destruct Hframe as [Hf1 Hf2].
        assert (Hrel : n_sessions (release (io_node o) (ic_slot c)) = n_sessions st).
        { apply (release_slot (io_node o) (n_sessions st) (blank_session (ic_slot c)) Hs). exact Hfresh. }
        split; [split; congruence|]. split.
        - apply (Hwf_new _ Hrel); [congruence|]. intros s Hs'. left. exact Hs'.
        - repeat split; congruence. }
      cbn [init_step] in Hrun.
      destruct (m_op m2 =? OP_STATUS) eqn:Hop1.
      { cbn [io_node io_state io_msgs] in Hrun. destruct (Hquiet _ A_I_STATUS Hrun) as (a & b & d).
        split; [exact a|]. split; [exact b|]. left. exact d. }
      destruct (m_op m2 =? OP_SIGMA2R) eqn:Hop2.
      { (* resumption *)
        destruct (ic_cached c) as [r|] eqn:Hcached.
        2:{ cbn [io_node io_state io_msgs] in Hrun. destruct (Hquiet _ A_I_UNREQ_RESUME Hrun) as (a & b & d).
            split; [exact a|]. split; [exact b|]. left. exact d. }
        pose proof (init_resume_spec st fr fab peer m1 (io_node o) c r m2 (n_sessions st) Hframe Hctx Hcached Hs Hfresh) as Hr.
        cbn zeta in Hr. destruct Hr as (Hframe3 & Hnext3 & Hcache3 & Hcases3).
        destruct Hcases3 as [[Hst3 Hs3]|(s & new_rid & Hst3 & Hs3 & Hid3 & Hsound & Hnr)].
        - rewrite Hst3, init_run_done in Hrun. inversion Hrun; subst st' s' out.
          split; [exact Hframe3|]. split.
          + apply (Hwf_new _ Hs3); [congruence|]. intros s Hs'. left. exact Hs'.
          + left. repeat split; congruence.
        - rewrite Hst3, init_run_finishing in Hrun. inversion Hrun; subst st' s' out.
          split; [exact Hframe3|]. split.
          + apply (Hwf_new _ Hs3); [congruence|]. intros s0 Hs'. apply in_app_or in Hs'.
            destruct Hs' as [Hs'|[<-|[]]]; [left; exact Hs'|right; congruence].
          + right. right. right. exists s, m2, rest, r, new_rid.
            destruct Hctx as (_ & _ & _ & _ & _ & _ & Hcc). rewrite Hcc in Hcached.
            repeat split; try assumption; try reflexivity. congruence. }
      destruct (m_op m2 =? OP_SIGMA2) eqn:Hop3; cbn [negb] in Hrun.
      2:{ cbn [io_node io_state io_msgs] in Hrun. destruct (Hquiet _ A_I_BADOP Hrun) as (a & b & d).
          split; [exact a|]. split; [exact b|]. left. exact d. }
      pose proof (init_sigma2_spec st fr fab peer m1 (io_node o) c m2 (n_sessions st) Hframe Hctx Hs Hfresh) as H2.
      cbn zeta in H2. destruct H2 as (Hframe2 & Hnext2 & Hcache2 & Hcases2).
      destruct Hcases2 as [[Hst2 Hs2]|(c2 & Hst2 & Hc2 & Hnode2 & Hctx2)].
      * rewrite Hst2, init_run_done in Hrun. inversion Hrun; subst st' s' out.
        split; [exact Hframe2|]. split.
        { apply (Hwf_new _ Hs2); [congruence|]. intros s Hs'. left. exact Hs'. }
        left. repeat split; congruence.
      * rewrite Hst2, Hnode2 in Hrun. destruct rest as [|mst rest].
        { cbn in Hrun. inversion Hrun; subst st' s' out.
          split; [exact Hframe|]. split.
          - apply (Hwf_new _ Hs Hnext). intros s Hs'. apply in_app_or in Hs'.
            destruct Hs' as [Hs'|[<-|[]]]; [left; exact Hs'|right; cbn; exact Hslot].
          - right. left. exists (blank_session (ic_slot c)). repeat split; try assumption.
            cbn [init_abort]. rewrite Hc2.
            apply (release_slot (io_node o) (n_sessions st) (blank_session (ic_slot c)) Hs). exact Hfresh. }
        cbn [init_run init_step] in Hrun.
        rewrite <- Hc2 in Hctx, Hs, Hfresh.
        pose proof (init_finish_spec st fr fab peer m1 m2 (io_node o) c2 mst (n_sessions st) Hfwf Hframe Hctx Hctx2 Hs Hfresh) as H3.
        cbn zeta in H3. destruct H3 as (Hframe3 & Hnext3 & Hcases3).
        destruct Hcases3 as [(Hst3 & Hs3 & Hc3)|(s & Hst3 & Hs3 & Hid3 & Hop & Hok & Hsound & Hc3)].
        { rewrite Hst3, init_run_done in Hrun. inversion Hrun; subst st' s' out.
          split; [exact Hframe3|]. split.
          - apply (Hwf_new _ Hs3); [congruence|]. intros s Hs'. left. exact Hs'.
          - left. repeat split; congruence. }
        rewrite Hst3, init_run_done in Hrun. inversion Hrun; subst st' s' out.
        split; [exact Hframe3|]. split.
        { apply (Hwf_new _ Hs3); [congruence|]. intros s0 Hs'. apply in_app_or in Hs'.
          destruct Hs' as [Hs'|[<-|[]]]; [left; exact Hs'|right; congruence]. }
        right. right. left. exists s, m1, m2, mst, rest, (i2_rid c2), (i2_shared c2).
        repeat split; try assumption. congruence.
Qed.
