(** The dropped-exchange sweeper terminates: every sweep strictly decreases
    the number of dropped exchange slots; and the complete quiescence theorem
    of C20 (no reserved slot, every exchange slot free). *)
From RsM Require Import Lib.MachInt Model.Slots Model.SlotsSpec Proofs.SlotsFacts Proofs.SlotsInv
  Proofs.SlotsStep Proofs.SlotsNode Proofs.SlotsOwn Proofs.SlotsExch Proofs.SlotsExchNode.
From Coq Require Import Permutation ZifyN ZifyBool Arith.
Open Scope N_scope.

Arguments N.add : simpl never.
Arguments N.ltb : simpl never.
Arguments N.eqb : simpl never.
Arguments N.mul : simpl never.

(** number of dropped exchange slots in a table *)
Definition dslots (s : session) : nat := length (filter slot_dropped (s_exch s)).
Fixpoint dcount (l : list session) : nat :=
  match l with [] => O | s :: r => (dslots s + dcount r)%nat end.

Lemma dcount_perm : forall l l', Permutation l l' -> dcount l = dcount l'.
Proof. induction 1; cbn; lia. Qed.

Lemma n_dropped_dcount : forall t, n_dropped t = N.of_nat (dcount (t_sess t)).
Proof.
  intros t. unfold n_dropped, count_slots. induction (t_sess t) as [|s r IH]; cbn; auto.
  rewrite IH. unfold dslots. lia.
Qed.

Lemma filter_in_pos : forall {A} (p : A -> bool) l e, In e l -> p e = true -> (1 <= length (filter p l))%nat.
Proof.
  intros A p l e Hin Hp. assert (In e (filter p l)) by (apply filter_In; auto).
  destruct (filter p l); [inversion H|cbn; lia].
Qed.

Lemma filter_upd_drop : forall (p : option xst -> bool) l i e,
  nth_error l i = Some e -> p e = true -> p None = false ->
  S (length (filter p (upd_nth i (fun _ => None) l))) = length (filter p l).
Proof.
  intros p l; induction l as [|a l IH]; intros [|i] e Hn Hp Hnone; cbn in *; try discriminate.
  - inversion Hn; subst. rewrite Hp, Hnone. cbn. reflexivity.
  - destruct (p a); cbn; rewrite <- (IH i e Hn Hp Hnone); reflexivity.
Qed.

Lemma in_upd_nth_none : forall (l : list (option xst)) i e,
  In e (upd_nth i (fun _ => None) l) -> e = None \/ In e l.
Proof.
  intros l; induction l as [|a l IH]; intros [|i] e Hin; cbn in *; auto.
  - destruct Hin as [<-|]; auto.
  - destruct Hin as [<-|Hin]; auto. destruct (IH i e Hin); auto.
Qed.

Lemma find_slot_spec : forall p l id xi, find_slot p l = Some (id, xi) ->
  exists s e, In s l /\ s_id s = id /\ nth_error (s_exch s) xi = Some e /\ p e = true.
Proof.
  intros p l; induction l as [|s r IH]; intros id xi Hf; cbn in Hf; [discriminate|].
  destruct (find_idx p (s_exch s)) as [i|] eqn:Hi.
  - inversion Hf; subst. destruct (find_idx_some _ _ _ Hi) as [e [Hn Hp]]. exists s, e. repeat split; auto. left; auto.
  - destruct (IH _ _ Hf) as [s' [e [H1 H2]]]. exists s', e. split; [right; auto|auto].
Qed.

Lemma find_slot_none_dcount : forall l, find_slot slot_dropped l = None -> dcount l = O.
Proof.
  induction l as [|s r IH]; intros Hf; cbn in *; auto.
  destruct (find_idx slot_dropped (s_exch s)) as [i|] eqn:Hi; [discriminate|].
  rewrite (IH Hf). unfold dslots.
  assert (filter slot_dropped (s_exch s) = []) as ->; [|reflexivity].
  pose proof (find_idx_none _ _ Hi) as Hn. clear - Hn. induction (s_exch s) as [|e x IHx]; cbn; auto.
  rewrite (Hn e (or_introl eq_refl)). apply IHx. intros y Hy. apply Hn. right; auto.
Qed.

Lemma retr_is_dropped : forall e, slot_retr e = true -> slot_dropped e = true.
Proof. intros [[]|] H; cbn in *; auto; discriminate. Qed.

Lemma unique_by_id : forall l x y, NoDup (map s_id l) -> In x l -> In y l -> s_id x = s_id y -> x = y.
Proof.
  induction l as [|z l IH]; intros x y Hn Hx Hy He; [inversion Hx|].
  inversion Hn as [|? ? Hni Hn']; subst. destruct Hx as [->|Hx], Hy as [->|Hy]; auto.
  - exfalso. apply Hni. rewrite He. apply in_map; auto.
  - exfalso. apply Hni. rewrite <- He. apply in_map; auto.
Qed.

Definition after_sweep (cap mx : nat) (s : st) (now : N) : list session :=
  t_sess (tb (fst (step cap mx s (OSweep now)))).

(** a sweep strictly decreases the number of dropped slots (when there is one) *)
Theorem sweep_decreases : forall cap mx s now,
  NoDup (ids (tb s)) -> (0 < dcount (t_sess (tb s)))%nat ->
  (dcount (after_sweep cap mx s now) < dcount (t_sess (tb s)))%nat.
Proof.
  intros cap mx s now Hnd Hpos. unfold after_sweep. cbn [step].
  destruct (find_slot slot_retr (t_sess (tb s))) as [[id xi]|] eqn:Hr.
  - destruct (find_slot_spec _ _ _ _ Hr) as [s0 [e [Hin [Hid [Hn Hp]]]]]. cbn [fst tb].
    unfold t_remove. destruct (t_find id (tb s)) as [i|] eqn:Hf.
    2:{ exfalso. apply (t_find_none _ _ Hf). unfold ids. rewrite <- Hid. apply in_map; auto. }
    destruct (t_find_decomp _ _ _ Hf) as [x [rest [_ [Hx [Hp1 [Hp2 _]]]]]]. cbn [t_sess].
    assert (x = s0).
    { apply (unique_by_id _ _ _ Hnd); auto; [|congruence].
      apply (Permutation_in _ (Permutation_sym Hp1)). left; auto. }
    subst x. rewrite (dcount_perm _ _ Hp1), (dcount_perm _ _ Hp2). cbn [dcount].
    assert (1 <= dslots s0)%nat.
    { unfold dslots. eapply filter_in_pos; [eapply nth_error_In; eauto|apply retr_is_dropped; auto]. }
    lia.
  - destruct (find_slot slot_dropped (t_sess (tb s))) as [[id xi]|] eqn:Hd.
    + destruct (find_slot_spec _ _ _ _ Hd) as [s0 [e [Hin [Hid [Hn Hp]]]]].
      destruct (t_get id now (tb s)) as [t1|] eqn:Hg.
      2:{ exfalso. unfold t_get in Hg. destruct (t_find id (tb s)) eqn:Hf; [discriminate|].
          apply (t_find_none _ _ Hf). unfold ids. rewrite <- Hid. apply in_map; auto. }
      cbn [fst tb]. destruct (get_upd_decomp _ _ _ _ Hg) as [x [rest [Hp1 [Hx [Hxin [_ [_ Hu]]]]]]].
      destruct (Hu (xset xi None)) as [Hp2 _].
      assert (x = s0) by (apply (unique_by_id _ _ _ Hnd); auto; congruence). subst x.
      rewrite (dcount_perm _ _ Hp1), (dcount_perm _ _ Hp2). cbn [dcount].
      assert (S (dslots (xset xi None (set_last now s0))) = dslots s0).
      { unfold dslots. cbn [xset set_exch set_last s_exch]. eapply filter_upd_drop; eauto. }
      lia.
    + rewrite (find_slot_none_dcount _ Hd) in Hpos. lia.
Qed.

(** sessions that are not unsecured ones: no exchange in use (the application
    has closed its exchanges) *)
Definition app_closed (l : list session) : Prop :=
  forall s e, In s l -> s_mode s <> MPlain -> In e (s_exch s) -> slot_live e = false.

Lemma sweep_app_closed : forall cap mx s now,
  app_closed (t_sess (tb s)) -> app_closed (after_sweep cap mx s now).
Proof.
  intros cap mx s now Ha. unfold after_sweep. cbn [step].
  destruct (find_slot slot_retr (t_sess (tb s))) as [[id xi]|].
  - cbn [fst tb]. intros y e Hy. apply Ha. eapply t_remove_in; eauto.
  - destruct (find_slot slot_dropped (t_sess (tb s))) as [[id xi]|]; [|exact Ha].
    destruct (t_get id now (tb s)) as [t1|] eqn:Hg; [|exact Ha].
    cbn [fst tb]. destruct (get_upd_decomp _ _ _ _ Hg) as [x [rest [Hp1 [Hx [Hxin [_ [_ Hu]]]]]]].
    destruct (Hu (xset xi None)) as [Hp2 _].
    intros y e Hy Hm He. apply (Permutation_in _ Hp2) in Hy. destruct Hy as [<-|Hy].
    + cbn in Hm, He. apply in_upd_nth_none in He. destruct He as [->|He]; [reflexivity|].
      apply (Ha x e); auto.
    + apply (Ha y e); auto. apply (Permutation_in _ (Permutation_sym Hp1)). right; auto.
Qed.

Section Sweeps.
Variables cap mx : nat.

Lemma sweeps_nrun : forall k now n, sweeps cap mx k now n = nrun cap mx n (repeat (NSweep now) k).
Proof. induction k as [|k IH]; intros now n; cbn; auto. Qed.

Lemma sweep_step_facts : forall n now,
  atts (fst (nstep cap mx n (NSweep now))) = atts n /\
  nl (fst (nstep cap mx n (NSweep now))) = after_sweep cap mx (core n) now.
Proof. intros n now. cbn [nstep fst]. split; reflexivity. Qed.

Lemma sweeps_props : forall k now n,
  inv1 cap (core n) -> next_of (core n) + 8 * N.of_nat k <= UID_MAX ->
  app_closed (nl n) ->
  let n' := sweeps cap mx k now n in
  atts n' = atts n /\ app_closed (nl n') /\ (dcount (nl n') <= dcount (nl n) - k)%nat.
Proof.
  induction k as [|k IH]; intros now n Hi Hb Ha; cbn [sweeps].
  - repeat split; auto. lia.
  - destruct (sweep_step_facts n now) as [E1 E2].
    destruct (nstep_inv1 cap mx n (NSweep now) Hi ltac:(lia)) as [Hi1 [_ Hb1]].
    set (n1 := fst (nstep cap mx n (NSweep now))) in *.
    assert (Ha1 : app_closed (nl n1)) by (rewrite E2; apply sweep_app_closed; exact Ha).
    assert (Hd1 : (dcount (nl n1) <= dcount (nl n) - 1)%nat).
    { rewrite E2. destruct (dcount (nl n)) eqn:E.
      - (* nothing to sweep: the table is unchanged *)
        unfold after_sweep. cbn [step].
        destruct (find_slot slot_retr (t_sess (tb (core n)))) as [[id xi]|] eqn:Hr.
        { destruct (find_slot_spec _ _ _ _ Hr) as [s0 [e [Hin [_ [Hn Hp]]]]].
          exfalso. unfold nl in E.
          assert (1 <= dcount (t_sess (tb (core n))))%nat; [|lia].
          clear - Hin Hn Hp. induction (t_sess (tb (core n))) as [|a l IHl]; [inversion Hin|].
          cbn. destruct Hin as [->|Hin]; [|specialize (IHl Hin); lia].
          assert (1 <= dslots s0)%nat; [|lia]. unfold dslots.
          eapply filter_in_pos; [eapply nth_error_In; eauto|apply retr_is_dropped; auto]. }
        destruct (find_slot slot_dropped (t_sess (tb (core n)))) as [[id xi]|] eqn:Hd.
        { destruct (find_slot_spec _ _ _ _ Hd) as [s0 [e [Hin [_ [Hn Hp]]]]].
          exfalso. unfold nl in E.
          assert (1 <= dcount (t_sess (tb (core n))))%nat; [|lia].
          clear - Hin Hn Hp. induction (t_sess (tb (core n))) as [|a l IHl]; [inversion Hin|].
          cbn. destruct Hin as [->|Hin]; [|specialize (IHl Hin); lia].
          assert (1 <= dslots s0)%nat; [|lia]. unfold dslots.
          eapply filter_in_pos; [eapply nth_error_In; eauto|auto]. }
        cbn [fst]. fold (nl n). rewrite E. lia.
      - pose proof (sweep_decreases cap mx (core n) now ltac:(apply Hi) ltac:(unfold nl in E; rewrite E; lia)) as Hlt.
        unfold nl in E. rewrite E in Hlt. lia. }
    destruct (IH now n1 Hi1 ltac:(lia) Ha1) as [A [B C]].
    split; [congruence|split; [exact B|lia]].
Qed.

(** The complete quiescence theorem: after any run, once every handshake
    handler has ended and the application holds no exchange, [k] sweeps
    ([k] at least the number of dropped slots) leave a table without a
    reserved slot and without an exchange slot in use. *)
Theorem quiescent_clean_full : forall ops k now,
  8 * N.of_nat (length ops + k) <= UID_MAX ->
  let n := nrun cap mx node_init ops in
  atts n = [] -> app_closed (nl n) -> (dcount (nl n) <= k)%nat ->
  let n' := sweeps cap mx k now n in
  forall s, In s (nl n') -> s_reserved s = false /\ forall e, In e (s_exch s) -> e = None.
Proof.
  intros ops k now Hb n Hq Ha Hk n' s Hs.
  assert (Hb0 : next_of (core node_init) + 8 * N.of_nat (length ops) <= UID_MAX)
    by (unfold next_of; cbn [node_init st_init core tb t_next]; lia).
  destruct (nrun_inv1 cap mx ops node_init (inv1_init cap) Hb0) as [Hi Hn].
  fold n in Hi, Hn. unfold next_of in Hn at 2. cbn [node_init st_init core tb t_next] in Hn.
  pose proof (nrun_hinv cap mx ops node_init (inv1_init cap) Hb0 hinv_init) as Hh. fold n in Hh.
  pose proof (nrun_xinv cap mx ops node_init (inv1_init cap) Hb0 hinv_init xinv_init) as Hx. fold n in Hx.
  assert (Hbk : next_of (core n) + 8 * N.of_nat k <= UID_MAX) by lia.
  destruct (sweeps_props k now n Hi Hbk Ha) as [Eatts [Ha' Hd']]. fold n' in Eatts, Ha', Hd'.
  assert (Hbk' : next_of (core n) + 8 * N.of_nat (length (repeat (NSweep now) k)) <= UID_MAX)
    by (rewrite repeat_length; exact Hbk).
  destruct (nrun_inv1 cap mx (repeat (NSweep now) k) n Hi Hbk') as [Hi' _].
  pose proof (nrun_hinv cap mx (repeat (NSweep now) k) n Hi Hbk' Hh) as Hh'.
  pose proof (nrun_xinv cap mx (repeat (NSweep now) k) n Hi Hbk' Hh Hx) as Hx'.
  rewrite <- sweeps_nrun in Hi', Hh', Hx'. fold n' in Hi', Hh', Hx'.
  split.
  - (* no reserved slot: a reserved slot has a live handle, a live handle a live attempt *)
    destruct (s_reserved s) eqn:Hr; auto. exfalso.
    destruct Hi' as [[_ [_ [Hres _]]] _]. apply (Hres s Hs) in Hr.
    destruct Hh' as [_ [_ [_ H4]]]. destruct (H4 _ Hr) as [a [Hain _]].
    rewrite Eatts, Hq in Hain. inversion Hain.
  - intros e He. destruct e as [v|]; auto. exfalso.
    destruct (slot_live (Some v)) eqn:Hlive.
    + destruct (s_mode s) eqn:Hm.
      * (* unsecured session: the slot would belong to a live attempt *)
        destruct (In_nth_error _ _ He) as [xi Hxi].
        destruct (Hx' (s_id s) xi v Hlive) as [a [Hain _]].
        { exists s. repeat split; auto. }
        rewrite Eatts, Hq in Hain. inversion Hain.
      * rewrite (Ha' s (Some v) Hs ltac:(rewrite Hm; discriminate) He) in Hlive. discriminate.
      * rewrite (Ha' s (Some v) Hs ltac:(rewrite Hm; discriminate) He) in Hlive. discriminate.
      * rewrite (Ha' s (Some v) Hs ltac:(rewrite Hm; discriminate) He) in Hlive. discriminate.
    + (* a dropped slot: none is left after k sweeps *)
      assert (Hdrop : slot_dropped (Some v) = true) by (destruct v; cbn in *; auto; discriminate).
      assert (1 <= dcount (nl n'))%nat; [|lia].
      clear - Hs He Hdrop. induction (nl n') as [|a l IHl]; [inversion Hs|].
      cbn. destruct Hs as [->|Hs]; [|specialize (IHl Hs); lia].
      assert (1 <= dslots s)%nat; [|lia]. unfold dslots. eapply filter_in_pos; eauto.
Qed.

End Sweeps.
