(** C01: the responder handler, step by step and fed any sequence of messages (responder_run_sound). *)
From Coq Require Import ZifyN ZifyBool.
From RsM Require Import Lib.MachInt Model.Cert Model.CertSpec Model.Case Model.CaseSpec
  Proofs.CertTheorems Proofs.CaseFacts.
Open Scope N_scope.

Arguments N.add : simpl never.
Arguments N.eqb : simpl never.
Arguments N.ltb : simpl never.
Arguments N.leb : simpl never.

Definition node_wf (st : node) : Prop := fabrics_wf (n_fabrics st) /\ sessions_wf st.

(** what the context of a responder that sent Sigma2 remembers of its run *)
Definition rctx_started (st : node) (fr : fresh) (m1 : msg) (c : rctx) : Prop :=
  exists q f,
    let m2 := build_sigma2 f fr (g1_pub q) (msg_term m1) in
    parse_sigma1 m1 = Ok q /\
    get_by_dest_id (n_fabrics st) (g1_random q) (g1_dest q) = Some f /\
    rc_fab c = f_idx f /\ rc_our_pub c = TPub (TNonce (fr_eph fr)) /\ rc_peer_pub c = g1_pub q /\
    rc_shared c = dh (TNonce (fr_eph fr)) (g1_pub q) /\ rc_rid c = TNonce (fr_rid fr) /\
    rc_s1 c = msg_term m1 /\ rc_s2 c = msg_term m2.

Definition rctx_ok (st : node) (fr : fresh) (m1 : msg) (c : rctx) : Prop :=
  rc_fab c = 0 \/ rctx_started st fr m1 c.

Definition same_frame (st st' : node) : Prop :=
  n_fabrics st' = n_fabrics st /\ n_clock st' = n_clock st.

Lemma resp_first_spec : forall st fr m, 
  let o := resp_first st fr m in
  same_frame st (ro_node o) /\ n_next_id (ro_node o) = n_next_id st + 1 /\
  n_cache (ro_node o) = n_cache st /\
  (sessions_wf st ->
   (ro_state o = RDone /\ n_sessions (ro_node o) = n_sessions st)
   \/ (exists c, ro_state o = RAwait3 c /\ rc_slot c = n_next_id st /\
         n_sessions (ro_node o) = n_sessions st ++ [blank_session (n_next_id st)] /\
         rctx_ok st fr m c)
   \/ (exists q r rid new_rid f,
         ro_state o = RAwaitStatus (n_next_id st) r new_rid /\
         parse_sigma1 m = Ok q /\ g1_rid q = Some rid /\ In r (n_cache st) /\ r_rid r = rid /\
         g1_mic q = Some (resume_mic INFO_S1RK NONCE_R1 (r_secret r) (g1_random q) (r_rid r)) /\
         get_fabric (r_fab r) (n_fabrics st) = Some f /\
         n_sessions (ro_node o) = n_sessions st ++
           [mkSession (n_next_id st) true (r_fab r) (r_cats r) (r_peer r)
              (rsess_key 0 (r_secret r) (g1_random q) (r_rid r))
              (rsess_key 1 (r_secret r) (g1_random q) (r_rid r))
              (rsess_key 2 (r_secret r) (g1_random q) (r_rid r))])).
Proof.
  intros st fr m. unfold resp_first.
  pose proof (reserve_spec st) as Hres. destruct (reserve st) as [st1 slot].
  destruct Hres as (Hslot & Hsess & Hfab & Hcache & Hclk & Hnext). subst slot.
  assert (Hrel : forall (Hwf : sessions_wf st), n_sessions (release st1 (n_next_id st)) = n_sessions st).
  { intros Hwf. apply (release_slot st1 (n_sessions st) (blank_session (n_next_id st))); [exact Hsess|].
    intros s Hs. cbn. apply wf_ids_ne; assumption. }
  pose proof (release_fabrics st1 (n_next_id st)) as (Rf & Rc & Rk & Rn).
  assert (Hdone : forall arm msgs, let o := mkRout (release st1 (n_next_id st)) RDone msgs arm in
     same_frame st (ro_node o) /\ n_next_id (ro_node o) = n_next_id st + 1 /\
     n_cache (ro_node o) = n_cache st /\ (sessions_wf st -> 
       (ro_state o = RDone /\ n_sessions (ro_node o) = n_sessions st) \/ False)).
  { intros arm msgs. cbn [ro_node ro_state]. unfold same_frame. rewrite Rf, Rc, Rk, Rn. repeat split; try congruence.
    intros Hwf. left. split; [reflexivity | apply Hrel; exact Hwf]. }
  destruct (m_op m =? OP_SIGMA1); cbn [negb].
  2:{ destruct (Hdone A_R_BADOP []) as (a & b & c & d). repeat split; try assumption.
      intros Hwf. destruct (d Hwf) as [d'|[]]. left. exact d'. }
  destruct (parse_sigma1 m) as [q|e|s] eqn:Hq.
  2:{ destruct (Hdone A_R_S1PARSE []) as (a & b & c & d). repeat split; try assumption.
      intros Hwf. destruct (d Hwf) as [d'|[]]. left. exact d'. }
  2:{ destruct (Hdone A_R_S1PARSE []) as (a & b & c & d). repeat split; try assumption.
      intros Hwf. destruct (d Hwf) as [d'|[]]. left. exact d'. }
  destruct (resp_try_resume st1 (n_next_id st) fr q) as [o|] eqn:Hr.
  - (* resumption *)
    unfold resp_try_resume in Hr.
    destruct (g1_rid q) as [rid|] eqn:Hrid; [|discriminate].
    destruct (g1_mic q) as [mic|] eqn:Hmic; [|discriminate].
    destruct (find_by_rid (n_cache st1) rid) as [r|] eqn:Hfind; [|discriminate].
    destruct (term_eqb mic (resume_mic INFO_S1RK NONCE_R1 (r_secret r) (g1_random q) (r_rid r))) eqn:Hm;
      cbn [negb] in Hr; [|discriminate].
    apply term_eqb_eq in Hm. subst mic.
    apply find_by_rid_in in Hfind. destruct Hfind as [Hin Hrr]. rewrite Hcache in Hin.
    destruct (get_fabric (r_fab r) (n_fabrics st1)) as [f|] eqn:Hgf.
    + inversion Hr; subst o; clear Hr. cbn [ro_node ro_state].
      unfold same_frame, update_sess, set_sessions. cbn [n_fabrics n_clock n_next_id n_cache n_sessions].
      repeat split; try congruence.
      intros Hwf. right. right. exists q, r, rid, (TNonce (fr_rid fr)), f.
      rewrite Hfab in Hgf. repeat split; try assumption; try reflexivity.
      pose proof (update_slot st1 (n_sessions st) (blank_session (n_next_id st))
                    (r_fab r) (r_cats r) (r_peer r)
                    (rsess_key 0 (r_secret r) (g1_random q) (r_rid r))
                    (rsess_key 1 (r_secret r) (g1_random q) (r_rid r))
                    (rsess_key 2 (r_secret r) (g1_random q) (r_rid r)) Hsess) as Hu.
      cbn [blank_session s_id s_reserved] in Hu. unfold update_sess, set_sessions in Hu. cbn [n_sessions] in Hu.
      apply Hu. intros s Hs. apply wf_ids_ne; assumption.
    + inversion Hr; subst o; clear Hr.
      destruct (Hdone A_R_RES_NOFAB [mkMsg OP_SIGMA2R
                     [mkField 1 KBytes (TNonce (fr_rid fr));
                      mkField 2 KBytes (resume_mic INFO_S2RK NONCE_R2 (r_secret r) (g1_random q) (TNonce (fr_rid fr)));
                      mkField 3 KUint (TNonce (fr_sid fr));
                      mkField 4 KStruct (TNum 0)] true]) as (a & b & c & d).
      repeat split; try assumption.
      intros Hwf. destruct (d Hwf) as [d'|[]]. left. exact d'.
  - (* full handshake *)
    unfold resp_sigma1.
    assert (Hun : forall msgs arm, let o := mkRout st1 (RAwait3 (unstarted (n_next_id st))) msgs arm in
      same_frame st (ro_node o) /\ n_next_id (ro_node o) = n_next_id st + 1 /\
      n_cache (ro_node o) = n_cache st /\
      (sessions_wf st -> False \/ (exists c, ro_state o = RAwait3 c /\ rc_slot c = n_next_id st /\
         n_sessions (ro_node o) = n_sessions st ++ [blank_session (n_next_id st)] /\ rctx_ok st fr m c) \/ False)).
    { intros msgs arm. cbn [ro_node ro_state]. unfold same_frame. repeat split; try assumption.
      intros _. right. left. eexists. repeat split; try eassumption. left. reflexivity. }
    assert (Hfin : forall P Q R : Prop, (False \/ Q \/ False) -> (P \/ Q \/ R)) by tauto.
    destruct (g1_rid q) as [rid|] eqn:Hrid; destruct (g1_mic q) as [mic|] eqn:Hmic.
    2:{ destruct (Hun [status_msg SC_INVPARAM] A_R_MISMATCH) as (a & b & c & d).
        repeat split; try assumption. intros Hwf. apply Hfin. exact (d Hwf). }
    2:{ destruct (Hun [status_msg SC_INVPARAM] A_R_MISMATCH) as (a & b & c & d).
        repeat split; try assumption. intros Hwf. apply Hfin. exact (d Hwf). }
    all: destruct (get_by_dest_id (n_fabrics st1) (g1_random q) (g1_dest q)) as [f|] eqn:Hd.
    all: try (destruct (Hun [status_msg SC_NOROOTS] A_R_NOFABRIC) as (a & b & c & d);
              repeat split; try assumption; intros Hwf; apply Hfin; exact (d Hwf)).
    all: destruct (is_pub (g1_pub q)); cbn [negb].
    all: try (destruct (Hdone A_R_BADPUB []) as (a & b & c & d); repeat split; try assumption;
              intros Hwf; destruct (d Hwf) as [d'|[]]; left; exact d').
    all: cbn [ro_node ro_state]; unfold same_frame; repeat split; try assumption;
      intros _; right; left; eexists; split; [reflexivity|]; cbn [rc_slot]; repeat split; try assumption;
      right; exists q, f; rewrite Hfab in Hd; cbn zeta; cbn [rc_fab rc_our_pub rc_peer_pub rc_shared rc_rid rc_s1 rc_s2];
      repeat split; try eassumption; reflexivity.
Qed.

(** Sigma3 (or whatever arrives in its place): the slot is either released or completed soundly *)
Lemma resp_sigma3_spec : forall st0 fr m1 st c m3 base,
  fabrics_wf (n_fabrics st0) -> same_frame st0 st ->
  rctx_ok st0 fr m1 c ->
  n_sessions st = base ++ [blank_session (rc_slot c)] ->
  (forall s, In s base -> s_id s <> rc_slot c) ->
  let o := resp_sigma3 st c m3 in
  same_frame st0 (ro_node o) /\ n_next_id (ro_node o) = n_next_id st /\ ro_state o = RDone /\
  ((n_sessions (ro_node o) = base /\ n_cache (ro_node o) = n_cache st)
   \/ (exists s, n_sessions (ro_node o) = base ++ [s] /\ s_id s = rc_slot c /\
         responder_full_sound st0 fr m1 m3 s /\
         exists f, get_fabric (s_fab s) (n_fabrics st0) = Some f /\
         n_cache (ro_node o) = insert_or_update (n_cache st)
                                 (mkRecord (s_fab s) (s_peer s) (s_cats s) (rc_rid c) (rc_shared c)))).
Proof.
  intros st0 fr m1 st c m3 base Hfwf [Hfab Hclk] Hctx Hsess Hfresh. unfold resp_sigma3.
  pose proof (release_fabrics st (rc_slot c)) as (Rf & Rc & Rk & Rn).
  assert (Hrel : n_sessions (release st (rc_slot c)) = base).
  { apply (release_slot st base (blank_session (rc_slot c))); assumption. }
  assert (Hdone : forall msgs arm, let o := mkRout (release st (rc_slot c)) RDone msgs arm in
    same_frame st0 (ro_node o) /\ n_next_id (ro_node o) = n_next_id st /\ ro_state o = RDone /\
    ((n_sessions (ro_node o) = base /\ n_cache (ro_node o) = n_cache st) \/ False)).
  { intros msgs arm. cbn [ro_node ro_state]. unfold same_frame. rewrite Rf, Rc, Rk, Rn.
    repeat split; try congruence. left. split; [exact Hrel|reflexivity]. }
  assert (Hfin : forall (P Q : Prop), P \/ False -> P \/ Q) by tauto.
  assert (Hd : forall msgs arm, let o := mkRout (release st (rc_slot c)) RDone msgs arm in
    same_frame st0 (ro_node o) /\ n_next_id (ro_node o) = n_next_id st /\ ro_state o = RDone /\
    ((n_sessions (ro_node o) = base /\ n_cache (ro_node o) = n_cache st)
     \/ (exists s, n_sessions (ro_node o) = base ++ [s] /\ s_id s = rc_slot c /\
         responder_full_sound st0 fr m1 m3 s /\
         exists f, get_fabric (s_fab s) (n_fabrics st0) = Some f /\
         n_cache (ro_node o) = insert_or_update (n_cache st)
                                 (mkRecord (s_fab s) (s_peer s) (s_cats s) (rc_rid c) (rc_shared c))))).
  { intros msgs arm. destruct (Hdone msgs arm) as (a & b & d & e). repeat split; try assumption.
    apply Hfin. exact e. }
  destruct (m_op m3 =? OP_SIGMA3); cbn [negb]; [|apply Hd].
  destruct (get_fabric (rc_fab c) (n_fabrics st)) as [f|] eqn:Hgf; [|apply Hd].
  destruct (get_req m3 1 KBytes) as [enc| |] eqn:Henc; try apply Hd.
  destruct (adec (s3k (f_ipk f) (h12 (rc_s1 c) (rc_s2 c)) (rc_shared c)) (TNum NONCE_S3) enc) as [pt|] eqn:Hdec;
    [|apply Hd].
  destruct (parse_tbe3 pt) as [[[noc icac] sig]|] eqn:Hpt; [|apply Hd].
  destruct (case_validate (n_clock st) (f_fid f) (f_root f) noc icac) as [[]| |] eqn:Hcv; try apply Hd.
  destruct (sig_ok (pubkey noc) (tbs noc icac (rc_peer_pub c) (rc_our_pub c)) sig) eqn:Hsig; cbn [negb];
    [|apply Hd].
  destruct (cats_of noc) as [cats| |] eqn:Hcats; try apply Hd.
  destruct (get_node_id noc) as [peer|] eqn:Hnid; [|apply Hd].
  (* the accepting path *)
  rewrite Hfab in Hgf. apply get_fabric_in in Hgf. destruct Hgf as [Hfin' Hidx].
  destruct Hctx as [Hz|(q & f' & Hctx)]. 2: cbn zeta in Hctx.
  2: destruct Hctx as (Hq & Hdest & Hcf & Hop & Hpp & Hsh & Hrid & Hs1 & Hs2).
  { exfalso. destruct Hfwf as [_ Hnz]. apply (Hnz f Hfin'). congruence. }
  pose proof (get_by_dest_id_in _ _ _ _ Hdest) as [Hf'in _].
  assert (f' = f).
  { destruct Hfwf as [Hnd _]. pose proof (get_fabric_unique _ _ Hnd Hf'in) as E1.
    pose proof (get_fabric_unique _ _ Hnd Hfin') as E2.
    assert (Hi : f_idx f' = f_idx f) by congruence. rewrite Hi in E1. congruence. }
  subst f'.
  apply adec_some in Hdec. apply parse_tbe3_some in Hpt. apply sig_ok_iff in Hsig.
  apply case_validate_iff in Hcv. subst enc pt.
  cbn [ro_node ro_state].
  set (hh := h123 (rc_s1 c) (rc_s2 c) (msg_term m3)).
  set (st1 := update_sess st (rc_slot c) (f_idx f) cats peer
                (sess_key 0 (f_ipk f) hh (rc_shared c)) (sess_key 1 (f_ipk f) hh (rc_shared c))
                (sess_key 2 (f_ipk f) hh (rc_shared c))).
  assert (H1 : n_sessions st1 = base ++ [mkSession (rc_slot c) true (f_idx f) cats peer
                (sess_key 0 (f_ipk f) hh (rc_shared c)) (sess_key 1 (f_ipk f) hh (rc_shared c))
                (sess_key 2 (f_ipk f) hh (rc_shared c))]).
  { apply (update_slot st base (blank_session (rc_slot c))); assumption. }
  set (st2 := set_cache st1 (insert_or_update (n_cache st1)
                 (mkRecord (f_idx f) peer cats (rc_rid c) (rc_shared c)))).
  assert (H2 : n_sessions st2 = n_sessions st1) by reflexivity.
  pose proof (complete_slot st2 base _ (eq_trans H2 H1)) as H3. cbn [s_id s_fab s_cats s_peer s_dec s_enc s_att] in H3.
  specialize (H3 Hfresh).
  unfold same_frame. repeat split; try (cbn; congruence).
  right. eexists. split; [exact H3|]. split; [reflexivity|]. split.
  - exists q, f, noc, icac, sig, peer, cats. cbn zeta. cbn [s_fab s_peer s_cats s_reserved s_dec s_enc].
    rewrite <- Hclk. rewrite <- Hs2, <- Hs1, <- Hsh, <- Hop, <- Hpp.
    destruct Hcv as (Hv1 & Hv2 & Hv3).
    repeat split; try assumption; try reflexivity.
  - exists f. cbn [s_fab s_peer s_cats]. split.
    + destruct Hfwf as [Hnd _]. apply get_fabric_unique; assumption.
    + reflexivity.
Qed.

Lemma resp_finished_spec : forall st slot r new_rid m base x,
  n_sessions st = base ++ [x] -> s_id x = slot -> (forall s, In s base -> s_id s <> slot) ->
  let o := resp_finished st slot r new_rid m in
  same_frame st (ro_node o) /\ n_next_id (ro_node o) = n_next_id st /\ ro_state o = RDone /\
  ((n_sessions (ro_node o) = base /\ n_cache (ro_node o) = n_cache st)
   \/ (m_op m = OP_STATUS /\ status_is_success m = Ok true /\
       n_sessions (ro_node o) = base ++ [mkSession (s_id x) false (s_fab x) (s_cats x) (s_peer x) (s_dec x) (s_enc x) (s_att x)] /\
       n_cache (ro_node o) = insert_or_update (n_cache st)
                               (mkRecord (r_fab r) (r_peer r) (r_cats r) new_rid (r_secret r)))).
Proof.
  intros st slot r new_rid m base x Hsess Hid Hfresh. subst slot. unfold resp_finished.
  destruct (m_op m =? OP_STATUS) eqn:Hop; cbn [andb].
  - destruct (status_is_success m) as [[|]| |] eqn:Hs.
    + cbn [ro_node ro_state]. unfold same_frame. repeat split; try reflexivity.
      right. apply N.eqb_eq in Hop. repeat split; try assumption.
      apply complete_slot; assumption.
    + cbn [ro_node ro_state]. pose proof (release_fabrics st (s_id x)) as (Rf & Rc & Rk & Rn).
      unfold same_frame. repeat split; try assumption. left. split; [|assumption].
      apply (release_slot st base x); assumption.
    + cbn [ro_node ro_state]. pose proof (release_fabrics st (s_id x)) as (Rf & Rc & Rk & Rn).
      unfold same_frame. repeat split; try assumption. left. split; [|assumption].
      apply (release_slot st base x); assumption.
    + cbn [ro_node ro_state]. pose proof (release_fabrics st (s_id x)) as (Rf & Rc & Rk & Rn).
      unfold same_frame. repeat split; try assumption. left. split; [|assumption].
      apply (release_slot st base x); assumption.
  - cbn [ro_node ro_state]. pose proof (release_fabrics st (s_id x)) as (Rf & Rc & Rk & Rn).
    unfold same_frame. repeat split; try assumption. left. split; [|assumption].
    apply (release_slot st base x); assumption.
Qed.

Lemma resp_run_done : forall fr ms st, resp_run st RDone fr ms = (st, RDone, []).
Proof.
  induction ms as [|m r IH]; intros st; cbn [resp_run]; [reflexivity|].
  cbn [resp_step ro_node ro_state ro_msgs]. rewrite IH. reflexivity.
Qed.

(** identity-level backing of an operational session / of a resumption record *)
Definition sess_backed (st : node) (s : session) : Prop :=
  exists (f : fabric) (noc : cert) (icac : option cert),
    get_fabric (s_fab s) (n_fabrics st) = Some f /\
    case_valid (n_clock st) (f_fid f) (f_root f) noc icac /\
    get_node_id noc = Some (s_peer s) /\ cats_of noc = Ok (s_cats s).

Lemma full_sound_backed : forall st fr m1 m3 s,
  fabrics_wf (n_fabrics st) -> responder_full_sound st fr m1 m3 s -> sess_backed st s.
Proof.
  intros st fr m1 m3 s [Hnd _] (q & f & noc & icac & sig & peer & cats & Hq & Hd & Hin & H).
  cbn zeta in H. destruct H as (_ & Hcv & _ & Hn & Hc & Hf & Hp & Hcs & _).
  exists f, noc, icac. rewrite Hf, Hp, Hcs. split; [apply get_fabric_unique; assumption|].
  split; [exact Hcv|]. split; assumption.
Qed.

(** The responder handler fed ANY sequence of messages. *)
Theorem responder_run_sound : forall st fr ms st' rs' out,
  node_wf st -> resp_run st RIdle fr ms = (st', rs', out) ->
  same_frame st st' /\ sessions_wf st' /\
  (   (n_sessions st' = n_sessions st /\ n_cache st' = n_cache st /\ resp_abort st' rs' = st')
   \/ (exists x, n_sessions st' = n_sessions st ++ [x] /\ s_reserved x = true /\
                 n_cache st' = n_cache st /\ n_sessions (resp_abort st' rs') = n_sessions st)
   \/ (exists s m1 m3 rest rid sec f,
         ms = m1 :: m3 :: rest /\ n_sessions st' = n_sessions st ++ [s] /\ rs' = RDone /\
         responder_full_sound st fr m1 m3 s /\
         get_fabric (s_fab s) (n_fabrics st) = Some f /\
         n_cache st' = insert_or_update (n_cache st) (mkRecord (s_fab s) (s_peer s) (s_cats s) rid sec))
   \/ (exists s m1 mf rest r new_rid,
         ms = m1 :: mf :: rest /\ n_sessions st' = n_sessions st ++ [s] /\ rs' = RDone /\
         responder_resume_sound st m1 s /\ m_op mf = OP_STATUS /\ status_is_success mf = Ok true /\
         In r (n_cache st) /\ s_fab s = r_fab r /\ s_peer s = r_peer r /\ s_cats s = r_cats r /\
         n_cache st' = insert_or_update (n_cache st)
                         (mkRecord (r_fab r) (r_peer r) (r_cats r) new_rid (r_secret r)))).
Proof.
  intros st fr ms st' rs' out [Hfwf Hswf] Hrun.
  destruct ms as [|m1 rest].
  { cbn in Hrun. inversion Hrun; subst. unfold same_frame. repeat split; try assumption. left. auto. }
  assert (Hab : forall x, resp_abort x RDone = x) by reflexivity.
  cbn [resp_run resp_step] in Hrun.
  pose proof (resp_first_spec st fr m1) as Hf. cbn zeta in Hf.
  destruct Hf as (Hframe & Hnext & Hcache & Hcases). specialize (Hcases Hswf).
  set (o := resp_first st fr m1) in *.
  assert (Hwf_new : forall l, n_sessions st' = l -> n_next_id st' = n_next_id st + 1 ->
            (forall s, In s l -> In s (n_sessions st) \/ s_id s = n_next_id st) -> sessions_wf st').
  { intros l E En H s Hs. rewrite E in Hs. rewrite En. destruct (H s Hs) as [H1|H1].
    - apply Hswf in H1. lia.
    - lia. }
  destruct Hcases as [[Hst Hs]|[(c & Hst & Hslot & Hs & Hctx)|(q & r & rid & new_rid & f & Hst & Hq & Hrid & Hin & Hrr & Hmic & Hgf & Hs)]].
  - (* the first message ended the handler *)
    rewrite Hst, resp_run_done in Hrun. inversion Hrun; subst.
    split; [exact Hframe|]. split.
    + apply (Hwf_new (n_sessions st)); try assumption. intros s Hs'. left. exact Hs'.
    + left. repeat split; assumption.
  - (* waiting for Sigma3 *)
    rewrite Hst in Hrun. destruct rest as [|m3 rest].
    + cbn in Hrun. inversion Hrun; subst st' rs' out.
      split; [exact Hframe|]. split.
      * apply (Hwf_new _ Hs Hnext). intros s Hs'. apply in_app_or in Hs'.
        destruct Hs' as [Hs'|[<-|[]]]; [left; exact Hs'|right; reflexivity].
      * right. left. exists (blank_session (n_next_id st)). repeat split; try assumption.
        cbn [resp_abort]. rewrite Hslot.
        apply (release_slot (ro_node o) (n_sessions st) (blank_session (n_next_id st)) Hs).
        intros s Hs'. cbn. apply wf_ids_ne; assumption.
    + cbn [resp_run resp_step] in Hrun.
      assert (Hfresh : forall s, In s (n_sessions st) -> s_id s <> rc_slot c).
      { intros s Hs'. rewrite Hslot. apply wf_ids_ne; assumption. }
      rewrite <- Hslot in Hs.
      pose proof (resp_sigma3_spec st fr m1 (ro_node o) c m3 (n_sessions st) Hfwf Hframe Hctx Hs Hfresh) as H3.
      cbn zeta in H3. destruct H3 as (Hframe3 & Hnext3 & Hst3 & Hcases3).
      rewrite Hst3, resp_run_done in Hrun. inversion Hrun; subst st' rs' out.
      split; [exact Hframe3|].
      destruct Hcases3 as [[Hs3 Hc3]|(s & Hs3 & Hid3 & Hsound & f & Hgf & Hc3)].
      * split.
        { apply (Hwf_new _ Hs3); [congruence|]. intros s Hs'. left. exact Hs'. }
        left. repeat split; congruence.
      * split.
        { apply (Hwf_new _ Hs3); [congruence|]. intros s' Hs'. apply in_app_or in Hs'.
          destruct Hs' as [Hs'|[<-|[]]]; [left; exact Hs'|right; congruence]. }
        right. right. left. exists s, m1, m3, rest, (rc_rid c), (rc_shared c), f.
        repeat split; try assumption. congruence.
  - (* waiting for SigmaFinished *)
    rewrite Hst in Hrun. destruct rest as [|mf rest].
    + cbn in Hrun. inversion Hrun; subst st' rs' out.
      split; [exact Hframe|]. split.
      * apply (Hwf_new _ Hs Hnext). intros s Hs'. apply in_app_or in Hs'.
        destruct Hs' as [Hs'|[<-|[]]]; [left; exact Hs'|right; reflexivity].
      * right. left. eexists. split; [exact Hs|]. split; [reflexivity|]. split; [assumption|].
        cbn [resp_abort].
        match type of Hs with _ = _ ++ [?x] =>
          apply (release_slot (ro_node o) (n_sessions st) x Hs) end.
        intros s Hs'. cbn. apply wf_ids_ne; assumption.
    + cbn [resp_run resp_step] in Hrun.
      match type of Hs with _ = _ ++ [?x] =>
        pose proof (resp_finished_spec (ro_node o) (n_next_id st) r new_rid mf (n_sessions st) x Hs eq_refl) as Hfi end.
      assert (Hfresh : forall s, In s (n_sessions st) -> s_id s <> n_next_id st).
      { intros s Hs'. apply wf_ids_ne; assumption. }
      specialize (Hfi Hfresh). cbn zeta in Hfi. destruct Hfi as ([Hf1 Hf2] & Hnext3 & Hst3 & Hcases3).
      rewrite Hst3, resp_run_done in Hrun. inversion Hrun; subst st' rs' out.
      destruct Hframe as [Hfa Hcl].
      split; [split; congruence|].
      destruct Hcases3 as [[Hs3 Hc3]|(Hop & Hok & Hs3 & Hc3)].
      * split.
        { apply (Hwf_new _ Hs3); [congruence|]. intros s Hs'. left. exact Hs'. }
        left. repeat split; congruence.
      * cbn [s_id s_fab s_cats s_peer s_dec s_enc s_att] in Hs3. split.
        { apply (Hwf_new _ Hs3); [congruence|]. intros s' Hs'. apply in_app_or in Hs'.
          destruct Hs' as [Hs'|[<-|[]]]; [left; exact Hs'|right; reflexivity]. }
        right. right. right. eexists. exists m1, mf, rest, r, new_rid.
        split; [reflexivity|]. split; [exact Hs3|]. split; [reflexivity|]. split.
        { exists q, r, rid, f. cbn [s_fab s_peer s_cats s_reserved s_dec s_enc].
          repeat split; try assumption; try reflexivity. }
        cbn [s_fab s_peer s_cats]. repeat split; try assumption; try reflexivity. congruence.
Qed.
