(** mDNS TXT records and instance-name labels: what a device publishes is read
    back, number and hex-id printing/parsing are inverse. *)
From RsM Require Import Lib.MachInt Model.Headers Model.Codecs Model.CodecsMdns
  Proofs.HeadersFacts Proofs.CodecsBase38 Proofs.CodecsQr Proofs.CodecsCheckinFacts.
From Coq Require Import ZifyN ZifyBool.
Open Scope N_scope.

Arguments N.add : simpl never.
Arguments N.mul : simpl never.
Arguments N.pow : simpl never.
Arguments N.div : simpl never.
Arguments N.modulo : simpl never.
Arguments N.sub : simpl never.
Arguments N.ltb : simpl never.
Arguments N.leb : simpl never.
Arguments N.eqb : simpl never.
Arguments N.of_nat : simpl never.
Arguments N.to_nat : simpl never.

Ltac dm_lia := zify; Z.div_mod_to_equations; lia.

(** * ASCII strings *)

Definition asciiP (l : list N) : Prop := Forall (fun c => c < 128) l.

Lemma ascii_spec (l : list N) : ascii l = true <-> asciiP l.
Proof.
  unfold ascii, asciiP. rewrite forallb_forall, Forall_forall.
  split; intros H x Hx; specialize (H x Hx); lia.
Qed.

Lemma asciiP_app (a b : list N) : asciiP (a ++ b) <-> asciiP a /\ asciiP b.
Proof. apply Forall_app. Qed.

Lemma utf8_valid_ascii (l : list N) : asciiP l -> utf8_valid l = true.
Proof.
  intro H. induction H as [|c t Hc Ht IH]; [reflexivity|].
  cbn [utf8_valid]. replace (c <? 128) with true by lia. exact IH.
Qed.

Lemma split_first_app (c : N) (k v : list N) :
  ~ In c k -> split_first c (k ++ c :: v) = Some (k, v).
Proof.
  induction k as [|x k IH]; intro Hn; cbn [app split_first].
  - rewrite N.eqb_refl. reflexivity.
  - replace (x =? c) with false
      by (symmetry; apply N.eqb_neq; intro; subst; apply Hn; left; reflexivity).
    rewrite IH by (intro Hin; apply Hn; right; exact Hin). reflexivity.
Qed.

(** * TXT rdata *)

Definition good_kv (kv : list N * list N) : Prop :=
  asciiP (fst kv) /\ asciiP (snd kv) /\ ~ In EQ (fst kv) /\
  (length (fst kv) + length (snd kv) + 1 <= 255)%nat.

Lemma txt_decode_entries (kvs : list (list N * list N)) (fuel : nat) :
  Forall good_kv kvs -> (length (flat_map txt_entry kvs) <= fuel)%nat ->
  txt_decode_fuel fuel (flat_map txt_entry kvs) = kvs.
Proof.
  intro Hg. revert fuel. induction Hg as [|[k v] t (Hk & Hv & Hne & Hl) Ht IH]; intros fuel Hf.
  - destruct fuel; reflexivity.
  - cbn [fst snd] in *. cbn [flat_map] in *. unfold txt_entry at 1 in Hf. unfold txt_entry at 1.
    cbn [fst snd app length] in *.
    destruct fuel as [|fuel]; [lia|]. cbn [txt_decode_fuel].
    rewrite N.mod_small by lia. rewrite Nat2N.id.
    rewrite <- app_assoc. cbn [app].
    assert (Hbody : length (k ++ EQ :: v) = (length k + length v + 1)%nat)
      by (rewrite app_length; cbn [length]; lia).
    rewrite <- app_assoc in Hf. cbn [app] in Hf.
    replace (k ++ EQ :: v ++ flat_map txt_entry t) with ((k ++ EQ :: v) ++ flat_map txt_entry t)
      by (rewrite <- app_assoc; reflexivity).
    replace (k ++ EQ :: v ++ flat_map txt_entry t) with ((k ++ EQ :: v) ++ flat_map txt_entry t) in Hf
      by (rewrite <- app_assoc; reflexivity).
    rewrite app_length, Hbody. rewrite app_length, Hbody in Hf. rewrite Nat.min_l by lia.
    rewrite (firstn_len_eq _ _ _ Hbody), (skipn_len_eq _ _ _ Hbody).
    rewrite utf8_valid_ascii
      by (apply asciiP_app; split; [exact Hk|constructor; [unfold EQ; lia|exact Hv]]).
    rewrite split_first_app by exact Hne.
    cbn [app]. rewrite IH by lia. reflexivity.
Qed.

Lemma txt_roundtrip (kvs : list (list N * list N)) :
  Forall good_kv kvs -> txt_decode (txt_encode kvs) = kvs.
Proof.
  intro Hg. unfold txt_decode, txt_encode. destruct kvs as [|kv t]; [reflexivity|].
  apply txt_decode_entries; [exact Hg|lia].
Qed.

(** * Decimal numbers *)

Lemma pow10_S (n : nat) : 10 ^ N.of_nat (S n) = 10 * 10 ^ N.of_nat n.
Proof. rewrite Nat2N.inj_succ, N.pow_succ_r'. reflexivity. Qed.

Definition digitsP (l : list N) : Prop := Forall (fun c => 48 <= c <= 57) l.

Lemma dec_print_fuel_digits (f : nat) (v : N) : digitsP (dec_print_fuel f v).
Proof.
  revert v. induction f as [|f IH]; intro v; cbn [dec_print_fuel]; [constructor|].
  destruct (v <? 10) eqn:E.
  - constructor; [lia|constructor].
  - apply Forall_app. split; [apply IH|]. constructor; [|constructor].
    assert (v mod 10 < 10) by (apply N.mod_lt; discriminate). lia.
Qed.

Lemma dec_print_fuel_length (f : nat) (v : N) : (length (dec_print_fuel f v) <= f)%nat.
Proof.
  revert v. induction f as [|f IH]; intro v; cbn [dec_print_fuel]; [cbn; lia|].
  destruct (v <? 10); [cbn; lia|].
  rewrite app_length. cbn [length]. specialize (IH (v / 10)). lia.
Qed.

Lemma dec_print_fuel_nonempty (f : nat) (v : N) : dec_print_fuel (S f) v <> [].
Proof.
  cbn [dec_print_fuel]. destruct (v <? 10); [discriminate|].
  intro H. apply app_eq_nil in H as [_ H]. discriminate.
Qed.

Lemma parse_digits_app (bound : N) (a b : list N) (acc : N) :
  parse_digits bound (a ++ b) acc =
  match parse_digits bound a acc with Some x => parse_digits bound b x | None => None end.
Proof.
  revert acc. induction a as [|c a IH]; intro acc; cbn [app parse_digits]; [reflexivity|].
  destruct (in_range 48 57 c); [|reflexivity].
  destruct (acc * 10 + (c - 48) <? bound); [apply IH|reflexivity].
Qed.

Lemma parse_digits_print (bound : N) (f : nat) (v : N) :
  v < bound -> v < 10 ^ N.of_nat f ->
  parse_digits bound (dec_print_fuel f v) 0 = Some v.
Proof.
  revert v. induction f as [|f IH]; intros v Hb Hf.
  - change (10 ^ N.of_nat 0) with 1 in Hf. assert (v = 0) by lia. subst.
    reflexivity.
  - cbn [dec_print_fuel]. rewrite pow10_S in Hf.
    destruct (v <? 10) eqn:E.
    + cbn [parse_digits]. unfold in_range.
      replace ((48 <=? 48 + v) && (48 + v <=? 57)) with true by lia.
      replace (0 * 10 + (48 + v - 48)) with v by lia.
      replace (v <? bound) with true by lia. reflexivity.
    + rewrite parse_digits_app.
      assert (Hp : 0 < 10 ^ N.of_nat f) by (apply N.neq_0_lt_0, N.pow_nonzero; discriminate).
      rewrite IH by (try (apply N.div_lt_upper_bound; lia); dm_lia).
      cbn [parse_digits]. unfold in_range.
      assert (Hm : v mod 10 < 10) by (apply N.mod_lt; discriminate).
      replace ((48 <=? 48 + v mod 10) && (48 + v mod 10 <=? 57)) with true by lia.
      replace (v / 10 * 10 + (48 + v mod 10 - 48)) with v by dm_lia.
      replace (v <? bound) with true by lia. reflexivity.
Qed.

Lemma two64_lt_pow20 : two64 < 10 ^ N.of_nat 20.
Proof. vm_compute. reflexivity. Qed.

Lemma parse_print (bound v : N) :
  v < bound -> bound <= two64 -> parse_uint bound (dec_print v) = Some v.
Proof.
  intros Hv Hb. unfold parse_uint, dec_print.
  pose proof (dec_print_fuel_digits 20 v) as Hd.
  pose proof (dec_print_fuel_nonempty 19 v) as Hn.
  pose proof (parse_digits_print bound 20 v Hv) as Hp.
  destruct (dec_print_fuel 20 v) as [|c t] eqn:E; [contradiction|].
  pose proof (Forall_inv Hd) as Hc. cbv beta in Hc.
  assert (Hc43 : c <> 43) by lia.
  destruct c as [|p]; [lia|].
  destruct (N.eq_dec (N.pos p) 43) as [E43|_]; [contradiction|].
  assert (Hm : match N.pos p with 43 => t | _ => N.pos p :: t end = N.pos p :: t).
  { destruct p as [p|p|]; try reflexivity;
    repeat (destruct p as [p|p|]; try reflexivity); exfalso; apply Hc43; reflexivity. }
  rewrite Hm. apply Hp. pose proof two64_lt_pow20. lia.
Qed.

Lemma dec_print_ascii (v : N) : asciiP (dec_print v).
Proof.
  pose proof (dec_print_fuel_digits 20 v) as H. unfold dec_print, asciiP, digitsP in *.
  rewrite Forall_forall in *. intros x Hx. specialize (H x Hx). lia.
Qed.

Lemma dec_print_no (c : N) (v : N) : ~ (48 <= c <= 57) -> ~ In c (dec_print v).
Proof.
  intros Hc Hin. pose proof (dec_print_fuel_digits 20 v) as H. unfold dec_print, digitsP in *.
  rewrite Forall_forall in H. specialize (H c Hin). lia.
Qed.

Lemma dec_print_length (v : N) : (length (dec_print v) <= 20)%nat.
Proof. apply dec_print_fuel_length. Qed.

Lemma dec_print_nonempty (v : N) : dec_print v <> [].
Proof. apply (dec_print_fuel_nonempty 19). Qed.

(** * The commissionable TXT record *)

Lemma opt_kv_cons (k v : list N) : v <> [] -> opt_kv k v = [(k, v)].
Proof. destruct v; [contradiction|reflexivity]. Qed.

Lemma fold_opt_kv {A} (step : A -> list N * list N -> A) (k v : list N)
      (rest : list (list N * list N)) (acc : A) :
  fold_left step (opt_kv k v ++ rest) acc =
  fold_left step rest (match v with [] => acc | _ => step acc (k, v) end).
Proof. destruct v; reflexivity. Qed.

Lemma fold_opt_kv_ne {A} (step : A -> list N * list N -> A) (k v : list N)
      (rest : list (list N * list N)) (acc : A) :
  v <> [] -> fold_left step (opt_kv k v ++ rest) acc = fold_left step rest (step acc (k, v)).
Proof. destruct v; [contradiction|reflexivity]. Qed.

Lemma comm_adv_valid_inv (a : comm_adv) : comm_adv_valid a = true ->
  ca_disc a < 4096 /\ ca_vid a < two16 /\ ca_pid a < two16 /\
  (forall v, ca_sai a = Some v -> v < two32) /\ (forall v, ca_sii a = Some v -> v < two32) /\
  (forall v, ca_dt a = Some v -> v < two32) /\ ca_ph a < two32 /\
  asciiP (ca_dn a) /\ asciiP (ca_pi a) /\
  (length (ca_dn a) <= 200)%nat /\ (length (ca_pi a) <= 200)%nat.
Proof.
  unfold comm_adv_valid. intro H. repeat (apply andb_prop in H; destruct H as [H ?]).
  repeat split; try lia; try (apply ascii_spec; assumption);
    try (apply Nat.leb_le; assumption).
  - intros v E. rewrite E in *. lia.
  - intros v E. rewrite E in *. lia.
  - intros v E. rewrite E in *. lia.
Qed.

Lemma good_opt_kv (k v : list N) :
  asciiP k -> ~ In EQ k -> (length k <= 3)%nat -> asciiP v -> (length v <= 250)%nat ->
  Forall good_kv (opt_kv k v).
Proof.
  intros Hk Hn Hl Hv Hlv. destruct v as [|c v]; [constructor|].
  constructor; [|constructor]. unfold good_kv. cbn [fst snd]. repeat split; try assumption. lia.
Qed.

Ltac key_facts :=
  first [ solve [repeat constructor; lia]
        | solve [unfold EQ; cbn [In]; intuition discriminate]
        | solve [cbn [length]; lia] ].

Lemma comm_txt_good (a : comm_adv) : comm_adv_valid a = true -> Forall good_kv (comm_txt a).
Proof.
  intro Hv. apply comm_adv_valid_inv in Hv as (_ & _ & _ & _ & _ & _ & _ & Hdn & Hpi & Hldn & Hlpi).
  unfold comm_txt.
  repeat (apply Forall_app; split); apply good_opt_kv;
    try (unfold K_D, K_CM, K_VP, K_SAI, K_SII, K_DN, K_PI, K_PH, K_DT, K_T, K_ICD; key_facts);
    try apply dec_print_ascii; try assumption; try lia;
    try (pose proof (dec_print_length (ca_disc a)); pose proof (dec_print_length (ca_ph a)); lia).
  - destruct (ca_enhanced a); repeat constructor; lia.
  - destruct (ca_enhanced a); cbn [length]; lia.
  - apply asciiP_app; split; [apply dec_print_ascii|].
    constructor; [unfold PLUS; lia|apply dec_print_ascii].
  - rewrite !app_length. cbn [length].
    pose proof (dec_print_length (ca_vid a)). pose proof (dec_print_length (ca_pid a)). lia.
  - destruct (ca_sai a); [apply dec_print_ascii|constructor].
  - destruct (ca_sai a) as [v|]; cbn [opt_dec length]; [pose proof (dec_print_length v)|]; lia.
  - destruct (ca_sii a); [apply dec_print_ascii|constructor].
  - destruct (ca_sii a) as [v|]; cbn [opt_dec length]; [pose proof (dec_print_length v)|]; lia.
  - destruct (ca_dt a); [apply dec_print_ascii|constructor].
  - destruct (ca_dt a) as [v|]; cbn [opt_dec length]; [pose proof (dec_print_length v)|]; lia.
  - destruct (ca_tcp a); repeat constructor; lia.
  - destruct (ca_tcp a); cbn [length]; lia.
  - destruct (ca_icd a) as [[|]|]; repeat constructor; lia.
  - destruct (ca_icd a) as [[|]|]; cbn [length]; lia.
Qed.

(** the published record is read back pair by pair *)
Lemma comm_txt_roundtrip (a : comm_adv) :
  comm_adv_valid a = true -> txt_decode (txt_encode (comm_txt a)) = comm_txt a.
Proof. intro H. apply txt_roundtrip, comm_txt_good, H. Qed.

(** keys that the filter does not look at leave its state alone *)
Lemma tf_step_other (acc : txt_fields) (k v : list N) :
  eq_nocase k K_D = false -> eq_nocase k K_VP = false -> eq_nocase k K_CM = false ->
  eq_nocase k K_DT = false -> tf_step acc (k, v) = acc.
Proof. intros H1 H2 H3 H4. unfold tf_step. rewrite H1, H2, H3, H4. reflexivity. Qed.

Lemma fold_opt_kv_other (k v : list N) (rest : list (list N * list N)) (acc : txt_fields) :
  eq_nocase k K_D = false -> eq_nocase k K_VP = false -> eq_nocase k K_CM = false ->
  eq_nocase k K_DT = false ->
  fold_left tf_step (opt_kv k v ++ rest) acc = fold_left tf_step rest acc.
Proof.
  intros H1 H2 H3 H4. destruct v as [|c v]; [reflexivity|].
  cbn [opt_kv app fold_left]. rewrite tf_step_other by assumption. reflexivity.
Qed.

Lemma comm_txt_scan (a : comm_adv) :
  comm_adv_valid a = true ->
  txt_scan (comm_txt a) =
  mkTF (Some (ca_disc a)) (Some (ca_vid a)) (Some (ca_pid a)) (ca_dt a)
       (if ca_enhanced a then 2 else 1).
Proof.
  intro Hv. apply comm_adv_valid_inv in Hv as (Hd & Hvid & Hpid & _ & _ & Hdt & _).
  unfold txt_scan, comm_txt.
  rewrite fold_opt_kv_ne by apply dec_print_nonempty.
  assert (S1 : tf_step tf_init (K_D, dec_print (ca_disc a)) =
               mkTF (Some (ca_disc a)) None None None 0).
  { unfold tf_step. change (eq_nocase K_D K_D) with true. cbv iota.
    rewrite parse_print by (unfold two16, two64; lia).
    replace (ca_disc a <=? 4095) with true by lia. reflexivity. }
  rewrite S1.
  rewrite fold_opt_kv_ne by (destruct (ca_enhanced a); discriminate).
  assert (S2 : tf_step (mkTF (Some (ca_disc a)) None None None 0)
                 (K_CM, if ca_enhanced a then [50] else [49]) =
               mkTF (Some (ca_disc a)) None None None (if ca_enhanced a then 2 else 1)).
  { destruct (ca_enhanced a); reflexivity. }
  rewrite S2.
  assert (Hvp : dec_print (ca_vid a) ++ [PLUS] ++ dec_print (ca_pid a) <> []).
  { intro H. apply app_eq_nil in H as [H _]. exact (dec_print_nonempty _ H). }
  rewrite fold_opt_kv_ne by exact Hvp.
  assert (S3 : forall acc, tf_step acc (K_VP, dec_print (ca_vid a) ++ [PLUS] ++ dec_print (ca_pid a)) =
               mkTF (f_disc acc) (Some (ca_vid a)) (Some (ca_pid a)) (f_dt acc) (f_cm acc)).
  { intro acc. unfold tf_step. change (eq_nocase K_VP K_D) with false.
    change (eq_nocase K_VP K_VP) with true. cbv iota. cbn [app].
    rewrite split_first_app by (apply dec_print_no; unfold PLUS; lia).
    rewrite !parse_print by (unfold two16, two64 in *; lia). reflexivity. }
  rewrite S3. cbn [f_disc f_dt f_cm].
  (* SAI, SII, DN, PI, PH: not looked at *)
  do 5 (rewrite fold_opt_kv_other by reflexivity).
  (* DT *)
  rewrite fold_opt_kv.
  assert (S4 : match opt_dec (ca_dt a) with
               | [] => mkTF (Some (ca_disc a)) (Some (ca_vid a)) (Some (ca_pid a)) None
                         (if ca_enhanced a then 2 else 1)
               | _ => tf_step (mkTF (Some (ca_disc a)) (Some (ca_vid a)) (Some (ca_pid a)) None
                         (if ca_enhanced a then 2 else 1)) (K_DT, opt_dec (ca_dt a)) end =
               mkTF (Some (ca_disc a)) (Some (ca_vid a)) (Some (ca_pid a)) (ca_dt a)
                    (if ca_enhanced a then 2 else 1)).
  { destruct (ca_dt a) as [dt|] eqn:Edt; cbn [opt_dec]; [|reflexivity].
    pose proof (dec_print_nonempty dt) as Hn.
    destruct (dec_print dt) as [|c2 t2] eqn:E2; [contradiction|]. rewrite <- E2.
    unfold tf_step. change (eq_nocase K_DT K_D) with false. change (eq_nocase K_DT K_VP) with false.
    change (eq_nocase K_DT K_CM) with false. change (eq_nocase K_DT K_DT) with true. cbv iota.
    rewrite parse_print by (try apply Hdt; try reflexivity; unfold two32, two64; lia). reflexivity. }
  rewrite S4.
  (* T, ICD *)
  rewrite fold_opt_kv_other by reflexivity.
  rewrite <- (app_nil_r (opt_kv K_ICD _)). rewrite fold_opt_kv_other by reflexivity.
  reflexivity.
Qed.

(** a device's own values, used as a filter, find the device *)
Lemma opt_eqb_refl (o : option N) : opt_eqb o o = true.
Proof. destruct o; [apply N.eqb_refl|reflexivity]. Qed.

Lemma comm_own_filter_matches (a : comm_adv) :
  comm_adv_valid a = true ->
  filter_matches (mkCF (Some (ca_disc a)) (Some (ca_disc a / 256)) (Some (ca_vid a)) (Some (ca_pid a))
                       (ca_dt a) true)
                 (txt_scan (txt_decode (txt_encode (comm_txt a)))) = true.
Proof.
  intro Hv. rewrite comm_txt_roundtrip, comm_txt_scan by exact Hv.
  apply comm_adv_valid_inv in Hv as (Hd & _).
  unfold filter_matches, want.
  cbn [c_disc c_short c_vid c_pid c_dt c_cm_only f_disc f_vid f_pid f_dt f_cm opt_eqb].
  rewrite !N.eqb_refl.
  replace ((ca_disc a / 256) mod 256 =? ca_disc a / 256) with true by dm_lia.
  destruct (ca_dt a); [rewrite opt_eqb_refl|]; destruct (ca_enhanced a); reflexivity.
Qed.

(** * Hex instance ids *)

Lemma hex_val_char (d : N) : d < 16 -> hex_val (hex_char d) = Some d.
Proof.
  intro H.
  assert (Hc : (match hex_val (hex_char d) with Some x => x =? d | None => false end) = true).
  { revert d H. apply (forall_lt_by_compute 16). vm_compute. reflexivity. }
  destruct (hex_val (hex_char d)); [|discriminate]. apply N.eqb_eq in Hc. subst. reflexivity.
Qed.

Lemma hex_char_range (d : N) : d < 16 -> hex_char d < 128 /\ hex_char d <> MINUS.
Proof.
  intro H.
  assert (Hc : ((hex_char d <? 128) && negb (hex_char d =? MINUS)) = true).
  { revert d H. apply (forall_lt_by_compute 16). vm_compute. reflexivity. }
  apply andb_prop in Hc as [H1 H2]. split; [lia|]. apply negb_true_iff, N.eqb_neq in H2. exact H2.
Qed.

Lemma parse_hex_acc_app (a b : list N) (acc : N) :
  parse_hex_acc (a ++ b) acc =
  match parse_hex_acc a acc with Some x => parse_hex_acc b x | None => None end.
Proof.
  revert acc. induction a as [|c a IH]; intro acc; cbn [app parse_hex_acc]; [reflexivity|].
  destruct (hex_val c); [|reflexivity].
  destruct (acc * 16 + n <? two64); [apply IH|reflexivity].
Qed.

Lemma pow16_S (n : nat) : 16 ^ N.of_nat (S n) = 16 * 16 ^ N.of_nat n.
Proof. rewrite Nat2N.inj_succ, N.pow_succ_r'. reflexivity. Qed.

Lemma parse_hex_digits (n : nat) (v : N) :
  16 ^ N.of_nat n <= two64 ->
  parse_hex_acc (hex_digits n v) 0 = Some (v mod 16 ^ N.of_nat n).
Proof.
  revert v. induction n as [|n IH]; intros v Hn.
  - cbn [hex_digits parse_hex_acc]. change (16 ^ N.of_nat 0) with 1. rewrite N.mod_1_r. reflexivity.
  - cbn [hex_digits]. rewrite pow16_S in *.
    assert (Hp : 0 < 16 ^ N.of_nat n) by (apply N.neq_0_lt_0, N.pow_nonzero; discriminate).
    rewrite parse_hex_acc_app, IH by lia.
    cbn [parse_hex_acc].
    assert (Hm : v mod 16 < 16) by (apply N.mod_lt; discriminate).
    rewrite hex_val_char by exact Hm.
    assert (Hq : (v / 16) mod 16 ^ N.of_nat n < 16 ^ N.of_nat n) by (apply N.mod_lt; lia).
    assert (He : (v / 16) mod 16 ^ N.of_nat n * 16 + v mod 16 = v mod (16 * 16 ^ N.of_nat n)).
    { rewrite (N.mod_mul_r v 16 (16 ^ N.of_nat n)) by lia. lia. }
    rewrite He.
    assert (v mod (16 * 16 ^ N.of_nat n) < 16 * 16 ^ N.of_nat n) by (apply N.mod_lt; lia).
    replace (v mod (16 * 16 ^ N.of_nat n) <? two64) with true by lia. reflexivity.
Qed.

Lemma hex16_nonempty (v : N) : hex16 v <> [].
Proof.
  unfold hex16. cbn [hex_digits]. intro H. apply app_eq_nil in H as [_ H]. discriminate.
Qed.

Lemma parse_hex16 (v : N) : v < two64 -> parse_hex_u64 (hex16 v) = Some v.
Proof.
  intro Hv. unfold parse_hex_u64. pose proof (hex16_nonempty v) as Hn.
  destruct (hex16 v) eqn:E; [contradiction|]. rewrite <- E. unfold hex16.
  rewrite parse_hex_digits by (vm_compute; discriminate).
  change (16 ^ N.of_nat 16) with two64. rewrite N.mod_small by exact Hv. reflexivity.
Qed.

Lemma hex_digits_chars (n : nat) (v : N) :
  Forall (fun c => c < 128 /\ c <> MINUS) (hex_digits n v).
Proof.
  revert v. induction n as [|n IH]; intro v; cbn [hex_digits]; [constructor|].
  apply Forall_app. split; [apply IH|]. constructor; [|constructor].
  apply hex_char_range. apply N.mod_lt. discriminate.
Qed.

Lemma hex16_ascii (v : N) : asciiP (hex16 v).
Proof.
  pose proof (hex_digits_chars 16 v) as H. unfold hex16, asciiP. rewrite Forall_forall in *.
  intros x Hx. apply (H x Hx).
Qed.

Lemma hex16_no_minus (v : N) : ~ In MINUS (hex16 v).
Proof.
  pose proof (hex_digits_chars 16 v) as H. unfold hex16. rewrite Forall_forall in H.
  intro Hin. destruct (H _ Hin) as [_ Hne]. apply Hne. reflexivity.
Qed.

Lemma comm_label_roundtrip (id : N) : id < two64 -> comm_label_match id (comm_label id) = true.
Proof.
  intro H. unfold comm_label_match, comm_label.
  rewrite utf8_valid_ascii by apply hex16_ascii. rewrite parse_hex16 by exact H.
  cbn [opt_eqb andb]. apply N.eqb_refl.
Qed.

Lemma comm_label_exact (id id' : N) :
  id < two64 -> comm_label_match id' (comm_label id) = true -> id' = id.
Proof.
  intros H. unfold comm_label_match, comm_label.
  rewrite utf8_valid_ascii by apply hex16_ascii. rewrite parse_hex16 by exact H.
  cbn [opt_eqb andb]. intro E. apply N.eqb_eq in E. congruence.
Qed.

Lemma op_label_split (fabric node : N) :
  split_first MINUS (op_label fabric node) = Some (hex16 fabric, hex16 node).
Proof. unfold op_label. cbn [app]. apply split_first_app, hex16_no_minus. Qed.

Lemma op_label_ascii (fabric node : N) : asciiP (op_label fabric node).
Proof.
  unfold op_label. apply asciiP_app. split; [apply hex16_ascii|].
  constructor; [unfold MINUS; lia|apply hex16_ascii].
Qed.

Lemma op_label_roundtrip (fabric node : N) :
  fabric < two64 -> node < two64 -> op_label_match fabric node (op_label fabric node) = true.
Proof.
  intros Hf Hn. unfold op_label_match.
  rewrite utf8_valid_ascii by apply op_label_ascii. rewrite op_label_split.
  rewrite !parse_hex16 by assumption. cbn [opt_eqb andb]. rewrite !N.eqb_refl. reflexivity.
Qed.

Lemma op_label_exact (fabric node f' n' : N) :
  fabric < two64 -> node < two64 ->
  op_label_match f' n' (op_label fabric node) = true -> f' = fabric /\ n' = node.
Proof.
  intros Hf Hn. unfold op_label_match.
  rewrite utf8_valid_ascii by apply op_label_ascii. rewrite op_label_split.
  rewrite !parse_hex16 by assumption. cbn [opt_eqb andb]. intro E.
  apply andb_prop in E as [E1 E2]. apply N.eqb_eq in E1, E2. split; congruence.
Qed.
